/-
  Helper lemmas for C11 (core Lean only).  Statements of the property are in Properties/C11.lean.
-/
import AriadneModel.Model.BaseClientTree

set_option linter.unusedSimpArgs false
set_option linter.unusedVariables false

namespace Ariadne.BaseClient
open Ariadne

/-! ### A. `separate_files`: the returned tree -/

mutual
theorem sep_fst (p : String) (v : PV) (st : List Entry) : (sep p v st).1 = nullUploads v := by
  cases v with
  | list xs => simp [sep, nullUploads, sepList_fst p 0 xs st]
  | dict kvs => simp [sep, nullUploads, sepDict_fst p kvs st]
  | _ => simp [sep, nullUploads]
theorem sepList_fst (p : String) (i : Nat) (xs : List PV) (st : List Entry) :
    (sepList p i xs st).1 = nullUploadsList xs := by
  cases xs with
  | nil => simp [sepList, nullUploadsList]
  | cons x xs => simp [sepList, nullUploadsList, sep_fst _ x st, sepList_fst p (i+1) xs]
theorem sepDict_fst (p : String) (kvs : List (String × PV)) (st : List Entry) :
    (sepDict p kvs st).1 = nullUploadsKvs kvs := by
  cases kvs with
  | nil => simp [sepDict, nullUploadsKvs]
  | cons kv rest =>
    obtain ⟨k, x⟩ := kv
    simp [sepDict, nullUploadsKvs, sep_fst _ x st, sepDict_fst p rest]
end

/-! ### A'. `separate_files`: the threaded `(files_list, files_map)` is a fold over the upload positions -/

/-- record the rendered path of every position, in order -/
def collect (base : String) (ps : List (Path × Nat)) (st : List Entry) : List Entry :=
  ps.foldl (fun st pu => addPath pu.2 (render base pu.1) st) st

theorem collect_nil (base : String) (st : List Entry) : collect base [] st = st := rfl

theorem collect_append (base : String) (l₁ l₂ : List (Path × Nat)) (st : List Entry) :
    collect base (l₁ ++ l₂) st = collect base l₂ (collect base l₁ st) := by
  simp [collect, List.foldl_append]

theorem collect_map_cons (base : String) (s : Seg) (l : List (Path × Nat)) (st : List Entry) :
    collect base (l.map (fun pu => (s :: pu.1, pu.2))) st = collect (base ++ "." ++ s.str) l st := by
  simp [collect, List.foldl_map, render]

mutual
theorem sep_snd (p : String) (v : PV) (st : List Entry) : (sep p v st).2 = collect p (upos v) st := by
  cases v with
  | list xs => simp [sep, upos, sepList_snd p 0 xs st]
  | dict kvs => simp [sep, upos, sepDict_snd p kvs st]
  | upload i => simp [sep, upos, collect, render]
  | _ => simp [sep, upos, collect]
theorem sepList_snd (p : String) (i : Nat) (xs : List PV) (st : List Entry) :
    (sepList p i xs st).2 = collect p (uposList i xs) st := by
  cases xs with
  | nil => simp [sepList, uposList, collect]
  | cons x xs =>
    simp only [sepList, uposList, collect_append]
    rw [sepList_snd p (i+1) xs, sep_snd _ x st, collect_map_cons]
    rfl
theorem sepDict_snd (p : String) (kvs : List (String × PV)) (st : List Entry) :
    (sepDict p kvs st).2 = collect p (uposKvs kvs) st := by
  cases kvs with
  | nil => simp [sepDict, uposKvs, collect]
  | cons kv rest =>
    obtain ⟨k, x⟩ := kv
    simp only [sepDict, uposKvs, collect_append]
    rw [sepDict_snd p rest, sep_snd _ x st, collect_map_cons]
    rfl
end

/-! ### B. algebra of `addPath` -/

def ids (st : List Entry) : List Nat := st.map Entry.id

def pathsOf (u : Nat) : List Entry → List String
  | [] => []
  | e :: es => if e.id = u then e.paths else pathsOf u es

theorem ids_addPath (u : Nat) (p : String) (st : List Entry) :
    ids (addPath u p st) = if u ∈ ids st then ids st else ids st ++ [u] := by
  induction st with
  | nil => simp [addPath, ids]
  | cons e es ih =>
    by_cases h : e.id = u
    · simp [addPath, ids, h]
    · have h' : ¬ u = e.id := fun x => h x.symm
      have e1 : ids (e :: es) = e.id :: ids es := rfl
      have e2 : ids (addPath u p (e :: es)) = e.id :: ids (addPath u p es) := by simp [addPath, h, ids]
      rw [e2, ih, e1]
      by_cases hm : u ∈ ids es <;> simp [hm, h']

theorem pathsOf_addPath (u' u : Nat) (p : String) (st : List Entry) :
    pathsOf u' (addPath u p st) = if u' = u then pathsOf u st ++ [p] else pathsOf u' st := by
  induction st with
  | nil =>
    by_cases h : u' = u
    · simp [addPath, pathsOf, h]
    · have : ¬ u = u' := fun x => h x.symm
      simp [addPath, pathsOf, h, this]
  | cons e es ih =>
    by_cases h : e.id = u
    · by_cases h2 : u' = u
      · subst h2; simp [addPath, pathsOf, h]
      · have h3 : ¬ e.id = u' := fun x => h2 (x ▸ h)
        have h4 : ¬ u = u' := fun x => h2 x.symm
        simp [addPath, pathsOf, h, h2, h3, h4]
    · by_cases h2 : u' = u
      · subst h2; simp [addPath, pathsOf, h, ih]
      · by_cases h3 : e.id = u' <;> simp [addPath, pathsOf, h, h2, h3, ih]

theorem firstOcc_mem (u : Nat) (l : List Nat) : u ∈ firstOcc l ↔ u ∈ l := by
  induction l with
  | nil => simp [firstOcc]
  | cons x xs ih =>
    by_cases h : u = x
    · simp [firstOcc, h]
    · simp [firstOcc, h, List.mem_filter, ih]

theorem firstOcc_nodup (l : List Nat) : (firstOcc l).Nodup := by
  induction l with
  | nil => simp [firstOcc]
  | cons x xs ih =>
    simp only [firstOcc, List.nodup_cons]
    refine ⟨by simp [List.mem_filter], ?_⟩
    exact List.Pairwise.filter _ ih

/-- rendered paths with their upload, in traversal order -/
def collectS (ps : List (String × Nat)) (st : List Entry) : List Entry :=
  ps.foldl (fun st pu => addPath pu.2 pu.1 st) st

theorem collect_eq_collectS (base : String) (ps : List (Path × Nat)) (st : List Entry) :
    collect base ps st = collectS (ps.map fun pu => (render base pu.1, pu.2)) st := by
  simp [collect, collectS, List.foldl_map]

theorem ids_collectS (ps : List (String × Nat)) (st : List Entry) :
    ids (collectS ps st) = ids st ++ (firstOcc (ps.map (·.2))).filter (fun u => u ∉ ids st) := by
  induction ps generalizing st with
  | nil => simp [collectS, firstOcc]
  | cons pu rest ih =>
    obtain ⟨p, u⟩ := pu
    have step : collectS ((p, u) :: rest) st = collectS rest (addPath u p st) := rfl
    rw [step, ih, ids_addPath]
    by_cases h : u ∈ ids st
    · simp only [h, if_true, List.map_cons, firstOcc]
      congr 1
      rw [List.filter_cons]
      simp only [h, not_true_eq_false, decide_false, Bool.false_eq_true, if_false, List.filter_filter]
      apply List.filter_congr
      intro x _
      by_cases hx : x ∈ ids st
      · simp [hx]
      · have : x ≠ u := fun e => hx (e ▸ h)
        simp [hx, this]
    · simp only [h, if_false, List.map_cons, firstOcc, List.append_assoc]
      congr 1
      rw [List.filter_cons]
      simp only [h, not_false_eq_true, decide_true, if_true, List.singleton_append, List.filter_filter]
      congr 1
      apply List.filter_congr
      intro x _
      by_cases hx : x ∈ ids st <;> by_cases hu : x = u <;> simp [hx, hu]

theorem pathsOf_collectS (u : Nat) (ps : List (String × Nat)) (st : List Entry) :
    pathsOf u (collectS ps st) = pathsOf u st ++ ((ps.filter (fun pu => pu.2 = u)).map (·.1)) := by
  induction ps generalizing st with
  | nil => simp [collectS]
  | cons pu rest ih =>
    obtain ⟨p, u'⟩ := pu
    have step : collectS ((p, u') :: rest) st = collectS rest (addPath u' p st) := rfl
    rw [step, ih, pathsOf_addPath]
    by_cases h : u = u'
    · subst h; simp [List.filter_cons]
    · have : ¬ u' = u := fun x => h x.symm
      simp [h, this, List.filter_cons]


/-! ### C. `files` and `map` are the entries, position by position -/

theorem filesOf_get (i n : Nat) (st : List Entry) :
    (filesOf i st)[n]? = st[n]?.map (fun e => (toString (i + n), e.id)) := by
  induction st generalizing i n with
  | nil => simp [filesOf]
  | cons e es ih =>
    cases n with
    | zero => simp [filesOf]
    | succ m =>
      simp only [filesOf, List.getElem?_cons_succ, ih]
      have : i + 1 + m = i + (m + 1) := by omega
      rw [this]

theorem mapOf_get (i n : Nat) (st : List Entry) :
    (mapOf i st)[n]? = st[n]?.map (fun e => (toString (i + n), J.arr (e.paths.map J.str))) := by
  induction st generalizing i n with
  | nil => simp [mapOf]
  | cons e es ih =>
    cases n with
    | zero => simp [mapOf]
    | succ m =>
      simp only [mapOf, List.getElem?_cons_succ, ih]
      have : i + 1 + m = i + (m + 1) := by omega
      rw [this]

theorem filesOf_length (i : Nat) (st : List Entry) : (filesOf i st).length = st.length := by
  induction st generalizing i with
  | nil => simp [filesOf]
  | cons e es ih => simp [filesOf, ih]

theorem mapOf_length (i : Nat) (st : List Entry) : (mapOf i st).length = st.length := by
  induction st generalizing i with
  | nil => simp [mapOf]
  | cons e es ih => simp [mapOf, ih]

/-! ### D. upload positions and path lookup -/

theorem mem_keysOf_of_mem {k : String} {x : PV} {kvs : List (String × PV)} (h : (k, x) ∈ kvs) : k ∈ keysOf kvs := by
  induction kvs with
  | nil => cases h
  | cons kv rest ih =>
    obtain ⟨k', x'⟩ := kv
    rcases List.mem_cons.mp h with h | h
    · cases h; simp [keysOf]
    · simp [keysOf, ih h]

theorem lookupPV_of_mem {k : String} {x : PV} {kvs : List (String × PV)}
    (hd : distinct (keysOf kvs) = true) (h : (k, x) ∈ kvs) : lookupPV k kvs = some x := by
  induction kvs with
  | nil => cases h
  | cons kv rest ih =>
    obtain ⟨k', x'⟩ := kv
    simp only [keysOf, distinct, Bool.and_eq_true, Bool.not_eq_true', List.contains_eq_mem,
      decide_eq_false_iff_not] at hd
    rcases List.mem_cons.mp h with h | h
    · cases h; simp [lookupPV]
    · have hne : ¬ k' = k := fun e => hd.1 (e ▸ mem_keysOf_of_mem h)
      simp [lookupPV, hne, ih hd.2 h]

theorem mem_of_lookupPV {k : String} {x : PV} {kvs : List (String × PV)} (h : lookupPV k kvs = some x) :
    (k, x) ∈ kvs := by
  induction kvs with
  | nil => simp [lookupPV] at h
  | cons kv rest ih =>
    obtain ⟨k', x'⟩ := kv
    by_cases hk : k' = k
    · simp [lookupPV, hk] at h; subst hk; subst h; simp
    · simp [lookupPV, hk] at h; simp [ih h]

mutual
theorem upos_at (v : PV) (h : uniq v = true) (q : Path) (u : Nat) :
    (q, u) ∈ upos v ↔ pvAt? q v = some (.upload u) := by
  cases v with
  | upload i =>
    cases q with
    | nil => simp [upos, pvAt?, eq_comm]
    | cons s p => simp [upos, pvAt?]
  | list xs =>
    simp only [uniq] at h
    rw [upos, uposList_at xs h 0 q u]
    cases q with
    | nil => simp [pvAt?]
    | cons s p =>
      cases s with
      | key k => simp [pvAt?]
      | idx n =>
        simp only [pvAt?, Nat.zero_add, List.cons.injEq, Seg.idx.injEq]
        constructor
        · rintro ⟨n', p', x, ⟨rfl, rfl⟩, hx, hat⟩
          simp [hx, hat]
        · intro hh
          cases hx : xs[n]? with
          | none => simp [hx] at hh
          | some x => exact ⟨n, p, x, ⟨rfl, rfl⟩, hx, by simpa [hx] using hh⟩
  | dict kvs =>
    simp only [uniq, Bool.and_eq_true] at h
    rw [upos, uposKvs_at kvs h.2 q u]
    cases q with
    | nil => simp [pvAt?]
    | cons s p =>
      cases s with
      | idx n => simp [pvAt?]
      | key k =>
        simp only [pvAt?, List.cons.injEq, Seg.key.injEq]
        constructor
        · rintro ⟨k', p', x, ⟨rfl, rfl⟩, hx, hat⟩
          simp [lookupPV_of_mem h.1 hx, hat]
        · intro hh
          cases hx : lookupPV k kvs with
          | none => simp [hx] at hh
          | some x => exact ⟨k, p, x, ⟨rfl, rfl⟩, mem_of_lookupPV hx, by simpa [hx] using hh⟩
  | none => cases q <;> simp [upos, pvAt?]
  | unset => cases q <;> simp [upos, pvAt?]
  | bool b => cases q <;> simp [upos, pvAt?]
  | num m e => cases q <;> simp [upos, pvAt?]
  | str s => cases q <;> simp [upos, pvAt?]
  | model d j => cases q <;> simp [upos, pvAt?]
  | leaf j => cases q <;> simp [upos, pvAt?]
theorem uposList_at (xs : List PV) (h : uniqList xs = true) (i : Nat) (q : Path) (u : Nat) :
    (q, u) ∈ uposList i xs ↔
      ∃ n p x, q = Seg.idx (i + n) :: p ∧ xs[n]? = some x ∧ pvAt? p x = some (.upload u) := by
  cases xs with
  | nil => simp [uposList]
  | cons x xs =>
    simp only [uniqList, Bool.and_eq_true] at h
    simp only [uposList, List.mem_append, List.mem_map, Prod.mk.injEq, Prod.exists]
    rw [uposList_at xs h.2 (i + 1) q u]
    constructor
    · rintro (⟨p, u', hm, rfl, hu⟩ | ⟨n, p, y, rfl, hy, hat⟩)
      · rw [hu] at hm
        exact ⟨0, p, x, by simp, by simp, (upos_at x h.1 p u).mp hm⟩
      · exact ⟨n + 1, p, y, by simp [Nat.add_assoc, Nat.add_comm 1 n], by simpa using hy, hat⟩
    · rintro ⟨n, p, y, rfl, hy, hat⟩
      cases n with
      | zero =>
        left
        simp at hy; subst hy
        exact ⟨p, u, (upos_at x h.1 p u).mpr hat, by simp, rfl⟩
      | succ m =>
        right
        exact ⟨m, p, y, by simp [Nat.add_assoc, Nat.add_comm 1 m], by simpa using hy, hat⟩
theorem uposKvs_at (kvs : List (String × PV)) (h : uniqKvs kvs = true) (q : Path) (u : Nat) :
    (q, u) ∈ uposKvs kvs ↔
      ∃ k p x, q = Seg.key k :: p ∧ (k, x) ∈ kvs ∧ pvAt? p x = some (.upload u) := by
  cases kvs with
  | nil => simp [uposKvs]
  | cons kv rest =>
    obtain ⟨k, x⟩ := kv
    simp only [uniqKvs, Bool.and_eq_true] at h
    simp only [uposKvs, List.mem_append, List.mem_map, Prod.mk.injEq, Prod.exists]
    rw [uposKvs_at rest h.2 q u]
    constructor
    · rintro (⟨p, u', hm, rfl, hu⟩ | ⟨k', p, y, rfl, hy, hat⟩)
      · rw [hu] at hm
        exact ⟨k, p, x, rfl, by simp, (upos_at x h.1 p u).mp hm⟩
      · exact ⟨k', p, y, rfl, by simp [hy], hat⟩
    · rintro ⟨k', p, y, rfl, hy, hat⟩
      rcases List.mem_cons.mp hy with hy | hy
      · cases hy
        left
        exact ⟨p, u, (upos_at x h.1 p u).mpr hat, rfl, rfl⟩
      · right
        exact ⟨k', p, y, rfl, hy, hat⟩
end


/-! ### D'. what sits at a path after nulling, and in the serialised JSON -/

theorem nullUploadsList_get (xs : List PV) (n : Nat) :
    (nullUploadsList xs)[n]? = xs[n]?.map nullUploads := by
  induction xs generalizing n with
  | nil => simp [nullUploadsList]
  | cons x xs ih => cases n <;> simp [nullUploadsList, ih]

theorem lookupPV_nullUploadsKvs (k : String) (kvs : List (String × PV)) :
    lookupPV k (nullUploadsKvs kvs) = (lookupPV k kvs).map nullUploads := by
  induction kvs with
  | nil => simp [nullUploadsKvs, lookupPV]
  | cons kv rest ih =>
    obtain ⟨k', x⟩ := kv
    by_cases h : k' = k <;> simp [nullUploadsKvs, lookupPV, h, ih]

/-- every position keeps its value, with the uploads inside it nulled ("unrelated positions unchanged") -/
theorem pvAt_nullUploads (q : Path) (v w : PV) (h : pvAt? q v = some w) :
    pvAt? q (nullUploads v) = some (nullUploads w) := by
  induction q generalizing v with
  | nil => simp [pvAt?] at h; subst h; simp [pvAt?]
  | cons s p ih =>
    cases s with
    | idx n =>
      cases v <;> simp [pvAt?] at h
      case list xs =>
        cases hx : xs[n]? with
        | none => simp [hx] at h
        | some x =>
          simp [hx] at h
          simp [nullUploads, pvAt?, nullUploadsList_get, hx, ih x h]
    | key k =>
      cases v <;> simp [pvAt?] at h
      case dict kvs =>
        cases hx : lookupPV k kvs with
        | none => simp [hx] at h
        | some x =>
          simp [hx] at h
          simp [nullUploads, pvAt?, lookupPV_nullUploadsKvs, hx, ih x h]

theorem toJsonList_get {xs : List PV} {js : List J} (h : toJsonList xs = some js) (n : Nat) (x : PV)
    (hx : xs[n]? = some x) : ∃ j, toJson x = some j ∧ js[n]? = some j := by
  induction xs generalizing js n with
  | nil => simp at hx
  | cons y ys ih =>
    simp only [toJsonList] at h
    cases hy : toJson y with
    | none => simp [hy] at h
    | some jy =>
      cases hys : toJsonList ys with
      | none => simp [hy, hys] at h
      | some jys =>
        simp [hy, hys] at h; subst h
        cases n with
        | zero => simp at hx; subst hx; exact ⟨jy, hy, by simp⟩
        | succ m => simpa using ih hys m (by simpa using hx)

theorem toJsonKvs_lookup {kvs : List (String × PV)} {js : List (String × J)} (h : toJsonKvs kvs = some js)
    (k : String) (x : PV) (hx : lookupPV k kvs = some x) : ∃ j, toJson x = some j ∧ J.lookup k js = some j := by
  induction kvs generalizing js with
  | nil => simp [lookupPV] at hx
  | cons kv rest ih =>
    obtain ⟨k', y⟩ := kv
    simp only [toJsonKvs] at h
    cases hy : toJson y with
    | none => simp [hy] at h
    | some jy =>
      cases hys : toJsonKvs rest with
      | none => simp [hy, hys] at h
      | some jys =>
        simp [hy, hys] at h; subst h
        by_cases hk : k' = k
        · simp [lookupPV, hk] at hx; subst hx; exact ⟨jy, hy, by simp [J.lookup, hk]⟩
        · simp [lookupPV, hk] at hx
          simpa [J.lookup, hk] using ih hys hx

/-- a position of the tree is a position of its JSON serialisation -/
theorem jAt_toJson (q : Path) (v w : PV) (j : J) (hj : toJson v = some j) (h : pvAt? q v = some w) :
    ∃ j', toJson w = some j' ∧ jAt? q j = some j' := by
  induction q generalizing v j with
  | nil => simp [pvAt?] at h; subst h; exact ⟨j, hj, by simp [jAt?]⟩
  | cons s p ih =>
    cases s with
    | idx n =>
      cases v <;> simp [pvAt?] at h
      case list xs =>
        cases hx : xs[n]? with
        | none => simp [hx] at h
        | some x =>
          simp [hx] at h
          simp only [toJson] at hj
          cases hjs : toJsonList xs with
          | none => simp [hjs] at hj
          | some js =>
            simp [hjs] at hj; subst hj
            obtain ⟨jx, h1, h2⟩ := toJsonList_get hjs n x hx
            obtain ⟨j', h3, h4⟩ := ih x jx h1 h
            exact ⟨j', h3, by simp [jAt?, h2, h4]⟩
    | key k =>
      cases v <;> simp [pvAt?] at h
      case dict kvs =>
        cases hx : lookupPV k kvs with
        | none => simp [hx] at h
        | some x =>
          simp [hx] at h
          simp only [toJson] at hj
          cases hjs : toJsonKvs kvs with
          | none => simp [hjs] at hj
          | some js =>
            simp [hjs] at hj; subst hj
            obtain ⟨jx, h1, h2⟩ := toJsonKvs_lookup hjs k x hx
            obtain ⟨j', h3, h4⟩ := ih x jx h1 h
            exact ⟨j', h3, by simp [jAt?, h2, h4]⟩

mutual
theorem noUpload_nullUploads (v : PV) : noUpload (nullUploads v) = true := by
  cases v with
  | list xs => simp [nullUploads, noUpload, noUploadList_nullUploads xs]
  | dict kvs => simp [nullUploads, noUpload, noUploadKvs_nullUploads kvs]
  | _ => simp [nullUploads, noUpload]
theorem noUploadList_nullUploads (xs : List PV) : noUploadList (nullUploadsList xs) = true := by
  cases xs with
  | nil => simp [nullUploadsList, noUploadList]
  | cons x xs => simp [nullUploadsList, noUploadList, noUpload_nullUploads x, noUploadList_nullUploads xs]
theorem noUploadKvs_nullUploads (kvs : List (String × PV)) : noUploadKvs (nullUploadsKvs kvs) = true := by
  cases kvs with
  | nil => simp [nullUploadsKvs, noUploadKvs]
  | cons kv rest =>
    obtain ⟨k, x⟩ := kv
    simp [nullUploadsKvs, noUploadKvs, noUpload_nullUploads x, noUploadKvs_nullUploads rest]
end

mutual
theorem upos_of_noUpload (v : PV) (h : noUpload v = true) : upos v = [] := by
  cases v with
  | list xs => simp only [noUpload] at h; simp [upos, uposList_of_noUpload xs h 0]
  | dict kvs => simp only [noUpload] at h; simp [upos, uposKvs_of_noUpload kvs h]
  | upload i => simp [noUpload] at h
  | _ => simp [upos]
theorem uposList_of_noUpload (xs : List PV) (h : noUploadList xs = true) (i : Nat) : uposList i xs = [] := by
  cases xs with
  | nil => simp [uposList]
  | cons x xs =>
    simp only [noUploadList, Bool.and_eq_true] at h
    simp [uposList, upos_of_noUpload x h.1, uposList_of_noUpload xs h.2 (i + 1)]
theorem uposKvs_of_noUpload (kvs : List (String × PV)) (h : noUploadKvs kvs = true) : uposKvs kvs = [] := by
  cases kvs with
  | nil => simp [uposKvs]
  | cons kv rest =>
    obtain ⟨k, x⟩ := kv
    simp only [noUploadKvs, Bool.and_eq_true] at h
    simp [uposKvs, upos_of_noUpload x h.1, uposKvs_of_noUpload rest h.2]
end

/-! ### E. what is left after nulling serialises (no exception) -/

mutual
theorem toJson_nullUploads_isSome (v : PV) (hs : ser v = true) (hh : hidden v = false) :
    (toJson (nullUploads v)).isSome = true := by
  cases v with
  | list xs =>
    simp only [ser] at hs; simp only [hidden] at hh
    have := toJsonList_nullUploads_isSome xs hs hh
    simp only [nullUploads, toJson]
    cases h : toJsonList (nullUploadsList xs) <;> simp [h] at this ⊢
  | dict kvs =>
    simp only [ser] at hs; simp only [hidden] at hh
    have := toJsonKvs_nullUploads_isSome kvs hs hh
    simp only [nullUploads, toJson]
    cases h : toJsonKvs (nullUploadsKvs kvs) <;> simp [h] at this ⊢
  | model d j =>
    simp only [ser, Bool.and_eq_true, Bool.or_eq_true, Bool.not_eq_true'] at hs
    simp only [hidden, Bool.not_eq_false'] at hh
    rcases hs.2 with h | h
    · simpa [nullUploads, toJson] using h
    · rw [hh] at h; cases h
  | unset => simp [ser] at hs
  | leaf j => simpa [nullUploads, toJson, ser] using hs
  | none => simp [nullUploads, toJson]
  | bool b => simp [nullUploads, toJson]
  | num m e => simp [nullUploads, toJson]
  | str s => simp [nullUploads, toJson]
  | upload i => simp [nullUploads, toJson]
theorem toJsonList_nullUploads_isSome (xs : List PV) (hs : serList xs = true) (hh : hiddenList xs = false) :
    (toJsonList (nullUploadsList xs)).isSome = true := by
  cases xs with
  | nil => simp [nullUploadsList, toJsonList]
  | cons x xs =>
    simp only [serList, Bool.and_eq_true] at hs
    simp only [hiddenList, Bool.or_eq_false_iff] at hh
    have h1 := toJson_nullUploads_isSome x hs.1 hh.1
    have h2 := toJsonList_nullUploads_isSome xs hs.2 hh.2
    simp only [nullUploadsList, toJsonList]
    cases e1 : toJson (nullUploads x) <;> cases e2 : toJsonList (nullUploadsList xs) <;> simp [e1, e2] at h1 h2 ⊢
theorem toJsonKvs_nullUploads_isSome (kvs : List (String × PV)) (hs : serKvs kvs = true) (hh : hiddenKvs kvs = false) :
    (toJsonKvs (nullUploadsKvs kvs)).isSome = true := by
  cases kvs with
  | nil => simp [nullUploadsKvs, toJsonKvs]
  | cons kv rest =>
    obtain ⟨k, x⟩ := kv
    simp only [serKvs, Bool.and_eq_true] at hs
    simp only [hiddenKvs, Bool.or_eq_false_iff] at hh
    have h1 := toJson_nullUploads_isSome x hs.1 hh.1
    have h2 := toJsonKvs_nullUploads_isSome rest hs.2 hh.2
    simp only [nullUploadsKvs, toJsonKvs]
    cases e1 : toJson (nullUploads x) <;> cases e2 : toJsonKvs (nullUploadsKvs rest) <;> simp [e1, e2] at h1 h2 ⊢
end


/-! ### F. the ideal tree (models expanded everywhere) versus the tree `separate_files` walks -/

mutual
theorem expand_of_noModel (v : PV) (h : noModel v = true) : expand v = v := by
  cases v with
  | list xs => simp only [noModel] at h; simp [expand, expandList_of_noModel xs h]
  | dict kvs => simp only [noModel] at h; simp [expand, expandKvs_of_noModel kvs h]
  | model d j => simp [noModel] at h
  | _ => simp [expand]
theorem expandList_of_noModel (xs : List PV) (h : noModelList xs = true) : expandList xs = xs := by
  cases xs with
  | nil => simp [expandList]
  | cons x xs =>
    simp only [noModelList, Bool.and_eq_true] at h
    simp [expandList, expand_of_noModel x h.1, expandList_of_noModel xs h.2]
theorem expandKvs_of_noModel (kvs : List (String × PV)) (h : noModelKvs kvs = true) : expandKvs kvs = kvs := by
  cases kvs with
  | nil => simp [expandKvs]
  | cons kv rest =>
    obtain ⟨k, x⟩ := kv
    simp only [noModelKvs, Bool.and_eq_true] at h
    simp [expandKvs, expand_of_noModel x h.1, expandKvs_of_noModel rest h.2]
end

mutual
theorem hidden_of_noModel (v : PV) (h : noModel v = true) : hidden v = false := by
  cases v with
  | list xs => simp only [noModel] at h; simp [hidden, hiddenList_of_noModel xs h]
  | dict kvs => simp only [noModel] at h; simp [hidden, hiddenKvs_of_noModel kvs h]
  | model d j => simp [noModel] at h
  | _ => simp [hidden]
theorem hiddenList_of_noModel (xs : List PV) (h : noModelList xs = true) : hiddenList xs = false := by
  cases xs with
  | nil => simp [hiddenList]
  | cons x xs =>
    simp only [noModelList, Bool.and_eq_true] at h
    simp [hiddenList, hidden_of_noModel x h.1, hiddenList_of_noModel xs h.2]
theorem hiddenKvs_of_noModel (kvs : List (String × PV)) (h : noModelKvs kvs = true) : hiddenKvs kvs = false := by
  cases kvs with
  | nil => simp [hiddenKvs]
  | cons kv rest =>
    obtain ⟨k, x⟩ := kv
    simp only [noModelKvs, Bool.and_eq_true] at h
    simp [hiddenKvs, hidden_of_noModel x h.1, hiddenKvs_of_noModel rest h.2]
end

/- below a raw dict: nothing is dumped, and if no model there holds an Upload nothing is missed -/
mutual
theorem upos_expand_raw (v : PV) (hp : plain v = true) (hh : hidden v = false) : upos (expand v) = upos v := by
  cases v with
  | list xs => simp only [plain] at hp; simp only [hidden] at hh; simp [expand, upos, uposList_expand_raw xs hp hh 0]
  | dict kvs => simp only [plain] at hp; simp only [hidden] at hh; simp [expand, upos, uposKvs_expand_raw kvs hp hh]
  | model d j =>
    simp only [plain] at hp
    simp only [hidden, Bool.not_eq_false', List.isEmpty_iff] at hh
    simp [expand, expand_of_noModel d hp, hh, upos]
  | _ => simp [expand]
theorem uposList_expand_raw (xs : List PV) (hp : plainList xs = true) (hh : hiddenList xs = false) (i : Nat) :
    uposList i (expandList xs) = uposList i xs := by
  cases xs with
  | nil => simp [expandList]
  | cons x xs =>
    simp only [plainList, Bool.and_eq_true] at hp
    simp only [hiddenList, Bool.or_eq_false_iff] at hh
    simp [expandList, uposList, upos_expand_raw x hp.1 hh.1, uposList_expand_raw xs hp.2 hh.2 (i + 1)]
theorem uposKvs_expand_raw (kvs : List (String × PV)) (hp : plainKvs kvs = true) (hh : hiddenKvs kvs = false) :
    uposKvs (expandKvs kvs) = uposKvs kvs := by
  cases kvs with
  | nil => simp [expandKvs]
  | cons kv rest =>
    obtain ⟨k, x⟩ := kv
    simp only [plainKvs, Bool.and_eq_true] at hp
    simp only [hiddenKvs, Bool.or_eq_false_iff] at hh
    simp [expandKvs, uposKvs, upos_expand_raw x hp.1 hh.1, uposKvs_expand_raw rest hp.2 hh.2]
end

/- at top level and through lists `_convert_value` dumps exactly what the ideal tree expands -/
mutual
theorem upos_expand_convert (v : PV) (hp : plain v = true) (hh : hiddenTop v = false) :
    upos (expand v) = upos (convertValue v) := by
  cases v with
  | list xs =>
    simp only [plain] at hp; simp only [hiddenTop] at hh
    simp [expand, convertValue, upos, uposList_expand_convert xs hp hh 0]
  | dict kvs =>
    simp only [plain] at hp; simp only [hiddenTop] at hh
    simp [expand, convertValue, upos, uposKvs_expand_raw kvs hp hh]
  | model d j =>
    simp only [plain] at hp
    simp [expand, convertValue, expand_of_noModel d hp]
  | _ => simp [expand, convertValue]
theorem uposList_expand_convert (xs : List PV) (hp : plainList xs = true) (hh : hiddenTopList xs = false) (i : Nat) :
    uposList i (expandList xs) = uposList i (convertList xs) := by
  cases xs with
  | nil => simp [expandList, convertList]
  | cons x xs =>
    simp only [plainList, Bool.and_eq_true] at hp
    simp only [hiddenTopList, Bool.or_eq_false_iff] at hh
    simp [expandList, convertList, uposList, upos_expand_convert x hp.1 hh.1, uposList_expand_convert xs hp.2 hh.2 (i + 1)]
end

theorem uposKvs_ideal (kvs : List (String × PV)) (hp : plainKvs kvs = true) (hh : hiddenTopKvs kvs = false) :
    uposKvs (expandKvs (dropUnset kvs)) = uposKvs (convertDict kvs) := by
  induction kvs with
  | nil => simp [dropUnset, expandKvs, convertDict]
  | cons kv rest ih =>
    obtain ⟨k, x⟩ := kv
    simp only [plainKvs, Bool.and_eq_true] at hp
    simp only [hiddenTopKvs, Bool.or_eq_false_iff] at hh
    by_cases hu : x.isUnset = true
    · simp [dropUnset, convertDict, hu, ih hp.2 hh.2]
    · simp [dropUnset, convertDict, hu, expandKvs, uposKvs, upos_expand_convert x hp.1 hh.1, ih hp.2 hh.2]

/- after conversion everything that is not an Upload serialises -/
mutual
theorem toJson_convert_isSome (v : PV) (hs : ser v = true) (hp : plain v = true) (hh : hiddenTop v = false) :
    (toJson (nullUploads (convertValue v))).isSome = true := by
  cases v with
  | list xs =>
    simp only [ser] at hs; simp only [plain] at hp; simp only [hiddenTop] at hh
    have := toJsonList_convert_isSome xs hs hp hh
    simp only [convertValue, nullUploads, toJson]
    cases h : toJsonList (nullUploadsList (convertList xs)) <;> simp [h] at this ⊢
  | dict kvs =>
    simp only [hiddenTop] at hh
    simpa [convertValue] using toJson_nullUploads_isSome (.dict kvs) hs (by simpa [hidden] using hh)
  | model d j =>
    simp only [ser, Bool.and_eq_true] at hs
    simp only [plain] at hp
    simpa [convertValue] using toJson_nullUploads_isSome d hs.1 (hidden_of_noModel d hp)
  | unset => simp [ser] at hs
  | leaf j => simpa [convertValue, nullUploads, toJson, ser] using hs
  | none => simp [convertValue, nullUploads, toJson]
  | bool b => simp [convertValue, nullUploads, toJson]
  | num m e => simp [convertValue, nullUploads, toJson]
  | str s => simp [convertValue, nullUploads, toJson]
  | upload i => simp [convertValue, nullUploads, toJson]
theorem toJsonList_convert_isSome (xs : List PV) (hs : serList xs = true) (hp : plainList xs = true)
    (hh : hiddenTopList xs = false) : (toJsonList (nullUploadsList (convertList xs))).isSome = true := by
  cases xs with
  | nil => simp [convertList, nullUploadsList, toJsonList]
  | cons x xs =>
    simp only [serList, Bool.and_eq_true] at hs
    simp only [plainList, Bool.and_eq_true] at hp
    simp only [hiddenTopList, Bool.or_eq_false_iff] at hh
    have h1 := toJson_convert_isSome x hs.1 hp.1 hh.1
    have h2 := toJsonList_convert_isSome xs hs.2 hp.2 hh.2
    simp only [convertList, nullUploadsList, toJsonList]
    cases e1 : toJson (nullUploads (convertValue x)) <;>
      cases e2 : toJsonList (nullUploadsList (convertList xs)) <;> simp [e1, e2] at h1 h2 ⊢
end

theorem toJsonKvs_convertDict_isSome (kvs : List (String × PV)) (hs : serTop kvs = true) (hp : plainKvs kvs = true)
    (hh : hiddenTopKvs kvs = false) : (toJsonKvs (nullUploadsKvs (convertDict kvs))).isSome = true := by
  induction kvs with
  | nil => simp [convertDict, nullUploadsKvs, toJsonKvs]
  | cons kv rest ih =>
    obtain ⟨k, x⟩ := kv
    simp only [serTop, Bool.and_eq_true, Bool.or_eq_true] at hs
    simp only [plainKvs, Bool.and_eq_true] at hp
    simp only [hiddenTopKvs, Bool.or_eq_false_iff] at hh
    have h2 := ih hs.2 hp.2 hh.2
    by_cases hu : x.isUnset = true
    · simpa [convertDict, hu] using h2
    · have hsx : ser x = true := by rcases hs.1 with h | h; exact absurd h hu; exact h
      have h1 := toJson_convert_isSome x hsx hp.1 hh.1
      simp only [convertDict, hu, Bool.false_eq_true, if_false, nullUploadsKvs, toJsonKvs]
      cases e1 : toJson (nullUploads (convertValue x)) <;>
        cases e2 : toJsonKvs (nullUploadsKvs (convertDict rest)) <;> simp [e1, e2] at h1 h2 ⊢


/-! ### G. `headers.update(kwargs.get("headers", {}))` -/

def lookupS (k : String) : List (String × String) → Option String
  | [] => none
  | (k', v) :: rest => if k' = k then some v else lookupS k rest

theorem mem_headerKeys_of_mem {k v : String} {l : List (String × String)} (h : (k, v) ∈ l) : k ∈ headerKeys l := by
  induction l with
  | nil => cases h
  | cons kv rest ih =>
    obtain ⟨k', v'⟩ := kv
    rcases List.mem_cons.mp h with h | h
    · cases h; simp [headerKeys]
    · simp [headerKeys, ih h]

theorem lookupS_none {k : String} {l : List (String × String)} (h : k ∉ headerKeys l) : lookupS k l = none := by
  induction l with
  | nil => rfl
  | cons kv rest ih =>
    obtain ⟨k', v'⟩ := kv
    simp only [headerKeys, List.mem_cons, not_or] at h
    have : ¬ k' = k := fun e => h.1 e.symm
    simp [lookupS, this, ih h.2]

theorem lookupS_of_mem {k v : String} {l : List (String × String)} (hd : distinct (headerKeys l) = true)
    (h : (k, v) ∈ l) : lookupS k l = some v := by
  induction l with
  | nil => cases h
  | cons kv rest ih =>
    obtain ⟨k', v'⟩ := kv
    simp only [headerKeys, distinct, Bool.and_eq_true, Bool.not_eq_true', List.contains_eq_mem,
      decide_eq_false_iff_not] at hd
    rcases List.mem_cons.mp h with h | h
    · cases h; simp [lookupS]
    · have hne : ¬ k' = k := fun e => hd.1 (e ▸ mem_headerKeys_of_mem h)
      simp [lookupS, hne, ih hd.2 h]

theorem dictSet_of_not_mem (k v : String) (l : List (String × String)) (h : k ∉ headerKeys l) :
    dictSet k v l = l ++ [(k, v)] := by
  induction l with
  | nil => rfl
  | cons kv rest ih =>
    obtain ⟨k', v'⟩ := kv
    simp only [headerKeys, List.mem_cons, not_or] at h
    have : ¬ k' = k := fun e => h.1 e.symm
    simp [dictSet, this, ih h.2]

def dropKey (c : String) : List (String × String) → List (String × String)
  | [] => []
  | (k, v) :: rest => if k = c then dropKey c rest else (k, v) :: dropKey c rest

/-- closed form of `{c: a, **acc}.update(caller)` for a caller dict (unique keys) -/
theorem dictUpdate_closed (c : String) (caller : List (String × String)) :
    ∀ (a : String) (acc : List (String × String)), distinct (headerKeys caller) = true →
      (∀ k ∈ headerKeys acc, k ≠ c ∧ k ∉ headerKeys caller) →
      dictUpdate ((c, a) :: acc) caller = (c, (lookupS c caller).getD a) :: (acc ++ dropKey c caller) := by
  induction caller with
  | nil => intro a acc _ _; simp [dictUpdate, lookupS, dropKey]
  | cons kv rest ih =>
    obtain ⟨k, v⟩ := kv
    intro a acc hd hacc
    simp only [headerKeys, distinct, Bool.and_eq_true, Bool.not_eq_true', List.contains_eq_mem,
      decide_eq_false_iff_not] at hd
    by_cases hk : k = c
    · subst hk
      have h1 : dictSet k v ((k, a) :: acc) = (k, v) :: acc := by simp [dictSet]
      have h2 := ih v acc hd.2 (fun k' hk' => ⟨(hacc k' hk').1, fun hm => (hacc k' hk').2 (by simp [headerKeys, hm])⟩)
      simp only [dictUpdate, h1, h2, lookupS_none hd.1, Option.getD_none, lookupS, if_true, Option.getD_some, dropKey]
    · have hkacc : k ∉ headerKeys acc := fun hm => (hacc k hm).2 (by simp [headerKeys])
      have hck : ¬ c = k := fun e => hk e.symm
      have h1 : dictSet k v ((c, a) :: acc) = (c, a) :: (acc ++ [(k, v)]) := by
        simp [dictSet, hck, dictSet_of_not_mem k v acc hkacc]
      have hacc' : ∀ k' ∈ headerKeys (acc ++ [(k, v)]), k' ≠ c ∧ k' ∉ headerKeys rest := by
        intro k' hk'
        have : k' ∈ headerKeys acc ∨ k' = k := by
          clear h1 hacc hkacc ih
          induction acc with
          | nil => simpa [headerKeys] using hk'
          | cons kv' acc' ih' =>
            obtain ⟨k2, v2⟩ := kv'
            simp only [List.cons_append, headerKeys, List.mem_cons] at hk' ⊢
            rcases hk' with h | h
            · exact Or.inl (Or.inl h)
            · rcases ih' h with h | h
              · exact Or.inl (Or.inr h)
              · exact Or.inr h
        rcases this with h | h
        · exact ⟨(hacc k' h).1, fun hm => (hacc k' h).2 (by simp [headerKeys, hm])⟩
        · subst h; exact ⟨hk, hd.1⟩
      have h2 := ih a (acc ++ [(k, v)]) hd.2 hacc'
      simp only [dictUpdate, h1, h2, lookupS, hk, if_false, dropKey, List.append_assoc, List.singleton_append]

theorem headerKeys_dropKey {c k : String} {l : List (String × String)} (h : k ∈ headerKeys (dropKey c l)) :
    k ∈ headerKeys l ∧ k ≠ c := by
  induction l with
  | nil => simp [dropKey, headerKeys] at h
  | cons kv rest ih =>
    obtain ⟨k', v'⟩ := kv
    by_cases hk : k' = c
    · simp only [dropKey, hk, if_true] at h
      exact ⟨by simp [headerKeys, (ih h).1], (ih h).2⟩
    · simp only [dropKey, hk, if_false, headerKeys, List.mem_cons] at h
      rcases h with h | h
      · subst h; exact ⟨by simp [headerKeys], hk⟩
      · exact ⟨by simp [headerKeys, (ih h).1], (ih h).2⟩

theorem lookupS_dropKey {c k : String} (l : List (String × String)) (h : k ≠ c) :
    lookupS k (dropKey c l) = lookupS k l := by
  induction l with
  | nil => rfl
  | cons kv rest ih =>
    obtain ⟨k', v'⟩ := kv
    by_cases hk : k' = c
    · have : ¬ k' = k := fun e => h (e ▸ hk)
      simp [dropKey, hk, lookupS, this, ih] 
      intro e; exact absurd e.symm h
    · by_cases hk2 : k' = k
      · subst hk2; simp [dropKey, hk, lookupS]
      · simp [dropKey, hk, lookupS, hk2, ih]

/-! ### G'. the same on the wire: HTTP field names are case-insensitive -/

theorem fieldValues_none {name : String} {l : List (String × String)}
    (h : ∀ k ∈ headerKeys l, lowerName k ≠ lowerName name) : fieldValues name l = [] := by
  induction l with
  | nil => rfl
  | cons kv rest ih =>
    obtain ⟨k', v'⟩ := kv
    have h1 := h k' (by simp [headerKeys])
    simp [fieldValues, h1, ih (fun k hk => h k (by simp [headerKeys, hk]))]

theorem fieldValues_of_mem {k v : String} {l : List (String × String)} (hd : ciDistinct l = true)
    (h : (k, v) ∈ l) : fieldValues k l = [v] := by
  induction l with
  | nil => cases h
  | cons kv rest ih =>
    obtain ⟨k', v'⟩ := kv
    simp only [ciDistinct, Bool.and_eq_true, Bool.not_eq_true', List.contains_eq_mem,
      decide_eq_false_iff_not, List.mem_map, not_exists, not_and] at hd
    rcases List.mem_cons.mp h with h | h
    · cases h
      have : fieldValues k rest = [] := fieldValues_none (fun k2 hk2 e => hd.1 k2 hk2 e)
      simp [fieldValues, this]
    · have hne : lowerName k' ≠ lowerName k := fun e => hd.1 k (mem_headerKeys_of_mem h) e.symm
      simp [fieldValues, hne, ih hd.2 h]

theorem distinct_of_ciDistinct {l : List (String × String)} (h : ciDistinct l = true) :
    distinct (headerKeys l) = true := by
  induction l with
  | nil => rfl
  | cons kv rest ih =>
    obtain ⟨k', v'⟩ := kv
    simp only [ciDistinct, Bool.and_eq_true, Bool.not_eq_true', List.contains_eq_mem,
      decide_eq_false_iff_not, List.mem_map, not_exists, not_and] at h
    simp only [headerKeys, distinct, Bool.and_eq_true, Bool.not_eq_true', List.contains_eq_mem,
      decide_eq_false_iff_not]
    exact ⟨fun hm => h.1 k' hm rfl, ih h.2⟩

theorem fieldValues_dropKey {c k : String} (l : List (String × String)) (h : lowerName k ≠ lowerName c) :
    fieldValues k (dropKey c l) = fieldValues k l := by
  induction l with
  | nil => rfl
  | cons kv rest ih =>
    obtain ⟨k', v'⟩ := kv
    by_cases hk : k' = c
    · have : lowerName k' ≠ lowerName k := fun e => h (hk ▸ e.symm)
      simp [dropKey, hk, fieldValues, ih]
      intro e; exact absurd e.symm h
    · by_cases h2 : lowerName k' = lowerName k <;> simp [dropKey, hk, fieldValues, h2, ih]

theorem not_otherSpelling {hs : Option (List (String × String))} (h : ctOtherSpelling hs = false) :
    ∀ k ∈ headerKeys (hs.getD []), lowerName k = lowerName "Content-Type" → k = "Content-Type" := by
  intro k hk e
  simp only [ctOtherSpelling, List.any_eq_false, Bool.and_eq_true, decide_eq_true_eq, bne_iff_ne, ne_eq,
    not_and, Decidable.not_not] at h
  exact h k hk e


/-! ### H. `_process_variables`, `execute` -/

/-- the tree `separate_files` walks -/
def treeOf (vars : Option (List (String × PV))) : List (String × PV) := convertDict (vars.getD [])

theorem processVariables_eq (vars : Option (List (String × PV))) :
    processVariables vars = (nullUploadsKvs (treeOf vars), collect "variables" (uposKvs (treeOf vars)) []) := by
  have key : ∀ kvs, sepDict "variables" (convertDict kvs) [] =
      (nullUploadsKvs (convertDict kvs), collect "variables" (uposKvs (convertDict kvs)) []) := by
    intro kvs
    exact Prod.ext (sepDict_fst _ _ _) (sepDict_snd _ _ _)
  cases vars with
  | none => simp [processVariables, treeOf, convertDict, nullUploadsKvs, uposKvs, collect]
  | some kvs =>
    cases kvs with
    | nil => simp [processVariables, treeOf, convertDict, nullUploadsKvs, uposKvs, collect]
    | cons kv rest => simpa [processVariables, treeOf] using key (kv :: rest)

theorem addPath_ne_nil (u : Nat) (p : String) (st : List Entry) : addPath u p st ≠ [] := by
  cases st with
  | nil => simp [addPath]
  | cons e es => by_cases h : e.id = u <;> simp [addPath, h]

theorem collectS_ne_nil (ps : List (String × Nat)) (st : List Entry) (h : st ≠ []) : collectS ps st ≠ [] := by
  induction ps generalizing st with
  | nil => simpa [collectS] using h
  | cons pu rest ih => exact ih _ (addPath_ne_nil _ _ _)

theorem collect_isEmpty (base : String) (ps : List (Path × Nat)) :
    (collect base ps []).isEmpty = ps.isEmpty := by
  cases ps with
  | nil => rfl
  | cons pu rest =>
    have : collect base (pu :: rest) [] ≠ [] := by
      rw [collect_eq_collectS]
      simp only [List.map_cons]
      exact collectS_ne_nil (rest.map fun pu => (render base pu.1, pu.2)) _
        (addPath_ne_nil pu.2 (render base pu.1) [])
    cases h : collect base (pu :: rest) [] with
    | nil => exact absurd h this
    | cons _ _ => rfl

theorem ids_collect (base : String) (ps : List (Path × Nat)) :
    ids (collect base ps []) = firstOcc (ps.map (·.2)) := by
  rw [collect_eq_collectS, ids_collectS]
  simp [ids, List.map_map, Function.comp_def]

theorem pathsOf_collect (base : String) (u : Nat) (ps : List (Path × Nat)) :
    pathsOf u (collect base ps []) = (ps.filter (fun pu => pu.2 = u)).map (fun pu => render base pu.1) := by
  rw [collect_eq_collectS, pathsOf_collectS]
  simp only [pathsOf, List.nil_append]
  induction ps with
  | nil => rfl
  | cons pu rest ih =>
    by_cases h : pu.2 = u <;> simp [List.filter_cons, h, ih]

theorem pathsOf_of_mem {e : Entry} {st : List Entry} (hn : (ids st).Nodup) (h : e ∈ st) : pathsOf e.id st = e.paths := by
  induction st with
  | nil => cases h
  | cons e' es ih =>
    have hn' : e'.id ∉ ids es ∧ (ids es).Nodup := by simpa [ids] using hn
    rcases List.mem_cons.mp h with h | h
    · subst h; simp [pathsOf]
    · have : ¬ e'.id = e.id := fun eq => hn'.1 (eq ▸ List.mem_map_of_mem h)
      simp [pathsOf, this, ih hn'.2 h]

theorem telemetry_eq_plain (cl : Client) (c : Call) : executeWithTelemetry cl c = executePlain cl c := by
  unfold executeWithTelemetry executePlain
  cases h : toJsonKvs (processVariables c.variables).1 with
  | some vs => simp [h]
  | none => simp [executeJson, executeMultipart, body, h]

theorem execute_snd (cl : Client) (c : Call) : (execute cl c).2 = executePlain cl c := by
  unfold execute
  split <;> simp [telemetry_eq_plain]

theorem execute_fst (cl : Client) (c : Call) : (execute cl c).1 = cl := by
  unfold execute
  split <;> rfl

theorem executePlain_url (cl cl' : Client) (c : Call) (h : cl'.url = cl.url) : executePlain cl' c = executePlain cl c := by
  simp [executePlain, executeJson, executeMultipart, h]

/-! ### I. validity survives `_convert_dict_to_json_serializable` -/

mutual
theorem uniq_convertValue (v : PV) (h : uniq v = true) : uniq (convertValue v) = true := by
  cases v with
  | list xs => simp only [uniq] at h; simp [convertValue, uniq, uniqList_convertList xs h]
  | model d j => simpa [convertValue, uniq] using h
  | dict kvs => simpa [convertValue] using h
  | _ => simp [convertValue, uniq]
theorem uniqList_convertList (xs : List PV) (h : uniqList xs = true) : uniqList (convertList xs) = true := by
  cases xs with
  | nil => simp [convertList, uniqList]
  | cons x xs =>
    simp only [uniqList, Bool.and_eq_true] at h
    simp [convertList, uniqList, uniq_convertValue x h.1, uniqList_convertList xs h.2]
end

theorem mem_keysOf_convertDict {k : String} {kvs : List (String × PV)} (h : k ∈ keysOf (convertDict kvs)) :
    k ∈ keysOf kvs := by
  induction kvs with
  | nil => simpa [convertDict] using h
  | cons kv rest ih =>
    obtain ⟨k', x⟩ := kv
    by_cases hu : x.isUnset = true
    · simp only [convertDict, hu, if_true] at h
      simp [keysOf, ih h]
    · simp only [convertDict, hu, Bool.false_eq_true, if_false, keysOf, List.mem_cons] at h
      rcases h with h | h
      · simp [keysOf, h]
      · simp [keysOf, ih h]

theorem uniq_tree (kvs : List (String × PV)) (hd : distinct (keysOf kvs) = true) (hu : uniqKvs kvs = true) :
    uniq (.dict (convertDict kvs)) = true := by
  simp only [uniq, Bool.and_eq_true]
  induction kvs with
  | nil => simp [convertDict, keysOf, distinct, uniqKvs]
  | cons kv rest ih =>
    obtain ⟨k, x⟩ := kv
    simp only [keysOf, distinct, Bool.and_eq_true, Bool.not_eq_true', List.contains_eq_mem,
      decide_eq_false_iff_not] at hd
    simp only [uniqKvs, Bool.and_eq_true] at hu
    have ih' := ih hd.2 hu.2
    by_cases hx : x.isUnset = true
    · simpa [convertDict, hx] using ih'
    · simp only [convertDict, hx, Bool.false_eq_true, if_false, keysOf, distinct, uniqKvs, Bool.and_eq_true,
        Bool.not_eq_true', List.contains_eq_mem, decide_eq_false_iff_not]
      exact ⟨⟨fun hm => hd.1 (mem_keysOf_convertDict hm), ih'.1⟩, uniq_convertValue x hu.1, ih'.2⟩


/-! ### I'. upload positions are pairwise distinct -/

theorem nodup_map_cons (s : Seg) (l : List (Path × Nat)) (h : (l.map (·.1)).Nodup) :
    ((l.map (fun pu => (s :: pu.1, pu.2))).map (·.1)).Nodup := by
  rw [List.map_map]
  have : ((fun (x : Path × Nat) => x.1) ∘ fun pu => (s :: pu.1, pu.2)) = (fun q => s :: q) ∘ (fun x : Path × Nat => x.1) := rfl
  rw [this, ← List.map_map]
  rw [List.Nodup, List.pairwise_map]
  exact List.Pairwise.imp (fun hne e => hne (List.cons.inj e).2) h

mutual
theorem upos_nodup (v : PV) (h : uniq v = true) : ((upos v).map (·.1)).Nodup := by
  cases v with
  | list xs => simp only [uniq] at h; simpa [upos] using uposList_nodup xs h 0
  | dict kvs => simp only [uniq, Bool.and_eq_true] at h; simpa [upos] using uposKvs_nodup kvs h.1 h.2
  | _ => simp [upos]
theorem uposList_nodup (xs : List PV) (h : uniqList xs = true) (i : Nat) : ((uposList i xs).map (·.1)).Nodup := by
  cases xs with
  | nil => simp [uposList]
  | cons x xs =>
    simp only [uniqList, Bool.and_eq_true] at h
    simp only [uposList, List.map_append]
    rw [List.nodup_append]
    refine ⟨nodup_map_cons _ _ (upos_nodup x h.1), uposList_nodup xs h.2 (i + 1), ?_⟩
    intro a ha b hb e
    subst e
    simp only [List.mem_map, Prod.exists, exists_and_right, exists_eq_right] at ha hb
    obtain ⟨u, p, u', _, hp⟩ := ha
    obtain ⟨u2, hb⟩ := hb
    obtain ⟨n, p2, y, hq, _, _⟩ := (uposList_at xs h.2 (i + 1) a u2).mp hb
    rw [hq] at hp
    simp at hp
    omega
theorem uposKvs_nodup (kvs : List (String × PV)) (hd : distinct (keysOf kvs) = true) (h : uniqKvs kvs = true) :
    ((uposKvs kvs).map (·.1)).Nodup := by
  cases kvs with
  | nil => simp [uposKvs]
  | cons kv rest =>
    obtain ⟨k, x⟩ := kv
    simp only [uniqKvs, Bool.and_eq_true] at h
    simp only [keysOf, distinct, Bool.and_eq_true, Bool.not_eq_true', List.contains_eq_mem,
      decide_eq_false_iff_not] at hd
    simp only [uposKvs, List.map_append]
    rw [List.nodup_append]
    refine ⟨nodup_map_cons _ _ (upos_nodup x h.1), uposKvs_nodup rest hd.2 h.2, ?_⟩
    intro a ha b hb e
    subst e
    simp only [List.mem_map, Prod.exists, exists_and_right, exists_eq_right] at ha hb
    obtain ⟨u, p, u', _, hp⟩ := ha
    obtain ⟨u2, hb⟩ := hb
    obtain ⟨k', p2, y, hq, hmem, _⟩ := (uposKvs_at rest h.2 a u2).mp hb
    rw [hq] at hp
    simp at hp
    exact hd.1 (hp.1.1 ▸ mem_keysOf_of_mem hmem)
end

/-! ### J. rendered paths are pairwise distinct (keys that are GraphQL names) -/

def sfx : Path → List Char
  | [] => []
  | s :: r => '.' :: (s.str.toList ++ sfx r)

theorem render_toList (base : String) (q : Path) : (render base q).toList = base.toList ++ sfx q := by
  induction q generalizing base with
  | nil => simp [render, sfx]
  | cons s r ih =>
    have : (".": String).toList = ['.'] := by decide
    simp [render, sfx, ih, String.toList_append, this]

theorem idx_str_toList (i : Nat) : (Seg.idx i).str.toList = Nat.toDigits 10 i := by
  show (Nat.repr i).toList = _
  exact Nat.toList_repr

theorem seg_dotfree (s : Seg) (h : segOk s = true) : '.' ∉ s.str.toList := by
  cases s with
  | key k =>
    simp only [segOk, keyOk, Bool.and_eq_true, Bool.not_eq_true', List.contains_eq_mem, decide_eq_false_iff_not] at h
    exact h.1
  | idx i =>
    rw [idx_str_toList]
    intro hm
    have := Nat.isDigit_of_mem_toDigits (by decide) (by decide) hm
    revert this; decide

theorem toDigits_inj (i j : Nat) (h : Nat.toDigits 10 i = Nat.toDigits 10 j) : i = j := by
  have := congrArg (fun l => Nat.ofDigitChars 10 l 0) h
  simpa using this

theorem seg_str_inj (s s' : Seg) (h : segOk s = true) (h' : segOk s' = true)
    (e : s.str.toList = s'.str.toList) : s = s' := by
  have key_idx : ∀ (k : String) (i : Nat), keyOk k = true → k.toList = Nat.toDigits 10 i → False := by
    intro k i hk e
    simp only [keyOk, Bool.and_eq_true, List.any_eq_true, Bool.not_eq_true'] at hk
    obtain ⟨c, hc, hnd⟩ := hk.2
    rw [e] at hc
    have := Nat.isDigit_of_mem_toDigits (by decide) (by decide) hc
    rw [hnd] at this; cases this
  cases s with
  | key k =>
    cases s' with
    | key k' => simp only [Seg.str] at e; rw [String.toList_inj.mp e]
    | idx j => exact (key_idx k j h (by rw [← idx_str_toList]; exact e)).elim
  | idx i =>
    cases s' with
    | key k' => exact (key_idx k' i h' (by rw [← idx_str_toList]; exact e.symm)).elim
    | idx j =>
      rw [idx_str_toList, idx_str_toList] at e
      rw [toDigits_inj i j e]

theorem dotfree_split (a a' R R' : List Char) (ha : '.' ∉ a) (ha' : '.' ∉ a')
    (hR : R = [] ∨ ∃ t, R = '.' :: t) (hR' : R' = [] ∨ ∃ t, R' = '.' :: t)
    (e : a ++ R = a' ++ R') : a = a' ∧ R = R' := by
  induction a generalizing a' with
  | nil =>
    cases a' with
    | nil => exact ⟨rfl, by simpa using e⟩
    | cons c t =>
      simp only [List.nil_append, List.cons_append] at e
      rcases hR with h | ⟨t', h⟩
      · rw [h] at e; cases e
      · rw [h] at e
        have : c = '.' := (List.cons.inj e).1.symm
        exact absurd (by simp [this]) ha'
  | cons c t ih =>
    cases a' with
    | nil =>
      simp only [List.nil_append, List.cons_append] at e
      rcases hR' with h | ⟨t', h⟩
      · rw [h] at e; cases e
      · rw [h] at e
        have : c = '.' := (List.cons.inj e).1
        exact absurd (by simp [this]) ha
    | cons c' t' =>
      simp only [List.cons_append, List.cons.injEq] at e
      have := ih t' (fun hm => ha (by simp [hm])) (fun hm => ha' (by simp [hm])) e.2
      exact ⟨by rw [e.1, this.1], this.2⟩

theorem sfx_shape (q : Path) : sfx q = [] ∨ ∃ t, sfx q = '.' :: t := by
  cases q with
  | nil => exact Or.inl rfl
  | cons s r => exact Or.inr ⟨_, rfl⟩

theorem sfx_inj (q q' : Path) (h : pathOk q = true) (h' : pathOk q' = true) (e : sfx q = sfx q') : q = q' := by
  induction q generalizing q' with
  | nil =>
    cases q' with
    | nil => rfl
    | cons s r => simp [sfx] at e
  | cons s r ih =>
    cases q' with
    | nil => simp [sfx] at e
    | cons s' r' =>
      simp only [pathOk, Bool.and_eq_true] at h h'
      simp only [sfx, List.cons.injEq, true_and] at e
      have := dotfree_split _ _ _ _ (seg_dotfree s h.1) (seg_dotfree s' h'.1) (sfx_shape r) (sfx_shape r') e
      rw [seg_str_inj s s' h.1 h'.1 this.1, ih r' h.2 h'.2 this.2]

theorem render_inj (base : String) (q q' : Path) (h : pathOk q = true) (h' : pathOk q' = true)
    (e : render base q = render base q') : q = q' := by
  have := congrArg String.toList e
  rw [render_toList, render_toList] at this
  exact sfx_inj q q' h h' (List.append_cancel_left this)

mutual
theorem upos_pathOk (v : PV) (h : keysOk v = true) : ∀ pu ∈ upos v, pathOk pu.1 = true := by
  cases v with
  | list xs => simp only [keysOk] at h; simpa [upos] using uposList_pathOk xs h 0
  | dict kvs => simp only [keysOk] at h; simpa [upos] using uposKvs_pathOk kvs h
  | upload i => simp [upos, pathOk]
  | _ => simp [upos]
theorem uposList_pathOk (xs : List PV) (h : keysOkList xs = true) (i : Nat) :
    ∀ pu ∈ uposList i xs, pathOk pu.1 = true := by
  cases xs with
  | nil => simp [uposList]
  | cons x xs =>
    simp only [keysOkList, Bool.and_eq_true] at h
    intro pu hm
    simp only [uposList, List.mem_append, List.mem_map] at hm
    rcases hm with ⟨pu', hm, rfl⟩ | hm
    · simp [pathOk, segOk, upos_pathOk x h.1 pu' hm]
    · exact uposList_pathOk xs h.2 (i + 1) pu hm
theorem uposKvs_pathOk (kvs : List (String × PV)) (h : keysOkKvs kvs = true) :
    ∀ pu ∈ uposKvs kvs, pathOk pu.1 = true := by
  cases kvs with
  | nil => simp [uposKvs]
  | cons kv rest =>
    obtain ⟨k, x⟩ := kv
    simp only [keysOkKvs, Bool.and_eq_true] at h
    intro pu hm
    simp only [uposKvs, List.mem_append, List.mem_map] at hm
    rcases hm with ⟨pu', hm, rfl⟩ | hm
    · simp [pathOk, segOk, h.1.1, upos_pathOk x h.1.2 pu' hm]
    · exact uposKvs_pathOk rest h.2 pu hm
end


theorem rendered_nodup (base : String) (v : PV) (hu : uniq v = true) (hk : keysOk v = true) :
    ((upos v).map (fun pu => render base pu.1)).Nodup := by
  have h1 := upos_nodup v hu
  have h2 := upos_pathOk v hk
  have : (upos v).map (fun pu => render base pu.1) = ((upos v).map (·.1)).map (render base) := by
    simp [List.map_map, Function.comp_def]
  rw [this, List.Nodup, List.pairwise_map]
  apply List.Pairwise.imp_of_mem _ h1
  intro a b ha hb hne e
  obtain ⟨pa, hpa, rfl⟩ := List.mem_map.mp ha
  obtain ⟨pb, hpb, rfl⟩ := List.mem_map.mp hb
  exact hne (render_inj base _ _ (h2 pa hpa) (h2 pb hpb) e)

end Ariadne.BaseClient
