/-
  C15: `shorter_relative` — adding ShorterResults anywhere in a plugin list made of ExtractOperations, NoReimports and
  the identity plugin preserves the whole-pipeline statement: if the list WITHOUT ShorterResults satisfies it
  (package generated and loading, prescribed projection, same behaviour) and the generation with that list has the
  generator's form (`genShapedSR`), then the list WITH ShorterResults satisfies it too — every method is projected
  on exactly the single top-level field of its result class or left alone, on top of what the other plugins did.
-/
import AriadneModel.Proofs.C15ShorterRelRun
import AriadneModel.Model.PluginWholeSE

set_option linter.unusedSimpArgs false
set_option linter.unusedVariables false

namespace Ariadne.C15
open Ariadne Ariadne.Py Ariadne.Plugins Ariadne.ClientSem

theorem fragmentsModuleNameOf_nosf (a b : List PState) (ha : NoSF a) (st : ShorterState) :
    fragmentsModuleNameOf (a ++ .shorter st :: b) = st.fragmentsModuleName := by
  induction a with
  | nil => rfl
  | cons p rest ih =>
    have := ih ha.tail
    unfold fragmentsModuleNameOf at this ⊢
    rcases ha p (by simp) with rfl | rfl | ⟨e, rfl⟩
    · simpa [List.findSome?_cons] using this
    · simpa [List.findSome?_cons] using this
    · simpa [List.findSome?_cons] using this

theorem nosf_no_shorter (l : List PState) (h : NoSF l) : l.any PState.isShorter = false := by
  rw [List.any_eq_false]
  intro p hp
  rcases h p hp with rfl | rfl | ⟨e, rfl⟩ <;> simp [PState.isShorter]

theorem clash_insert_shorter (x : Input) (a b : List PState) (st : ShorterState) :
    trigOpsModuleClash { x with plugins := a ++ .shorter st :: b } = trigOpsModuleClash { x with plugins := a ++ b } := by
  unfold trigOpsModuleClash
  simp [List.any_append, List.any_cons]

/-- `fr ++ body = pre ++ [def g, class c]` with `fr` made of imports: the frame is a prefix of `pre` -/
theorem split_frame (g : Method) (c : ClassDef) : ∀ (fr body pre : List Top), ImportsOnly fr →
    fr ++ body = pre ++ [.funcDef g, .classDef c] → ∃ pre', body = pre' ++ [.funcDef g, .classDef c] ∧ pre = fr ++ pre' := by
  intro fr
  induction fr with
  | nil => intro body pre _ h; exact ⟨pre, by simpa using h, rfl⟩
  | cons t rest ih =>
    intro body pre hfr h
    obtain ⟨i, rfl⟩ := hfr t (by simp)
    cases pre with
    | nil => simp at h
    | cons p pre1 =>
      simp only [List.cons_append, List.cons.injEq] at h
      obtain ⟨hp, hrest⟩ := h
      obtain ⟨pre', h1, h2⟩ := ih body pre1 (fun t ht => hfr t (by simp [ht])) hrest
      exact ⟨pre', h1, by rw [← hp, h2]; rfl⟩

theorem request_mono_ops (B0 B1 : Module) (ops : Option (String × OpsFile)) (s : Shape) (hg0 : "gql" ∈ moduleNames B0)
    (hmono : ∀ n ∈ moduleNames B0, n ∈ moduleNames B1)
    (hconst : ∀ c, s.op = .const c → alookup c (importBindings (topImports B1)) = alookup c (importBindings (topImports B0))) :
    request { client := B1, ops := ops } s = request { client := B0, ops := ops } s := by
  unfold request
  cases hop : s.op with
  | inline q ls => simp [hg0, hmono _ hg0]
  | const c =>
    have : constValue { client := B1, ops := ops } s c = constValue { client := B0, ops := ops } s c := by
      unfold constValue resolveRuntime
      simp only [hconst c hop]
    simp only [this]

theorem respond_same_ops {PyV : Type} (validate : String × String → J → Except String PyV) (getattr : String → PyV → PyV)
    (B0 B1 : Module) (ops : Option (String × OpsFile)) (s : Shape) (d : J)
    (hb : alookup s.retClass (importBindings (topImports B1)) = alookup s.retClass (importBindings (topImports B0))) :
    respond validate getattr { client := B1, ops := ops } s d = respond validate getattr { client := B0, ops := ops } s d := by
  unfold respond resolveRuntime
  simp only [hb]

theorem outcome_map_map {α β γ : Type} (o : Outcome α) (f : α → β) (g : β → γ) : (o.map f).map g = o.map (fun a => g (f a)) := by
  cases o <;> rfl

theorem shorter_relative (x : Input) (a b : List PState) (st0 : ShorterState) (hps : x.plugins = a ++ .shorter st0 :: b)
    (hna : NoSF a) (hnb : NoSF b) (hfresh : PState.isFresh (.shorter st0) = true)
    (hL : loadsB (a ++ b) x = true ∧ projOKB (a ++ b) x = true ∧ SameBehaviour (a ++ b) x)
    (hg : genShapedSR (a ++ b) x = true) :
    loadsB x.plugins x = true ∧ projOKB x.plugins x = true ∧ SameBehaviour x.plugins x := by
  obtain ⟨hLloads, hLproj, hLsame⟩ := hL
  unfold genShapedSR at hg
  split at hg
  rotate_left
  · cases hg
  rename_i pre cm post B0 hsplit hB0
  simp only [Bool.and_eq_true] at hg
  obtain ⟨⟨⟨hpayload, hpost⟩, hgql⟩, hrest⟩ := hg
  obtain ⟨hevs, hcm, hpre⟩ := splitAt_spec x.events pre cm post hsplit
  rw [List.all_eq_true] at hpost
  have hpostcm : ∀ e ∈ post, e.call.hook ≠ "generate_client_module" := by
    intro e he
    have := hpost e he
    simp only [Bool.and_eq_true, bne_iff_ne, ne_eq] at this
    exact this.1
  split at hrest
  rotate_left
  · cases hrest
  rename_i preB g C0 hsc
  obtain ⟨hbodyB, hncB⟩ := splitClient_spec B0 preB g C0 hsc
  simp only [Bool.and_eq_true, List.all_eq_true] at hrest
  obtain ⟨⟨⟨hdict, hmethods⟩, hpool⟩, htwin⟩ := hrest
  obtain ⟨mp, hmp⟩ : ∃ mp, cm.payload = .module mp := by
    split at hpayload
    · exact ⟨_, by assumption⟩
    · cases hpayload
  -- the run with the list WITHOUT ShorterResults
  have hrunL : runWith (a ++ b) x = runPipeline { plugins := a ++ b } x.events := rfl
  have hLloads' := hLloads
  unfold loadsB at hLloads'
  simp only [Bool.and_eq_true] at hLloads'
  obtain ⟨⟨herrL, hmodL⟩, hclashL⟩ := hLloads'
  have herrL' : (runPipeline { plugins := a ++ b } x.events).2 = none := by
    rw [← hrunL]; simpa using herrL
  have hB0' : (runWith (a ++ b) x).1.clientModule? = some B0 := hB0
  rw [hB0'] at hmodL
  simp only [Bool.and_eq_true] at hmodL
  obtain ⟨⟨⟨hfmt0, hann0⟩, hwell0⟩, himp0⟩ := hmodL
  obtain ⟨M, hM⟩ := inputFor_cm_module (runPipeline { plugins := a ++ b } pre).1 cm hcm mp hmp
  obtain ⟨fr, Min, hfr, hcmL, hplug⟩ := shorter_rel_pipeline a b hna hnb st0 pre post cm hcm hpre hpostcm M hM (by rw [← hevs]; exact herrL')
  rw [← hevs] at hcmL hplug
  have hBeq : B0 = { body := fr ++ Min.body } := by
    have : (runWith (a ++ b) x).1.clientModule? = some { body := fr ++ Min.body } := hcmL
    rw [hB0'] at this
    exact Option.some.inj this
  obtain ⟨preM, hbodyM, hpreB⟩ := split_frame g C0 fr Min.body preB hfr (by rw [← hbodyB, hBeq])
  have hncM : NoClass preM := by
    intro t ht; exact hncB t (by rw [hpreB]; exact List.mem_append_right _ ht)
  -- the state of ShorterResults when `generate_client_module` is reached = the facts of the trigger vocabulary
  have hst0 := fresh_shorter st0 hfresh
  have hfm : fragmentsModuleNameOf x.plugins = st0.fragmentsModuleName := by rw [hps]; exact fragmentsModuleNameOf_nosf a b hna st0
  have hfacts : shorterFacts (fragmentsModuleNameOf x.plugins) x.events = pre.foldl bookStep st0 := by
    rw [shorterFacts_eq, hfm, ← hst0, hevs, List.foldl_append, List.foldl_cons, bookStep_cm _ cm hcm,
      foldl_bookStep_noop post hpost]
  rw [hfacts] at hdict hmethods hpool
  generalize hops : (runWith (a ++ b) x).1.opsFile? = ops at hwell0 himp0 hpool
  -- hypotheses of the framed module-level theorem
  have H : ShorterHypsR (knownModules x ops) (pre.foldl bookStep st0) fr ops Min preM g C0 := by
    rw [hBeq] at hfmt0 hann0 hwell0 himp0 hgql hmethods
    refine ⟨hfr, hbodyM, hncM, ?_, ?_, ?_, ?_, ?_, ?_, ?_, ?_, hfmt0, hann0, hwell0, ?_⟩
    · rw [foldl_bookStep_ext, hst0]
    · intro kv hkv
      exact isOkB_sound _ (hdict kv hkv)
    · intro md hmd hsome
      obtain ⟨⟨h1, _⟩, _⟩ := hmethods md hmd
      cases hsf : singleFieldOf (pre.foldl bookStep st0) md with
      | none => rw [hsf] at hsome; cases hsome
      | some fa =>
        rw [hsf] at h1
        simp only [Bool.and_eq_true] at h1
        exact kindOKB_sound md h1.1
    · intro md hmd f ann hsf n hn
      obtain ⟨⟨h1, _⟩, _⟩ := hmethods md hmd
      rw [hsf] at h1
      simp only [Bool.and_eq_true, List.all_eq_true] at h1
      have h2 := h1.2 n hn
      simp only [Bool.or_eq_true, Bool.and_eq_true, List.contains_iff_mem] at h2
      rcases h2 with (⟨h3, h4⟩ | h3) | h3
      · exact .inl ⟨h3, h4⟩
      · exact .inr (.inl h3)
      · exact .inr (.inr h3)
    · intro md hmd s hs
      obtain ⟨⟨_, h2⟩, _⟩ := hmethods md hmd
      rw [hs] at h2
      simp only [Bool.and_eq_true, Bool.not_eq_true', List.contains_eq_mem, decide_eq_false_iff_not] at h2
      exact h2.1
    · intro md hmd s c hs hc
      obtain ⟨⟨_, h2⟩, _⟩ := hmethods md hmd
      rw [hs] at h2
      simp only [Bool.and_eq_true, hc, Bool.not_eq_true', List.contains_eq_mem, decide_eq_false_iff_not] at h2
      exact h2.2
    · intro md hmd
      simpa using (hmethods md hmd).2
    · intro n hn v hv hdot
      have := hpool n hn
      rw [hv] at this
      simp only [Bool.or_eq_true, Bool.not_eq_true', List.contains_iff_mem] at this
      rcases this with h | h
      · rw [hdot] at h; cases h
      · exact h
    · intro i hi q hq
      unfold importsExistB at himp0
      rw [List.all_eq_true] at himp0
      have := himp0 i hi
      rw [hq] at this
      simpa using this
  -- ShorterResults does not raise; what it returns
  obtain ⟨r, hr⟩ := shorter_no_crash_rel _ _ fr ops Min preM g C0 H
  rw [hr] at hplug
  simp only at hplug
  rw [← hps] at hplug
  obtain ⟨hp1, hp2, hp3⟩ := hplug
  have C := shorter_concl_rel _ _ r.1 fr ops Min r.2 preM g C0 H (by rw [hr])
  obtain ⟨C1, hfc1, hper⟩ := C.cls
  have hfc0 : B0.firstClass? = some C0 := firstClass_of_body B0 preB g C0 hbodyB hncB
  have hrun : runWith x.plugins x = runPipeline { plugins := x.plugins } x.events := rfl
  have hp3' : (runPipeline { plugins := x.plugins } x.events).1.opsFile? = ops := by rw [hp3, ← hrunL, hops]
  have hpkg1 : pkgOf x.plugins x = { client := { body := fr ++ r.2.body }, ops := ops } := by
    unfold pkgOf; rw [hrun, hp2, hp3']; rfl
  have hpkgL : pkgOf (a ++ b) x = { client := B0, ops := ops } := by
    unfold pkgOf; rw [hB0', hops]; rfl
  rw [← hBeq] at C
  have hgql' : "gql" ∈ moduleNames B0 := by simpa using hgql
  -- looking a method up by name, without and with ShorterResults
  have hfind : ∀ n : String, finalMethod (a ++ b) x n = none ∧ finalMethod x.plugins x n = none ∨
      ∃ md md', finalMethod (a ++ b) x n = some md ∧ finalMethod x.plugins x n = some md' ∧
        PerMethod (pre.foldl bookStep st0) md md' ∧ md ∈ C0.methods := by
    intro n
    unfold finalMethod
    rw [hB0', hrun, hp2]
    simp only [hfc0, hfc1, Option.map_some, Option.getD_some]
    exact ItemsRel.find (fun m m' h => h.1) n hper
  have hexp : ∀ m ∈ baseMethods x.events, ∀ md, finalMethod (a ++ b) x m.name = some md →
      expectedProj x.plugins x m = (match singleFieldOf (pre.foldl bookStep st0) md with | some (f, _) => [f] | none => []) := by
    intro m hm md hmd
    have := htwin m hm
    unfold finalMethod at hmd
    rw [hB0'] at hmd
    simp only [hfc0, Option.map_some, Option.getD_some] at hmd
    rw [hmd] at this
    have hrc : returnClassOf md = returnClassOf m := by simpa using this
    unfold expectedProj
    rw [hps, quiet_any_shorter a b st0, ← hps]
    simp only [↓reduceIte, hfacts, singleFieldOf_congr _ m md hrc.symm]
    cases singleFieldOf (pre.foldl bookStep st0) md with
    | none => rfl
    | some fa => rfl
  have hexpL : ∀ m, expectedProj (a ++ b) x m = [] := by
    intro m; unfold expectedProj
    have : (a ++ b).any PState.isShorter = false := by
      rw [List.any_append, nosf_no_shorter a hna, nosf_no_shorter b hnb]; rfl
    simp [this]
  refine ⟨?_, ?_, ?_⟩
  · -- loadsB
    unfold loadsB
    simp only [hrun, hp1, hp2, hp3']
    have hclash : trigOpsModuleClash { x with plugins := x.plugins } = false := by
      have h1 : trigOpsModuleClash { x with plugins := a ++ b } = false := by simpa using hclashL
      have h2 := clash_insert_shorter x a b st0
      rw [h1, ← hps] at h2
      exact h2
    have himp : importsExistB x { body := fr ++ r.2.body } ops = true := by
      unfold importsExistB
      rw [List.all_eq_true]
      intro i hi
      cases hq : relModule i with
      | none => rfl
      | some q => simpa using C.imp i hi q hq
    simp [C.fmt, C.ann, C.well, himp, hclash]
  · -- projOKB
    unfold projOKB at hLproj ⊢
    rw [List.all_eq_true] at hLproj ⊢
    intro m hm
    have h0 := hLproj m hm
    unfold finalShape at h0 ⊢
    rcases hfind m.name with ⟨hn0, _⟩ | ⟨md, md', hf0, hf1, hpm, hmem⟩
    · rw [hn0] at h0; simp at h0
    · rw [hf0] at h0
      rw [hf1]
      simp only [Option.bind_some] at h0 ⊢
      cases hs0 : shapeOf md with
      | none => rw [hs0] at h0; simp at h0
      | some s0 =>
        rw [hs0, hexpL] at h0
        simp only [beq_iff_eq] at h0
        rw [hexp m hm md hf0]
        have := hpm.2.2 s0 hs0
        cases hsf : singleFieldOf (pre.foldl bookStep st0) md with
        | none =>
          rw [hsf] at this
          simp only at this
          rw [this, hs0]
          simp [h0]
        | some fa =>
          obtain ⟨f, ann⟩ := fa
          rw [hsf] at this
          simp only at this
          rw [this]
          simp [shorterShape, h0]
  · -- SameBehaviour
    intro m hm s0 hs0
    obtain ⟨sL, hsL, hreqL, hrespL⟩ := hLsame m hm s0 hs0
    rw [hexpL] at hrespL
    unfold finalShape at hsL ⊢
    rcases hfind m.name with ⟨hn0, _⟩ | ⟨md, md', hf0, hf1, hpm, hmem⟩
    · rw [hn0] at hsL; simp at hsL
    · rw [hf0] at hsL
      simp only [Option.bind_some] at hsL
      rw [hf1, hpkg1, hexp m hm md hf0]
      rw [hpkgL] at hreqL hrespL
      have hbind := C.bindings md hmem sL hsL
      have hcb : ∀ c, sL.op = .const c → alookup c (importBindings (topImports { body := fr ++ r.2.body })) =
          alookup c (importBindings (topImports B0)) := fun c hc => C.const_bindings md hmem sL c hsL hc
      have := hpm.2.2 sL hsL
      cases hsf : singleFieldOf (pre.foldl bookStep st0) md with
      | none =>
        rw [hsf] at this
        simp only at this
        refine ⟨sL, by rw [this]; simpa using hsL, ?_, ?_⟩
        · rw [request_mono_ops B0 _ ops sL hgql' C.names_mono hcb]; exact hreqL
        · intro PyV validate getattr d
          rw [respond_same_ops validate getattr B0 _ ops sL d hbind, hrespL PyV validate getattr d]
      | some fa =>
        obtain ⟨f, ann⟩ := fa
        rw [hsf] at this
        simp only at this
        refine ⟨shorterShape sL f, by simpa using this, ?_, ?_⟩
        · rw [request_shorterShape, request_mono_ops B0 _ ops sL hgql' C.names_mono hcb]; exact hreqL
        · intro PyV validate getattr d
          rw [respond_shorterShape, respond_same_ops validate getattr B0 _ ops sL d hbind, hrespL PyV validate getattr d]
          simp only [List.foldl_nil, List.foldl_cons, outcome_map_map]

end Ariadne.C15
