/- Lemmas for the argument-heap model (Model/BaseClientHeap.lean): the store-level header merge writes
   only to the address it allocated, and `executeH` refines the value-level `execute`. -/
import AriadneModel.Model.BaseClientHeap
import AriadneModel.Proofs.BaseClient

set_option linter.unusedSimpArgs false
set_option linter.unusedVariables false

namespace Ariadne.BaseClient
open Ariadne

/-- `dictUpdate base []`: updating with the empty dict changes nothing -/
theorem dictUpdate_nil (base : HDict) : dictUpdate base [] = base := rfl

/-- What the store-level merge does, in closed form, when the caller passed an object. -/
theorem mergeHeadersS_some (s : Store) (a : Nat) (d : HDict) (h : s[a]? = some d) :
    mergeHeadersS s (some a) =
      some (s ++ [dictUpdate [("Content-Type", "application/json")] d], s.length) := by
  have ha : a < s.length := (List.getElem?_eq_some_iff.mp h).1
  have h1 : (s ++ [[("Content-Type", "application/json")]])[s.length]? = some [("Content-Type", "application/json")] := by
    simp
  have h2 : (s ++ [[("Content-Type", "application/json")]])[a]? = some d := by
    rw [List.getElem?_append_left ha]; exact h
  simp only [mergeHeadersS, ha, if_true, updateAt, h1, h2, Option.map_some]
  simp

/-- … and when the keyword was absent (a second new object, the default `{}`, is allocated). -/
theorem mergeHeadersS_none (s : Store) :
    mergeHeadersS s none = some (s ++ [[("Content-Type", "application/json")], []], s.length) := by
  have h1 : (s ++ [[("Content-Type", "application/json")]] ++ [[]])[s.length]? = some [("Content-Type", "application/json")] := by
    simp
  have h2 : (s ++ [[("Content-Type", "application/json")]] ++ [[]])[s.length + 1]? = some [] := by
    simp
  simp only [mergeHeadersS, updateAt, h1, h2, Option.map_some, dictUpdate_nil]
  simp

/-- dangling reference -/
theorem mergeHeadersS_dangling (s : Store) (a : Nat) (h : s[a]? = none) : mergeHeadersS s (some a) = none := by
  have ha : ¬ a < s.length := by
    intro hlt; rw [List.getElem?_eq_getElem hlt] at h; cases h
  simp [mergeHeadersS, ha]

/-- the caller's header dict, by value -/
def callerDict (s : Store) : Option Nat → Option (Option HDict)
  | none => some none
  | some a => (s[a]?).map some

theorem executeJsonH_eq (cl : Client) (s : Store) (caller : Option Nat) (hs : Option HDict) (call : Call)
    (vars : List (String × PV)) (hc : callerDict s caller = some hs) (hh : call.headers = hs) :
    executeJsonH cl s caller call vars = some (s, executeJson cl call vars) := by
  cases caller with
  | none =>
    simp only [callerDict, Option.some.injEq] at hc
    subst hc
    simp only [executeJsonH, mergeHeadersS_none]
    have : (s ++ [[("Content-Type", "application/json")], []])[s.length]? = some [("Content-Type", "application/json")] := by
      simp
    simp only [this, executeJson, hh, Option.getD_none, dictUpdate_nil]
    cases body call vars <;> simp
  | some a =>
    simp only [callerDict] at hc
    cases hd : s[a]? with
    | none => simp [hd] at hc
    | some d =>
      simp only [hd, Option.map_some, Option.some.injEq] at hc
      subst hc
      simp only [executeJsonH, mergeHeadersS_some s a d hd]
      have : (s ++ [dictUpdate [("Content-Type", "application/json")] d])[s.length]? =
          some (dictUpdate [("Content-Type", "application/json")] d) := by simp
      simp only [this, executeJson, hh, Option.getD_some]
      cases body call vars <;> simp

theorem call?_headers {h : Heap} {c : HCall} {call : Call} (hc : h.call? c = some call) :
    callerDict h.hdrs c.headers = some call.headers := by
  unfold Heap.call? at hc
  cases hv : c.variables <;> cases hh : c.headers <;> simp only [hv, hh] at hc
  · simp only [Option.some.injEq] at hc; subst hc; rfl
  · cases hd : h.hdrs[‹Nat›]? <;> simp only [hd, Option.map_none, Option.map_some, Option.some.injEq, reduceCtorEq] at hc
    subst hc; simp [callerDict, hd]
  · cases hx : h.vars[‹Nat›]? <;> simp only [hx, Option.map_none, Option.map_some, Option.some.injEq, reduceCtorEq] at hc
    subst hc; rfl
  · rename_i av ah
    cases hx : h.vars[av]? <;> cases hd : h.hdrs[ah]? <;>
      simp only [hx, hd, Option.map_none, Option.map_some, Option.some.injEq, reduceCtorEq] at hc
    subst hc; simp [callerDict, hd]

/-- `executeH` refines `execute`: on well-formed references it leaves the client and EVERY object of
    the argument heap as they were, and sends the request of the value-level model. -/
theorem executeH_eq (cl : Client) (h : Heap) (c : HCall) (call : Call) (hc : h.call? c = some call) :
    executeH cl h c = .ok cl h (execute cl call).2 := by
  have hj := fun vars => executeJsonH_eq cl h.hdrs c.headers call.headers call vars (call?_headers hc) rfl
  rw [execute_snd]
  unfold executeH
  simp only [hc]
  by_cases ht : (cl.kind.isOT && cl.tracer && (toJsonKvs (processVariables call.variables).1).isNone) = true
  · simp only [ht, if_true]
    have hn : toJsonKvs (processVariables call.variables).1 = none := by
      simp only [Bool.and_eq_true, Option.isNone_iff_eq_none] at ht; exact ht.2
    simp only [executePlain]
    by_cases he : (processVariables call.variables).2.isEmpty = true
    · simp [he, executeJson, body, hn]
    · simp [he, executeMultipart, body, hn]
  · simp only [ht, if_false, Bool.false_eq_true]
    unfold executePlain
    by_cases he : (processVariables call.variables).2.isEmpty = true
    · simp only [he, if_true, hj]
    · simp only [he, if_false, Bool.false_eq_true]

theorem executeH_illFormed (cl : Client) (h : Heap) (c : HCall) (hc : h.call? c = none) :
    executeH cl h c = .illFormed := by
  unfold executeH; simp [hc]

/-- the value-level calls of a list of steps -/
def derefSteps (h : Heap) : List (Client × HCall) → List (Option Request)
  | [] => []
  | (cl, c) :: rest => ((h.call? c).map fun call => (execute cl call).2) :: derefSteps h rest

theorem runSeqH_eq (h : Heap) (steps : List (Client × HCall)) :
    runSeqH h steps = (h, derefSteps h steps) := by
  induction steps with
  | nil => rfl
  | cons st rest ih =>
    obtain ⟨cl, c⟩ := st
    cases hc : h.call? c with
    | none => simp [runSeqH, derefSteps, executeH_illFormed cl h c hc, hc, ih]
    | some call => simp [runSeqH, derefSteps, executeH_eq cl h c call hc, hc, ih]

end Ariadne.BaseClient
