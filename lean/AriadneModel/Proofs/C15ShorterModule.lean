/-
  C15: what `ShorterResultsPlugin.generate_client_module` does to the import statements of the client module
  (`extended_imports`: names appended to an existing `from <module> import …`, the rest imported by fresh
  statements inserted at the top), in terms of what the module binds afterwards:

    * every name bound before is still bound, every collected name is bound afterwards;
    * a name that was NOT collected resolves to the same (module, name) as before;
    * an extended statement imports from the module it imported from before; a fresh one from a collected key.
-/
import AriadneModel.Proofs.C15History

set_option linter.unusedSimpArgs false
set_option linter.unusedVariables false

namespace Ariadne.C15
open Ariadne Ariadne.Py Ariadne.Plugins Ariadne.ClientSem

/-! ### vocabulary -/

def namesOfTops (l : List Top) : List String := moduleNames { body := l }
def importsOfTops (l : List Top) : List ImportFrom := l.filterMap Top.importFrom?
def addedNames (ext : List (String × List String)) : List String := ext.flatMap (·.2)

theorem namesOfTops_append (a b : List Top) : namesOfTops (a ++ b) = namesOfTops a ++ namesOfTops b := by
  simp [namesOfTops, moduleNames, List.flatMap_append]

theorem namesOfTops_cons (t : Top) (l : List Top) : namesOfTops (t :: l) = namesOfTops [t] ++ namesOfTops l :=
  namesOfTops_append [t] l

theorem importsOfTops_append (a b : List Top) : importsOfTops (a ++ b) = importsOfTops a ++ importsOfTops b := by
  simp [importsOfTops, List.filterMap_append]

theorem importBindings_append (a b : List ImportFrom) : importBindings (a ++ b) = importBindings a ++ importBindings b := by
  simp [importBindings, List.flatMap_append]

theorem alookup_append {β} (k : String) (a b : List (String × β)) :
    alookup k (a ++ b) = (match alookup k a with | some v => some v | none => alookup k b) := by
  induction a with
  | nil => rfl
  | cons kv rest ih =>
    obtain ⟨k', v⟩ := kv
    by_cases h : k' = k
    · simp [alookup, h]
    · simp [alookup, h, ih]

theorem alookup_none_of_not_key {β} (k : String) (a : List (String × β)) (h : ∀ kv ∈ a, kv.1 ≠ k) : alookup k a = none := by
  induction a with
  | nil => rfl
  | cons kv rest ih =>
    obtain ⟨k', v⟩ := kv
    have h1 : k' ≠ k := h (k', v) (by simp)
    simp [alookup, h1]
    exact ih (fun kv hkv => h kv (by simp [hkv]))

theorem alookup_aerase_other {β} (k k' : String) (d : List (String × β)) (h : k ≠ k') :
    alookup k' (aerase k d) = alookup k' d := by
  induction d with
  | nil => rfl
  | cons kv rest ih =>
    obtain ⟨k2, v2⟩ := kv
    by_cases h2 : k2 = k
    · subst h2; simp [aerase, alookup, h]
    · by_cases h3 : k2 = k'
      · subst h3; simp [aerase, alookup, h2]
      · simp [aerase, alookup, h2, h3, ih]

theorem mem_of_mem_aerase {β} (k : String) (d : List (String × β)) (p : String × β) (h : p ∈ aerase k d) : p ∈ d := by
  induction d with
  | nil => simp [aerase] at h
  | cons kv rest ih =>
    obtain ⟨k2, v2⟩ := kv
    by_cases h2 : k2 = k
    · simp [aerase, h2] at h; simp [h]
    · simp [aerase, h2] at h
      rcases h with h | h
      · simp [h]
      · simp [ih h]

theorem addedNames_mem {ext : List (String × List String)} {src : String} {names : List String} {n : String}
    (h : (src, names) ∈ ext) (hn : n ∈ names) : n ∈ addedNames ext := by
  unfold addedNames
  rw [List.mem_flatMap]
  exact ⟨(src, names), h, hn⟩

/-! ### one step of the import-extending loop -/

/-- an existing `from <m> import …` whose module is a collected key: the collected names are appended -/
def extendImport (i : ImportFrom) (extra : List String) : ImportFrom :=
  { i with names := i.names ++ extra.map (fun n => (n, none)) }

def ExtendsHere (ext : List (String × List String)) (t : Top) : Prop :=
  ∃ i m extra, t = .simple (.importFrom i) ∧ i.module = some m ∧ alookup m ext = some extra

theorem sx_cons_extend (ext : List (String × List String)) (i : ImportFrom) (rest : List Top) (m : String) (extra : List String)
    (hm : i.module = some m) (hl : alookup m ext = some extra) :
    shorterExtendExisting ext (.simple (.importFrom i) :: rest) =
      ((shorterExtendExisting (aerase m ext) rest).1,
       .simple (.importFrom (extendImport i extra)) :: (shorterExtendExisting (aerase m ext) rest).2) := by
  simp only [shorterExtendExisting, hm, hl, extendImport]

theorem sx_cons_keep (ext : List (String × List String)) (t : Top) (rest : List Top) (h : ¬ ExtendsHere ext t) :
    shorterExtendExisting ext (t :: rest) =
      ((shorterExtendExisting ext rest).1, t :: (shorterExtendExisting ext rest).2) := by
  cases t with
  | classDef c => simp only [shorterExtendExisting]
  | funcDef f => simp only [shorterExtendExisting]
  | ifStmt a b o => simp only [shorterExtendExisting]
  | simple sm =>
    cases sm with
    | importFrom i =>
      simp only [shorterExtendExisting]
      cases hm : i.module with
      | none => rfl
      | some m =>
        simp only
        cases hl : alookup m ext with
        | none => rfl
        | some extra => exact absurd ⟨i, m, extra, rfl, hm, hl⟩ h
    | import_ d => simp only [shorterExtendExisting]
    | assign a b => simp only [shorterExtendExisting]
    | assignList a b => simp only [shorterExtendExisting]
    | annAssign a b v => simp only [shorterExtendExisting]
    | ret v => simp only [shorterExtendExisting]
    | expr v => simp only [shorterExtendExisting]
    | other a b => simp only [shorterExtendExisting]

/-! ### the whole loop -/

structure ExtendSpec (ext : List (String × List String)) (l : List Top) (ext' : List (String × List String)) (l' : List Top) : Prop where
  names_mono : ∀ n ∈ namesOfTops l, n ∈ namesOfTops l'
  covered : ∀ src names n, alookup src ext = some names → n ∈ names → n ∈ namesOfTops l' ∨ alookup src ext' = some names
  leftover : ∀ p ∈ ext', p ∈ ext
  bindings : ∀ n, n ∉ addedNames ext →
    alookup n (importBindings (importsOfTops l')) = alookup n (importBindings (importsOfTops l))
  provenance : ∀ i' ∈ importsOfTops l', ∃ i ∈ importsOfTops l, i'.module = i.module ∧ i'.level = i.level
  tops : ∀ t' ∈ l', (∃ i, t' = .simple (.importFrom i)) ∨ t' ∈ l
  noclass : NoClass l → NoClass l'
  length_eq : l'.length = l.length

theorem namesOf_import (i : ImportFrom) : namesOfTops [.simple (.importFrom i)] = i.names.map (fun n => n.2.getD n.1) := by
  simp [namesOfTops, moduleNames]

theorem importBindings_extend (i : ImportFrom) (extra : List String) (m : String) (hm : i.module = some m) :
    importBindings [extendImport i extra] =
      importBindings [i] ++ extra.map (fun n => (n, (dotted i.level m, n))) := by
  simp [importBindings, extendImport, hm, List.map_append, Function.comp_def]

theorem shorterExtend_spec : ∀ (l : List Top) (ext : List (String × List String)),
    ExtendSpec ext l (shorterExtendExisting ext l).1 (shorterExtendExisting ext l).2 := by
  intro l
  induction l with
  | nil =>
    intro ext
    simp only [shorterExtendExisting]
    exact ⟨fun n h => h, fun src names n h _ => .inr h, fun p h => h, fun n _ => rfl, fun i h => by simp [importsOfTops] at h,
      fun t h => by simp at h, fun h => h, rfl⟩
  | cons t rest ih =>
    intro ext
    by_cases hx : ExtendsHere ext t
    · obtain ⟨i, m, extra, rfl, hm, hl⟩ := hx
      rw [sx_cons_extend ext i rest m extra hm hl]
      have s := ih (aerase m ext)
      have hmem : (m, extra) ∈ ext := mem_of_alookup m extra ext hl
      refine ⟨?_, ?_, ?_, ?_, ?_, ?_, ?_, ?_⟩
      · intro n hn
        rw [namesOfTops_cons] at hn ⊢
        rcases List.mem_append.mp hn with h | h
        · apply List.mem_append_left
          rw [namesOf_import] at h ⊢
          simp only [extendImport, List.map_append, List.mem_append]
          exact .inl h
        · exact List.mem_append_right _ (s.names_mono n h)
      · intro src names n hsrc hn
        by_cases hsm : m = src
        · subst hsm
          rw [hl] at hsrc
          cases hsrc
          left
          rw [namesOfTops_cons]
          apply List.mem_append_left
          rw [namesOf_import]
          simp only [extendImport, List.map_append, List.map_map, List.mem_append, List.mem_map]
          exact .inr ⟨n, hn, rfl⟩
        · have h2 : alookup src (aerase m ext) = some names := by rw [alookup_aerase_other m src ext hsm]; exact hsrc
          rcases s.covered src names n h2 hn with h | h
          · left; rw [namesOfTops_cons]; exact List.mem_append_right _ h
          · right; exact h
      · intro p hp
        exact mem_of_mem_aerase m ext p (s.leftover p hp)
      · intro n hn
        have hn2 : n ∉ addedNames (aerase m ext) := by
          intro hc
          apply hn
          unfold addedNames at hc ⊢
          rw [List.mem_flatMap] at hc ⊢
          obtain ⟨p, hp, hnp⟩ := hc
          exact ⟨p, mem_of_mem_aerase m ext p hp, hnp⟩
        have hnx : n ∉ extra := fun hc => hn (addedNames_mem hmem hc)
        have e1 : importsOfTops (.simple (.importFrom (extendImport i extra)) :: (shorterExtendExisting (aerase m ext) rest).2) =
            [extendImport i extra] ++ importsOfTops (shorterExtendExisting (aerase m ext) rest).2 := by
          simp [importsOfTops, Top.importFrom?]
        have e2 : importsOfTops (.simple (.importFrom i) :: rest) = [i] ++ importsOfTops rest := by
          simp [importsOfTops, Top.importFrom?]
        rw [e1, e2, importBindings_append, importBindings_append, importBindings_extend i extra m hm,
          alookup_append, alookup_append, alookup_append]
        have hx : alookup n (extra.map (fun n => (n, (dotted i.level m, n)))) = none := by
          apply alookup_none_of_not_key
          intro kv hkv
          simp only [List.mem_map] at hkv
          obtain ⟨a, ha, rfl⟩ := hkv
          intro hc
          exact hnx (hc ▸ ha)
        rw [hx, s.bindings n hn2]
        cases alookup n (importBindings [i]) <;> rfl
      · intro i' hi'
        have e1 : importsOfTops (.simple (.importFrom (extendImport i extra)) :: (shorterExtendExisting (aerase m ext) rest).2) =
            extendImport i extra :: importsOfTops (shorterExtendExisting (aerase m ext) rest).2 := by
          simp [importsOfTops, Top.importFrom?]
        have e2 : importsOfTops (.simple (.importFrom i) :: rest) = i :: importsOfTops rest := by
          simp [importsOfTops, Top.importFrom?]
        rw [e1] at hi'
        rw [e2]
        rcases List.mem_cons.mp hi' with rfl | h
        · exact ⟨i, by simp, rfl, rfl⟩
        · obtain ⟨i0, hi0, h1, h2⟩ := s.provenance i' h
          exact ⟨i0, by simp [hi0], h1, h2⟩
      · intro t' ht'
        rcases List.mem_cons.mp ht' with rfl | h
        · exact .inl ⟨_, rfl⟩
        · rcases s.tops t' h with h | h
          · exact .inl h
          · exact .inr (by simp [h])
      · intro hnc u hu
        obtain ⟨h1, h2⟩ := noClass_cons hnc
        rcases List.mem_cons.mp hu with rfl | h
        · rfl
        · exact s.noclass h2 u h
      · simp [s.length_eq]
    · rw [sx_cons_keep ext t rest hx]
      have s := ih ext
      refine ⟨?_, ?_, s.leftover, ?_, ?_, ?_, ?_, ?_⟩
      · intro n hn
        rw [namesOfTops_cons] at hn ⊢
        rcases List.mem_append.mp hn with h | h
        · exact List.mem_append_left _ h
        · exact List.mem_append_right _ (s.names_mono n h)
      · intro src names n hsrc hn
        rcases s.covered src names n hsrc hn with h | h
        · left; rw [namesOfTops_cons]; exact List.mem_append_right _ h
        · right; exact h
      · intro n hn
        have e1 : ∀ r : List Top, importsOfTops (t :: r) = importsOfTops [t] ++ importsOfTops r := fun r => importsOfTops_append [t] r
        rw [e1 (shorterExtendExisting ext rest).2, e1 rest, importBindings_append, importBindings_append, alookup_append,
          alookup_append, s.bindings n hn]
      · intro i' hi'
        have e1 : ∀ r : List Top, importsOfTops (t :: r) = importsOfTops [t] ++ importsOfTops r := fun r => importsOfTops_append [t] r
        rw [e1 (shorterExtendExisting ext rest).2] at hi'
        rw [e1 rest]
        rcases List.mem_append.mp hi' with h | h
        · exact ⟨i', List.mem_append_left _ h, rfl, rfl⟩
        · obtain ⟨i0, hi0, h1, h2⟩ := s.provenance i' h
          exact ⟨i0, List.mem_append_right _ hi0, h1, h2⟩
      · intro t' ht'
        rcases List.mem_cons.mp ht' with rfl | h
        · exact .inr (by simp)
        · rcases s.tops t' h with h | h
          · exact .inl h
          · exact .inr (by simp [h])
      · intro hnc u hu
        obtain ⟨h1, h2⟩ := noClass_cons hnc
        rcases List.mem_cons.mp hu with rfl | h
        · exact h1
        · exact s.noclass h2 u h
      · simp [s.length_eq]

/-- the loop does not look into `def gql` and the class -/
theorem shorterExtend_tail (g : Method) (c : ClassDef) : ∀ (pre : List Top) (ext : List (String × List String)),
    shorterExtendExisting ext (pre ++ [.funcDef g, .classDef c]) =
      ((shorterExtendExisting ext pre).1, (shorterExtendExisting ext pre).2 ++ [.funcDef g, .classDef c]) := by
  intro pre
  induction pre with
  | nil => intro ext; simp [shorterExtendExisting]
  | cons t rest ih =>
    intro ext
    by_cases hx : ExtendsHere ext t
    · obtain ⟨i, m, extra, rfl, hm, hl⟩ := hx
      simp only [List.cons_append]
      rw [sx_cons_extend ext i _ m extra hm hl, sx_cons_extend ext i _ m extra hm hl, ih]
      rfl
    · simp only [List.cons_append]
      rw [sx_cons_keep ext t _ hx, sx_cons_keep ext t _ hx, ih]
      rfl

/-! ### the fresh import statements -/

def freshImports (ext : List (String × List String)) : List Top :=
  (ext.map (fun (x : String × List String) =>
    Top.simple (.importFrom { module := some x.1, names := x.2.map (fun n => (n, none)), level := 0 }))).reverse

theorem freshImports_names (ext : List (String × List String)) (n : String) :
    n ∈ namesOfTops (freshImports ext) ↔ n ∈ addedNames ext := by
  unfold freshImports namesOfTops moduleNames addedNames
  simp only [List.mem_flatMap, List.mem_reverse, List.mem_map]
  constructor
  · rintro ⟨t, ⟨x, hx, rfl⟩, hn⟩
    simp only [List.map_map, List.mem_map, Function.comp_apply] at hn
    obtain ⟨a, ha, rfl⟩ := hn
    exact ⟨x, hx, ha⟩
  · rintro ⟨x, hx, hn⟩
    refine ⟨_, ⟨x, hx, rfl⟩, ?_⟩
    simp only [List.map_map, List.mem_map, Function.comp_apply]
    exact ⟨n, hn, rfl⟩

theorem freshImports_imports (ext : List (String × List String)) (i : ImportFrom) (h : i ∈ importsOfTops (freshImports ext)) :
    ∃ x ∈ ext, i = { module := some x.1, names := x.2.map (fun n => (n, none)), level := 0 } := by
  unfold freshImports importsOfTops at h
  simp only [List.mem_filterMap, List.mem_reverse, List.mem_map] at h
  obtain ⟨t, ⟨x, hx, rfl⟩, hi⟩ := h
  simp [Top.importFrom?] at hi
  exact ⟨x, hx, hi.symm⟩

theorem freshImports_binding_keys (ext : List (String × List String)) (kv : String × String × String)
    (h : kv ∈ importBindings (importsOfTops (freshImports ext))) : kv.1 ∈ addedNames ext := by
  unfold importBindings at h
  rw [List.mem_flatMap] at h
  obtain ⟨i, hi, hkv⟩ := h
  obtain ⟨x, hx, rfl⟩ := freshImports_imports ext i hi
  simp only [List.map_map, List.mem_map, Function.comp_apply] at hkv
  obtain ⟨a, ha, rfl⟩ := hkv
  exact addedNames_mem (src := x.1) (names := x.2) hx ha

theorem freshImports_noclass (ext : List (String × List String)) : NoClass (freshImports ext) := by
  intro t ht
  unfold freshImports at ht
  simp only [List.mem_reverse, List.mem_map] at ht
  obtain ⟨x, _, rfl⟩ := ht
  rfl

end Ariadne.C15
