/-
  Lemmas for C02 about the related-fragments closure of `get_operation_as_str`
  (Model/OpText.lean): `_get_fragments_names` computes exactly the set of fragment names reachable
  through the spread graph, and the two rewrites can be undone.
-/
import AriadneModel.Model.OpText
import Mathlib.Logic.Relation
import Mathlib.Data.String.Basic

set_option linter.unusedSimpArgs false
set_option linter.unusedVariables false

namespace Ariadne.OpTextProofs
open Ariadne Ariadne.Gql Ariadne.Util Ariadne.ResultTypes Ariadne.OpText

/-! ### list-as-set helpers -/

theorem mem_setAdd (s : List String) (x y : String) : y ∈ setAdd s x ↔ y ∈ s ∨ y = x := by
  unfold setAdd
  by_cases h : s.contains x = true
  · simp only [h, if_true]
    constructor
    · exact Or.inl
    · rintro (h' | rfl)
      · exact h'
      · exact List.contains_iff_mem.mp h
  · simp only [h, if_false]
    simp

theorem mem_setUnion (s t : List String) (y : String) : y ∈ setUnion s t ↔ y ∈ s ∨ y ∈ t := by
  unfold setUnion
  induction t generalizing s with
  | nil => simp
  | cons a t ih =>
    simp only [List.foldl_cons]
    rw [ih, mem_setAdd]
    simp only [List.mem_cons]
    constructor
    · rintro ((h | h) | h)
      · exact Or.inl h
      · exact Or.inr (Or.inl h)
      · exact Or.inr (Or.inr h)
    · rintro (h | h | h)
      · exact Or.inl (Or.inl h)
      · exact Or.inl (Or.inr h)
      · exact Or.inr h

theorem subset_iff (xs ys : List String) : subset xs ys = true ↔ ∀ x ∈ xs, x ∈ ys := by
  unfold subset
  rw [List.all_eq_true]
  constructor
  · intro h x hx
    exact List.contains_iff_mem.mp (h x hx)
  · intro h x hx
    exact List.contains_iff_mem.mpr (h x hx)

/-! ### the spread graph -/

/-- `a → b`: the definition of fragment `a` spreads `b` (at any depth, not through other spreads) -/
def Edge (frags : List Fragment) (a b : String) : Prop :=
  ∃ f, findFragment? frags a = some f ∧ b ∈ directSels f.sel

/-- fragment `n` is reachable from the selection set `sels` through the spread graph -/
def Reach (frags : List Fragment) (sels : List Selection) (n : String) : Prop :=
  ∃ r ∈ directSels sels, Relation.ReflTransGen (Edge frags) r n

/-- closed under the spread graph -/
def Closed (frags : List Fragment) (X : List String) : Prop := ∀ a ∈ X, ∀ b, Edge frags a b → b ∈ X

theorem directSels_mem {s : Selection} {sels : List Selection} (hs : s ∈ sels) {x : String} (hx : x ∈ directSel s) :
    x ∈ directSels sels := by
  induction sels with
  | nil => cases hs
  | cons t ts ih =>
    simp only [directSels, List.mem_append]
    rcases List.mem_cons.mp hs with rfl | h
    · exact Or.inl hx
    · exact Or.inr (ih h)

theorem directSels_cons (s : Selection) (ss : List Selection) (x : String) :
    x ∈ directSels (s :: ss) ↔ x ∈ directSel s ∨ x ∈ directSels ss := by
  simp [directSels]

theorem reach_of_closed {frags : List Fragment} {sels : List Selection} {X : List String}
    (h0 : ∀ x ∈ directSels sels, x ∈ X) (hc : Closed frags X) {n : String} (h : Reach frags sels n) : n ∈ X := by
  obtain ⟨r, hr, hp⟩ := h
  induction hp with
  | refl => exact h0 r hr
  | tail _ hbc ih => exact hc _ ih _ hbc

theorem reach_step {frags : List Fragment} {sels : List Selection} {m n : String} {f : Fragment}
    (hm : Reach frags sels m) (hf : findFragment? frags m = some f) (hn : Reach frags f.sel n) : Reach frags sels n := by
  obtain ⟨r, hr, hp⟩ := hm
  obtain ⟨r', hr', hp'⟩ := hn
  exact ⟨r, hr, (hp.tail ⟨f, hf, hr'⟩).trans hp'⟩

/-! ### `foldE` -/

theorem foldE_inv {α β ε : Type} (f : β → α → Except ε β) (P : β → Prop) (l : List α) :
    ∀ (init r : β), P init → (∀ acc x acc', x ∈ l → P acc → f acc x = .ok acc' → P acc') → foldE f init l = .ok r → P r := by
  induction l with
  | nil =>
    intro init r h0 _ h
    simp only [foldE] at h
    cases h
    exact h0
  | cons a l ih =>
    intro init r h0 hstep h
    simp only [foldE] at h
    cases hf : f init a with
    | error e => rw [hf] at h; cases h
    | ok acc' =>
      rw [hf] at h
      exact ih acc' r (hstep init a acc' (by simp) h0 hf) (fun acc x acc'' hx => hstep acc x acc'' (by simp [hx])) h

/-! ### `_get_fragments_names` is the reachable set -/

theorem fragNames_sound (frags : List Fragment) :
    ∀ (fuel : Nat) (sels : List Selection) (L : List String), fragNames frags fuel sels = .ok L → ∀ n ∈ L, Reach frags sels n := by
  intro fuel
  induction fuel with
  | zero => intro sels L h; simp [fragNames] at h
  | succ fuel ih =>
    intro sels L h
    simp only [fragNames] at h
    refine foldE_inv _ (fun acc => ∀ n ∈ acc, Reach frags sels n) sels [] L (by simp) ?_ h
    intro acc s acc' hs hacc hstep n hn
    cases s with
    | spread name d =>
      simp only [namesStep] at hstep
      cases hf : findFragment? frags name with
      | none => rw [hf] at hstep; cases hstep
      | some f =>
        rw [hf] at hstep
        simp only at hstep
        cases hr : fragNames frags fuel f.sel with
        | error e => rw [hr] at hstep; cases hstep
        | ok sub =>
          rw [hr] at hstep
          simp only [Except.ok.injEq] at hstep
          subst hstep
          rw [mem_setUnion, mem_setAdd] at hn
          have hname : Reach frags sels name := ⟨name, directSels_mem hs (by simp [directSel]), .refl⟩
          rcases hn with (hn | rfl) | hn
          · exact hacc n hn
          · exact hname
          · exact reach_step hname hf (ih f.sel sub hr n hn)
    | field a nm d sid sub =>
      simp only [namesStep] at hstep
      by_cases he : sub.isEmpty = true
      · simp only [he, if_true, Except.ok.injEq] at hstep
        subst hstep
        exact hacc n hn
      · have he' : sub.isEmpty = false := by simpa using he
        simp only [he', Bool.false_eq_true, if_false] at hstep
        cases hr : fragNames frags fuel sub with
        | error e => rw [hr] at hstep; cases hstep
        | ok r =>
          rw [hr] at hstep
          simp only [Except.ok.injEq] at hstep
          subst hstep
          rw [mem_setUnion] at hn
          rcases hn with hn | hn
          · exact hacc n hn
          · obtain ⟨r0, hr0, hp⟩ := ih sub r hr n hn
            exact ⟨r0, directSels_mem hs (by simpa [directSel] using hr0), hp⟩
    | inline on d sid sub =>
      simp only [namesStep] at hstep
      cases hr : fragNames frags fuel sub with
      | error e => rw [hr] at hstep; cases hstep
      | ok r =>
        rw [hr] at hstep
        simp only [Except.ok.injEq] at hstep
        subst hstep
        rw [mem_setUnion] at hn
        rcases hn with hn | hn
        · exact hacc n hn
        · obtain ⟨r0, hr0, hp⟩ := ih sub r hr n hn
          exact ⟨r0, directSels_mem hs (by simpa [directSel] using hr0), hp⟩

theorem closed_union {frags : List Fragment} {X Y : List String} (hX : Closed frags X) (hY : Closed frags Y) :
    Closed frags (setUnion X Y) := by
  intro a ha b hab
  rw [mem_setUnion] at ha ⊢
  rcases ha with ha | ha
  · exact Or.inl (hX a ha b hab)
  · exact Or.inr (hY a ha b hab)

/-- one loop iteration keeps the accumulator closed, keeps what it had, and adds the spreads of `s` -/
theorem namesStep_closed (frags : List Fragment) (rec : List Selection → Except GenErr (List String))
    (hrec : ∀ sels L, rec sels = .ok L → (∀ x ∈ directSels sels, x ∈ L) ∧ Closed frags L)
    (acc acc' : List String) (s : Selection) (hacc : Closed frags acc) (h : namesStep frags rec acc s = .ok acc') :
    (∀ x ∈ acc, x ∈ acc') ∧ (∀ x ∈ directSel s, x ∈ acc') ∧ Closed frags acc' := by
  cases s with
  | spread name d =>
    simp only [namesStep] at h
    cases hf : findFragment? frags name with
    | none => rw [hf] at h; cases h
    | some f =>
      rw [hf] at h
      simp only at h
      cases hr : rec f.sel with
      | error e => rw [hr] at h; cases h
      | ok sub =>
        rw [hr] at h
        simp only [Except.ok.injEq] at h
        subst h
        obtain ⟨hsub0, hsubc⟩ := hrec f.sel sub hr
        refine ⟨?_, ?_, ?_⟩
        · intro x hx
          rw [mem_setUnion, mem_setAdd]
          exact Or.inl (Or.inl hx)
        · intro x hx
          simp only [directSel, List.mem_singleton] at hx
          subst hx
          rw [mem_setUnion, mem_setAdd]
          exact Or.inl (Or.inr rfl)
        · intro a ha b hab
          rw [mem_setUnion, mem_setAdd] at ha
          rw [mem_setUnion, mem_setAdd]
          rcases ha with (ha | rfl) | ha
          · exact Or.inl (Or.inl (hacc a ha b hab))
          · obtain ⟨f', hf', hb⟩ := hab
            rw [hf] at hf'
            cases hf'
            exact Or.inr (hsub0 b hb)
          · exact Or.inr (hsubc a ha b hab)
  | field a nm d sid sub =>
    simp only [namesStep] at h
    by_cases he : sub.isEmpty = true
    · simp only [he, if_true, Except.ok.injEq] at h
      subst h
      have : sub = [] := List.isEmpty_iff.mp he
      subst this
      exact ⟨fun x hx => hx, by simp [directSel, directSels], hacc⟩
    · have he' : sub.isEmpty = false := by simpa using he
      simp only [he', Bool.false_eq_true, if_false] at h
      cases hr : rec sub with
      | error e => rw [hr] at h; cases h
      | ok r =>
        rw [hr] at h
        simp only [Except.ok.injEq] at h
        subst h
        obtain ⟨h0, hc⟩ := hrec sub r hr
        refine ⟨fun x hx => (mem_setUnion _ _ _).mpr (Or.inl hx), ?_, closed_union hacc hc⟩
        intro x hx
        exact (mem_setUnion _ _ _).mpr (Or.inr (h0 x (by simpa [directSel] using hx)))
  | inline on d sid sub =>
    simp only [namesStep] at h
    cases hr : rec sub with
    | error e => rw [hr] at h; cases h
    | ok r =>
      rw [hr] at h
      simp only [Except.ok.injEq] at h
      subst h
      obtain ⟨h0, hc⟩ := hrec sub r hr
      refine ⟨fun x hx => (mem_setUnion _ _ _).mpr (Or.inl hx), ?_, closed_union hacc hc⟩
      intro x hx
      exact (mem_setUnion _ _ _).mpr (Or.inr (h0 x (by simpa [directSel] using hx)))

theorem foldE_names_closed (frags : List Fragment) (rec : List Selection → Except GenErr (List String))
    (hrec : ∀ sels L, rec sels = .ok L → (∀ x ∈ directSels sels, x ∈ L) ∧ Closed frags L) :
    ∀ (sels : List Selection) (acc L : List String), Closed frags acc → foldE (namesStep frags rec) acc sels = .ok L →
      (∀ x ∈ acc, x ∈ L) ∧ (∀ x ∈ directSels sels, x ∈ L) ∧ Closed frags L := by
  intro sels
  induction sels with
  | nil =>
    intro acc L hacc h
    simp only [foldE, Except.ok.injEq] at h
    subst h
    exact ⟨fun x hx => hx, by simp [directSels], hacc⟩
  | cons s ss ih =>
    intro acc L hacc h
    simp only [foldE] at h
    cases hs : namesStep frags rec acc s with
    | error e => rw [hs] at h; cases h
    | ok acc' =>
      rw [hs] at h
      obtain ⟨h1, h2, h3⟩ := namesStep_closed frags rec hrec acc acc' s hacc hs
      obtain ⟨k1, k2, k3⟩ := ih acc' L h3 h
      refine ⟨fun x hx => k1 x (h1 x hx), ?_, k3⟩
      intro x hx
      rcases (directSels_cons s ss x).mp hx with hx | hx
      · exact k1 x (h2 x hx)
      · exact k2 x hx

theorem fragNames_closed (frags : List Fragment) :
    ∀ (fuel : Nat) (sels : List Selection) (L : List String), fragNames frags fuel sels = .ok L →
      (∀ x ∈ directSels sels, x ∈ L) ∧ Closed frags L := by
  intro fuel
  induction fuel with
  | zero => intro sels L h; simp [fragNames] at h
  | succ fuel ih =>
    intro sels L h
    simp only [fragNames] at h
    have := foldE_names_closed frags (fragNames frags fuel) ih sels [] L (by intro a ha; cases ha) h
    exact ⟨this.2.1, this.2.2⟩

/-- `_get_fragments_names(selection_set)` = the fragments reachable from the selection set -/
theorem fragNames_iff (frags : List Fragment) (fuel : Nat) (sels : List Selection) (L : List String)
    (h : fragNames frags fuel sels = .ok L) (n : String) : n ∈ L ↔ Reach frags sels n := by
  constructor
  · exact fragNames_sound frags fuel sels L h n
  · obtain ⟨h0, hc⟩ := fragNames_closed frags fuel sels L h
    exact reach_of_closed h0 hc

/-! ### `_get_all_related_fragments` -/

theorem foldE_related (frags : List Fragment) (fuel : Nat) :
    ∀ (ms : List String) (acc L : List String), foldE (relatedStep frags fuel) acc ms = .ok L →
      (∀ x ∈ acc, x ∈ L)
      ∧ (∀ m ∈ ms, ∀ f, findFragment? frags m = some f → ∀ n, Reach frags f.sel n → n ∈ L)
      ∧ (∀ n ∈ L, n ∈ acc ∨ ∃ m ∈ ms, ∃ f, findFragment? frags m = some f ∧ Reach frags f.sel n) := by
  intro ms
  induction ms with
  | nil =>
    intro acc L h
    simp only [foldE, Except.ok.injEq] at h
    subst h
    exact ⟨fun x hx => hx, by simp, fun n hn => Or.inl hn⟩
  | cons m ms ih =>
    intro acc L h
    simp only [foldE] at h
    cases hs : relatedStep frags fuel acc m with
    | error e => rw [hs] at h; cases h
    | ok acc' =>
      rw [hs] at h
      obtain ⟨k1, k2, k3⟩ := ih acc' L h
      simp only [relatedStep] at hs
      cases hf : findFragment? frags m with
      | none => rw [hf] at hs; cases hs
      | some f =>
        rw [hf] at hs
        simp only at hs
        cases hr : fragNames frags fuel f.sel with
        | error e => rw [hr] at hs; cases hs
        | ok sub =>
          rw [hr] at hs
          simp only [Except.ok.injEq] at hs
          subst hs
          refine ⟨fun x hx => k1 x ((mem_setUnion _ _ _).mpr (Or.inl hx)), ?_, ?_⟩
          · intro m' hm' f' hf' n hn
            rcases List.mem_cons.mp hm' with rfl | hm'
            · rw [hf] at hf'
              cases hf'
              exact k1 n ((mem_setUnion _ _ _).mpr (Or.inr ((fragNames_iff frags fuel f.sel sub hr n).mpr hn)))
            · exact k2 m' hm' f' hf' n hn
          · intro n hn
            rcases k3 n hn with hn | ⟨m', hm', f', hf', hr'⟩
            · rcases (mem_setUnion _ _ _).mp hn with hn | hn
              · exact Or.inl hn
              · exact Or.inr ⟨m, by simp, f, hf, (fragNames_iff frags fuel f.sel sub hr n).mp hn⟩
            · exact Or.inr ⟨m', by simp [hm'], f', hf', hr'⟩

/-- what `_get_all_related_fragments()` returns, as a set -/
theorem related_iff (frags : List Fragment) (fuel : Nat) (mixins unpacked R : List String)
    (h : relatedFragments frags fuel mixins unpacked = .ok R) (n : String) :
    n ∈ R ↔ n ∈ mixins ∨ n ∈ unpacked ∨ ∃ m ∈ mixins, ∃ f, findFragment? frags m = some f ∧ Reach frags f.sel n := by
  simp only [relatedFragments] at h
  cases hf : foldE (relatedStep frags fuel) mixins mixins with
  | error e => rw [hf] at h; cases h
  | ok names =>
    rw [hf] at h
    simp only [Except.ok.injEq] at h
    subst h
    obtain ⟨k1, k2, k3⟩ := foldE_related frags fuel mixins mixins names hf
    rw [mem_setUnion]
    constructor
    · rintro (hn | hn)
      · rcases k3 n hn with hn | hn
        · exact Or.inl hn
        · exact Or.inr (Or.inr hn)
      · exact Or.inr (Or.inl hn)
    · rintro (hn | hn | ⟨m, hm, f, hf', hr⟩)
      · exact Or.inl (k1 n hn)
      · exact Or.inr hn
      · exact Or.inl (k2 m hm f hf' n hr)


/-! ### `sorted(set(...))` -/

theorem mem_insertSorted (x y : String) (l : List String) : y ∈ insertSorted x l ↔ y = x ∨ y ∈ l := by
  induction l with
  | nil => simp [insertSorted]
  | cons a l ih =>
    simp only [insertSorted]
    split
    · simp
    · simp only [List.mem_cons, ih]
      constructor
      · rintro (h | h | h)
        · exact Or.inr (Or.inl h)
        · exact Or.inl h
        · exact Or.inr (Or.inr h)
      · rintro (h | h | h)
        · exact Or.inr (Or.inl h)
        · exact Or.inl h
        · exact Or.inr (Or.inr h)

theorem mem_sortStr (y : String) (l : List String) : y ∈ sortStr l ↔ y ∈ l := by
  induction l with
  | nil => simp [sortStr]
  | cons a l ih =>
    have : sortStr (a :: l) = insertSorted a (sortStr l) := rfl
    rw [this, mem_insertSorted, ih]
    simp

theorem pairwise_insertSorted (x : String) (l : List String) (hl : l.Pairwise (· < ·)) (hx : x ∉ l) :
    (insertSorted x l).Pairwise (· < ·) := by
  induction l with
  | nil => simp [insertSorted]
  | cons a l ih =>
    have ha := List.pairwise_cons.mp hl
    simp only [insertSorted]
    split
    · rename_i hlt
      refine List.pairwise_cons.mpr ⟨?_, hl⟩
      intro b hb
      rcases List.mem_cons.mp hb with rfl | hb
      · exact hlt
      · exact lt_trans hlt (ha.1 b hb)
    · rename_i hnlt
      have hne : x ≠ a := fun h => hx (by simp [h])
      have hax : a < x := lt_of_le_of_ne (not_lt.mp hnlt) (Ne.symm hne)
      refine List.pairwise_cons.mpr ⟨?_, ih ha.2 (fun h => hx (by simp [h]))⟩
      intro b hb
      rcases (mem_insertSorted x b l).mp hb with rfl | hb
      · exact hax
      · exact ha.1 b hb

theorem pairwise_sortStr (l : List String) (h : l.Nodup) : (sortStr l).Pairwise (· < ·) := by
  induction l with
  | nil => simp [sortStr]
  | cons a l ih =>
    have hn := List.nodup_cons.mp h
    have : sortStr (a :: l) = insertSorted a (sortStr l) := rfl
    rw [this]
    exact pairwise_insertSorted a _ (ih hn.2) (fun hm => hn.1 ((mem_sortStr a l).mp hm))

theorem mem_dedup (y : String) (l : List String) : y ∈ dedup l ↔ y ∈ l := by
  induction l with
  | nil => simp [dedup]
  | cons a l ih =>
    simp only [dedup, List.mem_cons, List.mem_filter, ih]
    constructor
    · rintro (h | ⟨h, _⟩)
      · exact Or.inl h
      · exact Or.inr h
    · rintro (h | h)
      · exact Or.inl h
      · by_cases hya : y = a
        · exact Or.inl hya
        · exact Or.inr ⟨h, by simpa using hya⟩

theorem nodup_dedup (l : List String) : (dedup l).Nodup := by
  induction l with
  | nil => simp [dedup]
  | cons a l ih =>
    simp only [dedup]
    refine List.nodup_cons.mpr ⟨?_, ih.filter _⟩
    simp [List.mem_filter]

/-- `sorted(set(related))`: strictly increasing, hence every name once, and the same set -/
theorem sentNames_spec (related : List String) :
    (sentNames related).Pairwise (· < ·) ∧ ∀ n, n ∈ sentNames related ↔ n ∈ related := by
  refine ⟨pairwise_sortStr _ (nodup_dedup related), ?_⟩
  intro n
  unfold sentNames
  rw [mem_sortStr, mem_dedup]

/-! ### looking the definitions up -/

theorem findFragment_name {frags : List Fragment} {n : String} {f : Fragment} (h : findFragment? frags n = some f) : f.name = n := by
  unfold findFragment? at h
  have := List.find?_some h
  simpa using this

theorem lookupAll_spec (frags : List Fragment) (marks : List Nat) :
    ∀ (ns : List String) (fs : List Fragment), lookupAll frags marks ns = .ok fs →
      List.Forall₂ (fun n f' => ∃ f, findFragment? frags n = some f ∧ f' = sentFrag marks f) ns fs := by
  intro ns
  induction ns with
  | nil =>
    intro fs h
    simp only [lookupAll, Except.ok.injEq] at h
    subst h
    exact .nil
  | cons n ns ih =>
    intro fs h
    simp only [lookupAll] at h
    cases hf : findFragment? frags n with
    | none => rw [hf] at h; cases h
    | some f =>
      rw [hf] at h
      simp only at h
      cases hr : lookupAll frags marks ns with
      | error e => rw [hr] at h; cases h
      | ok fs' =>
        rw [hr] at h
        simp only [Except.ok.injEq] at h
        subst h
        exact .cons ⟨f, hf, rfl⟩ (ih fs' hr)

theorem forall2_names {frags : List Fragment} {marks : List Nat} {ns : List String} {fs : List Fragment}
    (h : List.Forall₂ (fun n f' => ∃ f, findFragment? frags n = some f ∧ f' = sentFrag marks f) ns fs) :
    fs.map (·.name) = ns := by
  induction h with
  | nil => rfl
  | cons hx _ ih =>
    obtain ⟨f, hf, rfl⟩ := hx
    simp only [List.map_cons, ih, sentFrag]
    rw [findFragment_name hf]

/-! ### the rewrites can be undone -/

theorem isTn_tnField : isTn tnField = true := by
  simp [isTn, tnField]

theorem undoSet_pre (marks : List Nat) (sid : Nat) (x : List Selection) :
    undoSet marks sid (pre marks sid ++ x) = undoSels marks x := by
  unfold pre
  by_cases h : marks.contains sid = true
  · simp only [h, if_true, List.singleton_append, undoSet, isTn_tnField, Bool.and_self]
  · have h' : marks.contains sid = false := by simpa using h
    simp only [h', Bool.false_eq_true, if_false, List.nil_append]
    cases x with
    | nil => simp [undoSet, undoSels]
    | cons t rest =>
      rw [undoSet, undoSels, h']
      simp

mutual
  theorem undo_add_sel (marks : List Nat) : ∀ s : Selection, undoSel marks (addTnSel marks s) = s
    | .field a n d sid sub => by
      rw [addTnSel, undoSel, undoSet_pre, undo_add_sels marks sub]
    | .spread n d => by rw [addTnSel, undoSel]
    | .inline on d sid sub => by
      rw [addTnSel, undoSel, undoSet_pre, undo_add_sels marks sub]
  theorem undo_add_sels (marks : List Nat) : ∀ ss : List Selection, undoSels marks (addTnSels marks ss) = ss
    | [] => by rw [addTnSels, undoSels]
    | s :: ss => by
      rw [addTnSels, undoSels, undo_add_sel marks s, undo_add_sels marks ss]
end

mutual
  theorem strip_eq_sel : ∀ s : Selection, mixinPlacedSel s = true → stripSel s = stripAllSel s
    | .field a n d sid sub => by
      intro h
      rw [mixinPlacedSel] at h
      rw [stripSel, stripAllSel, strip_eq_sels sub h]
    | .spread n d => by
      intro h
      rw [mixinPlacedSel] at h
      rw [stripSel, stripAllSel]
      congr 1
      symm
      rw [List.filter_eq_self]
      intro x hx
      have : d.any isMixin = false := by simpa using h
      rw [List.any_eq_false] at this
      simpa using this x hx
    | .inline on d sid sub => by
      intro h
      rw [mixinPlacedSel, Bool.and_eq_true] at h
      rw [stripSel, stripAllSel, strip_eq_sels sub h.2]
      congr 1
      symm
      rw [List.filter_eq_self]
      intro x hx
      have : d.any isMixin = false := by simpa using h.1
      rw [List.any_eq_false] at this
      simpa using this x hx
  theorem strip_eq_sels : ∀ ss : List Selection, mixinPlacedSels ss = true → stripSels ss = stripAllSels ss
    | [] => by intro _; rw [stripSels, stripAllSels]
    | s :: ss => by
      intro h
      rw [mixinPlacedSels, Bool.and_eq_true] at h
      rw [stripSels, stripAllSels, strip_eq_sel s h.1, strip_eq_sels ss h.2]
end

/-- undoing the automatic `__typename` on what is sent gives the authored selection set without `@mixin` -/
theorem undo_sentSet (marks : List Nat) (sid : Nat) (sel : List Selection) (h : mixinPlacedSels sel = true) :
    undoSet marks sid (sentSet marks sid sel) = stripAllSels sel := by
  unfold sentSet
  rw [undoSet_pre, undo_add_sels, strip_eq_sels sel h]

theorem filter_noMixin (dirs : List Directive) (h : dirs.any isMixin = false) : dirs.filter (!isMixin ·) = dirs := by
  rw [List.filter_eq_self]
  intro x hx
  rw [List.any_eq_false] at h
  simpa using h x hx


/-! ### fuel: more fuel never changes an answer -/

theorem foldE_congr_ok {α β ε : Type} (f g : β → α → Except ε β) (l : List α)
    (h : ∀ acc x r, x ∈ l → f acc x = .ok r → g acc x = .ok r) :
    ∀ (a r : β), foldE f a l = .ok r → foldE g a l = .ok r := by
  induction l with
  | nil => intro a r hr; simpa [foldE] using hr
  | cons x xs ih =>
    intro a r hr
    simp only [foldE] at hr ⊢
    cases hf : f a x with
    | error e => rw [hf] at hr; cases hr
    | ok a' =>
      rw [hf] at hr
      rw [h a x a' (by simp) hf]
      exact ih (fun acc y r' hy => h acc y r' (by simp [hy])) a' r hr

theorem namesStep_mono (frags : List Fragment) (rec1 rec2 : List Selection → Except GenErr (List String))
    (h : ∀ sels L, rec1 sels = .ok L → rec2 sels = .ok L) (acc : List String) (s : Selection) (r : List String)
    (hs : namesStep frags rec1 acc s = .ok r) : namesStep frags rec2 acc s = .ok r := by
  cases s with
  | spread name d =>
    simp only [namesStep] at hs ⊢
    cases hf : findFragment? frags name with
    | none => rw [hf] at hs; cases hs
    | some f =>
      rw [hf] at hs
      simp only at hs ⊢
      cases hr : rec1 f.sel with
      | error e => rw [hr] at hs; cases hs
      | ok sub =>
        rw [hr] at hs
        rw [h f.sel sub hr]
        exact hs
  | field a nm d sid sub =>
    simp only [namesStep] at hs ⊢
    by_cases he : sub.isEmpty = true
    · simpa [he] using hs
    · have he' : sub.isEmpty = false := by simpa using he
      simp only [he', Bool.false_eq_true, if_false] at hs ⊢
      cases hr : rec1 sub with
      | error e => rw [hr] at hs; cases hs
      | ok r' =>
        rw [hr] at hs
        rw [h sub r' hr]
        exact hs
  | inline on d sid sub =>
    simp only [namesStep] at hs ⊢
    cases hr : rec1 sub with
    | error e => rw [hr] at hs; cases hs
    | ok r' =>
      rw [hr] at hs
      rw [h sub r' hr]
      exact hs

/-- a successful `_get_fragments_names` does not depend on how much fuel was left -/
theorem fragNames_mono (frags : List Fragment) :
    ∀ (fuel : Nat) (sels : List Selection) (L : List String), fragNames frags fuel sels = .ok L → fragNames frags (fuel + 1) sels = .ok L := by
  intro fuel
  induction fuel with
  | zero => intro sels L h; simp [fragNames] at h
  | succ fuel ih =>
    intro sels L h
    simp only [fragNames] at h ⊢
    exact foldE_congr_ok _ _ sels (fun acc x r _ hx => namesStep_mono frags _ _ ih acc x r hx) [] L h

theorem fragNames_mono_le (frags : List Fragment) (fuel fuel' : Nat) (hle : fuel ≤ fuel') (sels : List Selection) (L : List String)
    (h : fragNames frags fuel sels = .ok L) : fragNames frags fuel' sels = .ok L := by
  induction hle with
  | refl => exact h
  | step _ ih => exact fragNames_mono frags _ sels L ih

end Ariadne.OpTextProofs
