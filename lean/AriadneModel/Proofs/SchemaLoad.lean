/-
  Lemmas about Model/SchemaLoad.lean (C19): the path order is a total order, `readAll` succeeds
  exactly on readable entries, `loadDir` returns a permutation of the tree's definitions and does
  not depend on the enumeration order of `glob`.
-/
import Mathlib.Data.String.Basic
import AriadneModel.Model.SchemaLoad

set_option linter.unusedSimpArgs false
set_option linter.unusedVariables false

namespace Ariadne.SchemaLoad

/-! ### `pathLe` is a total order on component lists -/

theorem pathLe_refl : ∀ a : List String, pathLe a a = true
  | [] => by simp [pathLe]
  | x :: xs => by simp [pathLe, lt_irrefl, pathLe_refl xs]

theorem pathLe_total : ∀ a b : List String, (pathLe a b || pathLe b a) = true
  | [], _ => by simp [pathLe]
  | _ :: _, [] => by simp [pathLe]
  | x :: xs, y :: ys => by
    rcases lt_trichotomy x y with h | h | h
    · simp [pathLe, h]
    · subst h; simp [pathLe, lt_irrefl]; simpa using pathLe_total xs ys
    · have h' : ¬ x < y := lt_asymm h
      have hne : x ≠ y := fun e => by subst e; exact lt_irrefl _ h
      simp [pathLe, h, h', hne]

theorem pathLe_antisymm : ∀ a b : List String, pathLe a b = true → pathLe b a = true → a = b
  | [], [], _, _ => rfl
  | [], _ :: _, _, h => by simp [pathLe] at h
  | _ :: _, [], h, _ => by simp [pathLe] at h
  | x :: xs, y :: ys, h₁, h₂ => by
    rcases lt_trichotomy x y with h | h | h
    · have h' : ¬ y < x := lt_asymm h
      have hne : y ≠ x := fun e => by subst e; exact lt_irrefl _ h
      simp [pathLe, h, h', hne] at h₂
    · subst h
      simp [pathLe, lt_irrefl] at h₁ h₂
      rw [pathLe_antisymm xs ys h₁ h₂]
    · have h' : ¬ x < y := lt_asymm h
      have hne : x ≠ y := fun e => by subst e; exact lt_irrefl _ h
      simp [pathLe, h, h', hne] at h₁

theorem pathLe_trans : ∀ a b c : List String, pathLe a b = true → pathLe b c = true → pathLe a c = true
  | [], _, _, _, _ => by simp [pathLe]
  | _ :: _, [], _, h, _ => by simp [pathLe] at h
  | _ :: _, _ :: _, [], _, h => by simp [pathLe] at h
  | x :: xs, y :: ys, z :: zs, h₁, h₂ => by
    by_cases hxy : x < y
    · by_cases hyz : y < z
      · simp [pathLe, lt_trans hxy hyz]
      · by_cases eyz : y = z
        · subst eyz; simp [pathLe, hxy]
        · simp [pathLe, hyz, eyz] at h₂
    · by_cases exy : x = y
      · subst exy
        simp [pathLe, lt_irrefl] at h₁
        by_cases hyz : x < z
        · simp [pathLe, hyz]
        · by_cases eyz : x = z
          · subst eyz
            simp [pathLe, lt_irrefl] at h₂
            simp [pathLe, lt_irrefl, pathLe_trans xs ys zs h₁ h₂]
          · simp [pathLe, hyz, eyz] at h₂
      · simp [pathLe, hxy, exy] at h₁

theorem entryLe_trans {δ : Type} (a b c : Entry δ) : entryLe a b = true → entryLe b c = true → entryLe a c = true :=
  pathLe_trans _ _ _

theorem entryLe_total {δ : Type} (a b : Entry δ) : (entryLe a b || entryLe b a) = true := pathLe_total _ _

/-! ### reading -/

/-- what `read_graphql_file` returns for a readable entry -/
def contentOf {δ : Type} (e : Entry δ) : List δ :=
  match e.item with
  | .file (some ds) => ds
  | _ => []

/-- the entry is a file whose text parses -/
def Readable {δ : Type} (e : Entry δ) : Prop := ∃ ds, e.item = .file (some ds)

theorem readEntry_ok_iff {δ : Type} (e : Entry δ) (ds : List δ) :
    readEntry e = .ok ds ↔ e.item = .file (some ds) := by
  unfold readEntry
  rcases h : e.item with _ | c
  · simp
  · cases c <;> simp

theorem readEntry_of_readable {δ : Type} (e : Entry δ) (h : Readable e) : readEntry e = .ok (contentOf e) := by
  obtain ⟨ds, hds⟩ := h
  simp [readEntry, contentOf, hds]

theorem readAll_ok {δ : Type} : ∀ (es : List (Entry δ)) (parts : List (List δ)),
    readAll es = .ok parts → parts = es.map contentOf ∧ ∀ e ∈ es, Readable e
  | [], parts, h => by simp [readAll] at h; simp [h]
  | e :: es, parts, h => by
    unfold readAll at h
    rcases he : readEntry e with x | ds
    · simp [he] at h
    · rcases hr : readAll es with x | r
      · simp [he, hr] at h
      · simp [he, hr] at h
        have ⟨ih₁, ih₂⟩ := readAll_ok es r hr
        have hitem := (readEntry_ok_iff e ds).mp he
        refine ⟨?_, ?_⟩
        · subst h; simp [contentOf, hitem, ih₁]
        · intro e' he'
          rcases List.mem_cons.mp he' with rfl | hmem
          · exact ⟨ds, hitem⟩
          · exact ih₂ e' hmem

theorem readAll_of_readable {δ : Type} : ∀ (es : List (Entry δ)), (∀ e ∈ es, Readable e) →
    readAll es = .ok (es.map contentOf)
  | [], _ => by simp [readAll]
  | e :: es, h => by
    have he := readEntry_of_readable e (h e (by simp))
    have hr := readAll_of_readable es (fun x hx => h x (by simp [hx]))
    simp [readAll, he, hr]

theorem graphqlDefs_eq {δ : Type} (kids : List (Tree δ)) :
    graphqlDefs kids = ((walk kids).map contentOf).flatten := rfl

/-! ### insertion sort -/

theorem insertBy_perm {α : Type} (le : α → α → Bool) (a : α) : ∀ l : List α, (insertBy le a l).Perm (a :: l)
  | [] => by simp [insertBy]
  | b :: bs => by
    unfold insertBy
    split
    · exact List.Perm.refl _
    · exact ((insertBy_perm le a bs).cons b).trans (List.Perm.swap a b bs)

theorem sortBy_perm {α : Type} (le : α → α → Bool) : ∀ l : List α, (sortBy le l).Perm l
  | [] => by simp [sortBy]
  | a :: as => by
    unfold sortBy
    exact (insertBy_perm le a _).trans ((sortBy_perm le as).cons a)

theorem insertBy_pairwise {α : Type} (le : α → α → Bool)
    (trans : ∀ a b c, le a b = true → le b c = true → le a c = true)
    (total : ∀ a b, (le a b || le b a) = true) (a : α) :
    ∀ l : List α, l.Pairwise (fun x y => le x y = true) → (insertBy le a l).Pairwise (fun x y => le x y = true)
  | [], _ => by simp [insertBy]
  | b :: bs, h => by
    unfold insertBy
    have hb := List.pairwise_cons.mp h
    split
    · rename_i hab
      refine List.pairwise_cons.mpr ⟨?_, h⟩
      intro y hy
      rcases List.mem_cons.mp hy with rfl | hy'
      · exact hab
      · exact trans a b y hab (hb.1 y hy')
    · rename_i hab
      have hba : le b a = true := by
        have := total a b
        cases h1 : le a b
        · simpa [h1] using this
        · exact absurd h1 hab
      refine List.pairwise_cons.mpr ⟨?_, insertBy_pairwise le trans total a bs hb.2⟩
      intro y hy
      rcases List.mem_cons.mp ((insertBy_perm le a bs).mem_iff.mp hy) with rfl | hy'
      · exact hba
      · exact hb.1 y hy'

theorem sortBy_pairwise {α : Type} (le : α → α → Bool)
    (trans : ∀ a b c, le a b = true → le b c = true → le a c = true)
    (total : ∀ a b, (le a b || le b a) = true) :
    ∀ l : List α, (sortBy le l).Pairwise (fun x y => le x y = true)
  | [] => by simp [sortBy]
  | a :: as => by
    unfold sortBy
    exact insertBy_pairwise le trans total a _ (sortBy_pairwise le trans total as)

/-- the sorted walk is a permutation of the walk -/
theorem sortedWalk_perm {δ : Type} (kids : List (Tree δ)) : (sortedWalk kids).Perm (walk kids) :=
  sortBy_perm _ _

/-- and it is sorted by path -/
theorem sortedWalk_sorted {δ : Type} (kids : List (Tree δ)) :
    (sortedWalk kids).Pairwise (fun a b => pathLe a.path b.path = true) :=
  sortBy_pairwise entryLe entryLe_trans entryLe_total _

/-- **the loaded definitions are a permutation of the tree's definitions** -/
theorem loadDir_perm {δ : Type} (kids : List (Tree δ)) (ds : List δ) (h : loadDir kids = .ok ds) :
    ds.Perm (graphqlDefs kids) := by
  unfold loadDir at h
  rcases hr : readAll (sortedWalk kids) with x | parts
  · simp [hr] at h
  · simp [hr] at h
    have ⟨hp, _⟩ := readAll_ok _ _ hr
    subst h; subst hp
    rw [graphqlDefs_eq]
    exact ((sortedWalk_perm kids).map contentOf).flatten

/-- loading succeeds exactly when every path with a graphql suffix is a parseable file -/
theorem loadDir_ok_iff {δ : Type} (kids : List (Tree δ)) :
    (∃ ds, loadDir kids = .ok ds) ↔ ∀ e ∈ walk kids, Readable e := by
  constructor
  · rintro ⟨ds, h⟩
    unfold loadDir at h
    rcases hr : readAll (sortedWalk kids) with x | parts
    · simp [hr] at h
    · have ⟨_, hall⟩ := readAll_ok _ _ hr
      intro e he
      exact hall e ((sortedWalk_perm kids).mem_iff.mpr he)
  · intro hall
    have hr := readAll_of_readable (sortedWalk kids)
      (fun e he => hall e ((sortedWalk_perm kids).mem_iff.mp he))
    exact ⟨((sortedWalk kids).map contentOf).flatten, by simp [loadDir, hr]⟩

/-! ### independence from the enumeration order of `glob` -/

theorem eq_of_nodup_map {α β : Type} (f : α → β) : ∀ (l : List α), (l.map f).Nodup →
    ∀ a ∈ l, ∀ b ∈ l, f a = f b → a = b
  | [], _, a, ha, _, _, _ => by simp at ha
  | x :: xs, hnd, a, ha, b, hb, hab => by
    simp only [List.map_cons, List.nodup_cons, List.mem_map, not_exists, not_and] at hnd
    rcases List.mem_cons.mp ha with rfl | ha' <;> rcases List.mem_cons.mp hb with rfl | hb'
    · rfl
    · exact absurd hab.symm (hnd.1 b hb')
    · exact absurd hab (hnd.1 a ha')
    · exact eq_of_nodup_map f xs hnd.2 a ha' b hb' hab

/-- Two enumerations of the same set of (distinct) paths sort to the same list. -/
theorem sort_unique {δ : Type} (l₁ l₂ : List (Entry δ)) (hp : l₁.Perm l₂) (hnd : (l₁.map (·.path)).Nodup) :
    sortBy entryLe l₁ = sortBy entryLe l₂ := by
  have s₁ := sortBy_pairwise (α := Entry δ) entryLe entryLe_trans entryLe_total l₁
  have s₂ := sortBy_pairwise (α := Entry δ) entryLe entryLe_trans entryLe_total l₂
  have hperm : (sortBy entryLe l₁).Perm (sortBy entryLe l₂) :=
    (sortBy_perm _ l₁).trans (hp.trans (sortBy_perm _ l₂).symm)
  refine List.Perm.eq_of_pairwise (le := fun a b => entryLe a b = true) ?_ s₁ s₂ hperm
  intro a b ha hb hab hba
  have hpath : a.path = b.path := pathLe_antisymm _ _ hab hba
  have ha' : a ∈ l₁ := (sortBy_perm _ l₁).mem_iff.mp ha
  have hb' : b ∈ l₁ := hp.mem_iff.mpr ((sortBy_perm _ l₂).mem_iff.mp hb)
  exact eq_of_nodup_map (·.path) l₁ hnd a ha' b hb' hpath

theorem loadDir_order_independent {δ : Type} (k₁ k₂ : List (Tree δ)) (hp : (walk k₁).Perm (walk k₂))
    (hnd : ((walk k₁).map (·.path)).Nodup) : loadDir k₁ = loadDir k₂ := by
  unfold loadDir sortedWalk
  rw [sort_unique _ _ hp hnd]

end Ariadne.SchemaLoad
