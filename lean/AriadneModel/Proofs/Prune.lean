/-
  Lemmas for C09: correctness of the fuelled DFS of `Model/Prune.lean` (for every graph given by a
  finite table, cycles included), the fuel bound, and membership characterisations of the filters.
  Core Lean only (no Mathlib needed here; the bridge to `Relation.ReflTransGen` is in Properties/C09.lean).
-/
import AriadneModel.Model.Prune

set_option linter.unusedSimpArgs false
set_option linter.unusedVariables false

namespace Ariadne.Prune

/-- Reflexive-transitive closure of the edge relation `b ∈ deps a` (own inductive; shown equal to
    Mathlib's `Relation.ReflTransGen` in Properties/C09.lean). -/
inductive Reach (deps : Name → List Name) : Name → Name → Prop where
  | refl (a : Name) : Reach deps a a
  | tail {a b c : Name} : Reach deps a b → c ∈ deps b → Reach deps a c

theorem Reach.head {deps : Name → List Name} {a b c : Name} (h : b ∈ deps a) (r : Reach deps b c) :
    Reach deps a c := by
  induction r with
  | refl => exact .tail (.refl a) h
  | tail _ hc ih => exact .tail ih hc

theorem Reach.trans {deps : Name → List Name} {a b c : Name} (r₁ : Reach deps a b) (r₂ : Reach deps b c) :
    Reach deps a c := by
  induction r₂ with
  | refl => exact r₁
  | tail _ hc ih => exact .tail ih hc

/-- A set (list) closed under successors that contains `r` contains everything reachable from `r`. -/
theorem Reach.mem_of_closed {deps : Name → List Name} {l : List Name} {r x : Name}
    (hcl : ∀ a ∈ l, ∀ b ∈ deps a, b ∈ l) (hr : r ∈ l) (h : Reach deps r x) : x ∈ l := by
  induction h with
  | refl => exact hr
  | tail _ hc ih => exact hcl _ ih _ hc

/-! ### The fuel measure: entries of `U` (the nodes that may have successors) not yet visited -/

/-- `u` is not yet visited -/
def nv (vis : List Name) (u : Name) : Bool := !decide (u ∈ vis)

def unvisited (U vis : List Name) : Nat := U.countP (nv vis)

theorem unvisited_mono (U : List Name) {vis vis' : List Name} (h : ∀ x ∈ vis, x ∈ vis') :
    unvisited U vis' ≤ unvisited U vis := by
  unfold unvisited
  apply List.countP_mono_left
  intro x _ hx
  simp only [nv, Bool.not_eq_true', decide_eq_false_iff_not] at hx ⊢
  exact fun hv => hx (h x hv)

theorem unvisited_lt (U : List Name) {vis : List Name} {node : Name} (hU : node ∈ U) (hv : node ∉ vis) :
    unvisited U (vis ++ [node]) < unvisited U vis := by
  induction U with
  | nil => simp at hU
  | cons u U ih =>
    have hle : unvisited U (vis ++ [node]) ≤ unvisited U vis :=
      unvisited_mono U (fun x hx => by simp [hx])
    unfold unvisited at hle ih ⊢
    rw [List.countP_cons, List.countP_cons]
    by_cases hu : u = node
    · subst hu
      have h1 : nv (vis ++ [u]) u = false := by simp [nv]
      have h2 : nv vis u = true := by simp [nv, hv]
      rw [h1, h2]; simp; omega
    · have hU' : node ∈ U := by
        rcases List.mem_cons.mp hU with h | h
        · exact absurd h.symm hu
        · exact h
      have h1 : nv (vis ++ [node]) u = nv vis u := by simp [nv, hu]
      have := ih hU'
      rw [h1]; omega

theorem unvisited_nil (U : List Name) : unvisited U [] = U.length := by
  simp [unvisited, nv]

/-! ### Specification of one `dfs` call and of the loop over the neighbours -/

structure DfsSpec (deps : Name → List Name) (node : Name) (vis vis' : List Name) : Prop where
  ext : ∃ new, vis' = vis ++ new ∧ (∀ x ∈ new, Reach deps node x) ∧ (∀ x ∈ new, ∀ y ∈ deps x, y ∈ vis')
  mem : node ∈ vis'

structure LoopSpec (deps : Name → List Name) (ns : List Name) (vis vis' : List Name) : Prop where
  ext : ∃ new, vis' = vis ++ new ∧ (∀ x ∈ new, ∃ n ∈ ns, Reach deps n x) ∧
      (∀ x ∈ new, ∀ y ∈ deps x, y ∈ vis')
  mem : ∀ n ∈ ns, n ∈ vis'

theorem loop_spec (deps : Name → List Name) (U : List Name) (fuel : Nat)
    (ih : ∀ node vis, unvisited U vis < fuel →
      ∃ vis', dfs deps fuel node vis = some vis' ∧ DfsSpec deps node vis vis') :
    ∀ (ns vis : List Name), unvisited U vis < fuel →
      ∃ vis', ns.foldlM (fun v n => dfs deps fuel n v) vis = some vis' ∧ LoopSpec deps ns vis vis' := by
  intro ns
  induction ns with
  | nil =>
    intro vis _
    exact ⟨vis, by simp, ⟨[], by simp, by simp, by simp⟩, by simp⟩
  | cons n ns ihns =>
    intro vis hm
    obtain ⟨vis1, h1, s1⟩ := ih n vis hm
    obtain ⟨new1, e1, r1, c1⟩ := s1.ext
    have hsub : ∀ x ∈ vis, x ∈ vis1 := by intro x hx; rw [e1]; simp [hx]
    have hm1 : unvisited U vis1 < fuel := Nat.lt_of_le_of_lt (unvisited_mono U hsub) hm
    obtain ⟨vis', h2, s2⟩ := ihns vis1 hm1
    obtain ⟨new2, e2, r2, c2⟩ := s2.ext
    have hsub2 : ∀ x ∈ vis1, x ∈ vis' := by intro x hx; rw [e2]; simp [hx]
    refine ⟨vis', ?_, ⟨new1 ++ new2, ?_, ?_, ?_⟩, ?_⟩
    · simp [List.foldlM_cons, h1, h2]
    · rw [e2, e1]; simp
    · intro x hx
      rcases List.mem_append.mp hx with hx | hx
      · exact ⟨n, by simp, r1 x hx⟩
      · obtain ⟨n', hn', hr⟩ := r2 x hx
        exact ⟨n', by simp [hn'], hr⟩
    · intro x hx y hy
      rcases List.mem_append.mp hx with hx | hx
      · exact hsub2 y (c1 x hx y hy)
      · exact c2 x hx y hy
    · intro n' hn'
      rcases List.mem_cons.mp hn' with h | h
      · subst h; exact hsub2 _ s1.mem
      · exact s2.mem n' h

/-- Main lemma: with more fuel than unvisited potential inner nodes, `dfs` succeeds and meets its
    specification.  Induction on the fuel; no assumption on the shape of the graph. -/
theorem dfs_spec (deps : Name → List Name) (U : List Name) (hU : ∀ n, n ∉ U → deps n = []) :
    ∀ (fuel : Nat) (node : Name) (vis : List Name), unvisited U vis < fuel →
      ∃ vis', dfs deps fuel node vis = some vis' ∧ DfsSpec deps node vis vis' := by
  intro fuel
  induction fuel with
  | zero => intro node vis h; exact absurd h (Nat.not_lt_zero _)
  | succ fuel ih =>
    intro node vis hm
    by_cases hv : node ∈ vis
    · exact ⟨vis, by simp [dfs, hv], ⟨[], by simp, by simp, by simp⟩, hv⟩
    · by_cases hn : node ∈ U
      · have hlt : unvisited U (vis ++ [node]) < fuel := by
          have := unvisited_lt U hn hv
          omega
        obtain ⟨vis', hf, sp⟩ := loop_spec deps U fuel ih (deps node) (vis ++ [node]) hlt
        obtain ⟨new, e, r, c⟩ := sp.ext
        refine ⟨vis', by simp [dfs, hv, hf], ⟨node :: new, ?_, ?_, ?_⟩, ?_⟩
        · rw [e]; simp
        · intro x hx
          rcases List.mem_cons.mp hx with h | h
          · subst h; exact .refl _
          · obtain ⟨n, hn', hr⟩ := r x h
            exact Reach.head hn' hr
        · intro x hx y hy
          rcases List.mem_cons.mp hx with h | h
          · subst h; exact sp.mem y hy
          · exact c x h y hy
        · rw [e]; simp
      · have hd : deps node = [] := hU node hn
        refine ⟨vis ++ [node], by simp [dfs, hv, hd], ⟨[node], rfl, ?_, ?_⟩, by simp⟩
        · intro x hx
          have : x = node := by simpa using hx
          subst this; exact .refl _
        · intro x hx y hy
          have : x = node := by simpa using hx
          subst this
          rw [hd] at hy; simp at hy

/-! ### Instantiation with the dependency table of the inputs generator -/

theorem depsOf_nil_of_not_mem (tbl : List InputDef) (n : Name) (h : n ∉ tbl.map (·.name)) :
    depsOf tbl n = [] := by
  unfold depsOf
  have : tbl.filter (fun d => d.name == n) = [] := by
    rw [List.filter_eq_nil_iff]
    intro d hd hbeq
    have : d.name = n := by simpa using hbeq
    exact h (by rw [← this]; exact List.mem_map.mpr ⟨d, hd, rfl⟩)
  simp [this]

/-- `_get_dependencies_of_type` never runs out of fuel and returns exactly the nodes reachable from
    its argument. -/
theorem getDependenciesOfType_spec (tbl : List InputDef) (r : Name) :
    ∃ l, getDependenciesOfType tbl r = some l ∧ ∀ x, x ∈ l ↔ Reach (depsOf tbl) r x := by
  have hm : unvisited (tbl.map (·.name)) [] < tbl.length + 1 := by
    rw [unvisited_nil]; simp
  obtain ⟨l, hl, sp⟩ := dfs_spec (depsOf tbl) (tbl.map (·.name)) (depsOf_nil_of_not_mem tbl)
    (tbl.length + 1) r [] hm
  obtain ⟨new, e, rch, cl⟩ := sp.ext
  have e' : l = new := by simpa using e
  subst e'
  refine ⟨l, hl, fun x => ⟨rch x, fun h => Reach.mem_of_closed cl sp.mem h⟩⟩

theorem typesNames_aux (tbl : List InputDef) :
    ∀ (roots acc : List Name),
      ∃ l, roots.foldlM (fun acc r => (getDependenciesOfType tbl r).map (acc ++ ·)) acc = some l ∧
        ∀ x, x ∈ l ↔ (x ∈ acc ∨ ∃ r ∈ roots, Reach (depsOf tbl) r x) := by
  intro roots
  induction roots with
  | nil => intro acc; exact ⟨acc, by simp, by simp⟩
  | cons r roots ih =>
    intro acc
    obtain ⟨d, hd, hmem⟩ := getDependenciesOfType_spec tbl r
    obtain ⟨l, hl, hx⟩ := ih (acc ++ d)
    refine ⟨l, by simp [List.foldlM_cons, hd, hl], ?_⟩
    intro x
    rw [hx x]
    constructor
    · rintro (h | ⟨r', hr', hreach⟩)
      · rcases List.mem_append.mp h with h | h
        · exact .inl h
        · exact .inr ⟨r, by simp, (hmem x).mp h⟩
      · exact .inr ⟨r', by simp [hr'], hreach⟩
    · rintro (h | ⟨r', hr', hreach⟩)
      · exact .inl (by simp [h])
      · rcases List.mem_cons.mp hr' with h | h
        · subst h; exact .inl (by simp [(hmem x).mpr hreach])
        · exact .inr ⟨r', h, hreach⟩

/-- `types_names` of `_filter_class_defs`: total, and as a set the union of the closures of the roots. -/
theorem typesNames_spec (tbl : List InputDef) (roots : List Name) :
    ∃ l, typesNames tbl roots = some l ∧ ∀ x, x ∈ l ↔ ∃ r ∈ roots, Reach (depsOf tbl) r x := by
  obtain ⟨l, hl, hx⟩ := typesNames_aux tbl roots []
  exact ⟨l, hl, fun x => by simpa using hx x⟩

theorem mem_usedEnumsOf (tbl : List InputDef) (n e : Name) :
    e ∈ usedEnumsOf tbl n ↔ ∃ d ∈ tbl, d.name = n ∧ e ∈ enumRefs d := by
  simp [usedEnumsOf, List.mem_flatMap, List.mem_filter, and_assoc]

theorem mem_depsOf (tbl : List InputDef) (n m : Name) :
    m ∈ depsOf tbl n ↔ ∃ d ∈ tbl, d.name = n ∧ m ∈ inputRefs d := by
  simp [depsOf, List.mem_flatMap, List.mem_filter, and_assoc]

/-- enums referenced by a list of class definitions, via their names (what `get_used_enums` returns) -/
theorem mem_inputsUsedEnums (tbl : List InputDef) (cds : List InputDef) (e : Name) :
    e ∈ inputsUsedEnums tbl (cds.map (·.name)) ↔
      ∃ c ∈ cds, ∃ d ∈ tbl, d.name = c.name ∧ e ∈ enumRefs d := by
  simp only [inputsUsedEnums, List.mem_flatMap, List.mem_map, mem_usedEnumsOf]
  constructor
  · rintro ⟨n, ⟨c, hc, rfl⟩, d, hd, hn, he⟩
    exact ⟨c, hc, d, hd, hn, he⟩
  · rintro ⟨c, hc, d, hd, hn, he⟩
    exact ⟨c.name, ⟨c, hc, rfl⟩, d, hd, hn, he⟩

/-! ### Closed form of `generate` -/

theorem foldl_addOperation (ops : List Op) (st : St) :
    ops.foldl addOperation st =
      { st with usedEnums := st.usedEnums ++ ops.flatMap (·.resultEnums),
                argInputs := st.argInputs ++ ops.flatMap (·.varInputs),
                argEnums := st.argEnums ++ ops.flatMap (·.varEnums) } := by
  induction ops generalizing st with
  | nil => simp
  | cons o ops ih => simp [List.foldl_cons, ih, addOperation, List.append_assoc]

theorem initState_eq (x : Input) :
    initState x = { usedEnums := resultEnumsOf x, argInputs := varInputsOf x, argEnums := varEnumsOf x } := by
  simp [initState, foldl_addOperation, resultEnumsOf, varInputsOf, varEnumsOf]

theorem generate_eq (x : Input) :
    generate x =
      (filterInputDefs x.inputs (if x.allInputs then none else some (varInputsOf x))).map fun cds =>
        { inputsModule := cds,
          enumsModule := filterEnumDefs x.enums (if x.allEnums then none else some (usedEnumsFinal x cds)),
          inputsEnumImport := inputsUsedEnums x.inputs (names cds),
          clientInputs := varInputsOf x,
          clientEnums := varEnumsOf x } := by
  unfold generate generateWith generateOrder runSteps
  rw [initState_eq]
  simp only [List.foldlM_cons, List.foldlM_nil, step]
  cases hf : filterInputDefs x.inputs (if x.allInputs then none else some (varInputsOf x)) with
  | none => simp [hf]
  | some cds =>
    cases hfr : x.fragEnums with
    | none => simp [hf, hfr, finish, usedEnumsFinal, fragEnumsOf, names]
    | some es => simp [hf, hfr, finish, usedEnumsFinal, fragEnumsOf, List.append_assoc, names]

theorem mem_names_filter (l : List InputDef) (p : InputDef → Bool) (n : Name) :
    n ∈ names (l.filter p) ↔ ∃ c ∈ l, p c = true ∧ c.name = n := by
  simp [names, List.mem_map, List.mem_filter, and_assoc]

theorem mem_enames_filter (l : List EnumDef) (p : EnumDef → Bool) (n : Name) :
    n ∈ enames (l.filter p) ↔ ∃ c ∈ l, p c = true ∧ c.name = n := by
  simp [enames, List.mem_map, List.mem_filter, and_assoc]

end Ariadne.Prune
