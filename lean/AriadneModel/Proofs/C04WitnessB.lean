/-
  Proofs/C04WitnessB.lean — kernel-evaluated facts about concrete inputs (`decide +kernel` through the whole package model):
  finding witnesses of `C04_full_false` and non-vacuity examples of Properties/C04.lean, restated there.
-/
import AriadneModel.Proofs.C04Defs

namespace Ariadne.C04.Witness
open Ariadne Ariadne.Gql Ariadne.Util Ariadne.Package Ariadne.PackageTriggers Ariadne.PackageValid Ariadne.Spec.PyScope Ariadne.C04

theorem F15_fails_in_model : Valid {} W.missingRebuild ∧ ¬ Holds (modelRun {} W.missingRebuild) ∧ ¬ Supported_04 {} W.missingRebuild := by
  decide +kernel

theorem F12_fails_in_model : Valid {} W.fieldLookup ∧ ¬ Holds (modelRun {} W.fieldLookup) ∧ ¬ Supported_04 {} W.fieldLookup := by
  decide +kernel

theorem F14_fails_in_model : Valid {} W.enumList ∧ ¬ Holds (modelRun {} W.enumList) ∧ ¬ Supported_04 {} W.enumList := by
  decide +kernel

theorem F9_fails_in_model : Valid {} W.unpackedInherited ∧ ¬ Holds (modelRun {} W.unpackedInherited) ∧ ¬ Supported_04 {} W.unpackedInherited := by
  decide +kernel

end Ariadne.C04.Witness
