/-
  Helper lemmas for C17 (pipeline model): inversion of `prepare`, the shape of `generate`,
  what each phase's failure looks like, clean step lists.  Statements of the property itself are
  in Properties/C17.lean.
-/
import AriadneModel.Model.Pipeline
import AriadneModel.Proofs.Settings

set_option linter.unusedSimpArgs false
set_option linter.unusedVariables false

namespace Ariadne.C17
open Ariadne Ariadne.Settings Ariadne.Pipeline

theorem identCheck_some_iff (env : Env) (n : String) :
    (∃ e, identCheck env n = some e) ↔ validName env n = false := by
  unfold identCheck; cases validName env n <;> simp

theorem identCheck_eq (env : Env) (n : String) (e : ConfigError) (h : identCheck env n = some e) :
    e = .badIdentifier n := by
  unfold identCheck at h; split at h <;> simp_all

theorem parseScalars_missing_type (pre post : List (String × J)) (n : String) (d : List (String × J))
    (pres : List ScalarData) (hpre : parseScalars pre = .ok pres) (hd : J.lookup "type" d = none) :
    parseScalars (pre ++ (n, .obj d) :: post) = .error .scalarMissingType := by
  induction pre generalizing pres with
  | nil => simp [parseScalars, parseScalar, hd, bind, Except.bind]
  | cons kv pre ih =>
    obtain ⟨k, v⟩ := kv
    simp only [parseScalars, List.cons_append, bind, Except.bind] at hpre ⊢
    cases hk : parseScalar k v with
    | error e => simp [hk] at hpre
    | ok sd =>
      simp only [hk] at hpre ⊢
      cases hr : parseScalars pre with
      | error e => simp [hr] at hpre
      | ok r => simp [ih r hr]

theorem lookup_dictSet_ne (k k' : String) (v : J) (l : Dict) (h : k ≠ k') :
    J.lookup k (dictSet k' v l) = J.lookup k l := by
  induction l with
  | nil => simp [dictSet, J.lookup, h.symm]
  | cons kv rest ih =>
    obtain ⟨k2, v2⟩ := kv
    by_cases he : (k2 == k') = true
    · have : k2 = k' := by simpa using he
      subst this
      simp [dictSet, J.lookup, h.symm]
    · have hne : k2 ≠ k' := by simpa using he
      by_cases hk : k2 = k
      · subst hk
        simp [dictSet, J.lookup, h]
      · simp [dictSet, he, J.lookup, hk, ih, hne]

/-- **no_write_before_generate** (must), for ALL inputs: whatever makes `main.client` fail in the
    settings, schema loading, plugin lookup, validity assertion, query loading/validation,
    `add_operation` or the file-name uniqueness check leaves the effect log empty. -/
theorem generate_spec (r : ClientRun) (p : Prepared) :
    ((generate r p).log = [] ∧ ∃ m, (generate r p).result = .error (.generatePre, .codegen "ParsingError" m)) ∨
    (∃ e, (generate r p).result = .error (.generateWrite, e)) ∨ (∃ fs, (generate r p).result = .ok fs) := by
  by_cases hd : (!(duplicates (allFileNames r.env p.settings p.resultFiles)).isEmpty) = true
  · left; simp [generate, hd]
  · right
    simp only [generate, hd]
    generalize runSteps r.codeError _ _ = rs
    obtain ⟨oe, log⟩ := rs
    cases oe <;> simp

/-- inversion of `prepare`: which phase failed, and that every earlier phase had succeeded -/
theorem prepare_error_cases (r : ClientRun) (ph : Phase) (e : PyErr) (h : prepare r = .error (ph, e)) :
    (∃ ce, (getClientSettings r.env r.cfg).result = .error ce ∧ ph = .settings ∧ e = .config ce) ∨
    (∃ s, (getClientSettings r.env r.cfg).result = .ok s ∧
      ((loadSchema (s.schemaPath != "") r.schema = .error e ∧ ph = .loadSchema) ∨
       (∃ sch, loadSchema (s.schemaPath != "") r.schema = .ok sch ∧
         ((resolvePlugins r.plugins = .error e ∧ ph = .plugins) ∨
          (resolvePlugins r.plugins = .ok () ∧
            ((assertValid (processSchema r.plugins sch) = .error e ∧ ph = .assertValid) ∨
             (assertValid (processSchema r.plugins sch) = .ok () ∧
               (((s.queriesPath != "") = true ∧ loadQueries r.queries = .error e ∧ ph = .loadQueries) ∨
                (ph = .addOperation ∧ ((s.queriesPath != "") = true → loadQueries r.queries = .ok ())))))))))) := by
  unfold prepare at h
  simp only [bind, Except.bind, pure, Except.pure, throw, throwThe, MonadExceptOf.throw] at h
  cases h1 : (getClientSettings r.env r.cfg).result with
  | error ce =>
    simp only [h1] at h
    injection h with h; injection h with ha hb
    exact Or.inl ⟨ce, rfl, ha.symm, hb.symm⟩
  | ok s =>
    simp only [h1] at h
    refine Or.inr ⟨s, rfl, ?_⟩
    cases h2 : loadSchema (s.schemaPath != "") r.schema with
    | error e2 =>
      simp only [h2] at h
      injection h with h; injection h with ha hb
      exact Or.inl ⟨by rw [hb], ha.symm⟩
    | ok sch =>
      simp only [h2] at h
      refine Or.inr ⟨sch, rfl, ?_⟩
      cases h3 : resolvePlugins r.plugins with
      | error e3 =>
        simp only [h3] at h
        injection h with h; injection h with ha hb
        exact Or.inl ⟨by rw [hb], ha.symm⟩
      | ok u =>
        simp only [h3] at h
        refine Or.inr ⟨rfl, ?_⟩
        cases h4 : assertValid (processSchema r.plugins sch) with
        | error e4 =>
          simp only [h4] at h
          injection h with h; injection h with ha hb
          exact Or.inl ⟨by rw [hb], ha.symm⟩
        | ok u2 =>
          simp only [h4] at h
          refine Or.inr ⟨rfl, ?_⟩
          by_cases hq : (s.queriesPath != "") = true
          · simp only [hq, if_true] at h
            cases h5 : loadQueries r.queries with
            | error e5 =>
              simp only [h5] at h
              injection h with h; injection h with ha hb
              exact Or.inl ⟨hq, by rw [hb], ha.symm⟩
            | ok u3 =>
              simp only [h5] at h
              cases h6 : addOperations s.asyncClient r.queries.ops [] with
              | error e6 =>
                simp only [h6] at h
                injection h with h; injection h with ha hb
                exact Or.inr ⟨ha.symm, fun _ => rfl⟩
              | ok fs => simp [h6] at h
          · simp only [hq] at h
            cases h6 : addOperations s.asyncClient [] [] with
            | error e6 =>
              simp only [h6] at h
              injection h with h; injection h with ha hb
              exact Or.inr ⟨ha.symm, fun hq' => absurd hq' hq⟩
            | ok fs => simp [h6] at h

/-- inversion of a successful `prepare`: every phase before `generate` succeeded -/
theorem prepare_ok_cases (r : ClientRun) (p : Prepared) (h : prepare r = .ok p) :
    ∃ s sch, (getClientSettings r.env r.cfg).result = .ok s ∧ loadSchema (s.schemaPath != "") r.schema = .ok sch ∧
      resolvePlugins r.plugins = .ok () ∧ assertValid (processSchema r.plugins sch) = .ok () ∧
      ((s.queriesPath != "") = true → loadQueries r.queries = .ok ()) ∧ p.settings = s := by
  unfold prepare at h
  simp only [bind, Except.bind, pure, Except.pure, throw, throwThe, MonadExceptOf.throw] at h
  cases h1 : (getClientSettings r.env r.cfg).result with
  | error ce => simp [h1] at h
  | ok s =>
    simp only [h1] at h
    cases h2 : loadSchema (s.schemaPath != "") r.schema with
    | error e2 => simp [h2] at h
    | ok sch =>
      simp only [h2] at h
      cases h3 : resolvePlugins r.plugins with
      | error e3 => simp [h3] at h
      | ok u =>
        simp only [h3] at h
        cases h4 : assertValid (processSchema r.plugins sch) with
        | error e4 => simp [h4] at h
        | ok u2 =>
          simp only [h4] at h
          refine ⟨s, sch, rfl, h2, rfl, h4, ?_⟩
          by_cases hq : (s.queriesPath != "") = true
          · simp only [hq, if_true] at h
            cases h5 : loadQueries r.queries with
            | error e5 => simp [h5] at h
            | ok u3 =>
              simp only [h5] at h
              cases h6 : addOperations s.asyncClient r.queries.ops [] with
              | error e6 => simp [h6] at h
              | ok fs =>
                simp only [h6] at h
                injection h with h
                exact ⟨fun _ => rfl, by rw [← h]⟩
          · simp only [hq] at h
            cases h6 : addOperations s.asyncClient [] [] with
            | error e6 => simp [h6] at h
            | ok fs =>
              simp only [h6] at h
              injection h with h
              exact ⟨fun hq' => absurd hq' hq, by rw [← h]⟩

theorem codeAssumeValid_true : codeAssumeValid = true := rfl

theorem loadSchema_ok (fromPath : Bool) (o : SchemaOracle) (sch : SchemaState) (h : loadSchema fromPath o = .ok sch) :
    sch.cache = some 0 ∧ sch.hasQuery = o.hasQuery ∧ sch.hasMutation = o.hasMutation ∧ o.buildError = none := by
  unfold loadSchema at h
  simp only [bind, Except.bind, pure, Except.pure, throw, throwThe, MonadExceptOf.throw, codeAssumeValid, if_true] at h
  have key : ∀ (x : Except PyErr SchemaState),
      x = (match o.buildError with
        | some _ => Except.error (PyErr.raw "TypeError")
        | none => Except.ok { cache := some 0, trueErrors := o.trueErrors, hasQuery := o.hasQuery, hasMutation := o.hasMutation }) →
      x = .ok sch → sch.cache = some 0 ∧ sch.hasQuery = o.hasQuery ∧ sch.hasMutation = o.hasMutation ∧ o.buildError = none := by
    intro x hx hs
    cases hb : o.buildError with
    | some m => simp [hb] at hx; rw [hx] at hs; cases hs
    | none => simp [hb] at hx; rw [hx] at hs; injection hs with hs; subst hs; simp
  cases fromPath with
  | true =>
    simp only [if_true] at h
    cases hl : loadSource o.src with
    | error e => simp [hl] at h
    | ok u => simp only [hl] at h; exact key _ rfl h
  | false =>
    simp only [Bool.false_eq_true, if_false] at h
    cases hr : o.remote with
    | ok => simp only [hr] at h; exact key _ rfl h
    | introspectionError m => simp [hr] at h
    | raw c => simp [hr] at h

def isOk {ε α : Type} : Except ε α → Bool
  | .ok _ => true
  | .error _ => false

theorem isOk_iff {ε α : Type} (x : Except ε α) : isOk x = true ↔ ∃ a, x = .ok a := by
  cases x <;> simp [isOk]

theorem runSteps_clean (codeError : GenStep → Option PyErr) (hc : ∀ st, codeError st = none)
    (steps : List (GenStep × String × Option PyErr)) (hs : ∀ st ∈ steps, st.2.2 = none) (log : List Effect) :
    (runSteps codeError steps log).1 = none := by
  induction steps generalizing log with
  | nil => rfl
  | cons st rest ih =>
    obtain ⟨g, f, i⟩ := st
    have hi : i = none := hs (g, f, i) (by simp)
    subst hi
    simp only [runSteps, hc]
    exact ih (fun st hst => hs st (by simp [hst])) _

theorem plannedSteps_clean (env : Env) (s : ClientSettings) (sch : SchemaState) (files : List String) (frags : List FragInfo)
    (hf : fragmentsStep frags = none ∨ fragmentsStep frags = some none) :
    ∀ st ∈ plannedSteps env s sch files frags, st.2.2 = none := by
  have hall : (plannedSteps env s sch files frags).all (fun st => st.2.2.isNone) = true := by
    unfold plannedSteps
    rcases hf with hf | hf <;> simp only [hf] <;>
      cases s.enableCustomOperations <;> cases sch.hasQuery <;> cases sch.hasMutation <;>
      simp [List.all_append, List.all_map, Function.comp_def]
  intro st hst
  have := List.all_eq_true.mp hall st hst
  cases h : st.2.2 with
  | none => rfl
  | some e => simp [h] at this

theorem fragmentsStep_of_no_trigger (q : QueriesOracle) (h : trigFragmentGenError q = false) :
    fragmentsStep q.frags = none ∨ fragmentsStep q.frags = some none := by
  unfold trigFragmentGenError at h
  cases hf : fragmentsStep q.frags with
  | none => exact Or.inl rfl
  | some x =>
    cases x with
    | none => exact Or.inr rfl
    | some e => simp [hf] at h

theorem loadSource_ok_iff (s : Source) :
    loadSource s = .ok () ↔ s.files ≠ [] ∧ ∀ f ∈ s.files, f.2 = true := by
  unfold loadSource
  cases hf : s.files.find? (fun f => !f.2) with
  | some f =>
    have hm := List.mem_of_find?_eq_some hf
    have hb := List.find?_some hf
    simp only [Bool.not_eq_true'] at hb
    constructor
    · intro h; cases h
    · rintro ⟨_, hall⟩; have := hall f hm; simp [hb] at this
  | none =>
    have hall : ∀ f ∈ s.files, f.2 = true := by
      intro f hfm
      have := List.find?_eq_none.mp hf f hfm
      simpa using this
    cases hl : s.files with
    | nil => simp
    | cons a l => simp [hl] at hall ⊢; exact hall

theorem loadSource_error_typed (s : Source) (e : PyErr) (h : loadSource s = .error e) (hne : s.files ≠ []) :
    e.typed = true := by
  unfold loadSource at h
  cases hf : s.files.find? (fun f => !f.2) with
  | some f => simp [hf] at h; subst h; rfl
  | none =>
    simp only [hf] at h
    cases hl : s.files with
    | nil => exact absurd hl hne
    | cons a l => simp [hl] at h

theorem loadSchema_true_source (o : SchemaOracle) (sch : SchemaState) (h : loadSchema true o = .ok sch) :
    loadSource o.src = .ok () := by
  unfold loadSchema at h
  simp only [bind, Except.bind, if_true] at h
  cases hl : loadSource o.src with
  | error e => simp [hl] at h
  | ok u => rfl

theorem loadSchema_error_typed (fromPath : Bool) (o : SchemaOracle) (e : PyErr) (h : loadSchema fromPath o = .error e)
    (hfiles : fromPath = true → o.src.files ≠ []) (hremote : ∀ c, o.remote ≠ .raw c) (hbuild : o.buildError = none) :
    e.typed = true := by
  unfold loadSchema at h
  simp only [bind, Except.bind, pure, Except.pure, throw, throwThe, MonadExceptOf.throw, hbuild] at h
  cases fromPath with
  | true =>
    simp only [if_true] at h
    cases hl : loadSource o.src with
    | error e' =>
      simp only [hl] at h
      injection h with h
      subst h
      exact loadSource_error_typed _ _ hl (hfiles rfl)
    | ok u => simp [hl] at h
  | false =>
    simp only [Bool.false_eq_true, if_false] at h
    cases hr : o.remote with
    | ok => simp [hr] at h
    | introspectionError m => simp [hr] at h; subst h; rfl
    | raw c => exact absurd hr (hremote c)

theorem resolvePlugins_error_typed (p : PluginsOracle) (e : PyErr) (h : resolvePlugins p = .error e) : e.typed = true := by
  unfold resolvePlugins at h
  split at h
  · injection h with h; subst h; rfl
  · cases h

theorem loadQueries_ok (q : QueriesOracle) (h : loadQueries q = .ok ()) :
    loadSource q.src = .ok () ∧ q.validationErrors = [] := by
  unfold loadQueries at h
  simp only [bind, Except.bind, pure, Except.pure, throw, throwThe, MonadExceptOf.throw] at h
  cases hl : loadSource q.src with
  | error e => simp [hl] at h
  | ok u =>
    simp only [hl] at h
    cases hv : q.validationErrors with
    | nil => exact ⟨rfl, rfl⟩
    | cons a l => simp [hv] at h

theorem loadQueries_error_typed (q : QueriesOracle) (e : PyErr) (h : loadQueries q = .error e) (hne : q.src.files ≠ []) :
    e.typed = true := by
  unfold loadQueries at h
  simp only [bind, Except.bind, pure, Except.pure, throw, throwThe, MonadExceptOf.throw] at h
  cases hl : loadSource q.src with
  | error e' =>
    simp only [hl] at h
    injection h with h
    subst h
    exact loadSource_error_typed _ _ hl hne
  | ok u =>
    simp only [hl] at h
    split at h
    · cases h
    · injection h with h; subst h; rfl

end Ariadne.C17
