/-
  Helper lemmas for C17 (pipeline model): inversion of `prepare`, the shape of `generate`,
  what each phase's failure looks like, clean step lists.  Statements of the property itself are
  in Properties/C17.lean.
-/
import AriadneModel.Model.Pipeline
import AriadneModel.Proofs.Settings
import AriadneModel.Proofs.SourceLoad

set_option linter.unusedSimpArgs false
set_option linter.unusedVariables false

namespace Ariadne.C17
open Ariadne Ariadne.Settings Ariadne.SourceLoad Ariadne.Pipeline

theorem identCheck_some_iff (env : Env) (n : String) :
    (∃ e, identCheck env n = some e) ↔ validName env n = false := by
  unfold identCheck; cases validName env n <;> simp

theorem identCheck_eq (env : Env) (n : String) (e : ConfigError) (h : identCheck env n = some e) :
    e = .badIdentifier n := by
  unfold identCheck at h; split at h <;> simp_all

theorem parseScalars_missing_type (pre post : List (String × TV)) (n : String) (d : List (String × TV))
    (pres : List ScalarData) (hpre : parseScalars pre = .ok pres) (hd : TV.lookup "type" d = none) :
    parseScalars (pre ++ (n, .table d) :: post) = .error .scalarMissingType := by
  induction pre generalizing pres with
  | nil => simp [parseScalars, parseScalar, hd]
  | cons kv pre ih =>
    obtain ⟨k, v⟩ := kv
    simp only [parseScalars, List.cons_append] at hpre ⊢
    cases hk : parseScalar k v with
    | error e => simp [hk] at hpre
    | ok sd =>
      simp only [hk] at hpre ⊢
      cases hr : parseScalars pre with
      | error e => simp [hr] at hpre
      | ok r => simp [ih r hr]

/-- **no_write_before_generate** (must), for ALL inputs: whatever makes `main.client` fail in the
    settings, schema loading, plugin lookup, validity assertion, query loading/validation,
    `add_operation` or the file-name uniqueness check leaves the effect log empty. -/
theorem generate_spec (r : ClientRun) (p : Prepared) :
    ((generate r p).log = [] ∧ ∃ m, (generate r p).result = .error (.generatePre, .codegen "ParsingError" m)) ∨
    (∃ e, (generate r p).result = .error (.generateWrite, e)) ∨ (∃ fs, (generate r p).result = .ok fs) := by
  by_cases hd : (!(duplicates (allFileNames r.env p.settings p.resultFiles)).isEmpty) = true
  · left; simp [generate, hd]
  · right
    simp only [generate, hd]
    generalize runSteps r.codeError _ _ = rs
    obtain ⟨oe, log⟩ := rs
    cases oe <;> simp

/-- inversion of `prepare`: which phase failed, and that every earlier phase had succeeded -/
theorem prepare_error_cases (r : ClientRun) (ph : Phase) (e : PyErr) (h : prepare r = .error (ph, e)) :
    (∃ ce, (getClientSettings r.env r.cfg).result = .error ce ∧ ph = .settings ∧ e = .config ce) ∨
    (∃ s, (getClientSettings r.env r.cfg).result = .ok s ∧
      ((loadSchema s.schemaPath.truthy r.schema = .error e ∧ ph = .loadSchema) ∨
       (∃ sch, loadSchema s.schemaPath.truthy r.schema = .ok sch ∧
         ((resolvePlugins s.plugins r.plugins = .error e ∧ ph = .plugins) ∨
          (resolvePlugins s.plugins r.plugins = .ok () ∧
            ((assertValid (processSchema r.plugins sch) = .error e ∧ ph = .assertValid) ∨
             (assertValid (processSchema r.plugins sch) = .ok () ∧
               ((s.queriesPath.truthy = true ∧ loadQueries r.queries = .error e ∧ ph = .loadQueries) ∨
                (ph = .addOperation ∧ (s.queriesPath.truthy = true → loadQueries r.queries = .ok ())))))))))) := by
  unfold prepare at h
  simp only [bind, Except.bind, pure, Except.pure, throw, throwThe, MonadExceptOf.throw] at h
  cases h1 : (getClientSettings r.env r.cfg).result with
  | error ce =>
    simp only [h1] at h
    injection h with h; injection h with ha hb
    exact Or.inl ⟨ce, rfl, ha.symm, hb.symm⟩
  | ok s =>
    simp only [h1] at h
    refine Or.inr ⟨s, rfl, ?_⟩
    cases h2 : loadSchema s.schemaPath.truthy r.schema with
    | error e2 =>
      simp only [h2] at h
      injection h with h; injection h with ha hb
      exact Or.inl ⟨by rw [hb], ha.symm⟩
    | ok sch =>
      simp only [h2] at h
      refine Or.inr ⟨sch, rfl, ?_⟩
      cases h3 : resolvePlugins s.plugins r.plugins with
      | error e3 =>
        simp only [h3] at h
        injection h with h; injection h with ha hb
        exact Or.inl ⟨by rw [hb], ha.symm⟩
      | ok u =>
        simp only [h3] at h
        refine Or.inr ⟨rfl, ?_⟩
        cases h4 : assertValid (processSchema r.plugins sch) with
        | error e4 =>
          simp only [h4] at h
          injection h with h; injection h with ha hb
          exact Or.inl ⟨by rw [hb], ha.symm⟩
        | ok u2 =>
          simp only [h4] at h
          refine Or.inr ⟨rfl, ?_⟩
          by_cases hq : s.queriesPath.truthy = true
          · simp only [hq, if_true] at h
            cases h5 : loadQueries r.queries with
            | error e5 =>
              simp only [h5] at h
              injection h with h; injection h with ha hb
              exact Or.inl ⟨hq, by rw [hb], ha.symm⟩
            | ok u3 =>
              simp only [h5] at h
              cases h6 : addOperations s.asyncClient.truthy r.queries.ops [] with
              | error e6 =>
                simp only [h6] at h
                injection h with h; injection h with ha hb
                exact Or.inr ⟨ha.symm, fun _ => rfl⟩
              | ok fs => simp [h6] at h
          · simp only [hq] at h
            cases h6 : addOperations s.asyncClient.truthy [] [] with
            | error e6 =>
              simp only [h6] at h
              injection h with h; injection h with ha hb
              exact Or.inr ⟨ha.symm, fun hq' => absurd hq' hq⟩
            | ok fs => simp [h6] at h

/-- inversion of a successful `prepare`: every phase before `generate` succeeded -/
theorem prepare_ok_cases (r : ClientRun) (p : Prepared) (h : prepare r = .ok p) :
    ∃ s sch, (getClientSettings r.env r.cfg).result = .ok s ∧ loadSchema s.schemaPath.truthy r.schema = .ok sch ∧
      resolvePlugins s.plugins r.plugins = .ok () ∧ assertValid (processSchema r.plugins sch) = .ok () ∧
      (s.queriesPath.truthy = true → loadQueries r.queries = .ok ()) ∧ p.settings = s := by
  unfold prepare at h
  simp only [bind, Except.bind, pure, Except.pure, throw, throwThe, MonadExceptOf.throw] at h
  cases h1 : (getClientSettings r.env r.cfg).result with
  | error ce => simp [h1] at h
  | ok s =>
    simp only [h1] at h
    cases h2 : loadSchema s.schemaPath.truthy r.schema with
    | error e2 => simp [h2] at h
    | ok sch =>
      simp only [h2] at h
      cases h3 : resolvePlugins s.plugins r.plugins with
      | error e3 => simp [h3] at h
      | ok u =>
        simp only [h3] at h
        cases h4 : assertValid (processSchema r.plugins sch) with
        | error e4 => simp [h4] at h
        | ok u2 =>
          simp only [h4] at h
          refine ⟨s, sch, rfl, h2, h3, h4, ?_⟩
          by_cases hq : s.queriesPath.truthy = true
          · simp only [hq, if_true] at h
            cases h5 : loadQueries r.queries with
            | error e5 => simp [h5] at h
            | ok u3 =>
              simp only [h5] at h
              cases h6 : addOperations s.asyncClient.truthy r.queries.ops [] with
              | error e6 => simp [h6] at h
              | ok fs =>
                simp only [h6] at h
                injection h with h
                exact ⟨fun _ => rfl, by rw [← h]⟩
          · simp only [hq] at h
            cases h6 : addOperations s.asyncClient.truthy [] [] with
            | error e6 => simp [h6] at h
            | ok fs =>
              simp only [h6] at h
              injection h with h
              exact ⟨fun hq' => absurd hq' hq, by rw [← h]⟩

theorem codeAssumeValid_true : codeAssumeValid = true := rfl

theorem loadSchema_ok (fromPath : Bool) (o : SchemaOracle) (sch : SchemaState) (h : loadSchema fromPath o = .ok sch) :
    sch.cache = some 0 ∧ sch.hasQuery = o.hasQuery ∧ sch.hasMutation = o.hasMutation ∧ o.buildError = none := by
  unfold loadSchema at h
  simp only [bind, Except.bind, pure, Except.pure, throw, throwThe, MonadExceptOf.throw, codeAssumeValid, if_true] at h
  have key : ∀ (x : Except PyErr SchemaState),
      x = (match o.buildError with
        | some _ => Except.error (PyErr.raw "TypeError")
        | none => Except.ok { cache := some 0, trueErrors := o.trueErrors, hasQuery := o.hasQuery, hasMutation := o.hasMutation }) →
      x = .ok sch → sch.cache = some 0 ∧ sch.hasQuery = o.hasQuery ∧ sch.hasMutation = o.hasMutation ∧ o.buildError = none := by
    intro x hx hs
    cases hb : o.buildError with
    | some m => simp [hb] at hx; rw [hx] at hs; cases hs
    | none => simp [hb] at hx; rw [hx] at hs; injection hs with hs; subst hs; simp
  cases fromPath with
  | true =>
    simp only [if_true] at h
    cases hl : loadSource o.src with
    | error e => simp [hl] at h
    | ok u => simp only [hl] at h; exact key _ rfl h
  | false =>
    simp only [Bool.false_eq_true, if_false] at h
    cases hr : o.remote with
    | ok => simp only [hr] at h; exact key _ rfl h
    | introspectionError m => simp [hr] at h
    | raw c => simp [hr] at h

def isOk {ε α : Type} : Except ε α → Bool
  | .ok _ => true
  | .error _ => false

theorem isOk_iff {ε α : Type} (x : Except ε α) : isOk x = true ↔ ∃ a, x = .ok a := by
  cases x <;> simp [isOk]

theorem runSteps_clean (codeError : GenStep → Option PyErr) (hc : ∀ st, codeError st = none)
    (steps : List (GenStep × String × Option PyErr)) (hs : ∀ st ∈ steps, st.2.2 = none) (log : List Effect) :
    (runSteps codeError steps log).1 = none := by
  induction steps generalizing log with
  | nil => rfl
  | cons st rest ih =>
    obtain ⟨g, f, i⟩ := st
    have hi : i = none := hs (g, f, i) (by simp)
    subst hi
    simp only [runSteps, hc]
    exact ih (fun st hst => hs st (by simp [hst])) _

theorem plannedSteps_clean (env : Env) (s : ClientSettings) (sch : SchemaState) (files : List String) (frags : List FragInfo)
    (hf : fragmentsStep frags = none ∨ fragmentsStep frags = some none) :
    ∀ st ∈ plannedSteps env s sch files frags, st.2.2 = none := by
  have hall : (plannedSteps env s sch files frags).all (fun st => st.2.2.isNone) = true := by
    unfold plannedSteps
    rcases hf with hf | hf <;> simp only [hf] <;>
      cases s.enableCustomOperations.truthy <;> cases sch.hasQuery <;> cases sch.hasMutation <;>
      simp [List.all_append, List.all_map, Function.comp_def]
  intro st hst
  have := List.all_eq_true.mp hall st hst
  cases h : st.2.2 with
  | none => rfl
  | some e => simp [h] at this

theorem fragmentsStep_of_no_trigger (q : QueriesOracle) (h : trigFragmentGenError q = false) :
    fragmentsStep q.frags = none ∨ fragmentsStep q.frags = some none := by
  unfold trigFragmentGenError at h
  cases hf : fragmentsStep q.frags with
  | none => exact Or.inl rfl
  | some x =>
    cases x with
    | none => exact Or.inr rfl
    | some e => simp [hf] at h

theorem loadSource_ok_iff (s : Source) :
    loadSource s = .ok () ↔ ∃ t, loadText s.parses s.root = .ok t ∧ s.parses t = true := by
  unfold loadSource loadDocument
  cases hl : loadText s.parses s.root with
  | error e => simp
  | ok t => by_cases hp : s.parses t = true <;> simp [hp]

/-- when the source loads, every graphql file of it is readable text that parses on its own -/
theorem loadSource_ok_files (s : Source) (h : loadSource s = .ok ()) :
    ∀ p c, HasFile s.root p c → ∃ t, c = .text t ∧ s.parses t = true := by
  obtain ⟨t, ht, _⟩ := (loadSource_ok_iff s).mp h
  exact (loadText_ok_iff s.parses s.root).mp ⟨t, ht⟩

/-- what a failing load looks like: a named file that does not parse on its own; or an unreadable
    file; or the concatenation of files that each parse does not parse -/
theorem loadSource_error_cases (s : Source) (e : PyErr) (h : loadSource s = .error e) :
    (∃ f t, e = .codegen "InvalidGraphqlSyntax" ("Invalid graphql syntax in file " ++ f) ∧
        HasFile s.root f (.text t) ∧ s.parses t = false) ∨
    (∃ cls p, e = .raw cls ∧ HasFile s.root p (.unreadable cls)) ∨
    (e = .raw "GraphQLSyntaxError" ∧ ∃ t, loadText s.parses s.root = .ok t ∧ s.parses t = false) := by
  unfold loadSource loadDocument at h
  cases hl : loadText s.parses s.root with
  | ok t =>
    simp only [hl] at h
    by_cases hp : s.parses t = true
    · simp [hp] at h
    · simp only [hp] at h
      injection h with h
      subst h
      exact Or.inr (Or.inr ⟨rfl, t, rfl, by simpa using hp⟩)
  | error le =>
    simp only [hl] at h
    injection h with h
    subst h
    have hr := loadText_error_eq s.parses s.root le hl
    cases le with
    | invalidSyntax f =>
      obtain ⟨pre, t, post, hsplit, hbad, _⟩ := readAll_invalid_split s.parses _ f hr
      left
      refine ⟨f, t, rfl, ?_, hbad⟩
      apply (mem_filesRead_iff s.root f (.text t)).mp
      rw [hsplit]
      simp
    | raw cls =>
      obtain ⟨pc, hm, hu⟩ := readAll_raw s.parses _ cls hr
      right; left
      refine ⟨cls, pc.1, rfl, ?_⟩
      apply (mem_filesRead_iff s.root pc.1 (.unreadable cls)).mp
      rw [← hu]
      exact hm

theorem loadSource_error_typed (s : Source) (e : PyErr) (h : loadSource s = .error e)
    (hread : AllReadable s.root) (hjoin : ∀ t, loadText s.parses s.root = .ok t → s.parses t = true) :
    e.typed = true := by
  rcases loadSource_error_cases s e h with ⟨f, t, he, _, _⟩ | ⟨cls, p, he, hf⟩ | ⟨he, t, ht, hp⟩
  · subst he; rfl
  · obtain ⟨x, hx⟩ := hread p _ hf
    cases hx
  · rw [hjoin t ht] at hp
    cases hp

/-- **the per-file syntax check**: with every graphql file readable, the source is refused with
    `InvalidGraphqlSyntax` exactly when SOME file of the tree does not parse on its own — whether or
    not the concatenation of the files parses -/
theorem loadSource_refuses_iff (s : Source) (hread : AllReadable s.root) :
    (∃ m, loadSource s = .error (.codegen "InvalidGraphqlSyntax" m)) ↔
      ∃ p t, HasFile s.root p (.text t) ∧ s.parses t = false := by
  constructor
  · rintro ⟨m, hm⟩
    rcases loadSource_error_cases s _ hm with ⟨f, t, _, hf, hp⟩ | ⟨cls, p, he, _⟩ | ⟨he, _⟩
    · exact ⟨f, t, hf, hp⟩
    · cases he
    · cases he
  · rintro ⟨p, t, hf, hp⟩
    have hbad : ∃ pc ∈ filesRead s.root, ∃ x, pc.2 = .text x ∧ s.parses x = false :=
      ⟨(p, .text t), (mem_filesRead_iff s.root p _).mpr hf, t, rfl, hp⟩
    have hr : ∀ pc ∈ filesRead s.root, ∃ x, pc.2 = .text x := by
      intro pc hm
      exact hread pc.1 pc.2 ((mem_filesRead_iff s.root pc.1 pc.2).mp hm)
    obtain ⟨f, hf'⟩ := readAll_refuses s.parses _ hr hbad
    obtain ⟨f2, hf2⟩ := (loadText_eq s.parses s.root).mpr ⟨f, hf'⟩
    refine ⟨"Invalid graphql syntax in file " ++ f2, ?_⟩
    simp [loadSource, loadDocument, hf2, ofLoadErr]

theorem loadSchema_true_source (o : SchemaOracle) (sch : SchemaState) (h : loadSchema true o = .ok sch) :
    loadSource o.src = .ok () := by
  unfold loadSchema at h
  simp only [bind, Except.bind, if_true] at h
  cases hl : loadSource o.src with
  | error e => simp [hl] at h
  | ok u => rfl

theorem loadSchema_error_typed (fromPath : Bool) (o : SchemaOracle) (e : PyErr) (h : loadSchema fromPath o = .error e)
    (hread : fromPath = true → AllReadable o.src.root)
    (hjoin : fromPath = true → ∀ t, loadText o.src.parses o.src.root = .ok t → o.src.parses t = true)
    (hremote : ∀ c, o.remote ≠ .raw c) (hbuild : o.buildError = none) :
    e.typed = true := by
  unfold loadSchema at h
  simp only [bind, Except.bind, pure, Except.pure, throw, throwThe, MonadExceptOf.throw, hbuild] at h
  cases fromPath with
  | true =>
    simp only [if_true] at h
    cases hl : loadSource o.src with
    | error e' =>
      simp only [hl] at h
      injection h with h
      subst h
      exact loadSource_error_typed _ _ hl (hread rfl) (hjoin rfl)
    | ok u => simp [hl] at h
  | false =>
    simp only [Bool.false_eq_true, if_false] at h
    cases hr : o.remote with
    | ok => simp [hr] at h
    | introspectionError m => simp [hr] at h; subst h; rfl
    | raw c => exact absurd hr (hremote c)

/-- the import system answers without raising by itself -/
def LookupsTame (p : PluginsOracle) : Prop := ∀ s cls, p.lookup s ≠ .raises cls

theorem resolvePlugin_error_typed (look : String → PluginLookup) (s : String) (e : PyErr)
    (hl : ∀ cls, look s ≠ .raises cls) (h : resolvePlugin look s = .error e) : e.typed = true := by
  unfold resolvePlugin at h
  cases hk : look s with
  | raises cls => exact absurd hk (hl cls)
  | module => simp [hk] at h
  | classOk => simp only [hk] at h; split at h <;> first | (injection h with h; subst h; rfl) | cases h
  | noModule => simp only [hk] at h; split at h <;> first | (injection h with h; subst h; rfl) | cases h
  | noAttribute => simp only [hk] at h; split at h <;> first | (injection h with h; subst h; rfl) | cases h
  | notPlugin => simp only [hk] at h; split at h <;> first | (injection h with h; subst h; rfl) | cases h

theorem resolvePluginItems_error_typed (look : String → PluginLookup) (items : List TV) (e : PyErr)
    (hstr : ∀ x ∈ items, x.isStr = true) (hl : ∀ s cls, look s ≠ .raises cls)
    (h : resolvePluginItems look items = .error e) : e.typed = true := by
  induction items with
  | nil => simp [resolvePluginItems] at h
  | cons x rest ih =>
    cases x
    case str s =>
      simp only [resolvePluginItems] at h
      cases hr : resolvePlugin look s with
      | error e' =>
        simp only [hr] at h
        injection h with h
        subst h
        exact resolvePlugin_error_typed look s _ (hl s) hr
      | ok u =>
        simp only [hr] at h
        exact ih (fun x hx => hstr x (by simp [hx])) h
    all_goals
      have := hstr _ List.mem_cons_self
      simp [TV.isStr] at this

/-- a plugins option that is a list of strings, an import system that does not raise by itself:
    every failure of the plugin lookup is a `PluginImportError` -/
theorem resolvePlugins_error_typed (plugins : TV) (p : PluginsOracle) (e : PyErr)
    (hlist : ∃ items, plugins = .list items ∧ ∀ x ∈ items, x.isStr = true) (hl : LookupsTame p)
    (h : resolvePlugins plugins p = .error e) : e.typed = true := by
  obtain ⟨items, rfl, hstr⟩ := hlist
  simp only [resolvePlugins, TV.pyIter] at h
  exact resolvePluginItems_error_typed p.lookup items e hstr hl h

theorem loadQueries_ok (q : QueriesOracle) (h : loadQueries q = .ok ()) :
    loadSource q.src = .ok () ∧ q.validationErrors = [] := by
  unfold loadQueries at h
  simp only [bind, Except.bind, pure, Except.pure, throw, throwThe, MonadExceptOf.throw] at h
  cases hl : loadSource q.src with
  | error e => simp [hl] at h
  | ok u =>
    simp only [hl] at h
    cases hv : q.validationErrors with
    | nil => exact ⟨rfl, rfl⟩
    | cons a l => simp [hv] at h

theorem loadQueries_error_typed (q : QueriesOracle) (e : PyErr) (h : loadQueries q = .error e)
    (hread : AllReadable q.src.root) (hjoin : ∀ t, loadText q.src.parses q.src.root = .ok t → q.src.parses t = true) :
    e.typed = true := by
  unfold loadQueries at h
  simp only [bind, Except.bind, pure, Except.pure, throw, throwThe, MonadExceptOf.throw] at h
  cases hl : loadSource q.src with
  | error e' =>
    simp only [hl] at h
    injection h with h
    subst h
    exact loadSource_error_typed _ _ hl hread hjoin
  | ok u =>
    simp only [hl] at h
    split at h
    · cases h
    · injection h with h; subst h; rfl

/-- the texts read are exactly the contents of the files, so "every file parses" is what `loadText`
    succeeding means -/
theorem allFilesParse_of_loadText_ok (s : Source) (t : String) (h : loadText s.parses s.root = .ok t) :
    allFilesParse s = true := by
  have hall := (loadText_ok_iff s.parses s.root).mp ⟨t, h⟩
  unfold allFilesParse Source.files
  rw [List.all_eq_true]
  intro pc hm
  obtain ⟨x, hx, hp⟩ := hall pc.1 pc.2 ((mem_filesRead_iff s.root pc.1 pc.2).mp hm)
  rw [hx]
  exact hp

/-- outside the regions of C17-F6 (no graphql file) and C17-F9 (only the concatenation is broken) the
    second, unguarded `parse` cannot fail -/
theorem joined_ok_of_not_triggered (s : Source) (hne : s.files.isEmpty = false) (hj : joinedBroken s = false) :
    ∀ t, loadText s.parses s.root = .ok t → s.parses t = true := by
  intro t ht
  have hall := allFilesParse_of_loadText_ok s t ht
  unfold joinedBroken at hj
  simp only [hne, hall, ht, Bool.not_false, Bool.true_and] at hj
  cases hp : s.parses t with
  | true => rfl
  | false => simp [hp] at hj

end Ariadne.C17
