/-
  C06, the acceptance theorem: whatever graphql-core's input coercion accepts (in canonical form)
  the generated input class can be built from, keyed by GraphQL names or by Python names — by
  structural induction over the VALUE (nested lists and objects of any size and depth) and, inside
  each value shape, over the type wrappers.  Hypothesis `related`: what the generator establishes
  outside the finding triggers (Model/InputRel.lean).
-/
import AriadneModel.Model.InputRel
import AriadneModel.Proofs.InputField

set_option linter.unusedSimpArgs false
set_option linter.unusedVariables false

namespace Ariadne.C06Accept
open Ariadne
open Ariadne.InputGen (TypeRef)
open Ariadne.InputField (Ann Kind annOf namedAnn wrapNullable nullableItemUnderNonNull)
open Ariadne.CoerceInput Ariadne.PydInput Ariadne.InputRel

/-! ### annotations -/

theorem core_wrapNullable (nl : Bool) (a : Ann) : core (wrapNullable nl a) = core a := by
  cases nl <;> simp [wrapNullable, core]

theorem isOptional_wrapNullable (nl : Bool) (a : Ann) (h : isOptional a = false) :
    isOptional (wrapNullable nl a) = nl := by
  cases nl
  · simpa [wrapNullable] using h
  · simp [wrapNullable, isOptional]

theorem namedAnn_core (kinds : String → Kind) (n : String) (X : Ann) (ft : String)
    (h : namedAnn kinds n = some (X, ft)) : core X = X ∧ isOptional X = false := by
  unfold namedAnn at h
  cases hk : kinds n with
  | custom ty ser => cases ser <;> simp [hk] at h <;> (obtain ⟨rfl, _⟩ := h; simp [core, isOptional])
  | builtin py => simp [hk] at h; obtain ⟨rfl, _⟩ := h; simp [core, isOptional]
  | any => simp [hk] at h; obtain ⟨rfl, _⟩ := h; simp [core, isOptional]
  | input => simp [hk] at h; obtain ⟨rfl, _⟩ := h; simp [core, isOptional]
  | enum => simp [hk] at h; obtain ⟨rfl, _⟩ := h; simp [core, isOptional]
  | composite => simp [hk] at h
  | unknown => simp [hk] at h

/-- a type without list wrappers: the annotation is the named type's, possibly `Optional` -/
theorem annOf_depth0 (kinds : String → Kind) (t : TypeRef) :
    ∀ (nl : Bool) (a : Ann) (ft : String), listDepth t = 0 → annOf kinds t nl = some (a, ft) →
      ∃ X, namedAnn kinds t.base = some (X, ft) ∧ core a = X := by
  induction t with
  | named n =>
    intro nl a ft _ h
    rw [InputField.annOf_named] at h
    cases hn : namedAnn kinds n with
    | none => simp [hn] at h
    | some p =>
      obtain ⟨X, ft'⟩ := p
      simp [hn] at h
      obtain ⟨rfl, rfl⟩ := h
      refine ⟨X, by simp [InputGen.TypeRef.base, hn], ?_⟩
      rw [core_wrapNullable]
      exact (namedAnn_core kinds n X ft' hn).1
  | list t ih => intro nl a ft hd; simp [listDepth] at hd
  | nonNull t ih =>
    intro nl a ft hd h
    simp only [annOf] at h
    simp only [listDepth] at hd
    exact ih false a ft hd h

theorem annOf_list (kinds : String → Kind) (t : TypeRef) (nl : Bool) (a : Ann) (ft : String)
    (h : annOf kinds (.list t) nl = some (a, ft)) :
    ∃ a', annOf kinds t nl = some (a', ft) ∧ core a = .list a' ∧ isOptional a = nl := by
  simp only [annOf] at h
  cases h' : annOf kinds t nl with
  | none => simp [h'] at h
  | some p =>
    obtain ⟨a', ft'⟩ := p
    simp [h'] at h
    obtain ⟨rfl, rfl⟩ := h
    refine ⟨a', rfl, ?_, ?_⟩
    · rw [core_wrapNullable]; rfl
    · exact isOptional_wrapNullable nl _ rfl

/-- a type that is not NonNull at the top is annotated `Optional[...]` exactly when the flag is on -/
theorem annOf_optional (kinds : String → Kind) (t : TypeRef) (nl : Bool) (a : Ann) (ft : String)
    (hnn : t.isNonNull = false) (h : annOf kinds t nl = some (a, ft)) : isOptional a = nl := by
  cases t with
  | named n =>
    rw [InputField.annOf_named] at h
    cases hn : namedAnn kinds n with
    | none => simp [hn] at h
    | some p =>
      obtain ⟨X, ft'⟩ := p
      simp [hn] at h
      obtain ⟨rfl, rfl⟩ := h
      exact isOptional_wrapNullable nl X (namedAnn_core kinds n X ft' hn).2
  | list t => exact (annOf_list kinds t nl a ft h).choose_spec.2.2
  | nonNull t => simp [InputGen.TypeRef.isNonNull] at hnn

/-! ### lists of strings -/

theorem strDistinct_inj {α : Type} (f : α → String) : ∀ (l : List α), strDistinct (l.map f) = true →
    ∀ x ∈ l, ∀ y ∈ l, f x = f y → x = y := by
  intro l
  induction l with
  | nil => intro _ x hx; cases hx
  | cons z l ih =>
    intro h x hx y hy hxy
    simp only [List.map, strDistinct, Bool.and_eq_true, Bool.not_eq_true', List.contains_eq_mem,
      decide_eq_false_iff_not, List.mem_map, not_exists, not_and] at h
    obtain ⟨hz, hl⟩ := h
    rcases List.mem_cons.mp hx with rfl | hx' <;> rcases List.mem_cons.mp hy with rfl | hy'
    · rfl
    · exact absurd hxy.symm (hz y hy')
    · exact absurd hxy (hz x hx')
    · exact ih hl x hx' y hy' hxy

theorem find_of_distinct {α : Type} (f : α → String) : ∀ (l : List α), strDistinct (l.map f) = true →
    ∀ x ∈ l, l.find? (fun y => f y == f x) = some x := by
  intro l
  induction l with
  | nil => intro _ x hx; cases hx
  | cons z l ih =>
    intro h x hx
    have hinj := strDistinct_inj f (z :: l) h
    simp only [List.map, strDistinct, Bool.and_eq_true] at h
    by_cases hzx : f z = f x
    · have : z = x := hinj z (List.mem_cons_self ..) x hx hzx
      subst this
      simp [List.find?]
    · have hx' : x ∈ l := by
        rcases List.mem_cons.mp hx with rfl | hx'
        · exact absurd rfl hzx
        · exact hx'
      have hb : (f z == f x) = false := by simpa using hzx
      simp only [List.find?, hb]
      exact ih h.2 x hx'

/-! ### what `related` gives -/

section
variable {kinds : String → Kind} {S : CSchema} {env : Env}

theorem related_type (h : related kinds S env = true) (n : String) (ct : CType) (hf : S.find? n = some ct) :
    typeRel kinds env ct = true ∧ ct.name = n := by
  unfold CSchema.find? at hf
  have hm := List.mem_of_find?_eq_some hf
  have hp := List.find?_some hf
  simp only [related, Bool.and_eq_true, List.all_eq_true] at h
  exact ⟨h.1.1 ct hm, by simpa using hp⟩

theorem related_not_broken (h : related kinds S env = true) : env.broken = false := by
  simp only [related, Bool.and_eq_true] at h
  simpa using h.2

structure Builtins (kinds : String → Kind) (S : CSchema) (env : Env) : Prop where
  kInt : kinds "Int" = .builtin "int"
  kFloat : kinds "Float" = .builtin "float"
  kString : kinds "String" = .builtin "str"
  kBoolean : kinds "Boolean" = .builtin "bool"
  kID : kinds "ID" = .builtin "str"
  sInt : S.find? "Int" = none
  sFloat : S.find? "Float" = none
  sString : S.find? "String" = none
  sBoolean : S.find? "Boolean" = none
  sID : S.find? "ID" = none
  eInt : env.enum? "int" = none
  eFloat : env.enum? "float" = none
  eStr : env.enum? "str" = none
  eBool : env.enum? "bool" = none
  eAny : env.enum? "Any" = none

theorem related_builtins (h : related kinds S env = true) : Builtins kinds S env := by
  simp only [related, Bool.and_eq_true, builtinsOK, builtinNames, List.all_cons, List.all_nil, Bool.and_true,
    beq_iff_eq, Option.isNone_iff_eq_none] at h
  obtain ⟨⟨_, ⟨⟨a1, b1⟩, ⟨a2, b2⟩, ⟨a3, b3⟩, ⟨a4, b4⟩, ⟨a5, b5⟩⟩, c1, c2, c3, c4, c5⟩, _⟩ := h
  exact ⟨a1, a2, a3, a4, a5, b1, b2, b3, b4, b5, c1, c2, c3, c4, c5⟩

theorem coerceBuiltin_none (n : String) (v : J) (h : coerceBuiltin n v = none) :
    n ≠ "Int" ∧ n ≠ "Float" ∧ n ≠ "String" ∧ n ≠ "Boolean" ∧ n ≠ "ID" := by
  unfold coerceBuiltin at h
  by_cases h1 : n = "Int"
  · subst h1; simp at h
  by_cases h2 : n = "Float"
  · subst h2; simp at h
  by_cases h3 : n = "String"
  · subst h3; simp at h
  by_cases h4 : n = "Boolean"
  · subst h4; simp at h
  by_cases h5 : n = "ID"
  · subst h5; simp at h
  exact ⟨h1, h2, h3, h4, h5⟩

theorem coerceBuiltin_some (n : String) (v : J) (r : Except CErr J) (h : coerceBuiltin n v = some r) :
    n = "Int" ∨ n = "Float" ∨ n = "String" ∨ n = "Boolean" ∨ n = "ID" := by
  unfold coerceBuiltin at h
  by_cases h1 : n = "Int"
  · exact Or.inl h1
  by_cases h2 : n = "Float"
  · exact Or.inr (Or.inl h2)
  by_cases h3 : n = "String"
  · exact Or.inr (Or.inr (Or.inl h3))
  by_cases h4 : n = "Boolean"
  · exact Or.inr (Or.inr (Or.inr (Or.inl h4)))
  by_cases h5 : n = "ID"
  · exact Or.inr (Or.inr (Or.inr (Or.inr h5)))
  simp [h1, h2, h3, h4, h5] at h

end

/-! ### leaves -/

section
variable {kinds : String → Kind} {S : CSchema} {env : Env}

theorem validateName_builtin_int (B : Builtins kinds S env) (v : J) : validateName env "int" v = validateInt env.lax v := by
  simp [validateName, B.eInt]

theorem validateName_builtin_float (B : Builtins kinds S env) (v : J) : validateName env "float" v = validateFloat env.lax v := by
  simp [validateName, B.eFloat]

theorem validateName_builtin_str (B : Builtins kinds S env) (v : J) : validateName env "str" v = validateStr v := by
  simp [validateName, B.eStr]

theorem validateName_builtin_bool (B : Builtins kinds S env) (v : J) : validateName env "bool" v = validateBool env.lax v := by
  simp [validateName, B.eBool]

theorem validateName_any (B : Builtins kinds S env) (v : J) : validateName env "Any" v = .ok (ofJ v) := by
  simp [validateName, B.eAny]

/-- a value that is coerced as a LEAF of a named type (scalar or enum), in canonical form, is
    accepted by the annotation generated for that named type -/
theorem leaf_ok (hrel : related kinds S env = true) (n : String) (v c : J) (X : Ann) (ft : String)
    (hc : coerceLeaf S n v = .ok c) (hcan : leafCanon env kinds n v = true)
    (hX : namedAnn kinds n = some (X, ft)) : ∃ pv, validateLeaf env X v = .ok pv := by
  have B := related_builtins hrel
  unfold coerceLeaf at hc
  cases hb : coerceBuiltin n v with
  | some r =>
    simp only [hb] at hc
    subst hc
    rcases coerceBuiltin_some n v _ hb with rfl | rfl | rfl | rfl | rfl
    · simp [namedAnn, B.kInt] at hX
      obtain ⟨rfl, _⟩ := hX
      simp only [validateLeaf, validateName_builtin_int B]
      simp [coerceBuiltin] at hb
      cases v <;> simp at hb
      case num m e =>
        cases hi : integral? m e with
        | none => simp [hi] at hb
        | some i => exact ⟨.num i 0, by simp [validateInt, hi]⟩
    · simp [namedAnn, B.kFloat] at hX
      obtain ⟨rfl, _⟩ := hX
      simp only [validateLeaf, validateName_builtin_float B]
      simp [coerceBuiltin] at hb
      cases v <;> simp at hb
      case num m e => exact ⟨.num m e, by simp [validateFloat]⟩
    · simp [namedAnn, B.kString] at hX
      obtain ⟨rfl, _⟩ := hX
      simp only [validateLeaf, validateName_builtin_str B]
      simp [coerceBuiltin] at hb
      cases v <;> simp at hb
      case str s => exact ⟨.str s, by simp [validateStr]⟩
    · simp [namedAnn, B.kBoolean] at hX
      obtain ⟨rfl, _⟩ := hX
      simp only [validateLeaf, validateName_builtin_bool B]
      simp [coerceBuiltin] at hb
      cases v <;> simp at hb
      case bool b => exact ⟨.bool b, by simp [validateBool]⟩
    · simp [namedAnn, B.kID] at hX
      obtain ⟨rfl, _⟩ := hX
      simp only [validateLeaf, validateName_builtin_str B]
      simp [leafCanon, B.kID] at hcan
      cases v <;> simp [isStr] at hcan
      case str s => exact ⟨.str s, by simp [validateStr]⟩
  | none =>
    simp only [hb] at hc
    obtain ⟨n1, n2, n3, n4, n5⟩ := coerceBuiltin_none n v hb
    cases hf : S.find? n with
    | none => simp [hf] at hc
    | some ct =>
      obtain ⟨htr, hname⟩ := related_type hrel n ct hf
      cases ct with
      | input m fs => simp [hf] at hc
      | scalar m =>
        simp only [CType.name] at hname
        subst hname
        simp only [typeRel] at htr
        cases hk : kinds m with
        | builtin py =>
          simp [hk] at htr
          subst htr
          simp [namedAnn, hk] at hX
          obtain ⟨rfl, _⟩ := hX
          simp [leafCanon, hk, n5] at hcan
          simp only [validateLeaf]
          cases hv : validateName env "Upload" v with
          | ok pv => exact ⟨pv, rfl⟩
          | error e => simp [hv, isOk] at hcan
        | custom ty ser =>
          simp [leafCanon, hk] at hcan
          have hv : ∃ pv, validateName env ty v = .ok pv := by
            cases hv : validateName env ty v with
            | ok pv => exact ⟨pv, rfl⟩
            | error e => simp [hv, isOk] at hcan
          cases ser with
          | none =>
            simp [namedAnn, hk] at hX
            obtain ⟨rfl, _⟩ := hX
            simpa [validateLeaf] using hv
          | some sr =>
            simp [namedAnn, hk] at hX
            obtain ⟨rfl, _⟩ := hX
            simpa [validateLeaf] using hv
        | any =>
          simp [namedAnn, hk] at hX
          obtain ⟨rfl, _⟩ := hX
          exact ⟨ofJ v, by simp [validateLeaf, validateName_any B]⟩
        | enum => simp [hk] at htr
        | input => simp [hk] at htr
        | composite => simp [hk] at htr
        | unknown => simp [hk] at htr
      | enum m vals =>
        simp only [CType.name] at hname
        subst hname
        simp only [typeRel, Bool.and_eq_true, beq_iff_eq] at htr
        obtain ⟨hk, hms⟩ := htr
        simp [namedAnn, hk] at hX
        obtain ⟨rfl, _⟩ := hX
        simp only [hf] at hc
        cases v with
        | str x =>
          simp only [] at hc
          by_cases hin : vals.contains x = true
          · cases he : env.enum? m with
            | none => simp [he] at hms
            | some ms =>
              simp only [he, List.all_eq_true] at hms
              have hx := hms x (by simpa using hin)
              simp only [validateLeaf, validateName, he, validateEnum]
              cases hfind : ms.find? (fun m => m.2 == x) with
              | none =>
                rw [List.find?_eq_none] at hfind
                simp only [List.any_eq_true] at hx
                obtain ⟨y, hy, hyx⟩ := hx
                exact absurd hyx (hfind y hy)
              | some y => exact ⟨.enum m y.1 y.2, rfl⟩
          · have hin' : ¬ x ∈ vals := by simpa using hin
            simp [hin'] at hc
        | null => simp at hc
        | bool b => simp at hc
        | num a b => simp at hc
        | arr xs => simp at hc
        | obj kvs => simp at hc

end

/-! ### fields -/

section
variable {kinds : String → Kind}

theorem fieldRel_key {cf : CField} {sp : FieldSpec} (h : fieldRel kinds cf sp = true) : sp.key = cf.name := by
  simp only [fieldRel, Bool.and_eq_true, beq_iff_eq] at h
  exact h.1.1.1.1

/-- the model field generated for the schema field named `k` is the one found by validation alias -/
theorem find_related : ∀ (fs : List CField) (specs : List FieldSpec), all2 (fieldRel kinds) fs specs = true →
    ∀ (k : String) (cf : CField), fs.find? (fun f => f.name == k) = some cf →
      ∃ sp, findByKey specs k = some sp ∧ fieldRel kinds cf sp = true ∧ sp ∈ specs ∧ cf ∈ fs := by
  intro fs
  induction fs with
  | nil => intro specs _ k cf h; simp at h
  | cons f fs ih =>
    intro specs h2 k cf hfind
    cases specs with
    | nil => simp [all2] at h2
    | cons sp specs =>
      simp only [all2, Bool.and_eq_true] at h2
      obtain ⟨hr, hrest⟩ := h2
      have hkey := fieldRel_key hr
      by_cases hk : f.name = k
      · have : cf = f := by simpa [List.find?, hk] using hfind.symm
        subst this
        refine ⟨sp, ?_, hr, List.mem_cons_self .., List.mem_cons_self ..⟩
        simp [findByKey, List.find?, hkey, hk]
      · have hb : (f.name == k) = false := by simpa using hk
        simp only [List.find?, hb] at hfind
        obtain ⟨sp', h1, h2', h3, h4⟩ := ih specs hrest k cf hfind
        refine ⟨sp', ?_, h2', List.mem_cons_of_mem _ h3, List.mem_cons_of_mem _ h4⟩
        have hb' : (sp.key == k) = false := by simpa [hkey] using hk
        simpa [findByKey, List.find?, hb'] using h1

theorem lookupPV_isSome_of_mem : ∀ (vals : List (String × PV)) (k : String), k ∈ vals.map (·.1) →
    (lookupPV k vals).isSome = true := by
  intro vals
  induction vals with
  | nil => intro k h; simp at h
  | cons kv vals ih =>
    intro k h
    obtain ⟨k', v⟩ := kv
    by_cases hk : k' = k
    · simp [lookupPV, hk]
    · simp only [lookupPV, hk, if_false]
      apply ih
      simp only [List.map, List.mem_cons] at h
      rcases h with h | h
      · exact absurd h.symm hk
      · exact h

theorem lookup_some_mem : ∀ (cs : List (String × J)) (k : String) (c : J), J.lookup k cs = some c →
    k ∈ cs.map (·.1) := by
  intro cs
  induction cs with
  | nil => intro k c h; simp [J.lookup] at h
  | cons kv cs ih =>
    intro k c h
    obtain ⟨k', v⟩ := kv
    by_cases hk : k' = k
    · simp [hk]
    · simp only [J.lookup, hk, if_false] at h
      simp only [List.map, List.mem_cons]
      exact Or.inr (ih k c h)

theorem hasKey_mem (k : String) (all : List (String × J)) (h : J.hasKey k all = true) : ∃ kv ∈ all, kv.1 = k := by
  unfold J.hasKey at h
  cases hl : J.lookup k all with
  | none => simp [hl] at h
  | some c =>
    have := lookup_some_mem all k c hl
    simp only [List.mem_map] at this
    obtain ⟨kv, hm, he⟩ := this
    exact ⟨kv, hm, he⟩

/-- no default of a related class raises -/
theorem defaultFailure_none : ∀ (fs : List CField) (specs : List FieldSpec), all2 (fieldRel kinds) fs specs = true →
    ∀ (kvs : List (String × J)), defaultFailure specs kvs = none := by
  intro fs
  induction fs with
  | nil =>
    intro specs h2 kvs
    cases specs with
    | nil => rfl
    | cons sp specs => simp [all2] at h2
  | cons cf fs ih =>
    intro specs h2 kvs
    cases specs with
    | nil => simp [all2] at h2
    | cons sp specs =>
      simp only [all2, Bool.and_eq_true] at h2
      obtain ⟨hr, hrest⟩ := h2
      simp only [fieldRel, Bool.and_eq_true] at hr
      obtain ⟨_, hev⟩ := hr
      simp only [defaultFailure, ih specs hrest kvs]
      cases hd : sp.default with
      | none => simp
      | some r =>
        cases r with
        | ok d => simp
        | error e => simp [hd] at hev

/-- second pass: when coercion could complete the object, so can the model -/
theorem finish_ok : ∀ (fs : List CField) (specs : List FieldSpec) (cs out : List (String × J)) (vals : List (String × PV)),
    all2 (fieldRel kinds) fs specs = true → CoerceInput.finish fs cs = .ok out →
    (∀ cf ∈ fs, ∀ sp ∈ specs, sp.key = cf.name → (J.lookup cf.name cs).isSome = true → (lookupPV sp.py vals).isSome = true) →
    ∃ fields, PydInput.finish specs vals = .ok fields := by
  intro fs
  induction fs with
  | nil =>
    intro specs cs out vals h2 _ _
    cases specs with
    | nil => exact ⟨[], rfl⟩
    | cons sp specs => simp [all2] at h2
  | cons cf fs ih =>
    intro specs cs out vals h2 hfin hkeys
    cases specs with
    | nil => simp [all2] at h2
    | cons sp specs =>
      simp only [all2, Bool.and_eq_true] at h2
      obtain ⟨hr, hrest⟩ := h2
      simp only [CoerceInput.finish] at hfin
      cases hf : CoerceInput.finish fs cs with
      | error e => simp [hf] at hfin
      | ok rest =>
        simp only [hf] at hfin
        obtain ⟨fields, hfields⟩ := ih specs cs rest vals hrest hf
          (fun cf' hcf sp' hsp => hkeys cf' (List.mem_cons_of_mem _ hcf) sp' (List.mem_cons_of_mem _ hsp))
        simp only [PydInput.finish, hfields]
        cases hl : lookupPV sp.py vals with
        | some pv => exact ⟨_, rfl⟩
        | none =>
          have hnone : J.lookup cf.name cs = none := by
            cases hc : J.lookup cf.name cs with
            | none => rfl
            | some c =>
              have := hkeys cf (List.mem_cons_self ..) sp (List.mem_cons_self ..) (fieldRel_key hr) (by simp [hc])
              simp [hl] at this
          simp only [hnone] at hfin
          simp only [fieldRel, Bool.and_eq_true, beq_iff_eq] at hr
          obtain ⟨⟨⟨_, _⟩, hreq⟩, hev⟩ := hr
          cases hd : sp.default with
          | none =>
            -- required in the model: then non-null without default in the schema, and coercion failed
            simp only [hd, Option.isNone_none] at hreq
            have := hreq.symm
            simp only [Bool.and_eq_true, Option.isNone_iff_eq_none] at this
            simp [this.1, this.2] at hfin
          | some r =>
            cases r with
            | ok d => exact ⟨_, rfl⟩
            | error e => simp [hd] at hev

end

/-! ### one provided key -/

section
variable {kinds : String → Kind} {S : CSchema} {env : Env}

theorem fieldRel_ann {cf : CField} {sp : FieldSpec} (h : fieldRel kinds cf sp = true) :
    ∃ ft, annOf kinds cf.type true = some (sp.ann, ft) ∧ InputField.trigNullableListItem cf.type = false := by
  simp only [fieldRel, Bool.and_eq_true, beq_iff_eq, Bool.not_eq_true'] at h
  obtain ⟨⟨⟨⟨_, ha⟩, ht⟩, _⟩, _⟩ := h
  cases hann : annOf kinds cf.type true with
  | none => simp [hann] at ha
  | some p =>
    obtain ⟨a, ft⟩ := p
    simp only [hann, beq_iff_eq] at ha
    exact ⟨ft, by rw [ha], ht⟩

theorem namesOK_parts {specs : List FieldSpec} (h : namesOK specs = true) :
    strDistinct (specs.map (·.key)) = true ∧ strDistinct (specs.map (·.py)) = true ∧
    ∀ sp ∈ specs, ∀ sp' ∈ specs, sp'.key = sp.py → sp'.py = sp.py := by
  simp only [namesOK, Bool.and_eq_true, List.all_eq_true, Bool.or_eq_true, bne_iff_ne, ne_eq, beq_iff_eq] at h
  refine ⟨h.1.1, h.1.2, ?_⟩
  intro sp hsp sp' hsp' hk
  rcases h.2 sp hsp sp' hsp' with h' | h'
  · exact absurd hk h'
  · exact h'

theorem findByKey_mem {specs : List FieldSpec} {k : String} {sp : FieldSpec} (h : findByKey specs k = some sp) :
    sp ∈ specs ∧ sp.key = k := by
  unfold findByKey at h
  exact ⟨List.mem_of_find?_eq_some h, by simpa using List.find?_some h⟩

/-- how `validateKvs` treats one key that names the field `sp` — by its validation alias
    (`byName = false`) or by its Python name (`byName = true`) -/
theorem step_resolves (specs : List FieldSpec) (all' : List (String × J)) (hn : namesOK specs = true)
    (byName : Bool) (k : String) (sp : FieldSpec) (hk : findByKey specs k = some sp)
    (hall : byName = true → ∀ kv ∈ all', ∃ sp' ∈ specs, kv.1 = sp'.py) (v' : J) (rest' : List (String × J)) :
    validateKvs env specs all' ((newKey byName specs k, v') :: rest') =
      (match validate env sp.ann v' with
       | .error e => .error e
       | .ok pv =>
         match validateKvs env specs all' rest' with
         | .error e => .error e
         | .ok out => .ok ((sp.py, pv) :: out)) := by
  obtain ⟨hkd, hpd, hcross⟩ := namesOK_parts hn
  obtain ⟨hsp, hkey⟩ := findByKey_mem hk
  cases byName with
  | false =>
    simp only [newKey, Bool.false_eq_true, if_false, validateKvs, hk]
    rfl
  | true =>
    have hnk : newKey true specs k = sp.py := by simp [newKey, pyOf, hk]
    rw [hnk]
    cases hfk : findByKey specs sp.py with
    | some sp2 =>
      obtain ⟨hsp2, hkey2⟩ := findByKey_mem hfk
      have hpy : sp2.py = sp.py := hcross sp hsp sp2 hsp2 hkey2
      have : sp2 = sp := strDistinct_inj (fun (x : FieldSpec) => x.py) specs hpd sp2 hsp2 sp hsp hpy
      subst this
      simp only [validateKvs, hfk]
      rfl
    | none =>
      have hfn : findByName specs sp.py = some sp := by
        unfold findByName
        exact find_of_distinct (fun (x : FieldSpec) => x.py) specs hpd sp hsp
      have hhk : J.hasKey sp.key all' = false := by
        cases hh : J.hasKey sp.key all' with
        | false => rfl
        | true =>
          obtain ⟨kv, hkv, hkvk⟩ := hasKey_mem _ _ hh
          obtain ⟨sp', hsp', he⟩ := hall rfl kv hkv
          have h1 : sp.key = sp'.py := by rw [← hkvk, he]
          have h2 : sp.py = sp'.py := hcross sp' hsp' sp hsp h1
          have h3 : sp = sp' := strDistinct_inj (fun (x : FieldSpec) => x.py) specs hpd sp hsp sp' hsp' h2
          subst h3
          have : findByKey specs sp.key = some sp := by
            unfold findByKey
            exact find_of_distinct (fun (x : FieldSpec) => x.key) specs hkd sp hsp
          rw [h1] at this
          rw [this] at hfk
          cases hfk
      simp only [validateKvs, hfk, hfn, hhk, Bool.false_eq_true, if_false]
      rfl

theorem coerceKvs_keys : ∀ (fs : List CField) (rest cs : List (String × J)), coerceKvs S fs rest = .ok cs →
    cs.map (·.1) = rest.map (·.1) := by
  intro fs rest
  induction rest with
  | nil => intro cs h; simp [coerceKvs] at h; subst h; rfl
  | cons kv rest ih =>
    intro cs h
    obtain ⟨k, v⟩ := kv
    simp only [coerceKvs] at h
    cases hf : fs.find? (fun f => f.name == k) with
    | none => simp [hf] at h
    | some cf =>
      simp only [hf] at h
      cases hv : coerce S cf.type v with
      | error e => simp [hv] at h
      | ok c1 =>
        simp only [hv] at h
        cases hr : coerceKvs S fs rest with
        | error e => simp [hr] at h
        | ok cs' =>
          simp only [hr, Except.ok.injEq] at h
          subst h
          simp [ih cs' hr]

/-- the keys of a re-keyed object are Python names of the class -/
theorem rekeyKvs_keys (fs : List CField) (specs : List FieldSpec) (h2 : all2 (fieldRel kinds) fs specs = true) :
    ∀ (rest cs : List (String × J)), coerceKvs S fs rest = .ok cs →
      ∀ kv ∈ rekeyKvs env S true fs specs rest, ∃ sp ∈ specs, kv.1 = sp.py := by
  intro rest
  induction rest with
  | nil => intro cs _ kv hkv; simp [rekeyKvs] at hkv
  | cons kv0 rest ih =>
    intro cs h kv hkv
    obtain ⟨k, v⟩ := kv0
    simp only [coerceKvs] at h
    cases hf : fs.find? (fun f => f.name == k) with
    | none => simp [hf] at h
    | some cf =>
      simp only [hf] at h
      cases hv : coerce S cf.type v with
      | error e => simp [hv] at h
      | ok c1 =>
        simp only [hv] at h
        cases hr : coerceKvs S fs rest with
        | error e => simp [hr] at h
        | ok cs' =>
          simp only [rekeyKvs, hf, List.mem_cons] at hkv
          rcases hkv with rfl | hkv
          · obtain ⟨sp, hfk, _, hsp, _⟩ := find_related fs specs h2 k cf hf
            exact ⟨sp, hsp, by simp [newKey, pyOf, hfk]⟩
          · exact ih cs' hr kv hkv

end

/-! ### the acceptance theorem -/

section
variable {kinds : String → Kind} {S : CSchema} {env : Env}

theorem nestE_zero (r : Except CErr J) : nestE 0 r = r := by
  cases r <;> rfl

theorem validate_arr_of_leaf (a X : Ann) (xs : List J) (pv : PV) (hcore : core a = X)
    (h : validateLeaf env X (.arr xs) = .ok pv) : validate env a (.arr xs) = .ok pv := by
  cases X <;> simp [validate, hcore, validateLeaf] at h ⊢ <;> exact h

theorem validate_obj_of_leaf (a X : Ann) (kvs : List (String × J)) (pv : PV) (hcore : core a = X)
    (h : validateLeaf env X (.obj kvs) = .ok pv) : validate env a (.obj kvs) = .ok pv := by
  cases X <;> simp [validate, hcore, validateLeaf] at h ⊢ <;> exact h

/-- the three scalar value shapes share this argument -/
theorem accept_scalar_shape (hrel : related kinds S env = true) (byName : Bool) (v : J) (T : TypeRef) (nl : Bool) (a : Ann)
    (ft : String) (c : J)
    (h1 : coerce S T v = nestE (listDepth T) (coerceLeaf S T.base v))
    (h2 : canonical env kinds S T v = (listDepth T == 0 && leafCanon env kinds T.base v))
    (h3 : rekey env S byName T v = v)
    (h4 : validate env a v = validateLeaf env (core a) v)
    (hc : coerce S T v = .ok c) (hcan : canonical env kinds S T v = true)
    (ha : annOf kinds T nl = some (a, ft)) : ∃ pv, validate env a (rekey env S byName T v) = .ok pv := by
  rw [h2] at hcan
  simp only [Bool.and_eq_true, beq_iff_eq] at hcan
  obtain ⟨hd, hleaf⟩ := hcan
  rw [h1, hd, nestE_zero] at hc
  obtain ⟨X, hX, hcore⟩ := annOf_depth0 kinds T nl a ft hd ha
  obtain ⟨pv, hpv⟩ := leaf_ok hrel T.base v c X ft hc hleaf hX
  exact ⟨pv, by rw [h3, h4, hcore]; exact hpv⟩

variable (byName : Bool) (hrel : related kinds S env = true)
include hrel

mutual
  theorem accept : (v : J) → ∀ (T : TypeRef) (nl : Bool) (a : Ann) (ft : String) (c : J),
      coerce S T v = .ok c → canonical env kinds S T v = true → nullableItemUnderNonNull (!nl) T = false →
      (nl = false → v ≠ .null) → annOf kinds T nl = some (a, ft) →
      ∃ pv, validate env a (rekey env S byName T v) = .ok pv
    | .null => by
      intro T nl a ft c hc _ _ hnl ha
      have hT : T.isNonNull = false := by
        cases h : T.isNonNull with
        | false => rfl
        | true => simp [coerce, h] at hc
      have hnl' : nl = true := by
        cases nl with
        | true => rfl
        | false => exact absurd rfl (hnl rfl)
      have hopt := annOf_optional kinds T nl a ft hT ha
      exact ⟨.none, by simp [rekey, validate, validateNull, hopt, hnl']⟩
    | .bool b => by
      intro T nl a ft c hc hcan _ _ ha
      exact accept_scalar_shape hrel byName (.bool b) T nl a ft c (by simp [coerce]) (by simp [canonical]) (by simp [rekey])
        (by simp [validate]) hc hcan ha
    | .num m e => by
      intro T nl a ft c hc hcan _ _ ha
      exact accept_scalar_shape hrel byName (.num m e) T nl a ft c (by simp [coerce]) (by simp [canonical]) (by simp [rekey])
        (by simp [validate]) hc hcan ha
    | .str s => by
      intro T nl a ft c hc hcan _ _ ha
      exact accept_scalar_shape hrel byName (.str s) T nl a ft c (by simp [coerce]) (by simp [canonical]) (by simp [rekey])
        (by simp [validate]) hc hcan ha
    | .arr xs => by
      intro T
      induction T with
      | named n =>
        intro nl a ft c hc hcan _ _ ha
        simp only [coerce, CoerceInput.unNN] at hc
        simp only [canonical, CoerceInput.unNN] at hcan
        obtain ⟨X, hX, hcore⟩ := annOf_depth0 kinds (.named n) nl a ft rfl ha
        obtain ⟨pv, hpv⟩ := leaf_ok hrel n (.arr xs) c X ft hc hcan hX
        refine ⟨pv, ?_⟩
        simp only [rekey, CoerceInput.unNN]
        exact validate_arr_of_leaf a X xs pv hcore hpv
      | nonNull t ih =>
        intro nl a ft c hc hcan htr _ ha
        have e1 : coerce S (.nonNull t) (.arr xs) = coerce S t (.arr xs) := by simp only [coerce, CoerceInput.unNN]
        have e2 : canonical env kinds S (.nonNull t) (.arr xs) = canonical env kinds S t (.arr xs) := by
          simp only [canonical, CoerceInput.unNN]
        have e3 : rekey env S byName (.nonNull t) (.arr xs) = rekey env S byName t (.arr xs) := by
          simp only [rekey, CoerceInput.unNN]
        rw [e3]
        exact ih false a ft c (e1 ▸ hc) (e2 ▸ hcan) (by simpa [nullableItemUnderNonNull] using htr) (fun _ => by simp)
          (by simpa [annOf] using ha)
      | list t _ =>
        intro nl a ft c hc hcan htr _ ha
        simp only [coerce, CoerceInput.unNN] at hc
        cases hl : coerceList S t xs with
        | error e => simp [hl] at hc
        | ok ys =>
          obtain ⟨a', ha', hcore, _⟩ := annOf_list kinds t nl a ft ha
          simp only [canonical, CoerceInput.unNN] at hcan
          simp only [nullableItemUnderNonNull, Bool.or_eq_false_iff, Bool.and_eq_false_iff] at htr
          have hitem : nl = false → t.isNonNull = true := by
            intro hnl
            rcases htr.1 with h | h
            · simp [hnl] at h
            · simpa using h
          obtain ⟨pvs, hpvs⟩ := acceptList xs t nl a' ft ys hl hcan htr.2 hitem ha'
          exact ⟨.list pvs, by simp only [rekey, CoerceInput.unNN, validate, hcore, hpvs]⟩
    | .obj kvs => by
      intro T nl a ft c hc hcan _ _ ha
      simp only [canonical, Bool.and_eq_true, beq_iff_eq] at hcan
      obtain ⟨hd, hcan⟩ := hcan
      simp only [coerce, hd, nestE_zero] at hc
      obtain ⟨X, hX, hcore⟩ := annOf_depth0 kinds T nl a ft hd ha
      cases hf : S.find? T.base with
      | none =>
        simp only [hf] at hc hcan
        obtain ⟨pv, hpv⟩ := leaf_ok hrel T.base (.obj kvs) c X ft hc hcan hX
        exact ⟨pv, by simp only [rekey, hf]; exact validate_obj_of_leaf a X kvs pv hcore hpv⟩
      | some ct =>
        obtain ⟨htr, hname⟩ := related_type hrel T.base ct hf
        cases ct with
        | scalar m =>
          simp only [hf] at hc hcan
          obtain ⟨pv, hpv⟩ := leaf_ok hrel T.base (.obj kvs) c X ft hc hcan hX
          exact ⟨pv, by simp only [rekey, hf]; exact validate_obj_of_leaf a X kvs pv hcore hpv⟩
        | enum m vals =>
          simp only [hf] at hc hcan
          obtain ⟨pv, hpv⟩ := leaf_ok hrel T.base (.obj kvs) c X ft hc hcan hX
          exact ⟨pv, by simp only [rekey, hf]; exact validate_obj_of_leaf a X kvs pv hcore hpv⟩
        | input n fs =>
          simp only [CType.name] at hname
          subst hname
          simp only [hf] at hc hcan
          simp only [typeRel, Bool.and_eq_true, beq_iff_eq] at htr
          obtain ⟨hk, hcls⟩ := htr
          cases hcl : env.class? T.base with
          | none => simp [hcl] at hcls
          | some cl =>
            simp only [hcl, Bool.and_eq_true] at hcls
            obtain ⟨h2, hn⟩ := hcls
            have hXf : X = .fwd T.base := by
              simp [namedAnn, hk] at hX
              exact hX.1.symm
            cases hkv : coerceKvs S fs kvs with
            | error e => simp [hkv] at hc
            | ok cs =>
              simp only [hkv] at hc
              cases hfin : CoerceInput.finish fs cs with
              | error e => simp [hfin] at hc
              | ok out =>
                have hall : byName = true → ∀ kv ∈ rekeyKvs env S byName fs cl.fields kvs, ∃ sp ∈ cl.fields, kv.1 = sp.py := by
                  intro hb
                  subst hb
                  exact rekeyKvs_keys fs cl.fields h2 kvs cs hkv
                obtain ⟨vals, hvals, hkeys⟩ :=
                  acceptKvs kvs fs cl.fields (rekeyKvs env S byName fs cl.fields kvs) cs h2 hn hkv hcan hall
                obtain ⟨hkd, _, _⟩ := namesOK_parts hn
                have hfinish : ∃ fields, PydInput.finish cl.fields vals = .ok fields := by
                  apply finish_ok fs cl.fields cs out vals h2 hfin
                  intro cf _ sp hsp hkey hsome
                  apply lookupPV_isSome_of_mem
                  rw [hkeys]
                  cases hlk : J.lookup cf.name cs with
                  | none => simp [hlk] at hsome
                  | some c1 =>
                    have hmem := lookup_some_mem cs cf.name c1 hlk
                    rw [coerceKvs_keys fs kvs cs hkv] at hmem
                    simp only [List.mem_map] at hmem ⊢
                    obtain ⟨kv, hkvm, hkve⟩ := hmem
                    refine ⟨kv, hkvm, ?_⟩
                    have : findByKey cl.fields sp.key = some sp := by
                      unfold findByKey
                      exact find_of_distinct (fun (x : FieldSpec) => x.key) cl.fields hkd sp hsp
                    simp [pyOf, hkve, ← hkey, this]
                obtain ⟨fields, hfields⟩ := hfinish
                refine ⟨.model T.base fields (vals.map (·.1)), ?_⟩
                have hdf := defaultFailure_none fs cl.fields h2 (rekeyKvs env S byName fs cl.fields kvs)
                simp only [rekey, hf, hcl, validate, hcore, hXf, hdf, hvals, hfields]
  theorem acceptList : (xs : List J) → ∀ (t : TypeRef) (nl : Bool) (a : Ann) (ft : String) (ys : List J),
      coerceList S t xs = .ok ys → canonicalList env kinds S t xs = true → nullableItemUnderNonNull (!nl) t = false →
      (nl = false → t.isNonNull = true) → annOf kinds t nl = some (a, ft) →
      ∃ pvs, validateList env a (rekeyList env S byName t xs) = .ok pvs
    | [] => by
      intro t nl a ft ys _ _ _ _ _
      exact ⟨[], by simp [rekeyList, validateList]⟩
    | x :: xs => by
      intro t nl a ft ys hc hcan htr hitem ha
      simp only [coerceList] at hc
      cases hx : coerce S t x with
      | error e => simp [hx] at hc
      | ok y =>
        simp only [hx] at hc
        cases hxs : coerceList S t xs with
        | error e => simp [hxs] at hc
        | ok ys' =>
          simp only [canonicalList, Bool.and_eq_true] at hcan
          have hnn : nl = false → x ≠ .null := by
            intro hnl hxn
            subst hxn
            simp [coerce, hitem hnl] at hx
          obtain ⟨pv, hpv⟩ := accept x t nl a ft y hx hcan.1 htr hnn ha
          obtain ⟨pvs, hpvs⟩ := acceptList xs t nl a ft ys' hxs hcan.2 htr hitem ha
          exact ⟨pv :: pvs, by simp only [rekeyList, validateList, hpv, hpvs]⟩
  theorem acceptKvs : (rest : List (String × J)) → ∀ (fs : List CField) (specs : List FieldSpec) (all' : List (String × J))
      (cs : List (String × J)), all2 (fieldRel kinds) fs specs = true → namesOK specs = true →
      coerceKvs S fs rest = .ok cs → canonicalKvs env kinds S fs rest = true →
      (byName = true → ∀ kv ∈ all', ∃ sp ∈ specs, kv.1 = sp.py) →
      ∃ vals, validateKvs env specs all' (rekeyKvs env S byName fs specs rest) = .ok vals ∧
        vals.map (·.1) = rest.map (fun kv => pyOf specs kv.1)
    | [] => by
      intro fs specs all' cs _ _ _ _ _
      exact ⟨[], by simp [rekeyKvs, validateKvs], rfl⟩
    | (k, v) :: rest => by
      intro fs specs all' cs h2 hn hc hcan hall
      simp only [coerceKvs] at hc
      cases hf : fs.find? (fun f => f.name == k) with
      | none => simp [hf] at hc
      | some cf =>
        simp only [hf] at hc
        cases hv : coerce S cf.type v with
        | error e => simp [hv] at hc
        | ok c1 =>
          simp only [hv] at hc
          cases hr : coerceKvs S fs rest with
          | error e => simp [hr] at hc
          | ok cs' =>
            obtain ⟨sp, hfk, hrel', hsp, _⟩ := find_related fs specs h2 k cf hf
            simp only [canonicalKvs, hf, Bool.and_eq_true] at hcan
            obtain ⟨ft, hann, htrig⟩ := fieldRel_ann hrel'
            obtain ⟨pv, hpv⟩ := accept v cf.type true sp.ann ft c1 hv hcan.1
              (by simpa [InputField.trigNullableListItem] using htrig) (by simp) hann
            obtain ⟨vals, hvals, hkeys⟩ := acceptKvs rest fs specs all' cs' h2 hn hr hcan.2 hall
            refine ⟨(sp.py, pv) :: vals, ?_, ?_⟩
            · simp only [rekeyKvs, hf]
              rw [step_resolves specs all' hn byName k sp hfk hall]
              simp only [hpv, hvals]
            · simp [hkeys, pyOf, hfk]
end

end

/-! ### keyed by GraphQL names, the value is itself -/

section
variable {S : CSchema} {env : Env}

mutual
  theorem rekey_false : (v : J) → ∀ (T : TypeRef), rekey env S false T v = v
    | .null => by intro T; simp [rekey]
    | .bool b => by intro T; simp [rekey]
    | .num m e => by intro T; simp [rekey]
    | .str s => by intro T; simp [rekey]
    | .arr xs => by
      intro T
      simp only [rekey]
      cases h : CoerceInput.unNN T with
      | list it => simp only [rekeyList_false xs it]
      | named n => rfl
      | nonNull t => rfl
    | .obj kvs => by
      intro T
      simp only [rekey]
      cases h : S.find? T.base with
      | none => rfl
      | some ct =>
        cases ct with
        | scalar m => rfl
        | enum m vals => rfl
        | input n fs =>
          cases hc : env.class? n with
          | none => simp only [hc]
          | some c => simp only [hc, rekeyKvs_false kvs fs c.fields]
  theorem rekeyList_false : (xs : List J) → ∀ (t : TypeRef), rekeyList env S false t xs = xs
    | [] => by intro t; simp [rekeyList]
    | x :: xs => by intro t; simp only [rekeyList, rekey_false x t, rekeyList_false xs t]
  theorem rekeyKvs_false : (rest : List (String × J)) → ∀ (fs : List CField) (specs : List FieldSpec),
      rekeyKvs env S false fs specs rest = rest
    | [] => by intro fs specs; simp [rekeyKvs]
    | (k, v) :: rest => by
      intro fs specs
      simp only [rekeyKvs, rekeyKvs_false rest fs specs]
      cases h : fs.find? (fun f => f.name == k) with
      | none => rfl
      | some f => simp [newKey, rekey_false v f.type]
end

end

/-! ### the theorem in the form the property uses it -/

section
variable {kinds : String → Kind} {S : CSchema} {env : Env}

/-- an input object type of the schema: whatever coercion accepts, `Cls.model_validate` accepts —
    with the value as it is (GraphQL names) and re-keyed by Python names at every level -/
theorem construct_accepts (hrel : related kinds S env = true) (n : String) (fs : List CField)
    (hin : S.find? n = some (.input n fs)) (v c : J) (hnn : v ≠ .null)
    (hc : coerce S (.named n) v = .ok c) (hcan : canonical env kinds S (.named n) v = true) :
    (∃ m, construct env n v = .ok m) ∧ (∃ m, construct env n (rekey env S true (.named n) v) = .ok m) := by
  have hb := related_not_broken hrel
  obtain ⟨htr, _⟩ := related_type hrel n _ hin
  simp only [typeRel, Bool.and_eq_true, beq_iff_eq] at htr
  have hann : annOf kinds (.named n) false = some (.fwd n, n) := by
    rw [InputField.annOf_named]
    simp [namedAnn, htr.1, wrapNullable]
  constructor
  · obtain ⟨pv, hpv⟩ := accept false hrel v (.named n) false (.fwd n) n c hc hcan (by simp [nullableItemUnderNonNull])
      (fun _ => hnn) hann
    rw [rekey_false] at hpv
    exact ⟨pv, by simp [construct, hb, hpv]⟩
  · obtain ⟨pv, hpv⟩ := accept true hrel v (.named n) false (.fwd n) n c hc hcan (by simp [nullableItemUnderNonNull])
      (fun _ => hnn) hann
    exact ⟨pv, by simp [construct, hb, hpv]⟩

end

end Ariadne.C06Accept
