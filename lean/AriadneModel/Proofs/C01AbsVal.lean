/-
  Proofs/C01AbsVal.lean — property C01, "abstract positions" tier, part (2): the classes `aClass` accept every response a
  conformant executor can give for the selection set AS SENT (with the automatic `__typename` fields), and dump it back.
-/
import AriadneModel.Proofs.C01AbsGen
import AriadneModel.Proofs.C01PlainVal

set_option linter.unusedSimpArgs false
set_option linter.unusedVariables false

namespace Ariadne.C01Abs
open Ariadne Ariadne.Gql Ariadne.ResultTypes Ariadne.Util Ariadne.Pyd Ariadne.C01Plain

/-! ### small facts -/

theorem mem_insertSorted (a x : String) : ∀ l : List String, a ∈ insertSorted x l ↔ a = x ∨ a ∈ l
  | [] => by simp [insertSorted]
  | y :: ys => by
    simp only [insertSorted]
    split
    · simp
    · simp only [List.mem_cons, mem_insertSorted a x ys]
      constructor
      · rintro (h | h | h)
        · exact Or.inr (Or.inl h)
        · exact Or.inl h
        · exact Or.inr (Or.inr h)
      · rintro (h | h | h)
        · exact Or.inr (Or.inl h)
        · exact Or.inl h
        · exact Or.inr (Or.inr h)

theorem mem_sortStr (a : String) : ∀ l : List String, a ∈ sortStr l ↔ a ∈ l
  | [] => by simp [sortStr]
  | x :: xs => by
    have ih := mem_sortStr a xs
    simp only [sortStr, List.foldr_cons] at ih ⊢
    rw [mem_insertSorted, ih]
    simp

theorem le_foldl_max : ∀ (l : List Nat) (init x : Nat), (x ≤ init ∨ x ∈ l) → x ≤ l.foldl max init
  | [], init, x, h => by
    rcases h with h | h
    · simpa using h
    · cases h
  | y :: ys, init, x, h => by
    simp only [List.foldl_cons]
    apply le_foldl_max ys (max init y) x
    rcases h with h | h
    · left; omega
    · rcases List.mem_cons.mp h with rfl | h
      · left; omega
      · right; exact h

/-! ### the document as sent -/

/-- the selection set of a class as the executor sees it -/
def sent (a : Bool) (M : List Nat) (sel : List Selection) : List Selection :=
  (if autoTn a sel then [Marks.typenameSel] else []) ++ Marks.applySels M sel

theorem applySels_map (M : List Nat) : ∀ sel : List Selection, Marks.applySels M sel = sel.map (Marks.applySel M)
  | [] => by simp [Marks.applySels]
  | s :: rest => by simp [Marks.applySels, applySels_map M rest]

theorem applySel_field (M : List Nat) (alias : Option String) (name : String) (dirs : List Directive) (sid : Nat)
    (sub : List Selection) :
    Marks.applySel M (.field alias name dirs sid sub) =
      .field alias name dirs sid (if M.contains sid && !sub.isEmpty then Marks.typenameSel :: Marks.applySels M sub
                                  else Marks.applySels M sub) := by
  simp [Marks.applySel]

theorem applySel_inline (M : List Nat) (on : Option String) (dirs : List Directive) (sid : Nat) (ss : List Selection) :
    Marks.applySel M (.inline on dirs sid ss) = .inline on dirs sid (Marks.applySels M ss) := by
  simp [Marks.applySel]

theorem applySel_tn (M : List Nat) : Marks.applySel M Marks.typenameSel = Marks.typenameSel := by
  simp [Marks.typenameSel, Marks.applySel, Marks.applySels]

theorem keyOf_applySel (M : List Nat) (x : Selection) (h : isField x = true) : keyOf (Marks.applySel M x) = keyOf x := by
  cases x <;> simp [isField] at h
  simp [applySel_field, keyOf]

theorem isField_applySel (M : List Nat) (x : Selection) (h : isField x = true) : isField (Marks.applySel M x) = true := by
  cases x <;> simp [isField] at h
  simp [applySel_field, isField]

/-! ### CollectFields with inline fragments -/

def collectStep (S : Schema) (frags : List Fragment) (fuel : Nat) (rt : String) (cond : Bool)
    (acc : List Exec.Collected) (s : Selection) : List Exec.Collected :=
  match s with
  | .field alias name dirs _ sub =>
    Exec.addCollected acc { key := alias.getD name, name := name, subs := sub, conditional := cond || Exec.isConditional dirs }
  | .inline on dirs _ sub =>
    if Exec.applies S on rt then Exec.collect S frags fuel rt (cond || Exec.isConditional dirs) sub acc else acc
  | .spread n dirs =>
    match findFragment? frags n with
    | some f => if Exec.applies S (some f.on) rt then Exec.collect S frags fuel rt (cond || Exec.isConditional dirs) f.sel acc else acc
    | none => acc

theorem collect_succ (S : Schema) (frags : List Fragment) (fuel : Nat) (rt : String) (cond : Bool) (sels : List Selection)
    (acc : List Exec.Collected) :
    Exec.collect S frags (fuel + 1) rt cond sels acc = sels.foldl (collectStep S frags fuel rt cond) acc := by
  rfl

theorem isConditional_eq (dirs : List Directive) : Exec.isConditional dirs = hasConditionalDirective dirs := rfl

theorem collect_abs (env : ResultTypes.Env) (frags : List Fragment) (k : Nat) (rt : String) (M : List Nat) {cn tn : String}
    {rts : List String} (hrt : rt ∈ rts) :
    ∀ (sels : List Selection) (acc : List Exec.Collected),
      (∀ x ∈ sels, aSel1 env M.contains cn tn rts x = true) →
      ((flatG env tn sels).map keyOf).Nodup →
      (∀ x ∈ flatG env tn sels, ∀ c ∈ acc, c.key ≠ keyOf x) →
      Exec.collect env.schema frags (k + 2) rt false (sels.map (Marks.applySel M)) acc =
        acc ++ ((flatG env tn sels).map (Marks.applySel M)).map collOf := by
  intro sels
  induction sels with
  | nil => intro acc _ _ _; simp [collect_succ, flatG]
  | cons x rest ih =>
    intro acc h hnd hdisj
    have hx := h x List.mem_cons_self
    have hr := fun y hy => h y (List.mem_cons_of_mem _ hy)
    rw [collect_succ, List.map_cons, List.foldl_cons, ← collect_succ]
    have hflat : flatG env tn (x :: rest) = flat1 env tn x ++ flatG env tn rest := by simp [flatG]
    rw [hflat, List.map_append, List.nodup_append] at hnd
    obtain ⟨hnd1, hnd2, hnd3⟩ := hnd
    cases x with
    | spread n d => simp [aSel1] at hx
    | field alias name dirs sid sub =>
      have hstep : collectStep env.schema frags (k + 1) rt false acc (Marks.applySel M (.field alias name dirs sid sub)) =
          acc ++ [collOf (Marks.applySel M (.field alias name dirs sid sub))] := by
        rw [applySel_field]
        simp only [collectStep]
        rw [addCollected_fresh acc _ (by
          intro c hc
          exact hdisj (.field alias name dirs sid sub) (by rw [hflat]; simp [flat1]) c hc)]
        rfl
      rw [hstep, ih _ hr hnd2 (by
        intro y hy c hc
        rcases List.mem_append.mp hc with hc | hc
        · exact hdisj y (by rw [hflat]; exact List.mem_append_right _ hy) c hc
        · have : c = collOf (Marks.applySel M (.field alias name dirs sid sub)) := by simpa using hc
          subst this
          rw [applySel_field]
          intro e
          exact hnd3 (keyOf (.field alias name dirs sid sub)) (by simp [flat1]) (keyOf y)
            (List.mem_map.mpr ⟨y, hy, rfl⟩) e)]
      simp [hflat, flat1, List.append_assoc]
    | inline on d sid ss =>
      cases on with
      | none => simp [aSel1] at hx
      | some c =>
        simp only [aSel1, Bool.and_eq_true, Bool.not_eq_true', List.all_eq_true, beq_iff_eq, Bool.or_eq_true] at hx
        obtain ⟨⟨hcond, hagree⟩, hcontent⟩ := hx
        have happ : Exec.applies env.schema (some c) rt = incl env c tn := (hagree rt hrt).symm
        rw [applySel_inline]
        simp only [collectStep, happ, isConditional_eq, hcond, Bool.or_false]
        by_cases hi : incl env c tn = true
        · have hcontent' : (∀ y ∈ ss, notTnField y = true) := by
            rcases hcontent with h | h
            · rw [hi] at h; cases h
            · exact h.1
          have hfields : ∀ y ∈ ss, isField y = true := fun y hy => notTnField_isField (hcontent' y hy)
          have hfl1 : flat1 env tn (.inline (some c) d sid ss) = ss := by simp [flat1, hi]
          rw [hfl1] at hnd1 hnd3
          simp only [hi, if_true]
          rw [applySels_map]
          rw [collect_fields env.schema frags k rt (ss.map (Marks.applySel M)) acc
            (by intro y hy; obtain ⟨z, hz, rfl⟩ := List.mem_map.mp hy; exact isField_applySel M z (hfields z hz))
            (by
              rw [List.map_map]
              have : (keyOf ∘ Marks.applySel M) = fun z => keyOf (Marks.applySel M z) := rfl
              rw [List.map_congr_left (g := keyOf) (fun z hz => by simp [keyOf_applySel M z (hfields z hz)])]
              exact hnd1)
            (by
              intro y hy c' hc'
              obtain ⟨z, hz, rfl⟩ := List.mem_map.mp hy
              rw [keyOf_applySel M z (hfields z hz)]
              exact hdisj z (by rw [hflat, hfl1]; exact List.mem_append_left _ hz) c' hc')]
          rw [ih _ hr hnd2 (by
            intro y hy c' hc'
            rcases List.mem_append.mp hc' with hc' | hc'
            · exact hdisj y (by rw [hflat]; exact List.mem_append_right _ hy) c' hc'
            · obtain ⟨z', hz', rfl⟩ := List.mem_map.mp hc'
              obtain ⟨z, hz, rfl⟩ := List.mem_map.mp hz'
              rw [collOf_key (isField_applySel M z (hfields z hz)), keyOf_applySel M z (hfields z hz)]
              intro e
              exact hnd3 (keyOf z) (List.mem_map.mpr ⟨z, hz, rfl⟩) (keyOf y) (List.mem_map.mpr ⟨y, hy, rfl⟩) e)]
          simp [hflat, hfl1, List.append_assoc]
        · have hi' : incl env c tn = false := by simpa using hi
          have hfl1 : flat1 env tn (.inline (some c) d sid ss) = [] := by simp [flat1, hi']
          simp only [hi', Bool.false_eq_true, if_false]
          rw [ih _ hr hnd2 (by
            intro y hy c' hc'
            exact hdisj y (by rw [hflat]; exact List.mem_append_right _ hy) c' hc')]
          simp [hflat, hfl1]

/-- the field nodes of a class as the executor sees them -/
def sentFlat (a : Bool) (M : List Nat) (env : ResultTypes.Env) (tn : String) (sel : List Selection) : List Selection :=
  (rflat a env tn sel).map (Marks.applySel M)

theorem rflat_isField {env : ResultTypes.Env} {mk : Nat → Bool} {cn tn : String} {rts : List String} {sel : List Selection} (a : Bool)
    (h : aSels env mk cn tn rts sel = true) : ∀ x ∈ rflat a env tn sel, isField x = true :=
  fun x hx => (rflat_spec a h x hx).1

theorem collect_sent (env : ResultTypes.Env) (frags : List Fragment) (k : Nat) (rt : String) (M : List Nat) {cn tn : String}
    {rts : List String} (hrt : rt ∈ rts) (a : Bool) (sel : List Selection)
    (hloc : aSels env M.contains cn tn rts sel = true)
    (hkeys : ((rflat a env tn sel).map keyOf).Nodup) :
    Exec.collect env.schema frags (k + 2) rt false (sent a M sel) [] = (sentFlat a M env tn sel).map collOf := by
  have hlocs := (aSels_iff env M.contains cn tn rts sel).mp hloc
  unfold sent sentFlat rflat at *
  rw [applySels_map]
  by_cases hauto : autoTn a sel = true
  · simp only [hauto, if_true, List.singleton_append, List.map_cons, List.nodup_cons] at hkeys ⊢
    rw [collect_succ, List.foldl_cons, ← collect_succ]
    have hstep : collectStep env.schema frags (k + 1) rt false [] Marks.typenameSel = [collOf Marks.typenameSel] := by
      simp only [Marks.typenameSel, collectStep]
      rw [addCollected_fresh [] _ (by intro c hc; cases hc)]
      rfl
    rw [hstep, collect_abs env frags k rt M hrt sel _ hlocs hkeys.2 (by
      intro y hy c hc
      have : c = collOf Marks.typenameSel := by simpa using hc
      subst this
      intro e
      apply hkeys.1
      have e' : keyOf Marks.typenameSel = keyOf y := e
      rw [e']
      exact List.mem_map.mpr ⟨y, hy, rfl⟩)]
    simp [applySel_tn]
  · have hauto' : autoTn a sel = false := by simpa using hauto
    simp only [hauto', Bool.false_eq_true, if_false, List.nil_append] at hkeys ⊢
    rw [collect_abs env frags k rt M hrt sel [] hlocs hkeys (by intro _ _ c hc; cases hc)]
    simp

/-! ### annotations at a multi-variant position -/

theorem pyFieldName_tn (env : ResultTypes.Env) : pyFieldName env typenameField = typenameAlias := by
  simp [pyFieldName, Names.pyName, Names.typenameField, typenameField, Names.typenameAlias, typenameAlias]

def AllCls (as : List Ann) : Prop := ∀ a ∈ as, ∃ n, a = Ann.cls n

theorem annotateNested_wrap_union (as : List Ann) (T : TypeRef) : ∀ b : Bool,
    annotateNested (wrapAnn (.union as) b T) = wrapAnn (.disc (.union as)) b T := by
  induction T with
  | named n => intro b; simp only [wrapAnn, annotateNested_optionalIf, annotateNested]
  | list t ih => intro b; simp only [wrapAnn, annotateNested_optionalIf, annotateNested, ih]
  | nonNull t ih => intro b; simp only [wrapAnn, ih]

theorem annotateTop_wrap_union (as : List Ann) (T : TypeRef) : ∀ b : Bool, bareT b T = false →
    annotateTop (wrapAnn (.union as) b T) = wrapAnn (.disc (.union as)) b T := by
  induction T with
  | named n =>
    intro b hb
    have : b = true := by simpa [bareT] using hb
    subst this
    simp [wrapAnn, optionalIf, annotateTop, annotateNested]
  | list t ih =>
    intro b _
    cases b <;> simp [wrapAnn, optionalIf, annotateTop, annotateNested, annotateNested_wrap_union]
  | nonNull t ih => intro b hb; simp only [wrapAnn]; exact ih false (by simpa [bareT] using hb)

theorem wrapAnn_bare (base : Ann) (T : TypeRef) : ∀ b : Bool, bareT b T = true → wrapAnn base b T = base := by
  induction T with
  | named n =>
    intro b hb
    have : b = false := by simpa [bareT] using hb
    subst this
    simp [wrapAnn, optionalIf]
  | list t ih => intro b hb; simp [bareT] at hb
  | nonNull t ih => intro b hb; simp only [wrapAnn]; exact ih false (by simpa [bareT] using hb)

theorem annotateTop_union_cls (as : List Ann) (h : AllCls as) : annotateTop (.union as) = .union as := by
  simp only [annotateTop]
  congr 1
  have : ∀ a ∈ as, annotateNested a = a := by
    intro a ha
    obtain ⟨n, rfl⟩ := h a ha
    rfl
  conv => rhs; rw [← List.map_id as]
  exact List.map_congr_left this

theorem isUnionAnn_wrap_nonbare (base : Ann) (T : TypeRef) : ∀ b : Bool, bareT b T = false →
    isUnionAnn (wrapAnn base b T) = false := by
  induction T with
  | named n =>
    intro b hb
    have : b = true := by simpa [bareT] using hb
    subst this
    simp [wrapAnn, optionalIf, isUnionAnn]
  | list t ih => intro b _; cases b <;> simp [wrapAnn, optionalIf, isUnionAnn]
  | nonNull t ih => intro b hb; simp only [wrapAnn]; exact ih false (by simpa [bareT] using hb)

theorem complete_bare (P : String → J → Bool) (T : TypeRef) : ∀ (b : Bool) (v : J), bareT b T = true →
    Exec.complete P T b v = (match v with | .null => false | _ => P T.base v) := by
  induction T with
  | named n =>
    intro b v hb
    have : b = false := by simpa [bareT] using hb
    subst this
    unfold Exec.complete
    cases v <;> rfl
  | list t ih => intro b v hb; simp [bareT] at hb
  | nonNull t ih =>
    intro b v hb
    unfold Exec.complete
    simp only [TypeRef.base]
    exact ih false v (by simpa [bareT] using hb)

/-! ### pydantic: discriminated fields, typename literals -/

/-- what `fieldWith` does with the value found for a field -/
def fieldRec (penv : Pyd.Env) (cf : Nat) (rec : Ann → J → Except VErr PV) (d : FieldDecl) (v : J) : Except VErr PV :=
  if d.discriminator then
    (match d.ann with
     | .union as => taggedWith penv cf rec as v
     | a => rec a v)
  else rec d.ann v

theorem fieldWith_gen (penv : Pyd.Env) (cf : Nat) (rec : Ann → J → Except VErr PV) (kvs : List (String × J))
    (d : FieldDecl) (key : String)
    (halias : d.alias = if d.py != key then some key else none)
    (hpy : d.py = key ∨ J.lookup d.py kvs = none) :
    fieldWith penv cf rec kvs d = (match J.lookup key kvs with
      | some v => (match fieldRec penv cf rec d v with
        | .ok pv => .ok (some (d.py, d.alias, pv))
        | .error e => .error e)
      | none => if d.defaultNone then .ok none else .error (.missing (d.alias.getD d.py))) := by
  unfold fieldWith fieldRec
  by_cases hk : d.py = key
  · have ha : d.alias = none := by rw [halias]; simp [hk]
    subst hk
    simp only [ha]
    cases J.lookup d.py kvs <;> rfl
  · have ha : d.alias = some key := by rw [halias]; simp [hk]
    have hn : J.lookup d.py kvs = none := by
      rcases hpy with h | h
      · exact absurd h hk
      · exact h
    simp only [ha]
    cases hl : J.lookup key kvs with
    | none => simp only [hn]
    | some v => rfl

theorem eq_of_nodup_py : ∀ (fs : List FieldDecl), (fs.map (·.py)).Nodup → ∀ d ∈ fs, ∀ e ∈ fs, e.py = d.py → e = d
  | [], _, d, hd, _, _, _ => by cases hd
  | x :: xs, h, d, hd, e, he, hpy => by
    simp only [List.map_cons, List.nodup_cons] at h
    rcases List.mem_cons.mp hd with hd1 | hd1 <;> rcases List.mem_cons.mp he with he1 | he1
    · rw [hd1, he1]
    · subst hd1
      exact absurd (List.mem_map.mpr ⟨e, he1, hpy⟩) h.1
    · subst he1
      exact absurd (List.mem_map.mpr ⟨d, hd1, hpy.symm⟩) h.1
    · exact eq_of_nodup_py xs h.2 d hd1 e he1 hpy

theorem typenameLiteral_class (penv : Pyd.Env) (c : ClassDecl) (hc : penv.class? c.name = some c)
    (hb : c.bases = ["BaseModel"]) (hbm : penv.class? "BaseModel" = none) (hnd : (c.fields.map (·.py)).Nodup)
    (d : FieldDecl) (hd : d ∈ c.fields) (hpy : d.py = typenameAlias) (vs : List String) (hann : d.ann = .literal vs) :
    typenameLiteral penv penv.clsFuel c.name = some vs := by
  unfold typenameLiteral
  rw [show penv.clsFuel = penv.classes.length + 1 from rfl, allFields_plain penv c hc hb hbm hnd]
  cases hf : c.fields.find? (·.py == typenameAlias) with
  | none =>
    have := List.find?_eq_none.mp hf d hd
    simp [hpy] at this
  | some e =>
    have he := List.mem_of_find?_eq_some hf
    have hpe : e.py = typenameAlias := by simpa using List.find?_some hf
    have := eq_of_nodup_py c.fields hnd d hd e he (by rw [hpe, hpy])
    subst this
    simp [hann]

theorem validate_disc_succ (penv : Pyd.Env) (g : Nat) (as : List Ann) (j : J) :
    validate penv (g + 1) (.disc (.union as)) j = taggedWith penv penv.clsFuel (validate penv g) as j := rfl

theorem validate_literal_succ (penv : Pyd.Env) (g : Nat) (vs : List String) (s : String) (h : s ∈ vs) :
    validate penv (g + 1) (.literal vs) (.str s) = .ok (.str s) := by
  have : vs.contains s = true := by simpa using h
  simp [validate, h]

/-! ### the decls of a class -/

theorem aDecl_py (env : ResultTypes.Env) (cn tn : String) (tv : List String) (alias : Option String) (name : String)
    (dirs : List Directive) (sub : List Selection) :
    (aDecl env cn tn tv alias name dirs sub).py = pyFieldName env (alias.getD name) := by
  unfold aDecl; split <;> rfl

theorem aDecl_alias (env : ResultTypes.Env) (cn tn : String) (tv : List String) (alias : Option String) (name : String)
    (dirs : List Directive) (sub : List Selection) :
    (aDecl env cn tn tv alias name dirs sub).alias =
      if pyFieldName env (alias.getD name) != alias.getD name then some (alias.getD name) else none := by
  unfold aDecl; split <;> rfl

theorem aDecl_key (env : ResultTypes.Env) (cn tn : String) (tv : List String) (alias : Option String) (name : String)
    (dirs : List Directive) (sub : List Selection) :
    (aDecl env cn tn tv alias name dirs sub).alias.getD (aDecl env cn tn tv alias name dirs sub).py = alias.getD name := by
  rw [aDecl_alias, aDecl_py]
  by_cases h : pyFieldName env (alias.getD name) = alias.getD name
  · simp [h]
  · simp [h]

theorem mem_decls {env : ResultTypes.Env} {cn tn : String} {tv : List String} {fl : List Selection} {d : FieldDecl}
    (h : d ∈ fl.flatMap (aDecl1 env cn tn tv)) :
    ∃ alias name dirs sid sub, Selection.field alias name dirs sid sub ∈ fl ∧ d = aDecl env cn tn tv alias name dirs sub := by
  obtain ⟨x, hx, hd⟩ := List.mem_flatMap.mp h
  cases x with
  | field alias name dirs sid sub =>
    simp only [aDecl1, List.mem_singleton] at hd
    exact ⟨alias, name, dirs, sid, sub, hx, hd⟩
  | spread n d' => simp [aDecl1] at hd
  | inline on d' sid sub => simp [aDecl1] at hd

theorem decls_map (env : ResultTypes.Env) (cn tn : String) (tv : List String) {β : Type} (φ : FieldDecl → β) (ψ : String → β)
    (hφ : ∀ alias name dirs sub, φ (aDecl env cn tn tv alias name dirs sub) = ψ (alias.getD name)) :
    ∀ (fl : List Selection), (∀ x ∈ fl, isField x = true) →
      (fl.flatMap (aDecl1 env cn tn tv)).map φ = (fl.map keyOf).map ψ := by
  intro fl
  induction fl with
  | nil => intro _; simp
  | cons x rest ih =>
    intro h
    have hx := h x List.mem_cons_self
    cases x with
    | field alias name dirs sid sub =>
      simp only [List.flatMap_cons, aDecl1, List.singleton_append, List.map_cons, hφ, keyOf]
      rw [ih (fun y hy => h y (List.mem_cons_of_mem _ hy))]
    | spread n d => simp [isField] at hx
    | inline on d sid sub => simp [isField] at hx

/-! ### what a conformant answer looks like, per field node -/

/-- the judgement `Exec.respOK` passes on one collected group (sub-answers judged with fuel `e`) -/
def groupOK (S : Schema) (frags : List Fragment) (e : Nat) (rt : String) (kvs : List (String × J)) (g : Exec.Collected) : Bool :=
  match J.lookup g.key kvs with
  | none => g.conditional
  | some v =>
    if g.name == Tables.typenameFieldName then (match v with | .str s => s == rt | _ => false)
    else match S.fieldOf? rt g.name with
      | none => false
      | some fd =>
        Exec.complete (fun n v =>
          if g.subs.isEmpty then Exec.leafOk S n v
          else (Exec.runtimeTypes S n).any fun rt' => Exec.respOK S frags e rt' g.subs v) fd.type true v

theorem respOK_groups (S : Schema) (frags : List Fragment) (e : Nat) (rt : String) (sels : List Selection)
    (kvs : List (String × J)) :
    Exec.respOK S frags (e + 1) rt sels (.obj kvs) =
      (kvs.all (fun (k, _) => (Exec.collect S frags (e + 1) rt false sels []).any (·.key == k))
      && (Exec.collect S frags (e + 1) rt false sels []).all (groupOK S frags e rt kvs)) := by
  rfl

theorem resp_facts (env : ResultTypes.Env) (frags : List Fragment) (M : List Nat) {cn tn : String} {rts : List String}
    (rt : String) (hrt : rt ∈ rts) (a : Bool) (sel : List Selection)
    (hloc : aSels env M.contains cn tn rts sel = true) (hkeys : ((rflat a env tn sel).map keyOf).Nodup)
    (k : Nat) (kvs : List (String × J))
    (hresp : Exec.respOK env.schema frags (k + 2) rt (sent a M sel) (.obj kvs) = true) :
    (∀ p ∈ kvs, ∃ x ∈ rflat a env tn sel, keyOf x = p.1) ∧
    (∀ x ∈ rflat a env tn sel, groupOK env.schema frags (k + 1) rt kvs (collOf (Marks.applySel M x)) = true) := by
  rw [respOK_groups, collect_sent env frags k rt M hrt a sel hloc hkeys] at hresp
  simp only [Bool.and_eq_true] at hresp
  obtain ⟨hr1, hr2⟩ := hresp
  have hf := rflat_isField a hloc
  constructor
  · intro p hp
    have h1 := List.all_eq_true.mp hr1 p hp
    obtain ⟨c, hc, he⟩ := List.any_eq_true.mp h1
    obtain ⟨y', hy', rfl⟩ := List.mem_map.mp hc
    obtain ⟨y, hy, rfl⟩ := List.mem_map.mp hy'
    rw [collOf_key (isField_applySel M y (hf y hy)), keyOf_applySel M y (hf y hy)] at he
    exact ⟨y, hy, by simpa using he⟩
  · intro x hx
    exact List.all_eq_true.mp hr2 _ (List.mem_map.mpr ⟨_, List.mem_map.mpr ⟨x, hx, rfl⟩, rfl⟩)

/-- a class generated with `add_typename` has a `__typename` field node (automatic or explicit), un-aliased and
    unconditional -/
theorem exists_tn {env : ResultTypes.Env} {mk : Nat → Bool} {cn tn : String} {rts : List String} {sel : List Selection}
    (h : aSels env mk cn tn rts sel = true) :
    ∃ dirs sid sub0, Selection.field none typenameField dirs sid sub0 ∈ rflat true env tn sel ∧
      hasConditionalDirective dirs = false := by
  by_cases hauto : autoTn true sel = true
  · refine ⟨[], 0, [], ?_, rfl⟩
    simp [rflat, hauto, Marks.typenameSel]
  · have hexp : explicitTn sel = true := by simpa [autoTn] using hauto
    obtain ⟨x, hx, hxt⟩ := List.any_eq_true.mp hexp
    have hx1 := (aSels_iff _ _ _ _ _ _).mp h x hx
    cases x with
    | spread n d => simp [isTnSel] at hxt
    | inline on d sid ss => simp [isTnSel] at hxt
    | field alias name dirs sid sub0 =>
      have hn : name = typenameField := by simpa [isTnSel] using hxt
      subst hn
      simp only [aSel1, beq_self_eq_true, if_true, Bool.and_eq_true, Option.isNone_iff_eq_none, Bool.not_eq_true'] at hx1
      obtain ⟨_, ⟨⟨ha, hc⟩, _⟩⟩ := hx1
      subst ha
      refine ⟨dirs, sid, sub0, ?_, hc⟩
      unfold rflat
      apply List.mem_append_right
      exact List.mem_flatMap.mpr ⟨_, hx, by simp [flat1]⟩

/-- the answer carries the runtime type under `__typename` -/
theorem resp_typename (env : ResultTypes.Env) (frags : List Fragment) (M : List Nat) {cn tn : String} {rts : List String}
    (rt : String) (hrt : rt ∈ rts) (sel : List Selection)
    (hloc : aSels env M.contains cn tn rts sel = true) (hkeys : ((rflat true env tn sel).map keyOf).Nodup)
    (k : Nat) (kvs : List (String × J))
    (hresp : Exec.respOK env.schema frags (k + 2) rt (sent true M sel) (.obj kvs) = true) :
    J.lookup typenameField kvs = some (.str rt) := by
  obtain ⟨dirs, sid, sub0, hx, hc⟩ := exists_tn hloc
  have := (resp_facts env frags M rt hrt true sel hloc hkeys k kvs hresp).2 _ hx
  rw [applySel_field] at this
  simp only [groupOK, collOf, Option.getD_none, isConditional_eq, hc, Bool.or_false] at this
  cases hl : J.lookup typenameField kvs with
  | none => rw [hl] at this; cases this
  | some v =>
    rw [hl] at this
    have hn : (typenameField == Tables.typenameFieldName) = true := by simp [typenameField]
    simp only [hn, if_true] at this
    cases v <;> simp at this
    subst this
    rfl

/-! ### variants -/

theorem isMulti_abs {env : ResultTypes.Env} {n : String} {sub : List Selection} (h : isMulti env n sub = true) :
    env.schema.isAbstract n = true := by
  unfold isMulti at h
  unfold Schema.isAbstract
  cases hk : env.schema.kindOf? n with
  | none => simp [hk] at h
  | some k => cases k <;> simp_all

theorem relatedOf_single {env : ResultTypes.Env} {C n : String} {sub : List Selection} (h : isMulti env n sub = false) :
    relatedOf env C n sub = [(C, n)] := by
  unfold isMulti at h
  unfold relatedOf
  cases hk : env.schema.kindOf? n with
  | none => rfl
  | some k => cases k <;> simp_all

theorem contains_sortStr (l : List String) (x : String) : (sortStr l).contains x = l.contains x := by
  cases h : l.contains x with
  | true =>
    have : x ∈ l := by simpa using h
    simpa using (mem_sortStr x l).mpr this
  | false =>
    have : x ∉ l := by simpa using h
    simpa using fun hm => this ((mem_sortStr x l).mp hm)

theorem taggedWith_variant (penv : Pyd.Env) (rec : Ann → J → Except VErr PV) (lit : String × String → List String)
    (tag : String) (kvs : List (String × J)) (htag : J.lookup typenameField kvs = some (.str tag)) (p0 : String × String) :
    ∀ (ps : List (String × String)),
      (∀ p ∈ ps, typenameLiteral penv penv.clsFuel p.1 = some (sortStr (lit p))) →
      ps.find? (fun p => (lit p).contains tag) = some p0 →
      taggedWith penv penv.clsFuel rec (ps.map fun p => Ann.cls p.1) (.obj kvs) = rec (.cls p0.1) (.obj kvs) := by
  intro ps
  induction ps with
  | nil => intro _ h; simp at h
  | cons p rest ih =>
    intro h hfind
    have hp := h p List.mem_cons_self
    have ih' := ih (fun q hq => h q (List.mem_cons_of_mem _ hq))
    simp only [taggedWith, htag, List.map_cons, List.find?_cons, annClassName?, hp, Option.getD_some, contains_sortStr] at ih' ⊢
    rw [List.find?_cons] at hfind
    cases hc : (lit p).contains tag with
    | true =>
      simp only [hc] at hfind ⊢
      cases hfind
      rfl
    | false =>
      simp only [hc] at hfind ⊢
      exact ih' hfind

def ValSpec (env : ResultTypes.Env) (penv : Pyd.Env) (frags : List Fragment) (M : List Nat) (ef : Nat) : Prop :=
  ∀ (cn tn rt : String) (rts : List String) (sel : List Selection) (tv : List String) (a : Bool) (j : J),
    rt ∈ rts → classHead env tn rts tv a sel = true → aSels env M.contains cn tn rts sel = true →
    (∀ c ∈ aClass env cn tn tv a sel, penv.class? c.name = some c) →
    agfuel sel ≤ ef →
    Exec.respOK env.schema frags ef rt (sent a M sel) j = true → nodupKeys j = true →
    ∀ vfuel, avneed env cn tn sel + 4 ≤ vfuel → RT (validate penv vfuel (.cls cn) j) j

theorem classHead_spec {env : ResultTypes.Env} {tn : String} {rts tv : List String} {a : Bool} {sel : List Selection}
    (h : classHead env tn rts tv a sel = true) :
    setOK env (rflat a env tn sel) = true ∧
    ((rflat a env tn sel).any isTnSel = true →
      (tv.isEmpty = true → rootTnOK env tn = true) ∧ (tv.isEmpty = false → ∀ rt ∈ rts, rt ∈ tv)) := by
  simp only [classHead, Bool.and_eq_true, Bool.or_eq_true, Bool.not_eq_true'] at h
  refine ⟨h.1, fun hany => ?_⟩
  rcases h.2 with h2 | h2
  · rw [hany] at h2; cases h2
  · constructor
    · intro hte; simpa [hte] using h2
    · intro hte rt hrt
      simp only [hte, Bool.false_eq_true, if_false, List.all_eq_true] at h2
      simpa using h2 rt hrt

/-- the head class of `aClass`, as pydantic sees it -/
theorem class_fields (env : ResultTypes.Env) (penv : Pyd.Env) (hbm : penv.class? "BaseModel" = none)
    {mk : Nat → Bool} (cn tn : String) (rts tv : List String) (a : Bool) (sel : List Selection)
    (hloc : aSels env mk cn tn rts sel = true) (hset : setOK env (rflat a env tn sel) = true)
    (hc : penv.class? cn = some { name := cn, bases := ["BaseModel"], fields := (rflat a env tn sel).flatMap (aDecl1 env cn tn tv) }) :
    allFields penv penv.clsFuel cn = (rflat a env tn sel).flatMap (aDecl1 env cn tn tv) ∧
    (((rflat a env tn sel).flatMap (aDecl1 env cn tn tv)).map (·.py)).Nodup := by
  have hpys := (setOK_spec hset).2.1
  have hnd : (((rflat a env tn sel).flatMap (aDecl1 env cn tn tv)).map (·.py)).Nodup := by
    rw [decls_map env cn tn tv (·.py) (pyFieldName env) (fun al n d s => aDecl_py env cn tn tv al n d s) _ (rflat_isField a hloc)]
    exact hpys
  exact ⟨allFields_plain penv ⟨cn, ["BaseModel"], _⟩ hc rfl hbm hnd penv.classes.length, hnd⟩

/-- the `typename__` literal of a variant class -/
theorem variant_literal (env : ResultTypes.Env) (penv : Pyd.Env) (hbm : penv.class? "BaseModel" = none)
    {mk : Nat → Bool} (cn tn : String) (rts tv : List String) (sel : List Selection)
    (hloc : aSels env mk cn tn rts sel = true) (hset : setOK env (rflat true env tn sel) = true) (htvne : tv.isEmpty = false)
    (hc : penv.class? cn = some { name := cn, bases := ["BaseModel"], fields := (rflat true env tn sel).flatMap (aDecl1 env cn tn tv) }) :
    typenameLiteral penv penv.clsFuel cn = some (sortStr tv) := by
  obtain ⟨dirs, sid, sub0, hx, _⟩ := exists_tn hloc
  obtain ⟨_, hnd⟩ := class_fields env penv hbm cn tn rts tv true sel hloc hset hc
  refine typenameLiteral_class penv ⟨cn, ["BaseModel"], _⟩ hc rfl hbm hnd (aDecl env cn tn tv none typenameField dirs sub0)
    (List.mem_flatMap.mpr ⟨_, hx, by simp [aDecl1]⟩) ?_ (sortStr tv) ?_
  · rw [aDecl_py]; exact pyFieldName_tn env
  · simp [aDecl, htvne]

/-! ### one composite position -/

/-- the hypotheses about one composite position (field of named type `n`, classes prefixed `C`, sub-selection `sub`) -/
structure PosOK (env : ResultTypes.Env) (penv : Pyd.Env) (M : List Nat) (C n : String) (sub : List Selection) : Prop where
  cover : ∀ rt' ∈ Exec.runtimeTypes env.schema n, ∃ p ∈ relatedOf env C n sub, rt' ∈ tvOf env (relatedOf env C n sub) p.2
  vars : ∀ p ∈ relatedOf env C n sub,
    (tvOf env (relatedOf env C n sub) p.2).isEmpty = false ∧
    classHead env p.2 ((Exec.runtimeTypes env.schema n).filter (tvOf env (relatedOf env C n sub) p.2).contains)
      (tvOf env (relatedOf env C n sub) p.2) (env.schema.isAbstract n) sub = true ∧
    aSels env M.contains p.1 p.2 ((Exec.runtimeTypes env.schema n).filter (tvOf env (relatedOf env C n sub) p.2).contains) sub = true
  cls : ∀ c ∈ variantClasses env (relatedOf env C n sub) (env.schema.isAbstract n) sub (relatedOf env C n sub),
    penv.class? c.name = some c

theorem variant_rt (env : ResultTypes.Env) (penv : Pyd.Env) (frags : List Fragment) (M : List Nat) (e : Nat)
    (IH : ValSpec env penv frags M e) (C n : String) (sub : List Selection) (hpos : PosOK env penv M C n sub)
    (hfu : agfuel sub ≤ e) (p : String × String) (hp : p ∈ relatedOf env C n sub)
    (rt' : String) (hrt1 : rt' ∈ Exec.runtimeTypes env.schema n) (hrt2 : rt' ∈ tvOf env (relatedOf env C n sub) p.2)
    (v' : J) (hnd : nodupKeys v' = true)
    (hresp : Exec.respOK env.schema frags e rt' (sent (env.schema.isAbstract n) M sub) v' = true)
    (g : Nat) (hg : avneed env p.1 p.2 sub + 4 ≤ g) : RT (validate penv g (.cls p.1) v') v' := by
  obtain ⟨_, h1, h2⟩ := hpos.vars p hp
  refine IH p.1 p.2 rt' _ sub _ (env.schema.isAbstract n) v' ?_ h1 h2 ?_ hfu hresp hnd g hg
  · exact List.mem_filter.mpr ⟨hrt1, by simpa using hrt2⟩
  · intro c hc
    exact hpos.cls c (List.mem_flatMap.mpr ⟨p, hp, hc⟩)

/-- the answer at an abstract position: an object whose `__typename` is a runtime type `rt'`; the FIRST variant whose literal
    contains `rt'` accepts it -/
theorem position_pick (env : ResultTypes.Env) (penv : Pyd.Env) (frags : List Fragment) (M : List Nat) (k : Nat)
    (IH : ValSpec env penv frags M (k + 2)) (C n : String) (sub : List Selection) (hpos : PosOK env penv M C n sub)
    (habs : env.schema.isAbstract n = true)
    (hfu : agfuel sub ≤ k + 2) (B : Nat) (hB : ∀ p ∈ relatedOf env C n sub, avneed env p.1 p.2 sub + 4 ≤ B)
    (v' : J) (hnd : nodupKeys v' = true)
    (hP : ((Exec.runtimeTypes env.schema n).any fun rt' =>
      Exec.respOK env.schema frags (k + 2) rt' (sent true M sub) v') = true)
    (g : Nat) (hg : B ≤ g) :
    ∃ kvs rt' p0, v' = .obj kvs ∧
      (relatedOf env C n sub).find? (fun p => (tvOf env (relatedOf env C n sub) p.2).contains rt') = some p0 ∧
      J.lookup typenameField kvs = some (.str rt') ∧ RT (validate penv g (.cls p0.1) v') v' := by
  obtain ⟨rt', hrt1, hresp⟩ := List.any_eq_true.mp hP
  obtain ⟨kvs, rfl⟩ := respOK_isObj _ _ _ _ _ _ hresp
  obtain ⟨p1, hp1, hrt2⟩ := hpos.cover rt' hrt1
  cases hfind : (relatedOf env C n sub).find? (fun p => (tvOf env (relatedOf env C n sub) p.2).contains rt') with
  | none =>
    have := List.find?_eq_none.mp hfind p1 hp1
    simp [hrt2] at this
  | some p0 =>
    have hp0 : p0 ∈ relatedOf env C n sub := List.mem_of_find?_eq_some hfind
    have hrt0 : rt' ∈ tvOf env (relatedOf env C n sub) p0.2 := by simpa using List.find?_some hfind
    obtain ⟨_, h1, h2⟩ := hpos.vars p0 hp0
    rw [habs] at h1
    have hkeys := (setOK_spec (classHead_spec h1).1).1
    have htag := resp_typename env frags M rt' (List.mem_filter.mpr ⟨hrt1, by simpa using hrt0⟩) sub h2 hkeys k kvs hresp
    have hrt := variant_rt env penv frags M (k + 2) IH C n sub hpos hfu p0 hp0 rt' hrt1 hrt0 (.obj kvs) hnd
      (by rw [habs]; exact hresp) g (Nat.le_trans (hB p0 hp0) hg)
    exact ⟨kvs, rt', p0, rfl, hfind, htag, hrt⟩

/-- the class of a variant, as pydantic sees it -/
theorem variant_class (env : ResultTypes.Env) (penv : Pyd.Env) (M : List Nat) (C n : String) (sub : List Selection)
    (hpos : PosOK env penv M C n sub) (habs : env.schema.isAbstract n = true)
    (p : String × String) (hp : p ∈ relatedOf env C n sub) :
    penv.class? p.1 = some (⟨p.1, ["BaseModel"],
      (rflat true env p.2 sub).flatMap (aDecl1 env p.1 p.2 (tvOf env (relatedOf env C n sub) p.2))⟩ : ClassDecl) :=
  hpos.cls ⟨p.1, ["BaseModel"], (rflat true env p.2 sub).flatMap
    (aDecl1 env p.1 p.2 (tvOf env (relatedOf env C n sub) p.2))⟩
    (List.mem_flatMap.mpr ⟨p, hp, by rw [habs]; simp [aClass]⟩)

theorem tagged_rt (env : ResultTypes.Env) (penv : Pyd.Env) (frags : List Fragment) (M : List Nat) (k : Nat)
    (hbm : penv.class? "BaseModel" = none)
    (IH : ValSpec env penv frags M (k + 2)) (C n : String) (sub : List Selection) (hpos : PosOK env penv M C n sub)
    (habs : env.schema.isAbstract n = true)
    (hfu : agfuel sub ≤ k + 2) (B : Nat) (hB : ∀ p ∈ relatedOf env C n sub, avneed env p.1 p.2 sub + 4 ≤ B)
    (v' : J) (hnd : nodupKeys v' = true)
    (hP : ((Exec.runtimeTypes env.schema n).any fun rt' =>
      Exec.respOK env.schema frags (k + 2) rt' (sent true M sub) v') = true)
    (g : Nat) (hg : B ≤ g) :
    RT (taggedWith penv penv.clsFuel (validate penv g) ((relatedOf env C n sub).map fun p => Ann.cls p.1) v') v' := by
  obtain ⟨kvs, rt', p0, rfl, hfind, htag, hrt⟩ := position_pick env penv frags M k IH C n sub hpos habs hfu B hB v' hnd hP g hg
  have hlits : ∀ p ∈ relatedOf env C n sub,
      typenameLiteral penv penv.clsFuel p.1 = some (sortStr (tvOf env (relatedOf env C n sub) p.2)) := by
    intro p hp
    obtain ⟨hne, hh1, hh2⟩ := hpos.vars p hp
    rw [habs] at hh1
    exact variant_literal env penv hbm p.1 p.2 _ _ sub hh2 (classHead_spec hh1).1 hne (variant_class env penv M C n sub hpos habs p hp)
  rw [taggedWith_variant penv (validate penv g) (fun p => tvOf env (relatedOf env C n sub) p.2) rt' kvs htag p0
    (relatedOf env C n sub) hlits hfind]
  exact hrt

/-! ### smart-mode union (a bare `Union[..]` made `Optional` by `@skip/@include`): the first member that validates -/

theorem mapE_error_of_mem {α β ε : Type} (f : α → Except ε β) : ∀ (xs : List α) (x : α), x ∈ xs →
    (∃ e, f x = .error e) → ∃ e, mapE f xs = .error e
  | [], x, h, _ => by cases h
  | y :: ys, x, h, ⟨e, he⟩ => by
    rcases List.mem_cons.mp h with rfl | h
    · exact ⟨e, by simp [mapE, he]⟩
    · cases hy : f y with
      | error e' => exact ⟨e', by simp [mapE, hy]⟩
      | ok b =>
        obtain ⟨e', he'⟩ := mapE_error_of_mem f ys x h ⟨e, he⟩
        exact ⟨e', by simp [mapE, hy, he']⟩

theorem validate_literal_reject (penv : Pyd.Env) (g : Nat) (vs : List String) (s : String) (h : s ∉ vs) :
    ∃ e, validate penv g (.literal vs) (.str s) = .error e := by
  cases g with
  | zero => exact ⟨_, rfl⟩
  | succ g => exact ⟨.literal, by simp [validate, h]⟩

theorem typenameAlias_ne : (typenameAlias != typenameField) = true := by decide

/-- a variant class whose literal does not contain the runtime type rejects the answer -/
theorem variant_rejects (env : ResultTypes.Env) (penv : Pyd.Env) (hbm : penv.class? "BaseModel" = none)
    {mk : Nat → Bool} (cn tn : String) (rts tv : List String) (sel : List Selection)
    (hloc : aSels env mk cn tn rts sel = true) (hset : setOK env (rflat true env tn sel) = true) (htvne : tv.isEmpty = false)
    (hc : penv.class? cn = some { name := cn, bases := ["BaseModel"], fields := (rflat true env tn sel).flatMap (aDecl1 env cn tn tv) })
    (kvs : List (String × J)) (tag : String) (htag : J.lookup typenameField kvs = some (.str tag)) (hnot : tag ∉ tv)
    (g : Nat) : ∃ e, validate penv g (.cls cn) (.obj kvs) = .error e := by
  cases g with
  | zero => exact ⟨_, rfl⟩
  | succ g =>
    obtain ⟨dirs, sid, sub0, hx, _⟩ := exists_tn hloc
    obtain ⟨hall, _⟩ := class_fields env penv hbm cn tn rts tv true sel hloc hset hc
    have hd : aDecl env cn tn tv none typenameField dirs sub0 ∈ (rflat true env tn sel).flatMap (aDecl1 env cn tn tv) :=
      List.mem_flatMap.mpr ⟨_, hx, by simp [aDecl1]⟩
    have hfw : ∃ e, fieldWith penv penv.clsFuel (validate penv g) kvs (aDecl env cn tn tv none typenameField dirs sub0) = .error e := by
      obtain ⟨e, he⟩ := validate_literal_reject penv g (sortStr tv) tag (fun h => hnot ((mem_sortStr tag tv).mp h))
      refine ⟨e, ?_⟩
      have hal : (aDecl env cn tn tv none typenameField dirs sub0).alias = some typenameField := by
        rw [aDecl_alias]
        simp only [Option.getD_none, pyFieldName_tn, typenameAlias_ne, if_true]
      have hann : (aDecl env cn tn tv none typenameField dirs sub0).ann = .literal (sortStr tv) := by simp [aDecl, htvne]
      have hdi : (aDecl env cn tn tv none typenameField dirs sub0).discriminator = false := by simp [aDecl, htvne]
      unfold fieldWith
      simp only [hal, htag, hdi, Bool.false_eq_true, if_false, hann, he]
    obtain ⟨e, he⟩ := mapE_error_of_mem _ _ _ hd hfw
    refine ⟨e, ?_⟩
    rw [validate_cls_succ]
    unfold modelWith
    simp only [hc, hall, he]

theorem firstOk_variant (f : Ann → Except VErr PV) (lit : String × String → List String) (tag : String)
    (p0 : String × String) (v : PV) (hv : f (.cls p0.1) = .ok v) :
    ∀ (ps : List (String × String)),
      (∀ p ∈ ps, (lit p).contains tag = false → ∃ e, f (.cls p.1) = .error e) →
      ps.find? (fun p => (lit p).contains tag) = some p0 →
      firstOk f VErr.noUnionMember (ps.map fun p => Ann.cls p.1) = .ok v := by
  intro ps
  induction ps with
  | nil => intro _ h; simp at h
  | cons p rest ih =>
    intro h hfind
    rw [List.find?_cons] at hfind
    simp only [List.map_cons, firstOk]
    cases hc : (lit p).contains tag with
    | true =>
      simp only [hc] at hfind
      cases hfind
      simp only [hv]
    | false =>
      simp only [hc] at hfind
      obtain ⟨e, he⟩ := h p List.mem_cons_self hc
      simp only [he]
      exact ih (fun q hq => h q (List.mem_cons_of_mem _ hq)) hfind

theorem validate_union_succ (penv : Pyd.Env) (g : Nat) (as : List Ann) (j : J) :
    validate penv (g + 1) (.union as) j = firstOk (fun a => validate penv g a j) .noUnionMember as := rfl

theorem smart_rt (env : ResultTypes.Env) (penv : Pyd.Env) (frags : List Fragment) (M : List Nat) (k : Nat)
    (hbm : penv.class? "BaseModel" = none)
    (IH : ValSpec env penv frags M (k + 2)) (C n : String) (sub : List Selection) (hpos : PosOK env penv M C n sub)
    (habs : env.schema.isAbstract n = true)
    (hfu : agfuel sub ≤ k + 2) (B : Nat) (hB : ∀ p ∈ relatedOf env C n sub, avneed env p.1 p.2 sub + 4 ≤ B)
    (v' : J) (hnd : nodupKeys v' = true)
    (hP : ((Exec.runtimeTypes env.schema n).any fun rt' =>
      Exec.respOK env.schema frags (k + 2) rt' (sent true M sub) v') = true)
    (g : Nat) (hg : B ≤ g) :
    RT (firstOk (fun a => validate penv g a v') .noUnionMember ((relatedOf env C n sub).map fun p => Ann.cls p.1)) v' := by
  obtain ⟨kvs, rt', p0, rfl, hfind, htag, ⟨v, hv, he⟩⟩ := position_pick env penv frags M k IH C n sub hpos habs hfu B hB v' hnd hP g hg
  refine ⟨v, ?_, he⟩
  refine firstOk_variant (fun a => validate penv g a (.obj kvs)) (fun p => tvOf env (relatedOf env C n sub) p.2) rt' p0 v hv
    (relatedOf env C n sub) ?_ hfind
  intro p hp hnc
  obtain ⟨hne, hh1, hh2⟩ := hpos.vars p hp
  rw [habs] at hh1
  exact variant_rejects env penv hbm p.1 p.2 _ _ sub hh2 (classHead_spec hh1).1 hne (variant_class env penv M C n sub hpos habs p hp)
    kvs rt' htag (by simpa using hnc) g

/-! ### one field -/

theorem wneed_pos (T : TypeRef) : 1 ≤ wneed T := by
  induction T with
  | named n => simp [wneed]
  | list t ih => simp [wneed]
  | nonNull t ih => simpa [wneed] using ih

theorem sent_eq (abs : Bool) (M : List Nat) (sid : Nat) (sub : List Selection) (hmk : M.contains sid = autoTn abs sub)
    (hsub : sub.isEmpty = false) :
    (if M.contains sid && !sub.isEmpty then Marks.typenameSel :: Marks.applySels M sub else Marks.applySels M sub)
      = sent abs M sub := by
  unfold sent
  rw [hmk, hsub]
  cases autoTn abs sub <;> simp

theorem sent_nonempty (abs : Bool) (M : List Nat) (sub : List Selection) (hsub : sub.isEmpty = false) :
    (sent abs M sub).isEmpty = false := by
  unfold sent
  rw [applySels_map]
  cases sub with
  | nil => simp at hsub
  | cons x xs => simp

theorem avneed_variant (env : ResultTypes.Env) (rel : List (String × String)) (sub : List Selection)
    (p : String × String) (hp : p ∈ rel) :
    avneed env p.1 p.2 sub ≤ (rel.map fun p => avneed env p.1 p.2 sub).foldl max 0 :=
  le_foldl_max _ 0 _ (Or.inr (List.mem_map.mpr ⟨p, hp, rfl⟩))

theorem field_rt (env : ResultTypes.Env) (penv : Pyd.Env) (frags : List Fragment) (M : List Nat) (e : Nat)
    (ha : ResultLeaf.EnvAgrees env penv) (hbm : penv.class? "BaseModel" = none) (IH : ValSpec env penv frags M e)
    (cn tn : String) (rts tv : List String)
    (alias : Option String) (name : String) (dirs : List Directive) (sid : Nat) (sub : List Selection) (v : J)
    (hname : (name == typenameField) = false)
    (hl : aSel1 env M.contains cn tn rts (.field alias name dirs sid sub) = true)
    (hcls : ∀ c ∈ aExtra1 env cn tn (.field alias name dirs sid sub), penv.class? c.name = some c)
    (hfu : agfuel1 (.field alias name dirs sid sub) ≤ e + 1)
    (hnd : nodupKeys v = true)
    (hc : Exec.complete (fun n v =>
        if (if M.contains sid && !sub.isEmpty then Marks.typenameSel :: Marks.applySels M sub
            else Marks.applySels M sub).isEmpty then Exec.leafOk env.schema n v
        else (Exec.runtimeTypes env.schema n).any fun rt' =>
          Exec.respOK env.schema frags e rt'
            (if M.contains sid && !sub.isEmpty then Marks.typenameSel :: Marks.applySels M sub
             else Marks.applySels M sub) v)
        (fieldT env tn name) true v = true) :
    ∀ g, avneed1 env cn tn (.field alias name dirs sid sub) ≤ g →
      RT (fieldRec penv penv.clsFuel (validate penv g) (aDecl env cn tn tv alias name dirs sub) v) v := by
  simp only [aSel1, Bool.and_eq_true, hname, Bool.false_eq_true, if_false] at hl
  obtain ⟨hmix, ⟨hfd, _⟩, hcase⟩ := hl
  intro g hg
  simp only [avneed1, hname, Bool.or_false] at hg
  by_cases hsub : sub.isEmpty = true
  · -- leaf
    rw [if_pos hsub] at hcase
    have hsubs : (if M.contains sid && !sub.isEmpty then Marks.typenameSel :: Marks.applySels M sub
            else Marks.applySels M sub).isEmpty = true := by
      have : sub = [] := by simpa using hsub
      subst this
      simp [Marks.applySels]
    simp only [hsubs, if_true] at hc
    simp only [hsub, if_true] at hg
    rw [complete_leaf] at hc
    have hdecl : aDecl env cn tn tv alias name dirs sub =
        { py := pyFieldName env (alias.getD name),
          ann := condAnn (wrapAnn (ResultLeaf.leafBase env (fieldT env tn name).base) true (fieldT env tn name)) dirs,
          alias := if pyFieldName env (alias.getD name) != alias.getD name then some (alias.getD name) else none,
          discriminator := false, defaultNone := hasConditionalDirective dirs } := by
      simp only [aDecl, hname, hsub, if_true, Bool.false_and, Bool.false_eq_true, if_false, aDecl_leaf_ann]
      rw [isUnionAnn_condAnn _ _ (isUnionAnn_wrapAnn _ (by rw [ResultLeaf.leafBase_eq]; exact Or.inl ⟨_, rfl⟩) _ _)]
    rw [hdecl]
    simp only [fieldRec, Bool.false_eq_true, if_false]
    refine condAnn_rt penv _ dirs v (wneed (fieldT env tn name) + 1) ?_ g (by omega)
    intro fuel hfuel
    rw [← leafAnn_eq_wrapAnn]
    obtain ⟨pv, hpv, hd⟩ := ResultLeaf.validate_leaf_dump env penv ha (fieldT env tn name) (isLeafName_spec hcase)
      true v fuel (by rw [need_eq_wneed]; exact hfuel) hc
    exact ⟨pv, hpv, by rw [hd]; exact eqv_refl v hnd⟩
  · -- composite
    have hsub' : sub.isEmpty = false := by simpa using hsub
    rw [if_neg hsub] at hcase
    simp only [Bool.and_eq_true, List.all_eq_true, beq_iff_eq, Bool.not_eq_true', List.any_eq_true] at hcase
    obtain ⟨⟨⟨⟨hkind, hmk⟩, hne⟩, hcov⟩, hvars⟩ := hcase
    simp only [hsub', Bool.false_eq_true, if_false] at hg
    have hfu' : agfuel sub + 2 ≤ e + 1 := by simpa [agfuel1, hsub'] using hfu
    rw [sent_eq (env.schema.isAbstract (subType env tn name)) M sid sub hmk hsub'] at hc
    simp only [sent_nonempty _ M sub hsub', Bool.false_eq_true, if_false] at hc
    rw [aExtra1_field _ _ _ _ _ _ _ _ hsub' hname] at hcls
    have hpos : PosOK env penv M (subClass env cn alias name) (subType env tn name) sub :=
      ⟨fun rt' hrt' => by
          obtain ⟨p, hp, hpc⟩ := hcov rt' hrt'
          exact ⟨p, hp, by simpa using hpc⟩,
        fun p hp => by
          have := hvars p hp
          exact ⟨by simpa using this.1.1, this.1.2, this.2⟩, hcls⟩
    have hagf : agfuel sub ≤ e := by omega
    have hBv : ∀ p ∈ relatedOf env (subClass env cn alias name) (subType env tn name) sub,
        avneed env p.1 p.2 sub + 4 ≤
          ((relatedOf env (subClass env cn alias name) (subType env tn name) sub).map fun p => avneed env p.1 p.2 sub).foldl max 0 + 4 := by
      intro p hp
      have := avneed_variant env _ sub p hp
      omega
    by_cases hmulti : isMulti env (subType env tn name) sub = true
    · -- several variants: `Union[...]`
      have habs := isMulti_abs hmulti
      rw [habs] at hc
      have hge : 2 ≤ agfuel sub := agfuel_ge sub
      obtain ⟨k, rfl⟩ : ∃ k, e = k + 2 := ⟨e - 2, by omega⟩
      have hbase : baseAnnOf env (subClass env cn alias name) (fieldT env tn name).base sub =
          .union ((relatedOf env (subClass env cn alias name) (subType env tn name) sub).map fun p => Ann.cls p.1) := by
        show baseAnnOf env (subClass env cn alias name) (subType env tn name) sub = _
        simp [baseAnnOf, hmulti]
      have hallcls : AllCls ((relatedOf env (subClass env cn alias name) (subType env tn name) sub).map fun p => Ann.cls p.1) := by
        intro a' ha'
        obtain ⟨p, _, rfl⟩ := List.mem_map.mp ha'
        exact ⟨_, rfl⟩
      have htag := fun (v' : J) (hnd' : nodupKeys v' = true) hP g' hg' =>
        tagged_rt env penv frags M k hbm IH (subClass env cn alias name) (subType env tn name) sub hpos habs hagf _ hBv
          v' hnd' hP g' hg'
      by_cases hbare : bareT true (fieldT env tn name) = true
      · -- no wrapper
        rw [complete_bare _ _ _ _ hbare] at hc
        by_cases hcd : hasConditionalDirective dirs = true
        · -- `@skip/@include` wraps the bare union into `Optional[Union[..]]`: smart mode
          have hann : condAnn (annotateTop (wrapAnn (baseAnnOf env (subClass env cn alias name) (fieldT env tn name).base sub)
              true (fieldT env tn name))) dirs =
              .optional (.union ((relatedOf env (subClass env cn alias name) (subType env tn name) sub).map fun p => Ann.cls p.1)) := by
            rw [hbase, wrapAnn_bare _ _ _ hbare, annotateTop_union_cls _ hallcls]
            simp [condAnn, hcd, isNullableAnn]
          simp only [fieldRec, aDecl, hname, hsub', Bool.false_and, Bool.false_eq_true, if_false, hann, isUnionAnn]
          have hsm := fun (v' : J) (hnd' : nodupKeys v' = true) hP g' hg' =>
            smart_rt env penv frags M k hbm IH (subClass env cn alias name) (subType env tn name) sub hpos habs hagf _ hBv
              v' hnd' hP g' hg'
          obtain ⟨g2, rfl⟩ : ∃ g2, g = g2 + 2 := ⟨g - 2, by have := wneed_pos (fieldT env tn name); omega⟩
          rw [ResultLeaf.validate_optional_succ]
          cases v with
          | null => simp at hc
          | bool b => rw [validate_union_succ]; exact hsm _ hnd hc g2 (by omega)
          | num m ex => rw [validate_union_succ]; exact hsm _ hnd hc g2 (by omega)
          | str x => rw [validate_union_succ]; exact hsm _ hnd hc g2 (by omega)
          | arr xs => rw [validate_union_succ]; exact hsm _ hnd hc g2 (by omega)
          | obj kvs => rw [validate_union_succ]; exact hsm _ hnd hc g2 (by omega)
        · -- the field itself is the discriminated union
          have hcond : hasConditionalDirective dirs = false := by simpa using hcd
          have hann : condAnn (annotateTop (wrapAnn (baseAnnOf env (subClass env cn alias name) (fieldT env tn name).base sub)
              true (fieldT env tn name))) dirs =
              .union ((relatedOf env (subClass env cn alias name) (subType env tn name) sub).map fun p => Ann.cls p.1) := by
            rw [hbase, wrapAnn_bare _ _ _ hbare, annotateTop_union_cls _ hallcls]
            simp [condAnn, hcond]
          simp only [fieldRec, aDecl, hname, hsub', Bool.false_and, Bool.false_eq_true, if_false, hann, isUnionAnn, if_true]
          cases v with
          | null => simp at hc
          | bool b => exact htag _ hnd hc g (by omega)
          | num m ex => exact htag _ hnd hc g (by omega)
          | str x => exact htag _ hnd hc g (by omega)
          | arr xs => exact htag _ hnd hc g (by omega)
          | obj kvs => exact htag _ hnd hc g (by omega)
      · have hbare' : bareT true (fieldT env tn name) = false := by simpa using hbare
        have hann : condAnn (annotateTop (wrapAnn (baseAnnOf env (subClass env cn alias name) (fieldT env tn name).base sub)
            true (fieldT env tn name))) dirs =
            condAnn (wrapAnn (.disc (.union ((relatedOf env (subClass env cn alias name) (subType env tn name) sub).map
              fun p => Ann.cls p.1))) true (fieldT env tn name)) dirs := by
          rw [hbase, annotateTop_wrap_union _ _ _ hbare']
        have hdisc : isUnionAnn (condAnn (wrapAnn (.disc (.union ((relatedOf env (subClass env cn alias name)
            (subType env tn name) sub).map fun p => Ann.cls p.1))) true (fieldT env tn name)) dirs) = false :=
          isUnionAnn_condAnn _ _ (isUnionAnn_wrap_nonbare _ _ _ hbare')
        simp only [fieldRec, aDecl, hname, hsub', Bool.false_and, Bool.false_eq_true, if_false, hann, hdisc]
        refine condAnn_rt penv _ dirs v
          (((relatedOf env (subClass env cn alias name) (subType env tn name) sub).map fun p => avneed env p.1 p.2 sub).foldl max 0
            + 4 + 1 + wneed (fieldT env tn name)) ?_ g (by omega)
        intro fuel hfuel
        refine wrap_rt penv _ _ _ (fieldT env tn name) ?_ true v fuel hfuel hnd hc
        intro g' hg' v' hnd' hP
        obtain ⟨g'', rfl⟩ : ∃ g'', g' = g'' + 1 := ⟨g' - 1, by omega⟩
        rw [validate_disc_succ]
        exact htag v' hnd' hP g'' (by omega)
    · -- one variant: a class
      have hmulti' : isMulti env (subType env tn name) sub = false := by simpa using hmulti
      have hrel := relatedOf_single (C := subClass env cn alias name) hmulti'
      have hdecl : aDecl env cn tn tv alias name dirs sub =
          { py := pyFieldName env (alias.getD name),
            ann := condAnn (wrapAnn (.cls (subClass env cn alias name)) true (fieldT env tn name)) dirs,
            alias := if pyFieldName env (alias.getD name) != alias.getD name then some (alias.getD name) else none,
            discriminator := false, defaultNone := hasConditionalDirective dirs } := by
        have hb : baseAnnOf env (subClass env cn alias name) (fieldT env tn name).base sub = .cls (subClass env cn alias name) := by
          show baseAnnOf env (subClass env cn alias name) (subType env tn name) sub = _
          simp [baseAnnOf, hmulti']
        simp only [aDecl, hname, hsub', Bool.false_and, Bool.false_eq_true, if_false, hb, annotateTop_wrapAnn _ (Or.inr ⟨_, rfl⟩)]
        rw [isUnionAnn_condAnn _ _ (isUnionAnn_wrapAnn _ (Or.inr ⟨_, rfl⟩) _ _)]
      rw [hdecl]
      simp only [fieldRec, Bool.false_eq_true, if_false]
      have hp0 : (subClass env cn alias name, subType env tn name) ∈
          relatedOf env (subClass env cn alias name) (subType env tn name) sub := by rw [hrel]; simp
      refine condAnn_rt penv _ dirs v
        (avneed env (subClass env cn alias name) (subType env tn name) sub + 4 + wneed (fieldT env tn name)) ?_ g (by
          have := hBv _ hp0
          simp only at this
          omega)
      intro fuel hfuel
      refine wrap_rt penv (.cls (subClass env cn alias name)) _ _ (fieldT env tn name) ?_ true v fuel hfuel hnd hc
      intro g' hg' v' hnd' hP
      obtain ⟨rt', hrt1, hresp⟩ := List.any_eq_true.mp hP
      obtain ⟨p, hp, hpc⟩ := hpos.cover rt' hrt1
      have hpe : p = (subClass env cn alias name, subType env tn name) := by rw [hrel] at hp; simpa using hp
      subst hpe
      exact variant_rt env penv frags M e IH _ _ sub hpos hagf _ hp0 rt' hrt1 hpc v' hnd' hresp g' hg'

/-- a leaf field -/
theorem leaf_rt (env : ResultTypes.Env) (penv : Pyd.Env) (ha : ResultLeaf.EnvAgrees env penv) (T : TypeRef)
    (hleaf : isLeafName env T.base = true) (dirs : List Directive) (v : J) (hnd : nodupKeys v = true)
    (hc : Exec.conforms env.schema true T v = true) :
    ∀ g, wneed T + 2 ≤ g → RT (validate penv g (condAnn (wrapAnn (ResultLeaf.leafBase env T.base) true T) dirs) v) v := by
  intro g hg
  refine condAnn_rt penv _ dirs v (wneed T + 1) ?_ g (by omega)
  intro fuel hfuel
  rw [← leafAnn_eq_wrapAnn]
  obtain ⟨pv, hpv, hd⟩ := ResultLeaf.validate_leaf_dump env penv ha T (isLeafName_spec hleaf)
    true v fuel (by rw [need_eq_wneed]; exact hfuel) hc
  exact ⟨pv, hpv, by rw [hd]; exact eqv_refl v hnd⟩

theorem conforms_string (env : ResultTypes.Env)
    (h : env.schema.kindOf? "String" = none ∨ env.schema.kindOf? "String" = some .scalar) (s : String) :
    Exec.conforms env.schema true tnT (.str s) = true := by
  unfold tnT
  simp only [Exec.conforms, Exec.leafOk]
  unfold Schema.kindOf? at h
  cases hg : env.schema.get? "String" with
  | none => simp
  | some t =>
    rw [hg] at h
    have hk : t.kind = .scalar := by
      rcases h with h | h
      · simp at h
      · simpa using h
    simp [hk]

/-! ### one class -/

theorem avneed_mem (env : ResultTypes.Env) (cn tn : String) (sel : List Selection) (s : Selection) (h : s ∈ sel) :
    avneed1 env cn tn s ≤ avneed env cn tn sel := by
  induction sel with
  | nil => cases h
  | cons x rest ih =>
    simp only [avneed]
    rcases List.mem_cons.mp h with rfl | h
    · omega
    · have := ih h; omega

theorem avneed_flat (env : ResultTypes.Env) (cn tn : String) (sel : List Selection) (x : Selection)
    (h : x ∈ flatG env tn sel) : avneed1 env cn tn x ≤ avneed env cn tn sel := by
  obtain ⟨s, hs, hxs⟩ := List.mem_flatMap.mp h
  have h1 := avneed_mem env cn tn sel s hs
  cases s with
  | field a n d sid sub =>
    simp only [flat1, List.mem_singleton] at hxs
    subst hxs; exact h1
  | spread n d => simp [flat1] at hxs
  | inline on d sid ss =>
    cases on with
    | none => simp [flat1] at hxs
    | some c =>
      simp only [flat1] at hxs
      by_cases hi : incl env c tn = true
      · simp only [hi, if_true] at hxs
        have := avneed_mem env cn tn ss x hxs
        simp only [avneed1, hi, if_true] at h1
        omega
      · simp [hi] at hxs

theorem mem_rflat_notTn {a : Bool} {env : ResultTypes.Env} {tn : String} {sel : List Selection}
    {alias : Option String} {name : String} {dirs : List Directive} {sid : Nat} {sub : List Selection}
    (h : Selection.field alias name dirs sid sub ∈ rflat a env tn sel) (hn : (name == typenameField) = false) :
    Selection.field alias name dirs sid sub ∈ flatG env tn sel := by
  unfold rflat at h
  rcases List.mem_append.mp h with h1 | h1
  · split at h1
    · have : Selection.field alias name dirs sid sub = Marks.typenameSel := by simpa using h1
      simp only [Marks.typenameSel, Selection.field.injEq] at this
      rw [this.2.1] at hn
      simp at hn
    · cases h1
  · exact h1

theorem class_rt (env : ResultTypes.Env) (penv : Pyd.Env) (frags : List Fragment) (M : List Nat)
    (ha : ResultLeaf.EnvAgrees env penv) (hbm : penv.class? "BaseModel" = none) (e : Nat)
    (IH : ValSpec env penv frags M e) : ValSpec env penv frags M (e + 1) := by
  intro cn tn rt rts sel tv a j hrt hhead hloc hcls hfuel hresp hndj vfuel hvf
  have hge := agfuel_ge sel
  obtain ⟨k, rfl⟩ : ∃ k, e = k + 1 := ⟨e - 1, by omega⟩
  obtain ⟨kvs, rfl⟩ := respOK_isObj _ _ _ _ _ _ hresp
  obtain ⟨g, rfl⟩ : ∃ g, vfuel = g + 1 := ⟨vfuel - 1, by omega⟩
  obtain ⟨hset, htvc⟩ := classHead_spec hhead
  obtain ⟨hkeys, hpys, hpk⟩ := setOK_spec hset
  obtain ⟨hr1, hr2⟩ := resp_facts env frags M rt hrt a sel hloc hkeys k kvs hresp
  have hfl := rflat_spec a hloc
  have hsubkeys : ∀ key ∈ kvs.map (·.1), key ∈ (rflat a env tn sel).map keyOf := by
    intro key hk
    obtain ⟨p, hp, rfl⟩ := List.mem_map.mp hk
    obtain ⟨x, hx, hxk⟩ := hr1 p hp
    rw [← hxk]
    exact List.mem_map.mpr ⟨x, hx, rfl⟩
  obtain ⟨hkn, hkv, hklk⟩ := nodupKvs_spec kvs (by simpa [nodupKeys] using hndj)
  have hc0 : penv.class? cn = some { name := cn, bases := ["BaseModel"], fields := (rflat a env tn sel).flatMap (aDecl1 env cn tn tv) } :=
    hcls ⟨cn, ["BaseModel"], (rflat a env tn sel).flatMap (aDecl1 env cn tn tv)⟩ (by simp [aClass])
  obtain ⟨hall, _⟩ := class_fields env penv hbm cn tn rts tv a sel hloc hset hc0
  obtain ⟨fs, hfs, heq, hkeysD⟩ := mapE_fields (fieldWith penv penv.clsFuel (validate penv g) kvs) kvs
    (fun d => d.alias.getD d.py) ((rflat a env tn sel).flatMap (aDecl1 env cn tn tv)) (by
    intro d hd
    obtain ⟨alias, name, dirs, sid, sub, hx, rfl⟩ := mem_decls hd
    have hkeymem : alias.getD name ∈ (rflat a env tn sel).map keyOf := List.mem_map.mpr ⟨_, hx, rfl⟩
    obtain ⟨_, hlx⟩ := hfl _ hx
    have hfw := fieldWith_gen penv penv.clsFuel (validate penv g) kvs (aDecl env cn tn tv alias name dirs sub)
      (alias.getD name) (by rw [aDecl_alias, aDecl_py]) (by
        rw [aDecl_py]
        rcases hpk _ hkeymem with h | h
        · exact Or.inl h
        · exact Or.inr ((lookup_none_iff _ _).mpr (fun hm => h (hsubkeys _ hm))))
    have hg := hr2 _ hx
    rw [applySel_field] at hg
    simp only [groupOK, collOf, isConditional_eq, Bool.false_or] at hg
    simp only [aDecl_key]
    by_cases hname : (name == typenameField) = true
    · -- `__typename`
      have hlx' := hlx
      simp only [aSel1, hname, if_true, Bool.and_eq_true, Bool.not_eq_true'] at hlx'
      obtain ⟨_, ⟨⟨_, hcond⟩, _⟩⟩ := hlx'
      have hany : (rflat a env tn sel).any isTnSel = true :=
        List.any_eq_true.mpr ⟨_, hx, by simpa [isTnSel] using hname⟩
      obtain ⟨hroot, hrts⟩ := htvc hany
      have hname2 : (name == Tables.typenameFieldName) = true := hname
      cases hlk : J.lookup (alias.getD name) kvs with
      | none =>
        rw [hlk, hcond] at hg
        cases hg
      | some v =>
        right
        rw [hlk] at hg
        simp only [hname2, if_true] at hg
        cases v <;> simp at hg
        have hs := hg.symm
        subst hs
        by_cases hte : tv.isEmpty = true
        · -- root class: `__typename: str`
          obtain ⟨_, hleaf, hkS⟩ := rootTnOK_spec (hroot hte)
          have hsubE : sub.isEmpty = true := by
            have hlx' := hlx
            simp only [aSel1, hname, if_true, Bool.and_eq_true] at hlx'
            exact hlx'.2.2
          have hdecl : aDecl env cn tn tv alias name dirs sub =
              { py := pyFieldName env (alias.getD name),
                ann := condAnn (wrapAnn (ResultLeaf.leafBase env tnT.base) true tnT) dirs,
                alias := if pyFieldName env (alias.getD name) != alias.getD name then some (alias.getD name) else none,
                discriminator := false, defaultNone := hasConditionalDirective dirs } := by
            simp only [aDecl, hname, hte, Bool.not_true, Bool.and_false, Bool.false_eq_true, if_false, if_true, hsubE,
              aDecl_leaf_ann]
            rw [isUnionAnn_condAnn _ _ (isUnionAnn_wrapAnn _ (by rw [ResultLeaf.leafBase_eq]; exact Or.inl ⟨_, rfl⟩) _ _)]
          obtain ⟨pv, hpv, hev⟩ := leaf_rt env penv ha tnT hleaf dirs (.str rt) (by simp [nodupKeys])
            (conforms_string env hkS rt) g (by simp [tnT, wneed]; omega)
          refine ⟨_, pv, _, _, rfl, ?_, aDecl_key env cn tn tv alias name dirs sub, hev⟩
          rw [hfw]
          simp only [hlk, fieldRec, hdecl, Bool.false_eq_true, if_false, hpv]
        · have hte' : tv.isEmpty = false := by simpa using hte
          obtain ⟨g', rfl⟩ : ∃ g', g = g' + 1 := ⟨g - 1, by omega⟩
          refine ⟨_, .str rt, _, _, rfl, ?_, aDecl_key env cn tn tv alias name dirs sub, by simp [dump, J.eqv]⟩
          rw [hfw]
          simp only [hlk, fieldRec, aDecl, hname, hte', Bool.not_false, Bool.and_self, if_true, Bool.false_eq_true, if_false]
          rw [validate_literal_succ penv g' _ rt ((mem_sortStr rt tv).mpr (hrts hte' rt hrt))]
    · have hname' : (name == typenameField) = false := by simpa using hname
      have hname2 : (name == Tables.typenameFieldName) = false := hname'
      have hxf := mem_rflat_notTn hx hname'
      cases hlk : J.lookup (alias.getD name) kvs with
      | none =>
        left
        refine ⟨rfl, ?_⟩
        rw [hlk] at hg
        have hd : (aDecl env cn tn tv alias name dirs sub).defaultNone = true := by
          simp only [aDecl, hname', Bool.false_and, Bool.false_eq_true, if_false]
          exact hg
        rw [hfw]
        simp only [hlk, hd, if_true]
      | some v =>
        right
        rw [hlk] at hg
        simp only [hname2, Bool.false_eq_true, if_false] at hg
        have hlx' := hlx
        simp only [aSel1, hname', Bool.false_eq_true, if_false, Bool.and_eq_true, List.all_eq_true, beq_iff_eq] at hlx'
        obtain ⟨_, ⟨hfd, htypes⟩, _⟩ := hlx'
        obtain ⟨fd, hfd'⟩ := Option.isSome_iff_exists.mp hfd
        have hT : fieldT env tn name = fd.type := by simp [fieldT, hfd']
        have hrtfd := htypes rt hrt
        rw [hfd'] at hrtfd
        cases hfr : env.schema.fieldOf? rt name with
        | none => rw [hfr] at hrtfd; simp at hrtfd
        | some fd2 =>
          rw [hfr] at hrtfd hg
          have hty : fd2.type = fieldT env tn name := by rw [hT]; simpa using hrtfd
          simp only [hty] at hg
          obtain ⟨pv, hpv, hev⟩ := field_rt env penv frags M (k + 1) ha hbm IH cn tn rts tv alias name dirs sid sub v hname' hlx
            (fun c hc => hcls c (by
              simp only [aClass]
              apply List.mem_cons_of_mem
              rw [← rflat_extra env cn tn a sel]
              exact List.mem_flatMap.mpr ⟨_, hx, hc⟩))
            (Nat.le_trans (agfuel_rflat a env tn sel _ hx) hfuel)
            (hkv _ (lookup_mem hlk)) hg g (by have := avneed_flat env cn tn sel _ hxf; omega)
          refine ⟨v, pv, _, _, rfl, ?_, aDecl_key env cn tn tv alias name dirs sub, hev⟩
          rw [hfw]
          simp only [hlk, hpv])
  have hkD : (dumpFields (fs.filterMap id)).map (·.1) = ((rflat a env tn sel).map keyOf).filter (fun k => J.hasKey k kvs) := by
    rw [hkeysD, decls_map env cn tn tv (fun d => d.alias.getD d.py) id (fun al n d s => aDecl_key env cn tn tv al n d s) _
      (rflat_isField a hloc)]
    simp
  refine ⟨.model cn (fs.filterMap id), ?_, ?_⟩
  · rw [validate_cls_succ]
    unfold modelWith
    simp only [hc0, hall, hfs]
  · simp only [dump, J.eqv, Bool.and_eq_true, beq_iff_eq]
    exact ⟨length_of_keys _ kvs ((rflat a env tn sel).map keyOf) hkD hkeys hkn hsubkeys, heq⟩

/-- **part (2), all executor fuels** -/
theorem val_spec (env : ResultTypes.Env) (penv : Pyd.Env) (frags : List Fragment) (M : List Nat)
    (ha : ResultLeaf.EnvAgrees env penv) (hbm : penv.class? "BaseModel" = none) : ∀ ef, ValSpec env penv frags M ef
  | 0 => by
    intro cn tn rt rts sel tv a j _ _ _ _ _ hresp
    simp [Exec.respOK] at hresp
  | ef + 1 => class_rt env penv frags M ha hbm ef (val_spec env penv frags M ha hbm ef)

end Ariadne.C01Abs
