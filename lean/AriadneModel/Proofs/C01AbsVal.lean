/-
  Proofs/C01AbsVal.lean — property C01, "abstract positions" tier (extended by mixin fragments), part (2): the classes `aClass`
  accept every response a conformant executor can give for the selection set AS SENT (with the automatic `__typename` fields),
  and dump it back.

  Structure: CollectFields as a fold of `Exec.addCollected` over the field nodes the executor sees (`sentNodes`: own nodes with
  the marks applied, nodes of the spread mixin fragments as written; `collect_sent`); the field nodes TAGGED with the class that
  declares them (`tnodes`; `none` = the class itself); `resp_facts`: what a conformant answer says about each node — selections of
  the same response key are merged; `class_members`: the fields pydantic collects along the bases (`Pyd.allFields`) are one
  declaration per response key (`DeclFor`: the declaration of the node that owns the key, or the merge Python / pydantic make of the
  leaf declarations sharing it; Proofs/C01Fold.lean); `class_rt`: one class, by cases on the declaration — own composite field
  (variants: `field_rt`), `__typename`, inherited composite field (the mixin tier's `field_rt_mix` with `C01Mix.val_spec`), leaf
  key; `val_spec`: all executor fuels.  `GH`: the global hypotheses on fragment definitions and pydantic environment.
-/
import AriadneModel.Proofs.C01AbsGen
import AriadneModel.Proofs.C01PlainVal
import AriadneModel.Proofs.C01MixVal
import AriadneModel.Proofs.C01Fold

set_option linter.unusedSimpArgs false
set_option linter.unusedVariables false

namespace Ariadne.C01Abs
open Ariadne Ariadne.Gql Ariadne.ResultTypes Ariadne.Util Ariadne.Pyd Ariadne.C01Plain

/-! ### small facts -/

theorem mem_insertSorted (a x : String) : ∀ l : List String, a ∈ insertSorted x l ↔ a = x ∨ a ∈ l
  | [] => by simp [insertSorted]
  | y :: ys => by
    simp only [insertSorted]
    split
    · simp
    · simp only [List.mem_cons, mem_insertSorted a x ys]
      constructor
      · rintro (h | h | h)
        · exact Or.inr (Or.inl h)
        · exact Or.inl h
        · exact Or.inr (Or.inr h)
      · rintro (h | h | h)
        · exact Or.inr (Or.inl h)
        · exact Or.inl h
        · exact Or.inr (Or.inr h)

theorem mem_sortStr (a : String) : ∀ l : List String, a ∈ sortStr l ↔ a ∈ l
  | [] => by simp [sortStr]
  | x :: xs => by
    have ih := mem_sortStr a xs
    simp only [sortStr, List.foldr_cons] at ih ⊢
    rw [mem_insertSorted, ih]
    simp

theorem le_foldl_max : ∀ (l : List Nat) (init x : Nat), (x ≤ init ∨ x ∈ l) → x ≤ l.foldl max init
  | [], init, x, h => by
    rcases h with h | h
    · simpa using h
    · cases h
  | y :: ys, init, x, h => by
    simp only [List.foldl_cons]
    apply le_foldl_max ys (max init y) x
    rcases h with h | h
    · left; omega
    · rcases List.mem_cons.mp h with rfl | h
      · left; omega
      · right; exact h

/-! ### the document as sent -/

/-- the selection set of a class as the executor sees it -/
def sent (a : Bool) (M : List Nat) (sel : List Selection) : List Selection :=
  (if autoTn a sel then [Marks.typenameSel] else []) ++ Marks.applySels M sel

theorem applySels_map (M : List Nat) : ∀ sel : List Selection, Marks.applySels M sel = sel.map (Marks.applySel M)
  | [] => by simp [Marks.applySels]
  | s :: rest => by simp [Marks.applySels, applySels_map M rest]

theorem applySel_field (M : List Nat) (alias : Option String) (name : String) (dirs : List Directive) (sid : Nat)
    (sub : List Selection) :
    Marks.applySel M (.field alias name dirs sid sub) =
      .field alias name dirs sid (if M.contains sid && !sub.isEmpty then Marks.typenameSel :: Marks.applySels M sub
                                  else Marks.applySels M sub) := by
  simp [Marks.applySel]

theorem applySel_inline (M : List Nat) (on : Option String) (dirs : List Directive) (sid : Nat) (ss : List Selection) :
    Marks.applySel M (.inline on dirs sid ss) = .inline on dirs sid (Marks.applySels M ss) := by
  simp [Marks.applySel]

theorem applySel_tn (M : List Nat) : Marks.applySel M Marks.typenameSel = Marks.typenameSel := by
  simp [Marks.typenameSel, Marks.applySel, Marks.applySels]

theorem keyOf_applySel (M : List Nat) (x : Selection) (h : isField x = true) : keyOf (Marks.applySel M x) = keyOf x := by
  cases x <;> simp [isField] at h
  simp [applySel_field, keyOf]

theorem isField_applySel (M : List Nat) (x : Selection) (h : isField x = true) : isField (Marks.applySel M x) = true := by
  cases x <;> simp [isField] at h
  simp [applySel_field, isField]

/-! ### CollectFields with inline fragments -/

def collectStep (S : Schema) (frags : List Fragment) (fuel : Nat) (rt : String) (cond : Bool)
    (acc : List Exec.Collected) (s : Selection) : List Exec.Collected :=
  match s with
  | .field alias name dirs _ sub =>
    Exec.addCollected acc { key := alias.getD name, name := name, subs := sub, conditional := cond || Exec.isConditional dirs }
  | .inline on dirs _ sub =>
    if Exec.applies S on rt then Exec.collect S frags fuel rt (cond || Exec.isConditional dirs) sub acc else acc
  | .spread n dirs =>
    match findFragment? frags n with
    | some f => if Exec.applies S (some f.on) rt then Exec.collect S frags fuel rt (cond || Exec.isConditional dirs) f.sel acc else acc
    | none => acc

theorem collect_succ (S : Schema) (frags : List Fragment) (fuel : Nat) (rt : String) (cond : Bool) (sels : List Selection)
    (acc : List Exec.Collected) :
    Exec.collect S frags (fuel + 1) rt cond sels acc = sels.foldl (collectStep S frags fuel rt cond) acc := by
  rfl

theorem isConditional_eq (dirs : List Directive) : Exec.isConditional dirs = hasConditionalDirective dirs := rfl

/-! the executor's view of the field nodes of a class: own nodes with the marks applied, inherited nodes as written -/

def xs0 (env : ResultTypes.Env) (M : List Nat) : Selection → List Selection
  | .field a n d s sub => [Marks.applySel M (.field a n d s sub)]
  | .spread g _ => (inhOf env (C01Mix.fragDepth env) g).map (·.2)
  | _ => []

def xs1 (env : ResultTypes.Env) (tn : String) (M : List Nat) : Selection → List Selection
  | .inline (some c) _ _ ss => if incl env c tn then ss.flatMap (xs0 env M) else []
  | s => xs0 env M s

/-- the field nodes of a class as the executor sees them -/
def sentNodes (a : Bool) (M : List Nat) (env : ResultTypes.Env) (tn : String) (sel : List Selection) : List Selection :=
  (if autoTn a sel then [Marks.typenameSel] else []) ++ sel.flatMap (xs1 env tn M)

/-- the inherited nodes of a mixin fragment: fields, satisfying the conditions of the mixin tier -/
theorem inhOf_spec (env : ResultTypes.Env) (K : Nat) (hfr : C01Mix.FragsOK env K) {g : String} {f : Fragment}
    (hf : findFragment? env.frags g = some f) :
    (∀ e, K ≤ e → C01Mix.mflat env e (pascal f.name) f.sel = inhOf env (C01Mix.fragDepth env) g) ∧
    (∀ p ∈ inhOf env (C01Mix.fragDepth env) g, isField p.2 = true ∧ C01Mix.mLocal1 env K p.1 f.on p.2 = true ∧
      ((p.1 = pascal f.name ∧ p.2 ∈ f.sel) ∨ (∃ f' ∈ env.frags, p.1 = pascal f'.name ∧ p.2 ∈ f'.sel ∧ f'.on = f.on))) := by
  obtain ⟨_, _, _, hloc, hfull, hfullS⟩ := C01Mix.fragOK_spec (hfr f (C01Mix.find_mem hf).1)
  have hK : C01Mix.mflat env (C01Mix.fragDepth env) (pascal f.name) f.sel = C01Mix.mflat env K (pascal f.name) f.sel :=
    C01Mix.mflat_eq_both env _ _ _ _ hfullS (C01Mix.mfullS_of_mfull env K f.on f.sel hfull)
  have hi : inhOf env (C01Mix.fragDepth env) g = C01Mix.mflat env K (pascal f.name) f.sel := by
    simp only [inhOf, hf]; exact hK
  refine ⟨fun e he => ?_, fun p hp => ?_⟩
  · rw [hi]; exact C01Mix.mflat_eq_of_le env K e f.on _ f.sel hfull he
  · rw [hi] at hp
    exact C01Mix.mflat_mem env K hfr K (pascal f.name) f.on f.sel hloc p.1 p.2 hp

theorem xs0_keys (env : ResultTypes.Env) (M : List Nat) (s : Selection) :
    (xs0 env M s).map keyOf = (c0 env s).map keyOf := by
  cases s with
  | field a n d sid sub => simp [xs0, c0, applySel_field, keyOf]
  | spread g d => rfl
  | inline on d sid ss => rfl

theorem flatMap_map_congr {α β γ : Type} (f g : α → List β) (φ : β → γ) :
    ∀ (l : List α), (∀ a ∈ l, (f a).map φ = (g a).map φ) → (l.flatMap f).map φ = (l.flatMap g).map φ
  | [], _ => rfl
  | a :: l, h => by
    simp only [List.flatMap_cons, List.map_append, h a List.mem_cons_self,
      flatMap_map_congr f g φ l (fun b hb => h b (List.mem_cons_of_mem _ hb))]

theorem xs1_keys (env : ResultTypes.Env) (tn : String) (M : List Nat) (s : Selection) :
    (xs1 env tn M s).map keyOf = (c1 env tn s).map keyOf := by
  cases s with
  | field a n d sid sub => simp only [xs1, c1]; exact xs0_keys env M _
  | spread g d => rfl
  | inline on d sid ss =>
    cases on with
    | none => rfl
    | some c =>
      simp only [xs1, c1]
      split
      · exact flatMap_map_congr _ _ _ ss (fun y _ => xs0_keys env M y)
      · rfl

theorem sentNodes_keys (a : Bool) (M : List Nat) (env : ResultTypes.Env) (tn : String) (sel : List Selection) :
    (sentNodes a M env tn sel).map keyOf = (cnodes a env tn sel).map keyOf := by
  unfold sentNodes cnodes
  rw [List.map_append, List.map_append]
  congr 1
  exact flatMap_map_congr _ _ _ sel (fun y _ => xs1_keys env tn M y)

/-- all nodes the executor sees are fields -/
theorem xs0_isField (env : ResultTypes.Env) (K : Nat) (hfr : C01Mix.FragsOK env K) (M : List Nat) {mk : Nat → Bool}
    {cn tn : String} {rts : List String} {s : Selection} (h : aSel1 env mk cn tn rts s = true) :
    ∀ y ∈ xs0 env M s, isField y = true := by
  intro y hy
  cases s with
  | field a n d sid sub =>
    simp only [xs0, List.mem_singleton] at hy
    subst hy
    exact isField_applySel M _ rfl
  | spread g d =>
    obtain ⟨_, _, _, f, hf, _⟩ := aSel1_spread h
    simp only [xs0] at hy
    obtain ⟨p, hp, rfl⟩ := List.mem_map.mp hy
    exact ((inhOf_spec env K hfr hf).2 p hp).1
  | inline on d sid ss => simp [xs0] at hy

theorem xs1_isField (env : ResultTypes.Env) (K : Nat) (hfr : C01Mix.FragsOK env K) (M : List Nat) {mk : Nat → Bool}
    {cn tn : String} {rts : List String} {s : Selection} (h : aSel1 env mk cn tn rts s = true) :
    ∀ y ∈ xs1 env tn M s, isField y = true := by
  intro y hy
  cases s with
  | field a n d sid sub => exact xs0_isField env K hfr M h y hy
  | spread g d => exact xs0_isField env K hfr M h y hy
  | inline on d sid ss =>
    cases on with
    | none => simp [aSel1] at h
    | some c =>
      simp only [xs1] at hy
      by_cases hi : incl env c tn = true
      · simp only [hi, if_true] at hy
        obtain ⟨z, hz, hyz⟩ := List.mem_flatMap.mp hy
        exact xs0_isField env K hfr M ((aSels_iff _ _ _ _ _ _).mp (aSel1_inline h hi).2.2 z hz) y hyz
      · simp [hi] at hy

/-! CollectFields as a fold of `Exec.addCollected` over the field nodes (selections of the same response key are merged) -/

theorem foldl_flatMap_append {α β : Type} (f : β → α → β) (l1 l2 : List α) (acc : β) :
    (l1 ++ l2).foldl f acc = l2.foldl f (l1.foldl f acc) := List.foldl_append

/-- CollectFields on the selection set of a mixin fragment -/
theorem collect_mix_fold (env : ResultTypes.Env) (K : Nat) (hfr : C01Mix.FragsOK env K) (rt : String) :
    ∀ (e : Nat) (cn : String) (sels : List Selection) (acc : List Exec.Collected),
      C01Mix.mLocal env K cn rt sels = true →
      Exec.collect env.schema env.frags e rt false sels acc =
        ((C01Mix.mflat env e cn sels).map (fun p => collOf p.2)).foldl Exec.addCollected acc
  | 0, cn, sels, acc, _ => by simp [Exec.collect, C01Mix.mflat]
  | e + 1, cn, sels, acc, hloc => by
    rw [collect_succ]
    revert acc hloc
    induction sels with
    | nil => intro acc _; simp [C01Mix.mflat_succ]
    | cons x rest ih =>
      intro acc hloc
      have hlocs := (C01Mix.mLocal_iff env K cn rt (x :: rest)).mp hloc
      have hx := hlocs x List.mem_cons_self
      have hlocr : C01Mix.mLocal env K cn rt rest = true :=
        (C01Mix.mLocal_iff env K cn rt rest).mpr (fun y hy => hlocs y (List.mem_cons_of_mem _ hy))
      have hsplit : C01Mix.mflat env (e + 1) cn (x :: rest) = C01Mix.mflat env (e + 1) cn [x] ++ C01Mix.mflat env (e + 1) cn rest := by
        simp [C01Mix.mflat_succ]
      rw [List.foldl_cons, hsplit, List.map_append, List.foldl_append, ← ih _ hlocr]
      congr 1
      cases x with
      | inline on d sid ss => simp [C01Mix.mLocal1] at hx
      | field alias name dirs sid sub =>
        simp [C01Mix.mflat_succ, collectStep, collOf]
      | spread n d =>
        obtain ⟨hcond, f, hf, hon⟩ := C01Mix.mLocal1_spread hx
        obtain ⟨_, _, _, hlocf, _⟩ := C01Mix.fragOK_spec (hfr f (C01Mix.find_mem hf).1)
        have happ : Exec.applies env.schema (some f.on) rt = true := by simp [Exec.applies, hon]
        have hc0 : Exec.isConditional d = false := hcond
        rw [hon] at hlocf
        have h1 : C01Mix.mflat env (e + 1) cn [.spread n d] = C01Mix.mflat env e (pascal f.name) f.sel := by
          simp [C01Mix.mflat_succ, hf]
        simp only [collectStep, hf, happ, if_true, hc0, Bool.or_false, h1]
        exact collect_mix_fold env K hfr rt e (pascal f.name) f.sel acc hlocf

/-- CollectFields on the field nodes of one mixin fragment -/
theorem collect_frag (env : ResultTypes.Env) (K : Nat) (hfr : C01Mix.FragsOK env K) (e : Nat) (hKe : K ≤ e)
    {g : String} {f : Fragment} (hf : findFragment? env.frags g = some f) (acc : List Exec.Collected) :
    Exec.collect env.schema env.frags e f.on false f.sel acc =
      (((inhOf env (C01Mix.fragDepth env) g).map (·.2)).map collOf).foldl Exec.addCollected acc := by
  obtain ⟨_, _, _, hloc, _, _⟩ := C01Mix.fragOK_spec (hfr f (C01Mix.find_mem hf).1)
  have he := (inhOf_spec env K hfr hf).1 e hKe
  rw [collect_mix_fold env K hfr f.on e (pascal f.name) f.sel acc hloc, he, List.map_map]
  rfl

/-- CollectFields on fields and mixin spreads (a whole plain set, or the content of a merged inline fragment) -/
theorem collect_content (env : ResultTypes.Env) (K : Nat) (hfr : C01Mix.FragsOK env K) (e : Nat) (hKe : K ≤ e) (rt : String)
    (M : List Nat) {cn tn : String} {rts : List String} (hrt : rt ∈ rts) :
    ∀ (ss : List Selection) (acc : List Exec.Collected),
      (∀ y ∈ ss, aSel1 env M.contains cn tn rts y = true) → (∀ y ∈ ss, isField y = true ∨ isSpreadSel y = true) →
      Exec.collect env.schema env.frags (e + 1) rt false (ss.map (Marks.applySel M)) acc =
        ((ss.flatMap (xs0 env M)).map collOf).foldl Exec.addCollected acc := by
  intro ss
  induction ss with
  | nil => intro acc _ _; simp [collect_succ]
  | cons x rest ih =>
    intro acc h hshape
    have hx := h x List.mem_cons_self
    have hr := fun y hy => h y (List.mem_cons_of_mem _ hy)
    have hsr := fun y hy => hshape y (List.mem_cons_of_mem _ hy)
    rw [collect_succ, List.map_cons, List.foldl_cons, ← collect_succ, ih _ hr hsr,
      List.flatMap_cons, List.map_append, List.foldl_append]
    congr 1
    cases x with
    | inline on d sid ss' => have := hshape _ List.mem_cons_self; simp [isField, isSpreadSel] at this
    | field alias name dirs sid sub =>
      rw [applySel_field]
      simp [collectStep, xs0, applySel_field, collOf]
    | spread g d =>
      obtain ⟨hcond, _, hall, f, hf, hon⟩ := aSel1_spread hx
      have hrt' : rt = tn := hall rt hrt
      have happ : Exec.applies env.schema (some f.on) rt = true := by simp [Exec.applies, hon, hrt']
      have e1 : Marks.applySel M (.spread g d) = .spread g d := by simp [Marks.applySel]
      rw [e1]
      simp only [collectStep, hf, happ, if_true, isConditional_eq, hcond, Bool.or_false, xs0]
      have := collect_frag env K hfr e hKe hf acc
      rw [hon, ← hrt'] at this
      exact this

theorem collect_abs (env : ResultTypes.Env) (K : Nat) (hfr : C01Mix.FragsOK env K) (k : Nat) (hKk : K ≤ k) (rt : String)
    (M : List Nat) {cn tn : String} {rts : List String} (hrt : rt ∈ rts) :
    ∀ (sels : List Selection) (acc : List Exec.Collected),
      (∀ x ∈ sels, aSel1 env M.contains cn tn rts x = true) →
      Exec.collect env.schema env.frags (k + 2) rt false (sels.map (Marks.applySel M)) acc =
        ((sels.flatMap (xs1 env tn M)).map collOf).foldl Exec.addCollected acc := by
  intro sels
  induction sels with
  | nil => intro acc _; simp [collect_succ]
  | cons x rest ih =>
    intro acc h
    have hx := h x List.mem_cons_self
    have hr := fun y hy => h y (List.mem_cons_of_mem _ hy)
    have hsplit : Exec.collect env.schema env.frags (k + 2) rt false ((x :: rest).map (Marks.applySel M)) acc =
        Exec.collect env.schema env.frags (k + 2) rt false (rest.map (Marks.applySel M))
          (Exec.collect env.schema env.frags (k + 2) rt false [Marks.applySel M x] acc) := by
      simp [collect_succ]
    rw [hsplit, ih _ hr, List.flatMap_cons, List.map_append, List.foldl_append]
    congr 1
    cases x with
    | field alias name dirs sid sub =>
      have := collect_content env K hfr (k + 1) (by omega) rt M hrt [.field alias name dirs sid sub] acc
        (fun y hy => by simp at hy; subst hy; exact hx) (fun y hy => by simp at hy; subst hy; exact Or.inl rfl)
      simpa [xs1] using this
    | spread g d =>
      have := collect_content env K hfr (k + 1) (by omega) rt M hrt [.spread g d] acc
        (fun y hy => by simp at hy; subst hy; exact hx) (fun y hy => by simp at hy; subst hy; exact Or.inr rfl)
      simpa [xs1] using this
    | inline on d sid ss =>
      cases on with
      | none => simp [aSel1] at hx
      | some c =>
        have hx' := hx
        simp only [aSel1, Bool.and_eq_true, Bool.not_eq_true', List.all_eq_true, beq_iff_eq] at hx'
        obtain ⟨⟨hcond, hagree⟩, _⟩ := hx'
        have happ : Exec.applies env.schema (some c) rt = incl env c tn := (hagree rt hrt).symm
        rw [collect_succ, List.foldl_cons, List.foldl_nil, applySel_inline]
        simp only [collectStep, happ, isConditional_eq, hcond, Bool.or_false]
        by_cases hi : incl env c tn = true
        · obtain ⟨_, hcont, hss⟩ := aSel1_inline hx hi
          simp only [hi, if_true, xs1]
          rw [applySels_map]
          exact collect_content env K hfr k hKk rt M hrt ss acc ((aSels_iff _ _ _ _ _ _).mp hss)
            (fun y hy => by
              rcases hcont y hy with h1 | h1
              · exact Or.inl (notTnField_isField h1)
              · exact Or.inr h1.1)
        · have hi' : incl env c tn = false := by simpa using hi
          simp [hi', xs1]

theorem rflat_isField {env : ResultTypes.Env} {mk : Nat → Bool} {cn tn : String} {rts : List String} {sel : List Selection} (a : Bool)
    (h : aSels env mk cn tn rts sel = true) : ∀ x ∈ rflat a env tn sel, isField x = true :=
  fun x hx => (rflat_spec a h x hx).1

theorem sentNodes_isField (env : ResultTypes.Env) (K : Nat) (hfr : C01Mix.FragsOK env K) (M : List Nat) {mk : Nat → Bool}
    {cn tn : String} {rts : List String} {sel : List Selection} (a : Bool)
    (h : aSels env mk cn tn rts sel = true) : ∀ y ∈ sentNodes a M env tn sel, isField y = true := by
  intro y hy
  unfold sentNodes at hy
  rcases List.mem_append.mp hy with h1 | h1
  · split at h1
    · have : y = Marks.typenameSel := by simpa using h1
      subst this; rfl
    · cases h1
  · obtain ⟨z, hz, hyz⟩ := List.mem_flatMap.mp h1
    exact xs1_isField env K hfr M ((aSels_iff _ _ _ _ _ _).mp h z hz) y hyz

theorem collect_sent (env : ResultTypes.Env) (K : Nat) (hfr : C01Mix.FragsOK env K) (k : Nat) (hKk : K ≤ k) (rt : String)
    (M : List Nat) {cn tn : String}
    {rts : List String} (hrt : rt ∈ rts) (a : Bool) (sel : List Selection)
    (hloc : aSels env M.contains cn tn rts sel = true) :
    Exec.collect env.schema env.frags (k + 2) rt false (sent a M sel) [] =
      ((sentNodes a M env tn sel).map collOf).foldl Exec.addCollected [] := by
  have hlocs := (aSels_iff env M.contains cn tn rts sel).mp hloc
  unfold sent sentNodes
  rw [applySels_map]
  by_cases hauto : autoTn a sel = true
  · simp only [hauto, if_true, List.singleton_append, List.map_cons, List.foldl_cons]
    rw [collect_succ, List.foldl_cons, ← collect_succ]
    have hstep : collectStep env.schema env.frags (k + 1) rt false [] Marks.typenameSel = Exec.addCollected [] (collOf Marks.typenameSel) := by
      simp only [Marks.typenameSel, collectStep]
      rfl
    rw [hstep, collect_abs env K hfr k hKk rt M hrt sel _ hlocs]
  · have hauto' : autoTn a sel = false := by simpa using hauto
    simp only [hauto', Bool.false_eq_true, if_false, List.nil_append]
    rw [collect_abs env K hfr k hKk rt M hrt sel [] hlocs]

/-! ### the field nodes of a class, tagged with where they are declared (`none` = in the class itself) -/

abbrev TNode := Option String × Selection

def t0 (env : ResultTypes.Env) : Selection → List TNode
  | .field a n d s sub => [(none, .field a n d s sub)]
  | .spread g _ => (inhOf env (C01Mix.fragDepth env) g).map (fun p => (some p.1, p.2))
  | _ => []

def t1 (env : ResultTypes.Env) (tn : String) : Selection → List TNode
  | .inline (some c) _ _ ss => if incl env c tn then ss.flatMap (t0 env) else []
  | s => t0 env s

def tnodes (a : Bool) (env : ResultTypes.Env) (tn : String) (sel : List Selection) : List TNode :=
  (if autoTn a sel then [(none, Marks.typenameSel)] else []) ++ sel.flatMap (t1 env tn)

/-- the node as the executor sees it -/
def sentOf (M : List Nat) (t : TNode) : Selection :=
  match t.1 with
  | none => Marks.applySel M t.2
  | some _ => t.2

theorem flatMap_map' {α β γ : Type} (f : α → List β) (φ : β → γ) : ∀ (l : List α),
    (l.flatMap f).map φ = l.flatMap (fun a => (f a).map φ)
  | [] => rfl
  | a :: l => by simp only [List.flatMap_cons, List.map_append, flatMap_map' f φ l]

theorem t0_snd (env : ResultTypes.Env) (s : Selection) : (t0 env s).map (·.2) = c0 env s := by
  cases s with
  | field a n d sid sub => rfl
  | spread g d => simp [t0, c0, List.map_map, Function.comp_def]
  | inline on d sid ss => rfl

theorem t1_snd (env : ResultTypes.Env) (tn : String) (s : Selection) : (t1 env tn s).map (·.2) = c1 env tn s := by
  cases s with
  | field a n d sid sub => simp only [t1, c1]; exact t0_snd env _
  | spread g d => simp only [t1, c1]; exact t0_snd env _
  | inline on d sid ss =>
    cases on with
    | none => rfl
    | some c =>
      simp only [t1, c1]
      split
      · rw [flatMap_map']
        exact C01Mix.flatMap_congr' ss _ _ (fun y _ => t0_snd env y)
      · rfl

theorem tnodes_snd (a : Bool) (env : ResultTypes.Env) (tn : String) (sel : List Selection) :
    (tnodes a env tn sel).map (·.2) = cnodes a env tn sel := by
  unfold tnodes cnodes
  rw [List.map_append, flatMap_map']
  congr 1
  · split <;> rfl
  · exact C01Mix.flatMap_congr' sel _ _ (fun y _ => t1_snd env tn y)

theorem t0_sent (env : ResultTypes.Env) (M : List Nat) (s : Selection) : (t0 env s).map (sentOf M) = xs0 env M s := by
  cases s with
  | field a n d sid sub => rfl
  | spread g d => simp [t0, xs0, List.map_map, Function.comp_def, sentOf]
  | inline on d sid ss => rfl

theorem t1_sent (env : ResultTypes.Env) (tn : String) (M : List Nat) (s : Selection) :
    (t1 env tn s).map (sentOf M) = xs1 env tn M s := by
  cases s with
  | field a n d sid sub => simp only [t1, xs1]; exact t0_sent env M _
  | spread g d => simp only [t1, xs1]; exact t0_sent env M _
  | inline on d sid ss =>
    cases on with
    | none => rfl
    | some c =>
      simp only [t1, xs1]
      split
      · rw [flatMap_map']
        exact C01Mix.flatMap_congr' ss _ _ (fun y _ => t0_sent env M y)
      · rfl

theorem tnodes_sent (a : Bool) (M : List Nat) (env : ResultTypes.Env) (tn : String) (sel : List Selection) :
    (tnodes a env tn sel).map (sentOf M) = sentNodes a M env tn sel := by
  unfold tnodes sentNodes
  rw [List.map_append, flatMap_map']
  congr 1
  · split
    · simp [sentOf, applySel_tn]
    · rfl
  · exact C01Mix.flatMap_congr' sel _ _ (fun y _ => t1_sent env tn M y)

/-- the fragment `g` is spread in the class on `tn`: directly, or inside a merged inline fragment -/
def occurs (env : ResultTypes.Env) (tn : String) (sel : List Selection) (g : String) : Prop :=
  ∃ s ∈ sel, (∃ d, s = Selection.spread g d) ∨
    (∃ c d sid ss d', s = Selection.inline (some c) d sid ss ∧ incl env c tn = true ∧ Selection.spread g d' ∈ ss)

theorem mem_setAdd (a x : String) (acc : List String) : a ∈ setAdd acc x ↔ a ∈ acc ∨ a = x := by
  have := C01Mix.mem_setAdd_foldl a [x] acc
  simpa using this

theorem mem_gSpreads_fold (env : ResultTypes.Env) (tn g : String) : ∀ (sel : List Selection) (acc : List String),
    g ∈ sel.foldl (gSpreadStep env tn) acc ↔ g ∈ acc ∨ occurs env tn sel g
  | [], acc => by simp [occurs]
  | s :: rest, acc => by
    rw [List.foldl_cons, mem_gSpreads_fold env tn g rest]
    have hocc : occurs env tn (s :: rest) g ↔
        ((∃ d, s = Selection.spread g d) ∨
          (∃ c d sid ss d', s = Selection.inline (some c) d sid ss ∧ incl env c tn = true ∧ Selection.spread g d' ∈ ss)) ∨
        occurs env tn rest g := by
      unfold occurs
      constructor
      · rintro ⟨x, hx, h⟩
        rcases List.mem_cons.mp hx with rfl | hx
        · exact Or.inl h
        · exact Or.inr ⟨x, hx, h⟩
      · rintro (h | ⟨x, hx, h⟩)
        · exact ⟨s, List.mem_cons_self, h⟩
        · exact ⟨x, List.mem_cons_of_mem _ hx, h⟩
    rw [hocc]
    cases s with
    | field a n d sid sub =>
      simp only [gSpreadStep]
      constructor
      · rintro (h | h)
        · exact Or.inl h
        · exact Or.inr (Or.inr h)
      · rintro (h | (h | h) | h)
        · exact Or.inl h
        · obtain ⟨d, hd⟩ := h; cases hd
        · obtain ⟨_, _, _, _, _, hd, _⟩ := h; cases hd
        · exact Or.inr h
    | spread g' d =>
      simp only [gSpreadStep, mem_setAdd]
      constructor
      · rintro ((h | h) | h)
        · exact Or.inl h
        · exact Or.inr (Or.inl (Or.inl ⟨d, by rw [h]⟩))
        · exact Or.inr (Or.inr h)
      · rintro (h | (h | h) | h)
        · exact Or.inl (Or.inl h)
        · obtain ⟨d', hd⟩ := h
          simp only [Selection.spread.injEq] at hd
          exact Or.inl (Or.inr hd.1.symm)
        · obtain ⟨_, _, _, _, _, hd, _⟩ := h; cases hd
        · exact Or.inr h
    | inline on d sid ss =>
      cases on with
      | none =>
        simp only [gSpreadStep]
        constructor
        · rintro (h | h)
          · exact Or.inl h
          · exact Or.inr (Or.inr h)
        · rintro (h | (h | h) | h)
          · exact Or.inl h
          · obtain ⟨d, hd⟩ := h; cases hd
          · obtain ⟨_, _, _, _, _, hd, _⟩ := h; cases hd
          · exact Or.inr h
      | some c =>
        simp only [gSpreadStep]
        by_cases hi : incl env c tn = true
        · simp only [hi, if_true]
          have hu : g ∈ setUnion acc (C01Mix.spreadNames ss) ↔ g ∈ acc ∨ ∃ d', Selection.spread g d' ∈ ss := by
            unfold setUnion
            rw [C01Mix.mem_setAdd_foldl, C01Mix.mem_spreadNames]
          rw [hu]
          constructor
          · rintro ((h | ⟨d', h⟩) | h)
            · exact Or.inl h
            · exact Or.inr (Or.inl (Or.inr ⟨c, d, sid, ss, d', rfl, hi, h⟩))
            · exact Or.inr (Or.inr h)
          · rintro (h | (h | h) | h)
            · exact Or.inl (Or.inl h)
            · obtain ⟨d', hd⟩ := h; cases hd
            · obtain ⟨c', d1, sid1, ss1, d', hd, _, hm⟩ := h
              simp only [Selection.inline.injEq] at hd
              obtain ⟨_, _, _, rfl⟩ := hd
              exact Or.inl (Or.inr ⟨d', hm⟩)
            · exact Or.inr h
        · have hi' : incl env c tn = false := by simpa using hi
          simp only [hi', Bool.false_eq_true, if_false]
          constructor
          · rintro (h | h)
            · exact Or.inl h
            · exact Or.inr (Or.inr h)
          · rintro (h | (h | h) | h)
            · exact Or.inl h
            · obtain ⟨d', hd⟩ := h; cases hd
            · obtain ⟨c', d1, sid1, ss1, d', hd, hic, _⟩ := h
              simp only [Selection.inline.injEq, Option.some.injEq] at hd
              obtain ⟨rfl, _, _, _⟩ := hd
              rw [hi'] at hic; cases hic
            · exact Or.inr h

theorem mem_gSpreads (env : ResultTypes.Env) (tn : String) (sel : List Selection) (g : String) :
    g ∈ gSpreads env tn sel ↔ occurs env tn sel g := by
  unfold gSpreads
  rw [mem_gSpreads_fold]
  simp

/-- what an occurrence of a spread means in the tier -/
theorem occurs_spec {env : ResultTypes.Env} {mk : Nat → Bool} {cn tn : String} {rts : List String} {sel : List Selection}
    (hloc : aSels env mk cn tn rts sel = true) {g : String} (h : occurs env tn sel g) :
    env.schema.kindOf? tn = some .object ∧ (∀ rt ∈ rts, rt = tn) ∧ ∃ f, findFragment? env.frags g = some f ∧ f.on = tn := by
  obtain ⟨s, hs, h1 | h1⟩ := h
  · obtain ⟨d, rfl⟩ := h1
    obtain ⟨_, h2, h3, h4⟩ := aSel1_spread ((aSels_iff _ _ _ _ _ _).mp hloc _ hs)
    exact ⟨h2, h3, h4⟩
  · obtain ⟨c, d, sid, ss, d', rfl, hi, hm⟩ := h1
    obtain ⟨_, _, hss⟩ := aSel1_inline ((aSels_iff _ _ _ _ _ _).mp hloc _ hs) hi
    obtain ⟨_, h2, h3, h4⟩ := aSel1_spread ((aSels_iff _ _ _ _ _ _).mp hss _ hm)
    exact ⟨h2, h3, h4⟩

/-- own nodes -/
theorem tnodes_own (a : Bool) (env : ResultTypes.Env) (tn : String) (sel : List Selection) (x : Selection) :
    (none, x) ∈ tnodes a env tn sel ↔ x ∈ rflat a env tn sel := by
  unfold tnodes rflat flatG
  simp only [List.mem_append, List.mem_flatMap]
  constructor
  · rintro (h | ⟨s, hs, hx⟩)
    · left
      split at h
      · rename_i ha
        have : x = Marks.typenameSel := by simpa using h
        subst this; simp [ha]
      · cases h
    · right
      refine ⟨s, hs, ?_⟩
      cases s with
      | field a' n d sid sub => simpa [t1, t0, flat1] using hx
      | spread g d => simp [t1, t0] at hx
      | inline on d sid ss =>
        cases on with
        | none => simp [t1, t0] at hx
        | some c =>
          simp only [t1, flat1] at hx ⊢
          split at hx
          · rename_i hi
            simp only [hi, if_true]
            obtain ⟨z, hz, hxz⟩ := List.mem_flatMap.mp hx
            cases z with
            | field a' n d' sid' sub =>
              have : x = .field a' n d' sid' sub := by simpa [t0] using hxz
              subst this
              exact List.mem_filter.mpr ⟨hz, rfl⟩
            | spread g d' => simp [t0] at hxz
            | inline on' d' sid' ss' => simp [t0] at hxz
          · cases hx
  · rintro (h | ⟨s, hs, hx⟩)
    · left
      split at h
      · rename_i ha
        have : x = Marks.typenameSel := by simpa using h
        subst this; simp [ha]
      · cases h
    · right
      refine ⟨s, hs, ?_⟩
      cases s with
      | field a' n d sid sub => simpa [t1, t0, flat1] using hx
      | spread g d => simp [flat1] at hx
      | inline on d sid ss =>
        cases on with
        | none => simp [flat1] at hx
        | some c =>
          simp only [t1, flat1] at hx ⊢
          split at hx
          · rename_i hi
            simp only [hi, if_true]
            obtain ⟨hz, hf⟩ := List.mem_filter.mp hx
            refine List.mem_flatMap.mpr ⟨x, hz, ?_⟩
            cases x <;> simp [isField] at hf
            simp [t0]
          · cases hx

/-- inherited nodes -/
theorem tnodes_inh (a : Bool) (env : ResultTypes.Env) (tn : String) (sel : List Selection) (o : String) (y : Selection) :
    (some o, y) ∈ tnodes a env tn sel ↔ ∃ g, occurs env tn sel g ∧ (o, y) ∈ inhOf env (C01Mix.fragDepth env) g := by
  unfold tnodes
  simp only [List.mem_append, List.mem_flatMap]
  have h0 : ∀ z : Selection, (some o, y) ∈ t0 env z ↔ ∃ g d, z = Selection.spread g d ∧ (o, y) ∈ inhOf env (C01Mix.fragDepth env) g := by
    intro z
    cases z with
    | field a' n d sid sub => simp [t0]
    | inline on d sid ss => simp [t0]
    | spread g d =>
      simp only [t0, List.mem_map, Selection.spread.injEq]
      constructor
      · rintro ⟨p, hp, he⟩
        simp only [Prod.mk.injEq, Option.some.injEq] at he
        refine ⟨g, d, ⟨rfl, rfl⟩, ?_⟩
        rw [← he.1, ← he.2]; exact hp
      · rintro ⟨g', d', ⟨rfl, rfl⟩, hp⟩
        exact ⟨(o, y), hp, rfl⟩
  constructor
  · rintro (h | ⟨s, hs, hx⟩)
    · split at h
      · simp at h
      · cases h
    · cases s with
      | field a' n d sid sub => simp [t1, t0] at hx
      | spread g d =>
        have := (h0 (.spread g d)).mp (by simpa [t1] using hx)
        obtain ⟨g', d', he, hp⟩ := this
        simp only [Selection.spread.injEq] at he
        obtain ⟨rfl, rfl⟩ := he
        exact ⟨g, ⟨_, hs, Or.inl ⟨d, rfl⟩⟩, hp⟩
      | inline on d sid ss =>
        cases on with
        | none => simp [t1, t0] at hx
        | some c =>
          simp only [t1] at hx
          split at hx
          · rename_i hi
            obtain ⟨z, hz, hxz⟩ := List.mem_flatMap.mp hx
            obtain ⟨g, d', rfl, hp⟩ := (h0 z).mp hxz
            exact ⟨g, ⟨_, hs, Or.inr ⟨c, d, sid, ss, d', rfl, hi, hz⟩⟩, hp⟩
          · cases hx
  · rintro ⟨g, ⟨s, hs, h1 | h1⟩, hp⟩
    · obtain ⟨d, rfl⟩ := h1
      right
      refine ⟨_, hs, ?_⟩
      simp only [t1]
      exact (h0 _).mpr ⟨g, d, rfl, hp⟩
    · obtain ⟨c, d, sid, ss, d', rfl, hi, hm⟩ := h1
      right
      refine ⟨_, hs, ?_⟩
      simp only [t1, hi, if_true]
      exact List.mem_flatMap.mpr ⟨_, hm, (h0 _).mpr ⟨g, d', rfl, hp⟩⟩

/-! ### annotations at a multi-variant position -/

theorem pyFieldName_tn (env : ResultTypes.Env) : pyFieldName env typenameField = typenameAlias := by
  simp [pyFieldName, Names.pyName, Names.typenameField, typenameField, Names.typenameAlias, typenameAlias]

def AllCls (as : List Ann) : Prop := ∀ a ∈ as, ∃ n, a = Ann.cls n

theorem annotateNested_wrap_union (as : List Ann) (T : TypeRef) : ∀ b : Bool,
    annotateNested (wrapAnn (.union as) b T) = wrapAnn (.disc (.union as)) b T := by
  induction T with
  | named n => intro b; simp only [wrapAnn, annotateNested_optionalIf, annotateNested]
  | list t ih => intro b; simp only [wrapAnn, annotateNested_optionalIf, annotateNested, ih]
  | nonNull t ih => intro b; simp only [wrapAnn, ih]

theorem annotateTop_wrap_union (as : List Ann) (T : TypeRef) : ∀ b : Bool, bareT b T = false →
    annotateTop (wrapAnn (.union as) b T) = wrapAnn (.disc (.union as)) b T := by
  induction T with
  | named n =>
    intro b hb
    have : b = true := by simpa [bareT] using hb
    subst this
    simp [wrapAnn, optionalIf, annotateTop, annotateNested]
  | list t ih =>
    intro b _
    cases b <;> simp [wrapAnn, optionalIf, annotateTop, annotateNested, annotateNested_wrap_union]
  | nonNull t ih => intro b hb; simp only [wrapAnn]; exact ih false (by simpa [bareT] using hb)

theorem wrapAnn_bare (base : Ann) (T : TypeRef) : ∀ b : Bool, bareT b T = true → wrapAnn base b T = base := by
  induction T with
  | named n =>
    intro b hb
    have : b = false := by simpa [bareT] using hb
    subst this
    simp [wrapAnn, optionalIf]
  | list t ih => intro b hb; simp [bareT] at hb
  | nonNull t ih => intro b hb; simp only [wrapAnn]; exact ih false (by simpa [bareT] using hb)

theorem annotateTop_union_cls (as : List Ann) (h : AllCls as) : annotateTop (.union as) = .union as := by
  simp only [annotateTop]
  congr 1
  have : ∀ a ∈ as, annotateNested a = a := by
    intro a ha
    obtain ⟨n, rfl⟩ := h a ha
    rfl
  conv => rhs; rw [← List.map_id as]
  exact List.map_congr_left this

theorem isUnionAnn_wrap_nonbare (base : Ann) (T : TypeRef) : ∀ b : Bool, bareT b T = false →
    isUnionAnn (wrapAnn base b T) = false := by
  induction T with
  | named n =>
    intro b hb
    have : b = true := by simpa [bareT] using hb
    subst this
    simp [wrapAnn, optionalIf, isUnionAnn]
  | list t ih => intro b _; cases b <;> simp [wrapAnn, optionalIf, isUnionAnn]
  | nonNull t ih => intro b hb; simp only [wrapAnn]; exact ih false (by simpa [bareT] using hb)

theorem complete_bare (P : String → J → Bool) (T : TypeRef) : ∀ (b : Bool) (v : J), bareT b T = true →
    Exec.complete P T b v = (match v with | .null => false | _ => P T.base v) := by
  induction T with
  | named n =>
    intro b v hb
    have : b = false := by simpa [bareT] using hb
    subst this
    unfold Exec.complete
    cases v <;> rfl
  | list t ih => intro b v hb; simp [bareT] at hb
  | nonNull t ih =>
    intro b v hb
    unfold Exec.complete
    simp only [TypeRef.base]
    exact ih false v (by simpa [bareT] using hb)

/-! ### pydantic: discriminated fields, typename literals -/

/-- what `fieldWith` does with the value found for a field -/
def fieldRec (penv : Pyd.Env) (cf : Nat) (rec : Ann → J → Except VErr PV) (d : FieldDecl) (v : J) : Except VErr PV :=
  if d.discriminator then
    (match d.ann with
     | .union as => taggedWith penv cf rec as v
     | a => rec a v)
  else rec d.ann v

theorem fieldWith_gen (penv : Pyd.Env) (cf : Nat) (rec : Ann → J → Except VErr PV) (kvs : List (String × J))
    (d : FieldDecl) (key : String)
    (halias : d.alias = if d.py != key then some key else none)
    (hpy : d.py = key ∨ J.lookup d.py kvs = none) :
    fieldWith penv cf rec kvs d = (match J.lookup key kvs with
      | some v => (match fieldRec penv cf rec d v with
        | .ok pv => .ok (some (d.py, d.alias, pv))
        | .error e => .error e)
      | none => if d.defaultNone then .ok none else .error (.missing (d.alias.getD d.py))) := by
  unfold fieldWith fieldRec
  by_cases hk : d.py = key
  · have ha : d.alias = none := by rw [halias]; simp [hk]
    subst hk
    simp only [ha]
    cases J.lookup d.py kvs <;> rfl
  · have ha : d.alias = some key := by rw [halias]; simp [hk]
    have hn : J.lookup d.py kvs = none := by
      rcases hpy with h | h
      · exact absurd h hk
      · exact h
    simp only [ha]
    cases hl : J.lookup key kvs with
    | none => simp only [hn]
    | some v => rfl

theorem eq_of_nodup_py : ∀ (fs : List FieldDecl), (fs.map (·.py)).Nodup → ∀ d ∈ fs, ∀ e ∈ fs, e.py = d.py → e = d
  | [], _, d, hd, _, _, _ => by cases hd
  | x :: xs, h, d, hd, e, he, hpy => by
    simp only [List.map_cons, List.nodup_cons] at h
    rcases List.mem_cons.mp hd with hd1 | hd1 <;> rcases List.mem_cons.mp he with he1 | he1
    · rw [hd1, he1]
    · subst hd1
      exact absurd (List.mem_map.mpr ⟨e, he1, hpy⟩) h.1
    · subst he1
      exact absurd (List.mem_map.mpr ⟨d, hd1, hpy.symm⟩) h.1
    · exact eq_of_nodup_py xs h.2 d hd1 e he1 hpy

theorem typenameLiteral_class (penv : Pyd.Env) (c : ClassDecl) (hc : penv.class? c.name = some c)
    (hb : c.bases = ["BaseModel"]) (hbm : penv.class? "BaseModel" = none) (hnd : (c.fields.map (·.py)).Nodup)
    (d : FieldDecl) (hd : d ∈ c.fields) (hpy : d.py = typenameAlias) (vs : List String) (hann : d.ann = .literal vs) :
    typenameLiteral penv penv.clsFuel c.name = some vs := by
  unfold typenameLiteral
  rw [show penv.clsFuel = penv.classes.length + 1 from rfl, allFields_plain penv c hc hb hbm hnd]
  cases hf : c.fields.find? (·.py == typenameAlias) with
  | none =>
    have := List.find?_eq_none.mp hf d hd
    simp [hpy] at this
  | some e =>
    have he := List.mem_of_find?_eq_some hf
    have hpe : e.py = typenameAlias := by simpa using List.find?_some hf
    have := eq_of_nodup_py c.fields hnd d hd e he (by rw [hpe, hpy])
    subst this
    simp [hann]

theorem validate_disc_succ (penv : Pyd.Env) (g : Nat) (as : List Ann) (j : J) :
    validate penv (g + 1) (.disc (.union as)) j = taggedWith penv penv.clsFuel (validate penv g) as j := rfl

theorem validate_literal_succ (penv : Pyd.Env) (g : Nat) (vs : List String) (s : String) (h : s ∈ vs) :
    validate penv (g + 1) (.literal vs) (.str s) = .ok (.str s) := by
  have : vs.contains s = true := by simpa using h
  simp [validate, h]

/-! ### the decls of a class -/

theorem aDecl_py (env : ResultTypes.Env) (cn tn : String) (tv : List String) (alias : Option String) (name : String)
    (dirs : List Directive) (sub : List Selection) :
    (aDecl env cn tn tv alias name dirs sub).py = pyFieldName env (alias.getD name) := by
  unfold aDecl; split <;> rfl

theorem aDecl_alias (env : ResultTypes.Env) (cn tn : String) (tv : List String) (alias : Option String) (name : String)
    (dirs : List Directive) (sub : List Selection) :
    (aDecl env cn tn tv alias name dirs sub).alias =
      if pyFieldName env (alias.getD name) != alias.getD name then some (alias.getD name) else none := by
  unfold aDecl; split <;> rfl

theorem aDecl_key (env : ResultTypes.Env) (cn tn : String) (tv : List String) (alias : Option String) (name : String)
    (dirs : List Directive) (sub : List Selection) :
    (aDecl env cn tn tv alias name dirs sub).alias.getD (aDecl env cn tn tv alias name dirs sub).py = alias.getD name := by
  rw [aDecl_alias, aDecl_py]
  by_cases h : pyFieldName env (alias.getD name) = alias.getD name
  · simp [h]
  · simp [h]

theorem mem_decls {env : ResultTypes.Env} {cn tn : String} {tv : List String} {fl : List Selection} {d : FieldDecl}
    (h : d ∈ fl.flatMap (aDecl1 env cn tn tv)) :
    ∃ alias name dirs sid sub, Selection.field alias name dirs sid sub ∈ fl ∧ d = aDecl env cn tn tv alias name dirs sub := by
  obtain ⟨x, hx, hd⟩ := List.mem_flatMap.mp h
  cases x with
  | field alias name dirs sid sub =>
    simp only [aDecl1, List.mem_singleton] at hd
    exact ⟨alias, name, dirs, sid, sub, hx, hd⟩
  | spread n d' => simp [aDecl1] at hd
  | inline on d' sid sub => simp [aDecl1] at hd

theorem decls_map (env : ResultTypes.Env) (cn tn : String) (tv : List String) {β : Type} (φ : FieldDecl → β) (ψ : String → β)
    (hφ : ∀ alias name dirs sub, φ (aDecl env cn tn tv alias name dirs sub) = ψ (alias.getD name)) :
    ∀ (fl : List Selection), (∀ x ∈ fl, isField x = true) →
      (fl.flatMap (aDecl1 env cn tn tv)).map φ = (fl.map keyOf).map ψ := by
  intro fl
  induction fl with
  | nil => intro _; simp
  | cons x rest ih =>
    intro h
    have hx := h x List.mem_cons_self
    cases x with
    | field alias name dirs sid sub =>
      simp only [List.flatMap_cons, aDecl1, List.singleton_append, List.map_cons, hφ, keyOf]
      rw [ih (fun y hy => h y (List.mem_cons_of_mem _ hy))]
    | spread n d => simp [isField] at hx
    | inline on d sid sub => simp [isField] at hx

/-! ### what a conformant answer looks like, per field node -/

/-- the judgement `Exec.respOK` passes on one collected group (sub-answers judged with fuel `e`) -/
def groupOK (S : Schema) (frags : List Fragment) (e : Nat) (rt : String) (kvs : List (String × J)) (g : Exec.Collected) : Bool :=
  match J.lookup g.key kvs with
  | none => g.conditional
  | some v =>
    if g.name == Tables.typenameFieldName then (match v with | .str s => s == rt | _ => false)
    else match S.fieldOf? rt g.name with
      | none => false
      | some fd =>
        Exec.complete (fun n v =>
          if g.subs.isEmpty then Exec.leafOk S n v
          else (Exec.runtimeTypes S n).any fun rt' => Exec.respOK S frags e rt' g.subs v) fd.type true v

theorem respOK_groups (S : Schema) (frags : List Fragment) (e : Nat) (rt : String) (sels : List Selection)
    (kvs : List (String × J)) :
    Exec.respOK S frags (e + 1) rt sels (.obj kvs) =
      (kvs.all (fun (k, _) => (Exec.collect S frags (e + 1) rt false sels []).any (·.key == k))
      && (Exec.collect S frags (e + 1) rt false sels []).all (groupOK S frags e rt kvs)) := by
  rfl

/-- the collected entry of one field node, as the executor sees it -/
theorem cs_facts (M : List Nat) (t : TNode) (h : isField t.2 = true) :
    (collOf (sentOf M t)).key = keyOf t.2 ∧ (collOf (sentOf M t)).name = nameOf t.2 ∧
    (collOf (sentOf M t)).conditional = hasConditionalDirective (dirsOf t.2) ∧
    ((subOf t.2).isEmpty = true → (collOf (sentOf M t)).subs = []) := by
  obtain ⟨o, y⟩ := t
  cases y with
  | spread g d => simp [isField] at h
  | inline on d sid ss => simp [isField] at h
  | field al n d sid sub =>
    cases o with
    | some o' =>
      refine ⟨rfl, rfl, by simp [sentOf, collOf, isConditional_eq, dirsOf], fun he => ?_⟩
      have : sub = [] := by simpa [subOf] using he
      subst this; rfl
    | none =>
      refine ⟨by simp [sentOf, applySel_field, collOf, keyOf], by simp [sentOf, applySel_field, collOf, nameOf],
        by simp [sentOf, applySel_field, collOf, dirsOf, isConditional_eq], fun he => ?_⟩
      have : sub = [] := by simpa [subOf] using he
      subst this
      simp [sentOf, applySel_field, collOf, Marks.applySels]

theorem eq_singleton_of_length_le_one {α : Type} {l : List α} {x : α} (h : l.length ≤ 1) (hx : x ∈ l) : l = [x] := by
  cases l with
  | nil => cases hx
  | cons y ys =>
    cases ys with
    | nil => simp at hx; rw [hx]
    | cons z zs => simp at h

/-- what `dupOK` says -/
theorem dupOK_spec {env : ResultTypes.Env} {l : List Selection} (h : dupOK env l = true) :
    (∀ x ∈ l, l.filter (fun y => keyOf y == keyOf x) = [x] ∨
      (∀ y ∈ l, keyOf y = keyOf x → plainLeaf y = true ∧ nameOf y = nameOf x)) ∧
    (∀ x ∈ l, ∀ y ∈ l, pyFieldName env (keyOf x) = pyFieldName env (keyOf y) → keyOf x = keyOf y) ∧
    (∀ x ∈ l, pyFieldName env (keyOf x) = keyOf x ∨ pyFieldName env (keyOf x) ∉ l.map keyOf) := by
  simp only [dupOK, Bool.and_eq_true, List.all_eq_true, Bool.or_eq_true, decide_eq_true_eq, nodupB_iff, beq_iff_eq,
    Bool.not_eq_true', List.contains_eq_mem, decide_eq_false_iff_not] at h
  obtain ⟨⟨h1, h2⟩, h3⟩ := h
  refine ⟨fun x hx => ?_, fun x hx y hy e => ?_, fun x hx => ?_⟩
  · rcases h1 x hx with h | h
    · exact Or.inl (eq_singleton_of_length_le_one h (List.mem_filter.mpr ⟨hx, by simp⟩))
    · right
      intro y hy hk
      have := h y (List.mem_filter.mpr ⟨hy, by simp [hk]⟩)
      simpa using this
  · have hx' : keyOf x ∈ dedup (l.map keyOf) := (C01Fold.mem_dedup _ _).mpr (List.mem_map.mpr ⟨x, hx, rfl⟩)
    have hy' : keyOf y ∈ dedup (l.map keyOf) := (C01Fold.mem_dedup _ _).mpr (List.mem_map.mpr ⟨y, hy, rfl⟩)
    exact C01Mix.inj_of_nodup_map (pyFieldName env) _ h2 _ hx' _ hy' e
  · have hx' : keyOf x ∈ dedup (l.map keyOf) := (C01Fold.mem_dedup _ _).mpr (List.mem_map.mpr ⟨x, hx, rfl⟩)
    rcases h3 _ hx' with h | h
    · exact Or.inl h
    · exact Or.inr (fun hm => h ((C01Fold.mem_dedup _ _).mpr hm))

theorem filter_map_comm {α β : Type} (f : α → β) (p : β → Bool) : ∀ l : List α, (l.map f).filter p = (l.filter (p ∘ f)).map f
  | [] => rfl
  | x :: xs => by
    simp only [List.map_cons, List.filter_cons, Function.comp]
    split
    · simp [filter_map_comm f p xs]
    · exact filter_map_comm f p xs

/-- **what a conformant answer says about the field nodes of a class** (selections of the same response key are merged by the
    executor: `g` is the merged entry of the node's key) -/
theorem resp_facts (env : ResultTypes.Env) (K : Nat) (hfr : C01Mix.FragsOK env K) (M : List Nat) {cn tn : String}
    {rts : List String}
    (rt : String) (hrt : rt ∈ rts) (a : Bool) (sel : List Selection)
    (hloc : aSels env M.contains cn tn rts sel = true) (hdup : dupOK env (cnodes a env tn sel) = true)
    (k : Nat) (hKk : K ≤ k) (kvs : List (String × J))
    (hresp : Exec.respOK env.schema env.frags (k + 2) rt (sent a M sel) (.obj kvs) = true) :
    (∀ p ∈ kvs, ∃ t ∈ tnodes a env tn sel, keyOf t.2 = p.1) ∧
    (∀ t ∈ tnodes a env tn sel, ∃ g : Exec.Collected, g.key = keyOf t.2 ∧ g.name = nameOf t.2 ∧
      groupOK env.schema env.frags (k + 1) rt kvs g = true ∧
      (g.conditional = true → ∀ t' ∈ tnodes a env tn sel, keyOf t'.2 = keyOf t.2 →
        hasConditionalDirective (dirsOf t'.2) = true) ∧
      (plainLeaf t.2 = true → g.subs = []) ∧
      (plainLeaf t.2 = false → g = collOf (sentOf M t))) := by
  rw [respOK_groups, collect_sent env K hfr k hKk rt M hrt a sel hloc, ← tnodes_sent] at hresp
  simp only [Bool.and_eq_true] at hresp
  obtain ⟨hr1, hr2⟩ := hresp
  have hTf := fun t ht => sentNodes_isField env K hfr M a hloc (sentOf M t)
    (by rw [← tnodes_sent]; exact List.mem_map.mpr ⟨t, ht, rfl⟩)
  have hTf' : ∀ t ∈ tnodes a env tn sel, isField t.2 = true := by
    intro t ht
    have := hTf t ht
    obtain ⟨o, y⟩ := t
    cases o with
    | some o' => exact this
    | none =>
      cases y with
      | field a' n d sid sub => rfl
      | spread g d => simp [sentOf, Marks.applySel, isField] at this
      | inline on d sid ss => simp [sentOf, Marks.applySel, isField] at this
  obtain ⟨hD1, _, _⟩ := dupOK_spec hdup
  obtain ⟨_, hF2, hF3⟩ := C01Fold.fold_spec (((tnodes a env tn sel).map (sentOf M)).map collOf) [] (by simp)
  -- the entries of one key
  have hfilter : ∀ κ : String, ((((tnodes a env tn sel).map (sentOf M)).map collOf).filter (·.key == κ)) =
      (((tnodes a env tn sel).filter (fun t => keyOf t.2 == κ)).map (sentOf M)).map collOf := by
    intro κ
    rw [List.map_map, filter_map_comm, List.map_map]
    congr 1
    apply List.filter_congr
    intro t ht
    simp only [Function.comp, (cs_facts M t (hTf' t ht)).1]
  constructor
  · intro p hp
    have h1 := List.all_eq_true.mp hr1 p hp
    obtain ⟨g, hg, he⟩ := List.any_eq_true.mp h1
    rcases hF2 g hg with ⟨a', ha', _⟩ | ⟨_, c, rest, hf, hge⟩
    · cases ha'
    · have hc : c ∈ (((tnodes a env tn sel).map (sentOf M)).map collOf).filter (·.key == g.key) := by rw [hf]; exact List.mem_cons_self
      rw [hfilter] at hc
      obtain ⟨y, hy, rfl⟩ := List.mem_map.mp hc
      obtain ⟨t, ht, rfl⟩ := List.mem_map.mp hy
      obtain ⟨htm, htk⟩ := List.mem_filter.mp ht
      exact ⟨t, htm, by rw [(by simpa using htk : keyOf t.2 = g.key)]; simpa using he⟩
  · intro t ht
    obtain ⟨g, hg, hgk⟩ := hF3 (collOf (sentOf M t)) (by
      simp only [List.nil_append]
      exact List.mem_map.mpr ⟨_, List.mem_map.mpr ⟨t, ht, rfl⟩, rfl⟩)
    rw [(cs_facts M t (hTf' t ht)).1] at hgk
    rcases hF2 g hg with ⟨a', ha', _⟩ | ⟨_, c, rest, hf, hge⟩
    · cases ha'
    · rw [hgk, hfilter] at hf
      obtain ⟨hmk, hmn, hms, hmc⟩ := C01Fold.mergeC_key c rest
      -- all entries of the key
      have hall : ∀ x ∈ c :: rest, ∃ t' ∈ tnodes a env tn sel, keyOf t'.2 = keyOf t.2 ∧ x = collOf (sentOf M t') := by
        intro x hx
        rw [← hf] at hx
        obtain ⟨y, hy, rfl⟩ := List.mem_map.mp hx
        obtain ⟨t', ht', rfl⟩ := List.mem_map.mp hy
        obtain ⟨h1, h2⟩ := List.mem_filter.mp ht'
        exact ⟨t', h1, by simpa using h2, rfl⟩
      have hmem : ∀ t' ∈ tnodes a env tn sel, keyOf t'.2 = keyOf t.2 → collOf (sentOf M t') ∈ c :: rest := by
        intro t' ht' hk'
        rw [← hf]
        exact List.mem_map.mpr ⟨_, List.mem_map.mpr ⟨t', List.mem_filter.mpr ⟨ht', by simp [hk']⟩, rfl⟩, rfl⟩
      have htc : t.2 ∈ cnodes a env tn sel := by rw [← tnodes_snd]; exact List.mem_map.mpr ⟨t, ht, rfl⟩
      have hD := hD1 t.2 htc
      refine ⟨g, hgk, ?_, List.all_eq_true.mp hr2 g hg, ?_, ?_, ?_⟩
      · -- the name
        rw [hge, hmn]
        obtain ⟨t', ht', hk', rfl⟩ := hall c List.mem_cons_self
        rw [(cs_facts M t' (hTf' t' ht')).2.1]
        rcases hD with hu | hs
        · -- unique: `t'` is `t`
          have h1 : t'.2 ∈ (cnodes a env tn sel).filter (fun y => keyOf y == keyOf t.2) :=
            List.mem_filter.mpr ⟨by rw [← tnodes_snd]; exact List.mem_map.mpr ⟨t', ht', rfl⟩, by simp [hk']⟩
          rw [hu] at h1
          rw [List.mem_singleton.mp h1]
        · exact (hs t'.2 (by rw [← tnodes_snd]; exact List.mem_map.mpr ⟨t', ht', rfl⟩) hk').2
      · -- conditional
        intro hc t' ht' hk'
        rw [hge, hmc, Bool.and_eq_true, List.all_eq_true] at hc
        have := hmem t' ht' hk'
        rw [← (cs_facts M t' (hTf' t' ht')).2.2.1]
        rcases List.mem_cons.mp this with h1 | h1
        · rw [h1]; exact hc.1
        · exact hc.2 _ h1
      · -- a shared key: leaves only
        intro hpl
        rw [hge, hms]
        have hsubs : ∀ x ∈ c :: rest, x.subs = [] := by
          intro x hx
          obtain ⟨t', ht', hk', rfl⟩ := hall x hx
          have hpl' : plainLeaf t'.2 = true := by
            rcases hD with hu | hs
            · have h1 : t'.2 ∈ (cnodes a env tn sel).filter (fun y => keyOf y == keyOf t.2) :=
                List.mem_filter.mpr ⟨by rw [← tnodes_snd]; exact List.mem_map.mpr ⟨t', ht', rfl⟩, by simp [hk']⟩
              rw [hu] at h1
              rw [List.mem_singleton.mp h1]; exact hpl
            · exact (hs t'.2 (by rw [← tnodes_snd]; exact List.mem_map.mpr ⟨t', ht', rfl⟩) hk').1
          simp only [plainLeaf, Bool.and_eq_true] at hpl'
          exact (cs_facts M t' (hTf' t' ht')).2.2.2 hpl'.1
        rw [hsubs c List.mem_cons_self]
        simp only [List.nil_append, List.flatMap_eq_nil_iff]
        exact fun x hx => hsubs x (List.mem_cons_of_mem _ hx)
      · -- a composite field or `__typename` owns its key
        intro hpl
        rcases hD with hu | hs
        · have hfil : (tnodes a env tn sel).filter (fun t' => keyOf t'.2 == keyOf t.2) = [t] := by
            have hlen : ((tnodes a env tn sel).filter (fun t' => keyOf t'.2 == keyOf t.2)).length ≤ 1 := by
              have : ((tnodes a env tn sel).filter (fun t' => keyOf t'.2 == keyOf t.2)).map (·.2) =
                  (cnodes a env tn sel).filter (fun y => keyOf y == keyOf t.2) := by
                rw [← tnodes_snd, filter_map_comm]; rfl
              have hl := congrArg List.length this
              rw [hu] at hl
              simp at hl
              omega
            exact eq_singleton_of_length_le_one hlen (List.mem_filter.mpr ⟨ht, by simp⟩)
          rw [hfil] at hf
          simp only [List.map_cons, List.map_nil, List.cons.injEq] at hf
          rw [hge, ← hf.1, ← hf.2]
          simp [C01Fold.mergeC]
        · have := (hs t.2 htc rfl).1
          rw [hpl] at this; cases this

/-- a class generated with `add_typename` has a `__typename` field node (automatic or explicit), un-aliased and
    unconditional -/
theorem exists_tn {env : ResultTypes.Env} {mk : Nat → Bool} {cn tn : String} {rts : List String} {sel : List Selection}
    (h : aSels env mk cn tn rts sel = true) :
    ∃ dirs sid sub0, Selection.field none typenameField dirs sid sub0 ∈ rflat true env tn sel ∧
      hasConditionalDirective dirs = false := by
  by_cases hauto : autoTn true sel = true
  · refine ⟨[], 0, [], ?_, rfl⟩
    simp [rflat, hauto, Marks.typenameSel]
  · have hexp : explicitTn sel = true := by simpa [autoTn] using hauto
    obtain ⟨x, hx, hxt⟩ := List.any_eq_true.mp hexp
    have hx1 := (aSels_iff _ _ _ _ _ _).mp h x hx
    cases x with
    | spread n d => simp [isTnSel] at hxt
    | inline on d sid ss => simp [isTnSel] at hxt
    | field alias name dirs sid sub0 =>
      have hn : name = typenameField := by simpa [isTnSel] using hxt
      subst hn
      simp only [aSel1, beq_self_eq_true, if_true, Bool.and_eq_true, Option.isNone_iff_eq_none, Bool.not_eq_true'] at hx1
      obtain ⟨_, ⟨⟨ha, hc⟩, _⟩⟩ := hx1
      subst ha
      refine ⟨dirs, sid, sub0, ?_, hc⟩
      unfold rflat
      apply List.mem_append_right
      exact List.mem_flatMap.mpr ⟨_, hx, by simp [flat1]⟩

/-- the answer carries the runtime type under `__typename` -/
theorem resp_typename (env : ResultTypes.Env) (K : Nat) (hfr : C01Mix.FragsOK env K) (M : List Nat) {cn tn : String}
    {rts : List String}
    (rt : String) (hrt : rt ∈ rts) (sel : List Selection)
    (hloc : aSels env M.contains cn tn rts sel = true) (hkeys : dupOK env (cnodes true env tn sel) = true)
    (k : Nat) (hKk : K ≤ k) (kvs : List (String × J))
    (hresp : Exec.respOK env.schema env.frags (k + 2) rt (sent true M sel) (.obj kvs) = true) :
    J.lookup typenameField kvs = some (.str rt) := by
  obtain ⟨dirs, sid, sub0, hx, hc⟩ := exists_tn hloc
  obtain ⟨g, _, _, hgok, _, _, hgu⟩ := (resp_facts env K hfr M rt hrt true sel hloc hkeys k hKk kvs hresp).2 _
    ((tnodes_own _ _ _ _ _).mpr hx)
  have this := hgok
  rw [hgu (by simp [plainLeaf, nameOf])] at this
  simp only [sentOf] at this
  rw [applySel_field] at this
  simp only [groupOK, collOf, Option.getD_none, isConditional_eq, hc, Bool.or_false] at this
  cases hl : J.lookup typenameField kvs with
  | none => rw [hl] at this; cases this
  | some v =>
    rw [hl] at this
    have hn : (typenameField == Tables.typenameFieldName) = true := by simp [typenameField]
    simp only [hn, if_true] at this
    cases v <;> simp at this
    subst this
    rfl

/-! ### variants -/

theorem isMulti_abs {env : ResultTypes.Env} {n : String} {sub : List Selection} (h : isMulti env n sub = true) :
    env.schema.isAbstract n = true := by
  unfold isMulti at h
  unfold Schema.isAbstract
  cases hk : env.schema.kindOf? n with
  | none => simp [hk] at h
  | some k => cases k <;> simp_all

theorem relatedOf_single {env : ResultTypes.Env} {C n : String} {sub : List Selection} (h : isMulti env n sub = false) :
    relatedOf env C n sub = [(C, n)] := by
  unfold isMulti at h
  unfold relatedOf
  cases hk : env.schema.kindOf? n with
  | none => rfl
  | some k => cases k <;> simp_all

theorem contains_sortStr (l : List String) (x : String) : (sortStr l).contains x = l.contains x := by
  cases h : l.contains x with
  | true =>
    have : x ∈ l := by simpa using h
    simpa using (mem_sortStr x l).mpr this
  | false =>
    have : x ∉ l := by simpa using h
    simpa using fun hm => this ((mem_sortStr x l).mp hm)

theorem taggedWith_variant (penv : Pyd.Env) (rec : Ann → J → Except VErr PV) (lit : String × String → List String)
    (tag : String) (kvs : List (String × J)) (htag : J.lookup typenameField kvs = some (.str tag)) (p0 : String × String) :
    ∀ (ps : List (String × String)),
      (∀ p ∈ ps, typenameLiteral penv penv.clsFuel p.1 = some (sortStr (lit p))) →
      ps.find? (fun p => (lit p).contains tag) = some p0 →
      taggedWith penv penv.clsFuel rec (ps.map fun p => Ann.cls p.1) (.obj kvs) = rec (.cls p0.1) (.obj kvs) := by
  intro ps
  induction ps with
  | nil => intro _ h; simp at h
  | cons p rest ih =>
    intro h hfind
    have hp := h p List.mem_cons_self
    have ih' := ih (fun q hq => h q (List.mem_cons_of_mem _ hq))
    simp only [taggedWith, htag, List.map_cons, List.find?_cons, annClassName?, hp, Option.getD_some, contains_sortStr] at ih' ⊢
    rw [List.find?_cons] at hfind
    cases hc : (lit p).contains tag with
    | true =>
      simp only [hc] at hfind ⊢
      cases hfind
      rfl
    | false =>
      simp only [hc] at hfind ⊢
      exact ih' hfind

/-- the global hypotheses of part (2): the fragment definitions are fit to be mixins (`FragsOK`), the pydantic environment
    agrees with the schema on enums, has no class `BaseModel`, knows the classes of every fragment definition, its inheritance
    fuel covers the nesting of fragments, and `F` bounds the validation fuel any fragment class needs -/
structure GH (env : ResultTypes.Env) (penv : Pyd.Env) (K F : Nat) : Prop where
  hfr : C01Mix.FragsOK env K
  ha : ResultLeaf.EnvAgrees env penv
  hbm : penv.class? "BaseModel" = none
  frags : C01Mix.FragsIn env penv
  depth : C01Mix.fragDepth env + 1 ≤ penv.clsFuel
  need : ∀ f ∈ env.frags, C01Mix.mneed env K f.on f.sel + 1 ≤ F

def ValSpec (env : ResultTypes.Env) (penv : Pyd.Env) (M : List Nat) (K F : Nat) (ef : Nat) : Prop :=
  ∀ (cn tn rt : String) (rts : List String) (sel : List Selection) (tv : List String) (a : Bool) (j : J),
    rt ∈ rts → classHead env tn rts tv a sel = true → aSels env M.contains cn tn rts sel = true →
    (∀ c ∈ aClass env cn tn tv a sel, penv.class? c.name = some c) →
    agfuel sel + K ≤ ef →
    Exec.respOK env.schema env.frags ef rt (sent a M sel) j = true → nodupKeys j = true →
    ∀ vfuel, avneed env cn tn sel + 4 + F ≤ vfuel → RT (validate penv vfuel (.cls cn) j) j

theorem classHead_spec {env : ResultTypes.Env} {tn : String} {rts tv : List String} {a : Bool} {sel : List Selection}
    (h : classHead env tn rts tv a sel = true) :
    dupOK env (cnodes a env tn sel) = true ∧
    ((rflat a env tn sel).any isTnSel = true →
      (tv.isEmpty = true → rootTnOK env tn = true) ∧ (tv.isEmpty = false → ∀ rt ∈ rts, rt ∈ tv)) := by
  simp only [classHead, Bool.and_eq_true, Bool.or_eq_true, Bool.not_eq_true'] at h
  refine ⟨h.1, fun hany => ?_⟩
  rcases h.2 with h2 | h2
  · rw [hany] at h2; cases h2
  · constructor
    · intro hte; simpa [hte] using h2
    · intro hte rt hrt
      simp only [hte, Bool.false_eq_true, if_false, List.all_eq_true] at h2
      simpa using h2 rt hrt

/-! ### the fields of a class with mixin bases, as pydantic sees them -/

theorem filter_sublist_c0 (env : ResultTypes.Env) : ∀ ss : List Selection, (ss.filter isField).Sublist (ss.flatMap (c0 env))
  | [] => List.Sublist.slnil
  | z :: rest => by
    have ih := filter_sublist_c0 env rest
    cases z with
    | field a n d sid sub =>
      simp only [List.filter_cons, isField, if_true, List.flatMap_cons, c0, List.singleton_append]
      exact List.Sublist.cons_cons _ ih
    | spread g d =>
      simp only [List.filter_cons, isField, Bool.false_eq_true, if_false, List.flatMap_cons]
      exact ih.trans (List.sublist_append_right _ _)
    | inline on d sid ss' =>
      simp only [List.filter_cons, isField, Bool.false_eq_true, if_false, List.flatMap_cons, c0, List.nil_append]
      exact ih

theorem flat1_sublist_c1 (env : ResultTypes.Env) (tn : String) (s : Selection) : (flat1 env tn s).Sublist (c1 env tn s) := by
  cases s with
  | field a n d sid sub => simp [flat1, c1, c0]
  | spread g d => simp [flat1]
  | inline on d sid ss =>
    cases on with
    | none => simp [flat1]
    | some c =>
      simp only [flat1, c1]
      split
      · exact filter_sublist_c0 env ss
      · exact List.Sublist.slnil

theorem flatMap_sublist {α β : Type} (f g : α → List β) (h : ∀ a, (f a).Sublist (g a)) : ∀ l : List α,
    (l.flatMap f).Sublist (l.flatMap g)
  | [] => List.Sublist.slnil
  | a :: l => by
    simp only [List.flatMap_cons]
    exact List.Sublist.append (h a) (flatMap_sublist f g h l)

/-- the own field nodes are among all field nodes, in order -/
theorem rflat_sublist (a : Bool) (env : ResultTypes.Env) (tn : String) (sel : List Selection) :
    (rflat a env tn sel).Sublist (cnodes a env tn sel) := by
  unfold rflat cnodes flatG
  exact List.Sublist.append (List.Sublist.refl _) (flatMap_sublist _ _ (flat1_sublist_c1 env tn) sel)

theorem nodup_map_of_inj {α β : Type} (g : α → β) : ∀ l : List α, l.Nodup →
    (∀ a ∈ l, ∀ b ∈ l, g a = g b → a = b) → (l.map g).Nodup
  | [], _, _ => List.nodup_nil
  | x :: xs, h, hinj => by
    simp only [List.nodup_cons] at h
    simp only [List.map_cons, List.nodup_cons]
    refine ⟨?_, nodup_map_of_inj g xs h.2 (fun a ha b hb => hinj a (List.mem_cons_of_mem _ ha) b (List.mem_cons_of_mem _ hb))⟩
    intro hm
    obtain ⟨y, hy, he⟩ := List.mem_map.mp hm
    have := hinj y (List.mem_cons_of_mem _ hy) x List.mem_cons_self he
    exact h.1 (this ▸ hy)

def dummyDecl : FieldDecl := { py := "", ann := .name "", alias := none, discriminator := false, defaultNone := false }

/-- the declaration of a tagged node in the class `cn` on `tn` -/
def declOf (env : ResultTypes.Env) (cn tn : String) (tv : List String) : TNode → FieldDecl
  | (none, .field al n d _ sub) => aDecl env cn tn tv al n d sub
  | (some o, .field al n d _ sub) => fieldDecl env o tn al n d sub
  | _ => dummyDecl

theorem declOf_py (env : ResultTypes.Env) (cn tn : String) (tv : List String) (t : TNode) (h : isField t.2 = true) :
    (declOf env cn tn tv t).py = pyFieldName env (keyOf t.2) := by
  obtain ⟨o, y⟩ := t
  cases y with
  | spread g d => simp [isField] at h
  | inline on d sid ss => simp [isField] at h
  | field al n d sid sub =>
    cases o with
    | none => simp only [declOf, aDecl_py, keyOf]
    | some o' => rfl

theorem declOf_key (env : ResultTypes.Env) (cn tn : String) (tv : List String) (t : TNode) (h : isField t.2 = true) :
    (declOf env cn tn tv t).alias.getD (declOf env cn tn tv t).py = keyOf t.2 := by
  obtain ⟨o, y⟩ := t
  cases y with
  | spread g d => simp [isField] at h
  | inline on d sid ss => simp [isField] at h
  | field al n d sid sub =>
    cases o with
    | none => simp only [declOf, aDecl_key, keyOf]
    | some o' => simp only [declOf, fieldDecl_key, keyOf]

theorem tnodes_isField (env : ResultTypes.Env) (K : Nat) (hfr : C01Mix.FragsOK env K) {mk : Nat → Bool}
    {cn tn : String} {rts : List String} {sel : List Selection} (a : Bool)
    (h : aSels env mk cn tn rts sel = true) : ∀ t ∈ tnodes a env tn sel, isField t.2 = true := by
  intro t ht
  obtain ⟨o, y⟩ := t
  cases o with
  | none => exact rflat_isField a h y ((tnodes_own _ _ _ _ _).mp ht)
  | some o' =>
    obtain ⟨g, hocc, hp⟩ := (tnodes_inh _ _ _ _ _ _).mp ht
    obtain ⟨_, _, f, hf, _⟩ := occurs_spec h hocc
    exact ((inhOf_spec env K hfr hf).2 _ hp).1

theorem mem_aBases {env : ResultTypes.Env} {tn : String} {sel : List Selection} {b : String} (h : b ∈ aBases env tn sel) :
    b = "BaseModel" ∨ ∃ g ∈ gSpreads env tn sel, b = pascal g := by
  unfold aBases at h
  split at h
  · left; simpa using h
  · right
    obtain ⟨g, hg, rfl⟩ := List.mem_map.mp h
    exact ⟨g, (C01Mix.mem_sortStr' g _).mp hg, rfl⟩

theorem pascal_mem_aBases {env : ResultTypes.Env} {tn : String} {sel : List Selection} {g : String}
    (h : g ∈ gSpreads env tn sel) : pascal g ∈ aBases env tn sel := by
  unfold aBases
  have hne : (gSpreads env tn sel).isEmpty = false := by
    cases hs : gSpreads env tn sel with
    | nil => rw [hs] at h; cases h
    | cons x xs => rfl
  simp only [hne, Bool.false_eq_true, if_false]
  exact List.mem_map.mpr ⟨g, (C01Mix.mem_sortStr' g _).mpr h, rfl⟩

theorem mem_decls_own {env : ResultTypes.Env} {cn tn : String} {tv : List String} {a : Bool} {sel : List Selection} {d : FieldDecl}
    (h : d ∈ (rflat a env tn sel).flatMap (aDecl1 env cn tn tv)) :
    ∃ t ∈ tnodes a env tn sel, isField t.2 = true ∧ d = declOf env cn tn tv t := by
  obtain ⟨x, hx, hd⟩ := List.mem_flatMap.mp h
  cases x with
  | field alias name dirs sid sub =>
    simp only [aDecl1, List.mem_singleton] at hd
    exact ⟨(none, .field alias name dirs sid sub), (tnodes_own _ _ _ _ _).mpr hx, rfl, hd⟩
  | spread n d' => simp [aDecl1] at hd
  | inline on d' sid sub => simp [aDecl1] at hd

/-- the declaration of a plain leaf node: the same for an own and an inherited node -/
theorem declOf_plainLeaf (env : ResultTypes.Env) (cn tn : String) (tv : List String) (t : TNode) (hf : isField t.2 = true)
    (hpl : plainLeaf t.2 = true) :
    declOf env cn tn tv t =
      { py := pyFieldName env (keyOf t.2),
        ann := condAnn (wrapAnn (ResultLeaf.leafBase env (fieldT env tn (nameOf t.2)).base) true (fieldT env tn (nameOf t.2))) (dirsOf t.2),
        alias := if pyFieldName env (keyOf t.2) != keyOf t.2 then some (keyOf t.2) else none,
        discriminator := false, defaultNone := hasConditionalDirective (dirsOf t.2) } := by
  obtain ⟨o, y⟩ := t
  cases y with
  | spread g d => simp [isField] at hf
  | inline on d sid ss => simp [isField] at hf
  | field al n d sid sub =>
    simp only [plainLeaf, subOf, nameOf, Bool.and_eq_true, bne_iff_ne, ne_eq] at hpl
    obtain ⟨hsub, hn⟩ := hpl
    have hn' : (n == typenameField) = false := by simpa using hn
    cases o with
    | none =>
      simp only [declOf, aDecl, hn', hsub, if_true, Bool.false_and, Bool.false_eq_true, if_false, aDecl_leaf_ann, keyOf, nameOf, dirsOf]
      rw [isUnionAnn_condAnn _ _ (isUnionAnn_wrapAnn _ (by rw [ResultLeaf.leafBase_eq]; exact Or.inl ⟨_, rfl⟩) _ _)]
      rfl
    | some o' =>
      simp only [declOf, fieldDecl, hsub, if_true, keyOf, nameOf, dirsOf]
      rfl

theorem py_mstep_foldl (p : String) : ∀ (bfs : List (List FieldDecl)) (acc : List FieldDecl),
    ((∃ d ∈ acc, d.py = p) ∨ ∃ bf ∈ bfs, ∃ d ∈ bf, d.py = p) → ∃ d ∈ bfs.foldl C01Mix.mstep acc, d.py = p
  | [], acc, h => by
    rcases h with h | ⟨bf, hb, _⟩
    · exact h
    · cases hb
  | bf :: rest, acc, h => by
    rw [List.foldl_cons]
    apply py_mstep_foldl p rest
    rcases h with ⟨d, hd, hp⟩ | ⟨bf', hb, d, hd, hp⟩
    · by_cases hc : (bf.any (·.py == d.py)) = true
      · obtain ⟨d', hd', he⟩ := List.any_eq_true.mp hc
        exact Or.inl ⟨d', List.mem_append_right _ hd', by rw [← hp]; simpa using he⟩
      · exact Or.inl ⟨d, List.mem_append_left _ (List.mem_filter.mpr ⟨hd, by simpa using hc⟩), hp⟩
    · rcases List.mem_cons.mp hb with rfl | hb
      · exact Or.inl ⟨d, List.mem_append_right _ hd, hp⟩
      · exact Or.inr ⟨bf', hb, d, hd, hp⟩

theorem length_filter_sublist {α : Type} {l l' : List α} (h : l.Sublist l') (p : α → Bool) :
    (l.filter p).length ≤ (l'.filter p).length := (h.filter p).length_le

/-- the nodes sharing the key of `t` -/
theorem tnodes_filter_snd (a : Bool) (env : ResultTypes.Env) (tn : String) (sel : List Selection) (κ : String) :
    ((tnodes a env tn sel).filter (fun t => keyOf t.2 == κ)).map (·.2) = (cnodes a env tn sel).filter (fun y => keyOf y == κ) := by
  rw [← tnodes_snd, filter_map_comm]; rfl

/-- a node that owns its key is the only tagged node with that key -/
theorem unique_tnode {a : Bool} {env : ResultTypes.Env} {tn : String} {sel : List Selection} {t t' : TNode}
    (hu : (cnodes a env tn sel).filter (fun y => keyOf y == keyOf t.2) = [t.2])
    (ht : t ∈ tnodes a env tn sel) (ht' : t' ∈ tnodes a env tn sel) (hk : keyOf t'.2 = keyOf t.2) : t' = t := by
  have hlen : ((tnodes a env tn sel).filter (fun x => keyOf x.2 == keyOf t.2)).length ≤ 1 := by
    have hl := congrArg List.length (tnodes_filter_snd a env tn sel (keyOf t.2))
    rw [hu] at hl
    simp at hl
    omega
  have h1 := eq_singleton_of_length_le_one hlen (List.mem_filter.mpr ⟨ht, by simp⟩)
  have h2 : t' ∈ (tnodes a env tn sel).filter (fun x => keyOf x.2 == keyOf t.2) := List.mem_filter.mpr ⟨ht', by simp [hk]⟩
  rw [h1] at h2
  exact List.mem_singleton.mp h2

/-- what a declaration of the class says about the field nodes of one response key -/
def DeclFor (env : ResultTypes.Env) (cn tn : String) (tv : List String) (T : List TNode) (d : FieldDecl) (t : TNode) : Prop :=
  isField t.2 = true ∧ d.py = pyFieldName env (keyOf t.2) ∧
  ((plainLeaf t.2 = false ∧ d = declOf env cn tn tv t) ∨
   (plainLeaf t.2 = true ∧
    d.alias = (if pyFieldName env (keyOf t.2) != keyOf t.2 then some (keyOf t.2) else none) ∧
    d.discriminator = false ∧
    (∃ t' ∈ T, keyOf t'.2 = keyOf t.2 ∧ d.ann = (declOf env cn tn tv t').ann) ∧
    (d.defaultNone = false → ∃ t' ∈ T, keyOf t'.2 = keyOf t.2 ∧ hasConditionalDirective (dirsOf t'.2) = false)))

/-- the declaration of a node, as it stands in the list that declares it -/
theorem declFor_self (env : ResultTypes.Env) (cn tn : String) (tv : List String) (T : List TNode) (t : TNode) (ht : t ∈ T)
    (hf : isField t.2 = true) : DeclFor env cn tn tv T (declOf env cn tn tv t) t := by
  refine ⟨hf, declOf_py env cn tn tv t hf, ?_⟩
  cases hpl : plainLeaf t.2 with
  | false => exact Or.inl ⟨rfl, rfl⟩
  | true =>
    right
    rw [declOf_plainLeaf env cn tn tv t hf hpl]
    exact ⟨rfl, rfl, rfl, ⟨t, ht, rfl, by rw [declOf_plainLeaf env cn tn tv t hf hpl]⟩, fun h => ⟨t, ht, rfl, h⟩⟩

/-- **the fields pydantic sees for a class of the tier**: one declaration per response key — the declaration of the node that owns
    the key, or, for a key reached by several leaf selections, the merge Python / pydantic make of their declarations -/
theorem class_members (env : ResultTypes.Env) (penv : Pyd.Env) (K F : Nat) (G : GH env penv K F)
    {mk : Nat → Bool} (cn tn : String) (rts tv : List String) (a : Bool) (sel : List Selection)
    (hloc : aSels env mk cn tn rts sel = true) (hset : dupOK env (cnodes a env tn sel) = true)
    (hc : penv.class? cn = some { name := cn, bases := aBases env tn sel, fields := (rflat a env tn sel).flatMap (aDecl1 env cn tn tv) }) :
    ((allFields penv penv.clsFuel cn).map (·.py)).Nodup ∧
    (∀ d ∈ allFields penv penv.clsFuel cn, ∃ t ∈ tnodes a env tn sel, DeclFor env cn tn tv (tnodes a env tn sel) d t) ∧
    (∀ t ∈ tnodes a env tn sel, ∃ d ∈ allFields penv penv.clsFuel cn, d.py = pyFieldName env (keyOf t.2)) ∧
    (∀ t ∈ tnodes a env tn sel, plainLeaf t.2 = false → declOf env cn tn tv t ∈ allFields penv penv.clsFuel cn) := by
  have hTf := tnodes_isField env K G.hfr a hloc
  obtain ⟨hD1, hD2, _⟩ := dupOK_spec hset
  have hcn : ∀ t ∈ tnodes a env tn sel, t.2 ∈ cnodes a env tn sel :=
    fun t ht => by rw [← tnodes_snd]; exact List.mem_map.mpr ⟨t, ht, rfl⟩
  have hfuel : penv.clsFuel = penv.classes.length + 1 := rfl
  have hdepth : C01Mix.fragDepth env ≤ penv.classes.length := by have := G.depth; omega
  rw [hfuel, C01Mix.allFields_succ penv penv.classes.length cn _ hc]
  simp only []
  -- the own declarations are those of the own nodes
  have hownT : ∀ d ∈ (rflat a env tn sel).flatMap (aDecl1 env cn tn tv), ∃ t ∈ tnodes a env tn sel,
      t.1 = none ∧ isField t.2 = true ∧ d = declOf env cn tn tv t := by
    intro d hd
    obtain ⟨x, hx, hdx⟩ := List.mem_flatMap.mp hd
    cases x with
    | field alias name dirs sid sub =>
      simp only [aDecl1, List.mem_singleton] at hdx
      exact ⟨(none, .field alias name dirs sid sub), (tnodes_own _ _ _ _ _).mpr hx, rfl, rfl, hdx⟩
    | spread n d' => simp [aDecl1] at hdx
    | inline on d' sid sub => simp [aDecl1] at hdx
  -- facts about one spread fragment (through `allFields_mix` of the mixin tier)
  have hfrag : ∀ g, occurs env tn sel g → ∃ f, findFragment? env.frags g = some f ∧ f.on = tn ∧ f.name = g ∧
      inhOf env (C01Mix.fragDepth env) g = C01Mix.mflat env (C01Mix.fragDepth env) (pascal f.name) f.sel ∧
      (∀ d ∈ allFields penv penv.classes.length (pascal f.name), ∃ o al n dirs sid sub,
        (o, Selection.field al n dirs sid sub) ∈ C01Mix.mflat env (C01Mix.fragDepth env) (pascal f.name) f.sel ∧
        d = fieldDecl env o f.on al n dirs sub) ∧
      ((allFields penv penv.classes.length (pascal f.name)).map (·.py)).Nodup ∧
      (∀ o al n dirs sid sub, (o, Selection.field al n dirs sid sub) ∈ C01Mix.mflat env (C01Mix.fragDepth env) (pascal f.name) f.sel →
        fieldDecl env o f.on al n dirs sub ∈ allFields penv penv.classes.length (pascal f.name)) := by
    intro g hocc
    obtain ⟨_, _, f, hf, hon⟩ := occurs_spec hloc hocc
    obtain ⟨hfm, hfn⟩ := C01Mix.find_mem hf
    obtain ⟨_, _, hmset, hlocf, _, hfullS⟩ := C01Mix.fragOK_spec (G.hfr f hfm)
    have hinh : inhOf env (C01Mix.fragDepth env) g = C01Mix.mflat env (C01Mix.fragDepth env) (pascal f.name) f.sel := by
      simp [inhOf, hf]
    -- within ONE fragment the Python names are distinct (`msetOK` of the mixin tier)
    have hndf : ((C01Mix.mflat env (C01Mix.fragDepth env) (pascal f.name) f.sel).map (C01Mix.pyKey env)).Nodup := by
      unfold C01Mix.msetOK at hmset
      have hk := (setOK_spec hmset).2.1
      rw [(inhOf_spec env K G.hfr hf).1 K (Nat.le_refl K), hinh, List.map_map, List.map_map] at hk
      exact hk
    obtain ⟨h1, h2, h3⟩ := C01Mix.allFields_mix env penv K G.hfr (C01Mix.fragClassesIn_of env penv G.frags) G.hbm
      (C01Mix.fragDepth env) (pascal f.name) f.on f.sel hfullS hlocf
      (C01Mix.fragClassesIn_of env penv G.frags f hfm) hndf penv.classes.length hdepth
    exact ⟨f, hf, hon, hfn, hinh, h1, h2, h3⟩
  -- every declaration of every merged list is "for" a tagged node
  have hbase : ∀ b ∈ aBases env tn sel,
      (∀ d ∈ allFields penv penv.classes.length b, ∃ t ∈ tnodes a env tn sel, DeclFor env cn tn tv (tnodes a env tn sel) d t) ∧
      ((allFields penv penv.classes.length b).map (·.py)).Nodup := by
    intro b hb
    rcases mem_aBases hb with rfl | ⟨g, hg, rfl⟩
    · rw [allFields_none penv "BaseModel" G.hbm]
      exact ⟨fun d hd => (by cases hd), by simp⟩
    · have hocc := (mem_gSpreads env tn sel g).mp hg
      obtain ⟨f, hf, hon, hfn, hinh, h1, h2, _⟩ := hfrag g hocc
      rw [← hfn]
      refine ⟨fun d' hd' => ?_, h2⟩
      obtain ⟨o, al, n, dirs, sid, sub, hm, he⟩ := h1 d' hd'
      rw [← hinh] at hm
      have ht : (some o, Selection.field al n dirs sid sub) ∈ tnodes a env tn sel := (tnodes_inh _ _ _ _ _ _).mpr ⟨g, hocc, hm⟩
      refine ⟨_, ht, ?_⟩
      have : d' = declOf env cn tn tv (some o, Selection.field al n dirs sid sub) := by rw [he, hon]; rfl
      rw [this]
      exact declFor_self env cn tn tv _ _ ht rfl
  have hown : ∀ d ∈ mergeDup ((rflat a env tn sel).flatMap (aDecl1 env cn tn tv)),
      ∃ t ∈ tnodes a env tn sel, DeclFor env cn tn tv (tnodes a env tn sel) d t := by
    intro d hd
    obtain ⟨_, hM2, _⟩ := C01Fold.mergeDup_spec ((rflat a env tn sel).flatMap (aDecl1 env cn tn tv))
    obtain ⟨c, rest, hfil, hde⟩ := hM2 d hd
    -- every declaration of the name is the declaration of an own node with the key of the first one
    have hcm : c ∈ (rflat a env tn sel).flatMap (aDecl1 env cn tn tv) :=
      (List.mem_filter.mp (by rw [hfil]; exact List.mem_cons_self)).1
    obtain ⟨tc, htc, htcn, htcf, rfl⟩ := hownT c hcm
    have hdpy : d.py = pyFieldName env (keyOf tc.2) := by
      rw [hde, C01Fold.mergeD_py, declOf_py _ _ _ _ _ htcf]
    have hall : ∀ g ∈ declOf env cn tn tv tc :: rest, ∃ t ∈ tnodes a env tn sel, t.1 = none ∧ isField t.2 = true ∧
        keyOf t.2 = keyOf tc.2 ∧ g = declOf env cn tn tv t := by
      intro g hg
      rw [← hfil] at hg
      obtain ⟨hgm, hgp⟩ := List.mem_filter.mp hg
      obtain ⟨t, ht, htn, htf, rfl⟩ := hownT g hgm
      refine ⟨t, ht, htn, htf, ?_, rfl⟩
      have : pyFieldName env (keyOf t.2) = pyFieldName env (keyOf tc.2) := by
        have := (by simpa using hgp : (declOf env cn tn tv t).py = d.py)
        rw [declOf_py _ _ _ _ _ htf, hdpy] at this
        exact this
      exact hD2 _ (hcn t ht) _ (hcn tc htc) this
    refine ⟨tc, htc, htcf, hdpy, ?_⟩
    cases hpl : plainLeaf tc.2 with
    | false =>
      left
      refine ⟨rfl, ?_⟩
      -- the node owns its key: no later declaration of the name
      have hu : (cnodes a env tn sel).filter (fun y => keyOf y == keyOf tc.2) = [tc.2] := by
        rcases hD1 tc.2 (hcn tc htc) with h | h
        · exact h
        · have := (h tc.2 (hcn tc htc) rfl).1
          rw [hpl] at this; cases this
      have hrest : rest = [] := by
        -- own declarations of the name ≤ own nodes of the key ≤ all nodes of the key = 1
        have h1 : ∀ L : List Selection, (∀ x ∈ L, isField x = true) →
            ((L.flatMap (aDecl1 env cn tn tv)).filter (·.py == d.py)).length ≤
              (L.filter (fun x => pyFieldName env (keyOf x) == d.py)).length := by
          intro L hL
          induction L with
          | nil => simp
          | cons x xs ih =>
            have hxf := hL x List.mem_cons_self
            have ih' := ih (fun y hy => hL y (List.mem_cons_of_mem _ hy))
            cases x with
            | spread g d' => simp [isField] at hxf
            | inline on d' sid ss => simp [isField] at hxf
            | field al n d' sid sub =>
              have e1 : ((aDecl env cn tn tv al n d' sub).py == d.py) = (pyFieldName env (al.getD n) == d.py) := by rw [aDecl_py]
              have e2 : (pyFieldName env (keyOf (Selection.field al n d' sid sub)) == d.py) = (pyFieldName env (al.getD n) == d.py) := rfl
              simp only [List.flatMap_cons, aDecl1, List.singleton_append, List.filter_cons, e1, e2]
              cases (pyFieldName env (al.getD n) == d.py) with
              | true => simp only [if_true, List.length_cons]; omega
              | false => simpa using ih'
        have h2 : ((rflat a env tn sel).filter (fun x => pyFieldName env (keyOf x) == d.py)).length ≤ 1 := by
          have hsub : ((rflat a env tn sel).filter (fun x => pyFieldName env (keyOf x) == d.py)).Sublist
              ((cnodes a env tn sel).filter (fun x => pyFieldName env (keyOf x) == d.py)) := (rflat_sublist a env tn sel).filter _
          have heq : (cnodes a env tn sel).filter (fun x => pyFieldName env (keyOf x) == d.py) =
              (cnodes a env tn sel).filter (fun y => keyOf y == keyOf tc.2) := by
            apply List.filter_congr
            intro y hy
            rw [hdpy]
            cases hk : (keyOf y == keyOf tc.2) with
            | true => simp [(by simpa using hk : keyOf y = keyOf tc.2)]
            | false =>
              cases hp : (pyFieldName env (keyOf y) == pyFieldName env (keyOf tc.2)) with
              | false => rfl
              | true =>
                have := hD2 y hy tc.2 (hcn tc htc) (by simpa using hp)
                simp [this] at hk
          have := hsub.length_le
          rw [heq, hu] at this
          simpa using this
        have h3 : (((rflat a env tn sel).flatMap (aDecl1 env cn tn tv)).filter (·.py == d.py)).length ≤ 1 :=
          Nat.le_trans (h1 _ (rflat_isField a hloc)) h2
        rw [hfil] at h3
        cases rest with
        | nil => rfl
        | cons r rs => simp at h3
      rw [hde, hrest]
      rfl
    | true =>
      right
      -- all declarations of the name: plain leaves with the same alias
      have hprops : ∀ g ∈ declOf env cn tn tv tc :: rest,
          g.alias = (if pyFieldName env (keyOf tc.2) != keyOf tc.2 then some (keyOf tc.2) else none) ∧ g.discriminator = false := by
        intro g hg
        obtain ⟨t, ht, _, htf, hk, rfl⟩ := hall g hg
        have hplt : plainLeaf t.2 = true := by
          rcases hD1 tc.2 (hcn tc htc) with h | h
          · have := unique_tnode h htc ht hk
            rw [this]; exact hpl
          · exact (h t.2 (hcn t ht) hk).1
        rw [declOf_plainLeaf env cn tn tv t htf hplt, hk]
        exact ⟨rfl, rfl⟩
      obtain ⟨i1, i2, ⟨x, hx, i3⟩, i4⟩ := C01Fold.mergeD_props _ rest (declOf env cn tn tv tc)
        (hprops _ List.mem_cons_self).1 (hprops _ List.mem_cons_self).2
        (fun g hg => hprops g (List.mem_cons_of_mem _ hg))
      rw [← hde] at i1 i2 i3 i4
      refine ⟨rfl, i1, i2, ?_, ?_⟩
      · obtain ⟨t, ht, _, _, hk, rfl⟩ := hall x hx
        exact ⟨t, ht, hk, i3⟩
      · intro hdn
        obtain ⟨y, hy, hyd⟩ := i4 hdn
        obtain ⟨t, ht, _, htf, hk, rfl⟩ := hall y hy
        have hplt : plainLeaf t.2 = true := by
          rcases hD1 tc.2 (hcn tc htc) with h | h
          · have := unique_tnode h htc ht hk
            rw [this]; exact hpl
          · exact (h t.2 (hcn t ht) hk).1
        rw [declOf_plainLeaf env cn tn tv t htf hplt] at hyd
        exact ⟨t, ht, hk, hyd⟩
  have hall : ∀ bf ∈ (aBases env tn sel).map (allFields penv penv.classes.length) ++ [mergeDup ((rflat a env tn sel).flatMap (aDecl1 env cn tn tv))],
      ∀ d ∈ bf, ∃ t ∈ tnodes a env tn sel, DeclFor env cn tn tv (tnodes a env tn sel) d t := by
    intro bf hbf d hd
    rcases List.mem_append.mp hbf with h | h
    · obtain ⟨b, hb, rfl⟩ := List.mem_map.mp h
      exact (hbase b hb).1 d hd
    · have : bf = mergeDup ((rflat a env tn sel).flatMap (aDecl1 env cn tn tv)) := by simpa using h
      subst this
      exact hown d hd
  -- every node's Python name is declared in some list
  have hpyIn : ∀ t ∈ tnodes a env tn sel, ∃ bf ∈ (aBases env tn sel).map (allFields penv penv.classes.length) ++
      [mergeDup ((rflat a env tn sel).flatMap (aDecl1 env cn tn tv))], ∃ d ∈ bf, d.py = pyFieldName env (keyOf t.2) ∧
        (plainLeaf t.2 = false → d = declOf env cn tn tv t) := by
    intro t ht
    obtain ⟨o, y⟩ := t
    have hyf := hTf _ ht
    cases o with
    | none =>
      have hx := (tnodes_own _ _ _ _ _).mp ht
      have hdm : declOf env cn tn tv (none, y) ∈ (rflat a env tn sel).flatMap (aDecl1 env cn tn tv) := by
        cases y with
        | spread g d => simp [isField] at hyf
        | inline on d sid ss => simp [isField] at hyf
        | field al n d sid sub => exact List.mem_flatMap.mpr ⟨_, hx, by simp [aDecl1, declOf]⟩
      obtain ⟨_, _, hM3⟩ := C01Fold.mergeDup_spec ((rflat a env tn sel).flatMap (aDecl1 env cn tn tv))
      obtain ⟨d, hd, hdp⟩ := hM3 _ hdm
      refine ⟨_, by simp, d, hd, by rw [hdp, declOf_py _ _ _ _ _ hyf], fun hpl => ?_⟩
      -- the node owns its key
      obtain ⟨t', ht', hfor⟩ := hown d hd
      obtain ⟨_, hpy', hform⟩ := hfor
      have hk' : keyOf t'.2 = keyOf y := by
        apply hD2 _ (hcn t' ht') _ (hcn _ ht)
        rw [← hpy', hdp, declOf_py _ _ _ _ _ hyf]
      have hu : (cnodes a env tn sel).filter (fun z => keyOf z == keyOf y) = [y] := by
        rcases hD1 y (hcn _ ht) with h | h
        · exact h
        · have := (h y (hcn _ ht) rfl).1
          rw [hpl] at this; cases this
      have hte := unique_tnode (t := (none, y)) hu ht ht' hk'
      rw [hte] at hform
      rcases hform with ⟨_, h⟩ | ⟨h, _⟩
      · exact h
      · rw [hpl] at h; cases h
    | some o' =>
      obtain ⟨g, hocc, hp⟩ := (tnodes_inh _ _ _ _ _ _).mp ht
      obtain ⟨f, hf, hon, hfn, hinh, _, _, h3⟩ := hfrag g hocc
      refine ⟨allFields penv penv.classes.length (pascal g), ?_, declOf env cn tn tv (some o', y), ?_, declOf_py _ _ _ _ _ hyf, fun _ => rfl⟩
      · exact List.mem_append_left _ (List.mem_map.mpr ⟨pascal g, pascal_mem_aBases ((mem_gSpreads env tn sel g).mpr hocc), rfl⟩)
      · cases y with
        | spread g' d => simp [isField] at hyf
        | inline on d sid ss => simp [isField] at hyf
        | field al n d sid sub =>
          rw [hinh] at hp
          have := h3 o' al n d sid sub hp
          rw [hfn, hon] at this
          exact this
  refine ⟨?_, ?_, ?_, ?_⟩
  · apply C01Mix.nodup_mstep_foldl _ _ (by simp)
    intro bf hbf
    rcases List.mem_append.mp hbf with h | h
    · obtain ⟨b, hb, rfl⟩ := List.mem_map.mp h
      exact (hbase b hb).2
    · have : bf = mergeDup ((rflat a env tn sel).flatMap (aDecl1 env cn tn tv)) := by simpa using h
      subst this
      exact (C01Fold.mergeDup_spec _).1
  · intro d hd
    rcases C01Mix.mem_mstep_foldl d _ _ hd with h | ⟨bf, hbf, hdbf⟩
    · cases h
    · exact hall bf hbf d hdbf
  · intro t ht
    obtain ⟨bf, hbf, d, hd, hdp, _⟩ := hpyIn t ht
    exact py_mstep_foldl _ _ _ (Or.inr ⟨bf, hbf, d, hd, hdp⟩)
  · intro t ht hpl
    obtain ⟨bf, hbf, d, hd, hdp, hde⟩ := hpyIn t ht
    rw [← hde hpl]
    apply C01Mix.mem_mstep_foldl_of _ _ _ (Or.inr ⟨bf, hbf, hd⟩)
    -- a declaration of the same name is the declaration of the same node: the node owns its key
    intro bf' hbf' d' hd' hpy
    obtain ⟨t', ht', _, hpy', hform⟩ := hall bf' hbf' d' hd'
    have hk' : keyOf t'.2 = keyOf t.2 := by
      apply hD2 _ (hcn t' ht') _ (hcn t ht)
      rw [← hpy', hpy, hdp]
    have hu : (cnodes a env tn sel).filter (fun z => keyOf z == keyOf t.2) = [t.2] := by
      rcases hD1 t.2 (hcn t ht) with h | h
      · exact h
      · have := (h t.2 (hcn t ht) rfl).1
        rw [hpl] at this; cases this
    have hte := unique_tnode hu ht ht' hk'
    rw [hte] at hform
    rcases hform with ⟨_, h⟩ | ⟨h, _⟩
    · rw [h, hde hpl]
    · rw [hpl] at h; cases h

theorem typenameLiteral_of_mem (penv : Pyd.Env) (cn : String)
    (hnd : ((allFields penv penv.clsFuel cn).map (·.py)).Nodup)
    (d : FieldDecl) (hd : d ∈ allFields penv penv.clsFuel cn) (hpy : d.py = typenameAlias) (vs : List String)
    (hann : d.ann = .literal vs) : typenameLiteral penv penv.clsFuel cn = some vs := by
  unfold typenameLiteral
  cases hf : (allFields penv penv.clsFuel cn).find? (·.py == typenameAlias) with
  | none =>
    have := List.find?_eq_none.mp hf d hd
    simp [hpy] at this
  | some e =>
    have he := List.mem_of_find?_eq_some hf
    have hpe : e.py = typenameAlias := by simpa using List.find?_some hf
    have := eq_of_nodup_py _ hnd d hd e he (by rw [hpe, hpy])
    subst this
    simp [hann]

/-- the `typename__` literal of a variant class -/
theorem variant_literal (env : ResultTypes.Env) (penv : Pyd.Env) (K F : Nat) (G : GH env penv K F)
    {mk : Nat → Bool} (cn tn : String) (rts tv : List String) (sel : List Selection)
    (hloc : aSels env mk cn tn rts sel = true) (hset : dupOK env (cnodes true env tn sel) = true) (htvne : tv.isEmpty = false)
    (hc : penv.class? cn = some { name := cn, bases := aBases env tn sel, fields := (rflat true env tn sel).flatMap (aDecl1 env cn tn tv) }) :
    typenameLiteral penv penv.clsFuel cn = some (sortStr tv) := by
  obtain ⟨dirs, sid, sub0, hx, _⟩ := exists_tn hloc
  obtain ⟨hnd, _, _, hC⟩ := class_members env penv K F G cn tn rts tv true sel hloc hset hc
  have hd := hC _ ((tnodes_own _ _ _ _ _).mpr hx) (by simp [plainLeaf, nameOf])
  refine typenameLiteral_of_mem penv cn hnd _ hd ?_ (sortStr tv) ?_
  · simp only [declOf]; rw [aDecl_py]; exact pyFieldName_tn env
  · simp [declOf, aDecl, htvne]

/-! ### one composite position -/

/-- the hypotheses about one composite position (field of named type `n`, classes prefixed `C`, sub-selection `sub`) -/
structure PosOK (env : ResultTypes.Env) (penv : Pyd.Env) (M : List Nat) (C n : String) (sub : List Selection) : Prop where
  cover : ∀ rt' ∈ Exec.runtimeTypes env.schema n, ∃ p ∈ relatedOf env C n sub, rt' ∈ tvOf env (relatedOf env C n sub) p.2
  vars : ∀ p ∈ relatedOf env C n sub,
    (tvOf env (relatedOf env C n sub) p.2).isEmpty = false ∧
    classHead env p.2 ((Exec.runtimeTypes env.schema n).filter (tvOf env (relatedOf env C n sub) p.2).contains)
      (tvOf env (relatedOf env C n sub) p.2) (env.schema.isAbstract n) sub = true ∧
    aSels env M.contains p.1 p.2 ((Exec.runtimeTypes env.schema n).filter (tvOf env (relatedOf env C n sub) p.2).contains) sub = true
  cls : ∀ c ∈ variantClasses env (relatedOf env C n sub) (env.schema.isAbstract n) sub (relatedOf env C n sub),
    penv.class? c.name = some c

theorem variant_rt (env : ResultTypes.Env) (penv : Pyd.Env) (M : List Nat) (K F : Nat) (e : Nat)
    (IH : ValSpec env penv M K F e) (C n : String) (sub : List Selection) (hpos : PosOK env penv M C n sub)
    (hfu : agfuel sub + K ≤ e) (p : String × String) (hp : p ∈ relatedOf env C n sub)
    (rt' : String) (hrt1 : rt' ∈ Exec.runtimeTypes env.schema n) (hrt2 : rt' ∈ tvOf env (relatedOf env C n sub) p.2)
    (v' : J) (hnd : nodupKeys v' = true)
    (hresp : Exec.respOK env.schema env.frags e rt' (sent (env.schema.isAbstract n) M sub) v' = true)
    (g : Nat) (hg : avneed env p.1 p.2 sub + 4 + F ≤ g) : RT (validate penv g (.cls p.1) v') v' := by
  obtain ⟨_, h1, h2⟩ := hpos.vars p hp
  refine IH p.1 p.2 rt' _ sub _ (env.schema.isAbstract n) v' ?_ h1 h2 ?_ hfu hresp hnd g hg
  · exact List.mem_filter.mpr ⟨hrt1, by simpa using hrt2⟩
  · intro c hc
    exact hpos.cls c (List.mem_flatMap.mpr ⟨p, hp, hc⟩)

/-- the answer at an abstract position: an object whose `__typename` is a runtime type `rt'`; the FIRST variant whose literal
    contains `rt'` accepts it -/
theorem position_pick (env : ResultTypes.Env) (penv : Pyd.Env) (M : List Nat) (K F : Nat) (k : Nat)
    (G : GH env penv K F)
    (IH : ValSpec env penv M K F (k + 2)) (C n : String) (sub : List Selection) (hpos : PosOK env penv M C n sub)
    (habs : env.schema.isAbstract n = true)
    (hfu : agfuel sub + K ≤ k + 2) (B : Nat) (hB : ∀ p ∈ relatedOf env C n sub, avneed env p.1 p.2 sub + 4 + F ≤ B)
    (v' : J) (hnd : nodupKeys v' = true)
    (hP : ((Exec.runtimeTypes env.schema n).any fun rt' =>
      Exec.respOK env.schema env.frags (k + 2) rt' (sent true M sub) v') = true)
    (g : Nat) (hg : B ≤ g) :
    ∃ kvs rt' p0, v' = .obj kvs ∧
      (relatedOf env C n sub).find? (fun p => (tvOf env (relatedOf env C n sub) p.2).contains rt') = some p0 ∧
      J.lookup typenameField kvs = some (.str rt') ∧ RT (validate penv g (.cls p0.1) v') v' := by
  obtain ⟨rt', hrt1, hresp⟩ := List.any_eq_true.mp hP
  obtain ⟨kvs, rfl⟩ := respOK_isObj _ _ _ _ _ _ hresp
  obtain ⟨p1, hp1, hrt2⟩ := hpos.cover rt' hrt1
  cases hfind : (relatedOf env C n sub).find? (fun p => (tvOf env (relatedOf env C n sub) p.2).contains rt') with
  | none =>
    have := List.find?_eq_none.mp hfind p1 hp1
    simp [hrt2] at this
  | some p0 =>
    have hp0 : p0 ∈ relatedOf env C n sub := List.mem_of_find?_eq_some hfind
    have hrt0 : rt' ∈ tvOf env (relatedOf env C n sub) p0.2 := by simpa using List.find?_some hfind
    obtain ⟨_, h1, h2⟩ := hpos.vars p0 hp0
    rw [habs] at h1
    have hkeys := (classHead_spec h1).1
    have htag := resp_typename env K G.hfr M rt' (List.mem_filter.mpr ⟨hrt1, by simpa using hrt0⟩) sub h2 hkeys k
      (by have := agfuel_ge sub; omega) kvs hresp
    have hrt := variant_rt env penv M K F (k + 2) IH C n sub hpos hfu p0 hp0 rt' hrt1 hrt0 (.obj kvs) hnd
      (by rw [habs]; exact hresp) g (Nat.le_trans (hB p0 hp0) hg)
    exact ⟨kvs, rt', p0, rfl, hfind, htag, hrt⟩

/-- the class of a variant, as pydantic sees it -/
theorem variant_class (env : ResultTypes.Env) (penv : Pyd.Env) (M : List Nat) (C n : String) (sub : List Selection)
    (hpos : PosOK env penv M C n sub) (habs : env.schema.isAbstract n = true)
    (p : String × String) (hp : p ∈ relatedOf env C n sub) :
    penv.class? p.1 = some (⟨p.1, aBases env p.2 sub,
      (rflat true env p.2 sub).flatMap (aDecl1 env p.1 p.2 (tvOf env (relatedOf env C n sub) p.2))⟩ : ClassDecl) :=
  hpos.cls ⟨p.1, aBases env p.2 sub, (rflat true env p.2 sub).flatMap
    (aDecl1 env p.1 p.2 (tvOf env (relatedOf env C n sub) p.2))⟩
    (List.mem_flatMap.mpr ⟨p, hp, by rw [habs]; simp [aClass]⟩)

theorem tagged_rt (env : ResultTypes.Env) (penv : Pyd.Env) (M : List Nat) (K F : Nat) (k : Nat)
    (G : GH env penv K F)
    (IH : ValSpec env penv M K F (k + 2)) (C n : String) (sub : List Selection) (hpos : PosOK env penv M C n sub)
    (habs : env.schema.isAbstract n = true)
    (hfu : agfuel sub + K ≤ k + 2) (B : Nat) (hB : ∀ p ∈ relatedOf env C n sub, avneed env p.1 p.2 sub + 4 + F ≤ B)
    (v' : J) (hnd : nodupKeys v' = true)
    (hP : ((Exec.runtimeTypes env.schema n).any fun rt' =>
      Exec.respOK env.schema env.frags (k + 2) rt' (sent true M sub) v') = true)
    (g : Nat) (hg : B ≤ g) :
    RT (taggedWith penv penv.clsFuel (validate penv g) ((relatedOf env C n sub).map fun p => Ann.cls p.1) v') v' := by
  obtain ⟨kvs, rt', p0, rfl, hfind, htag, hrt⟩ := position_pick env penv M K F k G IH C n sub hpos habs hfu B hB v' hnd hP g hg
  have hlits : ∀ p ∈ relatedOf env C n sub,
      typenameLiteral penv penv.clsFuel p.1 = some (sortStr (tvOf env (relatedOf env C n sub) p.2)) := by
    intro p hp
    obtain ⟨hne, hh1, hh2⟩ := hpos.vars p hp
    rw [habs] at hh1
    exact variant_literal env penv K F G p.1 p.2 _ _ sub hh2 (classHead_spec hh1).1 hne (variant_class env penv M C n sub hpos habs p hp)
  rw [taggedWith_variant penv (validate penv g) (fun p => tvOf env (relatedOf env C n sub) p.2) rt' kvs htag p0
    (relatedOf env C n sub) hlits hfind]
  exact hrt

/-! ### smart-mode union (a bare `Union[..]` made `Optional` by `@skip/@include`): the first member that validates -/

theorem mapE_error_of_mem {α β ε : Type} (f : α → Except ε β) : ∀ (xs : List α) (x : α), x ∈ xs →
    (∃ e, f x = .error e) → ∃ e, mapE f xs = .error e
  | [], x, h, _ => by cases h
  | y :: ys, x, h, ⟨e, he⟩ => by
    rcases List.mem_cons.mp h with rfl | h
    · exact ⟨e, by simp [mapE, he]⟩
    · cases hy : f y with
      | error e' => exact ⟨e', by simp [mapE, hy]⟩
      | ok b =>
        obtain ⟨e', he'⟩ := mapE_error_of_mem f ys x h ⟨e, he⟩
        exact ⟨e', by simp [mapE, hy, he']⟩

theorem validate_literal_reject (penv : Pyd.Env) (g : Nat) (vs : List String) (s : String) (h : s ∉ vs) :
    ∃ e, validate penv g (.literal vs) (.str s) = .error e := by
  cases g with
  | zero => exact ⟨_, rfl⟩
  | succ g => exact ⟨.literal, by simp [validate, h]⟩

theorem typenameAlias_ne : (typenameAlias != typenameField) = true := by decide

/-- a variant class whose literal does not contain the runtime type rejects the answer -/
theorem variant_rejects (env : ResultTypes.Env) (penv : Pyd.Env) (K F : Nat) (G : GH env penv K F)
    {mk : Nat → Bool} (cn tn : String) (rts tv : List String) (sel : List Selection)
    (hloc : aSels env mk cn tn rts sel = true) (hset : dupOK env (cnodes true env tn sel) = true) (htvne : tv.isEmpty = false)
    (hc : penv.class? cn = some { name := cn, bases := aBases env tn sel, fields := (rflat true env tn sel).flatMap (aDecl1 env cn tn tv) })
    (kvs : List (String × J)) (tag : String) (htag : J.lookup typenameField kvs = some (.str tag)) (hnot : tag ∉ tv)
    (g : Nat) : ∃ e, validate penv g (.cls cn) (.obj kvs) = .error e := by
  cases g with
  | zero => exact ⟨_, rfl⟩
  | succ g =>
    obtain ⟨dirs, sid, sub0, hx, _⟩ := exists_tn hloc
    obtain ⟨_, _, _, hC⟩ := class_members env penv K F G cn tn rts tv true sel hloc hset hc
    have hd : aDecl env cn tn tv none typenameField dirs sub0 ∈ allFields penv penv.clsFuel cn := by
      have := hC _ ((tnodes_own _ _ _ _ _).mpr hx) (by simp [plainLeaf, nameOf])
      simpa [declOf] using this
    have hfw : ∃ e, fieldWith penv penv.clsFuel (validate penv g) kvs (aDecl env cn tn tv none typenameField dirs sub0) = .error e := by
      obtain ⟨e, he⟩ := validate_literal_reject penv g (sortStr tv) tag (fun h => hnot ((mem_sortStr tag tv).mp h))
      refine ⟨e, ?_⟩
      have hal : (aDecl env cn tn tv none typenameField dirs sub0).alias = some typenameField := by
        rw [aDecl_alias]
        simp only [Option.getD_none, pyFieldName_tn, typenameAlias_ne, if_true]
      have hann : (aDecl env cn tn tv none typenameField dirs sub0).ann = .literal (sortStr tv) := by simp [aDecl, htvne]
      have hdi : (aDecl env cn tn tv none typenameField dirs sub0).discriminator = false := by simp [aDecl, htvne]
      unfold fieldWith
      simp only [hal, htag, hdi, Bool.false_eq_true, if_false, hann, he]
    obtain ⟨e, he⟩ := mapE_error_of_mem _ _ _ hd hfw
    refine ⟨e, ?_⟩
    rw [validate_cls_succ]
    unfold modelWith
    simp only [hc, he]

theorem firstOk_variant (f : Ann → Except VErr PV) (lit : String × String → List String) (tag : String)
    (p0 : String × String) (v : PV) (hv : f (.cls p0.1) = .ok v) :
    ∀ (ps : List (String × String)),
      (∀ p ∈ ps, (lit p).contains tag = false → ∃ e, f (.cls p.1) = .error e) →
      ps.find? (fun p => (lit p).contains tag) = some p0 →
      firstOk f VErr.noUnionMember (ps.map fun p => Ann.cls p.1) = .ok v := by
  intro ps
  induction ps with
  | nil => intro _ h; simp at h
  | cons p rest ih =>
    intro h hfind
    rw [List.find?_cons] at hfind
    simp only [List.map_cons, firstOk]
    cases hc : (lit p).contains tag with
    | true =>
      simp only [hc] at hfind
      cases hfind
      simp only [hv]
    | false =>
      simp only [hc] at hfind
      obtain ⟨e, he⟩ := h p List.mem_cons_self hc
      simp only [he]
      exact ih (fun q hq => h q (List.mem_cons_of_mem _ hq)) hfind

theorem validate_union_succ (penv : Pyd.Env) (g : Nat) (as : List Ann) (j : J) :
    validate penv (g + 1) (.union as) j = firstOk (fun a => validate penv g a j) .noUnionMember as := rfl

theorem smart_rt (env : ResultTypes.Env) (penv : Pyd.Env) (M : List Nat) (K F : Nat) (k : Nat)
    (G : GH env penv K F)
    (IH : ValSpec env penv M K F (k + 2)) (C n : String) (sub : List Selection) (hpos : PosOK env penv M C n sub)
    (habs : env.schema.isAbstract n = true)
    (hfu : agfuel sub + K ≤ k + 2) (B : Nat) (hB : ∀ p ∈ relatedOf env C n sub, avneed env p.1 p.2 sub + 4 + F ≤ B)
    (v' : J) (hnd : nodupKeys v' = true)
    (hP : ((Exec.runtimeTypes env.schema n).any fun rt' =>
      Exec.respOK env.schema env.frags (k + 2) rt' (sent true M sub) v') = true)
    (g : Nat) (hg : B ≤ g) :
    RT (firstOk (fun a => validate penv g a v') .noUnionMember ((relatedOf env C n sub).map fun p => Ann.cls p.1)) v' := by
  obtain ⟨kvs, rt', p0, rfl, hfind, htag, ⟨v, hv, he⟩⟩ := position_pick env penv M K F k G IH C n sub hpos habs hfu B hB v' hnd hP g hg
  refine ⟨v, ?_, he⟩
  refine firstOk_variant (fun a => validate penv g a (.obj kvs)) (fun p => tvOf env (relatedOf env C n sub) p.2) rt' p0 v hv
    (relatedOf env C n sub) ?_ hfind
  intro p hp hnc
  obtain ⟨hne, hh1, hh2⟩ := hpos.vars p hp
  rw [habs] at hh1
  exact variant_rejects env penv K F G p.1 p.2 _ _ sub hh2 (classHead_spec hh1).1 hne (variant_class env penv M C n sub hpos habs p hp)
    kvs rt' htag (by simpa using hnc) g

/-! ### one field -/

theorem wneed_pos (T : TypeRef) : 1 ≤ wneed T := by
  induction T with
  | named n => simp [wneed]
  | list t ih => simp [wneed]
  | nonNull t ih => simpa [wneed] using ih

theorem sent_eq (abs : Bool) (M : List Nat) (sid : Nat) (sub : List Selection) (hmk : M.contains sid = autoTn abs sub)
    (hsub : sub.isEmpty = false) :
    (if M.contains sid && !sub.isEmpty then Marks.typenameSel :: Marks.applySels M sub else Marks.applySels M sub)
      = sent abs M sub := by
  unfold sent
  rw [hmk, hsub]
  cases autoTn abs sub <;> simp

theorem sent_nonempty (abs : Bool) (M : List Nat) (sub : List Selection) (hsub : sub.isEmpty = false) :
    (sent abs M sub).isEmpty = false := by
  unfold sent
  rw [applySels_map]
  cases sub with
  | nil => simp at hsub
  | cons x xs => simp

theorem avneed_variant (env : ResultTypes.Env) (rel : List (String × String)) (sub : List Selection)
    (p : String × String) (hp : p ∈ rel) :
    avneed env p.1 p.2 sub ≤ (rel.map fun p => avneed env p.1 p.2 sub).foldl max 0 :=
  le_foldl_max _ 0 _ (Or.inr (List.mem_map.mpr ⟨p, hp, rfl⟩))

theorem field_rt (env : ResultTypes.Env) (penv : Pyd.Env) (M : List Nat) (K F : Nat) (e : Nat)
    (G : GH env penv K F) (IH : ValSpec env penv M K F e)
    (cn tn : String) (rts tv : List String)
    (alias : Option String) (name : String) (dirs : List Directive) (sid : Nat) (sub : List Selection) (v : J)
    (hname : (name == typenameField) = false)
    (hl : aSel1 env M.contains cn tn rts (.field alias name dirs sid sub) = true)
    (hcls : ∀ c ∈ aExtra1 env cn tn (.field alias name dirs sid sub), penv.class? c.name = some c)
    (hfu : agfuel1 (.field alias name dirs sid sub) + K ≤ e + 1)
    (hnd : nodupKeys v = true)
    (hc : Exec.complete (fun n v =>
        if (if M.contains sid && !sub.isEmpty then Marks.typenameSel :: Marks.applySels M sub
            else Marks.applySels M sub).isEmpty then Exec.leafOk env.schema n v
        else (Exec.runtimeTypes env.schema n).any fun rt' =>
          Exec.respOK env.schema env.frags e rt'
            (if M.contains sid && !sub.isEmpty then Marks.typenameSel :: Marks.applySels M sub
             else Marks.applySels M sub) v)
        (fieldT env tn name) true v = true) :
    ∀ g, avneed1 env cn tn (.field alias name dirs sid sub) + F ≤ g →
      RT (fieldRec penv penv.clsFuel (validate penv g) (aDecl env cn tn tv alias name dirs sub) v) v := by
  simp only [aSel1, Bool.and_eq_true, hname, Bool.false_eq_true, if_false] at hl
  obtain ⟨hmix, ⟨hfd, _⟩, hcase⟩ := hl
  intro g hg
  simp only [avneed1, hname, Bool.or_false] at hg
  by_cases hsub : sub.isEmpty = true
  · -- leaf
    rw [if_pos hsub] at hcase
    have hsubs : (if M.contains sid && !sub.isEmpty then Marks.typenameSel :: Marks.applySels M sub
            else Marks.applySels M sub).isEmpty = true := by
      have : sub = [] := by simpa using hsub
      subst this
      simp [Marks.applySels]
    simp only [hsubs, if_true] at hc
    simp only [hsub, if_true] at hg
    rw [complete_leaf] at hc
    have hdecl : aDecl env cn tn tv alias name dirs sub =
        { py := pyFieldName env (alias.getD name),
          ann := condAnn (wrapAnn (ResultLeaf.leafBase env (fieldT env tn name).base) true (fieldT env tn name)) dirs,
          alias := if pyFieldName env (alias.getD name) != alias.getD name then some (alias.getD name) else none,
          discriminator := false, defaultNone := hasConditionalDirective dirs } := by
      simp only [aDecl, hname, hsub, if_true, Bool.false_and, Bool.false_eq_true, if_false, aDecl_leaf_ann]
      rw [isUnionAnn_condAnn _ _ (isUnionAnn_wrapAnn _ (by rw [ResultLeaf.leafBase_eq]; exact Or.inl ⟨_, rfl⟩) _ _)]
    rw [hdecl]
    simp only [fieldRec, Bool.false_eq_true, if_false]
    refine condAnn_rt penv _ dirs v (wneed (fieldT env tn name) + 1) ?_ g (by omega)
    intro fuel hfuel
    rw [← leafAnn_eq_wrapAnn]
    obtain ⟨pv, hpv, hd⟩ := ResultLeaf.validate_leaf_dump env penv G.ha (fieldT env tn name) (isLeafName_spec hcase)
      true v fuel (by rw [need_eq_wneed]; exact hfuel) hc
    exact ⟨pv, hpv, by rw [hd]; exact eqv_refl v hnd⟩
  · -- composite
    have hsub' : sub.isEmpty = false := by simpa using hsub
    rw [if_neg hsub] at hcase
    simp only [Bool.and_eq_true, List.all_eq_true, beq_iff_eq, Bool.not_eq_true', List.any_eq_true] at hcase
    obtain ⟨⟨⟨⟨hkind, hmk⟩, hne⟩, hcov⟩, hvars⟩ := hcase
    simp only [hsub', Bool.false_eq_true, if_false] at hg
    have hfu' : agfuel sub + 2 + K ≤ e + 1 := by simpa [agfuel1, hsub'] using hfu
    rw [sent_eq (env.schema.isAbstract (subType env tn name)) M sid sub hmk hsub'] at hc
    simp only [sent_nonempty _ M sub hsub', Bool.false_eq_true, if_false] at hc
    rw [aExtra1_field _ _ _ _ _ _ _ _ hsub' hname] at hcls
    have hpos : PosOK env penv M (subClass env cn alias name) (subType env tn name) sub :=
      ⟨fun rt' hrt' => by
          obtain ⟨p, hp, hpc⟩ := hcov rt' hrt'
          exact ⟨p, hp, by simpa using hpc⟩,
        fun p hp => by
          have := hvars p hp
          exact ⟨by simpa using this.1.1, this.1.2, this.2⟩, hcls⟩
    have hagf : agfuel sub + K ≤ e := by omega
    have hBv : ∀ p ∈ relatedOf env (subClass env cn alias name) (subType env tn name) sub,
        avneed env p.1 p.2 sub + 4 + F ≤
          ((relatedOf env (subClass env cn alias name) (subType env tn name) sub).map fun p => avneed env p.1 p.2 sub).foldl max 0 + 4 + F := by
      intro p hp
      have := avneed_variant env _ sub p hp
      omega
    by_cases hmulti : isMulti env (subType env tn name) sub = true
    · -- several variants: `Union[...]`
      have habs := isMulti_abs hmulti
      rw [habs] at hc
      have hge : 2 ≤ agfuel sub := agfuel_ge sub
      obtain ⟨k, rfl⟩ : ∃ k, e = k + 2 := ⟨e - 2, by omega⟩
      have hbase : baseAnnOf env (subClass env cn alias name) (fieldT env tn name).base sub =
          .union ((relatedOf env (subClass env cn alias name) (subType env tn name) sub).map fun p => Ann.cls p.1) := by
        show baseAnnOf env (subClass env cn alias name) (subType env tn name) sub = _
        simp [baseAnnOf, hmulti]
      have hallcls : AllCls ((relatedOf env (subClass env cn alias name) (subType env tn name) sub).map fun p => Ann.cls p.1) := by
        intro a' ha'
        obtain ⟨p, _, rfl⟩ := List.mem_map.mp ha'
        exact ⟨_, rfl⟩
      have htag := fun (v' : J) (hnd' : nodupKeys v' = true) hP g' hg' =>
        tagged_rt env penv M K F k G IH (subClass env cn alias name) (subType env tn name) sub hpos habs hagf _ hBv
          v' hnd' hP g' hg'
      by_cases hbare : bareT true (fieldT env tn name) = true
      · -- no wrapper
        rw [complete_bare _ _ _ _ hbare] at hc
        by_cases hcd : hasConditionalDirective dirs = true
        · -- `@skip/@include` wraps the bare union into `Optional[Union[..]]`: smart mode
          have hann : condAnn (annotateTop (wrapAnn (baseAnnOf env (subClass env cn alias name) (fieldT env tn name).base sub)
              true (fieldT env tn name))) dirs =
              .optional (.union ((relatedOf env (subClass env cn alias name) (subType env tn name) sub).map fun p => Ann.cls p.1)) := by
            rw [hbase, wrapAnn_bare _ _ _ hbare, annotateTop_union_cls _ hallcls]
            simp [condAnn, hcd, isNullableAnn]
          simp only [fieldRec, aDecl, hname, hsub', Bool.false_and, Bool.false_eq_true, if_false, hann, isUnionAnn]
          have hsm := fun (v' : J) (hnd' : nodupKeys v' = true) hP g' hg' =>
            smart_rt env penv M K F k G IH (subClass env cn alias name) (subType env tn name) sub hpos habs hagf _ hBv
              v' hnd' hP g' hg'
          obtain ⟨g2, rfl⟩ : ∃ g2, g = g2 + 2 := ⟨g - 2, by have := wneed_pos (fieldT env tn name); omega⟩
          rw [ResultLeaf.validate_optional_succ]
          cases v with
          | null => simp at hc
          | bool b => rw [validate_union_succ]; exact hsm _ hnd hc g2 (by omega)
          | num m ex => rw [validate_union_succ]; exact hsm _ hnd hc g2 (by omega)
          | str x => rw [validate_union_succ]; exact hsm _ hnd hc g2 (by omega)
          | arr xs => rw [validate_union_succ]; exact hsm _ hnd hc g2 (by omega)
          | obj kvs => rw [validate_union_succ]; exact hsm _ hnd hc g2 (by omega)
        · -- the field itself is the discriminated union
          have hcond : hasConditionalDirective dirs = false := by simpa using hcd
          have hann : condAnn (annotateTop (wrapAnn (baseAnnOf env (subClass env cn alias name) (fieldT env tn name).base sub)
              true (fieldT env tn name))) dirs =
              .union ((relatedOf env (subClass env cn alias name) (subType env tn name) sub).map fun p => Ann.cls p.1) := by
            rw [hbase, wrapAnn_bare _ _ _ hbare, annotateTop_union_cls _ hallcls]
            simp [condAnn, hcond]
          simp only [fieldRec, aDecl, hname, hsub', Bool.false_and, Bool.false_eq_true, if_false, hann, isUnionAnn, if_true]
          cases v with
          | null => simp at hc
          | bool b => exact htag _ hnd hc g (by omega)
          | num m ex => exact htag _ hnd hc g (by omega)
          | str x => exact htag _ hnd hc g (by omega)
          | arr xs => exact htag _ hnd hc g (by omega)
          | obj kvs => exact htag _ hnd hc g (by omega)
      · have hbare' : bareT true (fieldT env tn name) = false := by simpa using hbare
        have hann : condAnn (annotateTop (wrapAnn (baseAnnOf env (subClass env cn alias name) (fieldT env tn name).base sub)
            true (fieldT env tn name))) dirs =
            condAnn (wrapAnn (.disc (.union ((relatedOf env (subClass env cn alias name) (subType env tn name) sub).map
              fun p => Ann.cls p.1))) true (fieldT env tn name)) dirs := by
          rw [hbase, annotateTop_wrap_union _ _ _ hbare']
        have hdisc : isUnionAnn (condAnn (wrapAnn (.disc (.union ((relatedOf env (subClass env cn alias name)
            (subType env tn name) sub).map fun p => Ann.cls p.1))) true (fieldT env tn name)) dirs) = false :=
          isUnionAnn_condAnn _ _ (isUnionAnn_wrap_nonbare _ _ _ hbare')
        simp only [fieldRec, aDecl, hname, hsub', Bool.false_and, Bool.false_eq_true, if_false, hann, hdisc]
        refine condAnn_rt penv _ dirs v
          (((relatedOf env (subClass env cn alias name) (subType env tn name) sub).map fun p => avneed env p.1 p.2 sub).foldl max 0
            + 4 + F + 1 + wneed (fieldT env tn name)) ?_ g (by omega)
        intro fuel hfuel
        refine wrap_rt penv _ _ _ (fieldT env tn name) ?_ true v fuel hfuel hnd hc
        intro g' hg' v' hnd' hP
        obtain ⟨g'', rfl⟩ : ∃ g'', g' = g'' + 1 := ⟨g' - 1, by omega⟩
        rw [validate_disc_succ]
        exact htag v' hnd' hP g'' (by omega)
    · -- one variant: a class
      have hmulti' : isMulti env (subType env tn name) sub = false := by simpa using hmulti
      have hrel := relatedOf_single (C := subClass env cn alias name) hmulti'
      have hdecl : aDecl env cn tn tv alias name dirs sub =
          { py := pyFieldName env (alias.getD name),
            ann := condAnn (wrapAnn (.cls (subClass env cn alias name)) true (fieldT env tn name)) dirs,
            alias := if pyFieldName env (alias.getD name) != alias.getD name then some (alias.getD name) else none,
            discriminator := false, defaultNone := hasConditionalDirective dirs } := by
        have hb : baseAnnOf env (subClass env cn alias name) (fieldT env tn name).base sub = .cls (subClass env cn alias name) := by
          show baseAnnOf env (subClass env cn alias name) (subType env tn name) sub = _
          simp [baseAnnOf, hmulti']
        simp only [aDecl, hname, hsub', Bool.false_and, Bool.false_eq_true, if_false, hb, annotateTop_wrapAnn _ (Or.inr ⟨_, rfl⟩)]
        rw [isUnionAnn_condAnn _ _ (isUnionAnn_wrapAnn _ (Or.inr ⟨_, rfl⟩) _ _)]
      rw [hdecl]
      simp only [fieldRec, Bool.false_eq_true, if_false]
      have hp0 : (subClass env cn alias name, subType env tn name) ∈
          relatedOf env (subClass env cn alias name) (subType env tn name) sub := by rw [hrel]; simp
      refine condAnn_rt penv _ dirs v
        (avneed env (subClass env cn alias name) (subType env tn name) sub + 4 + F + wneed (fieldT env tn name)) ?_ g (by
          have := hBv _ hp0
          simp only at this
          omega)
      intro fuel hfuel
      refine wrap_rt penv (.cls (subClass env cn alias name)) _ _ (fieldT env tn name) ?_ true v fuel hfuel hnd hc
      intro g' hg' v' hnd' hP
      obtain ⟨rt', hrt1, hresp⟩ := List.any_eq_true.mp hP
      obtain ⟨p, hp, hpc⟩ := hpos.cover rt' hrt1
      have hpe : p = (subClass env cn alias name, subType env tn name) := by rw [hrel] at hp; simpa using hp
      subst hpe
      exact variant_rt env penv M K F e IH _ _ sub hpos hagf _ hp0 rt' hrt1 hpc v' hnd' hresp g' hg'

/-- a leaf field -/
theorem leaf_rt (env : ResultTypes.Env) (penv : Pyd.Env) (ha : ResultLeaf.EnvAgrees env penv) (T : TypeRef)
    (hleaf : isLeafName env T.base = true) (dirs : List Directive) (v : J) (hnd : nodupKeys v = true)
    (hc : Exec.conforms env.schema true T v = true) :
    ∀ g, wneed T + 2 ≤ g → RT (validate penv g (condAnn (wrapAnn (ResultLeaf.leafBase env T.base) true T) dirs) v) v := by
  intro g hg
  refine condAnn_rt penv _ dirs v (wneed T + 1) ?_ g (by omega)
  intro fuel hfuel
  rw [← leafAnn_eq_wrapAnn]
  obtain ⟨pv, hpv, hd⟩ := ResultLeaf.validate_leaf_dump env penv ha T (isLeafName_spec hleaf)
    true v fuel (by rw [need_eq_wneed]; exact hfuel) hc
  exact ⟨pv, hpv, by rw [hd]; exact eqv_refl v hnd⟩

theorem conforms_string (env : ResultTypes.Env)
    (h : env.schema.kindOf? "String" = none ∨ env.schema.kindOf? "String" = some .scalar) (s : String) :
    Exec.conforms env.schema true tnT (.str s) = true := by
  unfold tnT
  simp only [Exec.conforms, Exec.leafOk]
  unfold Schema.kindOf? at h
  cases hg : env.schema.get? "String" with
  | none => simp
  | some t =>
    rw [hg] at h
    have hk : t.kind = .scalar := by
      rcases h with h | h
      · simp at h
      · simpa using h
    simp [hk]

/-! ### one class -/

theorem avneed_mem (env : ResultTypes.Env) (cn tn : String) (sel : List Selection) (s : Selection) (h : s ∈ sel) :
    avneed1 env cn tn s ≤ avneed env cn tn sel := by
  induction sel with
  | nil => cases h
  | cons x rest ih =>
    simp only [avneed]
    rcases List.mem_cons.mp h with rfl | h
    · omega
    · have := ih h; omega

theorem avneed_flat (env : ResultTypes.Env) (cn tn : String) (sel : List Selection) (x : Selection)
    (h : x ∈ flatG env tn sel) : avneed1 env cn tn x ≤ avneed env cn tn sel := by
  obtain ⟨s, hs, hxs⟩ := List.mem_flatMap.mp h
  have h1 := avneed_mem env cn tn sel s hs
  cases s with
  | field a n d sid sub =>
    simp only [flat1, List.mem_singleton] at hxs
    subst hxs; exact h1
  | spread n d => simp [flat1] at hxs
  | inline on d sid ss =>
    cases on with
    | none => simp [flat1] at hxs
    | some c =>
      simp only [flat1] at hxs
      by_cases hi : incl env c tn = true
      · simp only [hi, if_true] at hxs
        have := avneed_mem env cn tn ss x (List.mem_filter.mp hxs).1
        simp only [avneed1, hi, if_true] at h1
        omega
      · simp [hi] at hxs

theorem mem_rflat_notTn {a : Bool} {env : ResultTypes.Env} {tn : String} {sel : List Selection}
    {alias : Option String} {name : String} {dirs : List Directive} {sid : Nat} {sub : List Selection}
    (h : Selection.field alias name dirs sid sub ∈ rflat a env tn sel) (hn : (name == typenameField) = false) :
    Selection.field alias name dirs sid sub ∈ flatG env tn sel := by
  unfold rflat at h
  rcases List.mem_append.mp h with h1 | h1
  · split at h1
    · have : Selection.field alias name dirs sid sub = Marks.typenameSel := by simpa using h1
      simp only [Marks.typenameSel, Selection.field.injEq] at this
      rw [this.2.1] at hn
      simp at hn
    · cases h1
  · exact h1

theorem class_rt (env : ResultTypes.Env) (penv : Pyd.Env) (M : List Nat) (K F : Nat) (G : GH env penv K F) (e : Nat)
    (IH : ValSpec env penv M K F e) : ValSpec env penv M K F (e + 1) := by
  intro cn tn rt rts sel tv a j hrt hhead hloc hcls hfuel hresp hndj vfuel hvf
  have hge := agfuel_ge sel
  obtain ⟨k, rfl⟩ : ∃ k, e = k + 1 := ⟨e - 1, by omega⟩
  obtain ⟨kvs, rfl⟩ := respOK_isObj _ _ _ _ _ _ hresp
  obtain ⟨g, rfl⟩ : ∃ g, vfuel = g + 1 := ⟨vfuel - 1, by omega⟩
  obtain ⟨hset, htvc⟩ := classHead_spec hhead
  obtain ⟨hD1, hD2, hD3⟩ := dupOK_spec hset
  have hKk : K ≤ k := by omega
  obtain ⟨hr1, hr2⟩ := resp_facts env K G.hfr M rt hrt a sel hloc hset k hKk kvs hresp
  have hTf := tnodes_isField env K G.hfr a hloc
  have hfl := rflat_spec a hloc
  have hcont := aSels_contentOK hloc
  have hcn : ∀ t ∈ tnodes a env tn sel, t.2 ∈ cnodes a env tn sel :=
    fun t ht => by rw [← tnodes_snd]; exact List.mem_map.mpr ⟨t, ht, rfl⟩
  have hsubkeys : ∀ key ∈ kvs.map (·.1), key ∈ (cnodes a env tn sel).map keyOf := by
    intro key hk
    obtain ⟨p, hp, rfl⟩ := List.mem_map.mp hk
    obtain ⟨t, ht, htk⟩ := hr1 p hp
    rw [← htk]
    exact List.mem_map.mpr ⟨t.2, hcn t ht, rfl⟩
  obtain ⟨hkn, hkv, hklk⟩ := nodupKvs_spec kvs (by simpa [nodupKeys] using hndj)
  have hc0 : penv.class? cn = some { name := cn, bases := aBases env tn sel, fields := (rflat a env tn sel).flatMap (aDecl1 env cn tn tv) } :=
    hcls ⟨cn, aBases env tn sel, (rflat a env tn sel).flatMap (aDecl1 env cn tn tv)⟩ (by simp [aClass])
  obtain ⟨hA2, hA1, hA3, _⟩ := class_members env penv K F G cn tn rts tv a sel hloc hset hc0
  have hmixIH := C01Mix.val_spec env penv K G.hfr G.ha G.hbm G.frags (by have := G.depth; omega) (k + 1)
  -- what is known about a plain leaf node: its field exists on the runtime type with the class's field type, is a leaf, and the
  -- validation fuel covers its wrappers
  have hleafnode : ∀ t ∈ tnodes a env tn sel, plainLeaf t.2 = true →
      (nameOf t.2 == Tables.typenameFieldName) = false ∧
      (∃ fd, env.schema.fieldOf? rt (nameOf t.2) = some fd ∧ fd.type = fieldT env tn (nameOf t.2)) ∧
      isLeafName env (fieldT env tn (nameOf t.2)).base = true ∧ wneed (fieldT env tn (nameOf t.2)) + 2 ≤ g := by
    intro t ht hpl
    have htf := hTf t ht
    obtain ⟨o, y⟩ := t
    cases y with
    | spread g' d' => simp [isField] at htf
    | inline on d' sid' ss' => simp [isField] at htf
    | field alias name dirs sid sub =>
      simp only [plainLeaf, subOf, nameOf, Bool.and_eq_true, bne_iff_ne, ne_eq] at hpl
      obtain ⟨hsub, hn⟩ := hpl
      have hn' : (name == typenameField) = false := by simpa using hn
      simp only [nameOf]
      cases o with
      | none =>
        have hx : Selection.field alias name dirs sid sub ∈ rflat a env tn sel := (tnodes_own _ _ _ _ _).mp ht
        obtain ⟨_, hlx⟩ := hfl _ hx
        have hxf := mem_rflat_notTn hx hn'
        simp only [aSel1, hn', Bool.false_eq_true, if_false, Bool.and_eq_true, List.all_eq_true, beq_iff_eq, hsub, if_true] at hlx
        obtain ⟨_, ⟨hfd, htypes⟩, hleaf⟩ := hlx
        obtain ⟨fd, hfd'⟩ := Option.isSome_iff_exists.mp hfd
        have hT : fieldT env tn name = fd.type := by simp [fieldT, hfd']
        have hrtfd := htypes rt hrt
        rw [hfd'] at hrtfd
        refine ⟨hn', ?_, hleaf, ?_⟩
        · cases hfr : env.schema.fieldOf? rt name with
          | none => rw [hfr] at hrtfd; simp at hrtfd
          | some fd2 =>
            rw [hfr] at hrtfd
            exact ⟨fd2, rfl, by rw [hT]; simpa using hrtfd⟩
        · have := avneed_flat env cn tn sel _ hxf
          simp only [avneed1, hsub, Bool.true_or, if_true] at this
          omega
      | some o' =>
        obtain ⟨g0, hocc, hp⟩ := (tnodes_inh _ _ _ _ _ _).mp ht
        obtain ⟨hkind, hall, f, hf, hon⟩ := occurs_spec hloc hocc
        have hrt' : rt = tn := hall rt hrt
        obtain ⟨hfm, _⟩ := C01Mix.find_mem hf
        obtain ⟨_, _, _, hlocf, hfull, _⟩ := C01Mix.fragOK_spec (G.hfr f hfm)
        obtain ⟨hstab, hspec⟩ := inhOf_spec env K G.hfr hf
        obtain ⟨_, hlx, _⟩ := hspec _ hp
        simp only at hlx
        rw [hon] at hlx
        simp only [C01Mix.mLocal1, Bool.and_eq_true, hsub, if_true] at hlx
        obtain ⟨⟨⟨_, _⟩, hfd⟩, hleaf⟩ := hlx
        obtain ⟨fd, hfd'⟩ := Option.isSome_iff_exists.mp hfd
        have hT : fieldT env tn name = fd.type := by simp [fieldT, hfd']
        have hm : (o', Selection.field alias name dirs sid sub) ∈ C01Mix.mflat env K (pascal f.name) f.sel := by
          rw [hstab K (Nat.le_refl K)]; exact hp
        obtain ⟨hn1, _⟩ := C01Mix.mneed_field env K G.hfr K (pascal f.name) f.on f.sel hfull hlocf o' alias name dirs sid sub hm
        rw [hon] at hn1
        have hFb := G.need f hfm
        rw [hon] at hFb
        exact ⟨hn', ⟨fd, by rw [hrt']; exact hfd', hT.symm⟩, hleaf, by omega⟩
  obtain ⟨fs, hfs, heq, hkeysD⟩ := mapE_fields (fieldWith penv penv.clsFuel (validate penv g) kvs) kvs
    (fun d => d.alias.getD d.py) (allFields penv penv.clsFuel cn) (by
    intro d hd
    obtain ⟨t, ht, htf, hpy, hform⟩ := hA1 d hd
    obtain ⟨gr, hgk, hgn, hgok, hgc, hgl, hgu⟩ := hr2 t ht
    have hkeymem : keyOf t.2 ∈ (cnodes a env tn sel).map keyOf := List.mem_map.mpr ⟨t.2, hcn t ht, rfl⟩
    have hpylk : pyFieldName env (keyOf t.2) = keyOf t.2 ∨ J.lookup (pyFieldName env (keyOf t.2)) kvs = none := by
      rcases hD3 _ (hcn t ht) with h | h
      · exact Or.inl h
      · exact Or.inr ((lookup_none_iff _ _).mpr (fun hm => h (hsubkeys _ hm)))
    rcases hform with ⟨hpl, rfl⟩ | ⟨hpl, hal, hdisc, ⟨t', ht', hk', hann⟩, hdn⟩
    · -- the node owns its key: a composite field or `__typename`
      have hg := hgok
      rw [hgu hpl] at hg
      obtain ⟨o, y⟩ := t
      cases y with
      | spread g' d' => simp [isField] at htf
      | inline on d' sid' ss' => simp [isField] at htf
      | field alias name dirs sid sub =>
      simp only [declOf_key _ _ _ _ _ htf, keyOf]
      simp only [keyOf] at hpylk
      cases o with
      | none =>
        have hx : Selection.field alias name dirs sid sub ∈ rflat a env tn sel := (tnodes_own _ _ _ _ _).mp ht
        obtain ⟨_, hlx⟩ := hfl _ hx
        simp only [declOf]
        have hfw := fieldWith_gen penv penv.clsFuel (validate penv g) kvs (aDecl env cn tn tv alias name dirs sub)
          (alias.getD name) (by rw [aDecl_alias, aDecl_py]) (by rw [aDecl_py]; exact hpylk)
        simp only [sentOf] at hg
        rw [applySel_field] at hg
        simp only [groupOK, collOf, isConditional_eq, Bool.false_or] at hg
        by_cases hname : (name == typenameField) = true
        · -- `__typename`
          have hlx' := hlx
          simp only [aSel1, hname, if_true, Bool.and_eq_true, Bool.not_eq_true'] at hlx'
          obtain ⟨_, ⟨⟨_, hcond⟩, _⟩⟩ := hlx'
          have hany : (rflat a env tn sel).any isTnSel = true :=
            List.any_eq_true.mpr ⟨_, hx, by simpa [isTnSel] using hname⟩
          obtain ⟨hroot, hrts⟩ := htvc hany
          have hname2 : (name == Tables.typenameFieldName) = true := hname
          cases hlk : J.lookup (alias.getD name) kvs with
          | none =>
            rw [hlk, hcond] at hg
            cases hg
          | some v =>
            right
            rw [hlk] at hg
            simp only [hname2, if_true] at hg
            cases v <;> simp at hg
            have hs := hg.symm
            subst hs
            by_cases hte : tv.isEmpty = true
            · -- root class: `__typename: str`
              obtain ⟨_, hleaf, hkS⟩ := rootTnOK_spec (hroot hte)
              have hsubE : sub.isEmpty = true := by
                have hlx' := hlx
                simp only [aSel1, hname, if_true, Bool.and_eq_true] at hlx'
                exact hlx'.2.2
              have hdecl : aDecl env cn tn tv alias name dirs sub =
                  { py := pyFieldName env (alias.getD name),
                    ann := condAnn (wrapAnn (ResultLeaf.leafBase env tnT.base) true tnT) dirs,
                    alias := if pyFieldName env (alias.getD name) != alias.getD name then some (alias.getD name) else none,
                    discriminator := false, defaultNone := hasConditionalDirective dirs } := by
                simp only [aDecl, hname, hte, Bool.not_true, Bool.and_false, Bool.false_eq_true, if_false, if_true, hsubE,
                  aDecl_leaf_ann]
                rw [isUnionAnn_condAnn _ _ (isUnionAnn_wrapAnn _ (by rw [ResultLeaf.leafBase_eq]; exact Or.inl ⟨_, rfl⟩) _ _)]
              obtain ⟨pv, hpv, hev⟩ := leaf_rt env penv G.ha tnT hleaf dirs (.str rt) (by simp [nodupKeys])
                (conforms_string env hkS rt) g (by simp [tnT, wneed]; omega)
              refine ⟨_, pv, _, _, rfl, ?_, aDecl_key env cn tn tv alias name dirs sub, hev⟩
              rw [hfw]
              simp only [hlk, fieldRec, hdecl, Bool.false_eq_true, if_false, hpv]
            · have hte' : tv.isEmpty = false := by simpa using hte
              obtain ⟨g', rfl⟩ : ∃ g', g = g' + 1 := ⟨g - 1, by omega⟩
              refine ⟨_, .str rt, _, _, rfl, ?_, aDecl_key env cn tn tv alias name dirs sub, by simp [dump, J.eqv]⟩
              rw [hfw]
              simp only [hlk, fieldRec, aDecl, hname, hte', Bool.not_false, Bool.and_self, if_true, Bool.false_eq_true, if_false]
              rw [validate_literal_succ penv g' _ rt ((mem_sortStr rt tv).mpr (hrts hte' rt hrt))]
        · have hname' : (name == typenameField) = false := by simpa using hname
          have hname2 : (name == Tables.typenameFieldName) = false := hname'
          have hxf := mem_rflat_notTn hx hname'
          cases hlk : J.lookup (alias.getD name) kvs with
          | none =>
            left
            refine ⟨rfl, ?_⟩
            rw [hlk] at hg
            have hd' : (aDecl env cn tn tv alias name dirs sub).defaultNone = true := by
              simp only [aDecl, hname', Bool.false_and, Bool.false_eq_true, if_false]
              exact hg
            rw [hfw]
            simp only [hlk, hd', if_true]
          | some v =>
            right
            rw [hlk] at hg
            simp only [hname2, Bool.false_eq_true, if_false] at hg
            have hlx' := hlx
            simp only [aSel1, hname', Bool.false_eq_true, if_false, Bool.and_eq_true, List.all_eq_true, beq_iff_eq] at hlx'
            obtain ⟨_, ⟨hfd, htypes⟩, _⟩ := hlx'
            obtain ⟨fd, hfd'⟩ := Option.isSome_iff_exists.mp hfd
            have hT : fieldT env tn name = fd.type := by simp [fieldT, hfd']
            have hrtfd := htypes rt hrt
            rw [hfd'] at hrtfd
            cases hfr : env.schema.fieldOf? rt name with
            | none => rw [hfr] at hrtfd; simp at hrtfd
            | some fd2 =>
              rw [hfr] at hrtfd hg
              have hty : fd2.type = fieldT env tn name := by rw [hT]; simpa using hrtfd
              simp only [hty] at hg
              obtain ⟨pv, hpv, hev⟩ := field_rt env penv M K F (k + 1) G IH cn tn rts tv alias name dirs sid sub v hname' hlx
                (fun c hc => hcls c (by
                  simp only [aClass]
                  apply List.mem_cons_of_mem
                  rw [← rflat_extra env cn tn a sel hcont]
                  exact List.mem_flatMap.mpr ⟨_, hx, hc⟩))
                (by have := agfuel_rflat a env tn sel _ hx; omega)
                (hkv _ (lookup_mem hlk)) hg g (by have := avneed_flat env cn tn sel _ hxf; omega)
              refine ⟨v, pv, _, _, rfl, ?_, aDecl_key env cn tn tv alias name dirs sub, hev⟩
              rw [hfw]
              simp only [hlk, hpv]
      | some o' =>
        -- a composite field node inherited from a mixin fragment: the mixin tier's field lemma
        obtain ⟨g0, hocc, hp⟩ := (tnodes_inh _ _ _ _ _ _).mp ht
        obtain ⟨hkind, hall, f, hf, hon⟩ := occurs_spec hloc hocc
        have hrt' : rt = tn := hall rt hrt
        obtain ⟨hfm, _⟩ := C01Mix.find_mem hf
        obtain ⟨_, _, _, hlocf, hfull, _⟩ := C01Mix.fragOK_spec (G.hfr f hfm)
        obtain ⟨hstab, hspec⟩ := inhOf_spec env K G.hfr hf
        obtain ⟨_, hlx, horig⟩ := hspec _ hp
        simp only at hlx horig
        rw [hon] at hlx
        simp only [declOf]
        have hfw := fieldWith_plain penv penv.clsFuel (validate penv g) kvs (fieldDecl env o' tn alias name dirs sub)
          (alias.getD name) rfl rfl hpylk
        simp only [sentOf, groupOK, collOf] at hg
        cases hlk : J.lookup (alias.getD name) kvs with
        | none =>
          left
          refine ⟨rfl, ?_⟩
          rw [hlk] at hg
          have hd' : (fieldDecl env o' tn alias name dirs sub).defaultNone = true := by
            simpa [fieldDecl, Exec.isConditional, hasConditionalDirective] using hg
          rw [hfw]
          simp only [hlk, hd', if_true]
        | some v =>
          right
          rw [hlk] at hg
          have hlx' := hlx
          simp only [C01Mix.mLocal1, Bool.and_eq_true] at hlx'
          obtain ⟨⟨⟨hname, _⟩, hfd⟩, _⟩ := hlx'
          have hname' : (name == Tables.typenameFieldName) = false := by simpa [typenameField] using hname
          obtain ⟨fd, hfd'⟩ := Option.isSome_iff_exists.mp hfd
          have hT : fieldT env tn name = fd.type := by simp [fieldT, hfd']
          rw [hrt'] at hg
          simp only [hname', Bool.false_eq_true, if_false, hfd', ← hT] at hg
          have hm : (o', Selection.field alias name dirs sid sub) ∈ C01Mix.mflat env K (pascal f.name) f.sel := by
            rw [hstab K (Nat.le_refl K)]; exact hp
          obtain ⟨hn1, hn2⟩ := C01Mix.mneed_field env K G.hfr K (pascal f.name) f.on f.sel hfull hlocf o' alias name dirs sid sub hm
          rw [hon] at hn1 hn2
          have hFb := G.need f hfm
          rw [hon] at hFb
          have hsubcls : ∀ c ∈ C01Mix.mExtra1 env o' tn (.field alias name dirs sid sub), penv.class? c.name = some c := by
            intro c hc
            rcases horig with ⟨rfl, hx⟩ | ⟨f', hf', rfl, hx, hon'⟩
            · refine G.frags f hfm c ?_
              rw [← hon] at hc
              exact List.mem_cons_of_mem _ (C01Mix.mem_mExtra hx hc)
            · refine G.frags f' hf' c ?_
              rw [← hon, ← hon'] at hc
              exact List.mem_cons_of_mem _ (C01Mix.mem_mExtra hx hc)
          have hsub' : sub.isEmpty = false := by
            cases hs : sub.isEmpty with
            | false => rfl
            | true =>
              simp only [plainLeaf, subOf, nameOf, hs, Bool.true_and, bne_eq_false_iff_eq] at hpl
              rw [hpl] at hname
              simp at hname
          obtain ⟨k', hk'lt, hk'full, hk'b⟩ := hn2 hsub'
          obtain ⟨pv, hpv, hev⟩ := C01Mix.field_rt_mix env penv K (k + 1) G.ha hmixIH o' tn alias name dirs sid sub v hlx hsubcls
            (hkv _ (lookup_mem hlk)) hg k' (fun _ => ⟨by omega, by omega, hk'full⟩) g
            (by simp only [hsub', Bool.false_eq_true, if_false]; omega)
          refine ⟨v, pv, _, _, rfl, ?_, fieldDecl_key env o' tn alias name dirs sub, hev⟩
          rw [hfw]
          simp only [hlk, hpv]
    · -- a key reached by leaf selections (one or several): the merged declaration
      have hkd : d.alias.getD d.py = keyOf t.2 := by
        rw [hal, hpy]
        by_cases h : pyFieldName env (keyOf t.2) = keyOf t.2
        · simp [h]
        · simp [h]
      simp only [hkd]
      have hfw := fieldWith_gen penv penv.clsFuel (validate penv g) kvs d (keyOf t.2) (by rw [hal, hpy]) (by rw [hpy]; exact hpylk)
      -- the node `t'` whose annotation survived: a plain leaf of the same field
      have hpl' : plainLeaf t'.2 = true ∧ nameOf t'.2 = nameOf t.2 := by
        rcases hD1 t.2 (hcn t ht) with h | h
        · have := unique_tnode h ht ht' hk'
          rw [this]; exact ⟨hpl, rfl⟩
        · exact h t'.2 (hcn t' ht') hk'
      have hannE : d.ann = condAnn (wrapAnn (ResultLeaf.leafBase env (fieldT env tn (nameOf t.2)).base) true
          (fieldT env tn (nameOf t.2))) (dirsOf t'.2) := by
        rw [hann, declOf_plainLeaf env cn tn tv t' (hTf t' ht') hpl'.1, hpl'.2]
      obtain ⟨hnm, ⟨fd, hfd, hfdT⟩, hleaf, hfuelT⟩ := hleafnode t ht hpl
      have hg := hgok
      simp only [groupOK, hgk, hgn] at hg
      cases hlk : J.lookup (keyOf t.2) kvs with
      | none =>
        left
        refine ⟨rfl, ?_⟩
        rw [hlk] at hg
        have hdn' : d.defaultNone = true := by
          cases hdv : d.defaultNone with
          | true => rfl
          | false =>
            obtain ⟨t2, ht2, hk2, hc2⟩ := hdn hdv
            rw [hgc hg t2 ht2 hk2] at hc2
            cases hc2
        rw [hfw]
        simp only [hlk, hdn', if_true]
      | some v =>
        right
        rw [hlk] at hg
        simp only [hnm, Bool.false_eq_true, if_false, hfd, hgl hpl, List.isEmpty_nil, if_true, hfdT] at hg
        rw [complete_leaf] at hg
        obtain ⟨pv, hpv, hev⟩ := leaf_rt env penv G.ha (fieldT env tn (nameOf t.2)) hleaf (dirsOf t'.2) v
          (hkv _ (lookup_mem hlk)) hg g hfuelT
        refine ⟨v, pv, d.alias, d.py, rfl, ?_, hkd, hev⟩
        rw [hfw]
        simp only [hlk, fieldRec, hdisc, Bool.false_eq_true, if_false, hannE, hpv])
  -- keys of the declarations
  have hdkey : ∀ d ∈ allFields penv penv.clsFuel cn, ∃ t ∈ tnodes a env tn sel, d.alias.getD d.py = keyOf t.2 ∧
      d.py = pyFieldName env (keyOf t.2) := by
    intro d hd
    obtain ⟨t, ht, htf, hpy, hform⟩ := hA1 d hd
    refine ⟨t, ht, ?_, hpy⟩
    rcases hform with ⟨_, rfl⟩ | ⟨_, hal, _⟩
    · exact declOf_key _ _ _ _ _ htf
    · rw [hal, hpy]
      by_cases h : pyFieldName env (keyOf t.2) = keyOf t.2
      · simp [h]
      · simp [h]
  have hkeysND : ((allFields penv penv.clsFuel cn).map (fun d => d.alias.getD d.py)).Nodup := by
    have : (allFields penv penv.clsFuel cn).map (·.py) =
        ((allFields penv penv.clsFuel cn).map (fun d => d.alias.getD d.py)).map (pyFieldName env) := by
      rw [List.map_map]
      apply List.map_congr_left
      intro d hd
      obtain ⟨t, _, h1, h2⟩ := hdkey d hd
      simp only [Function.comp]
      rw [h1, h2]
    rw [this] at hA2
    exact C01Mix.nodup_of_map _ _ hA2
  have hsubkeys' : ∀ key ∈ kvs.map (·.1), key ∈ (allFields penv penv.clsFuel cn).map (fun d => d.alias.getD d.py) := by
    intro key hk
    obtain ⟨p, hp, rfl⟩ := List.mem_map.mp hk
    obtain ⟨t, ht, htk⟩ := hr1 p hp
    obtain ⟨d, hd, hdp⟩ := hA3 t ht
    obtain ⟨t2, ht2, h1, h2⟩ := hdkey d hd
    refine List.mem_map.mpr ⟨d, hd, ?_⟩
    rw [h1, ← htk]
    exact hD2 _ (hcn t2 ht2) _ (hcn t ht) (by rw [← h2, hdp])
  refine ⟨.model cn (fs.filterMap id), ?_, ?_⟩
  · rw [validate_cls_succ]
    unfold modelWith
    simp only [hc0, hfs]
  · simp only [dump, J.eqv, Bool.and_eq_true, beq_iff_eq]
    exact ⟨length_of_keys _ kvs _ hkeysD hkeysND hkn hsubkeys', heq⟩

/-- **part (2), all executor fuels** -/
theorem val_spec (env : ResultTypes.Env) (penv : Pyd.Env) (M : List Nat) (K F : Nat) (G : GH env penv K F) :
    ∀ ef, ValSpec env penv M K F ef
  | 0 => by
    intro cn tn rt rts sel tv a j _ _ _ _ _ hresp
    simp [Exec.respOK] at hresp
  | ef + 1 => class_rt env penv M K F G ef (val_spec env penv M K F G ef)

end Ariadne.C01Abs
