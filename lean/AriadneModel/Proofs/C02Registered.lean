/-
  Proofs/C02Registered.lean — the invariant behind property C02's document clause:

      one `ResultTypesGenerator` registers (in `_fragments_used_as_mixins` / `_unpacked_fragments`) only fragments
      that are reachable, through the spread graph, from the selection set of the definition it was constructed for.

  The two sets are attributes of ONE generator object (result_types.py `__init__`: both start as `set()`;
  package.py `add_operation` constructs a fresh `ResultTypesGenerator` per operation, fragments.py one per fragment
  definition), so the statement is about one run of `ResultTypes.generate` from the initial state — for every
  environment, fuel, definition and `marksIn` (the `__typename` insertions left by earlier generators, the only thing
  that is shared between generators).

  Proof: `_resolve_selection_set` adds a name to `_unpacked_fragments` only when it meets a spread of that name, and
  returns as mixins only names of spreads it met; it meets spreads of the selection set it was called with, of inline
  fragments inside it, and of the fragments it unpacks — so every name is spread-reachable (`resolve_unpacked_low`;
  the mixin half is `resolve_low`/`parse_low` of Proofs/C08Acyclic.lean, stated there for an arbitrary predicate closed
  under the spread graph).  `_parse_type_definition` calls it with the definition's selection set and, recursively, with
  the selection sets of the field nodes it returned (`parse_unpacked_low`).  Induction over the fuel of the state-monad
  recursion; no bound on the document.

  Core Lean + the OpText lemmas (Mathlib's `Relation.ReflTransGen` through Proofs/OpText.lean).
-/
import AriadneModel.Proofs.C08Acyclic
import AriadneModel.Proofs.OpText

set_option linter.unusedSimpArgs false
set_option linter.unusedVariables false

open Ariadne Ariadne.Gql Ariadne.Util

namespace Ariadne.ResultTypes

section
variable (env : Env) (P : String → Prop)
  (hclosed : ∀ n f, P n → findFragment? env.frags n = some f → Low P f.sel)

/-- the recorded unpacked fragments all satisfy `P` -/
def UnpackedLow (st : St) : Prop := ∀ m ∈ st.unpacked, P m

include hclosed in
/-- `_resolve_selection_set` on a selection set whose spreads satisfy `P` (closed under the spread graph) adds only
    names satisfying `P` to `_unpacked_fragments` -/
theorem resolve_unpacked_low : ∀ (fuel : Nat) (sels : List Selection) (root : String) (st : St) (r : Acc) (st' : St),
    Low P sels → UnpackedLow P st → resolve env fuel sels root st = .ok (r, st') → UnpackedLow P st'
  | 0, sels, root, st, r, st', _, _, h => by
    rw [resolve_zero] at h
    exact ((ok_err _ _ _).mp h).elim
  | fuel + 1, sels, root, st, r, st', hlow, hU, h => by
    rw [resolve_succ] at h
    obtain ⟨acc, s1, h1, h2⟩ := (ok_bind _ _ _ _ _).mp h
    obtain ⟨u, s2, h3, h4⟩ := (ok_bind _ _ _ _ _).mp h2
    have hs2 := (ok_modify _ _ _ _).mp h3
    obtain ⟨_, e2⟩ := (ok_pure _ _ _ _).mp h4
    subst e2
    subst hs2
    have inv : UnpackedLow P s1 := by
      refine forIn_ok_inv (fun (_ : Acc) (s : St) => UnpackedLow P s) (resolveBody env fuel root) sels ([], []) st acc s1 ?_ hU h1
      intro a ha b s r s' hb hr
      cases a with
      | field al name dirs sid sub =>
        simp only [resolveBody] at hr
        obtain ⟨_, e⟩ := (ok_pure _ _ _ _).mp hr
        subst e
        exact hb
      | spread n d =>
        have hPn : P n := low_spread hlow ha
        cases hf : findFragment? env.frags n with
        | none =>
          simp only [resolveBody, hf] at hr
          exact ((ok_err _ _ _).mp hr).elim
        | some f =>
          simp only [resolveBody, hf] at hr
          split at hr
          · exact ((ok_err _ _ _).mp hr).elim
          split at hr
          · exact ((ok_err _ _ _).mp hr).elim
          split at hr
          · obtain ⟨_, e⟩ := (ok_pure _ _ _ _).mp hr
            subst e
            exact hb
          split at hr
          · obtain ⟨u, s1', h1', h2'⟩ := (ok_bind _ _ _ _ _).mp hr
            have hs1' := (ok_modify _ _ _ _).mp h1'
            obtain ⟨x, s2', h3', h4'⟩ := (ok_bind _ _ _ _ _).mp h2'
            obtain ⟨_, e⟩ := (ok_pure _ _ _ _).mp h4'
            subst e
            subst hs1'
            refine resolve_unpacked_low fuel f.sel root _ x s2' (hclosed n f hPn hf) ?_ h3'
            intro m hm
            rcases (mem_setAdd _ _ _).mp hm with hm | rfl
            · exact hb m hm
            · exact hPn
          · obtain ⟨u, s1', h1', h2'⟩ := (ok_bind _ _ _ _ _).mp hr
            have hs1' := (ok_modify _ _ _ _).mp h1'
            obtain ⟨_, e⟩ := (ok_pure _ _ _ _).mp h2'
            subst e
            subst hs1'
            exact hb
      | inline on d sid sub =>
        cases on with
        | none =>
          simp only [resolveBody] at hr
          exact ((ok_err _ _ _).mp hr).elim
        | some cond =>
          cases hrt : inlineFragmentRootType env cond root with
          | some rt =>
            simp only [resolveBody, hrt] at hr
            obtain ⟨x, s2', h3', h4'⟩ := (ok_bind _ _ _ _ _).mp hr
            obtain ⟨_, e⟩ := (ok_pure _ _ _ _).mp h4'
            subst e
            exact resolve_unpacked_low fuel sub rt _ x s2' (low_inline hlow ha) hb h3'
          | none =>
            simp only [resolveBody, hrt] at hr
            obtain ⟨u, s1', h1', h2'⟩ := (ok_bind _ _ _ _ _).mp hr
            have hs1' := (ok_modify _ _ _ _).mp h1'
            obtain ⟨_, e⟩ := (ok_pure _ _ _ _).mp h2'
            subst e
            subst hs1'
            exact hb
    exact fun m hm => inv m hm

theorem afterTypename_unpacked (a : Bool) (sid : Nat) (r : List RField) (st : St) :
    (afterTypename a sid r st).unpacked = st.unpacked := by
  unfold afterTypename
  split <;> rfl

include hclosed in
/-- the same through `_parse_type_definition` / `_parse_field_selection_set_types` -/
theorem parse_unpacked_low : ∀ fuel : Nat,
    (∀ cn tn sid sel a eb tv st cs st', Low P sel → UnpackedLow P st →
      parseTypeDefinition env fuel cn tn sid sel a eb tv st = .ok (cs, st') → UnpackedLow P st') ∧
    (∀ sid sel ctx eb st cs st', Low P sel → UnpackedLow P st →
      parseFieldSelectionSetTypes env fuel sid sel ctx eb st = .ok (cs, st') → UnpackedLow P st')
  | 0 => by
    constructor
    · intro cn tn sid sel a eb tv st cs st' _ _ h
      rw [parseTypeDefinition_zero] at h
      exact ((ok_err _ _ _).mp h).elim
    · intro sid sel ctx eb st cs st' _ _ h
      rw [parseFieldSelectionSetTypes_zero] at h
      exact ((ok_err _ _ _).mp h).elim
  | fuel + 1 => by
    obtain ⟨ihP, ihQ⟩ := parse_unpacked_low fuel
    constructor
    · intro cn tn sid sel a eb tv st cs st' hlow hJ h
      cases hseen : st.publicNames.contains cn with
      | true =>
        obtain ⟨_, e⟩ := parseTypeDefinition_seen _ _ _ _ _ _ _ _ _ _ _ _ h hseen
        rw [e]; exact hJ
      | false =>
        obtain ⟨x, st1, resolved, acc, fuel', hfu, hres, hloop, hcs, hresmem⟩ := parseTypeDefinition_unfold _ _ _ _ _ _ _ _ _ _ _ _ h hseen
        have hfu' : fuel' = fuel := by omega
        subst hfu'
        obtain ⟨hx2, hx1⟩ := resolve_low env P hclosed _ _ _ _ _ _ hlow hres
        have hJ1 : UnpackedLow P st1 := resolve_unpacked_low env P hclosed _ _ _ { st with publicNames := st.publicNames ++ [cn] } _ _ hlow (fun m hm => hJ m hm) hres
        have hJ2 : UnpackedLow P (afterTypename a sid (if st1.marks.contains sid then typenameRField :: x.1 else x.1) st1) := by
          intro m hm; rw [afterTypename_unpacked] at hm; exact hJ1 m hm
        have hresolved : ∀ f ∈ resolved, Low P f.sub := by
          intro f hf
          rcases hresmem f hf with rfl | hf
          · intro n hn; simp [typenameRField, selsSpreads] at hn
          · exact hx1 f hf
        exact forIn_ok_inv (fun (_ : FAcc) (s : St) => UnpackedLow P s) (fieldBody env fuel' cn tn tv) resolved ([], []) _ acc st'
          (by
            intro f hf b s r s' hb hr
            unfold fieldBody at hr
            obtain ⟨t, s1, h1, hA⟩ := (ok_bind _ _ _ _ _).mp hr
            obtain ⟨_, e1⟩ := (ok_liftExcept _ _ _ _).mp h1
            subst e1
            obtain ⟨xx, s2, h2, hB⟩ := (ok_bind _ _ _ _ _).mp hA
            obtain ⟨_, e2⟩ := (ok_liftExcept _ _ _ _).mp h2
            subst e2
            obtain ⟨fb, s3, h3, hC⟩ := (ok_bind _ _ _ _ _).mp hB
            obtain ⟨_, hs3⟩ := mixinBases_spec _ _ _ _ h3
            obtain ⟨more, s4, h4, hD⟩ := (ok_bind _ _ _ _ _).mp hC
            obtain ⟨u, s5, h5, hE⟩ := (ok_bind _ _ _ _ _).mp hD
            have hs5 := (ok_modify _ _ _ _).mp h5
            obtain ⟨_, e4⟩ := (ok_pure _ _ _ _).mp hE
            have hJ3 : UnpackedLow P s3 := by rw [hs3]; exact hb
            have hJ4 := ihQ _ _ _ _ _ _ _ (hresolved f hf) hJ3 h4
            rw [← e4, hs5]; exact hJ4)
          hJ2 hloop
    · intro sid sel ctx eb st cs st' hlow hJ h
      rw [parseFieldSelectionSetTypes_succ] at h
      by_cases hemp : sel.isEmpty = true
      · rw [if_pos hemp] at h
        obtain ⟨_, e2⟩ := (ok_pure _ _ _ _).mp h
        rw [← e2]; exact hJ
      · rw [if_neg hemp] at h
        obtain ⟨acc, s1, h1, h2⟩ := (ok_bind _ _ _ _ _).mp h
        obtain ⟨_, e2⟩ := (ok_pure _ _ _ _).mp h2
        subst e2
        exact forIn_ok_inv (fun (_ : List ClassDecl) (s : St) => UnpackedLow P s)
          (relatedBody env fuel sid sel ctx eb) ctx.related [] st acc s1
          (by
            intro rc _ b s r s' hb hr
            unfold relatedBody at hr
            obtain ⟨cs1, s2, h3, h4⟩ := (ok_bind _ _ _ _ _).mp hr
            obtain ⟨_, e4⟩ := (ok_pure _ _ _ _).mp h4
            subst e4
            exact ihP _ _ _ _ _ _ _ _ _ _ hlow hb h3)
          hJ h1
end

/-! ### the spread graph of Proofs/OpText.lean -/

open Ariadne.OpText Ariadne.OpTextProofs

mutual
  /-- the two files name the same function twice -/
  theorem selSpreads_eq_directSel : ∀ s : Selection, selSpreads s = directSel s
    | .field _ _ _ _ sub => by rw [selSpreads, directSel, selsSpreads_eq_directSels sub]
    | .spread n _ => by rw [selSpreads, directSel]
    | .inline _ _ _ sub => by rw [selSpreads, directSel, selsSpreads_eq_directSels sub]
  theorem selsSpreads_eq_directSels : ∀ ss : List Selection, selsSpreads ss = directSels ss
    | [] => by rw [selsSpreads, directSels]
    | s :: ss => by rw [selsSpreads, directSels, selSpreads_eq_directSel s, selsSpreads_eq_directSels ss]
end

/-- the selection set a generator is constructed for -/
def Definition.sel : Definition → List Selection
  | .op o => o.sel
  | .frag f => f.sel

theorem low_reach_self (frags : List Fragment) (sels : List Selection) : Low (Reach frags sels) sels := by
  intro n hn
  rw [selsSpreads_eq_directSels] at hn
  exact ⟨n, hn, .refl⟩

theorem reach_closed (frags : List Fragment) (sels : List Selection) :
    ∀ n f, Reach frags sels n → findFragment? frags n = some f → Low (Reach frags sels) f.sel := by
  intro n f hn hf x hx
  rw [selsSpreads_eq_directSels] at hx
  exact reach_step hn hf ⟨x, hx, .refl⟩

/-- **one generator registers only reachable fragments** (every environment, fuel, definition, `marksIn`): after
    `ResultTypesGenerator(definition)` every name in `_fragments_used_as_mixins` and in `_unpacked_fragments` is
    reachable from the definition's selection set through the spread graph. -/
theorem generate_registers_reachable (env : Env) (fuel : Nat) (d : Definition) (marksIn : List Nat) (out : ModuleOut)
    (h : generate env fuel d marksIn = .ok out) :
    ∀ m, m ∈ out.st.mixins ∨ m ∈ out.st.unpacked → Reach env.frags d.sel m := by
  obtain ⟨cs, st, hr, _, hs⟩ := generate_ok env fuel d marksIn out h
  rw [hs]
  have key : ∀ cn tn sid eb ps, parseTypeDefinition env fuel cn tn sid d.sel false eb []
      (addImports { marks := marksIn } ps) = .ok (cs, st) →
      ∀ m, m ∈ st.mixins ∨ m ∈ st.unpacked → Reach env.frags d.sel m := by
    intro cn tn sid eb ps hp m hm
    have hc := reach_closed env.frags d.sel
    have h0 := low_reach_self env.frags d.sel
    rcases hm with hm | hm
    · exact (parse_low env _ hc fuel).1 _ _ _ _ _ _ _ _ _ _ h0 (fun m hm => by cases hm) hp m hm
    · exact (parse_unpacked_low env _ hc fuel).1 _ _ _ _ _ _ _ _ _ _ h0 (fun m hm => by cases hm) hp m hm
  cases d with
  | op o =>
    obtain ⟨n, tn, _, _, hp⟩ := genRun_op env fuel o _ cs st hr
    exact key _ _ _ _ _ hp
  | frag f =>
    cases hu : unpackFragment env f none with
    | true =>
      obtain ⟨_, e⟩ := genRun_frag_unpacked env fuel f _ cs st hr hu
      rw [e]
      intro m hm
      rcases hm with hm | hm <;> cases hm
    | false => exact key _ _ _ _ _ (genRun_frag env fuel f _ cs st hr hu)

end Ariadne.ResultTypes
