/-
  C14 helper lemmas, part 9: `Proved_14` lies inside the complement of the F4 trigger —
  when no mutator is applied to a class-level object anywhere, no occurrence is marked as mutated, so
  `trigSharedMut` is false.
-/
import AriadneModel.Proofs.C14Main

set_option linter.unusedSimpArgs false
set_option linter.unusedVariables false

namespace Ariadne.C14
open Ariadne Ariadne.Builder Ariadne.CustomGen Ariadne.BuilderDoc

theorem markHead_false (l : List (String × String × Bool)) : markHead l false = l := by
  cases l with
  | nil => rfl
  | cons x xs => obtain ⟨c, a, m⟩ := x; rfl

mutual
  theorem sharedOccs_noMut : ∀ (e : Expr), mutatesShared e = false → ∀ o ∈ sharedOccs e, o.2.2 = false
    | .attr c a, _ => by simp [sharedOccs]
    | .call c a kw, _ => by simp [sharedOccs]
    | .alias e al, h => by
      simp only [mutatesShared, Bool.or_eq_false_iff] at h
      simp only [sharedOccs, h.1, markHead_false]
      exact sharedOccs_noMut e h.2
    | .fields e cs, h => by
      simp only [mutatesShared, Bool.or_eq_false_iff] at h
      simp only [sharedOccs, h.1.1, markHead_false]
      intro o ho
      rcases List.mem_append.mp ho with h1 | h1
      · exact sharedOccs_noMut e h.1.2 o h1
      · exact sharedOccsList_noMut cs h.2 o h1
    | .on e ty cs, h => by
      simp only [mutatesShared, Bool.or_eq_false_iff] at h
      simp only [sharedOccs, h.1.1, markHead_false]
      intro o ho
      rcases List.mem_append.mp ho with h1 | h1
      · exact sharedOccs_noMut e h.1.2 o h1
      · exact sharedOccsList_noMut cs h.2 o h1
  theorem sharedOccsList_noMut : ∀ (es : List Expr), mutatesSharedList es = false → ∀ o ∈ sharedOccsList es, o.2.2 = false
    | [], _ => by simp [sharedOccsList]
    | e :: es, h => by
      simp only [mutatesSharedList, Bool.or_eq_false_iff] at h
      simp only [sharedOccsList]
      intro o ho
      rcases List.mem_append.mp ho with h1 | h1
      · exact sharedOccs_noMut e h.1 o h1
      · exact sharedOccsList_noMut es h.2 o h1
end

theorem trigSharedMut_of_noMut (H : List Op) (E : Op)
    (hH : ∀ op ∈ H, opMutatesShared op = false) (hE : opMutatesShared E = false) : trigSharedMut H E = false := by
  unfold trigSharedMut
  simp only []
  rw [List.any_eq_false]
  rintro ⟨⟨c, a, m⟩, i⟩ _
  simp only [Bool.or_eq_true, not_or, Bool.not_eq_true]
  constructor
  · rw [List.any_eq_false]
    rintro ⟨c', a', m'⟩ hm
    obtain ⟨o, ho, hmem⟩ := List.mem_flatMap.mp hm
    have := sharedOccsList_noMut o.fields (hH o ho) _ hmem
    simp at this
    simp [this]
  · rw [List.any_eq_false]
    rintro ⟨⟨c', a', m'⟩, j⟩ hm
    have hmem : (c', a', m') ∈ sharedOccsList E.fields := List.fst_mem_of_mem_zipIdx hm
    have := sharedOccsList_noMut E.fields hE _ hmem
    simp at this
    simp [this]

end Ariadne.C14
