/-
  C14 helper lemmas, part 1: the used-names discipline of `_format_variable_name` / `to_ast`.
  For every fuel, store, index, used-names list and node (references to shared objects included):
  a successful `toAst` extends `used` by exactly the variables it wrote into the selection, in
  order, and those are pairwise distinct and were not in `used` before.
-/
import AriadneModel.Spec.BuilderDoc

set_option linter.unusedSimpArgs false
set_option linter.unusedVariables false

namespace Ariadne.C14
open Ariadne Ariadne.Builder Ariadne.CustomGen Ariadne.BuilderDoc

/-- `used'` is `used` extended by the fresh, pairwise distinct names `vs` -/
def Ext (used : List String) (vs : List String) (used' : List String) : Prop :=
  used' = used ++ vs ∧ vs.Nodup ∧ ∀ v ∈ vs, v ∉ used

theorem Ext.nil (used : List String) : Ext used [] used := by
  simp [Ext]

theorem Ext.trans {u0 u1 u2 a b : List String} (h1 : Ext u0 a u1) (h2 : Ext u1 b u2) : Ext u0 (a ++ b) u2 := by
  obtain ⟨e1, n1, d1⟩ := h1
  obtain ⟨e2, n2, d2⟩ := h2
  refine ⟨by simp [e2, e1], ?_, ?_⟩
  · rw [List.nodup_append]
    refine ⟨n1, n2, ?_⟩
    intro x hx y hy hxy
    subst hxy
    exact d2 x hy (by simp [e1, hx])
  · intro v hv
    rcases List.mem_append.mp hv with h | h
    · exact d1 v h
    · intro hu
      exact d2 v h (by simp [e1, hu])

theorem firstFree_not_mem (base : String) (used : List String) :
    ∀ (fuel k : Nat) (u : String), firstFree base used fuel k = some u → u ∉ used := by
  intro fuel
  induction fuel with
  | zero => intro k u h; simp [firstFree] at h
  | succ f ih =>
    intro k u h
    unfold firstFree at h
    split at h
    · exact ih (k + 1) u h
    · rename_i hn
      simp at h
      subst h
      exact hn

theorem formatVarName_spec {idx : Nat} {name : String} {used : List String} {u : String} {used' : List String}
    (h : formatVarName idx name used = .ok (u, used')) : Ext used [u] used' := by
  unfold formatVarName at h
  split at h
  · rename_i w hw
    simp at h
    obtain ⟨rfl, rfl⟩ := h
    refine ⟨rfl, by simp, ?_⟩
    intro v hv
    simp at hv
    subst hv
    exact firstFree_not_mem _ _ _ _ _ hw
  · simp at h

theorem collectVars_spec (idx : Nat) :
    ∀ (vs : List Var) (used : List String) (fv : List FVar) (used' : List String),
      collectVars idx vs used = .ok (fv, used') →
      Ext used (fv.map (·.uname)) used' ∧
      fv.map (fun f => (f.key, f.ty, f.value)) = vs.map (fun v => (v.key, v.ty, v.value)) := by
  intro vs
  induction vs with
  | nil =>
    intro used fv used' h
    simp [collectVars] at h
    obtain ⟨rfl, rfl⟩ := h
    exact ⟨Ext.nil _, rfl⟩
  | cons v vs ih =>
    intro used fv used' h
    unfold collectVars at h
    split at h
    · simp at h
    · rename_i u used1 h1
      split at h
      · simp at h
      · rename_i fs used2 h2
        simp at h
        obtain ⟨rfl, rfl⟩ := h
        obtain ⟨e2, k2⟩ := ih used1 fs used2 h2
        have e1 := formatVarName_spec h1
        refine ⟨?_, ?_⟩
        · have := Ext.trans e1 e2
          simpa using this
        · simp [k2]

theorem selVarsList_append (a b : List Sel) : selVarsList (a ++ b) = selVarsList a ++ selVarsList b := by
  induction a with
  | nil => simp [selVarsList]
  | cons x xs ih => simp [selVarsList, ih]

/-- what every successful visit guarantees about the used-names list -/
def VisitExt (f : Visit) : Prop :=
  ∀ st used n s n' st' used', f st used n = .ok (s, n', st', used') → Ext used (selVars s) used'

theorem mapAcc_ext {f : Visit} (hf : VisitExt f) :
    ∀ (ns : List Node) (st : Store) (used : List String) ss ns' st' used',
      mapAcc f st used ns = .ok (ss, ns', st', used') → Ext used (selVarsList ss) used' := by
  intro ns
  induction ns with
  | nil =>
    intro st used ss ns' st' used' h
    simp [mapAcc] at h
    obtain ⟨rfl, -, -, rfl⟩ := h
    simpa [selVarsList] using Ext.nil used
  | cons n ns ih =>
    intro st used ss ns' st' used' h
    unfold mapAcc at h
    split at h
    · simp at h
    · rename_i s n1 st1 u1 h1
      split at h
      · simp at h
      · rename_i ss2 ns2 st2 u2 h2
        simp at h
        obtain ⟨rfl, -, -, rfl⟩ := h
        have := Ext.trans (hf _ _ _ _ _ _ _ h1) (ih _ _ _ _ _ _ h2)
        simpa [selVarsList] using this

theorem mapFrags_ext {f : Visit} (hf : VisitExt f) :
    ∀ (fs : List Frag) (st : Store) (used : List String) ss fs' st' used',
      mapFrags f st used fs = .ok (ss, fs', st', used') → Ext used (selVarsList ss) used' := by
  intro fs
  induction fs with
  | nil =>
    intro st used ss fs' st' used' h
    simp [mapFrags] at h
    obtain ⟨rfl, -, -, rfl⟩ := h
    simpa [selVarsList] using Ext.nil used
  | cons fr fs ih =>
    intro st used ss fs' st' used' h
    cases fr with
    | mk ty ns =>
      unfold mapFrags at h
      split at h
      · simp at h
      · rename_i ss1 ns1 st1 u1 h1
        split at h
        · simp at h
        · rename_i rest fs2 st2 u2 h2
          simp at h
          obtain ⟨rfl, -, -, rfl⟩ := h
          have := Ext.trans (mapAcc_ext hf _ _ _ _ _ _ _ h1) (ih _ _ _ _ _ _ h2)
          simpa [selVarsList, selVars] using this

theorem toAst_ext (idx : Nat) : ∀ fuel, VisitExt (toAst fuel idx) := by
  intro fuel
  induction fuel with
  | zero =>
    intro st used n s n' st' used' h
    simp [toAst] at h
  | succ f ih =>
    intro st used n s n' st' used' h
    cases n with
    | obj r subs frags =>
      unfold toAst at h
      split at h
      · simp at h
      · rename_i fv u1 h1
        split at h
        · simp at h
        · rename_i ss subs' st1 u2 h2
          split at h
          · simp at h
          · rename_i fs frags' st2 u3 h3
            simp at h
            obtain ⟨rfl, -, -, rfl⟩ := h
            have e1 := (collectVars_spec idx _ _ _ _ h1).1
            have e2 := mapAcc_ext ih _ _ _ _ _ _ _ h2
            have e3 := mapFrags_ext ih _ _ _ _ _ _ _ h3
            have := Ext.trans e1 (Ext.trans e2 e3)
            simpa [selVars, selVarsList_append, List.map_map, Function.comp_def] using this
    | ref id =>
      unfold toAst at h
      split at h
      · simp at h
      · rename_i n0 hn
        split at h
        · simp at h
        · rename_i s1 n1 st1 u1 h1
          simp at h
          obtain ⟨rfl, -, -, rfl⟩ := h
          exact ih _ _ _ _ _ _ _ h1

end Ariadne.C14
