/-
  Lemmas for C09 about the order of the steps of `PackageGenerator.generate`: what any run of steps
  that does not write enums.py does to the pruning state (`preEffect`).  Core Lean only.
-/
import AriadneModel.Model.Prune

set_option linter.unusedSimpArgs false
set_option linter.unusedVariables false

namespace Ariadne.Prune

/-- the classes `_generate_input_types` writes when it runs in state `st` -/
def cdsOf (x : Input) (st : St) : Option (List InputDef) :=
  filterInputDefs x.inputs (if x.allInputs then none else some st.argInputs)

/-- what a step appends to `PackageGenerator._used_enums` -/
def contrib (x : Input) (st : St) : Step → List Name
  | .inputs => match cdsOf x st with
    | some cds => inputsUsedEnums x.inputs (names cds)
    | none => []
  | .results => []
  | .fragments => fragEnumsOf x
  | .client => st.argEnums
  | .enums => []

/-- Effect of a run of steps that does not write enums.py, relative to the state it started from. -/
structure PreEffect (x : Input) (pre : List Step) (st st' : St) : Prop where
  argInputs : st'.argInputs = st.argInputs
  argEnums : st'.argEnums = st.argEnums
  enumsModule : st'.enumsModule = st.enumsModule
  usedEnums : st'.usedEnums = st.usedEnums ++ pre.flatMap (contrib x st)
  inputsDone : Step.inputs ∈ pre → st'.inputsModule = cdsOf x st ∧ st'.inputsEnumImport = contrib x st .inputs
  inputsKept : Step.inputs ∉ pre → st'.inputsModule = st.inputsModule ∧ st'.inputsEnumImport = st.inputsEnumImport
  clientDone : Step.client ∈ pre → st'.clientInputs = st.argInputs ∧ st'.clientEnums = st.argEnums
  clientKept : Step.client ∉ pre → st'.clientInputs = st.clientInputs ∧ st'.clientEnums = st.clientEnums

/-- one step other than `enums` -/
theorem stepEffect (x : Input) (s : Step) (st st1 : St) (hs : s ≠ .enums) (h : step x st s = some st1) :
    PreEffect x [s] st st1 := by
  cases s with
  | enums => exact absurd rfl hs
  | results =>
    simp [step] at h; subst h
    exact ⟨rfl, rfl, rfl, by simp [contrib], by simp, by simp, by simp, by simp⟩
  | fragments =>
    simp only [step] at h
    cases hf : x.fragEnums with
    | none =>
      simp [hf] at h; subst h
      exact ⟨rfl, rfl, rfl, by simp [contrib, fragEnumsOf, hf], by simp, by simp, by simp, by simp⟩
    | some es =>
      simp [hf] at h; subst h
      exact ⟨rfl, rfl, rfl, by simp [contrib, fragEnumsOf, hf], by simp, by simp, by simp, by simp⟩
  | client =>
    simp [step] at h; subst h
    exact ⟨rfl, rfl, rfl, by simp [contrib], by simp, by simp, by simp, by simp⟩
  | inputs =>
    simp only [step] at h
    cases hc : filterInputDefs x.inputs (if x.allInputs then none else some st.argInputs) with
    | none => simp [hc] at h
    | some cds =>
      simp [hc] at h; subst h
      exact ⟨rfl, rfl, rfl, by simp [contrib, cdsOf, hc, names], by simp [contrib, cdsOf, hc, names], by simp, by simp, by simp⟩

theorem contrib_congr (x : Input) (st st1 : St) (h1 : st1.argInputs = st.argInputs) (h2 : st1.argEnums = st.argEnums) :
    contrib x st1 = contrib x st := by
  funext s
  cases s <;> simp [contrib, cdsOf, h1, h2]

theorem preEffect (x : Input) : ∀ (pre : List Step) (st st' : St), Step.enums ∉ pre →
    runSteps x pre st = some st' → PreEffect x pre st st' := by
  intro pre
  induction pre with
  | nil =>
    intro st st' _ h
    simp [runSteps] at h
    subst h
    exact ⟨rfl, rfl, rfl, by simp, by simp, by simp, by simp, by simp⟩
  | cons s pre ih =>
    intro st st' hne h
    have hne' : Step.enums ∉ pre := fun hm => hne (List.mem_cons_of_mem _ hm)
    have hs : s ≠ Step.enums := fun he => hne (by simp [he])
    simp only [runSteps, List.foldlM_cons] at h
    cases h1 : step x st s with
    | none => simp [h1] at h
    | some st1 =>
      simp only [h1] at h
      have e := ih st1 st' hne' h
      have e1 := stepEffect x s st st1 hs h1
      have hcg := contrib_congr x st st1 e1.argInputs e1.argEnums
      have hcd : cdsOf x st1 = cdsOf x st := by simp [cdsOf, e1.argInputs]
      refine ⟨e.argInputs.trans e1.argInputs, e.argEnums.trans e1.argEnums, e.enumsModule.trans e1.enumsModule, ?_, ?_, ?_, ?_, ?_⟩
      · rw [e.usedEnums, e1.usedEnums, hcg]; simp [List.append_assoc]
      · intro hm
        by_cases hp : Step.inputs ∈ pre
        · have := e.inputsDone hp
          rw [hcg, hcd] at this; exact this
        · have hse : s = Step.inputs := by
            rcases List.mem_cons.mp hm with h0 | h0
            · exact h0.symm
            · exact absurd h0 hp
          have k := e.inputsKept hp
          have d := e1.inputsDone (by simp [hse])
          exact ⟨k.1.trans d.1, k.2.trans d.2⟩
      · intro hm
        have hp : Step.inputs ∉ pre := fun h0 => hm (List.mem_cons_of_mem _ h0)
        have hse : Step.inputs ∉ [s] := by
          intro h0; apply hm; have : Step.inputs = s := by simpa using h0
          simp [this]
        have k := e.inputsKept hp
        have k1 := e1.inputsKept hse
        exact ⟨k.1.trans k1.1, k.2.trans k1.2⟩
      · intro hm
        by_cases hp : Step.client ∈ pre
        · have := e.clientDone hp
          rw [e1.argInputs, e1.argEnums] at this; exact this
        · have hse : s = Step.client := by
            rcases List.mem_cons.mp hm with h0 | h0
            · exact h0.symm
            · exact absurd h0 hp
          have k := e.clientKept hp
          have d := e1.clientDone (by simp [hse])
          exact ⟨k.1.trans d.1, k.2.trans d.2⟩
      · intro hm
        have hp : Step.client ∉ pre := fun h0 => hm (List.mem_cons_of_mem _ h0)
        have hse : Step.client ∉ [s] := by
          intro h0; apply hm; have : Step.client = s := by simpa using h0
          simp [this]
        have k := e.clientKept hp
        have k1 := e1.clientKept hse
        exact ⟨k.1.trans k1.1, k.2.trans k1.2⟩

end Ariadne.Prune
