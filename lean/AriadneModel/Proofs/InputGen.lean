/-
  Lemmas about Model/InputGen.lean (C19): when the SDL path and the introspection path emit the
  same value for an input field, and invariance of the generated class sets under permutation of
  the schema's definitions (name lookup does not depend on the order of definitions).
-/
import AriadneModel.Model.InputGen

set_option linter.unusedSimpArgs false
set_option linter.unusedVariables false

namespace Ariadne.InputGen

/-! ### defaults -/

/-- the only literal that is emitted as `None` is `null` -/
theorem constValue_none_iff (ft : String) (lit : Lit) :
    constValue ft lit false false = .none ↔ lit = .null := by
  cases lit <;> simp [constValue]

theorem optionalAnn_eq (t : TypeRef) : (!t.isNonNull || !t.isNonNull) = !t.isNonNull := by
  cases t.isNonNull <;> rfl

/-- without a default in the schema both builders lead to the same emitted value -/
theorem fieldDefault_no_default (ft : String) (f : InputField) (d : Bool) (h : f.default = none) :
    fieldDefault .sdl ft f = fieldDefault (.intro d) ft f := by
  simp [fieldDefault, h]

/-- **field level**: SDL and introspection emit the same value iff the field has no effective default -/
theorem fieldDefault_agree_iff (ft : String) (f : InputField) (d : Bool) :
    fieldDefault .sdl ft f = fieldDefault (.intro d) ft f ↔ effectiveDefault f = false := by
  unfold fieldDefault effectiveDefault
  rcases hd : f.default with _ | lit
  · simp
  · cases hn : f.type.isNonNull
    · -- nullable: introspection emits `None`
      simp only [Bool.not_false, if_true, Option.some.injEq, constValue_none_iff]
      cases lit <;> simp [hn]
    · simp only [Bool.not_true, Bool.false_eq_true, if_false]
      cases lit <;> simp [hn]

/-- on the introspection path a field is never given anything but `None` -/
theorem fieldDefault_intro_cases (ft : String) (f : InputField) (d : Bool) :
    fieldDefault (.intro d) ft f = (if f.type.isNonNull then none else some .none) := by
  unfold fieldDefault
  cases f.type.isNonNull <;> simp

/-- with a default, the SDL path always emits a value (the field is not required) -/
theorem fieldDefault_sdl_some (ft : String) (f : InputField) (lit : Lit) (h : f.default = some lit) :
    fieldDefault .sdl ft f = some (constValue ft lit false false) := by
  simp [fieldDefault, h]

/-! ### name lookup is independent of the order of definitions -/

theorem find_perm {α : Type} (p : α → Bool) : ∀ {l₁ l₂ : List α}, l₁.Perm l₂ →
    (∀ a ∈ l₁, ∀ b ∈ l₁, p a = true → p b = true → a = b) → l₁.find? p = l₂.find? p := by
  intro l₁ l₂ h
  induction h with
  | nil => intro _; rfl
  | cons x _ ih =>
    intro hu
    simp only [List.find?_cons]
    cases hx : p x
    · exact ih (fun a ha b hb => hu a (List.mem_cons_of_mem _ ha) b (List.mem_cons_of_mem _ hb))
    · rfl
  | swap x y l =>
    intro hu
    simp only [List.find?_cons]
    cases hx : p x <;> cases hy : p y <;> simp
    exact hu y (by simp) x (by simp) hy hx
  | trans h₁ h₂ ih₁ ih₂ =>
    intro hu
    rw [ih₁ hu]
    exact ih₂ (fun a ha b hb => hu a (h₁.mem_iff.mpr ha) b (h₁.mem_iff.mpr hb))

/-- type names are unique (every schema graphql-core builds has this property) -/
def NamesUnique (defs : List TypeDef) : Prop :=
  ∀ a ∈ defs, ∀ b ∈ defs, a.name = b.name → a = b

theorem NamesUnique.perm {d₁ d₂ : List TypeDef} (h : d₁.Perm d₂) (hu : NamesUnique d₁) : NamesUnique d₂ :=
  fun a ha b hb => hu a (h.mem_iff.mpr ha) b (h.mem_iff.mpr hb)

theorem findDef_perm {d₁ d₂ : List TypeDef} (h : d₁.Perm d₂) (hu : NamesUnique d₁) (n : String) :
    findDef d₁ n = findDef d₂ n := by
  unfold findDef
  apply find_perm _ h
  intro a ha b hb pa pb
  have ea : a.name = n := by simpa using pa
  have eb : b.name = n := by simpa using pb
  exact hu a ha b hb (ea.trans eb.symm)

theorem kindOf_perm {d₁ d₂ : List TypeDef} (h : d₁.Perm d₂) (hu : NamesUnique d₁) :
    kindOf d₁ = kindOf d₂ := by
  funext n
  unfold kindOf
  rw [findDef_perm h hu n]

/-- **class sets do not depend on the order of the definitions** -/
theorem inputResults_perm (m : Mode) {d₁ d₂ : List TypeDef} (h : d₁.Perm d₂) (hu : NamesUnique d₁) :
    (inputResults m d₁).Perm (inputResults m d₂) := by
  unfold inputResults inputResultsK
  rw [kindOf_perm h hu]
  exact h.filterMap _

theorem enumResults_perm {d₁ d₂ : List TypeDef} (h : d₁.Perm d₂) :
    (enumResults d₁).Perm (enumResults d₂) := by
  unfold enumResults
  exact h.filterMap _

/-! ### class level -/

theorem genField_agree_iff (kinds : String → Kind) (f : InputField) (d : Bool) (a : Ann) (ft : String)
    (hann : annOf kinds f.type true = some (a, ft)) :
    genField .sdl kinds f = genField (.intro d) kinds f ↔ effectiveDefault f = false := by
  unfold genField
  simp only [hann, Option.some.injEq, FieldDecl.mk.injEq, true_and]
  exact fieldDefault_agree_iff ft f d

/-- every field type of the class is an input type the generator can annotate -/
def AnnOk (kinds : String → Kind) (fs : List InputField) : Prop :=
  ∀ f ∈ fs, ∃ a ft, annOf kinds f.type true = some (a, ft)

theorem genInput_agree_iff (kinds : String → Kind) (name : String) (fs : List InputField) (d : Bool)
    (hv : visibleFields (.intro d) fs = fs) (hok : AnnOk kinds fs) :
    genInput .sdl kinds name fs = genInput (.intro d) kinds name fs ↔ ∀ f ∈ fs, effectiveDefault f = false := by
  unfold genInput
  rw [hv]
  have hs : visibleFields .sdl fs = fs := rfl
  rw [hs]
  simp only [ClassResult.mk.injEq, true_and]
  rw [List.map_inj_left]
  constructor
  · intro h f hf
    obtain ⟨a, ft, hann⟩ := hok f hf
    exact (genField_agree_iff kinds f d a ft hann).mp (h f hf)
  · intro h f hf
    obtain ⟨a, ft, hann⟩ := hok f hf
    exact (genField_agree_iff kinds f d a ft hann).mpr (h f hf)

theorem visibleFields_eq_of_no_deprecated (d : Bool) (fs : List InputField)
    (h : d = true ∨ ∀ f ∈ fs, f.deprecated = false) : visibleFields (.intro d) fs = fs := by
  cases d
  · rcases h with h | h
    · cases h
    · simp only [visibleFields]
      apply List.filter_eq_self.mpr
      intro f hf; simp [h f hf]
  · rfl

/-- a deprecated field that is not asked for makes the class shorter -/
theorem visibleFields_length_lt (fs : List InputField) (h : ∃ f ∈ fs, f.deprecated = true) :
    (visibleFields (.intro false) fs).length < fs.length := by
  obtain ⟨f, hf, hd⟩ := h
  simp only [visibleFields]
  apply List.length_filter_lt_length_iff_exists.mpr
  exact ⟨f, hf, by simp [hd]⟩

/-! ### schema level -/

theorem trigDefaultLost_false_iff (defs : List TypeDef) :
    trigDefaultLost defs = false ↔ ∀ n fs, TypeDef.input n fs ∈ defs → ∀ f ∈ fs, effectiveDefault f = false := by
  unfold trigDefaultLost
  rw [List.any_eq_false]
  constructor
  · intro h n fs hm f hf
    have := h _ hm
    simp only [List.any_eq_true, not_exists, not_and, Bool.not_eq_true] at this
    exact this f hf
  · intro h d hd
    cases d with
    | input n fs =>
      simp only [List.any_eq_true, not_exists, not_and, Bool.not_eq_true]
      exact fun f hf => h n fs hd f hf
    | enum _ _ => simp
    | scalar _ => simp
    | composite _ => simp

theorem trigDeprecatedInput_false_iff (d : Bool) (defs : List TypeDef) :
    trigDeprecatedInput d defs = false ↔
      (d = true ∨ ∀ n fs, TypeDef.input n fs ∈ defs → ∀ f ∈ fs, f.deprecated = false) := by
  unfold trigDeprecatedInput
  cases d
  · simp only [Bool.not_false, Bool.true_and, Bool.false_eq_true, false_or]
    rw [List.any_eq_false]
    constructor
    · intro h n fs hm f hf
      have := h _ hm
      simp only [List.any_eq_true, not_exists, not_and, Bool.not_eq_true] at this
      exact this f hf
    · intro h x hx
      cases x with
      | input n fs =>
        simp only [List.any_eq_true, not_exists, not_and, Bool.not_eq_true]
        exact fun f hf => h n fs hx f hf
      | enum _ _ => simp
      | scalar _ => simp
      | composite _ => simp
  · simp

/-- **schema level**: with nothing dropped by the introspection query, the two sources give the same
    input classes iff no field has an effective default -/
theorem inputResultsK_agree_iff (K : String → Kind) (d : Bool) : ∀ (defs : List TypeDef),
    (∀ n fs, TypeDef.input n fs ∈ defs → AnnOk K fs) →
    (∀ n fs, TypeDef.input n fs ∈ defs → visibleFields (.intro d) fs = fs) →
    (inputResultsK .sdl K defs = inputResultsK (.intro d) K defs ↔
      ∀ n fs, TypeDef.input n fs ∈ defs → ∀ f ∈ fs, effectiveDefault f = false)
  | [], _, _ => by simp [inputResultsK]
  | x :: rest, hok, hv => by
    have ih := inputResultsK_agree_iff K d rest
      (fun n fs hm => hok n fs (List.mem_cons_of_mem _ hm))
      (fun n fs hm => hv n fs (List.mem_cons_of_mem _ hm))
    unfold inputResultsK at ih ⊢
    cases x with
    | input n fs =>
      simp only [List.filterMap_cons, inputOf, List.cons.injEq]
      rw [ih, genInput_agree_iff K n fs d (hv n fs (by simp)) (hok n fs (by simp))]
      constructor
      · rintro ⟨h₁, h₂⟩ n' fs' hm f hf
        rcases List.mem_cons.mp hm with e | hm'
        · cases e; exact h₁ f hf
        · exact h₂ n' fs' hm' f hf
      · intro h
        exact ⟨fun f hf => h n fs (by simp) f hf, fun n' fs' hm f hf => h n' fs' (List.mem_cons_of_mem _ hm) f hf⟩
    | enum a b =>
      simp only [List.filterMap_cons, inputOf]
      rw [ih]
      constructor
      · intro h n' fs' hm f hf
        rcases List.mem_cons.mp hm with e | hm'
        · cases e
        · exact h n' fs' hm' f hf
      · intro h n' fs' hm f hf
        exact h n' fs' (List.mem_cons_of_mem _ hm) f hf
    | scalar a =>
      simp only [List.filterMap_cons, inputOf]
      rw [ih]
      constructor
      · intro h n' fs' hm f hf
        rcases List.mem_cons.mp hm with e | hm'
        · cases e
        · exact h n' fs' hm' f hf
      · intro h n' fs' hm f hf
        exact h n' fs' (List.mem_cons_of_mem _ hm) f hf
    | composite a =>
      simp only [List.filterMap_cons, inputOf]
      rw [ih]
      constructor
      · intro h n' fs' hm f hf
        rcases List.mem_cons.mp hm with e | hm'
        · cases e
        · exact h n' fs' hm' f hf
      · intro h n' fs' hm f hf
        exact h n' fs' (List.mem_cons_of_mem _ hm) f hf

end Ariadne.InputGen
