/-
  C15: the whole-pipeline statement for plugin lists made of ExtractOperations, NoReimports and the identity plugin.

  `extract_lists_whole`: for every input whose unplugged generation is valid (`validB`), lies outside the finding
  triggers and has the form the generator produces (`genShapedE`, decidable), and every such plugin list in which
  ExtractOperations occurs once and freshly constructed: the generation does not raise, the operations module is
  written, the package loads (every constant is imported from the module that binds it), no method is projected, and
  every method sends the identical request (`extract_same_strings`) and handles every response as without plugins.
-/
import AriadneModel.Proofs.C15ExtractRun
import AriadneModel.Proofs.C15ShorterPipeline

set_option linter.unusedSimpArgs false
set_option linter.unusedVariables false

namespace Ariadne.C15
open Ariadne Ariadne.Py Ariadne.Plugins Ariadne.ClientSem

/-! ### the run as a whole -/

theorem ebook_config (est : ExtractState) (e : Event) :
    (ebook est e).written = est.written ∧ (ebook est e).opsModuleName = est.opsModuleName ∧
    (ebook est e).asyncClient = est.asyncClient := by
  unfold ebook
  split <;> exact ⟨rfl, rfl, rfl⟩

theorem foldl_ebook_config (evs : List Event) : ∀ est : ExtractState,
    (evs.foldl ebook est).written = est.written ∧ (evs.foldl ebook est).opsModuleName = est.opsModuleName ∧
    (evs.foldl ebook est).asyncClient = est.asyncClient := by
  induction evs with
  | nil => intro est; exact ⟨rfl, rfl, rfl⟩
  | cons e rest ih =>
    intro est
    simp only [List.foldl_cons]
    obtain ⟨h1, h2, h3⟩ := ih (ebook est e)
    obtain ⟨g1, g2, g3⟩ := ebook_config est e
    exact ⟨h1.trans g1, h2.trans g2, h3.trans g3⟩

theorem inert_findSome_none {α : Type} (F : PState → Option α) (hI : F .identity = none) (hN : F .noReimports = none)
    (l : List PState) (h : Inert l) : l.reverse.findSome? F = none := by
  rw [List.findSome?_eq_none_iff]
  intro q hq
  rcases h q (by simpa using hq) with rfl | rfl
  · exact hI
  · exact hN

theorem extract_opsFile (a b : List PState) (ha : Inert a) (hb : Inert b) (est : ExtractState) (f : OpsFile) (p : PipeState)
    (hp : p.plugins = a ++ .extract est :: b) (hw : est.written = some f) : p.opsFile? = some (est.opsModuleName, f) := by
  unfold PipeState.opsFile?
  rw [hp, List.reverse_append, List.reverse_cons, List.findSome?_append, List.findSome?_append,
    inert_findSome_none _ rfl rfl b hb]
  simp [hw]

theorem extract_pipeline (ps a b : List PState) (e0 : ExtractState) (hps : ps = a ++ .extract e0 :: b) (ha : Inert a) (hb : Inert b)
    (hg0 : e0.gqls = []) (hw0 : e0.written = none) (pre post : List Event) (cm : Event)
    (hcm : cm.call.hook = "generate_client_module")
    (hpre : ∀ e ∈ pre, e.call.hook ≠ "generate_client_module" ∧ e.call.hook ≠ "generate_init_module")
    (hck : checkE e0 pre = true) (mp : Module) (hp : cm.payload = .module mp)
    (hpost : ∀ e ∈ post, e.call.hook = "generate_init_import" ∨ e.call.hook = "generate_init_module")
    (hex : ∃ e ∈ post, e.call.hook = "generate_init_module" ∧ ∃ mp, e.payload = .module mp) :
    ∃ MQ MP f, ModE (pre.foldl ebook e0) MQ MP ∧ extractOpsFile (pre.foldl ebook e0) = .ok f ∧
      (runPipeline { plugins := [] } (pre ++ cm :: post)).2 = none ∧
      (runPipeline { plugins := [] } (pre ++ cm :: post)).1.clientModule? = some MQ ∧
      (runPipeline { plugins := [] } (pre ++ cm :: post)).1.opsFile? = none ∧
      (runPipeline { plugins := ps } (pre ++ cm :: post)).2 = none ∧
      (runPipeline { plugins := ps } (pre ++ cm :: post)).1.clientModule? =
        some { body := extractImport (pre.foldl ebook e0) :: MP.body } ∧
      (runPipeline { plugins := ps } (pre ++ cm :: post)).1.opsFile? = some (e0.opsModuleName, f) := by
  have h0 : ERel a b e0 { plugins := ps } { plugins := [] } := ⟨hps, rfl, rfl, rfl, rfl, .nil, trivial⟩
  obtain ⟨hp1, hp2, hrel⟩ := runPipeline_extract a b ha hb pre hpre e0 _ _ h0 hck
  obtain ⟨MQ, MP, P1, Q1, hQin, hmod, e1, e2, hrel1, hfP, hfQ⟩ :=
    stepEvent_extract_cm a b ha hb (pre.foldl ebook e0) _ _ cm hcm hrel mp hp
  have hinv : EInv (pre.foldl ebook e0) := foldl_ebook_inv pre e0 (fun op g hm => by rw [hg0] at hm; cases hm)
  have hwok : WOK (pre.foldl ebook e0) := .inl (by rw [(foldl_ebook_config pre e0).1]; exact hw0)
  obtain ⟨est', r1, r2, r3, r4, r5, r6, r7, r8, r9⟩ :=
    runPipeline_extract_post a b ha hb post hpost (pre.foldl ebook e0) P1 Q1 hrel1 hinv hwok
  have hpostcm : ∀ e ∈ post, e.call.hook ≠ "generate_client_module" := by
    intro e he; rcases hpost e he with h | h <;> (rw [h]; decide)
  have hrunP : runPipeline { plugins := ps } (pre ++ cm :: post) = runPipeline P1 post := by
    rw [runPipeline_append, hp1]; simp only; conv => lhs; unfold runPipeline
    rw [e1]
  have hrunQ : runPipeline { plugins := [] } (pre ++ cm :: post) = runPipeline Q1 post := by
    rw [runPipeline_append, hp2]; simp only; conv => lhs; unfold runPipeline
    rw [e2]
  have hsome := r8 hex
  obtain ⟨f, hf, hwf⟩ : ∃ f, extractOpsFile est' = .ok f ∧ est'.written = some f := by
    rcases r7 with hnone | hh
    · rw [hnone] at hsome; cases hsome
    · exact hh
  refine ⟨MQ, MP, f, hmod, by rw [← r9]; exact hf, ?_, ?_, ?_, ?_, ?_, ?_⟩
  · rw [hrunQ]; exact r2
  · rw [hrunQ]; unfold PipeState.clientModule?; rw [runPipeline_finalOf post _ hpostcm Q1, hfQ]
  · rw [hrunQ]; exact nil_opsFile _ r3.nil
  · rw [hrunP]; exact r1
  · rw [hrunP]; unfold PipeState.clientModule?; rw [runPipeline_finalOf post _ hpostcm P1, hfP]
  · rw [hrunP, extract_opsFile a b ha hb est' f _ r3.plugins hwf, r6, (foldl_ebook_config pre e0).2.1]

end Ariadne.C15

namespace Ariadne.C15
open Ariadne Ariadne.Py Ariadne.Plugins Ariadne.ClientSem

/-! ### the constants: bound by the import ExtractOperations prepends, holding the lines of the recorded string -/

theorem dotted_one (m : String) : dotted 1 m = "." ++ m := by
  simp [dotted]

theorem alookup_self_map (q : String) : ∀ (l : List String) (v : String), v ∈ l →
    alookup v (l.map (fun n => (n, (q, n)))) = some (q, v) := by
  intro l
  induction l with
  | nil => intro v hv; cases hv
  | cons a rest ih =>
    intro v hv
    by_cases h : a = v
    · subst h; simp [alookup]
    · rcases List.mem_cons.mp hv with rfl | hr
      · exact absurd rfl h
      · simp [alookup, h, ih v hr]

theorem alookup_self_map_none (q : String) (l : List String) (v : String) (hv : v ∉ l) :
    alookup v (l.map (fun n => (n, (q, n)))) = none := by
  apply alookup_none_of_not_key
  intro kv hkv hc
  simp only [List.mem_map] at hkv
  obtain ⟨n, hn, rfl⟩ := hkv
  exact hv (hc ▸ hn)

theorem extractImport_bindings (est : ExtractState) :
    importBindings [({ module := some est.opsModuleName, names := est.vars.map (fun kv => (kv.2, none)), level := 1 } : ImportFrom)] =
      (est.vars.map (·.2)).map (fun n => (n, (dotted 1 est.opsModuleName, n))) := by
  simp [importBindings, List.map_map, Function.comp_def]

theorem nodupB_sound : ∀ (l : List String), nodupB l = true → l.Nodup := by
  intro l
  induction l with
  | nil => intro _; exact List.nodup_nil
  | cons a rest ih =>
    intro h
    simp only [nodupB, Bool.and_eq_true, Bool.not_eq_true', List.contains_eq_mem, decide_eq_false_iff_not] at h
    exact List.nodup_cons.mpr ⟨h.1, ih h.2⟩

/-- two operations with the same constant are the same operation -/
theorem vars_inj (vars : List (String × String)) (hn : (vars.map (·.2)).Nodup) (op1 op2 v : String)
    (h1 : alookup op1 vars = some v) (h2 : alookup op2 vars = some v) : op1 = op2 := by
  have m1 := mem_of_alookup op1 v vars h1
  have m2 := mem_of_alookup op2 v vars h2
  induction vars with
  | nil => cases m1
  | cons kv rest ih =>
    simp only [List.map_cons, List.nodup_cons] at hn
    rcases List.mem_cons.mp m1 with e1 | r1
    · rcases List.mem_cons.mp m2 with e2 | r2
      · rw [← e1] at e2; exact (Prod.mk.inj e2).1.symm
      · exfalso; apply hn.1; rw [← e1]; exact List.mem_map.mpr ⟨(op2, v), r2, rfl⟩
    · rcases List.mem_cons.mp m2 with e2 | r2
      · exfalso; apply hn.1; rw [← e2]; exact List.mem_map.mpr ⟨(op1, v), r1, rfl⟩
      · -- both in the rest: the lookups in the rest agree with membership only; use injectivity on members
        have : ∀ (l : List (String × String)), (l.map (·.2)).Nodup → (op1, v) ∈ l → (op2, v) ∈ l → op1 = op2 := by
          intro l
          induction l with
          | nil => intro _ h; cases h
          | cons x xs ihx =>
            intro hnd a1 a2
            simp only [List.map_cons, List.nodup_cons] at hnd
            rcases List.mem_cons.mp a1 with e1 | r1'
            · rcases List.mem_cons.mp a2 with e2 | r2'
              · rw [← e1] at e2; exact (Prod.mk.inj e2).1.symm
              · exfalso; apply hnd.1; rw [← e1]; exact List.mem_map.mpr ⟨(op2, v), r2', rfl⟩
            · rcases List.mem_cons.mp a2 with e2 | r2'
              · exfalso; apply hnd.1; rw [← e2]; exact List.mem_map.mpr ⟨(op1, v), r1', rfl⟩
              · exact ihx hnd.2 r1' r2'
        exact this rest hn.2 r1 r2

/-- the written module binds the constant of an operation to the lines of ITS string -/
theorem opsFile_lookup (est : ExtractState) (f : OpsFile) (hf : extractOpsFile est = .ok f)
    (hinj : ∀ op1 op2 v, alookup op1 est.vars = some v → alookup op2 est.vars = some v → op1 = op2)
    (op v g : String) (hv : alookup op est.vars = some v) (hg : alookup op est.gqls = some g) :
    alookup v f.assigns = some (pyLines g) := by
  rw [extractOpsFile_eq] at hf
  cases hm : est.gqls.mapM (opsAssign est) with
  | error e => rw [hm] at hf; cases hf
  | ok assigns =>
    rw [hm] at hf
    simp only [bind_ok, pure_eq_ok, Except.ok.injEq] at hf
    subst hf
    simp only
    -- scan the recorded strings in order: the first one whose constant is `v` is the string of `op`
    have : ∀ (l : List (String × String)) (r : List (String × List String)), l.mapM (opsAssign est) = .ok r →
        alookup op l = some g → alookup v r = some (pyLines g) := by
      intro l
      induction l with
      | nil => intro r _ h; simp [alookup] at h
      | cons kv rest ih =>
        intro r hr hl
        rw [List.mapM_cons] at hr
        cases hk : opsAssign est kv with
        | error e => rw [hk] at hr; cases hr
        | ok y =>
          rw [hk] at hr
          simp only [bind_ok] at hr
          cases hrest : rest.mapM (opsAssign est) with
          | error e => rw [hrest] at hr; cases hr
          | ok ys =>
            rw [hrest] at hr
            simp only [bind_ok, pure_eq_ok, Except.ok.injEq] at hr
            subst hr
            obtain ⟨k, gk⟩ := kv
            unfold opsAssign at hk
            simp only at hk
            cases hvk : alookup k est.vars with
            | none => rw [hvk] at hk; cases hk
            | some vk =>
              rw [hvk] at hk
              simp only [pure_eq_ok, Except.ok.injEq] at hk
              subst hk
              by_cases hko : k = op
              · subst hko
                simp only [alookup, ↓reduceIte, Option.some.injEq] at hl
                subst hl
                rw [hv] at hvk
                simp only [Option.some.injEq] at hvk
                subst hvk
                simp [alookup]
              · have hne : vk ≠ v := by
                  intro hc; subst hc; exact hko (hinj k op vk hvk hv)
                simp only [alookup, hko, ↓reduceIte] at hl
                simp only [alookup, hne, ↓reduceIte]
                exact ih ys hrest hl
    exact this est.gqls assigns hm hg

end Ariadne.C15

namespace Ariadne.C15
open Ariadne Ariadne.Py Ariadne.Plugins Ariadne.ClientSem

/-! ### scoping of a method that ExtractOperations leaves alone -/

theorem runtimeUnresolved_mono_ops (M0 M1 : Module) (ops : Option (String × OpsFile)) (md : Method)
    (hmono : ∀ n ∈ moduleNames M0, n ∈ moduleNames M1)
    (h : runtimeUnresolved { client := M0, ops := none } md = []) :
    runtimeUnresolved { client := M1, ops := ops } md = [] ∧
    (∀ v, shapeOf md = some v → ∃ q ls, v.op = .inline q ls) := by
  unfold runtimeUnresolved at h ⊢
  cases hs : shapeOf md with
  | none => exact ⟨rfl, fun v hv => by cases hv⟩
  | some v =>
    simp only [hs] at h ⊢
    have hcv : ∀ (c : String), constValue { client := M0, ops := none } v c = none := by
      intro c; unfold constValue; cases resolveRuntime { client := M0, ops := none } v c <;> rfl
    rw [List.append_eq_nil_iff] at h
    obtain ⟨h1, h2⟩ := h
    cases hop : v.op with
    | const c =>
      exfalso
      rw [h1] at h2
      simp [hop, hcv] at h2
    | inline q ls =>
      refine ⟨?_, fun v' hv' => by cases hv'; exact ⟨q, ls, hop⟩⟩
      rw [List.append_eq_nil_iff]
      have hm1 : ∀ need : List String,
          need.filter (fun n => !((importBindings v.imports).map (·.1) ++ moduleNames M0 ++ builtinNames ++ md.args.map (·.1) ++ ["kwargs"]).contains n) = [] →
          need.filter (fun n => !((importBindings v.imports).map (·.1) ++ moduleNames M1 ++ builtinNames ++ md.args.map (·.1) ++ ["kwargs"]).contains n) = [] := by
        intro need hneed
        rw [List.filter_eq_nil_iff] at hneed ⊢
        intro a ha
        have h0 := hneed a ha
        have hc0 : ((importBindings v.imports).map (·.1) ++ moduleNames M0 ++ builtinNames ++ md.args.map (·.1) ++ ["kwargs"]).contains a = true := by
          cases hc : ((importBindings v.imports).map (·.1) ++ moduleNames M0 ++ builtinNames ++ md.args.map (·.1) ++ ["kwargs"]).contains a with
          | true => rfl
          | false => rw [hc] at h0; exact absurd rfl h0
        have hc1 : ((importBindings v.imports).map (·.1) ++ moduleNames M1 ++ builtinNames ++ md.args.map (·.1) ++ ["kwargs"]).contains a = true := by
          rw [List.contains_iff_mem] at hc0 ⊢
          simp only [List.mem_append] at hc0 ⊢
          rcases hc0 with (((h | h) | h) | h) | h
          · exact .inl (.inl (.inl (.inl h)))
          · exact .inl (.inl (.inl (.inr (hmono a h))))
          · exact .inl (.inl (.inr h))
          · exact .inl (.inr h)
          · exact .inr h
        rw [hc1]
        simp
      rw [hop] at h1
      simp only [hop]
      exact ⟨hm1 _ h1, by simp⟩

theorem knownModules_mono (x : Input) (ops : String × OpsFile) (q : String) (h : q ∈ knownModules x none) :
    q ∈ knownModules x (some ops) := by
  unfold knownModules at h ⊢
  simp only [List.append_nil] at h
  exact List.mem_append_left _ h

theorem knownModules_ops (x : Input) (n : String) (f : OpsFile) : ("." ++ n) ∈ knownModules x (some (n, f)) := by
  unfold knownModules
  simp

theorem extractOf_quiet (a b : List PState) (ha : Inert a) (e0 : ExtractState) : extractOf (a ++ .extract e0 :: b) = some e0 := by
  unfold extractOf
  induction a with
  | nil => rfl
  | cons p rest ih =>
    have hp := ha p (by simp)
    have hrest : Inert rest := fun q hq => ha q (by simp [hq])
    rcases hp with rfl | rfl
    · simpa [List.findSome?_cons] using ih hrest
    · simpa [List.findSome?_cons] using ih hrest

theorem fresh_extract (e0 : ExtractState) (h : PState.isFresh (.extract e0) = true) :
    e0.gqls = [] ∧ e0.vars = [] ∧ e0.written = none := by
  simp only [PState.isFresh, Bool.and_eq_true, List.isEmpty_iff, Option.isNone_iff_eq_none] at h
  exact ⟨h.1.1, h.1.2, h.2⟩

theorem no_shorter_quiet_e (a b : List PState) (ha : Inert a) (hb : Inert b) (e0 : ExtractState) :
    (a ++ PState.extract e0 :: b).any PState.isShorter = false := by
  rw [List.any_eq_false]
  intro p hp
  simp only [List.mem_append, List.mem_cons] at hp
  rcases hp with hp | rfl | hp
  · rcases ha p hp with rfl | rfl <;> simp [PState.isShorter]
  · simp [PState.isShorter]
  · rcases hb p hp with rfl | rfl <;> simp [PState.isShorter]

theorem extract_lists_whole (x : Input) (a b : List PState) (e0 : ExtractState) (hps : x.plugins = a ++ .extract e0 :: b)
    (ha : Inert a) (hb : Inert b) (hfresh : PState.isFresh (.extract e0) = true)
    (hv : validB x = true) (hclash : trigOpsModuleClash x = false) (hg : genShapedE x = true) :
    loadsB x.plugins x = true ∧ projOKB x.plugins x = true ∧ SameBehaviour x.plugins x := by
  unfold genShapedE at hg
  rw [hps, extractOf_quiet a b ha e0] at hg
  split at hg
  rotate_left
  · cases hg
  rename_i pre cm post M0 e0' hsplit hM0 he0
  simp only [Option.some.injEq] at he0
  subst he0
  simp only [Bool.and_eq_true] at hg
  obtain ⟨⟨⟨⟨⟨⟨hpayload, hpreI⟩, hpostH⟩, hpostE⟩, hck⟩, hgql⟩, hrest⟩ := hg
  obtain ⟨hevs, hcm, hpre⟩ := splitAt_spec x.events pre cm post hsplit
  split at hrest
  rotate_left
  · cases hrest
  rename_i pre0 g0 C0 hsc
  obtain ⟨hbody0, hnc0⟩ := splitClient_spec M0 pre0 g0 C0 hsc
  simp only [Bool.and_eq_true, List.all_eq_true] at hrest
  obtain ⟨hnodup, hretcls⟩ := hrest
  obtain ⟨mp, hmp⟩ : ∃ mp, cm.payload = .module mp := by
    split at hpayload
    · exact ⟨_, by assumption⟩
    · cases hpayload
  obtain ⟨hg0, hv0, hw0⟩ := fresh_extract e0 hfresh
  rw [List.all_eq_true] at hpreI hpostH
  have hpre' : ∀ e ∈ pre, e.call.hook ≠ "generate_client_module" ∧ e.call.hook ≠ "generate_init_module" :=
    fun e he => ⟨hpre e he, by simpa using hpreI e he⟩
  have hpost' : ∀ e ∈ post, e.call.hook = "generate_init_import" ∨ e.call.hook = "generate_init_module" := by
    intro e he; simpa using hpostH e he
  have hex : ∃ e ∈ post, e.call.hook = "generate_init_module" ∧ ∃ mp, e.payload = .module mp := by
    rw [List.any_eq_true] at hpostE
    obtain ⟨e, he, hh⟩ := hpostE
    simp only [Bool.and_eq_true, beq_iff_eq] at hh
    refine ⟨e, he, hh.1, ?_⟩
    have h2 := hh.2
    split at h2
    · exact ⟨_, by assumption⟩
    · cases h2
  obtain ⟨MQ, MP, f, hmod, hf, hu1, hu2, hu3, hp1, hp2, hp3⟩ :=
    extract_pipeline x.plugins a b e0 hps ha hb hg0 hw0 pre post cm hcm hpre' hck mp hmp hpost' hex
  rw [← hevs] at hu1 hu2 hu3 hp1 hp2 hp3
  have hMeq : MQ = M0 := by
    have : (runWith [] x).1.clientModule? = some MQ := hu2
    rw [hM0] at this
    exact (Option.some.inj this).symm
  subst hMeq
  -- abbreviations
  generalize hest : pre.foldl ebook e0 = est at hmod hf hp2 hnodup hretcls
  have hopsName : est.opsModuleName = e0.opsModuleName := by rw [← hest]; exact (foldl_ebook_config pre e0).2.1
  -- the class of the plugged module
  obtain ⟨CP, hbodyP, hnameP, hitems⟩ : ∃ CP : ClassDef, MP.body = pre0 ++ [.funcDef g0, .classDef CP] ∧ CP.name = C0.name ∧
      ItemsRel (MethE' est) C0.body CP.body := by
    rcases hmod with rfl | ⟨imps, g, cQ, cP, hbq, hbp, hcls⟩
    · exact ⟨C0, hbody0, rfl, ItemsRel.refl (fun m => .inl rfl) _⟩
    · rw [hbody0] at hbq
      have hinj := List.append_inj' hbq (by simp)
      obtain ⟨h1, h2⟩ := hinj
      simp only [List.cons.injEq, Top.funcDef.injEq, Top.classDef.injEq, and_true] at h2
      obtain ⟨rfl, rfl⟩ := h2
      subst h1
      simp only [ClassE] at hcls
      exact ⟨cP, hbp, hcls.1, hcls.2.2.2⟩
  -- the plugged client module
  have hloads0' : loadsB [] x = true := by
    simp only [validB, Bool.and_eq_true] at hv; exact hv.1.2
  have hproj0 : projOKB [] x = true := by
    simp only [validB, Bool.and_eq_true] at hv; exact hv.2
  unfold loadsB at hloads0'
  simp only [Bool.and_eq_true] at hloads0'
  obtain ⟨⟨_, hmod0⟩, _⟩ := hloads0'
  have hM0' : (runWith [] x).1.clientModule? = some MQ := hM0
  have hops0 : (runWith [] x).1.opsFile? = none := hu3
  rw [hM0', hops0] at hmod0
  simp only [Bool.and_eq_true] at hmod0
  obtain ⟨⟨⟨hfmt0, hann0⟩, hwell0⟩, himp0⟩ := hmod0
  have hfc0 : MQ.firstClass? = some C0 := firstClass_of_body MQ pre0 g0 C0 hbody0 hnc0
  obtain ⟨M1, hM1def⟩ : ∃ M1 : Module, M1 = { body := extractImport est :: MP.body } := ⟨_, rfl⟩
  rw [← hM1def] at hp2
  have hM1body : M1.body = (extractImport est :: pre0) ++ [.funcDef g0, .classDef CP] := by
    rw [hM1def]
    show extractImport est :: MP.body = _
    rw [hbodyP]; rfl
  have hnc1 : NoClass (extractImport est :: pre0) := by
    intro t ht
    rcases List.mem_cons.mp ht with rfl | h
    · rfl
    · exact hnc0 t h
  have hfc1 : M1.firstClass? = some CP := firstClass_of_body M1 _ g0 CP hM1body hnc1
  have hnames1 : moduleNames M1 = est.vars.map (·.2) ++ moduleNames MQ := by
    rw [moduleNames_eq, moduleNames_eq, hM1body, hbody0, List.cons_append, namesOfTops_cons, namesOfTops_append, namesOfTops_append]
    have h1 : namesOfTops [extractImport est] = est.vars.map (·.2) := by
      simp [namesOfTops, moduleNames, extractImport, List.map_map, Function.comp_def]
    have h2 : namesOfTops [Top.funcDef g0, Top.classDef CP] = namesOfTops [Top.funcDef g0, Top.classDef C0] := by
      simp [namesOfTops, moduleNames, hnameP]
    rw [h1, h2]
  have hmono : ∀ n ∈ moduleNames MQ, n ∈ moduleNames M1 := by
    intro n hn; rw [hnames1]; exact List.mem_append_right _ hn
  have htop1 : topImports M1 = { module := some est.opsModuleName, names := est.vars.map (fun kv => (kv.2, none)), level := 1 } :: topImports MQ := by
    rw [topImports_eq, topImports_eq, hM1body, hbody0, List.cons_append]
    have h1 : ∀ l : List Top, importsOfTops (extractImport est :: l) =
        { module := some est.opsModuleName, names := est.vars.map (fun kv => (kv.2, none)), level := 1 } :: importsOfTops l := by
      intro l; rfl
    rw [h1, importsOfTops_append, importsOfTops_append]
    rfl
  have hbind1 : importBindings (topImports M1) =
      (est.vars.map (·.2)).map (fun n => (n, (dotted 1 est.opsModuleName, n))) ++ importBindings (topImports MQ) := by
    rw [htop1]
    have : ∀ (i : ImportFrom) (l : List ImportFrom), importBindings (i :: l) = importBindings [i] ++ importBindings l :=
      fun i l => importBindings_append [i] l
    rw [this, extractImport_bindings]
  have hrun : runWith x.plugins x = runPipeline { plugins := x.plugins } x.events := rfl
  have hpkg1 : pkgOf x.plugins x = { client := M1, ops := some (e0.opsModuleName, f) } := by
    unfold pkgOf; rw [hrun, hp2, hp3]; rfl
  have hpkg0 : pkgOf [] x = { client := MQ, ops := none } := by
    unfold pkgOf; rw [hM0', hops0]; rfl
  have hinj : ∀ op1 op2 v, alookup op1 est.vars = some v → alookup op2 est.vars = some v → op1 = op2 :=
    vars_inj est.vars (nodupB_sound _ hnodup)
  have hgql' : "gql" ∈ moduleNames MQ := by simpa using hgql
  -- a rewritten method: its constant resolves to the lines the method inlined
  have hconst : ∀ (s : Shape) (op v g : String), alookup op est.vars = some v → alookup op est.gqls = some g → s.imports = [] →
      constValue { client := M1, ops := some (e0.opsModuleName, f) } { s with op := .const v } v = some (String.join (pyLines g)) := by
    intro s op v g hv' hg' himps
    have hvmem : v ∈ est.vars.map (·.2) := List.mem_map.mpr ⟨(op, v), mem_of_alookup op v _ hv', rfl⟩
    unfold constValue resolveRuntime
    have hnil : alookup v (importBindings ({ s with op := .const v } : Shape).imports) = none := by
      show alookup v (importBindings s.imports) = none
      rw [himps]; rfl
    have htop : alookup v (importBindings (topImports M1)) = some (dotted 1 est.opsModuleName, v) := by
      rw [hbind1, alookup_append, alookup_self_map _ _ v hvmem]
    simp only [hnil, htop, hopsName, dotted_one, ↓reduceIte, opsFile_lookup est f hf hinj op v g hv' hg', Option.map_some]
  -- looking a method up by name, before and after
  have hfind : ∀ n : String, finalMethod [] x n = none ∧ finalMethod x.plugins x n = none ∨
      ∃ md md', finalMethod [] x n = some md ∧ finalMethod x.plugins x n = some md' ∧ MethE' est md md' ∧ md ∈ C0.methods := by
    intro n
    unfold finalMethod
    rw [hM0', hrun, hp2]
    simp only [hfc0, hfc1, Option.map_some, Option.getD_some]
    exact ItemsRel.find (fun m m' h => by rcases h with rfl | h; rfl; exact h.name) n hitems
  have hexp : ∀ m, expectedProj x.plugins x m = [] := by
    intro m; unfold expectedProj; rw [hps, no_shorter_quiet_e a b ha hb e0]; simp
  have hexp0 : ∀ m, expectedProj [] x m = [] := by intro m; unfold expectedProj; simp
  -- scoping data of the unplugged module
  have hann0' := hann0
  unfold annScopedB at hann0'
  rw [hfc0] at hann0'
  simp only [List.all_eq_true, Bool.or_eq_true, List.contains_iff_mem] at hann0'
  have hwell0' := hwell0
  unfold wellScopedB unresolvedNames at hwell0'
  simp only [hfc0] at hwell0'
  rw [List.isEmpty_iff, List.flatMap_eq_nil_iff] at hwell0'
  have hCPmethods : ∀ md' ∈ CP.methods, ∃ md ∈ C0.methods, MethE' est md md' := fun md' hmd' => ItemsRel.mem_right hitems md' hmd'
  refine ⟨?_, ?_, ?_⟩
  · -- loadsB
    unfold loadsB
    simp only [hrun, hp1, hp2, hp3]
    have hfmt1 : formatOkB M1 = true := by
      unfold formatOkB at hfmt0 ⊢
      rw [List.all_eq_true] at hfmt0 ⊢
      intro t ht
      rw [hM1body] at ht
      simp only [List.cons_append, List.mem_cons, List.mem_append, List.not_mem_nil, or_false] at ht
      rcases ht with rfl | h | rfl | rfl
      · rfl
      · exact hfmt0 t (by rw [hbody0]; simp [h])
      · rfl
      · rfl
    have hann1 : annScopedB M1 = true := by
      unfold annScopedB
      rw [hfc1]
      simp only [List.all_eq_true, Bool.or_eq_true, List.contains_iff_mem]
      intro md' hmd' n hn
      obtain ⟨md, hmd, hrel⟩ := hCPmethods md' hmd'
      have hdt : defTimeNames md' = defTimeNames md := by
        rcases hrel with rfl | ⟨_, _, _, _, _, _, _, _, _, _, rfl⟩
        · rfl
        · rfl
      rw [hdt] at hn
      rcases hann0' md hmd n hn with h | h
      · exact .inl (hmono n h)
      · exact .inr h
    have hwell1 : wellScopedB { client := M1, ops := some (e0.opsModuleName, f) } = true := by
      unfold wellScopedB unresolvedNames
      simp only [hfc1]
      rw [List.isEmpty_iff, List.flatMap_eq_nil_iff]
      intro md' hmd'
      obtain ⟨md, hmd, hrel⟩ := hCPmethods md' hmd'
      have hmd0 := hwell0' md hmd
      rcases hrel with rfl | ⟨op, v, g, s, q, hv', hg', hbody, himps, hsop, rfl⟩
      · exact (runtimeUnresolved_mono_ops MQ M1 _ md' hmono hmd0).1
      · have hsh : shapeOf md = some s := shapeOf_bodyOf md s hbody
        have hsh' : shapeOf ({ md with body := bodyOf { s with op := .const v } } : Method) = some { s with op := .const v } :=
          shapeOf_bodyOf _ _ rfl
        have hvmem : v ∈ moduleNames M1 := by
          rw [hnames1]; exact List.mem_append_left _ (List.mem_map.mpr ⟨(op, v), mem_of_alookup op v _ hv', rfl⟩)
        unfold runtimeUnresolved at hmd0 ⊢
        simp only [hsh, hsop] at hmd0
        simp only [hsh']
        rw [List.append_eq_nil_iff] at hmd0 ⊢
        obtain ⟨hmiss, _⟩ := hmd0
        rw [List.filter_eq_nil_iff] at hmiss
        have hb0 : ∀ n, n ∈ ["gql", s.retClass] ++ exNames s.variables →
            ((importBindings s.imports).map (·.1) ++ moduleNames M1 ++ builtinNames ++ md.args.map (·.1) ++ ["kwargs"]).contains n = true := by
          intro n hn
          have h0 := hmiss n hn
          have hc0 : ((importBindings s.imports).map (·.1) ++ moduleNames MQ ++ builtinNames ++ md.args.map (·.1) ++ ["kwargs"]).contains n = true := by
            cases hc : ((importBindings s.imports).map (·.1) ++ moduleNames MQ ++ builtinNames ++ md.args.map (·.1) ++ ["kwargs"]).contains n with
            | true => rfl
            | false => rw [hc] at h0; exact absurd rfl h0
          rw [List.contains_iff_mem] at hc0 ⊢
          simp only [List.mem_append] at hc0 ⊢
          rcases hc0 with (((h | h) | h) | h) | h
          · exact .inl (.inl (.inl (.inl h)))
          · exact .inl (.inl (.inl (.inr (hmono n h))))
          · exact .inl (.inl (.inr h))
          · exact .inl (.inr h)
          · exact .inr h
        constructor
        · rw [List.filter_eq_nil_iff]
          intro n hn
          simp only [List.cons_append, List.nil_append, List.mem_cons, List.mem_append] at hn
          have : ((importBindings s.imports).map (·.1) ++ moduleNames M1 ++ builtinNames ++ md.args.map (·.1) ++ ["kwargs"]).contains n = true := by
            rcases hn with rfl | rfl | hn
            · rw [List.contains_iff_mem]; simp only [List.mem_append]; exact .inl (.inl (.inl (.inr hvmem)))
            · exact hb0 _ (by simp)
            · exact hb0 n (by simp [hn])
          rw [this]
          decide
        · rw [hconst s op v g hv' hg' himps]
          simp
    have himp1 : importsExistB x M1 (some (e0.opsModuleName, f)) = true := by
      unfold importsExistB at himp0 ⊢
      rw [List.all_eq_true] at himp0 ⊢
      intro i hi
      rw [htop1] at hi
      rcases List.mem_cons.mp hi with rfl | h
      · have hrel : relModule ({ module := some est.opsModuleName, names := est.vars.map (fun kv => (kv.2, none)), level := 1 } : ImportFrom) =
            some (dotted 1 est.opsModuleName) := by simp [relModule]
        rw [hrel, dotted_one, hopsName]
        simpa using knownModules_ops x e0.opsModuleName f
      · have := himp0 i h
        cases hq : relModule i with
        | none => rfl
        | some q =>
          rw [hq] at this
          simp only [List.contains_iff_mem] at this ⊢
          simpa using knownModules_mono x (e0.opsModuleName, f) q (by simpa using this)
    simp [hfmt1, hann1, hwell1, himp1, hclash]
  · -- projOKB
    unfold projOKB at hproj0 ⊢
    rw [List.all_eq_true] at hproj0 ⊢
    intro m hm
    have h0 := hproj0 m hm
    unfold finalShape at h0 ⊢
    rcases hfind m.name with ⟨hn0, _⟩ | ⟨md, md', hf0, hf1, hrel, hmem⟩
    · rw [hn0] at h0; simp at h0
    · rw [hf0] at h0
      rw [hf1]
      simp only [Option.bind_some] at h0 ⊢
      rw [hexp]
      rw [hexp0] at h0
      rcases hrel with rfl | ⟨op, v, g, s, q, hv', hg', hbody, himps, hsop, rfl⟩
      · exact h0
      · rw [shapeOf_bodyOf md s hbody] at h0
        rw [shapeOf_bodyOf _ { s with op := .const v } rfl]
        exact h0
  · -- SameBehaviour
    intro m hm s0 hs0
    unfold finalShape at hs0 ⊢
    rcases hfind m.name with ⟨hn0, _⟩ | ⟨md, md', hf0, hf1, hrel, hmem⟩
    · rw [hn0] at hs0; simp at hs0
    · rw [hf0] at hs0
      simp only [Option.bind_some] at hs0
      rw [hf1, hpkg1, hpkg0, hexp]
      have hnotvar : s0.retClass ∉ est.vars.map (·.2) := by
        have := hretcls md hmem
        rw [hs0] at this
        simpa using this
      have hresp : ∀ (s1 : Shape), s1.imports = s0.imports → s1.retClass = s0.retClass → s1.proj = s0.proj →
          ∀ (PyV : Type) (validate : String × String → J → Except String PyV) (getattr : String → PyV → PyV) (d : J),
          respond validate getattr { client := M1, ops := some (e0.opsModuleName, f) } s1 d =
            respond validate getattr { client := MQ, ops := none } s0 d := by
        intro s1 h1 h2 h3 PyV validate getattr d
        unfold respond resolveRuntime
        simp only [h1, h2, h3]
        rw [hbind1, alookup_append, alookup_self_map_none _ _ _ hnotvar]
      rcases hrel with rfl | ⟨op, v, g, s, q, hv', hg', hbody, himps, hsop, rfl⟩
      · refine ⟨s0, by simpa using hs0, ?_, ?_⟩
        · -- the operation is inlined: only `gql` matters
          have hinl := (runtimeUnresolved_mono_ops MQ M1 none md' hmono (hwell0' md' hmem)).2 s0 hs0
          obtain ⟨q, ls, hop⟩ := hinl
          unfold request
          simp [hop, hgql', hmono _ hgql']
        · intro PyV validate getattr d
          rw [hresp s0 rfl rfl rfl]
          simp only [List.foldl_nil]
          exact (outcome_map_id _).symm
      · have hs : s = s0 := by
          have := shapeOf_bodyOf md s hbody
          rw [hs0] at this
          exact (Option.some.inj this).symm
        subst hs
        refine ⟨{ s with op := .const v }, by simpa using shapeOf_bodyOf _ { s with op := .const v } rfl, ?_, ?_⟩
        · unfold request
          simp only [hsop, hconst s op v g hv' hg' himps]
          simp [hgql']
        · intro PyV validate getattr d
          rw [hresp { s with op := .const v } rfl rfl rfl]
          simp only [List.foldl_nil]
          exact (outcome_map_id _).symm

end Ariadne.C15
