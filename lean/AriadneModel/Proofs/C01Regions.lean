/-
  Proofs/C01Regions.lean — property C01: the DECIDABLE REGION PREDICATES of the pipeline theorems
  (`PlainInput`, `AbsInput`, `MixInput`, `MixAbsInput`) and the definitions they are made of, in one core-Lean file, so
  that the compiled driver can evaluate them on every generated case (op `regions`; the evidence file then says how many
  sampled cases lie inside each proved region).  The theorems about them are in Proofs/C01Bridge*.lean.
-/
import AriadneModel.Proofs.C01AbsDefs
import AriadneModel.Model.Claim01

set_option linter.unusedSimpArgs false
set_option linter.unusedVariables false

namespace Ariadne.C01
open Ariadne Ariadne.Gql Ariadne.ResultTypes Ariadne.Util Ariadne.Pyd Ariadne.Triggers01 Ariadne.C01Plain Ariadne.C01Abs
open Ariadne.C01Mix (fragClassesOf MixOK mClass mneed fragDepth fragOK)

/-- decidable conditions on the schema under which the generated enum classes mean what the schema says:
    type names are pairwise distinct, no enum is called like a builtin annotation (`str`, `int`, `float`, `bool`, `Any`),
    and the five built-in scalar names are not redefined as something else -/
def schemaOK (S : Schema) : Bool :=
  nodupB (S.types.map (·.name))
  && (S.types.all fun t => !(t.kind == .enum) || !(["str", "int", "float", "bool", "Any"].contains t.name))
  && (["Int", "Float", "String", "ID", "Boolean"].all fun n =>
        match S.kindOf? n with
        | none => true
        | some .scalar => true
        | _ => false)


/-- the names a generated result module imports (or may import): pydantic / typing helpers and the schema's enum classes.
    A generated class with one of these names shadows the import (e.g. `class BaseModel(BaseModel)`: data silently dropped
    on the real code). -/
def importedNames (env : ResultTypes.Env) : List String :=
  ["BaseModel", "Field", "Optional", "List", "Any", "Literal", "Union", "Annotated", "BeforeValidator", "Upload"]
  ++ (env.schema.types.filter (·.kind == .enum)).map (·.name)
  ++ env.scalars.map (·.typeName)

/-- no generated class is called like something the module imports -/
def NoShadowedImport (env : ResultTypes.Env) (classes : List ClassDecl) : Bool :=
  classes.all fun c => !(importedNames env).contains c.name


def plainOpOK (env : ResultTypes.Env) (o : Operation) : Bool :=
  match o.name, Validate.rootOf env.schema o with
  | some n, some tn =>
    !(o.dirs.any (·.name == Tables.mixinName))
    && PlainOK env (pascal n) tn o.sid o.sel {}
    && NoShadowedImport env (plainClasses env (pascal n) tn o.sel)
    && decide (gfuel o.sel ≤ Triggers01.fuel)
    && decide (vneed env tn o.sel + 1 ≤ execFuel)
  | _, _ => false

/-- the region of `C01_partial_plain` -/
def PlainInput (inp : Input) : Prop :=
  (inp.env.frags.isEmpty && schemaOK inp.env.schema && inp.ops.all (plainOpOK inp.env)) = true

instance (inp : Input) : Decidable (PlainInput inp) := by unfold PlainInput; infer_instance


/-- no `__typename` field carries `@skip` / `@include` (anywhere in the document) -/
def NoCondTypename (inp : Input) : Bool :=
  !(anyInDoc inp fun s => match s with
    | .field _ n dirs _ _ => n == typenameField && hasConditionalDirective dirs
    | _ => false)

/-- one operation; `K` = nesting fuel of the fragment definitions, `F` = validation fuel their classes need (both `0` when there
    are no fragment definitions) -/
def absOpOK (env : ResultTypes.Env) (K F : Nat) (o : Operation) (ms : List Nat) : Bool :=
  match o.name, Validate.rootOf env.schema o with
  | some n, some tn =>
    !(o.dirs.any (·.name == Tables.mixinName))
    && AbsOK env (pascal n) tn o.sid o.sel { marks := ms }
    && NoShadowedImport env (aClass env (pascal n) tn [] false o.sel)
    && decide (agfuel o.sel ≤ Triggers01.fuel)
    && decide (agfuel o.sel + K ≤ execFuel)
    && decide (avneed env (pascal n) tn o.sel + 4 + F ≤ execFuel)
  | _, _ => false

/-- the marks operation `o` leaves behind (as a set) -/
def opMarks (env : ResultTypes.Env) (o : Operation) (ms : List Nat) : List Nat :=
  match o.name, Validate.rootOf env.schema o with
  | some n, some tn => ms ++ needSids env (pascal n) tn o.sel
  | _, _ => ms

def absOpsOK (env : ResultTypes.Env) (K F : Nat) : List Operation → List Nat → Bool
  | [], _ => true
  | o :: rest, ms => absOpOK env K F o ms && absOpsOK env K F rest (opMarks env o ms)

/-- the region of `C01_partial_abstract` -/
def AbsInput (inp : Input) : Prop :=
  (inp.env.frags.isEmpty && schemaOK inp.env.schema && NoCondTypename inp && absOpsOK inp.env 0 0 inp.ops []) = true

instance (inp : Input) : Decidable (AbsInput inp) := by unfold AbsInput; infer_instance


/-- the fuel for nesting depth used in the region predicate (any value ≤ `execFuel` would do) -/
def mixK (env : ResultTypes.Env) : Nat := 200

/-- the classes of the fragments module: every fragment definition, in the order of the sorted fragment names -/
def fragModule (env : ResultTypes.Env) : List ClassDecl :=
  (sortStr (env.frags.map (·.name))).flatMap fun n =>
    match findFragment? env.frags n with
    | some f => fragClassesOf env f
    | none => []

def mixOpOK (env : ResultTypes.Env) (o : Operation) : Bool :=
  match o.name, Validate.rootOf env.schema o with
  | some n, some tn =>
    !(o.dirs.any (·.name == Tables.mixinName))
    && MixOK env (mixK env) (pascal n) tn o.sel
    && nodupB ((mClass env (pascal n) tn o.sel ++ fragModule env).map (·.name))
    && NoShadowedImport env (mClass env (pascal n) tn o.sel ++ fragModule env)
    && decide (gfuel o.sel ≤ Triggers01.fuel)
    && decide (mixK env ≤ execFuel)
    && decide (mneed env (mixK env) tn o.sel + 1 ≤ execFuel)
    && decide (fragDepth env ≤ (mClass env (pascal n) tn o.sel ++ fragModule env).length + 1)
  | _, _ => false

def fragGenOK (env : ResultTypes.Env) (f : Fragment) : Bool :=
  nodupB ((fragClassesOf env f).map (·.name)) && decide (gfuel f.sel ≤ Triggers01.fuel)

/-- the region of `C01_partial_mixin` -/
def MixInput (inp : Input) : Prop :=
  (schemaOK inp.env.schema && nodupB (inp.env.frags.map (·.name))
   && inp.env.frags.all (fragOK inp.env (mixK inp.env)) && inp.env.frags.all (fragGenOK inp.env)
   && inp.ops.all (mixOpOK inp.env)) = true

instance (inp : Input) : Decidable (MixInput inp) := by unfold MixInput; infer_instance


/-- the fuel for the nesting of fragment definitions used in the region predicate -/
def maK (env : ResultTypes.Env) : Nat := mixK env

/-- validation fuel that suffices for the class of every fragment definition -/
def fragNeed (env : ResultTypes.Env) (K : Nat) : Nat :=
  env.frags.foldl (fun acc f => max acc (C01Mix.mneed env K f.on f.sel + 1)) 0


/-- the marks all operations together leave behind (as a set) -/
def finalMarks (env : ResultTypes.Env) : List Operation → List Nat → List Nat
  | [], ms => ms
  | o :: rest, ms => finalMarks env rest (opMarks env o ms)

def maOpOK (env : ResultTypes.Env) (o : Operation) : Bool :=
  match o.name, Validate.rootOf env.schema o with
  | some n, some tn =>
    nodupB ((aClass env (pascal n) tn [] false o.sel ++ fragModule env).map (·.name))
    && NoShadowedImport env (aClass env (pascal n) tn [] false o.sel ++ fragModule env)
    && decide (C01Mix.fragDepth env + 1 ≤ (aClass env (pascal n) tn [] false o.sel ++ fragModule env).length + 1)
  | _, _ => false

def maFragOK (env : ResultTypes.Env) (M : List Nat) (f : Fragment) : Bool :=
  C01Mix.fragOK env (maK env) f && fragGenOK env f && !M.contains f.sid && C01Mix.sidFree M f.sel

/-- the region of `C01_partial_mixabs` -/
def MixAbsInput (inp : Input) : Prop :=
  (schemaOK inp.env.schema && nodupB (inp.env.frags.map (·.name))
   && absOpsOK inp.env (maK inp.env) (fragNeed inp.env (maK inp.env)) inp.ops []
   && inp.ops.all (maOpOK inp.env)
   && inp.env.frags.all (maFragOK inp.env (finalMarks inp.env inp.ops []))) = true

instance (inp : Input) : Decidable (MixAbsInput inp) := by unfold MixAbsInput; infer_instance


end Ariadne.C01
