/-
  C14 helper lemmas, part 3: what `to_ast` produces over a pristine store, node by node.

  For a visit `toAst fuel idx st used n = ok (s, n', st, used')`:
    * substituting (declared type, value) for the variables of `s` gives back what the tree `n` says
      (`intended st n`) — provided the substitution knows every formatted variable of `n'`;
    * the formatted variables of `n'` (all depths, pre-order) are exactly the variables used in `s`.
  (Until dfbc7ef a third fact was needed - "no argument below level k => all formatted variables sit in the
  first k levels" - because `get_formatted_variables` only looked two levels deep; finding C14-F2, fixed.)
-/
import AriadneModel.Proofs.C14Store

set_option linter.unusedSimpArgs false
set_option linter.unusedVariables false

namespace Ariadne.C14
open Ariadne Ariadne.Builder Ariadne.CustomGen Ariadne.BuilderDoc

mutual
  /-- `formatted_variables` of every object of the tree, pre-order (class-level leaves have none) -/
  def fmtAll : Node → List FVar
    | .obj r subs frags => r.formatted ++ fmtAllList subs ++ fmtAllFrags frags
    | .ref _ => []
  def fmtAllList : List Node → List FVar
    | [] => []
    | n :: ns => fmtAll n ++ fmtAllList ns
  def fmtAllFrags : List Frag → List FVar
    | [] => []
    | .mk _ ns :: fs => fmtAllList ns ++ fmtAllFrags fs
end

/-- the substitution (defs, vals) knows every variable of `L` with its recorded type and value -/
def LookOK (defs : List (String × String)) (vals : List (String × J)) (L : List FVar) : Prop :=
  ∀ f ∈ L, lookupS f.uname defs = some f.ty ∧ lookupS f.uname vals = some f.value

theorem LookOK.append {defs vals a b} : LookOK defs vals (a ++ b) ↔ LookOK defs vals a ∧ LookOK defs vals b := by
  unfold LookOK
  constructor
  · intro h
    exact ⟨fun f hf => h f (by simp [hf]), fun f hf => h f (by simp [hf])⟩
  · rintro ⟨h1, h2⟩ f hf
    rcases List.mem_append.mp hf with h | h
    · exact h1 f h
    · exact h2 f h

theorem resolveArgs_of_look {defs vals} : ∀ (fv : List FVar), LookOK defs vals fv →
    resolveArgs defs vals (fv.map fun v => (v.key, v.uname)) = some (fv.map fun v => (v.key, v.ty, v.value)) := by
  intro fv
  induction fv with
  | nil => intro _; rfl
  | cons f fs ih =>
    intro h
    have h1 := h f (by simp)
    have h2 := ih (fun g hg => h g (by simp [hg]))
    simp only [List.map_cons, resolveArgs, h1.1, h1.2, h2]

theorem resolveSels_append {defs vals} : ∀ (a b : List Sel) (x y : List RSel),
    resolveSels defs vals a = some x → resolveSels defs vals b = some y →
    resolveSels defs vals (a ++ b) = some (x ++ y) := by
  intro a
  induction a with
  | nil => intro b x y h1 h2; simp [resolveSels] at h1; subst h1; simpa using h2
  | cons s ss ih =>
    intro b x y h1 h2
    simp only [resolveSels] at h1
    split at h1
    · rename_i r rs hr hrs
      simp at h1
      subst h1
      simp only [List.cons_append, resolveSels, hr, ih b rs y hrs h2]
    · simp at h1

/-- the two facts a visit establishes -/
def Q (st : Store) (n : Node) (s : Sel) (n' : Node) : Prop :=
  (∀ defs vals, LookOK defs vals (fmtAll n') → resolveSel defs vals s = some (intended st n)) ∧
  (fmtAll n').map (·.uname) = selVars s

theorem all3_resolve {st defs vals} : ∀ {ns ss ns'}, All3 (Q st) ns ss ns' →
    LookOK defs vals (fmtAllList ns') → resolveSels defs vals ss = some (intendedList st ns) := by
  intro ns ss ns' h
  induction h with
  | nil => intro _; simp [resolveSels, intendedList]
  | cons q _ ih =>
    intro hl
    simp only [fmtAllList] at hl
    obtain ⟨l1, l2⟩ := LookOK.append.mp hl
    simp only [resolveSels, intendedList, q.1 _ _ l1, ih l2]

theorem all3_unames {st} : ∀ {ns ss ns'}, All3 (Q st) ns ss ns' →
    (fmtAllList ns').map (·.uname) = selVarsList ss := by
  intro ns ss ns' h
  induction h with
  | nil => simp [fmtAllList, selVarsList]
  | cons q _ ih => simp only [fmtAllList, selVarsList, List.map_append, q.2, ih]

theorem allF_resolve {st defs vals} : ∀ {fs ss fs'}, AllF (Q st) fs ss fs' →
    LookOK defs vals (fmtAllFrags fs') → resolveSels defs vals ss = some (intendedFrags st fs) := by
  intro fs ss fs' h
  induction h with
  | nil => intro _; simp [resolveSels, intendedFrags]
  | cons q _ ih =>
    intro hl
    simp only [fmtAllFrags] at hl
    obtain ⟨l1, l2⟩ := LookOK.append.mp hl
    simp only [resolveSels, resolveSel, intendedFrags, all3_resolve q l1, ih l2]

theorem allF_unames {st} : ∀ {fs ss fs'}, AllF (Q st) fs ss fs' →
    (fmtAllFrags fs').map (·.uname) = selVarsList ss := by
  intro fs ss fs' h
  induction h with
  | nil => simp [fmtAllFrags, selVarsList]
  | cons q _ ih => simp only [fmtAllFrags, selVarsList, selVars, List.map_append, all3_unames q, ih]

theorem collectVars_nil_inv {idx used fv used'} (h : collectVars idx [] used = .ok (fv, used')) : fv = [] := by
  simp [collectVars] at h
  exact h.1

theorem toAst_Q {st : Store} (hp : Pristine st) (idx : Nat) : ∀ fuel, VisitQ st (toAst fuel idx) (Q st) := by
  intro fuel
  induction fuel with
  | zero => intro used n s n' st' used' h; simp [toAst] at h
  | succ f ih =>
    intro used n s n' st' used' h
    cases n with
    | obj r subs frags =>
      unfold toAst at h
      split at h
      · simp at h
      · rename_i fv u1 h1
        split at h
        · simp at h
        · rename_i ss subs' st1 u2 h2
          obtain ⟨rfl, q2⟩ := mapAcc_all3 ih _ _ _ _ _ _ h2
          split at h
          · simp at h
          · rename_i fs frags' st2 u3 h3
            obtain ⟨rfl, q3⟩ := mapFrags_allF ih _ _ _ _ _ _ h3
            simp at h
            obtain ⟨rfl, rfl, rfl, -⟩ := h
            have hfv := (collectVars_spec idx _ _ _ _ h1).2
            refine ⟨rfl, ?_, ?_⟩
            · intro defs vals hl
              simp only [fmtAll] at hl
              obtain ⟨l12, l3⟩ := LookOK.append.mp hl
              obtain ⟨l1, l2⟩ := LookOK.append.mp l12
              simp only [resolveSel, intended, resolveArgs_of_look fv l1,
                resolveSels_append _ _ _ _ (all3_resolve q2 l2) (allF_resolve q3 l3), hfv]
              simp [Bool.not_and]
            · simp only [fmtAll, selVars, List.map_append, all3_unames q2, allF_unames q3,
                selVarsList_append, List.map_map, Function.comp_def, List.append_assoc]
    | ref id =>
      unfold toAst at h
      split at h
      · simp at h
      · rename_i n0 hn
        obtain ⟨r, rfl, hv, hf⟩ := hp id n0 hn
        split at h
        · simp at h
        · rename_i s1 n1 st1 u1 h1
          simp at h
          obtain ⟨rfl, rfl, rfl, -⟩ := h
          obtain ⟨rfl, -⟩ := ih _ _ _ _ _ _ h1
          obtain ⟨c0, fn0, g0, vars0, fm0, al0⟩ := r
          simp at hv hf
          subst hv hf
          cases f with
          | zero => simp [toAst] at h1
          | succ f' =>
            simp [toAst, collectVars_nil, mapAcc, mapFrags] at h1
            obtain ⟨rfl, rfl, -⟩ := h1
            refine ⟨set_self _ _ _ hn, ?_, ?_⟩
            · intro defs vals _
              simp [resolveSel, resolveArgs, resolveSels, intended, intendedRef, hn]
            · simp [fmtAll, selVars, selVarsList]

end Ariadne.C14
