/-
  The composite lemma of C03: generator + CPython call + method body + base client + pydantic dump
  + json.dumps + GraphQL coercion, for every supported operation and every schema-valid assignment.
-/
import AriadneModel.Proofs.ArgCall

set_option linter.unusedSimpArgs false
set_option linter.unusedVariables false

namespace Ariadne.ArgProofs
open Ariadne Ariadne.Scalars Ariadne.Coerce Ariadne.ArgValues Ariadne.ArgSend Ariadne.Arguments Ariadne.ClientMethod
open Ariadne.ArgFindings Ariadne.PyCall
open Ariadne.Gql (TypeRef)
open Ariadne.BaseClient (PV toJsonKvs convertDict)

attribute [local irreducible] Ariadne.Arguments.pyVar

/-! ### small bridges -/

theorem intendedVars_eq (cfg : Cfg) (fns : UserFns) (ds : List IField) (vs : List AV) :
    intendedVars cfg fns ds vs = expected ds (optIntTop cfg fns vs) := by
  induction ds generalizing vs with
  | nil => cases vs <;> simp [intendedVars, expected, optIntTop]
  | cons d ds ih =>
    cases vs with
    | nil => simp [intendedVars, expected, optIntTop]
    | cons v vs =>
      by_cases hu : v.isUnset = true
      · simp only [intendedVars, optIntTop, hu, if_true, expected]
        cases d.default <;> simp [ih vs]
      · simp only [intendedVars, optIntTop, hu, ih vs]
        simp [expected]

theorem argsValid_zip (cfg : Cfg) (ds : List IField) (vs : List AV) (h : argsValid cfg ds vs = true) :
    ds.length = vs.length ∧
    ∀ dv ∈ ds.zip vs, (dv.2.isUnset = true ∧ dv.1.type.nonNull = false) ∨ hasType cfg dv.1.type dv.2 = true := by
  induction ds generalizing vs with
  | nil => cases vs <;> simp [argsValid] at h ⊢
  | cons d ds ih =>
    cases vs with
    | nil => simp [argsValid] at h
    | cons v vs =>
      simp only [argsValid, Bool.and_eq_true, Bool.or_eq_true, Bool.not_eq_true'] at h
      obtain ⟨hl, hz⟩ := ih vs h.2
      refine ⟨by simp [hl], ?_⟩
      intro dv hm
      simp only [List.zip_cons_cons, List.mem_cons] at hm
      rcases hm with hm | hm
      · subst hm; exact h.1
      · exact hz dv hm

/-- a value at a plain `Scalar!` type is a scalar value -/
theorem custom_of_scalar_type (cfg : Cfg) (t : GT) (v : AV) (ht : hasType cfg t v = true)
    (hsc : cfg.isScalar t.base = true) (hnn : t.nonNull = true) (hl : t.isList = false) : ∃ sc j, v = .custom sc j := by
  cases t with
  | list it nn => simp [GT.isList] at hl
  | named n nn =>
    simp only [GT.nonNull] at hnn
    simp only [GT.base, Cfg.isScalar] at hsc
    cases hg : cfg.schema.get? n with
    | none => simp [hg] at hsc
    | some ty =>
      cases ty with
      | scalar =>
        cases v with
        | custom sc j => exact ⟨sc, j, rfl⟩
        | none => simp [hasType, GT.nonNull, hnn] at ht
        | unset => simp [hasType] at ht
        | bool b => simp [hasType, leafOK, hg] at ht
        | int i => simp [hasType, leafOK, hg] at ht
        | float m e => simp [hasType, leafOK, hg] at ht
        | str s => simp [hasType, leafOK, hg] at ht
        | enum m => simp [hasType, leafOK, hg] at ht
        | list xs => simp [hasType] at ht
        | model cls fields => simp [hasType, hg] at ht
      | _ => simp [hg] at hsc

mutual
theorem objOf_ok (cfg : Cfg) (fns : UserFns) (hy : Hyp cfg fns) (t : GT) (v : AV) (ht : hasType cfg t v = true) :
    ∃ o c, objOf fns v = .ok (o, c) := by
  cases v with
  | list xs =>
    cases t with
    | named n nn => simp [hasType] at ht
    | list it nn =>
      obtain ⟨os, c, h⟩ := objsOf_ok cfg fns hy it xs (by simpa [hasType] using ht)
      exact ⟨.list os, c, by simp only [objOf, h]⟩
  | model cls fields =>
    cases t with
    | list it nn => simp [hasType] at ht
    | named n nn =>
      obtain ⟨kvs, calls, hd, _⟩ := model_Good cfg fns hy n nn cls fields ht
      exact ⟨.model (.dict kvs) none, calls, by simp only [objOf, hd]⟩
  | none => exact ⟨_, _, rfl⟩
  | unset => exact ⟨_, _, rfl⟩
  | bool b => exact ⟨_, _, rfl⟩
  | int i => exact ⟨_, _, rfl⟩
  | float m e => exact ⟨_, _, rfl⟩
  | str s => exact ⟨_, _, rfl⟩
  | enum m => exact ⟨_, _, rfl⟩
  | custom sc j => exact ⟨_, _, rfl⟩
theorem objsOf_ok (cfg : Cfg) (fns : UserFns) (hy : Hyp cfg fns) (it : GT) (xs : List AV) (ht : hasTypeList cfg it xs = true) :
    ∃ os c, objsOf fns xs = .ok (os, c) := by
  cases xs with
  | nil => exact ⟨[], [], rfl⟩
  | cons x xs =>
    simp only [hasTypeList, Bool.and_eq_true] at ht
    obtain ⟨o, c1, h1⟩ := objOf_ok cfg fns hy it x ht.1
    obtain ⟨os, c2, h2⟩ := objsOf_ok cfg fns hy it xs ht.2
    exact ⟨o :: os, c1 ++ c2, by simp [objsOf, h1, h2]⟩
end

theorem objsOK_of_valid (cfg : Cfg) (fns : UserFns) (hy : Hyp cfg fns) (ds : List IField) (vs : List AV)
    (h : argsValid cfg ds vs = true) : objsOK fns vs := by
  induction ds generalizing vs with
  | nil => cases vs <;> simp [argsValid] at h ⊢; trivial
  | cons d ds ih =>
    cases vs with
    | nil => simp [argsValid] at h
    | cons v vs =>
      simp only [argsValid, Bool.and_eq_true, Bool.or_eq_true] at h
      refine ⟨?_, ih vs h.2⟩
      rcases h.1 with hu | ht
      · exact Or.inl hu.1
      · exact Or.inr (objOf_ok cfg fns hy d.type v ht)

end Ariadne.ArgProofs

namespace Ariadne.ArgProofs
open Ariadne Ariadne.Scalars Ariadne.Coerce Ariadne.ArgValues Ariadne.ArgSend Ariadne.Arguments Ariadne.ClientMethod
open Ariadne.ArgFindings Ariadne.PyCall
open Ariadne.Gql (TypeRef)
open Ariadne.BaseClient (PV toJsonKvs convertDict)

attribute [local irreducible] Ariadne.Arguments.pyVar

/-! ### the name hypotheses (complement of the name triggers) -/

/-- Python parameter names of the variables, in definition order -/
def pys (cfg : Cfg) (defs : List VarDecl) : List String := defs.map (fun d => pyVar cfg.snake d.name)

structure NamesOK (cfg : Cfg) (defs : List VarDecl) : Prop where
  nodup : (pys cfg defs).Nodup
  noSelf : selfName ∉ pys cfg defs
  noKwargs : Tables.kwargsName ∉ pys cfg defs
  noGql : gqlName ∉ pys cfg defs
  noClobber : ¬ ("query" ∈ pys cfg defs ∧ "_query" ∈ pys cfg defs)
  noShadow : ∀ d ∈ defs, ∀ f, cfg.serOfType (ofTypeRef d.type) = some f →
    f ∉ pys cfg defs ∧ f ≠ rename (selfName :: pys cfg defs) "query"
  noMangle : ∀ p ∈ pys cfg defs, isMangled p = false

theorem pyNames_eq (cfg : Cfg) (defs : List VarDecl) :
    pyNames (envOf cfg).snake (defs.map (·.toVarDef)) = pys cfg defs := by
  simp [pyNames, pys, List.map_map, VarDecl.toVarDef, envOf, Function.comp_def]

theorem mem_serializeFns (cfg : Cfg) (fns : UserFns) (hy : Hyp cfg fns) (defs : List VarDecl) (d : VarDecl) (hd : d ∈ defs)
    (f : String) (hf : cfg.serOfType (ofTypeRef d.type) = some f) :
    f ∈ serializeFns (envOf cfg) (defs.map (·.toVarDef)) := by
  simp only [serializeFns, List.mem_filterMap, List.mem_map]
  exact ⟨d.toVarDef, ⟨d, hd, rfl⟩, by rw [serializedBase_eq cfg fns hy]; exact hf⟩

theorem names_ok_of_triggers (cfg : Cfg) (fns : UserFns) (hy : Hyp cfg fns) (defs : List VarDecl)
    (h : anyTrigger (envOf cfg) (defs.map (·.toVarDef)) = false) : NamesOK cfg defs := by
  simp only [anyTrigger, Bool.or_eq_false_iff] at h
  obtain ⟨⟨⟨⟨⟨⟨⟨h1, h2⟩, h3⟩, h4⟩, h5⟩, h6⟩, _⟩, _⟩ := h
  simp only [trigSelf, trigKwargs, trigMerge, trigQueryClobber, trigShadow, trigMangled, queryLocal, pyNames_eq] at h1 h2 h3 h4 h5 h6
  simp only [Bool.or_eq_false_iff] at h5
  refine ⟨(hasDup_false_iff _).mp h3, by simpa using h1, by simpa using h2, ?_, ?_, ?_, ?_⟩
  rotate_left 3
  · intro p hp
    simp only [List.any_eq_false] at h6
    simpa using h6 p hp
  · intro hm
    have := h5.1
    simp only [List.any_eq_false] at this
    have := this gqlName hm
    simp [gqlName] at this
  · intro ⟨a, b⟩
    simp [a, b] at h4
  · intro d hd f hf
    have hmem := mem_serializeFns cfg fns hy defs d hd f hf
    constructor
    · intro hp
      have := h5.1
      simp only [List.any_eq_false] at this
      have := this f hp
      simp [hmem] at this
    · intro e
      have := h5.2
      rw [← e] at this
      simp [hmem] at this

/-! ### the emitted method -/

/-- the method `add_method` emits for a query whose variables all have known input types -/
def methodP (cfg : Cfg) (defs : List VarDecl) (opName opText : String) (async : Bool) : Method :=
  let out := outOf ((defs.map (·.toVarDef)).map (itemP (envOf cfg)))
  ⟨"m", if async then .async else .sync, out, getVariableNames (selfName :: out.params.map (·.py)), opText, opName, "R"⟩

theorem addMethod_ok (cfg : Cfg) (defs : List VarDecl) (opName opText : String) (async : Bool)
    (hk : ∀ d ∈ defs, isInputType cfg.schema d.type.base = true) :
    ∃ st, addMethod (envOf cfg) .query (some opName) (defs.map (·.toVarDef)) "m" "R" opText async {}
      = .ok (methodP cfg defs opName opText async, st) := by
  have hitems := items_ok (envOf cfg) (defs.map (·.toVarDef)) (by
    intro v hv
    simp only [List.mem_map] at hv
    obtain ⟨d, hd, rfl⟩ := hv
    exact known_of_isInputType cfg _ (hk d hd))
  refine ⟨(((defs.map (·.toVarDef)).map (itemP (envOf cfg))).foldl (fun st i => st.record i.use) {}), ?_⟩
  simp only [addMethod, generate, hitems, methodP, Option.getD]

/-- names of the emitted parameters: required first, then optional -/
def paramNames (cfg : Cfg) (defs : List VarDecl) : List String :=
  (paramsOf (methodP cfg defs "" "" true)).map (·.name)

theorem paramsOf_names (cfg : Cfg) (defs : List VarDecl) (opName opText : String) (async : Bool) :
    (paramsOf (methodP cfg defs opName opText async)).map (·.name) = paramNames cfg defs := by
  simp [paramNames, paramsOf, methodP]

theorem paramNames_eq (cfg : Cfg) (defs : List VarDecl) (opName opText : String) (async : Bool) :
    (methodP cfg defs opName opText async).out.params.map (·.py) = paramNames cfg defs := by
  simp [paramNames, paramsOf, methodP, Out.params, List.map_append, List.map_map, Function.comp_def]

theorem paramNames_perm (cfg : Cfg) (defs : List VarDecl) : (paramNames cfg defs).Perm (pys cfg defs) := by
  have hp := List.filter_append_perm (fun i : Item => !i.arg.optional) ((defs.map (·.toVarDef)).map (itemP (envOf cfg)))
  have hm := hp.map (fun i : Item => i.arg.py)
  have e1 : (paramNames cfg defs) = List.map (fun i : Item => i.arg.py)
      (List.filter (fun i : Item => !i.arg.optional) ((defs.map (·.toVarDef)).map (itemP (envOf cfg))) ++
       List.filter (fun x => !(fun i : Item => !i.arg.optional) x) ((defs.map (·.toVarDef)).map (itemP (envOf cfg)))) := by
    simp [paramNames, paramsOf, methodP, outOf, List.map_append, List.map_map, Function.comp_def]
  have e2 : List.map (fun i : Item => i.arg.py) ((defs.map (·.toVarDef)).map (itemP (envOf cfg))) = pys cfg defs := by
    simp [pys, List.map_map, Function.comp_def, itemP, VarDecl.toVarDef, envOf]
  rw [e1]
  rw [e2] at hm
  exact hm

end Ariadne.ArgProofs

namespace Ariadne.ArgProofs
open Ariadne Ariadne.Scalars Ariadne.Coerce Ariadne.ArgValues Ariadne.ArgSend Ariadne.Arguments Ariadne.ClientMethod
open Ariadne.ArgFindings Ariadne.PyCall
open Ariadne.Gql (TypeRef)
open Ariadne.BaseClient (PV toJsonKvs convertDict)

attribute [local irreducible] Ariadne.Arguments.pyVar

theorem zip_toIField (defs : List VarDecl) (a : List AV) (d : VarDecl) (v : AV) (h : (d, v) ∈ defs.zip a) :
    (d.toIField, v) ∈ (defs.map (·.toIField)).zip a := by
  induction defs generalizing a with
  | nil => simp at h
  | cons e defs ih =>
    cases a with
    | nil => simp at h
    | cons w a =>
      simp only [List.zip_cons_cons, List.mem_cons, List.map_cons] at h ⊢
      rcases h with h | h
      · left; cases h; rfl
      · right; exact ih a h

theorem exists_zip_of_mem {α β} (l : List α) (r : List β) (hlen : l.length = r.length) (x : α) (hx : x ∈ l) :
    ∃ y, (x, y) ∈ l.zip r := by
  induction l generalizing r with
  | nil => cases hx
  | cons e l ih =>
    cases r with
    | nil => simp at hlen
    | cons w r =>
      simp only [List.mem_cons] at hx
      rcases hx with hx | hx
      · exact ⟨w, by simp [hx]⟩
      · obtain ⟨y, hy⟩ := ih r (by simpa using hlen) hx
        exact ⟨y, by simp [hy]⟩

theorem serTopOK_mem (cfg : Cfg) (ds : List IField) (h : serTopOK cfg ds = true) :
    ∀ d ∈ ds, (match cfg.serOfType d.type with
               | some _ => d.type.nonNull && !d.type.isList
               | none => true) = true := by
  induction ds with
  | nil => intro d hd; cases hd
  | cons e ds ih =>
    simp only [serTopOK, Bool.and_eq_true] at h
    intro d hd
    simp only [List.mem_cons] at hd
    rcases hd with hd | hd
    · subst hd; exact h.1
    · exact ih h.2 d hd

theorem isScalar_of_serOfType (cfg : Cfg) (t : GT) (f : String) (h : cfg.serOfType t = some f) : cfg.isScalar t.base = true := by
  simp only [Cfg.serOfType] at h
  cases hs : cfg.isScalar t.base with
  | true => rfl
  | false => simp [hs] at h

theorem rename_congr (l1 l2 : List String) (h : ∀ x, x ∈ l1 ↔ x ∈ l2) (v : String) : rename l1 v = rename l2 v := by
  simp only [rename, List.contains_eq_mem, h]

theorem rename_fresh (l : List String) (v : String) (hself : v ≠ selfName) (h : ¬ (v ∈ l ∧ ("_" ++ v) ∈ l)) :
    rename (selfName :: l) v ∉ l := by
  unfold rename
  by_cases hv : v ∈ l
  · have hc : (selfName :: l).contains v = true := by simp [hv]
    rw [if_pos hc]
    exact fun h' => h ⟨hv, h'⟩
  · have hc : ¬ ((selfName :: l).contains v = true) := by simp [hv, hself]
    rw [if_neg hc]
    exact hv

/-- the Python half of C03: for a supported operation and a valid assignment, the generated method
    imports, binds the call, and hands `self.execute` exactly the expected `variables` dict -/
theorem mangle_id (cls p : String) (h : isMangled p = false) : mangle cls p = p := by
  simp [mangle, h]

theorem callMethod_ok (cfg : Cfg) (fns : UserFns) (hy : Hyp cfg fns) (defs : List VarDecl) (a : List AV)
    (opName opText cls : String) (async : Bool)
    (hn : NamesOK cfg defs)
    (ha : argsValid cfg (defs.map (·.toIField)) a = true)
    (hs : serTopOK cfg (defs.map (·.toIField)) = true) :
    ∃ g, givenOf fns cfg.snake defs a = .ok g ∧ kwOf g = kwP fns cfg.snake defs a ∧
      (methodP cfg defs opName opText async).locals.query ∉ pys cfg defs ∧
      callMethod fns cls (methodP cfg defs opName opText async) (kwOf g)
        = .ok ⟨opText, dictOf cfg fns (defs.map (·.toIField)) a, [], dictCalls cfg (defs.map (·.toIField)) a⟩ := by
  obtain ⟨hlen', hzip⟩ := argsValid_zip cfg _ _ ha
  have hlen : defs.length = a.length := by simpa using hlen'
  obtain ⟨g, hg, hkw⟩ := givenOf_kw fns cfg.snake defs a (objsOK_of_valid cfg fns hy _ _ ha)
  have hperm := paramNames_perm cfg defs
  have hNP : ∀ x, x ∈ paramNames cfg defs ↔ x ∈ pys cfg defs := fun x => hperm.mem_iff
  have hNPnd : (paramNames cfg defs).Nodup := hperm.nodup_iff.mpr hn.nodup
  obtain ⟨m, hm⟩ : ∃ m, m = methodP cfg defs opName opText async := ⟨_, rfl⟩
  rw [← hm]
  have hnames : (paramsOf m).map (·.name) = paramNames cfg defs := by rw [hm]; exact paramsOf_names cfg defs opName opText async
  -- a given argument per non-omitted variable; an omitted variable is nullable
  have hvalid : ∀ d v, (d, v) ∈ defs.zip a →
      (v.isUnset = true ∧ isNonNull d.type = false) ∨ hasType cfg (ofTypeRef d.type) v = true := by
    intro d v h
    have := hzip (d.toIField, v) (zip_toIField defs a d v h)
    simpa [VarDecl.toIField, ofTypeRef_nonNull] using this
  -- 1. the `def` compiles
  have hdef : checkDef selfName (paramsOf m) Tables.kwargsName = .ok () := by
    have : firstDup (selfName :: ((paramsOf m).map (·.name) ++ [Tables.kwargsName])) = none := by
      apply firstDup_none_of_nodup
      rw [hnames, List.nodup_cons]
      refine ⟨?_, ?_⟩
      · simp only [List.mem_append, List.mem_singleton, not_or]
        exact ⟨fun h => hn.noSelf ((hNP _).mp h), by decide⟩
      · rw [List.nodup_append]
        refine ⟨hNPnd, by simp, ?_⟩
        intro x hx y hy e
        simp only [List.mem_singleton] at hy
        subst hy; subst e
        exact hn.noKwargs ((hNP _).mp hx)
    simp [checkDef, this]
  -- 2. the call binds
  have hkeys : ∀ k ∈ (kwOf g).map (·.1), k ∈ pys cfg defs := by rw [hkw]; exact kwP_keys fns cfg.snake defs a
  have hself : ((kwOf g).map (·.1)).contains selfName = false := by
    simp only [List.contains_eq_mem, decide_eq_false_iff_not]
    exact fun h => hn.noSelf (hkeys _ h)
  have hlk : ∀ d v, (d, v) ∈ defs.zip a →
      PyCall.lookup (pyVar cfg.snake d.name) (kwOf g) = if v.isUnset then none else some (argObj fns v) := by
    intro d v h
    rw [hkw]
    exact lookup_kwP fns cfg.snake defs a hn.nodup hlen (d, v) h
  have hreq : ∀ p ∈ paramsOf m, p.hasDefault = false → (PyCall.lookup p.name (kwOf g)).isSome = true := by
    intro p hp hd
    simp only [paramsOf, hm, methodP, outOf, List.mem_append, List.mem_map, List.mem_filter] at hp
    rcases hp with ⟨arg, ⟨i, ⟨hi, hopt⟩, rfl⟩, rfl⟩ | ⟨arg, _, rfl⟩
    · obtain ⟨vd, ⟨d, hdm, rfl⟩, rfl⟩ := hi
      obtain ⟨v, hv⟩ := exists_zip_of_mem defs a hlen d hdm
      have hnn : isNonNull d.type = true := by simpa [itemP, VarDecl.toVarDef] using hopt
      have hset : v.isUnset = false := by
        rcases hvalid d v hv with ⟨_, h2⟩ | h2
        · rw [hnn] at h2; cases h2
        · cases v <;> simp [AV.isUnset]
          rw [hasType_unset] at h2; cases h2
      have := hlk d v hv
      simp only [itemP, VarDecl.toVarDef, envOf]
      simp [this, hset]
    · simp at hd
  have hbind := bindParams_ok PV.unset (kwOf g) (paramsOf m) hreq
  obtain ⟨F, hF⟩ : ∃ F : String → PV, F = fun n => (PyCall.lookup n (kwOf g)).getD PV.unset := ⟨_, rfl⟩
  obtain ⟨env, henv⟩ : ∃ env, env = (paramsOf m).map (fun p => (p.name, F p.name)) := ⟨_, rfl⟩
  have hbind' : bindParams PV.unset (kwOf g) (paramsOf m) = .ok env := by rw [hbind, henv, hF]
  have hbc : bindCall selfName (paramsOf m) PV.unset (kwOf g)
      = .ok (env, (kwOf g).filter (fun kv => !((paramsOf m).map (·.name)).contains kv.1)) := by
    simp only [bindCall, hself, Bool.false_eq_true, if_false, hbind']
  -- 3. `gql` is the module-level function
  have hgql : PyCall.lookup gqlName env = none := by
    rw [henv]
    apply lookup_env_none
    rw [hnames]; exact fun h => hn.noGql ((hNP _).mp h)
  -- 4. the local that holds the operation string does not rebind a parameter
  have hLq : m.locals.query = rename (selfName :: pys cfg defs) "query" := by
    have h1 : m.locals.query = rename (selfName :: paramNames cfg defs) "query" := by
      rw [hm, ← paramNames_eq cfg defs opName opText async]; rfl
    rw [h1]
    apply rename_congr
    intro x; simp only [List.mem_cons, hNP]
  have hLqNot : m.locals.query ∉ pys cfg defs := by
    rw [hLq]
    exact rename_fresh _ "query" (by decide) hn.noClobber
  obtain ⟨env1, henv1⟩ : ∃ env1, env1 = (m.locals.query, PV.str m.opText) :: env := ⟨_, rfl⟩
  have hlookup1 : ∀ n, n ∈ pys cfg defs → PyCall.lookup n env1 = some (F n) := by
    intro n hnm
    have hne' : m.locals.query ≠ n := fun e => hLqNot (e ▸ hnm)
    have hne : (m.locals.query == n) = false := by simpa using hne'
    simp only [henv1, PyCall.lookup, hne, Bool.false_eq_true, if_false]
    rw [henv]
    exact lookup_env F (paramsOf m) n (by rw [hnames]; exact (hNP n).mpr hnm)
  -- 5. the dict literal
  have hdict : m.out.dict = defs.map (fun d => (d.name, dvP cfg d)) := by
    simp only [hm, methodP, outOf, List.map_map]
    apply List.map_congr_left
    intro d hd
    simp only [Function.comp]
    rw [itemP_value cfg fns hy d]
    rfl
  have hev := evalDict_ok cfg fns env1 defs a hlen
    (by
      intro dv h
      have hmem : pyVar cfg.snake dv.1.name ∈ pys cfg defs := List.mem_map_of_mem (List.of_mem_zip h).1
      rw [hlookup1 _ hmem]
      simp only [hF, hlk dv.1 dv.2 h]
      by_cases hu : dv.2.isUnset = true <;> simp [hu])
    (by
      intro d hd f hf
      obtain ⟨h1, h2⟩ := hn.noShadow d hd f hf
      have hne : (m.locals.query == f) = false := by
        rw [hLq]; simpa using fun e => h2 e.symm
      simp only [henv1, PyCall.lookup, hne, Bool.false_eq_true, if_false]
      rw [henv]
      apply lookup_env_none
      rw [hnames]; exact fun h => h1 ((hNP _).mp h))
    (by
      intro dv h f hf
      have hmemI : dv.1.toIField ∈ defs.map (·.toIField) := List.mem_map_of_mem (List.of_mem_zip h).1
      have hst := serTopOK_mem cfg _ hs _ hmemI
      have hf' : cfg.serOfType dv.1.toIField.type = some f := hf
      rw [hf'] at hst
      simp only [Bool.and_eq_true, Bool.not_eq_true'] at hst
      have hnn : isNonNull dv.1.type = true := by simpa [VarDecl.toIField, ofTypeRef_nonNull] using hst.1
      rcases hvalid dv.1 dv.2 h with ⟨_, h2⟩ | h2
      · rw [hnn] at h2; cases h2
      · exact custom_of_scalar_type cfg _ _ h2 (isScalar_of_serOfType cfg _ f hf) hst.1 hst.2)
  refine ⟨g, hg, hkw, hLqNot, ?_⟩
  have hop : m.opText = opText := by rw [hm]; rfl
  rw [hop] at henv1
  -- no parameter is subject to private-name mangling: the compiled method is the emitted one
  have hcp : compiledParams cls m = paramsOf m := by
    simp only [compiledParams]
    conv => rhs; rw [← List.map_id (paramsOf m)]
    apply List.map_congr_left
    intro p hp
    have hpn : p.name ∈ pys cfg defs := (hNP _).mp (by rw [← hnames]; exact List.mem_map_of_mem hp)
    simp [mangle_id cls p.name (hn.noMangle _ hpn)]
  have hcd : compiledDict cls m = m.out.dict := by
    simp only [compiledDict, hdict, List.map_map]
    apply List.map_congr_left
    intro d hd
    have hpn : pyVar cfg.snake d.name ∈ pys cfg defs := List.mem_map_of_mem hd
    have hid := mangle_id cls _ (hn.noMangle _ hpn)
    simp only [Function.comp, dvP]
    cases cfg.serOfType (ofTypeRef d.type) <;> simp [compiledVal, hid]
  have hextra : (kwOf g).filter (fun kv => !((paramsOf m).map (·.name)).contains kv.1) = [] := by
    rw [List.filter_eq_nil_iff]
    intro kv hkv
    have : kv.1 ∈ paramNames cfg defs := (hNP _).mpr (hkeys _ (List.mem_map_of_mem hkv))
    simp [hnames, this]
  simp only [callMethod, hcp, hcd, hdef, hbc, hgql, hop, ← henv1, hdict, hev, hextra]

end Ariadne.ArgProofs

namespace Ariadne.ArgProofs
open Ariadne Ariadne.Scalars Ariadne.Coerce Ariadne.ArgValues Ariadne.ArgSend Ariadne.Arguments Ariadne.ClientMethod
open Ariadne.ArgFindings Ariadne.PyCall
open Ariadne.Gql (TypeRef)
open Ariadne.BaseClient (PV toJson toJsonKvs convertDict convertValue)

attribute [local irreducible] Ariadne.Arguments.pyVar

theorem serTopOK_of_triggers (cfg : Cfg) (fns : UserFns) (hy : Hyp cfg fns) (defs : List VarDecl)
    (h1 : trigSerializeNullable (envOf cfg) (defs.map (·.toVarDef)) = false)
    (h2 : trigSerializeList (envOf cfg) (defs.map (·.toVarDef)) = false) :
    serTopOK cfg (defs.map (·.toIField)) = true := by
  induction defs with
  | nil => rfl
  | cons d defs ih =>
    simp only [trigSerializeNullable, trigSerializeList, List.map_cons, List.any_cons, Bool.or_eq_false_iff] at h1 h2
    have ih' := ih (by simpa [trigSerializeNullable] using h1.2) (by simpa [trigSerializeList] using h2.2)
    simp only [List.map_cons, serTopOK, ih', Bool.and_true]
    have e : cfg.serOfType d.toIField.type = serializedBase (envOf cfg) d.toVarDef.type := by
      rw [serializedBase_eq cfg fns hy]; rfl
    rw [e]
    cases hsb : serializedBase (envOf cfg) d.toVarDef.type with
    | none => rfl
    | some f =>
      have a1 := h1.1; have a2 := h2.1
      simp only [hsb, Option.isSome_some, Bool.true_and, Bool.not_eq_false'] at a1 a2
      simp only [VarDecl.toIField, ofTypeRef_nonNull, ofTypeRef_isList]
      simp only [VarDecl.toVarDef] at a1 a2
      simp [a1, a2]

/-- C03, composed: a supported operation called with a schema-valid assignment sends a request
    whose `variables` the server coerces to exactly the intended values. -/
theorem send_delivers (cfg : Cfg) (fns : UserFns) (hy : Hyp cfg fns) (defs : List VarDecl) (a : List AV)
    (opName opText cls : String) (async : Bool)
    (hk : ∀ d ∈ defs, isInputType cfg.schema d.type.base = true)
    (hvn : (defs.map (·.name)).Nodup)
    (ht : anyTrigger (envOf cfg) (defs.map (·.toVarDef)) = false)
    (ha : argsValid cfg (defs.map (·.toIField)) a = true) :
    ∃ req, send (envOf cfg) fns async opName opText defs a cls = .ok req ∧ req.query = opText ∧
      toJsonKvs (convertDict (dictOf cfg fns (defs.map (·.toIField)) a)) = some req.variables ∧
      coerceVars cfg.schema (defs.map (·.toIField)) req.variables
        = .ok (intendedVars cfg fns (defs.map (·.toIField)) a) := by
  have hn := names_ok_of_triggers cfg fns hy defs ht
  have hs : serTopOK cfg (defs.map (·.toIField)) = true := by
    simp only [anyTrigger, Bool.or_eq_false_iff] at ht
    exact serTopOK_of_triggers cfg fns hy defs ht.1.2 ht.2
  obtain ⟨st, hadd⟩ := addMethod_ok cfg defs opName opText async hk
  obtain ⟨g, hg, hkwg, hLqn, hcall⟩ := callMethod_ok cfg fns hy defs a opName opText cls async hn ha hs
  have hnd : (names (defs.map (·.toIField))).Nodup := by
    simpa [names, List.map_map, Function.comp_def, VarDecl.toIField] using hvn
  obtain ⟨hsimple, ws, hj, hco, hab⟩ := dict_coerces cfg fns hy (defs.map (·.toIField)) (defs.map (·.toIField)) a ha hs
    (fun d hd => findField_of_mem _ hnd d hd)
  have hpay : payloadOf (dictOf cfg fns (defs.map (·.toIField)) a) = some ws := by
    rw [payloadOf_simple _ hsimple, hj]
  refine ⟨⟨opText, ws, dictCalls cfg (defs.map (·.toIField)) a ++ dumpCallsOf (methodP cfg defs opName opText async).locals.query g⟩, ?_, rfl, hj, ?_⟩
  · have hsn : (envOf cfg).snake = cfg.snake := rfl
    simp only [send, hadd, hsn, hg, hcall, hpay]
    rfl
  · have hall : (defs.map (·.toIField)).all (fun d => isInputType cfg.schema d.type.base) = true := by
      simp only [List.all_eq_true, List.mem_map]
      rintro _ ⟨d, hd, rfl⟩
      simpa [VarDecl.toIField, ofTypeRef_base] using hk d hd
    simp only [coerceVars, hall, if_true, hco, assemble_provided _ _ hnd hab, intendedVars_eq]

/-- a required variable cannot be omitted: the call raises TypeError before anything is sent -/
theorem send_required_omitted (cfg : Cfg) (fns : UserFns) (hy : Hyp cfg fns) (defs : List VarDecl) (a : List AV)
    (opName opText cls : String) (async : Bool)
    (hk : ∀ d ∈ defs, isInputType cfg.schema d.type.base = true)
    (ht : anyTrigger (envOf cfg) (defs.map (·.toVarDef)) = false)
    (hobj : objsOK fns a) (hlen : defs.length = a.length)
    (d : VarDecl) (v : AV) (hd : (d, v) ∈ defs.zip a) (hreq : isNonNull d.type = true) (hu : v.isUnset = true) :
    ∃ msg, send (envOf cfg) fns async opName opText defs a cls = .error (.python (.typeError msg)) := by
  have hn := names_ok_of_triggers cfg fns hy defs ht
  obtain ⟨st, hadd⟩ := addMethod_ok cfg defs opName opText async hk
  obtain ⟨g, hg, hkw⟩ := givenOf_kw fns cfg.snake defs a hobj
  have hperm := paramNames_perm cfg defs
  have hNP : ∀ x, x ∈ paramNames cfg defs ↔ x ∈ pys cfg defs := fun x => hperm.mem_iff
  have hNPnd : (paramNames cfg defs).Nodup := hperm.nodup_iff.mpr hn.nodup
  obtain ⟨m, hm⟩ : ∃ m, m = methodP cfg defs opName opText async := ⟨_, rfl⟩
  have hnames : (paramsOf m).map (·.name) = paramNames cfg defs := by rw [hm]; exact paramsOf_names cfg defs opName opText async
  have hdef : checkDef selfName (paramsOf m) Tables.kwargsName = .ok () := by
    have : firstDup (selfName :: ((paramsOf m).map (·.name) ++ [Tables.kwargsName])) = none := by
      apply firstDup_none_of_nodup
      rw [hnames, List.nodup_cons]
      refine ⟨?_, ?_⟩
      · simp only [List.mem_append, List.mem_singleton, not_or]
        exact ⟨fun h => hn.noSelf ((hNP _).mp h), by decide⟩
      · rw [List.nodup_append]
        refine ⟨hNPnd, by simp, ?_⟩
        intro x hx y hy e
        simp only [List.mem_singleton] at hy
        subst hy; subst e
        exact hn.noKwargs ((hNP _).mp hx)
    simp [checkDef, this]
  have hkeys : ∀ k ∈ (kwOf g).map (·.1), k ∈ pys cfg defs := by rw [hkw]; exact kwP_keys fns cfg.snake defs a
  have hself : ((kwOf g).map (·.1)).contains selfName = false := by
    simp only [List.contains_eq_mem, decide_eq_false_iff_not]
    exact fun h => hn.noSelf (hkeys _ h)
  have hl : PyCall.lookup (pyVar cfg.snake d.name) (kwOf g) = none := by
    rw [hkw, lookup_kwP fns cfg.snake defs a hn.nodup hlen (d, v) hd]
    simp [hu]
  have hp : (⟨pyVar cfg.snake d.name, false⟩ : Param) ∈ paramsOf m := by
    simp only [paramsOf, hm, methodP, outOf, List.mem_append, List.mem_map, List.mem_filter]
    left
    refine ⟨(itemP (envOf cfg) d.toVarDef).arg, ⟨itemP (envOf cfg) d.toVarDef, ⟨⟨d.toVarDef, ⟨d, (List.of_mem_zip hd).1, rfl⟩, rfl⟩, ?_⟩, rfl⟩, ?_⟩
    · simp [itemP, VarDecl.toVarDef, hreq]
    · simp [itemP, VarDecl.toVarDef, envOf]
  obtain ⟨msg, hb⟩ := bindParams_missing PV.unset (kwOf g) (paramsOf m) _ hp rfl hl
  refine ⟨msg, ?_⟩
  have hsn : (envOf cfg).snake = cfg.snake := rfl
  have hcp : compiledParams cls m = paramsOf m := by
    simp only [compiledParams]
    conv => rhs; rw [← List.map_id (paramsOf m)]
    apply List.map_congr_left
    intro p hp
    have hpn : p.name ∈ pys cfg defs := (hNP _).mp (by rw [← hnames]; exact List.mem_map_of_mem hp)
    simp [mangle_id cls p.name (hn.noMangle _ hpn)]
  simp only [send, hadd, hsn, hg, ← hm, callMethod, hcp, hdef, bindCall, hself, Bool.false_eq_true, if_false, hb]

end Ariadne.ArgProofs

namespace Ariadne.ArgProofs
open Ariadne Ariadne.Scalars Ariadne.Coerce Ariadne.ArgValues Ariadne.ArgSend Ariadne.Arguments Ariadne.ClientMethod
open Ariadne.ArgFindings Ariadne.PyCall Ariadne.PydLog
open Ariadne.Gql (TypeRef)
open Ariadne.BaseClient (PV toJson toJsonKvs convertDict convertValue)

/-! ### shape of the payload: keys, null, unset fields -/

/-- names of the variables the caller passes, in definition order -/
def givenNames : List IField → List AV → List String
  | d :: ds, v :: vs => if v.isUnset then givenNames ds vs else d.name :: givenNames ds vs
  | _, _ => []

theorem argObj_not_unset (fns : UserFns) (v : AV) (h : v.isUnset = false) : (argObj fns v).isUnset = false := by
  cases v with
  | unset => simp [AV.isUnset] at h
  | list xs => simp only [argObj, objOf]; cases objsOf fns xs with
    | ok r => rfl
    | error e => rfl
  | model cls fields => simp only [argObj, objOf]; cases PydLog.dumpFields fns fields with
    | ok r => rfl
    | error e => rfl
  | _ => rfl

theorem entryOf_not_unset (cfg : Cfg) (fns : UserFns) (d : IField) (v : AV) (h : v.isUnset = false) :
    (entryOf cfg fns d v).isUnset = false := by
  have ha := argObj_not_unset fns v h
  cases hser : cfg.serOfType d.type <;> cases v <;> simp_all [entryOf, AV.isUnset, PV.isUnset]

/-- the keys of the payload are the ORIGINAL GraphQL names of exactly the given variables, in
    definition order; an explicit `None` travels as `null` -/
theorem payload_shape (cfg : Cfg) (fns : UserFns) (ds : List IField) (vs : List AV) (ws : List (String × J))
    (h : toJsonKvs (convertDict (dictOf cfg fns ds vs)) = some ws) :
    ws.map (·.1) = givenNames ds vs ∧ ∀ dv ∈ ds.zip vs, dv.2.isNone = true → (dv.1.name, J.null) ∈ ws := by
  induction ds generalizing vs ws with
  | nil => cases vs <;> simp [dictOf, convertDict, toJsonKvs] at h <;> subst h <;> simp [givenNames]
  | cons d ds ih =>
    cases vs with
    | nil => simp [dictOf, convertDict, toJsonKvs] at h; subst h; simp [givenNames]
    | cons v vs =>
      by_cases hu : v.isUnset = true
      · have he : entryOf cfg fns d v = .unset := by simp [entryOf, hu]
        simp only [dictOf, convertDict, he, PV.isUnset, if_true] at h
        obtain ⟨h1, h2⟩ := ih vs ws h
        refine ⟨by simp [givenNames, hu, h1], ?_⟩
        intro dv hm hn
        simp only [List.zip_cons_cons, List.mem_cons] at hm
        rcases hm with hm | hm
        · subst hm; cases v <;> simp [AV.isNone, AV.isUnset] at hn hu
        · exact h2 dv hm hn
      · have hu' : v.isUnset = false := by simpa using hu
        have hne := entryOf_not_unset cfg fns d v hu'
        simp only [dictOf, convertDict, hne, Bool.false_eq_true, if_false, toJsonKvs] at h
        cases hj : toJson (convertValue (entryOf cfg fns d v)) with
        | none => simp [hj] at h
        | some j =>
          cases hr : toJsonKvs (convertDict (dictOf cfg fns ds vs)) with
          | none => simp [hj, hr] at h
          | some js =>
            simp only [hj, hr, Option.some.injEq] at h
            subst h
            obtain ⟨h1, h2⟩ := ih vs js hr
            refine ⟨by simp [givenNames, hu', h1], ?_⟩
            intro dv hm hn
            simp only [List.zip_cons_cons, List.mem_cons] at hm
            rcases hm with hm | hm
            · subst hm
              have hv : v = .none := by cases v <;> simp [AV.isNone] at hn; rfl
              subst hv
              have : entryOf cfg fns d .none = .none := by
                simp only [entryOf, AV.isUnset, Bool.false_eq_true, if_false]
                rfl
              rw [this] at hj
              simp [convertValue, toJson] at hj
              subst hj
              simp
            · exact List.mem_cons_of_mem _ (h2 dv hm hn)

/-- keys a model instance's set fields are dumped under -/
def setKeys : List (FieldKey × AV) → List String
  | [] => []
  | (fk, v) :: rest => if v.isUnset then setKeys rest else fk.key :: setKeys rest

/-- `exclude_unset`: the dump of a model instance has exactly the keys of its set fields (the same
    function dumps nested instances, so this holds at every depth) -/
theorem dump_keys (fns : UserFns) (fields : List (FieldKey × AV)) (kvs : List (String × PV)) (calls : List Call)
    (h : dumpFields fns fields = .ok (kvs, calls)) : kvs.map (·.1) = setKeys fields := by
  induction fields generalizing kvs calls with
  | nil => simp [dumpFields] at h; obtain ⟨h1, _⟩ := h; subst h1; rfl
  | cons p rest ih =>
    obtain ⟨fk, v⟩ := p
    by_cases hu : v.isUnset = true
    · simp only [dumpFields, hu, if_true] at h
      simp [setKeys, hu, ih kvs calls h]
    · have hu' : v.isUnset = false := by simpa using hu
      simp only [dumpFields, hu', Bool.false_eq_true, if_false] at h
      cases h1 : dumpAnn fns fk.ann v with
      | error e => simp [h1] at h
      | ok r1 =>
        obtain ⟨y, c1⟩ := r1
        cases h2 : dumpFields fns rest with
        | error e => simp [h1, h2] at h
        | ok r2 =>
          obtain ⟨ys, c2⟩ := r2
          simp only [h1, h2, Except.ok.injEq, Prod.mk.injEq] at h
          obtain ⟨hk, _⟩ := h
          subst hk
          simp [setKeys, hu', ih ys c2 h2]

end Ariadne.ArgProofs
