/-
  Proofs/C04Steps.lean — invariants of `PackageGenerator.generate` as modelled by `Package.generateSteps`:
  a generic "a step keeps P, also in the state it leaves behind when it fails" calculus, the file-system invariant
  (one module per file name on disk; the files on disk are exactly the names of the write log), and the
  symbolic execution of the steps as far as the init imports are concerned.
-/
import AriadneModel.Model.Package
import AriadneModel.Proofs.C04Lists

set_option linter.unusedSimpArgs false
set_option linter.unusedVariables false

namespace Ariadne.C04Proofs
open Ariadne Ariadne.Util Ariadne.Package

/-! ### `putModule`, `dictSet` -/

theorem mem_putModule {ms : List ModuleIR} {m x : ModuleIR} (h : x ∈ putModule ms m) : x = m ∨ x ∈ ms := by
  unfold putModule at h
  split at h
  · obtain ⟨y, hy, rfl⟩ := List.mem_map.mp h
    by_cases hf : y.file == m.file
    · simp [hf]
    · simp [hf, hy]
  · rcases List.mem_append.mp h with h | h
    · exact Or.inr h
    · exact Or.inl (by simpa using h)

theorem self_mem_putModule (ms : List ModuleIR) (m : ModuleIR) : m ∈ putModule ms m := by
  unfold putModule
  split
  · rename_i hany
    obtain ⟨y, hy, hf⟩ := List.any_eq_true.mp hany
    exact List.mem_map.mpr ⟨y, hy, by simp [hf]⟩
  · simp

theorem putModule_files_of_mem (ms : List ModuleIR) (m : ModuleIR) (h : m.file ∈ ms.map (·.file)) :
    (putModule ms m).map (·.file) = ms.map (·.file) := by
  have hany : ms.any (·.file == m.file) = true := by
    obtain ⟨y, hy, hf⟩ := List.mem_map.mp h
    exact List.any_eq_true.mpr ⟨y, hy, by simp [hf]⟩
  unfold putModule
  simp only [hany, if_true, List.map_map]
  apply List.map_congr_left
  intro y _
  by_cases hf : y.file = m.file
  · simp [hf]
  · simp [hf]

theorem putModule_files_of_not_mem (ms : List ModuleIR) (m : ModuleIR) (h : m.file ∉ ms.map (·.file)) :
    (putModule ms m).map (·.file) = ms.map (·.file) ++ [m.file] := by
  have hany : ms.any (·.file == m.file) = false := by
    cases hc : ms.any (·.file == m.file) with
    | false => rfl
    | true =>
      obtain ⟨y, hy, hf⟩ := List.any_eq_true.mp hc
      have : y.file = m.file := by simpa using hf
      exact absurd (List.mem_map.mpr ⟨y, hy, this⟩) h
  unfold putModule
  simp [hany]

theorem mem_dictSet {d : List (String × ModuleIR)} {k : String} {v : ModuleIR} {x : String × ModuleIR}
    (h : x ∈ dictSet d k v) : x = (k, v) ∨ x ∈ d := by
  induction d with
  | nil => simp [dictSet] at h; exact Or.inl h
  | cons a d ih =>
    obtain ⟨k', v'⟩ := a
    simp only [dictSet] at h
    split at h
    · rcases List.mem_cons.mp h with h | h
      · exact Or.inl h
      · exact Or.inr (List.mem_cons_of_mem _ h)
    · rcases List.mem_cons.mp h with h | h
      · exact Or.inr (by simp [h])
      · rcases ih h with h | h
        · exact Or.inl h
        · exact Or.inr (List.mem_cons_of_mem _ h)

/-- the keys of a Python dict are pairwise different -/
theorem dictSet_keys_nodup (d : List (String × ModuleIR)) (k : String) (v : ModuleIR) (h : (d.map (·.1)).Nodup) :
    ((dictSet d k v).map (·.1)).Nodup ∧ ∀ x, x ∈ (dictSet d k v).map (·.1) ↔ x = k ∨ x ∈ d.map (·.1) := by
  induction d with
  | nil => simp [dictSet]
  | cons a d ih =>
    obtain ⟨k', v'⟩ := a
    simp only [List.map_cons] at h
    have hn := List.nodup_cons.mp h
    simp only [dictSet]
    split
    · rename_i hk
      have hk' : k' = k := by simpa using hk
      subst hk'
      refine ⟨by simpa using h, ?_⟩
      intro x
      simp
    · rename_i hk
      have hk' : k' ≠ k := by simpa using hk
      obtain ⟨ih1, ih2⟩ := ih hn.2
      refine ⟨?_, ?_⟩
      · simp only [List.map_cons]
        refine List.nodup_cons.mpr ⟨?_, ih1⟩
        intro hm
        rcases (ih2 k').mp hm with e | e
        · exact hk' e
        · exact hn.1 e
      · intro x
        simp only [List.map_cons, List.mem_cons, ih2 x]
        constructor
        · rintro (e | e | e)
          · exact Or.inr (Or.inl e)
          · exact Or.inl e
          · exact Or.inr (Or.inr e)
        · rintro (e | e | e)
          · exact Or.inr (Or.inl e)
          · exact Or.inl e
          · exact Or.inr (Or.inr e)

/-! ### the step calculus -/

/-- `s` keeps `P`: in the state it returns, and in the state it leaves behind when it raises -/
def StepKeeps (P : GenSt → Prop) (s : Step) : Prop :=
  ∀ g, P g → (∀ g', s g = .ok g' → P g') ∧ (∀ g' err, s g = .error (g', err) → P g')

theorem StepKeeps.andThen {P : GenSt → Prop} {a b : Step} (ha : StepKeeps P a) (hb : StepKeeps P b) :
    StepKeeps P (a.andThen b) := by
  intro g hg
  unfold Step.andThen
  cases h : a g with
  | error x =>
    obtain ⟨g1, err⟩ := x
    refine ⟨fun g' h' => by simp at h', fun g' err' h' => ?_⟩
    simp only [Except.error.injEq, Prod.mk.injEq] at h'
    obtain ⟨e1, _⟩ := h'
    subst e1
    exact (ha g hg).2 g1 err h
  | ok g1 =>
    have hg1 := (ha g hg).1 g1 h
    exact ⟨fun g' h' => (hb g1 hg1).1 g' h', fun g' err' h' => (hb g1 hg1).2 g' err' h'⟩

/-- an invariant that only looks at the modules on disk and the write log, and is kept by writing a module
    that satisfies `Q` -/
structure Closed (Q : ModuleIR → Prop) (P : GenSt → Prop) : Prop where
  put : ∀ g m, Q m → P g → P { g with modules := putModule g.modules m, log := g.log ++ [m.file] }
  other : ∀ g ue is, P g → P { g with usedEnums := ue, init := is }

theorem emit_keeps {Q : ModuleIR → Prop} {P : GenSt → Prop} (c : Closed Q P) (fmt : FmtOracle) (m : ModuleIR) (hm : Q m) :
    StepKeeps P (emit fmt m) := by
  intro g hg
  unfold emit
  by_cases hf : fmt m = true
  · rw [if_pos hf]
    refine ⟨fun g' h' => ?_, fun g' err h' => by simp at h'⟩
    simp only [Except.ok.injEq] at h'
    subst h'
    exact c.put g m hm hg
  · rw [if_neg hf]
    refine ⟨fun g' h' => by simp at h', fun g' err h' => ?_⟩
    simp only [Except.error.injEq, Prod.mk.injEq] at h'
    obtain ⟨e1, _⟩ := h'
    subst e1
    exact hg

theorem emitThen_keeps {Q : ModuleIR → Prop} {P : GenSt → Prop} (c : Closed Q P) (fmt : FmtOracle) (m : ModuleIR) (hm : Q m)
    (f : GenSt → GenSt) (hf : ∀ g1, P g1 → P (f g1)) : StepKeeps P (emitThen fmt m f) := by
  intro g hg
  have hk := emit_keeps c fmt m hm g hg
  unfold emitThen
  cases hem : emit fmt m g with
  | error x =>
    obtain ⟨g1, err⟩ := x
    refine ⟨fun g' h' => by simp at h', fun g' err' h' => ?_⟩
    simp only [Except.error.injEq, Prod.mk.injEq] at h'
    obtain ⟨e1, _⟩ := h'
    subst e1
    exact hk.2 g1 err hem
  | ok g1 =>
    refine ⟨fun g' h' => ?_, fun g' err' h' => by simp at h'⟩
    simp only [Except.ok.injEq] at h'
    subst h'
    exact hf g1 (hk.1 g1 hem)

theorem emitAll_keeps {Q : ModuleIR → Prop} {P : GenSt → Prop} (c : Closed Q P) (fmt : FmtOracle) :
    ∀ ms : List ModuleIR, (∀ m ∈ ms, Q m) → StepKeeps P (emitAll fmt ms)
  | [], _ => by
    intro g hg
    simp only [emitAll]
    exact ⟨fun g' h' => by simp at h'; subst h'; exact hg, fun g' err h' => by simp at h'⟩
  | m :: rest, h => by
    simp only [emitAll]
    exact (emit_keeps c fmt m (h m (by simp))).andThen (emitAll_keeps c fmt rest (fun x hx => h x (by simp [hx])))

theorem writeRaw_keeps {Q : ModuleIR → Prop} {P : GenSt → Prop} (c : Closed Q P) (m : ModuleIR) (hm : Q m) (g : GenSt) (hg : P g) :
    P (writeRaw m g) := c.put g m hm hg

theorem foldl_writeRaw_keeps {Q : ModuleIR → Prop} {P : GenSt → Prop} (c : Closed Q P) (mk : String → ModuleIR) (hmk : ∀ f, Q (mk f)) :
    ∀ (files : List String) (g : GenSt), P g → P (files.foldl (fun g f => writeRaw (mk f) g) g)
  | [], g, hg => hg
  | f :: rest, g, hg => by
    simp only [List.foldl_cons]
    exact foldl_writeRaw_keeps c mk hmk rest _ (writeRaw_keeps c _ (hmk f) g hg)

/-- what the invariant needs to know about the modules the steps write -/
structure Writes (Q : ModuleIR → Prop) (fmt : FmtOracle) (e : Order.EnumOracle) (cfg : Config) (inp : Input) (fl : Nat) (st : St) : Prop where
  inputs : ∀ io, inputsModule cfg inp.defs st.argSt.usedInputs = .ok io → Q io.module
  results : ∀ fm ∈ st.files, Q fm.2
  fragments : ∀ fo gens, Q (fragmentsModuleIR cfg fo gens)
  copied : ∀ f, Q (copiedModule cfg f)
  custom : ∀ f, Q (customModule f)
  client : Q (clientModule cfg inp.schema st.entries st.argSt)
  enums : ∀ ue, Q (enumsModule cfg inp.schema ue)
  init : ∀ is, Q (initModule is)

section steps
variable {Q : ModuleIR → Prop} {P : GenSt → Prop} (c : Closed Q P)
variable {fmt : FmtOracle} {e : Order.EnumOracle} {cfg : Config} {inp : Input} {fl : Nat} {st : St}
variable (w : Writes Q fmt e cfg inp fl st)
include c w

theorem stepInputs_keeps : StepKeeps P (stepInputs fmt cfg inp st) := by
  intro g hg
  unfold stepInputs
  cases hio : inputsModule cfg inp.defs st.argSt.usedInputs with
  | error err =>
    refine ⟨fun g' h' => by simp at h', fun g' err' h' => ?_⟩
    simp only [Except.error.injEq, Prod.mk.injEq] at h'
    obtain ⟨e1, _⟩ := h'
    subst e1
    exact hg
  | ok io => exact emitThen_keeps c fmt io.module (w.inputs io hio) _ (fun g1 h1 => c.other g1 _ _ h1) g hg

theorem stepResults_keeps : StepKeeps P (stepResults fmt st) := by
  unfold stepResults
  refine emitAll_keeps c fmt _ ?_
  intro m hm
  obtain ⟨fm, hfm, rfl⟩ := List.mem_map.mp hm
  exact w.results fm hfm

theorem stepFragments_keeps : StepKeeps P (stepFragments fmt e cfg inp fl st) := by
  intro g hg
  unfold stepFragments
  simp only
  split
  · exact ⟨fun g' h' => by simp at h'; subst h'; exact hg, fun g' err h' => by simp at h'⟩
  · split
    · rename_i gens fo _ _
      exact emitThen_keeps c fmt _ (w.fragments fo gens) _ (fun g1 h1 => c.other g1 _ _ h1) g hg
    · refine ⟨fun g' h' => by simp at h', fun g' err' h' => ?_⟩
      simp only [Except.error.injEq, Prod.mk.injEq] at h'
      obtain ⟨e1, _⟩ := h'
      subst e1
      exact hg
    · refine ⟨fun g' h' => by simp at h', fun g' err' h' => ?_⟩
      simp only [Except.error.injEq, Prod.mk.injEq] at h'
      obtain ⟨e1, _⟩ := h'
      subst e1
      exact hg

theorem stepCopy_keeps : StepKeeps P (stepCopy cfg) := by
  intro g hg
  unfold stepCopy
  refine ⟨fun g' h' => ?_, fun g' err h' => by simp at h'⟩
  simp only [Except.ok.injEq] at h'
  subst h'
  exact c.other _ _ _ (foldl_writeRaw_keeps c (copiedModule cfg) w.copied _ g hg)

theorem stepCustom_keeps : StepKeeps P (stepCustom cfg inp) := by
  intro g hg
  unfold stepCustom
  refine ⟨fun g' h' => ?_, fun g' err h' => by simp at h'⟩
  simp only [Except.ok.injEq] at h'
  subst h'
  split
  · exact foldl_writeRaw_keeps c customModule w.custom _ g hg
  · exact hg

theorem stepClient_keeps : StepKeeps P (stepClient fmt cfg inp st) := by
  unfold stepClient
  exact emitThen_keeps c fmt _ w.client _ (fun g1 h1 => c.other g1 _ _ h1)

theorem stepEnums_keeps : StepKeeps P (stepEnums fmt cfg inp) := by
  intro g hg
  unfold stepEnums
  exact emitThen_keeps c fmt _ (w.enums g.usedEnums) _ (fun g1 h1 => c.other g1 _ _ h1) g hg

theorem stepInit_keeps : StepKeeps P (stepInit fmt) := by
  intro g hg
  unfold stepInit
  exact emit_keeps c fmt _ (w.init g.init) g hg

/-- every invariant of the closed kind survives `generate()`, whether it returns or raises -/
theorem generateSteps_keeps : StepKeeps P (generateSteps fmt e cfg inp fl st) := by
  unfold generateSteps
  exact (stepInputs_keeps c w).andThen <| (stepResults_keeps c w).andThen <| (stepFragments_keeps c w).andThen <|
    (stepCopy_keeps c w).andThen <| (stepCustom_keeps c w).andThen <| (stepClient_keeps c w).andThen <|
      (stepEnums_keeps c w).andThen (stepInit_keeps c w)

end steps

/-! ### the file-system invariant -/

/-- one module per file name; the file names on disk are the members of the write log -/
structure FilesInv (g : GenSt) : Prop where
  nodup : (g.modules.map (·.file)).Nodup
  mem : ∀ f, f ∈ g.modules.map (·.file) ↔ f ∈ g.log

theorem filesInv_closed : Closed (fun _ => True) FilesInv where
  put := by
    intro g m _ hg
    by_cases hm : m.file ∈ g.modules.map (·.file)
    · refine ⟨?_, ?_⟩
      · simp only [putModule_files_of_mem g.modules m hm]; exact hg.nodup
      · intro f
        simp only [putModule_files_of_mem g.modules m hm, List.mem_append, List.mem_singleton]
        constructor
        · exact fun h => Or.inl ((hg.mem f).mp h)
        · rintro (h | h)
          · exact (hg.mem f).mpr h
          · subst h; exact hm
    · refine ⟨?_, ?_⟩
      · simp only [putModule_files_of_not_mem g.modules m hm]
        exact List.nodup_append.mpr ⟨hg.nodup, by simp, by
          intro a ha b hb
          simp only [List.mem_singleton] at hb
          subst hb
          exact fun e => hm (e ▸ ha)⟩
      · intro f
        simp only [putModule_files_of_not_mem g.modules m hm, List.mem_append, List.mem_singleton, hg.mem f]
  other := by
    intro g ue is hg
    exact ⟨hg.nodup, hg.mem⟩

theorem writes_true (fmt : FmtOracle) (e : Order.EnumOracle) (cfg : Config) (inp : Input) (fl : Nat) (st : St) :
    Writes (fun _ => True) fmt e cfg inp fl st :=
  ⟨fun _ _ => trivial, fun _ _ => trivial, fun _ _ => trivial, fun _ => trivial, fun _ => trivial, trivial, fun _ => trivial, fun _ => trivial⟩

theorem filesInv_genSt0 (cfg : Config) (st : St) : FilesInv (genSt0 cfg st) :=
  ⟨by simp [genSt0], by simp [genSt0]⟩

/-- on disk = write log, after `generate()` returned or raised -/
theorem generateSteps_files (fmt : FmtOracle) (e : Order.EnumOracle) (cfg : Config) (inp : Input) (fl : Nat) (st : St) :
    (∀ g, generateSteps fmt e cfg inp fl st (genSt0 cfg st) = .ok g → FilesInv g) ∧
    (∀ g err, generateSteps fmt e cfg inp fl st (genSt0 cfg st) = .error (g, err) → FilesInv g) :=
  generateSteps_keeps filesInv_closed (writes_true fmt e cfg inp fl st) _ (filesInv_genSt0 cfg st)

end Ariadne.C04Proofs
