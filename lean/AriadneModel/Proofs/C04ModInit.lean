/-
  Proofs/C04ModInit.lean — `__init__.py`: every `from .<module> import <names>` it carries names a module of the package
  that defines all of the names.
-/
import AriadneModel.Proofs.C04ModResult2

set_option linter.unusedSimpArgs false
set_option linter.unusedVariables false

namespace Ariadne.C04Proofs
open Ariadne Ariadne.Gql Ariadne.Util Ariadne.Package Ariadne.PackageTriggers Ariadne.PackageValid Ariadne.Spec.PyScope
open Ariadne.ResultTypes (pascal ModuleOut GenSpec)
open Ariadne.Fragments (DefGen FragmentsOut)

theorem mem_initAdd {is : List Import} {ns : List String} {m : String} {i : Import} (h : i ∈ initAdd is ns m) :
    i ∈ is ∨ (i = ⟨1, m, ns⟩ ∧ ns ≠ []) := by
  unfold initAdd at h
  split at h
  · exact Or.inl h
  · rename_i hne
    rcases List.mem_append.mp h with h | h
    · exact Or.inl h
    · refine Or.inr ⟨by simpa using h, ?_⟩
      intro e
      rw [e] at hne
      simp at hne

/-! ### every generator's classes are in `fragments.py` -/

theorem nodup_dedup : ∀ l : List String, (dedup l).Nodup
  | [] => List.nodup_nil
  | x :: xs => by
    simp only [dedup]
    refine List.nodup_cons.mpr ⟨?_, (nodup_dedup xs).filter _⟩
    intro h
    have := (List.mem_filter.mp h).2
    simp at this

theorem lookupGen_of_nodup : ∀ (gens : List DefGen), (gens.map (·.name)).Nodup → ∀ g ∈ gens, Fragments.lookupGen gens g.name = some g
  | [], _, g, h => by cases h
  | a :: rest, hn, g, h => by
    simp only [List.map_cons] at hn
    obtain ⟨hna, hnr⟩ := List.nodup_cons.mp hn
    unfold Fragments.lookupGen
    simp only [List.find?_cons]
    rcases List.mem_cons.mp h with rfl | h
    · simp
    · have hne : a.name ≠ g.name := fun e => hna (e ▸ List.mem_map.mpr ⟨g, h, rfl⟩)
      have : (a.name == g.name) = false := by simpa using hne
      rw [this]
      exact lookupGen_of_nodup rest hnr g h

theorem gens_classes_in_module {env : ResultTypes.Env} {fuel : Nat} {excluded : List String} {marks : List Nat}
    {gens : List DefGen} {fo : FragmentsOut}
    (hg : Fragments.genFragments env fuel (Fragments.remaining env excluded) marks = .ok gens)
    (hf : Fragments.generateFragments id env fuel (Fragments.remaining env excluded) marks = .ok fo) :
    ∀ g ∈ gens, ∀ c ∈ g.out.classes, c ∈ fo.classes := by
  obtain ⟨hnames, _⟩ := Fragments.genFragments_spec _ _ _ _ gens hg
  obtain ⟨gens', hg', _, hs, hcio, _⟩ := Fragments.generateFragments_unfold id _ _ _ _ fo hf
  rw [hg] at hg'
  simp only [Except.ok.injEq] at hg'
  subst hg'
  obtain ⟨hcs, _⟩ := Fragments.classesInOrder_spec gens fo.order fo.classes hcio
  have hnd : (gens.map (·.name)).Nodup := by
    rw [hnames]
    unfold Fragments.remaining
    exact (nodup_dedup _).filter _
  intro g hgm c hc
  have hin : g.name ∈ fo.order := by
    refine Order.dfs_complete hs g.name ((Order.mem_pySorted _ _).mpr ?_)
    show g.name ∈ Fragments.remaining env excluded
    rw [← hnames]
    exact List.mem_map.mpr ⟨g, hgm, rfl⟩
  rw [hcs]
  exact Fragments.mem_classesOf gens (lookupGen_of_nodup gens hnd g hgm) fo.order hin c hc

/-! ### the module -/

/-- **`__init__.py`**: every import resolves (there are no class statements) — for every input in `Valid`, outside the
    trigger `operationModuleOverwritten` -/
theorem init_residual {cfg : Config} {inp : Input} {p : PackageIR} {st : St} {io : InputsOut}
    {fx : Option (Fragments.FragmentsOut × List Fragments.DefGen)} (F : Facts cfg inp p st io fx)
    (hc : cfgOK cfg = true) (htr : trigOperationModuleOverwritten cfg inp = false) :
    residualParts p (initModule (finalInit cfg inp st io (fragOut fx))) = true := by
  have C := cfgFacts hc
  have I := opsInv_of F.ops
  refine residualParts_of ?_ rfl rfl rfl
  apply importsResolve_of
  intro i hi
  have hi' : i ∈ finalInit cfg inp st io (fragOut fx) := hi
  unfold finalInit at hi'
  simp only at hi'
  -- peel the imports off, last first
  rcases mem_initAdd hi' with hi' | ⟨rfl, _⟩
  rotate_left
  · -- enums
    rw [normImport_noDot _ _ _ C.enumsDot]
    refine F.resolves enums_mem_written rfl (enumsModule_file _ _ _) ?_
    intro ns hns
    rw [exported_generated (enumsModule_generated _ _ _)] at hns
    simp only [Option.some.injEq] at hns
    subst hns
    intro n hn
    exact className_mem_defines hn
  rcases mem_initAdd hi' with hi' | ⟨rfl, _⟩
  rotate_left
  · -- the client class
    rw [normImport_noDot _ _ _ C.clientDot]
    refine F.resolves client_mem_written rfl rfl ?_
    intro ns hns
    have hg : generated (clientModule cfg inp.schema st.entries st.argSt) = true := rfl
    rw [exported_generated hg] at hns
    simp only [Option.some.injEq] at hns
    subst hns
    intro n hn
    have : n = cfg.clientName := by simpa using hn
    subst this
    exact className_mem_defines (by simp [clientModule])
  rcases mem_initAdd hi' with hi' | ⟨rfl, _⟩
  rotate_left
  · -- BaseModel, Upload
    have e : normImport ⟨1, stem baseModelFile, ["BaseModel", Tables.uploadClassName]⟩ = ⟨1, "base_model", ["BaseModel", Tables.uploadClassName]⟩ := by decide
    rw [e]
    refine F.resolves (copied_mem_written (baseModel_mem_copied cfg)) rfl (show baseModelFile = pyFile "base_model" by decide) ?_
    intro ns hns
    rw [exported_copied, provides_baseModel] at hns
    simp only [Option.some.injEq] at hns
    subst hns
    intro n hn
    simp only [List.mem_cons, List.mem_nil_iff, or_false] at hn
    rcases hn with rfl | rfl <;> simp
  rcases mem_initAdd hi' with hi' | ⟨rfl, _⟩
  rotate_left
  · -- the base client
    rw [normImport_noDot _ _ _ C.baseDot]
    refine F.resolves (copied_mem_written (baseClient_mem_copied cfg)) rfl (by simp [copiedModule, C.basePy]) ?_
    intro ns hns
    rw [exported_copied] at hns
    have hprov : (copiedModule cfg cfg.baseClientFile).provides = some [cfg.baseClientName] := by
      have h1 : (cfg.baseClientFile == baseModelFile) = false := by simpa using C.notBaseModel
      have h2 : (cfg.baseClientFile == exceptionsFile) = false := by simpa using C.notExceptions
      have h3 : (cfg.baseClientFile == baseOperationFile) = false := by simpa using C.notBaseOperation
      simp [copiedModule, h1, h2, h3]
    rw [hprov] at hns
    simp only [Option.some.injEq] at hns
    subst hns
    intro n hn
    exact hn
  rcases mem_initAdd hi' with hi' | ⟨rfl, hne⟩
  rotate_left
  · -- the fragments module
    rw [normImport_noDot _ _ _ C.fragsDot]
    cases hfx : fx with
    | none => rw [hfx] at hne; simp [fragOut, fragmentNames] at hne
    | some x =>
      obtain ⟨fo, gens⟩ := x
      -- what ran
      rcases F.frags with ⟨_, hnone⟩ | ⟨_, fo', gens', hfx', hg', hf'⟩
      · rw [hfx] at hnone; cases hnone
      · rw [hfx] at hfx'
        simp only [Option.some.injEq, Prod.mk.injEq] at hfx'
        obtain ⟨rfl, rfl⟩ := hfx'
        refine F.resolves (fragments_mem_written hfx) rfl rfl ?_
        intro ns hns
        have hgm : generated (fragmentsModuleIR cfg fo gens) = true := rfl
        rw [exported_generated hgm] at hns
        simp only [Option.some.injEq] at hns
        subst hns
        intro n hn
        simp only [fragOut, Option.map_some, fragmentNames] at hn
        obtain ⟨_, hpub, _, _⟩ := generateFragments_unfold' id _ _ _ _ fo gens hg' hf'
        rw [hpub] at hn
        obtain ⟨g, hgm', hn⟩ := List.mem_flatMap.mp hn
        obtain ⟨_, hfrom⟩ := Fragments.genFragments_spec _ _ _ _ gens hg'
        obtain ⟨f, marks, _, hgn⟩ := hfrom g hgm'
        have gs := ResultTypes.generate_out _ _ _ marks _ hgn
        obtain ⟨c, hc', rfl⟩ := List.mem_map.mp ((gs.pubClasses n).mp hn)
        have hin := gens_classes_in_module hg' hf' g hgm' c hc'
        refine className_mem_defines ?_
        simp only [fragmentsModuleIR, List.map_map]
        exact List.mem_map.mpr ⟨c, hin, rfl⟩
  rcases mem_initAdd hi' with hi' | ⟨rfl, _⟩
  rotate_left
  · -- the input types
    rw [normImport_noDot _ _ _ C.inputsDot]
    obtain ⟨kept, _, hio⟩ := inputsModule_inv F.inputs
    refine F.resolves inputs_mem_written rfl (by rw [hio]; rfl) ?_
    intro ns hns
    have hgm : generated io.module = true := by rw [hio]; rfl
    rw [exported_generated hgm] at hns
    simp only [Option.some.injEq] at hns
    subst hns
    intro n hn
    refine className_mem_defines ?_
    rw [hio] at hn ⊢
    simpa [inputsOut, inputClassIR, Function.comp] using hn
  -- what `_include_exceptions` and the operations contributed
  unfold init0 at hi'
  split at hi'
  · rename_i hdef
    rcases mem_initAdd hi' with hi' | ⟨rfl, _⟩
    rotate_left
    · have e : normImport ⟨1, stem exceptionsFile, Tables.exceptionsNames⟩ = ⟨1, "exceptions", Tables.exceptionsNames⟩ := by decide
      rw [e]
      refine F.resolves (copied_mem_written (exceptions_mem_copied hdef)) rfl (show exceptionsFile = pyFile "exceptions" by decide) ?_
      intro ns hns
      rw [exported_copied, provides_exceptions] at hns
      simp only [Option.some.injEq] at hns
      subst hns
      intro n hn
      exact hn
    · obtain ⟨g, hg, rfl⟩ := I.init i hi'
      by_cases hpe : g.out.st.publicNames = []
      · -- no name: cannot have been added
        exfalso
        have : ∀ (ops : List OpIn), True := fun _ => trivial
        exact absurd hpe (by
          -- `initAdd` only ever appends imports with names
          have hall : ∀ j ∈ st.init, j.names ≠ [] := by
            refine addOperations_inv (fun s => ∀ j ∈ s.init, j.names ≠ []) ?_ inp.ops (fun _ h => h) {} st (fun _ h => (by cases h)) F.ops
            intro s o s' _ hI hs
            obtain ⟨n, out, m, argSt, _, _, _, rfl⟩ := addOperation_ok hs
            intro j hj
            rcases mem_initAdd hj with hj | ⟨rfl, hne⟩
            · exact hI j hj
            · exact hne
          exact hall _ hi')
      · exact op_import_resolves F htr hg hpe (fun n hn => hn)
  · obtain ⟨g, hg, rfl⟩ := I.init i hi'
    by_cases hpe : g.out.st.publicNames = []
    · exfalso
      have hall : ∀ j ∈ st.init, j.names ≠ [] := by
        refine addOperations_inv (fun s => ∀ j ∈ s.init, j.names ≠ []) ?_ inp.ops (fun _ h => h) {} st (fun _ h => (by cases h)) F.ops
        intro s o s' _ hI hs
        obtain ⟨n, out, m, argSt, _, _, _, rfl⟩ := addOperation_ok hs
        intro j hj
        rcases mem_initAdd hj with hj | ⟨rfl, hne⟩
        · exact hI j hj
        · exact hne
      exact hall _ hi' hpe
    · exact op_import_resolves F htr hg hpe (fun n hn => hn)

end Ariadne.C04Proofs
