/-
  Lemmas of C03 about constructing input-model instances (Model/ArgConstruct.lean over
  Spec/PydInit.lean): which instances `Cls(**kw)` of a generated input class can return, for either
  schema source, and where in a schema-valid caller value that matters.
-/
import AriadneModel.Model.ArgConstruct
import AriadneModel.Proofs.ArgValues

set_option linter.unusedSimpArgs false
set_option linter.unusedVariables false

namespace Ariadne.ArgProofs
open Ariadne Ariadne.Scalars Ariadne.Coerce Ariadne.ArgValues Ariadne.PydInit Ariadne.ArgConstruct
open Ariadne.InputFields (DefaultKind fieldDecl parseType)

/-! ### `__init__`: looking keywords up -/

theorem findKw_cons_ne (k k' : String) (v : AV) (kw : List (String × AV)) (h : k' ≠ k) :
    findKw k ((k', v) :: kw) = findKw k kw := by
  simp [findKw, h]

theorem findKw_cons_eq (k : String) (v : AV) (kw : List (String × AV)) :
    findKw k ((k, v) :: kw) = some v := by
  simp [findKw]

theorem findKw_none (k : String) (kw : List (String × AV)) (h : k ∉ kw.map (·.1)) : findKw k kw = none := by
  induction kw with
  | nil => rfl
  | cons p rest ih =>
    obtain ⟨k', v⟩ := p
    simp only [List.map_cons, List.mem_cons, not_or] at h
    rw [findKw_cons_ne k k' v rest (fun e => h.1 e.symm)]
    exact ih h.2

theorem lookupField_skip (c : InitField) (k0 : String) (v : AV) (kw : List (String × AV))
    (h : k0 ∉ c.lookupNames) : lookupField c ((k0, v) :: kw) = lookupField c kw := by
  simp only [InitField.lookupNames, List.mem_cons, not_or] at h
  cases ha : c.alias with
  | none => simp only [lookupField, ha]; exact findKw_cons_ne _ _ _ _ h.1
  | some a =>
    have hne : k0 ≠ a := by
      intro e; apply h.2; simp [ha, e]
    simp only [lookupField, ha, findKw_cons_ne a k0 v kw hne, findKw_cons_ne c.py k0 v kw h.1]

theorem initFields_skip (cs : List InitField) (k0 : String) (v : AV) (kw : List (String × AV))
    (h : k0 ∉ lookupNamesOf cs) : initFields cs ((k0, v) :: kw) = initFields cs kw := by
  induction cs with
  | nil => rfl
  | cons c cs ih =>
    simp only [lookupNamesOf, List.flatMap_cons, List.mem_append, not_or] at h
    have h2 : k0 ∉ lookupNamesOf cs := by simpa [lookupNamesOf] using h.2
    simp only [initFields, lookupField_skip c k0 v kw h.1, ih h2]

theorem pickName_mem (b : Bool) (c : InitField) : pickName b c ∈ c.lookupNames := by
  cases b
  · simp only [pickName, Bool.false_eq_true, if_false, InitField.key, InitField.lookupNames]
    cases c.alias <;> simp
  · simp [pickName, InitField.lookupNames]

theorem kwFor_keys (bs : List Bool) (cs : List InitField) (inst : List (FieldKey × AV)) :
    ∀ k ∈ (kwFor bs cs inst).map (·.1), k ∈ lookupNamesOf cs := by
  induction cs generalizing bs inst with
  | nil => intro k h; simp [kwFor] at h
  | cons c cs ih =>
    cases inst with
    | nil => intro k h; simp [kwFor] at h
    | cons p rest =>
      obtain ⟨fk, v⟩ := p
      intro k h
      simp only [lookupNamesOf, List.flatMap_cons, List.mem_append]
      by_cases hu : v.isUnset = true
      · simp only [kwFor, hu, if_true] at h
        exact Or.inr (by simpa [lookupNamesOf] using ih bs.tail rest k h)
      · simp only [kwFor, hu, Bool.false_eq_true, if_false, List.map_cons, List.mem_cons] at h
        rcases h with h | h
        · left
          subst h
          exact pickName_mem _ c
        · exact Or.inr (by simpa [lookupNamesOf] using ih bs.tail rest k h)

/-- the keywords of the other fields do not reach this field -/
theorem lookupField_foreign (c : InitField) (kw : List (String × AV))
    (h : ∀ k ∈ kw.map (·.1), k ∉ c.lookupNames) : lookupField c kw = none := by
  induction kw with
  | nil => simp [lookupField, findKw]; cases c.alias <;> rfl
  | cons p rest ih =>
    obtain ⟨k0, v⟩ := p
    rw [lookupField_skip c k0 v rest (h k0 (by simp))]
    exact ih (fun k hk => h k (by simp only [List.map_cons, List.mem_cons]; exact Or.inr hk))

theorem isUnset_eq (v : AV) (h : v.isUnset = true) : v = .unset := by
  cases v <;> simp [AV.isUnset] at h ⊢

/-! ### which instances a class can return -/

/-- the keywords `kwFor` writes (any mix of attribute names and aliases) build exactly the instance -/
theorem init_builds_fields (bs : List Bool) (cs : List InitField) (inst : List (FieldKey × AV))
    (hnd : (lookupNamesOf cs).Nodup) (hf : fitsClass cs inst = true) :
    (initFields cs (kwFor bs cs inst)).fields = inst ∧ (initFields cs (kwFor bs cs inst)).missing = [] ∧
      (initFields cs (kwFor bs cs inst)).invalid = [] := by
  induction cs generalizing bs inst with
  | nil => cases inst <;> simp [fitsClass] at hf; simp [kwFor, initFields]
  | cons c cs ih =>
    cases inst with
    | nil => simp [fitsClass] at hf
    | cons p rest =>
      obtain ⟨fk, v⟩ := p
      simp only [fitsClass, Bool.and_eq_true, beq_iff_eq] at hf
      obtain ⟨⟨hk, hc⟩, hrest⟩ := hf
      simp only [lookupNamesOf, List.flatMap_cons] at hnd
      rw [List.nodup_append] at hnd
      obtain ⟨hn1, hn2, hdis⟩ := hnd
      have hn2' : (lookupNamesOf cs).Nodup := by simpa [lookupNamesOf] using hn2
      have hdis' : ∀ k ∈ lookupNamesOf cs, k ∉ c.lookupNames := by
        intro k hk1 hk2
        exact hdis k hk2 k (by simpa [lookupNamesOf] using hk1) rfl
      by_cases hu : v.isUnset = true
      · have hv := isUnset_eq v hu
        subst hv
        simp only [AV.isUnset, if_true, Bool.not_eq_true'] at hc
        have hlook : lookupField c (kwFor bs.tail cs rest) = none :=
          lookupField_foreign c _ (fun k hk => hdis' k (kwFor_keys bs.tail cs rest k hk))
        obtain ⟨i1, i2, i3⟩ := ih bs.tail rest hn2' hrest
        simp only [kwFor, AV.isUnset, if_true, initFields, hlook, hc, Bool.false_eq_true, if_false]
        exact ⟨by rw [i1, hk], i2, i3⟩
      · have hu' : v.isUnset = false := by simpa using hu
        simp only [hu', Bool.false_eq_true, if_false] at hc
        have hskip : pickName (bs.headD false) c ∉ lookupNamesOf cs :=
          fun hm => hdis' _ hm (pickName_mem _ c)
        have htail : lookupField c (kwFor bs.tail cs rest) = none :=
          lookupField_foreign c _ (fun k hk => hdis' k (kwFor_keys bs.tail cs rest k hk))
        have hlook : lookupField c ((pickName (bs.headD false) c, v) :: kwFor bs.tail cs rest) = some v := by
          generalize bs.headD false = b
          cases ha : c.alias with
          | none =>
            simp only [lookupField, ha, pickName, InitField.key, Option.getD_none, ite_self]
            exact findKw_cons_eq _ _ _
          | some a =>
            have hpa : c.py ≠ a := by
              intro e
              simp only [InitField.lookupNames, ha, Option.toList_some, List.nodup_cons, List.mem_singleton] at hn1
              exact hn1.1 e
            have hnone : findKw a (kwFor bs.tail cs rest) = none := by
              apply findKw_none
              intro hm
              exact hdis' a (kwFor_keys bs.tail cs rest a hm) (by simp [InitField.lookupNames, ha])
            cases b
            · simp only [lookupField, ha, pickName, Bool.false_eq_true, if_false, InitField.key, Option.getD_some, findKw_cons_eq]
            · simp only [lookupField, ha, pickName, if_true, findKw_cons_ne a c.py v _ hpa, hnone, findKw_cons_eq]
        obtain ⟨i1, i2, i3⟩ := ih bs.tail rest hn2' hrest
        simp only [kwFor, hu', Bool.false_eq_true, if_false, initFields, hlook, hc, if_true,
          initFields_skip cs _ v _ hskip]
        exact ⟨by rw [i1, hk], i2, i3⟩

/-- whatever the keywords: an instance that `__init__` returns fits the class — in particular no
    required field is left unset -/
theorem init_ok_fits (cs : List InitField) (kw : List (String × AV))
    (hm : (initFields cs kw).missing = []) (hi : (initFields cs kw).invalid = []) :
    fitsClass cs (initFields cs kw).fields = true := by
  induction cs with
  | nil => simp [initFields, fitsClass]
  | cons c cs ih =>
    cases hl : lookupField c kw with
    | some v =>
      by_cases ha : accepts c v = true
      · simp only [initFields, hl, ha, if_true] at hm hi ⊢
        have hu : v.isUnset = false := by
          simp only [accepts, Bool.and_eq_true, Bool.not_eq_true'] at ha; exact ha.1
        simp [fitsClass, hu, ha, ih hm hi]
      · simp only [initFields, hl, ha, Bool.false_eq_true, if_false] at hi
        simp at hi
    | none =>
      by_cases hr : c.required = true
      · simp only [initFields, hl, hr, if_true] at hm
        simp at hm
      · simp only [initFields, hl, hr, Bool.false_eq_true, if_false] at hm hi ⊢
        simp [fitsClass, AV.isUnset, hr, ih hm hi]

theorem initModel_ok_iff (cs : List InitField) (kw : List (String × AV)) (inst : List (FieldKey × AV)) :
    initModel cs kw = .ok inst ↔
      (initFields cs kw).fields = inst ∧ (initFields cs kw).missing = [] ∧ (initFields cs kw).invalid = [] := by
  simp only [initModel]
  cases hm : (initFields cs kw).missing <;> cases hi : (initFields cs kw).invalid <;> simp

/-- a required field that the keywords do not mention: `ValidationError` (missing) -/
theorem init_missing_required (c : InitField) (cs : List InitField) (kw : List (String × AV))
    (hr : c.required = true) (hl : lookupField c kw = none) : ∃ e, initModel (c :: cs) kw = .error e ∧ c.key ∈ e.missing := by
  refine ⟨⟨(initFields (c :: cs) kw).missing, (initFields (c :: cs) kw).invalid⟩, ?_, ?_⟩
  · simp [initModel, initFields, hl, hr]
  · simp [initFields, hl, hr]

/-- any required field, wherever it stands in the class -/
theorem missing_of_required (cs : List InitField) (kw : List (String × AV)) (c : InitField) (hc : c ∈ cs)
    (hr : c.required = true) (hl : lookupField c kw = none) : c.key ∈ (initFields cs kw).missing := by
  induction cs with
  | nil => simp at hc
  | cons c' cs ih =>
    simp only [List.mem_cons] at hc
    rcases hc with hc | hc
    · subst hc; simp [initFields, hl, hr]
    · have := ih hc
      simp only [initFields]
      cases lookupField c' kw with
      | some v => by_cases ha : accepts c' v = true <;> simp [ha, this]
      | none => by_cases hr' : c'.required = true <;> simp [hr', this]

theorem init_required_left_out (cs : List InitField) (kw : List (String × AV)) (c : InitField) (hc : c ∈ cs)
    (hr : c.required = true) (hl : lookupField c kw = none) :
    ∃ e, initModel cs kw = .error e ∧ c.key ∈ e.missing := by
  have hm := missing_of_required cs kw c hc hr hl
  refine ⟨⟨(initFields cs kw).missing, (initFields cs kw).invalid⟩, ?_, hm⟩
  simp only [initModel]
  cases hmm : (initFields cs kw).missing with
  | nil => rw [hmm] at hm; simp at hm
  | cons x xs => simp

/-- the instances a class can return, for a class whose lookup names are pairwise distinct -/
theorem init_iff_fits (cs : List InitField) (inst : List (FieldKey × AV)) (hnd : (lookupNamesOf cs).Nodup) :
    (∃ kw, initModel cs kw = .ok inst) ↔ fitsClass cs inst = true := by
  constructor
  · rintro ⟨kw, h⟩
    obtain ⟨h1, h2, h3⟩ := (initModel_ok_iff cs kw inst).mp h
    rw [← h1]; exact init_ok_fits cs kw h2 h3
  · intro hf
    exact ⟨kwFor [] cs inst, (initModel_ok_iff cs _ inst).mpr (init_builds_fields [] cs inst hnd hf)⟩

/-! ### the generated class, per schema source -/

theorem parseType_opt (sc : ScalarCfg) (kind : String → InputFields.TKind) (t : GT) :
    (parseType sc kind true t).opt = !t.nonNull := by
  cases t with
  | named n nn => cases nn <;> simp [parseType, NAnn.opt, GT.nonNull]
  | list it nn => cases nn <;> simp [parseType, NAnn.opt, GT.nonNull]

theorem classField_required (src : Source) (cfg : Cfg) (f : IField) :
    (classField src cfg f).required =
      (match src with
       | .sdl => f.default.isNone && f.type.nonNull
       | .intro => f.type.nonNull) := by
  cases src with
  | intro =>
    simp only [classField, classDefault, fieldDecl, parseType_opt]
    cases f.type.nonNull <;> simp
  | sdl =>
    simp only [classField, classDefault, fieldDecl, parseType_opt]
    cases hd : f.default with
    | none => cases f.type.nonNull <;> simp
    | some d => cases d <;> simp

theorem classField_fieldKey (src : Source) (cfg : Cfg) (f : IField) :
    (classField src cfg f).fieldKey = fieldKeyOf cfg f := rfl

theorem classField_ann (src : Source) (cfg : Cfg) (f : IField) :
    (classField src cfg f).ann = (fieldKeyOf cfg f).ann := rfl

/-- in the SDL source the class default is `Model.InputFields.defaultKind` (the form the
    correspondence of round 1 compared) -/
theorem classDefault_sdl (cfg : Cfg) (f : IField) :
    classDefault .sdl (classField .sdl cfg f).ann f.default f.type = InputFields.defaultKind f.default f.type := by
  simp only [classField, classDefault, InputFields.defaultKind, fieldDecl, parseType_opt]
  cases hd : f.default with
  | none => cases f.type.nonNull <;> simp
  | some d => cases d <;> simp

/-- names and aliases do not depend on the source -/
theorem lookupNames_src (src : Source) (cfg : Cfg) (fs : List IField) :
    lookupNamesOf (classFieldsOf src cfg fs) = lookupNamesOf (classFieldsOf .sdl cfg fs) := by
  induction fs with
  | nil => rfl
  | cons f fs ih =>
    simp only [lookupNamesOf, classFieldsOf, List.map_cons, List.flatMap_cons] at ih ⊢
    rw [ih]; rfl

theorem classNames_nodup (src : Source) (cfg : Cfg) (hc : ClassNamesClean cfg) (cls : String) :
    (lookupNamesOf (classFields src cfg cls)).Nodup := by
  simp only [classFields, Cfg.fieldsOf]
  cases hg : cfg.schema.get? cls with
  | none => simp [classFieldsOf, lookupNamesOf]
  | some ty =>
    cases ty with
    | input fs => rw [lookupNames_src]; exact hc cls fs hg
    | _ => simp [classFieldsOf, lookupNamesOf]

/-- a schema-valid instance fits the generated class exactly when it does not leave a lost default
    unset (for the SDL source: always) -/
theorem fits_of_hasFields (src : Source) (cfg : Cfg) (fs : List IField) (inst : List (FieldKey × AV))
    (h : hasFields cfg fs inst = true) :
    fitsClass (classFieldsOf src cfg fs) inst = !lostFields src fs inst := by
  induction fs generalizing inst with
  | nil => cases inst <;> simp [hasFields] at h; simp [classFieldsOf, fitsClass, lostFields]
  | cons f fs ih =>
    cases inst with
    | nil => simp [hasFields] at h
    | cons p rest =>
      obtain ⟨fk, v⟩ := p
      simp only [hasFields, Bool.and_eq_true, beq_iff_eq] at h
      obtain ⟨⟨hk, hv⟩, hrest⟩ := h
      have ih' := ih rest hrest
      simp only [classFieldsOf] at ih'
      simp only [classFieldsOf, List.map_cons, fitsClass, lostFields, ih', classField_fieldKey, hk, beq_self_eq_true, Bool.true_and]
      by_cases hu : v.isUnset = true
      · have hv' := isUnset_eq v hu
        subst hv'
        simp only [AV.isUnset, Bool.true_and, hasType_unset, Bool.false_and, Bool.or_false, Bool.or_eq_true,
          Option.isSome_iff_ne_none, Bool.not_eq_true'] at hv
        simp only [AV.isUnset, if_true, Bool.true_and, classField_required, lostField]
        cases src with
        | sdl =>
          have : (f.default.isNone && f.type.nonNull) = false := by
            rcases hv with hv | hv
            · cases hd : f.default with
              | none => exact absurd hd (by simpa using hv)
              | some d => simp
            · simp [hv]
          simp [this]
        | intro =>
          cases hn : f.type.nonNull with
          | false => simp
          | true =>
            have : f.default.isSome = true := by
              rcases hv with hv | hv
              · cases hd : f.default with
                | none => exact absurd hd (by simpa using hv)
                | some d => rfl
              · rw [hn] at hv; simp at hv
            simp [this]
      · have hu' : v.isUnset = false := by simpa using hu
        simp only [hu', Bool.false_and, Bool.false_or, Bool.and_eq_true] at hv
        have ha : accepts (classField src cfg f) v = true := by
          simp only [accepts, hu', Bool.not_false, Bool.true_and, classField_ann, ← hk]
          exact hv.2
        simp [hu', ha]

theorem lostFields_sdl (fs : List IField) (inst : List (FieldKey × AV)) : lostFields .sdl fs inst = false := by
  induction fs generalizing inst with
  | nil => cases inst <;> rfl
  | cons f fs ih =>
    cases inst with
    | nil => rfl
    | cons p rest => obtain ⟨fk, v⟩ := p; simp [lostFields, lostField, ih rest]

/-! ### the instances of a schema-valid value are schema-valid instances of their classes -/

mutual
theorem hasType_instances (cfg : Cfg) (t : GT) (v : AV) (ht : hasType cfg t v = true) :
    ∀ n ∈ instances v, hasFields cfg (cfg.fieldsOf n.1) n.2 = true := by
  cases v with
  | list xs =>
    cases t with
    | named n nn => simp [hasType] at ht
    | list it nn =>
      simp only [instances]
      exact hasTypeList_instances cfg it xs (by simpa [hasType] using ht)
  | model cls fields =>
    cases t with
    | list it nn => simp [hasType] at ht
    | named n nn =>
      simp only [hasType, Bool.and_eq_true, beq_iff_eq] at ht
      obtain ⟨hc, hm⟩ := ht
      subst hc
      cases hg : cfg.schema.get? cls with
      | none => simp [hg] at hm
      | some ty =>
        cases ty with
        | input fs =>
          simp only [hg] at hm
          intro nd hn
          simp only [instances, List.mem_cons] at hn
          rcases hn with hn | hn
          · subst hn
            simpa [Cfg.fieldsOf, hg] using hm
          · exact hasFields_instances cfg fs fields hm nd hn
        | scalar => simp [hg] at hm
        | enum vals => simp [hg] at hm
        | output => simp [hg] at hm
  | none => intro n hn; simp [instances] at hn
  | unset => intro n hn; simp [instances] at hn
  | bool b => intro n hn; simp [instances] at hn
  | int i => intro n hn; simp [instances] at hn
  | float m e => intro n hn; simp [instances] at hn
  | str s => intro n hn; simp [instances] at hn
  | enum m => intro n hn; simp [instances] at hn
  | custom sc j => intro n hn; simp [instances] at hn
theorem hasTypeList_instances (cfg : Cfg) (it : GT) (xs : List AV) (ht : hasTypeList cfg it xs = true) :
    ∀ n ∈ instancesList xs, hasFields cfg (cfg.fieldsOf n.1) n.2 = true := by
  cases xs with
  | nil => intro n hn; simp [instancesList] at hn
  | cons x xs =>
    simp only [hasTypeList, Bool.and_eq_true] at ht
    intro n hn
    simp only [instancesList, List.mem_append] at hn
    rcases hn with hn | hn
    · exact hasType_instances cfg it x ht.1 n hn
    · exact hasTypeList_instances cfg it xs ht.2 n hn
theorem hasFields_instances (cfg : Cfg) (fs : List IField) (fields : List (FieldKey × AV))
    (hf : hasFields cfg fs fields = true) :
    ∀ n ∈ instancesFields fields, hasFields cfg (cfg.fieldsOf n.1) n.2 = true := by
  cases fields with
  | nil => intro n hn; simp [instancesFields] at hn
  | cons p rest =>
    obtain ⟨fk, v⟩ := p
    cases fs with
    | nil => simp [hasFields] at hf
    | cons f fs =>
      simp only [hasFields, Bool.and_eq_true, Bool.or_eq_true] at hf
      obtain ⟨⟨_, hv⟩, hrest⟩ := hf
      intro n hn
      simp only [instancesFields, List.mem_append] at hn
      rcases hn with hn | hn
      · rcases hv with hv | hv
        · have := isUnset_eq v hv.1
          subst this
          simp [instances] at hn
        · exact hasType_instances cfg f.type v hv.1 n hn
      · exact hasFields_instances cfg fs rest hrest n hn
end

/-! ### constructibility of schema-valid values -/

/-- one instance: it can be obtained from the class generated from a `src` schema iff it does not
    leave a lost default unset -/
theorem node_constructible_iff (src : Source) (cfg : Cfg) (hc : ClassNamesClean cfg) (cls : String)
    (inst : List (FieldKey × AV)) (hf : hasFields cfg (cfg.fieldsOf cls) inst = true) :
    NodeConstructible src cfg (cls, inst) ↔ lostFields src (cfg.fieldsOf cls) inst = false := by
  simp only [NodeConstructible]
  rw [init_iff_fits _ _ (classNames_nodup src cfg hc cls)]
  simp only [classFields, fits_of_hasFields src cfg _ inst hf]
  cases lostFields src (cfg.fieldsOf cls) inst <;> simp

theorem constructible_iff (src : Source) (cfg : Cfg) (hc : ClassNamesClean cfg) (t : GT) (v : AV)
    (ht : hasType cfg t v = true) : Constructible src cfg v ↔ lostDefault src cfg v = false := by
  have hall := hasType_instances cfg t v ht
  simp only [Constructible, lostDefault, List.any_eq_false]
  constructor
  · intro h n hn
    have := (node_constructible_iff src cfg hc n.1 n.2 (hall n hn)).mp (h n hn)
    simp [this]
  · intro h n hn
    exact (node_constructible_iff src cfg hc n.1 n.2 (hall n hn)).mpr (by simpa using h n hn)

theorem constructible_unset (src : Source) (cfg : Cfg) : Constructible src cfg .unset := by
  intro n hn; simp [instances] at hn

theorem lostDefault_unset (src : Source) (cfg : Cfg) : lostDefault src cfg .unset = false := by
  simp [lostDefault, instances]

theorem args_constructible_iff (src : Source) (cfg : Cfg) (hc : ClassNamesClean cfg) (ds : List IField) (a : List AV)
    (ha : argsValid cfg ds a = true) : ConstructibleArgs src cfg a ↔ trigDefaultLostIntro src cfg a = false := by
  induction ds generalizing a with
  | nil =>
    cases a with
    | nil => simp [ConstructibleArgs, trigDefaultLostIntro]
    | cons v vs => simp [argsValid] at ha
  | cons d ds ih =>
    cases a with
    | nil => simp [argsValid] at ha
    | cons v vs =>
      simp only [argsValid, Bool.and_eq_true, Bool.or_eq_true] at ha
      have ih' := ih vs ha.2
      have hv : Constructible src cfg v ↔ lostDefault src cfg v = false := by
        rcases ha.1 with hu | ht
        · have := isUnset_eq v hu.1
          subst this
          simp [constructible_unset, lostDefault_unset]
        · exact constructible_iff src cfg hc d.type v ht
      simp only [ConstructibleArgs, trigDefaultLostIntro, List.mem_cons, forall_eq_or_imp, List.any_cons,
        Bool.or_eq_false_iff] at ih' ⊢
      rw [hv, ih']

theorem lostDefault_sdl (cfg : Cfg) (v : AV) : lostDefault .sdl cfg v = false := by
  simp [lostDefault, lostFields_sdl]

theorem trig_sdl (cfg : Cfg) (a : List AV) : trigDefaultLostIntro .sdl cfg a = false := by
  simp [trigDefaultLostIntro, lostDefault_sdl]

end Ariadne.ArgProofs
