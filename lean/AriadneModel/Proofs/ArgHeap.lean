/-
  Lemmas of C03 about sequences of calls over the caller's argument objects (Model/ArgHeap.lean):
  `_convert_value` never writes an object that existed before the call (frame), what it returns is the
  value-level conversion of what the argument denotes, and therefore every call of a program sends
  what its arguments denote at that moment.
-/
import AriadneModel.Model.ArgHeap

set_option linter.unusedSimpArgs false
set_option linter.unusedVariables false

namespace Ariadne.ArgHeap
open Ariadne Ariadne.Scalars Ariadne.ArgValues Ariadne.ArgSend Ariadne.Arguments
open Ariadne.BaseClient (PV convertValue convertList)

/-- `s'` extends `s`: every object of `s` is still there, unchanged -/
def Keeps (s s' : CStore) : Prop := s.length ≤ s'.length ∧ ∀ a, a < s.length → s'[a]? = s[a]?

theorem Keeps.refl (s : CStore) : Keeps s s := ⟨Nat.le_refl _, fun _ _ => rfl⟩

theorem Keeps.trans {s s1 s2 : CStore} (h1 : Keeps s s1) (h2 : Keeps s1 s2) : Keeps s s2 :=
  ⟨Nat.le_trans h1.1 h2.1, fun a ha => by rw [h2.2 a (Nat.lt_of_lt_of_le ha h1.1), h1.2 a ha]⟩

theorem Keeps.append (s t : CStore) : Keeps s (s ++ t) :=
  ⟨by simp, fun a ha => List.getElem?_append_left ha⟩

/-! ### frame: `_convert_value` writes no object that existed before -/

theorem convertItemsC_keeps (rec : CVal → CStore → Option (PVal × CStore))
    (hrec : ∀ v s r s', rec v s = some (r, s') → Keeps s s') :
    ∀ (xs : List CVal) (s : CStore) (ys : List PVal) (s' : CStore), convertItemsC rec xs s = some (ys, s') → Keeps s s' := by
  intro xs
  induction xs with
  | nil => intro s ys s' h; simp only [convertItemsC, Option.some.injEq, Prod.mk.injEq] at h; rw [← h.2]; exact Keeps.refl s
  | cons x xs ih =>
    intro s ys s' h
    simp only [convertItemsC] at h
    cases hx : rec x s with
    | none => simp [hx] at h
    | some p =>
      obtain ⟨y, s1⟩ := p
      rw [hx] at h
      cases hxs : convertItemsC rec xs s1 with
      | none => simp [hxs] at h
      | some q =>
        obtain ⟨ys', s2⟩ := q
        simp only [hxs, Option.some.injEq, Prod.mk.injEq] at h
        rw [← h.2]
        exact (hrec x s y s1 hx).trans (ih s1 ys' s2 hxs)

/-- every address that existed before `_convert_value` ran holds what it held (any aliasing, any depth) -/
theorem convertValueC_keeps (fns : UserFns) :
    ∀ (f : Nat) (v : CVal) (s : CStore) (r : PVal) (s' : CStore), convertValueC fns f v s = some (r, s') → Keeps s s' := by
  intro f
  induction f with
  | zero =>
    intro v s r s' h
    cases v with
    | imm x =>
      simp only [convertValueC, Option.map_eq_some_iff] at h
      obtain ⟨p, _, hp⟩ := h
      simp only [Prod.mk.injEq] at hp; rw [← hp.2]; exact Keeps.refl s
    | ref a => simp [convertValueC] at h
  | succ f ih =>
    intro v s r s' h
    cases v with
    | imm x =>
      simp only [convertValueC, Option.map_eq_some_iff] at h
      obtain ⟨p, _, hp⟩ := h
      simp only [Prod.mk.injEq] at hp; rw [← hp.2]; exact Keeps.refl s
    | ref a =>
      simp only [convertValueC] at h
      cases ha : s[a]? with
      | none => simp [ha] at h
      | some o =>
        rw [ha] at h
        cases o with
        | list xs =>
          simp only at h
          cases hc : convertItemsC (convertValueC fns f) xs s with
          | none => simp [hc] at h
          | some q =>
            obtain ⟨ys, s1⟩ := q
            simp only [hc, Option.some.injEq, Prod.mk.injEq] at h
            rw [← h.2]
            exact (convertItemsC_keeps _ (ih) xs s ys s1 hc).trans (Keeps.append s1 _)
        | inst cls fs =>
          simp only at h
          cases hd : derefFlds (derefC s f) fs with
          | none => simp [hd] at h
          | some flds =>
            simp only [hd] at h
            cases hdu : PydLog.dumpFields fns flds with
            | error e => simp [hdu] at h
            | ok q =>
              obtain ⟨kvs, cs⟩ := q
              simp only [hdu, Option.some.injEq, Prod.mk.injEq] at h
              rw [← h.2]; exact Keeps.refl s
        | plist xs => simp at h

theorem convertArgsC_keeps (fns : UserFns) (fuel : Nat) (args : List CVal) (s : CStore) (ys : List PVal) (s' : CStore)
    (h : convertArgsC fns fuel args s = some (ys, s')) : Keeps s s' :=
  convertItemsC_keeps _ (convertValueC_keeps fns fuel) args s ys s' h

/-! ### reading is stable under extension -/

theorem derefItems_mono {g g' : CVal → Option AV} (h : ∀ x av, g x = some av → g' x = some av) :
    ∀ (xs : List CVal) (l : List AV), derefItems g xs = some l → derefItems g' xs = some l := by
  intro xs
  induction xs with
  | nil => intro l hl; simpa [derefItems] using hl
  | cons x xs ih =>
    intro l hl
    simp only [derefItems] at hl ⊢
    cases hx : g x with
    | none => simp [hx] at hl
    | some v =>
      cases hxs : derefItems g xs with
      | none => simp [hx, hxs] at hl
      | some vs =>
        simp only [hx, hxs, Option.some.injEq] at hl
        simp [h x v hx, ih vs hxs, hl]

theorem derefFlds_mono {g g' : CVal → Option AV} (h : ∀ x av, g x = some av → g' x = some av) :
    ∀ (fs : List (FieldKey × CVal)) (l : List (FieldKey × AV)), derefFlds g fs = some l → derefFlds g' fs = some l := by
  intro fs
  induction fs with
  | nil => intro l hl; simpa [derefFlds] using hl
  | cons p fs ih =>
    obtain ⟨k, x⟩ := p
    intro l hl
    simp only [derefFlds] at hl ⊢
    cases hx : g x with
    | none => simp [hx] at hl
    | some v =>
      cases hxs : derefFlds g fs with
      | none => simp [hx, hxs] at hl
      | some vs =>
        simp only [hx, hxs, Option.some.injEq] at hl
        simp [h x v hx, ih vs hxs, hl]

theorem derefC_keeps (s s' : CStore) (hk : ∀ a, a < s.length → s'[a]? = s[a]?) :
    ∀ (f : Nat) (v : CVal) (av : AV), derefC s f v = some av → derefC s' f v = some av := by
  intro f
  induction f with
  | zero =>
    intro v av h
    cases v with
    | imm x => simpa [derefC] using h
    | ref a => simp [derefC] at h
  | succ f ih =>
    intro v av h
    cases v with
    | imm x => simpa [derefC] using h
    | ref a =>
      simp only [derefC] at h ⊢
      cases ha : s[a]? with
      | none => simp [ha] at h
      | some o =>
        have hlt : a < s.length := (List.getElem?_eq_some_iff.mp ha).1
        rw [hk a hlt, ha]
        rw [ha] at h
        cases o with
        | list xs =>
          simp only [Option.map_eq_some_iff] at h ⊢
          obtain ⟨l, hl, rfl⟩ := h
          exact ⟨l, derefItems_mono ih xs l hl, rfl⟩
        | inst cls fs =>
          simp only [Option.map_eq_some_iff] at h ⊢
          obtain ⟨l, hl, rfl⟩ := h
          exact ⟨l, derefFlds_mono ih fs l hl, rfl⟩
        | plist xs => simp at h

theorem derefPItems_mono {g g' : PVal → Option PV} (h : ∀ x pv, g x = some pv → g' x = some pv) :
    ∀ (xs : List PVal) (l : List PV), derefPItems g xs = some l → derefPItems g' xs = some l := by
  intro xs
  induction xs with
  | nil => intro l hl; simpa [derefPItems] using hl
  | cons x xs ih =>
    intro l hl
    simp only [derefPItems] at hl ⊢
    cases hx : g x with
    | none => simp [hx] at hl
    | some v =>
      cases hxs : derefPItems g xs with
      | none => simp [hx, hxs] at hl
      | some vs =>
        simp only [hx, hxs, Option.some.injEq] at hl
        simp [h x v hx, ih vs hxs, hl]

theorem derefP_keeps (s s' : CStore) (hk : ∀ a, a < s.length → s'[a]? = s[a]?) :
    ∀ (f : Nat) (v : PVal) (pv : PV), derefP s f v = some pv → derefP s' f v = some pv := by
  intro f
  induction f with
  | zero =>
    intro v pv h
    cases v with
    | imm x => simpa [derefP] using h
    | ref a => simp [derefP] at h
  | succ f ih =>
    intro v pv h
    cases v with
    | imm x => simpa [derefP] using h
    | ref a =>
      simp only [derefP] at h ⊢
      cases ha : s[a]? with
      | none => simp [ha] at h
      | some o =>
        have hlt : a < s.length := (List.getElem?_eq_some_iff.mp ha).1
        rw [hk a hlt, ha]
        rw [ha] at h
        cases o with
        | plist xs =>
          simp only [Option.map_eq_some_iff] at h ⊢
          obtain ⟨l, hl, rfl⟩ := h
          exact ⟨l, derefPItems_mono ih xs l hl, rfl⟩
        | list xs => simp at h
        | inst cls fs => simp at h

/-! ### what `_convert_value` returns: the value-level conversion of what the argument denotes -/

theorem objsOf_cons_ok {fns : UserFns} {x : AV} {xs : List AV} {os : List PV} {c : List Call}
    (h : objsOf fns (x :: xs) = .ok (os, c)) :
    ∃ o c1 os' c2, objOf fns x = .ok (o, c1) ∧ objsOf fns xs = .ok (os', c2) ∧ os = o :: os' := by
  simp only [objsOf] at h
  cases hx : objOf fns x with
  | error e => simp [hx] at h
  | ok p =>
    obtain ⟨o, c1⟩ := p
    cases hxs : objsOf fns xs with
    | error e => simp [hx, hxs] at h
    | ok q =>
      obtain ⟨os', c2⟩ := q
      simp only [hx, hxs, Except.ok.injEq, Prod.mk.injEq] at h
      exact ⟨o, c1, os', c2, rfl, rfl, h.1.symm⟩

theorem derefItems_cons_some {g : CVal → Option AV} {x : CVal} {xs : List CVal} {l : List AV}
    (h : derefItems g (x :: xs) = some l) : ∃ v vs, g x = some v ∧ derefItems g xs = some vs ∧ l = v :: vs := by
  simp only [derefItems] at h
  cases hx : g x with
  | none => simp [hx] at h
  | some v =>
    cases hxs : derefItems g xs with
    | none => simp [hx, hxs] at h
    | some vs =>
      simp only [hx, hxs, Option.some.injEq] at h
      exact ⟨v, vs, rfl, rfl, h.symm⟩

/-- for trees of depth ≤ `f`: the conversion succeeds, extends the store, and its result denotes
    `convertValue` of the Python object the argument denotes -/
def ConvSpec (fns : UserFns) (f : Nat) : Prop :=
  ∀ (v : CVal) (s : CStore) (av : AV) (o : PV) (c : List Call), derefC s f v = some av → objOf fns av = .ok (o, c) →
    ∃ r s', convertValueC fns f v s = some (r, s') ∧ Keeps s s' ∧ derefP s' f r = some (convertValue o)

theorem convertItemsC_spec (fns : UserFns) (f : Nat) (ih : ConvSpec fns f) :
    ∀ (xs : List CVal) (s : CStore) (avs : List AV) (os : List PV) (c : List Call),
      derefItems (derefC s f) xs = some avs → objsOf fns avs = .ok (os, c) →
      ∃ ys s', convertItemsC (convertValueC fns f) xs s = some (ys, s') ∧ Keeps s s' ∧
        derefPItems (derefP s' f) ys = some (convertList os) := by
  intro xs
  induction xs with
  | nil =>
    intro s avs os c h ho
    simp only [derefItems, Option.some.injEq] at h; subst h
    simp only [objsOf, Except.ok.injEq, Prod.mk.injEq] at ho
    obtain ⟨rfl, _⟩ := ho
    exact ⟨[], s, rfl, Keeps.refl s, by simp [derefPItems, convertList]⟩
  | cons x xs ihx =>
    intro s avs os c h ho
    obtain ⟨av, avs', hx, hxs, rfl⟩ := derefItems_cons_some h
    obtain ⟨o, c1, os', c2, ho1, ho2, rfl⟩ := objsOf_cons_ok ho
    obtain ⟨r, s1, hr, hk1, hd1⟩ := ih x s av o c1 hx ho1
    have hxs1 : derefItems (derefC s1 f) xs = some avs' := derefItems_mono (derefC_keeps s s1 hk1.2 f) xs avs' hxs
    obtain ⟨ys, s2, hys, hk2, hd2⟩ := ihx s1 avs' os' c2 hxs1 ho2
    refine ⟨r :: ys, s2, by simp [convertItemsC, hr, hys], hk1.trans hk2, ?_⟩
    simp [derefPItems, convertList, derefP_keeps s1 s2 hk2.2 f r _ hd1, hd2]

theorem convertValueC_spec (fns : UserFns) : ∀ f, ConvSpec fns f := by
  intro f
  induction f with
  | zero =>
    intro v s av o c h ho
    cases v with
    | imm x =>
      simp only [derefC, Option.some.injEq] at h; subst h
      exact ⟨.imm (convertValue o), s, by simp [convertValueC, convertImm, ho], Keeps.refl s, rfl⟩
    | ref a => simp [derefC] at h
  | succ f ih =>
    intro v s av o c h ho
    cases v with
    | imm x =>
      simp only [derefC, Option.some.injEq] at h; subst h
      exact ⟨.imm (convertValue o), s, by simp [convertValueC, convertImm, ho], Keeps.refl s, rfl⟩
    | ref a =>
      simp only [derefC] at h
      cases ha : s[a]? with
      | none => simp [ha] at h
      | some ob =>
        rw [ha] at h
        cases ob with
        | list xs =>
          simp only [Option.map_eq_some_iff] at h
          obtain ⟨l, hl, rfl⟩ := h
          simp only [objOf] at ho
          cases hos : objsOf fns l with
          | error e => simp [hos] at ho
          | ok q =>
            obtain ⟨os, c'⟩ := q
            simp only [hos, Except.ok.injEq, Prod.mk.injEq] at ho
            obtain ⟨rfl, _⟩ := ho
            obtain ⟨ys, s1, hys, hk1, hd1⟩ := convertItemsC_spec fns f ih xs s l os c' hl hos
            refine ⟨.ref s1.length, s1 ++ [.plist ys], by simp [convertValueC, ha, hys], hk1.trans (Keeps.append s1 _), ?_⟩
            simp only [derefP, List.getElem?_concat_length, convertValue, Option.map_eq_some_iff]
            exact ⟨_, derefPItems_mono (derefP_keeps s1 _ (Keeps.append s1 _).2 f) ys _ hd1, rfl⟩
        | inst cls fs =>
          simp only [Option.map_eq_some_iff] at h
          obtain ⟨flds, hl, rfl⟩ := h
          simp only [objOf] at ho
          cases hdu : PydLog.dumpFields fns flds with
          | error e => simp [hdu] at ho
          | ok q =>
            obtain ⟨kvs, cs⟩ := q
            simp only [hdu, Except.ok.injEq, Prod.mk.injEq] at ho
            obtain ⟨rfl, _⟩ := ho
            exact ⟨.imm (.dict kvs), s, by simp [convertValueC, ha, hl, hdu], Keeps.refl s, by simp [derefP, convertValue]⟩
        | plist xs => simp at h

/-! ### programs: a call sees what the caller's statements made, nothing else -/

/-- `real` holds every object of `ideal` unchanged (and possibly lists the client built) -/
def Inv (ideal real : CStore) : Prop := Keeps ideal real

theorem updAt_inv (a : Nat) (g : CObj → Option CObj) (ideal real : CStore) (h : Inv ideal real) :
    Inv (updAt a g ideal) (updAt a g real) := by
  obtain ⟨hl, hk⟩ := h
  by_cases ha : a < ideal.length
  · have hr : real[a]? = ideal[a]? := hk a ha
    obtain ⟨o, ho⟩ : ∃ o, ideal[a]? = some o := ⟨ideal[a], List.getElem?_eq_getElem ha⟩
    simp only [updAt, hr, ho]
    cases hg : g o with
    | none => exact ⟨hl, hk⟩
    | some o' =>
      refine ⟨by simpa using hl, ?_⟩
      intro b hb
      simp only [List.length_set] at hb
      by_cases hab : a = b
      · subst hab
        rw [List.getElem?_set_self (Nat.lt_of_lt_of_le ha hl), List.getElem?_set_self ha]
      · rw [List.getElem?_set_ne hab, List.getElem?_set_ne hab]; exact hk b hb
  · have hn : ideal[a]? = none := List.getElem?_eq_none (Nat.le_of_not_lt ha)
    have hid : updAt a g ideal = ideal := by simp [updAt, hn]
    rw [hid]
    cases hra : real[a]? with
    | none => simp only [updAt, hra]; exact ⟨hl, hk⟩
    | some o =>
      cases hg : g o with
      | none => simp only [updAt, hra, hg]; exact ⟨hl, hk⟩
      | some o' =>
        simp only [updAt, hra, hg]
        refine ⟨by simpa using hl, ?_⟩
        intro b hb
        have hab : a ≠ b := fun e => ha (e ▸ hb)
        rw [List.getElem?_set_ne hab]; exact hk b hb

theorem applyCaller_inv (st : Step) (ideal real : CStore) (h : Inv ideal real) :
    Inv (applyCaller st ideal) (applyCaller st real) := by
  simp only [applyCaller]
  cases stepUpd st with
  | none => exact h
  | some p => obtain ⟨a, g⟩ := p; exact updAt_inv a g ideal real h

theorem requestOf_inv (env : Arguments.Env) (fns : UserFns) (async : Bool) (fuel : Nat) (ideal real : CStore) (c : CallStep)
    (h : Inv ideal real) (hs : (requestOf env fns async fuel ideal c).isSome = true) :
    requestOf env fns async fuel real c = requestOf env fns async fuel ideal c := by
  simp only [requestOf, derefArgs] at hs ⊢
  cases hd : derefItems (derefC ideal fuel) c.args with
  | none => simp [hd] at hs
  | some avs => rw [derefItems_mono (derefC_keeps ideal real h.2 fuel) c.args avs hd]

theorem storeAfter_ideal (c : CallStep) (s : CStore) : storeAfter (fun _ s => some (PVal.imm PV.none, s)) c s = s := by
  have : ∀ (xs : List CVal) (s : CStore), ∃ ys, convertItemsC (fun _ s => some (PVal.imm PV.none, s)) xs s = some (ys, s) := by
    intro xs
    induction xs with
    | nil => intro s; exact ⟨[], rfl⟩
    | cons x xs ih => intro s; obtain ⟨ys, h⟩ := ih s; exact ⟨PVal.imm PV.none :: ys, by simp [convertItemsC, h]⟩
  obtain ⟨ys, h⟩ := this c.args s
  simp [storeAfter, h]

theorem storeAfter_keeps (conv : CVal → CStore → Option (PVal × CStore))
    (hconv : ∀ v s r s', conv v s = some (r, s') → Keeps s s') (c : CallStep) (s : CStore) : Keeps s (storeAfter conv c s) := by
  simp only [storeAfter]
  cases h : convertItemsC conv c.args s with
  | none => exact Keeps.refl s
  | some p => obtain ⟨ys, s'⟩ := p; exact convertItemsC_keeps conv hconv c.args s ys s' h

/-- ANY conversion that has the frame property runs every program like the ideal client -/
theorem runWith_eq_ideal (conv : CVal → CStore → Option (PVal × CStore))
    (hconv : ∀ v s r s', conv v s = some (r, s') → Keeps s s')
    (env : Arguments.Env) (fns : UserFns) (async : Bool) (fuel : Nat) :
    ∀ (steps : List Step) (ideal real : CStore), Inv ideal real →
      (∀ r ∈ runIdeal env fns async fuel ideal steps, r.isSome = true) →
      runWith conv env fns async fuel real steps = runIdeal env fns async fuel ideal steps := by
  intro steps
  induction steps with
  | nil => intro ideal real _ _; simp [runWith, runIdeal]
  | cons st rest ih =>
    intro ideal real hinv hall
    cases st with
    | call c =>
      simp only [runIdeal, runWith, storeAfter_ideal] at hall ⊢
      have hreq := requestOf_inv env fns async fuel ideal real c hinv (hall _ (by simp))
      rw [hreq]
      congr 1
      exact ih ideal (storeAfter conv c real) (Keeps.trans hinv (storeAfter_keeps conv hconv c real))
        (fun r hr => hall r (List.mem_cons_of_mem _ hr))
    | setField a i v =>
      simp only [runIdeal, runWith] at hall ⊢
      exact ih _ _ (applyCaller_inv _ ideal real hinv) hall
    | setItem a i v =>
      simp only [runIdeal, runWith] at hall ⊢
      exact ih _ _ (applyCaller_inv _ ideal real hinv) hall
    | append a v =>
      simp only [runIdeal, runWith] at hall ⊢
      exact ih _ _ (applyCaller_inv _ ideal real hinv) hall

/-- … and leaves the caller's objects exactly as the caller's own statements made them -/
theorem storeWith_inv (conv : CVal → CStore → Option (PVal × CStore))
    (hconv : ∀ v s r s', conv v s = some (r, s') → Keeps s s') :
    ∀ (steps : List Step) (ideal real : CStore), Inv ideal real → Inv (callerStore ideal steps) (storeWith conv real steps) := by
  intro steps
  induction steps with
  | nil => intro ideal real h; simpa [callerStore, storeWith] using h
  | cons st rest ih =>
    intro ideal real hinv
    cases st with
    | call c =>
      simp only [callerStore, storeWith, storeAfter_ideal]
      exact ih ideal (storeAfter conv c real) (Keeps.trans hinv (storeAfter_keeps conv hconv c real))
    | setField a i v => simp only [callerStore, storeWith]; exact ih _ _ (applyCaller_inv _ ideal real hinv)
    | setItem a i v => simp only [callerStore, storeWith]; exact ih _ _ (applyCaller_inv _ ideal real hinv)
    | append a v => simp only [callerStore, storeWith]; exact ih _ _ (applyCaller_inv _ ideal real hinv)

/-- the base client of /repo: every call of every program sends what its arguments denote at that moment -/
theorem runC_eq_ideal (env : Arguments.Env) (fns : UserFns) (async : Bool) (fuel : Nat) (s : CStore) (steps : List Step)
    (hall : ∀ r ∈ runIdeal env fns async fuel s steps, r.isSome = true) :
    runC env fns async fuel s steps = runIdeal env fns async fuel s steps :=
  runWith_eq_ideal (convertValueC fns fuel) (convertValueC_keeps fns fuel) env fns async fuel steps s s (Keeps.refl s) hall

end Ariadne.ArgHeap
