/-
  Proofs/C08Resolve.lean — what `_resolve_selection_set` (`ResultTypes.resolve`) does to the mixin set:
  the mixin-vs-unpack decision behind property C08.  Core Lean only.
-/
import AriadneModel.Proofs.C08Monad

set_option linter.unusedSimpArgs false
set_option linter.unusedVariables false

namespace Ariadne.ResultTypes
open Ariadne Ariadne.Gql Ariadne.Util

/-! ### first-seen-order sets -/

theorem mem_setAdd (s : List String) (x a : String) : a ∈ setAdd s x ↔ a ∈ s ∨ a = x := by
  unfold setAdd
  split
  · rename_i h
    constructor
    · exact Or.inl
    · rintro (h' | rfl)
      · exact h'
      · simpa using h
  · simp

theorem mem_setUnion (t : List String) : ∀ (s : List String) (a : String), a ∈ setUnion s t ↔ a ∈ s ∨ a ∈ t := by
  induction t with
  | nil => intro s a; simp [setUnion]
  | cons x xs ih =>
    intro s a
    have : setUnion s (x :: xs) = setUnion (setAdd s x) xs := rfl
    rw [this, ih, mem_setAdd]
    simp only [List.mem_cons]
    constructor
    · rintro ((h | h) | h)
      · exact Or.inl h
      · exact Or.inr (Or.inl h)
      · exact Or.inr (Or.inr h)
    · rintro (h | h | h)
      · exact Or.inl (Or.inl h)
      · exact Or.inl (Or.inr h)
      · exact Or.inr h

/-! ### the loop of `_resolve_selection_set`, one iteration -/

abbrev Acc := List RField × List String

/-- one iteration of `for selection in selection_set.selections` (the body of `resolve`, named) -/
def resolveBody (env : Env) (fuel : Nat) (root : String) (s : Selection) (acc : Acc) : M (ForInStep Acc) :=
  match s with
  | .field alias name dirs sid sub => pure (.yield (acc.1 ++ [⟨alias, name, dirs, sid, sub⟩], acc.2))
  | .spread n _ =>
    match findFragment? env.frags n with
    | none => err (.internal "KeyError")
    | some f =>
      if (env.schema.get? root).isNone then err (.internal "KeyError")
      else if (env.schema.get? f.on).isNone then err (.internal "KeyError")
      else if !unpackFragment env f (some root) then pure (.yield (acc.1, setAdd acc.2 n))
      else if f.on == root || (env.schema.isAbstract f.on && env.schema.isSubType f.on root) then do
        modify fun st => { st with unpacked := setAdd st.unpacked n }
        let x ← resolve env fuel f.sel root
        pure (.yield (acc.1 ++ x.1, setUnion acc.2 x.2))
      else do
        modify fun st => { st with dropped := st.dropped ++ [(f.on, root)] }
        pure (.yield (acc.1, acc.2))
  | .inline on _ _ sub =>
    match on with
    | none => err (.internal "AttributeError")
    | some cond =>
      match inlineFragmentRootType env cond root with
      | some rt => do
        let x ← resolve env fuel sub rt
        pure (.yield (acc.1 ++ x.1, setUnion acc.2 x.2))
      | none => do
        modify fun st => { st with dropped := st.dropped ++ [(cond, root)] }
        pure (.yield (acc.1, acc.2))

/-- `resolve` is that loop followed by `self._fragments_used_as_mixins |= fragments` -/
theorem resolve_succ (env : Env) (fuel : Nat) (sels : List Selection) (root : String) :
    resolve env (fuel + 1) sels root =
      (forIn sels (([], []) : Acc) (resolveBody env fuel root) >>= fun acc => do
        modify fun st => { st with mixins := setUnion st.mixins acc.2 }
        pure (acc.1, acc.2)) := rfl

theorem resolve_zero (env : Env) (sels : List Selection) (root : String) : resolve env 0 sels root = err .fuel := rfl

/-! ### specification -/

/-- a fragment that may be inherited: it exists and `FragmentsGenerator` produces a class for it
    (`_unpack_fragment(fragment_def)` without root type is false) -/
def GoodMixin (env : Env) (n : String) : Prop :=
  ∃ f, findFragment? env.frags n = some f ∧ unpackFragment env f none = false

/-- the parts of the generator state `resolve` never touches -/
structure Frame (st st' : St) : Prop where
  publicNames : st'.publicNames = st.publicNames
  usedEnums : st'.usedEnums = st.usedEnums
  usedScalars : st'.usedScalars = st.usedScalars
  mixinImports : st'.mixinImports = st.mixinImports
  marks : st'.marks = st.marks

theorem Frame.refl (st : St) : Frame st st := ⟨rfl, rfl, rfl, rfl, rfl⟩

theorem Frame.trans {a b c : St} (h₁ : Frame a b) (h₂ : Frame b c) : Frame a c :=
  ⟨h₂.publicNames.trans h₁.publicNames, h₂.usedEnums.trans h₁.usedEnums, h₂.usedScalars.trans h₁.usedScalars,
   h₂.mixinImports.trans h₁.mixinImports, h₂.marks.trans h₁.marks⟩

/-- what a successful `resolve` guarantees -/
structure RSpec (env : Env) (st : St) (r : Acc) (st' : St) : Prop where
  frame : Frame st st'
  good : ∀ n ∈ r.2, GoodMixin env n
  mixins : ∀ n, n ∈ st'.mixins ↔ n ∈ st.mixins ∨ n ∈ r.2

theorem unpack_none_of_root {env : Env} {f : Fragment} {root : String}
    (h : unpackFragment env f (some root) = false) : unpackFragment env f none = false := by
  unfold unpackFragment at h ⊢
  simp only [Bool.or_eq_false_iff] at h ⊢
  exact ⟨⟨h.1.1, by simp⟩, h.2⟩

/-- what one successful iteration does -/
structure StepSpec (env : Env) (b : Acc) (s : St) (b1 : Acc) (s' : St) : Prop where
  frame : Frame s s'
  keep : ∀ n ∈ b.2, n ∈ b1.2
  good : ∀ n ∈ b1.2, n ∈ b.2 ∨ GoodMixin env n
  mixinsNew : ∀ n ∈ s'.mixins, n ∈ s.mixins ∨ n ∈ b1.2
  mixinsKeep : ∀ n ∈ s.mixins, n ∈ s'.mixins

theorem resolveBody_ok (env : Env) (fuel : Nat)
    (ih : ∀ sels root st r st', resolve env fuel sels root st = .ok (r, st') → RSpec env st r st')
    (root : String) (a : Selection) (b : Acc) (s : St) (r : ForInStep Acc) (s' : St)
    (h : resolveBody env fuel root a b s = .ok (r, s')) :
    ∃ b1, r = .yield b1 ∧ StepSpec env b s b1 s' := by
  cases a with
  | field alias name dirs sid sub =>
    simp only [resolveBody] at h
    obtain ⟨rfl, rfl⟩ := (ok_pure _ _ _ _).mp h
    exact ⟨_, rfl, ⟨Frame.refl _, fun n hn => hn, fun n hn => Or.inl hn, fun n hn => Or.inl hn, fun n hn => hn⟩⟩
  | spread n d =>
    cases hf : findFragment? env.frags n with
    | none =>
      simp only [resolveBody, hf] at h
      exact ((ok_err _ _ _).mp h).elim
    | some f =>
      simp only [resolveBody, hf] at h
      split at h
      · exact ((ok_err _ _ _).mp h).elim
      split at h
      · exact ((ok_err _ _ _).mp h).elim
      split at h
      · rename_i _ _ hun
        obtain ⟨rfl, rfl⟩ := (ok_pure _ _ _ _).mp h
        have hun' : unpackFragment env f (some root) = false := by simpa using hun
        refine ⟨_, rfl, ⟨Frame.refl _, fun m hm => (mem_setAdd _ _ _).mpr (Or.inl hm), ?_, fun m hm => Or.inl hm, fun m hm => hm⟩⟩
        intro m hm
        rcases (mem_setAdd _ _ _).mp hm with hm | rfl
        · exact Or.inl hm
        · exact Or.inr ⟨f, hf, unpack_none_of_root hun'⟩
      split at h
      · obtain ⟨u, s1, h1, h2⟩ := (ok_bind _ _ _ _ _).mp h
        have hs1 := (ok_modify _ _ _ _).mp h1
        obtain ⟨x, s2, h3, h4⟩ := (ok_bind _ _ _ _ _).mp h2
        obtain ⟨rfl, rfl⟩ := (ok_pure _ _ _ _).mp h4
        have sp := ih _ _ _ _ _ h3
        subst hs1
        refine ⟨_, rfl, ⟨⟨sp.frame.publicNames, sp.frame.usedEnums, sp.frame.usedScalars, sp.frame.mixinImports, sp.frame.marks⟩,
          fun m hm => (mem_setUnion _ _ _).mpr (Or.inl hm), ?_, ?_, ?_⟩⟩
        · intro m hm
          rcases (mem_setUnion _ _ _).mp hm with hm | hm
          · exact Or.inl hm
          · exact Or.inr (sp.good m hm)
        · intro m hm
          rcases (sp.mixins m).mp hm with hm | hm
          · exact Or.inl hm
          · exact Or.inr ((mem_setUnion _ _ _).mpr (Or.inr hm))
        · intro m hm
          exact (sp.mixins m).mpr (Or.inl hm)
      · obtain ⟨u, s1, h1, h2⟩ := (ok_bind _ _ _ _ _).mp h
        have hs1 := (ok_modify _ _ _ _).mp h1
        obtain ⟨rfl, rfl⟩ := (ok_pure _ _ _ _).mp h2
        subst hs1
        exact ⟨_, rfl, ⟨⟨rfl, rfl, rfl, rfl, rfl⟩, fun m hm => hm, fun m hm => Or.inl hm, fun m hm => Or.inl hm, fun m hm => hm⟩⟩
  | inline on d sid sub =>
    cases on with
    | none =>
      simp only [resolveBody] at h
      exact ((ok_err _ _ _).mp h).elim
    | some cond =>
      cases hrt : inlineFragmentRootType env cond root with
      | some rt =>
        simp only [resolveBody, hrt] at h
        obtain ⟨x, s2, h3, h4⟩ := (ok_bind _ _ _ _ _).mp h
        obtain ⟨rfl, rfl⟩ := (ok_pure _ _ _ _).mp h4
        have sp := ih _ _ _ _ _ h3
        refine ⟨_, rfl, ⟨sp.frame, fun m hm => (mem_setUnion _ _ _).mpr (Or.inl hm), ?_, ?_, ?_⟩⟩
        · intro m hm
          rcases (mem_setUnion _ _ _).mp hm with hm | hm
          · exact Or.inl hm
          · exact Or.inr (sp.good m hm)
        · intro m hm
          rcases (sp.mixins m).mp hm with hm | hm
          · exact Or.inl hm
          · exact Or.inr ((mem_setUnion _ _ _).mpr (Or.inr hm))
        · intro m hm
          exact (sp.mixins m).mpr (Or.inl hm)
      | none =>
        simp only [resolveBody, hrt] at h
        obtain ⟨u, s1, h1, h2⟩ := (ok_bind _ _ _ _ _).mp h
        have hs1 := (ok_modify _ _ _ _).mp h1
        obtain ⟨rfl, rfl⟩ := (ok_pure _ _ _ _).mp h2
        subst hs1
        exact ⟨_, rfl, ⟨⟨rfl, rfl, rfl, rfl, rfl⟩, fun m hm => hm, fun m hm => Or.inl hm, fun m hm => Or.inl hm, fun m hm => hm⟩⟩

/-- **specification of `_resolve_selection_set`** (any fuel, any state): only fragments that get a
    class of their own are returned as mixins, and `_fragments_used_as_mixins` grows by exactly them -/
theorem resolve_spec (env : Env) : ∀ (fuel : Nat) (sels : List Selection) (root : String) (st : St) (r : Acc) (st' : St),
    resolve env fuel sels root st = .ok (r, st') → RSpec env st r st'
  | 0, sels, root, st, r, st', h => by
    rw [resolve_zero] at h
    exact ((ok_err _ _ _).mp h).elim
  | fuel + 1, sels, root, st, r, st', h => by
    rw [resolve_succ] at h
    obtain ⟨acc, s1, h1, h2⟩ := (ok_bind _ _ _ _ _).mp h
    obtain ⟨u, s2, h3, h4⟩ := (ok_bind _ _ _ _ _).mp h2
    have hs2 := (ok_modify _ _ _ _).mp h3
    obtain ⟨rfl, rfl⟩ := (ok_pure _ _ _ _).mp h4
    subst hs2
    -- loop invariant
    have inv := forIn_ok_inv
      (fun (b : Acc) (s : St) => Frame st s ∧ (∀ n ∈ b.2, GoodMixin env n) ∧ (∀ n ∈ s.mixins, n ∈ st.mixins ∨ n ∈ b.2)
        ∧ (∀ n ∈ st.mixins, n ∈ s.mixins))
      (resolveBody env fuel root) sels ([], []) st acc s1
      (by
        intro a _ b s r s' ⟨hf, hg, hm, hk⟩ hr
        obtain ⟨b1, rfl, sp⟩ := resolveBody_ok env fuel (resolve_spec env fuel) root a b s r s' hr
        refine ⟨hf.trans sp.frame, ?_, ?_, fun n hn => sp.mixinsKeep n (hk n hn)⟩
        · intro n hn
          rcases sp.good n hn with h | h
          · exact hg n h
          · exact h
        · intro n hn
          rcases sp.mixinsNew n hn with h | h
          · rcases hm n h with h | h
            · exact Or.inl h
            · exact Or.inr (sp.keep n h)
          · exact Or.inr h)
      ⟨Frame.refl _, ⟨fun n hn => absurd hn (List.not_mem_nil), fun n hn => Or.inl hn, fun n hn => hn⟩⟩ h1
    obtain ⟨hf, hg, hm, hk⟩ := inv
    refine ⟨⟨hf.publicNames, hf.usedEnums, hf.usedScalars, hf.mixinImports, hf.marks⟩, hg, ?_⟩
    intro n
    show n ∈ setUnion s1.mixins acc.2 ↔ _
    rw [mem_setUnion]
    constructor
    · rintro (h | h)
      · exact hm n h
      · exact Or.inr h
    · rintro (h | h)
      · exact Or.inl (hk n h)
      · exact Or.inr h

/-- **the mixin criterion on `_resolve_selection_set`**: a direct spread of a fragment that is not
    unpacked for this root type is returned among the fragments to inherit from -/
theorem resolve_spread_mem (env : Env) (fuel : Nat) (sels : List Selection) (root : String) (st : St) (r : Acc) (st' : St)
    (n : String) (dirs : List Directive) (f : Fragment)
    (hmem : Selection.spread n dirs ∈ sels) (hf : findFragment? env.frags n = some f)
    (hun : unpackFragment env f (some root) = false)
    (h : resolve env fuel sels root st = .ok (r, st')) : n ∈ r.2 ∧ n ∈ st'.mixins := by
  have sp := resolve_spec env fuel sels root st r st' h
  suffices n ∈ r.2 from ⟨this, (sp.mixins n).mpr (Or.inr this)⟩
  cases fuel with
  | zero =>
    rw [resolve_zero] at h
    exact ((ok_err _ _ _).mp h).elim
  | succ fuel =>
    rw [resolve_succ] at h
    obtain ⟨acc, s1, h1, h2⟩ := (ok_bind _ _ _ _ _).mp h
    obtain ⟨u, s2, h3, h4⟩ := (ok_bind _ _ _ _ _).mp h2
    obtain ⟨rfl, rfl⟩ := (ok_pure _ _ _ _).mp h4
    refine forIn_ok_est (fun (b : Acc) => n ∈ b.2) (resolveBody env fuel root) (Selection.spread n dirs) sels ([], []) st acc s1 hmem ?_ ?_ h1
    · intro a _ b s r s' hr
      obtain ⟨b1, rfl, sp1⟩ := resolveBody_ok env fuel (resolve_spec env fuel) root a b s r s' hr
      exact ⟨b1, rfl, sp1.keep n⟩
    · intro b s r s' hr
      simp only [resolveBody, hf] at hr
      split at hr
      · exact ((ok_err _ _ _).mp hr).elim
      split at hr
      · exact ((ok_err _ _ _).mp hr).elim
      simp only [hun, Bool.not_false, if_true] at hr
      obtain ⟨rfl, rfl⟩ := (ok_pure _ _ _ _).mp hr
      exact (mem_setAdd _ _ _).mpr (Or.inr rfl)

end Ariadne.ResultTypes
