/-
  Proofs/C08NoKeyError.lean — outside the trigger of finding C08-F1 `FragmentsGenerator.generate` never dies
  with `KeyError`: every dependency of a generated fragment is itself generated, so `dependencies_dict[dep]`,
  `fragments_definitions[name]` and `class_defs_dict[name]` all find their key.  Core Lean only.
-/
import AriadneModel.Proofs.C08Package

set_option linter.unusedSimpArgs false
set_option linter.unusedVariables false

namespace Ariadne.Order

/-- the dict has an entry for every name it is asked for from `n` on -/
def HasKey (d : Deps) (n : Name) : Prop := ∃ ds, lookup d n = some ds

section
variable (ord : List Name → List Name) (d : Deps)

theorem fold_no_keyError (fuel : Nat)
    (step : ∀ x st k, HasKey d x → visit ord d fuel x st ≠ .error (.keyError k)) :
    ∀ (l : List Name) (st : St) (k : Name),
      (∀ x ∈ l, HasKey d x) → l.foldlM (fun s x => visit ord d fuel x s) st ≠ .error (.keyError k)
  | [], st, k, _ => by
    intro h
    simp [List.foldlM, pure, Except.pure] at h
  | a :: l, st, k, hall => by
    rw [List.foldlM_cons]
    cases hv : visit ord d fuel a st with
    | error err =>
      intro h
      have : err = .keyError k := by simpa [bind, Except.bind] using h
      subst this
      exact step a st k (hall a List.mem_cons_self) hv
    | ok st1 =>
      show l.foldlM (fun s x => visit ord d fuel x s) st1 ≠ _
      exact fold_no_keyError fuel step l st1 k (fun x hx => hall x (List.mem_cons_of_mem _ hx))

theorem visit_no_keyError (hclosed : ∀ n ds, lookup d n = some ds → ∀ x ∈ ord ds, HasKey d x) :
    ∀ (fuel : Nat) (n : Name) (st : St) (k : Name), HasKey d n → visit ord d fuel n st ≠ .error (.keyError k)
  | 0, n, st, k, _ => by
    unfold visit
    split
    · intro h; cases h
    · intro h; cases h
  | fuel + 1, n, st, k, ⟨ds, hds⟩ => by
    unfold visit
    split
    · intro h; cases h
    · simp only [hds]
      intro h
      cases hf : (ord ds).foldlM (fun s x => visit ord d fuel x s) { st with visited := n :: st.visited } with
      | ok st2 => rw [hf] at h; simp [bind, Except.bind, pure, Except.pure] at h
      | error err =>
        rw [hf] at h
        have herr : err = .keyError k := by simpa [bind, Except.bind] using h
        subst herr
        exact fold_no_keyError ord d fuel (visit_no_keyError hclosed fuel) (ord ds) _ k (fun x hx => hclosed n ds hds x hx) hf

theorem fold_out_keys (fuel : Nat)
    (step : ∀ x st st', visit ord d fuel x st = .ok st' → (∀ y ∈ st.out, HasKey d y) → ∀ y ∈ st'.out, HasKey d y) :
    ∀ (l : List Name) (st st' : St),
      l.foldlM (fun s x => visit ord d fuel x s) st = .ok st' → (∀ x ∈ st.out, HasKey d x) → ∀ x ∈ st'.out, HasKey d x
  | [], st, st', h, hk => by
    have : st = st' := by simpa [List.foldlM, pure, Except.pure] using h
    subst this; exact hk
  | a :: l, st, st', h, hk => by
    rw [List.foldlM_cons] at h
    cases hv : visit ord d fuel a st with
    | error err => rw [hv] at h; simp [bind, Except.bind] at h
    | ok st1 =>
      rw [hv] at h
      exact fold_out_keys fuel step l st1 st' h (step a st st1 hv hk)

/-- everything the sort emits had an entry in the dict -/
theorem visit_out_keys : ∀ (fuel : Nat) (n : Name) (st st' : St),
    visit ord d fuel n st = .ok st' → (∀ x ∈ st.out, HasKey d x) → ∀ x ∈ st'.out, HasKey d x
  | 0, n, st, st', h, hk => by
    unfold visit at h
    split at h
    · injection h with h; subst h; exact hk
    · cases h
  | fuel + 1, n, st, st', h, hk => by
    unfold visit at h
    split at h
    · injection h with h; subst h; exact hk
    · cases hl : lookup d n with
      | none => simp [hl] at h
      | some ds =>
        simp only [hl] at h
        cases hf : (ord ds).foldlM (fun s x => visit ord d fuel x s) { st with visited := n :: st.visited } with
        | error err => rw [hf] at h; simp [bind, Except.bind] at h
        | ok st2 =>
          rw [hf] at h
          have e : { st2 with out := st2.out ++ [n] } = st' := by
            simpa [bind, Except.bind, pure, Except.pure] using h
          subst e
          have h2 := fold_out_keys ord d fuel (visit_out_keys fuel) (ord ds) _ st2 hf hk
          intro x hx
          rcases List.mem_append.mp hx with hx | hx
          · exact h2 x hx
          · have : x = n := by simpa using hx
            subst this; exact ⟨ds, hl⟩
end

theorem dfs_no_keyError (ord : List Name → List Name) (d : Deps) (roots : List Name)
    (hclosed : ∀ n ds, lookup d n = some ds → ∀ x ∈ ord ds, HasKey d x) (hroots : ∀ r ∈ roots, HasKey d r) (k : Name) :
    dfs ord d roots ≠ .error (.keyError k) := by
  unfold dfs
  intro h
  cases hf : roots.foldlM (fun s x => visit ord d (d.length + 1) x s) (⟨[], []⟩ : St) with
  | ok st => rw [hf] at h; simp [Except.map] at h
  | error err =>
    rw [hf] at h
    have : err = .keyError k := by simpa [Except.map] using h
    subst this
    exact fold_no_keyError ord d _ (visit_no_keyError ord d hclosed _) roots _ k hroots hf

theorem dfs_out_keys (ord : List Name → List Name) (d : Deps) (roots out : List Name) (h : dfs ord d roots = .ok out) :
    ∀ x ∈ out, HasKey d x := by
  obtain ⟨st', hf, rfl⟩ := dfs_ok h
  exact fold_out_keys ord d _ (visit_out_keys ord d _) roots _ st' hf (fun x hx => by cases hx)

end Ariadne.Order

namespace Ariadne.Fragments
open Ariadne Ariadne.Gql Ariadne.Util Ariadne.ResultTypes

theorem findFragment_of_mem {frags : List Fragment} {n : String} (h : n ∈ frags.map (·.name)) : ∃ f, findFragment? frags n = some f := by
  obtain ⟨f, hf, rfl⟩ := List.mem_map.mp h
  unfold findFragment?
  cases hfind : frags.find? (·.name == f.name) with
  | some f' => exact ⟨f', rfl⟩
  | none =>
    have := List.find?_eq_none.mp hfind f hf
    simp at this

theorem genFragments_no_keyError (env : Env) (fuel : Nat) : ∀ (names : List String) (marks : List Nat) (k : String),
    (∀ n ∈ names, n ∈ env.frags.map (·.name)) → genFragments env fuel names marks ≠ .error (.order (.keyError k))
  | [], marks, k, _ => by unfold genFragments; intro h; cases h
  | n :: rest, marks, k, hn => by
    unfold genFragments
    obtain ⟨f, hf⟩ := findFragment_of_mem (hn n List.mem_cons_self)
    simp only [hf]
    cases hg : generate env fuel (.frag f) marks with
    | error err => intro h; cases h
    | ok out =>
      simp only []
      cases hr : genFragments env fuel rest out.st.marks with
      | error err =>
        intro h
        have : err = .order (.keyError k) := by injection h
        subst this
        exact genFragments_no_keyError env fuel rest _ k (fun m hm => hn m (List.mem_cons_of_mem _ hm)) hr
      | ok more => intro h; cases h

theorem classesInOrder_total (gens : List DefGen) : ∀ (l : List String),
    (∀ n ∈ l, ∃ g, lookupGen gens n = some g) → ∃ cs, classesInOrder gens l = .ok cs
  | [], _ => ⟨[], rfl⟩
  | n :: rest, h => by
    obtain ⟨g, hg⟩ := h n List.mem_cons_self
    obtain ⟨cs, hcs⟩ := classesInOrder_total gens rest (fun m hm => h m (List.mem_cons_of_mem _ hm))
    exact ⟨g.out.classes ++ cs, by unfold classesInOrder; simp only [hg, hcs]⟩

theorem hasKey_deps (gens : List DefGen) (n : String) :
    Order.HasKey (gens.map fun g => (g.name, g.out.st.mixins)) n ↔ ∃ g, lookupGen gens n = some g := by
  unfold Order.HasKey
  rw [lookup_deps]
  cases lookupGen gens n with
  | none => simp
  | some g => simp

/-- `FragmentsGenerator.generate` never raises `KeyError` when every dependency of a generated fragment is
    itself among the generated ones -/
theorem generateFragments_no_keyError (e : Order.EnumOracle) (he : Order.EnumOK e) (env : Env) (fuel : Nat)
    (names : List String) (marks : List Nat) (hnames : ∀ n ∈ names, n ∈ env.frags.map (·.name))
    (hdeps : ∀ gens, genFragments env fuel names marks = .ok gens → ∀ g ∈ gens, ∀ m ∈ g.out.st.mixins, m ∈ names)
    (k : String) : generateFragments e env fuel names marks ≠ .error (.order (.keyError k)) := by
  unfold generateFragments
  cases hg : genFragments env fuel names marks with
  | error err =>
    intro h
    have : err = .order (.keyError k) := by injection h
    subst this
    exact genFragments_no_keyError env fuel names marks k hnames hg
  | ok gens =>
    simp only []
    obtain ⟨hgn, _⟩ := genFragments_spec env fuel names marks gens hg
    have hkey : ∀ n ∈ names, Order.HasKey (gens.map fun g => (g.name, g.out.st.mixins)) n := by
      intro n hn
      exact (hasKey_deps gens n).mpr (lookupGen_of_mem (by rw [hgn]; exact hn))
    cases hs : Order.sortedFragmentsNames e names (gens.map fun g => (g.name, g.out.st.mixins)) with
    | error err =>
      intro h
      have : err = .keyError k := by injection h with h; injection h
      subst this
      refine Order.dfs_no_keyError _ _ _ ?_ ?_ k hs
      · intro n ds hl x hx
        have hx' : x ∈ ds := (he ds).mem_iff.mp ((Order.mem_pySorted _ _).mp hx)
        rw [lookup_deps] at hl
        cases hlg : lookupGen gens n with
        | none => rw [hlg] at hl; cases hl
        | some g =>
          rw [hlg] at hl
          have : g.out.st.mixins = ds := by simpa using hl
          subst this
          exact hkey x (hdeps gens hg g (lookupGen_some hlg).1 x hx')
      · intro r hr
        exact hkey r ((he names).mem_iff.mp ((Order.mem_pySorted _ _).mp hr))
    | ok sorted =>
      simp only []
      have hall : ∀ n ∈ sorted, ∃ g, lookupGen gens n = some g :=
        fun n hn => (hasKey_deps gens n).mp (Order.dfs_out_keys _ _ _ _ hs n hn)
      obtain ⟨cs, hcs⟩ := classesInOrder_total gens sorted hall
      simp only [hcs]
      cases hr : Order.rebuildCalls (gens.filterMap fun g => g.out.classes.head?.map (·.name)) (cs.map (·.name)) with
      | error err =>
        intro h
        have : err = .keyError k := by injection h with h; injection h
        subst this
        unfold Order.rebuildCalls at hr
        split at hr <;> cases hr
      | ok rebuilds => intro h; cases h

/-- **outside the trigger of C08-F1 generation never dies with `KeyError` in `FragmentsGenerator`** -/
theorem no_keyError_outside_trigger (e : Order.EnumOracle) (he : Order.EnumOK e) (env : Env) (fuel : Nat) (ops : List Operation)
    (hF1 : trigUnpackedAndInherited e env fuel ops = false) (k : String) :
    fragmentsModule e env fuel ops ≠ .error (.order (.keyError k)) := by
  unfold fragmentsModule
  cases hacc : addOperations env fuel ops with
  | error err => intro h; cases h
  | ok acc =>
    simp only []
    cases hrem : (remaining env acc.unpacked).isEmpty with
    | true => simp only [if_true]; intro h; cases h
    | false =>
      simp only [Bool.false_eq_true, if_false]
      have hnames : ∀ n ∈ e (remaining env acc.unpacked), n ∈ env.frags.map (·.name) := by
        intro n hn
        have := (he _).mem_iff.mp hn
        unfold remaining at this
        exact (mem_dedup n _).mp (List.mem_filter.mp this).1
      have hdeps : ∀ gens, genFragments env fuel (e (remaining env acc.unpacked)) acc.marks = .ok gens →
          ∀ g ∈ gens, ∀ m ∈ g.out.st.mixins, m ∈ e (remaining env acc.unpacked) := by
        intro gens hg g hgm m hm
        obtain ⟨_, hfrom⟩ := genFragments_spec env fuel _ _ gens hg
        obtain ⟨f, marks, _, hgen⟩ := hfrom g hgm
        have hgood := (generate_spec env fuel _ marks _ hgen).1 m hm
        have hnotex : acc.unpacked.contains m = false := by
          unfold trigUnpackedAndInherited at hF1
          simp only [hacc] at hF1
          cases hc : acc.unpacked.contains m with
          | false => rfl
          | true =>
            have hmem : m ∈ acc.unpacked := by simpa using hc
            have : (acc.unpacked.any fun n => (inheritedByOps acc).contains n || (inheritedByFragments e env fuel acc).contains n) = true := by
              refine List.any_eq_true.mpr ⟨m, hmem, ?_⟩
              have : m ∈ inheritedByFragments e env fuel acc := by
                unfold inheritedByFragments
                simp only [hg]
                exact List.mem_flatMap.mpr ⟨g, hgm, hm⟩
              simp [this]
            rw [this] at hF1
            cases hF1
        refine (he _).mem_iff.mpr ?_
        unfold remaining
        exact List.mem_filter.mpr ⟨(mem_dedup m _).mpr (goodMixin_mem_frags hgood), by rw [hnotex]; rfl⟩
      cases hgf : generateFragments e env fuel (e (remaining env acc.unpacked)) acc.marks with
      | ok fo => intro h; cases h
      | error err =>
        intro h
        have : err = .order (.keyError k) := by injection h
        subst this
        exact generateFragments_no_keyError e he env fuel _ acc.marks hnames hdeps k hgf

end Ariadne.Fragments
