/-
  C15: ClientForwardRefs on a client module of the generated form, inside a frame (`fr`: import statements later
  plugins put in front) and with an operations module (`ops`): what is assumed of the package WITHOUT ClientForwardRefs
  (`fr ++ M0`, `ops`) carries over to the package WITH it (`fr ++ M1`, `ops`) — under the decidable hygiene of the
  module that reaches the plugin (`FwdHypsR`).
-/
import AriadneModel.Proofs.C15FwdImports

set_option linter.unusedSimpArgs false
set_option linter.unusedVariables false

namespace Ariadne.C15
open Ariadne Ariadne.Py Ariadne.Plugins Ariadne.ClientSem

/-! ### `_store_imported_classes` touches `imported_classes` only -/

theorem fwdStoreImported_sets (st : FwdState) (body : List Top) :
    (fwdStoreImported st body).inputAndReturnTypes = st.inputAndReturnTypes ∧
    (fwdStoreImported st body).importedInMethod = st.importedInMethod := by
  unfold fwdStoreImported
  have h := foldl_keeps (β := FwdState) (g := fun s => (s.inputAndReturnTypes, s.importedInMethod))
    (fun st t =>
      match t.importFrom? with
      | some i =>
        match i.module with
        | some mname =>
          if i.level != 1 && !startsWithDot mname then st
          else i.names.foldl (fun st (n : String × Option String) =>
            { st with importedClasses := aset n.1 (dotted i.level mname) st.importedClasses }) st
        | none => st
      | none => st)
    (by
      intro b a
      split
      · split
        · split
          · rfl
          · apply foldl_keeps (g := fun (s : FwdState) => (s.inputAndReturnTypes, s.importedInMethod))
            intro b' a'; rfl
        · rfl
      · rfl) body st
  exact ⟨congrArg Prod.fst h, congrArg Prod.snd h⟩

/-! ### `_add_forward_ref_imports` -/

theorem tc_ok (classes : List (String × String)) : ∀ (l : List String) (acc : List (String × List String)),
    (∀ c ∈ l, ahas c classes = true) → ∃ groups, l.foldlM (tcStep classes) acc = .ok groups ∧ (l ≠ [] → groups ≠ []) ∧ (acc ≠ [] → groups ≠ []) := by
  intro l
  induction l with
  | nil => intro acc _; exact ⟨acc, rfl, fun h => absurd rfl h, fun h => h⟩
  | cons c rest ih =>
    intro acc hall
    have hc := hall c (by simp)
    cases hl : alookup c classes with
    | none => simp [ahas, hl] at hc
    | some mname =>
      have hne : aset mname ((alookup mname acc).getD [] ++ [c]) acc ≠ [] := by
        cases acc with
        | nil => simp [aset]
        | cons kv tl =>
          obtain ⟨k, v⟩ := kv
          simp only [aset]
          split <;> simp
      obtain ⟨groups, hg, _, hg3⟩ := ih (aset mname ((alookup mname acc).getD [] ++ [c]) acc) (fun x hx => hall x (by simp [hx]))
      refine ⟨groups, ?_, fun _ => hg3 hne, fun _ => hg3 hne⟩
      rw [List.foldlM_cons]
      simp only [tcStep, hl, pure_eq_ok, bind_ok]
      exact hg

/-! ### the form of what `generate_client_module` returns -/

def typingTop : Top := .simple (.importFrom { module := some "typing", names := [("TYPE_CHECKING", none)], level := 0 })

def tcTop (groups : List (String × List String)) : Top :=
  .ifStmt (.name "TYPE_CHECKING") (groups.map (fun (g : String × List String) =>
    Simple.importFrom { module := some g.1, names := g.2.map (fun n => (n, none)), level := 0 })) 0

/-- the names `_update_existing_imports` takes out of the module-level import statements -/
def dropOf (st : FwdState) : List String :=
  st.inputAndReturnTypes ++ st.importedInMethod.filter (fun n => !st.inputAndReturnTypes.contains n)

theorem fwdUpdateImports_form (st : FwdState) (pre : List Top) (g : Method) (c : ClassDef)
    (hall : AllImp pre) (hne : pre ≠ []) (hir : ∀ n ∈ st.inputAndReturnTypes, ahas n st.importedClasses = true)
    (hdrop : dropOf st ≠ []) :
    ∃ groups, (st.inputAndReturnTypes ≠ [] → groups ≠ []) ∧
      fwdUpdateImports st { body := pre ++ [.funcDef g, .classDef c] } =
        .ok { body := pre.filterMap (keepTop (dropOf st)) ++ [typingTop, tcTop groups] ++ [.funcDef g, .classDef c] } := by
  obtain ⟨groups, hg, hg2, _⟩ := tc_ok st.importedClasses st.inputAndReturnTypes [] hir
  refine ⟨groups, hg2, ?_⟩
  unfold fwdUpdateImports
  have hd : (st.inputAndReturnTypes ++ st.importedInMethod.filter (fun n => !st.inputAndReturnTypes.contains n)).isEmpty = false := by
    cases hdd : dropOf st with
    | nil => exact absurd hdd hdrop
    | cons a as => unfold dropOf at hdd; rw [hdd]; rfl
  simp only [hd, Bool.false_eq_true, ↓reduceIte, bind_ok, pure_eq_ok]
  rw [fwdTypeCheckingImports_eq, hg]
  simp only [bind_ok]
  have htail : ∀ t ∈ [Top.funcDef g, Top.classDef c], isImp t = false := by
    intro t ht; simp at ht; rcases ht with rfl | rfl <;> rfl
  have hscan : fwdScanImports (dropOf st) (pre ++ [.funcDef g, .classDef c]) 0 ([], 0) = fwdScanImports (dropOf st) pre 0 ([], 0) := by
    rw [scan_append, scan_nonimp (dropOf st) _ _ _ htail]
  have hkept := scan_filterMap (dropOf st) pre 0 ([], 0)
  have hlast := scan_last (dropOf st) pre 0 ([], 0) hall hne
  show Except.ok _ = _
  unfold dropOf at hscan hkept hlast ⊢
  simp only [hscan]
  rw [hkept]
  simp only [List.nil_append]
  have hle : (fwdScanImports (st.inputAndReturnTypes ++ st.importedInMethod.filter (fun n => !st.inputAndReturnTypes.contains n)) pre 0 ([], 0)).2 + 1 = pre.length := by
    simpa using hlast
  rw [hle, List.drop_left']
  · simp [typingTop, tcTop, List.append_assoc]
  · rfl

end Ariadne.C15

namespace Ariadne.C15
open Ariadne Ariadne.Py Ariadne.Plugins Ariadne.ClientSem

/-! ### hypotheses and conclusion -/

def fwdImport (src cls : String) : ImportFrom := { module := some src, names := [(cls, none)], level := 0 }

structure FwdHypsR (known : List String) (fr : List Top) (ops : Option (String × OpsFile))
    (M0 : Module) (pre0 : List Top) (g : Method) (C0 : ClassDef) : Prop where
  frame : ImportsOnly fr
  body : M0.body = pre0 ++ [.funcDef g, .classDef C0]
  noclass : NoClass pre0
  allimp : AllImp pre0
  nonempty : pre0 ≠ []
  noas : NoAs pre0
  someMethod : C0.methods ≠ []
  methods : FwdMethodsOK (icOf M0) C0.methods
  quoting : ∃ md ∈ C0.methods, ∃ n ∈ sigLeaves md, ahas n (icOf M0) = true
  hyg1 : ∀ md ∈ C0.methods, ∀ n ∈ quotedSigNames (icOf M0) md, n ∉ dropNames (icOf M0) C0.methods
  hyg2 : ∀ md ∈ C0.methods, ∀ s, shapeOf md = some s →
    opSourceName s ∉ dropNames (icOf M0) C0.methods ∧
    ∀ n ∈ exNames s.variables, n ∉ dropNames (icOf M0) C0.methods
  bind : ∀ md ∈ C0.methods, ∀ s src, shapeOf md = some s → alookup s.retClass (icOf M0) = some src →
    resolveRuntime { client := ({ body := fr ++ M0.body } : Module), ops := ops } s s.retClass = some (src, s.retClass)
  gql0 : "gql" ∈ moduleNames ({ body := fr ++ M0.body } : Module)
  fmt0 : formatOkB ({ body := fr ++ M0.body } : Module) = true
  ann0 : annScopedB ({ body := fr ++ M0.body } : Module) = true
  well0 : wellScopedB { client := ({ body := fr ++ M0.body } : Module), ops := ops } = true
  imp0 : ∀ i ∈ topImports ({ body := fr ++ M0.body } : Module), ∀ q, relModule i = some q → q ∈ known

structure FwdConclR (known : List String) (IC : List (String × String)) (ops : Option (String × OpsFile)) (B0 B1 : Module) (C0 : ClassDef) : Prop where
  fmt : formatOkB B1 = true
  ann : annScopedB B1 = true
  well : wellScopedB { client := B1, ops := ops } = true
  imp : ∀ i ∈ topImports B1, ∀ q, relModule i = some q → q ∈ known
  cls : ∃ C1, B1.firstClass? = some C1 ∧ ItemsRel (FwdOutcome IC) C0.body C1.body
  sem : ∀ md ∈ C0.methods, ∀ s src, shapeOf md = some s → alookup s.retClass IC = some src →
    request { client := B1, ops := ops } (withImport s (fwdImport src s.retClass)) = request { client := B0, ops := ops } s ∧
    ∀ (PyV : Type) (validate : String × String → J → Except String PyV) (getattr : String → PyV → PyV) (d : J),
      respond validate getattr { client := B1, ops := ops } (withImport s (fwdImport src s.retClass)) d =
        respond validate getattr { client := B0, ops := ops } s d

theorem fwdMethod_ic : ∀ (items : List ClassItem) (st st1 : FwdState) (items1 : List ClassItem),
    mapMethodsM fwdMethod st items = .ok (st1, items1) → True := fun _ _ _ _ _ => trivial

theorem argsQuoted_names (IC : List (String × String)) (args : List (String × Option Ex)) :
    (argsQuoted IC args).map (·.1) = args.map (·.1) := by
  simp [argsQuoted, List.map_map, Function.comp_def]

theorem defTimeNames_quoted (IC : List (String × String)) (md : Method) (b : List Stmt) :
    defTimeNames ({ md with args := argsQuoted IC md.args, returns := md.returns.map (quoted IC), body := b } : Method) =
      quotedSigNames IC md := rfl

theorem quotedSigNames_sub (IC : List (String × String)) (md : Method) (n : String) (h : n ∈ quotedSigNames IC md) :
    n ∈ defTimeNames md := by
  unfold quotedSigNames defTimeNames argsQuoted at h
  unfold defTimeNames
  simp only [List.mem_append, List.mem_flatMap, List.mem_map] at h ⊢
  rcases h with (⟨a', ⟨a, ha, rfl⟩, hn⟩ | h) | h
  · refine .inl (.inl ⟨a, ha, ?_⟩)
    cases hq : a.2 with
    | none => simp [hq] at hn
    | some e => simp only [hq, Option.map_some] at hn; exact toConst_names IC e [] n hn
  · exact .inl (.inr h)
  · right
    cases hr : md.returns with
    | none => simp [hr] at h
    | some r => simp only [hr, Option.map_some] at h; exact toConst_names IC r [] n h

theorem fwd_no_crash_rel (known : List String) (fr : List Top) (ops : Option (String × OpsFile))
    (M0 : Module) (pre0 : List Top) (g : Method) (C0 : ClassDef) (H : FwdHypsR known fr ops M0 pre0 g C0) :
    ∃ r, fwdClientModule {} M0 = .ok r := by
  obtain ⟨s0i, s0m⟩ := fwdStoreImported_sets {} M0.body
  obtain ⟨r, hr⟩ := fwd_methods_ok C0.body (fwdStoreImported {} M0.body) H.methods
  obtain ⟨j1, j2, j3, j4⟩ := fwd_methods_spec C0.body _ r.1 r.2 H.methods (by rw [hr])
  unfold fwdClientModule
  simp only [bind_ok, pure_eq_ok]
  rw [firstClass_of_body M0 pre0 g C0 H.body H.noclass]
  simp only
  rw [H.body, mapFirstClassM_pre _ g C0 pre0 _ H.noclass]
  rw [← H.body, hr]
  simp only [bind_ok, pure_eq_ok]
  have hir : ∀ n ∈ r.1.inputAndReturnTypes, ahas n r.1.importedClasses = true := by
    intro n hn
    rw [j1]
    rcases (j3 n).mp hn with h | ⟨md, _, _, hc⟩
    · rw [s0i] at h; cases h
    · exact hc
  have hdrop : dropOf r.1 ≠ [] := by
    obtain ⟨md, hmd⟩ := List.exists_mem_of_ne_nil _ H.someMethod
    obtain ⟨s, src, hsh, _, _⟩ := H.methods md hmd
    have hmem : s.retClass ∈ r.1.importedInMethod := (j4 _).mpr (.inr ⟨md, hmd, s, hsh, rfl⟩)
    intro hnil
    unfold dropOf at hnil
    rw [List.append_eq_nil_iff] at hnil
    have h2 := hnil.2
    rw [List.filter_eq_nil_iff] at h2
    have := h2 _ hmem
    rw [hnil.1] at this
    simp at this
  obtain ⟨groups, _, hform⟩ := fwdUpdateImports_form r.1 pre0 g { C0 with body := r.2 } H.allimp H.nonempty hir hdrop
  rw [hform]
  exact ⟨_, rfl⟩

end Ariadne.C15

namespace Ariadne.C15
open Ariadne Ariadne.Py Ariadne.Plugins Ariadne.ClientSem

theorem namesOf_typing (groups : List (String × List String)) : namesOfTops [typingTop, tcTop groups] = ["TYPE_CHECKING"] := by
  simp [namesOfTops, moduleNames, typingTop, tcTop]

theorem importsOf_typing (groups : List (String × List String)) :
    importsOfTops [typingTop, tcTop groups] = [{ module := some "typing", names := [("TYPE_CHECKING", none)], level := 0 }] := by
  simp [importsOfTops, typingTop, tcTop, Top.importFrom?]

theorem allImp_noClass {pre : List Top} (h : AllImp pre) : NoClass pre := fun t ht => isImp_noClass (h t ht)

theorem fwd_concl_rel (known : List String) (fr : List Top) (ops : Option (String × OpsFile))
    (M0 M1 : Module) (st' : FwdState) (pre0 : List Top) (g : Method) (C0 : ClassDef)
    (H : FwdHypsR known fr ops M0 pre0 g C0) (h : fwdClientModule {} M0 = .ok (st', M1)) :
    FwdConclR known (icOf M0) ops { body := fr ++ M0.body } { body := fr ++ M1.body } C0 := by
  obtain ⟨s0i, s0m⟩ := fwdStoreImported_sets {} M0.body
  obtain ⟨r, hr⟩ := fwd_methods_ok C0.body (fwdStoreImported {} M0.body) H.methods
  obtain ⟨j1, j2, j3, j4⟩ := fwd_methods_spec C0.body _ r.1 r.2 H.methods (by rw [hr])
  have hir : ∀ n ∈ r.1.inputAndReturnTypes, ahas n r.1.importedClasses = true := by
    intro n hn
    rw [j1]
    rcases (j3 n).mp hn with h' | ⟨md, _, _, hc⟩
    · rw [s0i] at h'; cases h'
    · exact hc
  have hdrop : dropOf r.1 ≠ [] := by
    obtain ⟨md, hmd⟩ := List.exists_mem_of_ne_nil _ H.someMethod
    obtain ⟨s, src, hsh, _, _⟩ := H.methods md hmd
    have hmem : s.retClass ∈ r.1.importedInMethod := (j4 _).mpr (.inr ⟨md, hmd, s, hsh, rfl⟩)
    intro hnil
    unfold dropOf at hnil
    rw [List.append_eq_nil_iff] at hnil
    have h2 := hnil.2
    rw [List.filter_eq_nil_iff] at h2
    have := h2 _ hmem
    rw [hnil.1] at this
    simp at this
  obtain ⟨groups, hgroups, hform⟩ := fwdUpdateImports_form r.1 pre0 g { C0 with body := r.2 } H.allimp H.nonempty hir hdrop
  -- the module that comes out
  have hM1 : M1.body = pre0.filterMap (keepTop (dropOf r.1)) ++ [typingTop, tcTop groups] ++ [.funcDef g, .classDef { C0 with body := r.2 }] := by
    unfold fwdClientModule at h
    simp only [bind_ok, pure_eq_ok] at h
    rw [firstClass_of_body M0 pre0 g C0 H.body H.noclass] at h
    simp only at h
    rw [H.body, mapFirstClassM_pre _ g C0 pre0 _ H.noclass] at h
    rw [← H.body, hr] at h
    simp only [bind_ok, pure_eq_ok] at h
    rw [hform] at h
    simp only [bind_ok, Except.ok.injEq, Prod.mk.injEq] at h
    rw [← h.2]
  have hgne : groups ≠ [] := by
    apply hgroups
    obtain ⟨md, hmd, n, hn, hc⟩ := H.quoting
    intro hnil
    have : n ∈ r.1.inputAndReturnTypes := (j3 n).mpr (.inr ⟨md, hmd, hn, hc⟩)
    rw [hnil] at this
    cases this
  -- what is dropped is a quoted signature class or a validated class
  have hdropsub : ∀ n ∈ dropOf r.1, n ∈ dropNames (icOf M0) C0.methods := by
    intro n hn
    unfold dropOf at hn
    unfold dropNames
    rcases List.mem_append.mp hn with h1 | h1
    · rcases (j3 n).mp h1 with h' | ⟨md, hmd, hl, hc⟩
      · rw [s0i] at h'; cases h'
      · apply List.mem_append_left
        rw [List.mem_flatMap]
        exact ⟨md, hmd, List.mem_filter.mpr ⟨hl, hc⟩⟩
    · have h2 := (List.mem_filter.mp h1).1
      rcases (j4 n).mp h2 with h' | ⟨md, hmd, s, hs, rfl⟩
      · rw [s0m] at h'; cases h'
      · apply List.mem_append_right
        rw [List.mem_filterMap]
        exact ⟨md, hmd, by rw [hs]; rfl⟩
  have hnotdrop : ∀ n, n ∉ dropNames (icOf M0) C0.methods → n ∉ dropOf r.1 := fun n hn hc => hn (hdropsub n hc)
  -- names and bindings of the two modules
  have hB0names : moduleNames ({ body := fr ++ M0.body } : Module) =
      namesOfTops fr ++ (namesOfTops pre0 ++ namesOfTops [Top.funcDef g, Top.classDef C0]) := by
    rw [moduleNames_eq, namesOfTops_append, H.body, namesOfTops_append]
  have hB1names : moduleNames ({ body := fr ++ M1.body } : Module) =
      namesOfTops fr ++ ((namesOfTops (pre0.filterMap (keepTop (dropOf r.1))) ++ ["TYPE_CHECKING"]) ++
        namesOfTops [Top.funcDef g, Top.classDef C0]) := by
    rw [moduleNames_eq, namesOfTops_append, hM1, namesOfTops_append, namesOfTops_append, namesOf_typing]
    rfl
  have hkeepB : ∀ n ∈ moduleNames ({ body := fr ++ M0.body } : Module), n ∉ dropOf r.1 →
      n ∈ moduleNames ({ body := fr ++ M1.body } : Module) := by
    intro n hn hnd
    rw [hB0names] at hn
    rw [hB1names]
    simp only [List.mem_append] at hn ⊢
    rcases hn with h1 | h1 | h1
    · exact .inl h1
    · exact .inr (.inl (.inl (keep_names _ pre0 H.allimp H.noas n h1 hnd)))
    · exact .inr (.inr h1)
  have hB0tops : topImports ({ body := fr ++ M0.body } : Module) = importsOfTops fr ++ importsOfTops pre0 := by
    rw [topImports_eq, importsOfTops_append, H.body, importsOfTops_append]
    simp [importsOfTops, Top.importFrom?]
  have hB1tops : topImports ({ body := fr ++ M1.body } : Module) =
      importsOfTops fr ++ (importsOfTops (pre0.filterMap (keepTop (dropOf r.1))) ++
        [{ module := some "typing", names := [("TYPE_CHECKING", none)], level := 0 }]) := by
    rw [topImports_eq, importsOfTops_append, hM1, importsOfTops_append, importsOfTops_append, importsOf_typing]
    simp [importsOfTops, Top.importFrom?]
  have hfoundB : ∀ n v, n ∉ dropOf r.1 →
      alookup n (importBindings (topImports ({ body := fr ++ M0.body } : Module))) = some v →
      alookup n (importBindings (topImports ({ body := fr ++ M1.body } : Module))) = some v := by
    intro n v hnd hv
    rw [hB0tops, importBindings_append, alookup_append] at hv
    rw [hB1tops, importBindings_append, alookup_append]
    cases hf : alookup n (importBindings (importsOfTops fr)) with
    | some w => rw [hf] at hv; simpa using hv
    | none =>
      rw [hf] at hv
      simp only at hv ⊢
      rw [importBindings_append, alookup_append, keep_bindings _ pre0 H.noas n hnd, hv]
  -- the class and its methods
  have hfcB0 : ({ body := fr ++ M0.body } : Module).firstClass? = some C0 := by
    rw [firstClass_frame fr H.frame]; exact firstClass_of_body M0 pre0 g C0 H.body H.noclass
  have hncK : NoClass (pre0.filterMap (keepTop (dropOf r.1)) ++ [typingTop, tcTop groups]) := by
    intro t ht
    rcases List.mem_append.mp ht with h1 | h1
    · exact isImp_noClass (keep_isImp _ pre0 t h1)
    · simp at h1; rcases h1 with rfl | rfl <;> rfl
  have hfcB1 : ({ body := fr ++ M1.body } : Module).firstClass? = some { C0 with body := r.2 } := by
    rw [firstClass_frame fr H.frame]
    exact firstClass_of_body M1 _ g _ hM1 hncK
  have hC1methods : ∀ md' ∈ ({ C0 with body := r.2 } : ClassDef).methods, ∃ md ∈ C0.methods, FwdOutcome (icOf M0) md md' :=
    fun md' hmd' => ItemsRel.mem_right j2 md' hmd'
  have hann0 := H.ann0
  unfold annScopedB at hann0
  rw [hfcB0] at hann0
  simp only [List.all_eq_true, Bool.or_eq_true, List.contains_iff_mem] at hann0
  have hwell0 := H.well0
  unfold wellScopedB unresolvedNames at hwell0
  simp only [hfcB0] at hwell0
  rw [List.isEmpty_iff, List.flatMap_eq_nil_iff] at hwell0
  -- resolution of a runtime name other than the validated class, with the in-body import in front
  have hresolve : ∀ (s : Shape) (src n : String) (v : String × String), n ≠ s.retClass → n ∉ dropOf r.1 →
      resolveRuntime { client := ({ body := fr ++ M0.body } : Module), ops := ops } s n = some v →
      resolveRuntime { client := ({ body := fr ++ M1.body } : Module), ops := ops } (withImport s (fwdImport src s.retClass)) n = some v := by
    intro s src n v hne hnd hv
    unfold resolveRuntime at hv ⊢
    have hin : alookup n (importBindings (withImport s (fwdImport src s.retClass)).imports) = alookup n (importBindings s.imports) := by
      have : (withImport s (fwdImport src s.retClass)).imports = fwdImport src s.retClass :: s.imports := rfl
      rw [this]
      have e : importBindings (fwdImport src s.retClass :: s.imports) = importBindings [fwdImport src s.retClass] ++ importBindings s.imports :=
        importBindings_append [_] _
      rw [e, alookup_append]
      have : alookup n (importBindings [fwdImport src s.retClass]) = none := by
        simp [importBindings, fwdImport, alookup, Ne.symm hne]
      rw [this]
    rw [hin]
    cases hs : alookup n (importBindings s.imports) with
    | some w => rw [hs] at hv; simpa using hv
    | none =>
      rw [hs] at hv
      simp only at hv ⊢
      exact hfoundB n v hnd hv
  refine ⟨?_, ?_, ?_, ?_, ⟨_, hfcB1, j2⟩, ?_⟩
  · -- formatOkB
    have h0 := H.fmt0
    unfold formatOkB at h0 ⊢
    rw [List.all_eq_true] at h0 ⊢
    intro t ht
    simp only [List.mem_append] at ht
    rcases ht with h1 | h1
    · exact h0 t (List.mem_append_left _ h1)
    · rw [hM1] at h1
      simp only [List.mem_append, List.mem_cons, List.not_mem_nil, or_false] at h1
      rcases h1 with (h2 | h2 | h2) | h2 | h2
      · have := keep_isImp _ pre0 t h2
        cases t with
        | ifStmt a b o => simp [isImp] at this
        | simple _ => rfl
        | classDef _ => rfl
        | funcDef _ => rfl
      · subst h2; rfl
      · subst h2
        simp only [tcTop]
        cases hgm : groups with
        | nil => exact absurd hgm hgne
        | cons x xs => rfl
      · subst h2; rfl
      · subst h2; rfl
  · -- annScopedB
    unfold annScopedB
    rw [hfcB1]
    simp only [List.all_eq_true, Bool.or_eq_true, List.contains_iff_mem]
    intro md' hmd' n hn
    obtain ⟨md, hmd, s, src, hsh, hsrc, hmdeq⟩ := hC1methods md' hmd'
    rw [hmdeq, defTimeNames_quoted] at hn
    have hn0 := quotedSigNames_sub (icOf M0) md n hn
    rcases hann0 md hmd n hn0 with h1 | h1
    · exact .inl (hkeepB n h1 (hnotdrop n (H.hyg1 md hmd n hn)))
    · exact .inr h1
  · -- wellScopedB
    unfold wellScopedB unresolvedNames
    simp only [hfcB1]
    rw [List.isEmpty_iff, List.flatMap_eq_nil_iff]
    intro md' hmd'
    obtain ⟨md, hmd, s, src, hsh, hsrc, hmdeq⟩ := hC1methods md' hmd'
    have hmd0 := hwell0 md hmd
    obtain ⟨hyop, hyvars⟩ := H.hyg2 md hmd s hsh
    have hsh' : shapeOf md' = some (withImport s { module := some src, names := [(s.retClass, none)], level := 0 }) :=
      shapeOf_bodyOf md' _ (by rw [hmdeq])
    have hargs' : md'.args.map (·.1) = md.args.map (·.1) := by rw [hmdeq]; exact argsQuoted_names _ _
    unfold runtimeUnresolved at hmd0 ⊢
    simp only [hsh] at hmd0
    simp only [hsh', hargs']
    rw [List.append_eq_nil_iff] at hmd0 ⊢
    obtain ⟨hmiss, hcm⟩ := hmd0
    rw [hmiss] at hcm
    rw [List.filter_eq_nil_iff] at hmiss
    have himp : (withImport s { module := some src, names := [(s.retClass, none)], level := 0 }).imports =
        { module := some src, names := [(s.retClass, none)], level := 0 } :: s.imports := rfl
    have hbound : ∀ n, n ∈ (match s.op with | .inline _ _ => ["gql"] | .const c => [c]) ++ [s.retClass] ++ exNames s.variables →
        ((importBindings ({ module := some src, names := [(s.retClass, none)], level := 0 } :: s.imports)).map (·.1) ++
          moduleNames ({ body := fr ++ M1.body } : Module) ++ builtinNames ++ md.args.map (·.1) ++ ["kwargs"]).contains n = true := by
      intro n hn
      by_cases hrc : n = s.retClass
      · subst hrc
        rw [List.contains_iff_mem]
        simp only [List.mem_append]
        refine .inl (.inl (.inl (.inl ?_)))
        simp [importBindings]
      · have h0 := hmiss n hn
        have hc0 : ((importBindings s.imports).map (·.1) ++ moduleNames ({ body := fr ++ M0.body } : Module) ++ builtinNames ++
            md.args.map (·.1) ++ ["kwargs"]).contains n = true := by
          cases hc : ((importBindings s.imports).map (·.1) ++ moduleNames ({ body := fr ++ M0.body } : Module) ++ builtinNames ++
              md.args.map (·.1) ++ ["kwargs"]).contains n with
          | true => rfl
          | false => rw [hc] at h0; exact absurd rfl h0
        have hnd : n ∉ dropNames (icOf M0) C0.methods := by
          simp only [List.mem_append, List.mem_singleton] at hn
          rcases hn with (h1 | h1) | h1
          · unfold opSourceName at hyop
            cases hop : s.op with
            | inline q ls => rw [hop] at h1 hyop; simp at h1; rw [h1]; exact hyop
            | const c => rw [hop] at h1 hyop; simp at h1; rw [h1]; exact hyop
          · exact absurd h1 hrc
          · exact hyvars n h1
        rw [List.contains_iff_mem] at hc0 ⊢
        simp only [List.mem_append] at hc0 ⊢
        rcases hc0 with (((h1 | h1) | h1) | h1) | h1
        · refine .inl (.inl (.inl (.inl ?_)))
          have e : importBindings (({ module := some src, names := [(s.retClass, none)], level := 0 } : ImportFrom) :: s.imports) =
              importBindings [({ module := some src, names := [(s.retClass, none)], level := 0 } : ImportFrom)] ++ importBindings s.imports :=
            importBindings_append [_] _
          rw [e, List.map_append]
          exact List.mem_append_right _ h1
        · exact .inl (.inl (.inl (.inr (hkeepB n h1 (hnotdrop n hnd)))))
        · exact .inl (.inl (.inr h1))
        · exact .inl (.inr h1)
        · exact .inr h1
    constructor
    · rw [List.filter_eq_nil_iff]
      intro n hn
      rw [himp]
      have : (withImport s { module := some src, names := [(s.retClass, none)], level := 0 }).op = s.op := rfl
      rw [this] at hn
      have hv : (withImport s { module := some src, names := [(s.retClass, none)], level := 0 }).variables = s.variables := rfl
      have hrc : (withImport s { module := some src, names := [(s.retClass, none)], level := 0 }).retClass = s.retClass := rfl
      rw [hv, hrc] at hn
      rw [hbound n hn]
      decide
    · have hop' : (withImport s { module := some src, names := [(s.retClass, none)], level := 0 }).op = s.op := rfl
      rw [hop']
      cases hop : s.op with
      | inline q ls => simp
      | const c =>
        unfold opSourceName at hyop
        rw [hop] at hcm hyop
        simp only at hcm hyop ⊢
        -- the constant resolved without ClientForwardRefs, hence it resolves to the same value with it
        cases hcv : constValue { client := ({ body := fr ++ M0.body } : Module), ops := ops } s c with
        | none => rw [hcv] at hcm; simp at hcm
        | some val =>
          have hcne : c ≠ s.retClass := by
            intro hc
            apply hyop
            rw [hc]
            unfold dropNames
            apply List.mem_append_right
            rw [List.mem_filterMap]
            exact ⟨md, hmd, by rw [hsh]; rfl⟩
          have : constValue { client := ({ body := fr ++ M1.body } : Module), ops := ops }
              (withImport s { module := some src, names := [(s.retClass, none)], level := 0 }) c = some val := by
            unfold constValue at hcv ⊢
            cases hres : resolveRuntime { client := ({ body := fr ++ M0.body } : Module), ops := ops } s c with
            | none => rw [hres] at hcv; cases hcv
            | some w =>
              rw [hres] at hcv
              rw [show ({ module := some src, names := [(s.retClass, none)], level := 0 } : ImportFrom) = fwdImport src s.retClass from rfl,
                hresolve s src c w hcne (hnotdrop c hyop) hres]
              exact hcv
          rw [this]
          simp
  · -- every relative import finds its module
    intro i hi q hq
    rw [hB1tops] at hi
    simp only [List.mem_append, List.mem_singleton] at hi
    rcases hi with h1 | h1 | h1
    · exact H.imp0 i (by rw [hB0tops]; exact List.mem_append_left _ h1) q hq
    · obtain ⟨i0, hi0, hm, hl⟩ := keep_provenance _ pre0 i h1
      rw [relModule_congr i0 i hm hl] at hq
      exact H.imp0 i0 (by rw [hB0tops]; exact List.mem_append_right _ hi0) q hq
    · subst h1
      simp [relModule, startsWithDot] at hq
  · -- request and response handling
    intro md hmd s src hsh hsrc
    obtain ⟨hyop, hyvars⟩ := H.hyg2 md hmd s hsh
    unfold opSourceName at hyop
    have hmd0 := hwell0 md hmd
    constructor
    · unfold request
      have hop' : (withImport s (fwdImport src s.retClass)).op = s.op := rfl
      have hon : (withImport s (fwdImport src s.retClass)).opName = s.opName := rfl
      have hvv : (withImport s (fwdImport src s.retClass)).variables = s.variables := rfl
      rw [hop', hon, hvv]
      cases hop : s.op with
      | inline q ls =>
        rw [hop] at hyop
        simp only at hyop
        have h1 : "gql" ∈ moduleNames ({ body := fr ++ M1.body } : Module) := hkeepB _ H.gql0 (hnotdrop _ hyop)
        simp [H.gql0, h1]
      | const c =>
        rw [hop] at hyop
        simp only at hyop ⊢
        have hcne : c ≠ s.retClass := by
          intro hc
          apply hyop
          rw [hc]
          unfold dropNames
          apply List.mem_append_right
          rw [List.mem_filterMap]
          exact ⟨md, hmd, by rw [hsh]; rfl⟩
        unfold runtimeUnresolved at hmd0
        simp only [hsh, hop] at hmd0
        rw [List.append_eq_nil_iff] at hmd0
        obtain ⟨hmiss, hcm⟩ := hmd0
        rw [hmiss] at hcm
        cases hcv : constValue { client := ({ body := fr ++ M0.body } : Module), ops := ops } s c with
        | none => rw [hcv] at hcm; simp at hcm
        | some val =>
          have : constValue { client := ({ body := fr ++ M1.body } : Module), ops := ops } (withImport s (fwdImport src s.retClass)) c = some val := by
            unfold constValue at hcv ⊢
            cases hres : resolveRuntime { client := ({ body := fr ++ M0.body } : Module), ops := ops } s c with
            | none => rw [hres] at hcv; cases hcv
            | some w =>
              rw [hres] at hcv
              rw [hresolve s src c w hcne (hnotdrop c hyop) hres]
              exact hcv
          rw [this]
    · intro PyV validate getattr d
      unfold respond
      have hb := H.bind md hmd s src hsh hsrc
      have h1 : resolveRuntime { client := ({ body := fr ++ M1.body } : Module), ops := ops } (withImport s (fwdImport src s.retClass))
          (withImport s (fwdImport src s.retClass)).retClass = some (src, s.retClass) := by
        simp [resolveRuntime, withImport, fwdImport, importBindings, alookup, dotted]
      have hp : (withImport s (fwdImport src s.retClass)).proj = s.proj := rfl
      rw [h1, hb, hp]

end Ariadne.C15
