/-
  C14 helper lemmas, part 2: the store of class-level objects.
  * `Pristine st`: every class-level object is as it was right after import (no alias, no inline
    fragments, no variables).
  * an expression that applies no mutator to a class-level object leaves the store untouched;
  * `to_ast` over a pristine store leaves the store untouched;
  hence an operation without such mutations returns the process to the state it found (`runOp_keeps`).
-/
import AriadneModel.Proofs.C14Names

set_option linter.unusedSimpArgs false
set_option linter.unusedVariables false

namespace Ariadne.C14
open Ariadne Ariadne.Builder Ariadne.CustomGen Ariadne.BuilderDoc

def PristineNode (n : Node) : Prop :=
  ∃ r, n = .obj r [] [] ∧ r.vars = [] ∧ r.formatted = []

def Pristine (st : Store) : Prop := ∀ (id : Nat) (n : Node), st[id]? = some n → PristineNode n

theorem set_self {α : Type} : ∀ (l : List α) (i : Nat) (x : α), l[i]? = some x → l.set i x = l
  | [], _, _, h => by simp at h
  | y :: ys, 0, x, h => by
    simp at h
    simp [h]
  | y :: ys, i + 1, x, h => by
    simp at h
    simp [set_self ys i x h]

theorem initStore_pristine (p : Package) : Pristine p.initStore := by
  intro id n h
  unfold Package.initStore at h
  rw [List.getElem?_map] at h
  cases hx : p.sharedList[id]? with
  | none => simp [hx] at h
  | some ca =>
    simp [hx] at h
    exact ⟨_, h.symm, rfl, rfl⟩

/-! ### pointwise lifting through `mapAcc` / `mapFrags` over a store that visits leave untouched -/

inductive All3 (Q : Node → Sel → Node → Prop) : List Node → List Sel → List Node → Prop
  | nil : All3 Q [] [] []
  | cons {n s n' ns ss ns'} : Q n s n' → All3 Q ns ss ns' → All3 Q (n :: ns) (s :: ss) (n' :: ns')

inductive AllF (Q : Node → Sel → Node → Prop) : List Frag → List Sel → List Frag → Prop
  | nil : AllF Q [] [] []
  | cons {ty ns ss ns' fs rest fs'} : All3 Q ns ss ns' → AllF Q fs rest fs' →
      AllF Q (.mk ty ns :: fs) (.frag ty ss :: rest) (.mk ty ns' :: fs')

/-- every successful visit at store `st` returns `st` and satisfies `Q` -/
def VisitQ (st : Store) (f : Visit) (Q : Node → Sel → Node → Prop) : Prop :=
  ∀ used n s n' st' used', f st used n = .ok (s, n', st', used') → st' = st ∧ Q n s n'

theorem mapAcc_all3 {st : Store} {f : Visit} {Q : Node → Sel → Node → Prop} (hf : VisitQ st f Q) :
    ∀ (ns : List Node) (used : List String) ss ns' st' used',
      mapAcc f st used ns = .ok (ss, ns', st', used') → st' = st ∧ All3 Q ns ss ns' := by
  intro ns
  induction ns with
  | nil =>
    intro used ss ns' st' used' h
    simp [mapAcc] at h
    obtain ⟨rfl, rfl, rfl, -⟩ := h
    exact ⟨rfl, .nil⟩
  | cons n ns ih =>
    intro used ss ns' st' used' h
    unfold mapAcc at h
    split at h
    · simp at h
    · rename_i s n1 st1 u1 h1
      obtain ⟨rfl, q1⟩ := hf _ _ _ _ _ _ h1
      split at h
      · simp at h
      · rename_i ss2 ns2 st2 u2 h2
        simp at h
        obtain ⟨rfl, rfl, rfl, -⟩ := h
        obtain ⟨rfl, q2⟩ := ih _ _ _ _ _ h2
        exact ⟨rfl, .cons q1 q2⟩

theorem mapFrags_allF {st : Store} {f : Visit} {Q : Node → Sel → Node → Prop} (hf : VisitQ st f Q) :
    ∀ (fs : List Frag) (used : List String) ss fs' st' used',
      mapFrags f st used fs = .ok (ss, fs', st', used') → st' = st ∧ AllF Q fs ss fs' := by
  intro fs
  induction fs with
  | nil =>
    intro used ss fs' st' used' h
    simp [mapFrags] at h
    obtain ⟨rfl, rfl, rfl, -⟩ := h
    exact ⟨rfl, .nil⟩
  | cons fr fs ih =>
    intro used ss fs' st' used' h
    cases fr with
    | mk ty ns =>
      unfold mapFrags at h
      split at h
      · simp at h
      · rename_i ss1 ns1 st1 u1 h1
        obtain ⟨rfl, q1⟩ := mapAcc_all3 hf _ _ _ _ _ _ h1
        split at h
        · simp at h
        · rename_i rest fs2 st2 u2 h2
          simp at h
          obtain ⟨rfl, rfl, rfl, -⟩ := h
          obtain ⟨rfl, q2⟩ := ih _ _ _ _ _ h2
          exact ⟨rfl, .cons q1 q2⟩

theorem collectVars_nil (idx : Nat) (used : List String) : collectVars idx [] used = .ok ([], used) := rfl

/-- `to_ast` over a pristine store never changes it -/
theorem toAst_keeps {st : Store} (hp : Pristine st) (idx : Nat) :
    ∀ fuel, VisitQ st (toAst fuel idx) (fun _ _ _ => True) := by
  intro fuel
  induction fuel with
  | zero => intro used n s n' st' used' h; simp [toAst] at h
  | succ f ih =>
    intro used n s n' st' used' h
    cases n with
    | obj r subs frags =>
      unfold toAst at h
      split at h
      · simp at h
      · split at h
        · simp at h
        · rename_i ss subs' st1 u2 h2
          obtain ⟨rfl, -⟩ := mapAcc_all3 ih _ _ _ _ _ _ h2
          split at h
          · simp at h
          · rename_i fs frags' st2 u3 h3
            obtain ⟨rfl, -⟩ := mapFrags_allF ih _ _ _ _ _ _ h3
            simp at h
            exact ⟨h.2.2.1.symm, trivial⟩
    | ref id =>
      unfold toAst at h
      split at h
      · simp at h
      · rename_i n0 hn
        obtain ⟨r, rfl, hv, hf⟩ := hp id n0 hn
        split at h
        · simp at h
        · rename_i s1 n1 st1 u1 h1
          simp at h
          obtain ⟨-, -, rfl, -⟩ := h
          obtain ⟨rfl, -⟩ := ih _ _ _ _ _ _ h1
          -- the visit of a pristine leaf returns the same leaf
          obtain ⟨c0, fn0, g0, vars0, fm0, al0⟩ := r
          simp at hv hf
          subst hv hf
          cases f with
          | zero => simp [toAst] at h1
          | succ f' =>
            simp [toAst, collectVars_nil, mapAcc, mapFrags] at h1
            obtain ⟨-, rfl, -⟩ := h1
            exact ⟨set_self _ _ _ hn, trivial⟩

theorem buildSelections_keeps {st : Store} (hp : Pristine st) (fuel : Nat) :
    ∀ (ns : List Node) (idx : Nat) sels ns' st', buildSelections fuel idx st ns = .ok (sels, ns', st') → st' = st := by
  intro ns
  induction ns with
  | nil => intro idx sels ns' st' h; simp [buildSelections] at h; exact h.2.2.symm
  | cons n ns ih =>
    intro idx sels ns' st' h
    unfold buildSelections at h
    split at h
    · simp at h
    · rename_i s n1 st1 u1 h1
      obtain ⟨rfl, -⟩ := toAst_keeps hp idx fuel _ _ _ _ _ _ h1
      split at h
      · simp at h
      · rename_i ss ns2 st2 h2
        simp at h
        obtain ⟨-, -, rfl⟩ := h
        exact ih _ _ _ _ h2

/-! ### expressions that do not mutate class-level objects -/

theorem mutate_obj (f : Node → Node) (r : Rec) (subs : List Node) (frags : List Frag) (st : Store) :
    mutate f (.obj r subs frags) st = (f (.obj r subs frags), st) := rfl

def IsObj (n : Node) : Prop := ∃ r s f, n = .obj r s f

theorem setAlias_isObj {al : String} {n : Node} (h : IsObj n) : IsObj (setAlias al n) := by
  obtain ⟨r, s, f, rfl⟩ := h; exact ⟨_, _, _, rfl⟩
theorem extendSubs_isObj {cs : List Node} {n : Node} (h : IsObj n) : IsObj (extendSubs cs n) := by
  obtain ⟨r, s, f, rfl⟩ := h; exact ⟨_, _, _, rfl⟩
theorem setFrag_isObj {ty : String} {cs : List Node} {n : Node} (h : IsObj n) : IsObj (setFrag ty cs n) := by
  obtain ⟨r, s, f, rfl⟩ := h; exact ⟨_, _, _, rfl⟩

mutual
  /-- no mutator on a class-level object ⇒ the store is returned unchanged; and an expression that does
      not start from a class-level attribute evaluates to an owned object -/
  theorem evalExpr_noMut (p : Package) : ∀ (e : Expr) (st : Store), mutatesShared e = false →
      (evalExpr p e st).2 = st ∧
      (exprIsAttr (exprBase e) = false → ∀ n, (evalExpr p e st).1 = .ok n → IsObj n)
    | .attr cls a, st, _ => by
      refine ⟨?_, fun h => by simp [exprBase, exprIsAttr] at h⟩
      simp only [evalExpr]
      split <;> try rfl
      split <;> try rfl
      split <;> try rfl
      split <;> rfl
    | .call cls a kw, st, _ => by
      refine ⟨?_, ?_⟩
      · simp only [evalExpr]
        split <;> try rfl
        split <;> try rfl
        split <;> try rfl
        split <;> rfl
      · intro _ n hn
        simp only [evalExpr] at hn
        split at hn <;> try (simp at hn)
        split at hn <;> try (simp at hn)
        split at hn <;> try (simp at hn)
        split at hn <;> try (simp at hn)
        subst hn
        exact ⟨_, _, _, rfl⟩
    | .alias e al, st, h => by
      simp only [mutatesShared, Bool.or_eq_false_iff] at h
      obtain ⟨hb, hm⟩ := h
      obtain ⟨ih1, ih2⟩ := evalExpr_noMut p e st hm
      have key : ∀ r st1, evalExpr p e st = (r, st1) → st1 = st := by
        intro r st1 hh; rw [hh] at ih1; exact ih1
      refine ⟨?_, ?_⟩
      · simp only [evalExpr]
        rcases hh : evalExpr p e st with ⟨r, st1⟩
        have := key r st1 hh
        subst this
        cases r with
        | error x => rfl
        | ok n =>
          obtain ⟨r0, s0, f0, rfl⟩ := ih2 hb n (by rw [hh])
          simp only [mutate_obj]
          split <;> rfl
      · intro _ n hn
        simp only [evalExpr] at hn
        rcases hh : evalExpr p e st with ⟨r, st1⟩
        rw [hh] at hn
        cases r with
        | error x => simp at hn
        | ok n0 =>
          obtain ⟨r0, s0, f0, rfl⟩ := ih2 hb n0 (by rw [hh])
          simp only [mutate_obj] at hn
          split at hn
          · simp at hn; subst hn; exact ⟨_, _, _, rfl⟩
          · simp at hn
    | .fields e cs, st, h => by
      simp only [mutatesShared, Bool.or_eq_false_iff] at h
      obtain ⟨⟨hb, hm⟩, hcs⟩ := h
      obtain ⟨ih1, ih2⟩ := evalExpr_noMut p e st hm
      have key : ∀ r st1, evalExpr p e st = (r, st1) → st1 = st := by
        intro r st1 hh; rw [hh] at ih1; exact ih1
      refine ⟨?_, ?_⟩
      · simp only [evalExpr]
        rcases hh : evalExpr p e st with ⟨r, st1⟩
        have := key r st1 hh
        subst this
        cases r with
        | error x => rfl
        | ok n =>
          obtain ⟨r0, s0, f0, rfl⟩ := ih2 hb n (by rw [hh])
          simp only []
          split
          · have il := evalList_noMut p cs st1 hcs
            rcases hl : evalList p cs st1 with ⟨rl, st2⟩
            rw [hl] at il
            simp at il
            subst il
            cases rl with
            | error x => rfl
            | ok ns => simp [mutate_obj]
          · rfl
      · intro _ n hn
        simp only [evalExpr] at hn
        rcases hh : evalExpr p e st with ⟨r, st1⟩
        rw [hh] at hn
        cases r with
        | error x => simp at hn
        | ok n0 =>
          obtain ⟨r0, s0, f0, rfl⟩ := ih2 hb n0 (by rw [hh])
          simp only [] at hn
          split at hn
          · rcases hl : evalList p cs st1 with ⟨rl, st2⟩
            rw [hl] at hn
            cases rl with
            | error x => simp at hn
            | ok ns => simp [mutate_obj] at hn; subst hn; exact ⟨_, _, _, rfl⟩
          · simp at hn
    | .on e ty cs, st, h => by
      simp only [mutatesShared, Bool.or_eq_false_iff] at h
      obtain ⟨⟨hb, hm⟩, hcs⟩ := h
      obtain ⟨ih1, ih2⟩ := evalExpr_noMut p e st hm
      have key : ∀ r st1, evalExpr p e st = (r, st1) → st1 = st := by
        intro r st1 hh; rw [hh] at ih1; exact ih1
      refine ⟨?_, ?_⟩
      · simp only [evalExpr]
        rcases hh : evalExpr p e st with ⟨r, st1⟩
        have := key r st1 hh
        subst this
        cases r with
        | error x => rfl
        | ok n =>
          obtain ⟨r0, s0, f0, rfl⟩ := ih2 hb n (by rw [hh])
          simp only []
          split
          · have il := evalList_noMut p cs st1 hcs
            rcases hl : evalList p cs st1 with ⟨rl, st2⟩
            rw [hl] at il
            simp at il
            subst il
            cases rl with
            | error x => rfl
            | ok ns => simp [mutate_obj]
          · rfl
      · intro _ n hn
        simp only [evalExpr] at hn
        rcases hh : evalExpr p e st with ⟨r, st1⟩
        rw [hh] at hn
        cases r with
        | error x => simp at hn
        | ok n0 =>
          obtain ⟨r0, s0, f0, rfl⟩ := ih2 hb n0 (by rw [hh])
          simp only [] at hn
          split at hn
          · rcases hl : evalList p cs st1 with ⟨rl, st2⟩
            rw [hl] at hn
            cases rl with
            | error x => simp at hn
            | ok ns => simp [mutate_obj] at hn; subst hn; exact ⟨_, _, _, rfl⟩
          · simp at hn
  theorem evalList_noMut (p : Package) : ∀ (es : List Expr) (st : Store), mutatesSharedList es = false →
      (evalList p es st).2 = st
    | [], st, _ => rfl
    | e :: es, st, h => by
      simp only [mutatesSharedList, Bool.or_eq_false_iff] at h
      obtain ⟨h1, h2⟩ := h
      have i1 := (evalExpr_noMut p e st h1).1
      simp only [evalList]
      rcases hh : evalExpr p e st with ⟨r, st1⟩
      rw [hh] at i1
      simp at i1
      subst i1
      cases r with
      | error x => rfl
      | ok n =>
        have i2 := evalList_noMut p es st1 h2
        rcases hl : evalList p es st1 with ⟨rl, st2⟩
        rw [hl] at i2
        simp at i2
        subst i2
        cases rl <;> simp [hl]
end

/-- an operation that applies no mutator to a class-level object gives a pristine process back -/
theorem runOp_keeps (p : Package) (op : Op) (st : Store) (hp : Pristine st) (h : opMutatesShared op = false) :
    (runOp p op st).2 = st := by
  unfold runOp
  have i := evalList_noMut p op.fields st h
  rcases hl : evalList p op.fields st with ⟨rl, st1⟩
  rw [hl] at i
  simp at i
  subst i
  cases rl with
  | error x => rfl
  | ok nodes =>
    simp only []
    cases he : execOp op.opType op.name st1 nodes with
    | error x => rfl
    | ok ds =>
      obtain ⟨d, st2⟩ := ds
      simp only []
      unfold execOp at he
      split at he
      · simp at he
      · rename_i sels nodes' st' hb
        split at he
        · simp at he
        · simp at he
          rw [← he.2]
          exact buildSelections_keeps hp _ _ _ _ _ _ hb

theorem runOpsFrom_append (p : Package) : ∀ (a b : List Op) (st : Store),
    runOpsFrom p (a ++ b) st = runOpsFrom p a st ++ runOpsFrom p b (a.foldl (fun s o => (runOp p o s).2) st)
  | [], b, st => rfl
  | o :: a, b, st => by
    simp only [List.cons_append, runOpsFrom, List.foldl_cons]
    rw [runOpsFrom_append p a b]

theorem fold_keeps (p : Package) : ∀ (H : List Op) (st : Store), Pristine st →
    (∀ op ∈ H, opMutatesShared op = false) → H.foldl (fun s o => (runOp p o s).2) st = st
  | [], st, _, _ => rfl
  | o :: H, st, hp, h => by
    simp only [List.foldl_cons]
    rw [runOp_keeps p o st hp (h o (by simp))]
    exact fold_keeps p H st hp (fun op hop => h op (by simp [hop]))

end Ariadne.C14
