/-
  Proofs/C01Plain.lean — property C01, "plain selections" tier: the main theorems.

  For a selection set consisting only of FIELDS (no fragment spreads, no inline fragments) whose fields are
  leaf-typed (scalar / enum under any list / non-null wrappers, no sub-selection) or object-typed (any
  wrappers, with a sub-selection that is again plain) — aliases and `@skip` / `@include` allowed — and that
  satisfies the decidable predicate `PlainOK` (Proofs/C01PlainDefs.lean):

    (1) `plain_generation`: `_parse_type_definition` succeeds for every fuel `≥ gfuel sel` and returns exactly
        the structurally defined `plainClasses env cn tn sel` (head class named `cn`); the generator state
        changes only in `publicNames` (the new class names are appended), `usedEnums`, `usedScalars`;
    (2) `plain_roundtrip`: every JSON value `j` that a conformant executor can return for the selection set
        (`Exec.respOK`, any executor fuel, any fragment table) and that has NO DUPLICATE OBJECT KEYS
        (`nodupKeys j`, hereditarily) is accepted by the root model, and the dump equals `j` up to the order
        of object members (`J.eqv (Pyd.dump v) j = true`), for every validation fuel `≥ vneed env tn sel + 1`;
    (3) `C01_plain`: both together, in the shape of the property statement.

  About `nodupKeys j`: `Exec.respOK` judges an association list by its FIRST binding of every key, and
  `J.eqv` compares lengths, so without this hypothesis the conclusion is false (`dupKey_counterexample`
  below); JSON objects decoded by the harness never have duplicate keys (Model/Json.lean).

  What `PlainOK env cn tn sid sel st` demands beyond "plain" (each item is needed, see the comments in
  C01PlainDefs.lean):
    * every field exists on its parent type; no field is `__typename` (generator and executor both treat it
      specially; for nested classes the generator passes non-empty `typename values`, which changes its annotation);
    * leaf field ⇔ empty sub-selection; leaf = scalar that is NOT configured as custom scalar, or enum;
      object field ⇔ non-empty sub-selection, the base type has kind OBJECT;
    * no `@mixin` directive on a field;
    * per selection set: response keys pairwise distinct, Python names pairwise distinct, and the Python name of
      an aliased field (python name ≠ response key) is not the response key of another field of the same
      selection set (pydantic `populate_by_name` would otherwise read the other field's value when the
      aliased, conditional field is absent);
    * all generated class names (parent class name ++ pascal(python name)) pairwise distinct and not in
      `st.publicNames`;
    * neither `sid` nor the `sid` of a sub-selection set is in `st.marks` (a selection-set object that already
      carries an automatic `__typename` from an earlier generation gets a required `typename__` field).
  The kind of the TOP type `tn` is not constrained (only its fields are looked up).

  Hypotheses on the pydantic environment (`PenvOK`): it agrees with the schema on enums
  (`ResultLeaf.EnvAgrees`), looking up the name of each generated class gives that class (`PenvOK.of_mem`:
  the classes are among `penv.classes` and no other class there has one of their names), and there is no
  class called `BaseModel` (the generated classes inherit from pydantic's `BaseModel`, which has no fields).
-/
import AriadneModel.Proofs.C01PlainVal

set_option linter.unusedSimpArgs false
set_option linter.unusedVariables false

namespace Ariadne.C01Plain
open Ariadne Ariadne.Gql Ariadne.ResultTypes Ariadne.Util Ariadne.Pyd

/-- hypotheses on the pydantic environment in which the generated classes are used -/
structure PenvOK (env : ResultTypes.Env) (penv : Pyd.Env) (classes : List ClassDecl) : Prop where
  agrees : ResultLeaf.EnvAgrees env penv
  has : ∀ c ∈ classes, penv.class? c.name = some c
  noBaseModel : penv.class? "BaseModel" = none

/-- `has` from: the classes are in the environment, and nothing else there has one of their names -/
theorem PenvOK.of_mem (env : ResultTypes.Env) (penv : Pyd.Env) (classes : List ClassDecl)
    (agrees : ResultLeaf.EnvAgrees env penv) (noBaseModel : penv.class? "BaseModel" = none)
    (hmem : ∀ c ∈ classes, c ∈ penv.classes)
    (huniq : ∀ c ∈ classes, ∀ d ∈ penv.classes, d.name = c.name → d = c) : PenvOK env penv classes := by
  refine ⟨agrees, ?_, noBaseModel⟩
  intro c hc
  unfold Pyd.Env.class?
  cases hf : penv.classes.find? (·.name == c.name) with
  | none =>
    have := List.find?_eq_none.mp hf c (hmem c hc)
    simp at this
  | some d =>
    have hd := List.mem_of_find?_eq_some hf
    have hn := List.find?_some hf
    rw [huniq c hc d hd (by simpa using hn)]

theorem eq_of_nodup_names : ∀ (cs : List ClassDecl), (cs.map (·.name)).Nodup →
    ∀ c ∈ cs, ∀ d ∈ cs, d.name = c.name → d = c
  | [], _, c, hc, _, _, _ => by cases hc
  | x :: xs, h, c, hc, d, hd, e => by
    simp only [List.map_cons, List.nodup_cons] at h
    rcases List.mem_cons.mp hc with hc1 | hc1 <;> rcases List.mem_cons.mp hd with hd1 | hd1
    · rw [hc1, hd1]
    · subst hc1
      have : c.name ∈ xs.map (·.name) := List.mem_map.mpr ⟨d, hd1, e⟩
      exact absurd this h.1
    · subst hd1
      have : d.name ∈ xs.map (·.name) := List.mem_map.mpr ⟨c, hc1, e.symm⟩
      exact absurd this h.1
    · exact eq_of_nodup_names xs h.2 c hc1 d hd1 e

/-- `has` from: the classes are in the environment, whose class names are pairwise distinct -/
theorem PenvOK.of_nodup (env : ResultTypes.Env) (penv : Pyd.Env) (classes : List ClassDecl)
    (agrees : ResultLeaf.EnvAgrees env penv) (noBaseModel : penv.class? "BaseModel" = none)
    (hmem : ∀ c ∈ classes, c ∈ penv.classes) (hnd : (penv.classes.map (·.name)).Nodup) : PenvOK env penv classes :=
  PenvOK.of_mem env penv classes agrees noBaseModel hmem
    (fun c hc d hd e => eq_of_nodup_names penv.classes hnd c (hmem c hc) d hd e)

theorem PlainOK_spec {env : ResultTypes.Env} {cn tn : String} {sid : Nat} {sel : List Selection} {st : St}
    (h : PlainOK env cn tn sid sel st = true) :
    st.marks.contains sid = false ∧ setOK env sel = true ∧ plainLocal env st.marks cn tn sel = true ∧
    ((plainClasses env cn tn sel).map (·.name)).Nodup ∧
    (∀ n ∈ (plainClasses env cn tn sel).map (·.name), n ∉ st.publicNames) := by
  simp only [PlainOK, Bool.and_eq_true, Bool.not_eq_true', nodupB_iff, List.all_eq_true,
    List.contains_eq_mem, decide_eq_false_iff_not] at h
  obtain ⟨⟨⟨⟨h1, h2⟩, h3⟩, h4⟩, h5⟩ := h
  exact ⟨by simpa using h1, h2, h3, h4, h5⟩

/-- **(1) generation succeeds and is the clean generator** (for every `typename values` argument `tv`) -/
theorem plain_generation (env : ResultTypes.Env) (cn tn : String) (sid : Nat) (sel : List Selection) (st : St)
    (h : PlainOK env cn tn sid sel st = true) (tv : List String) (fuel : Nat) (hfuel : gfuel sel ≤ fuel) :
    ∃ st', parseTypeDefinition env fuel cn tn sid sel false [] tv st = .ok (plainClasses env cn tn sel, st') ∧
      st'.publicNames = st.publicNames ++ (plainClasses env cn tn sel).map (·.name) ∧
      st'.marks = st.marks := by
  obtain ⟨h1, _, h3, h4, h5⟩ := PlainOK_spec h
  exact gen_spec env fuel cn tn sid sel tv st hfuel h1 h3 h4 h5

/-- **(2) every conformant response is accepted and dumped back** -/
theorem plain_roundtrip (env : ResultTypes.Env) (cn tn : String) (sid : Nat) (sel : List Selection) (st : St)
    (h : PlainOK env cn tn sid sel st = true)
    (penv : Pyd.Env) (hp : PenvOK env penv (plainClasses env cn tn sel))
    (frags : List Fragment) (efuel : Nat) (j : J)
    (hresp : Exec.respOK env.schema frags efuel tn sel j = true) (hj : nodupKeys j = true)
    (vfuel : Nat) (hv : vneed env tn sel + 1 ≤ vfuel) :
    ∃ v, Pyd.validate penv vfuel (.cls cn) j = .ok v ∧ J.eqv (Pyd.dump v) j = true := by
  obtain ⟨_, h2, h3, _, _⟩ := PlainOK_spec h
  exact val_spec env penv frags hp.agrees hp.noBaseModel efuel st.marks cn tn sel j h2 h3 hp.has hresp hj vfuel hv

/-- **C01, plain-selections tier** -/
theorem C01_plain (env : ResultTypes.Env) (cn tn : String) (sid : Nat) (sel : List Selection) (st : St)
    (h : PlainOK env cn tn sid sel st = true) :
    ∃ classes : List ClassDecl,
      -- (1) generation succeeds for every sufficiently large fuel, the root class comes first
      (∀ fuel, gfuel sel ≤ fuel →
        ∃ st', parseTypeDefinition env fuel cn tn sid sel false [] [] st = .ok (classes, st')) ∧
      classes.head?.map (·.name) = some cn ∧
      -- (2) every answer of a conformant server is accepted and preserved
      (∀ (penv : Pyd.Env), PenvOK env penv classes →
        ∀ (efuel : Nat) (j : J), Exec.respOK env.schema [] efuel tn sel j = true → nodupKeys j = true →
        ∀ vfuel, vneed env tn sel + 1 ≤ vfuel →
          ∃ v, Pyd.validate penv vfuel (.cls cn) j = .ok v ∧ J.eqv (Pyd.dump v) j = true) := by
  refine ⟨plainClasses env cn tn sel, ?_, rfl, ?_⟩
  · intro fuel hfuel
    obtain ⟨st', hst, _⟩ := plain_generation env cn tn sid sel st h [] fuel hfuel
    exact ⟨st', hst⟩
  · intro penv hp efuel j hresp hj vfuel hv
    exact plain_roundtrip env cn tn sid sel st h penv hp [] efuel j hresp hj vfuel hv

/-! ### a concrete input satisfying `PlainOK`

    query Q($a: Boolean!, $b: Boolean!) {
      me { id givenName: firstName role friends @include(if: $a) { id } }
      everyone: users { id firstName @skip(if: $b) }
    }
-/

def exSchema : Schema :=
  { types := [
      { name := "Query", kind := .object,
        fields := [{ name := "me", type := .named "User" },
                   { name := "users", type := .nonNull (.list (.nonNull (.named "User"))) }] },
      { name := "User", kind := .object,
        fields := [{ name := "id", type := .nonNull (.named "ID") },
                   { name := "firstName", type := .named "String" },
                   { name := "role", type := .nonNull (.named "Role") },
                   { name := "friends", type := .list (.named "User") }] },
      { name := "Role", kind := .enum, values := ["ADMIN", "USER"] }],
    query := some "Query" }

def exEnv : ResultTypes.Env := { schema := exSchema, frags := [] }

def exSel : List Selection :=
  [ .field none "me" [] 2
      [ .field none "id" [] 0 [],
        .field (some "givenName") "firstName" [] 0 [],
        .field none "role" [] 0 [],
        .field none "friends" [{ name := "include", args := [("if", none)] }] 3 [.field none "id" [] 0 []] ],
    .field (some "everyone") "users" [] 4
      [ .field none "id" [] 0 [],
        .field none "firstName" [{ name := "skip", args := [("if", none)] }] 0 [] ] ]

/-- nested object field (`me`), list of objects (`users`, `friends`), aliased fields (`givenName`, `everyone`),
    conditional fields (`friends`, `firstName`), an enum leaf (`role`) -/
example : PlainOK exEnv "Q" "Query" 1 exSel {} = true := by decide +kernel

example : (plainClasses exEnv "Q" "Query" exSel).map (·.name) = ["Q", "QMe", "QMeFriends", "QEveryone"] := by
  decide +kernel

def exResp : J :=
  .obj [("everyone", .arr [.obj [("id", .str "1")], .obj [("firstName", .null), ("id", .str "2")]]),
        ("me", .obj [("id", .str "1"), ("givenName", .str "Ada"), ("role", .str "ADMIN"),
                     ("friends", .arr [.null, .obj [("id", .str "2")]])])]

example : Exec.respOK exSchema [] 5 "Query" exSel exResp = true ∧ nodupKeys exResp = true := by decide +kernel

def exPenv : Pyd.Env := { classes := plainClasses exEnv "Q" "Query" exSel, enums := [("Role", ["ADMIN", "USER"])] }

/-- the conclusion, computed on the example (the model of the generator produces these very classes) -/
example :
    (match parseTypeDefinition exEnv 10 "Q" "Query" 1 exSel false [] [] {} with
     | .ok (cs, _) => (cs.map (·.name)) == exPenv.classes.map (·.name)
     | .error _ => false) = true
    ∧ (match Pyd.validate exPenv 20 (.cls "Q") exResp with
       | .ok v => J.eqv (Pyd.dump v) exResp
       | .error _ => false) = true := by decide +kernel

/-! the hypotheses of the theorem hold for the example (non-vacuity), and the theorem applies -/

theorem ex_kind_enum (n : String) (h : exSchema.kindOf? n = some .enum) : n = "Role" := by
  by_cases h1 : n = "Query"
  · subst h1; revert h; decide
  by_cases h2 : n = "User"
  · subst h2; revert h; decide
  by_cases h3 : n = "Role"
  · exact h3
  · have h1' : ("Query" == n) = false := by simpa using fun e => h1 e.symm
    have h2' : ("User" == n) = false := by simpa using fun e => h2 e.symm
    have h3' : ("Role" == n) = false := by simpa using fun e => h3 e.symm
    simp [Schema.kindOf?, Schema.get?, exSchema, List.find?, h1', h2', h3'] at h

theorem exAgrees : ResultLeaf.EnvAgrees exEnv exPenv := by
  constructor
  · intro n t hg hk
    have : exSchema.kindOf? n = some .enum := by
      show (exSchema.get? n).map (·.kind) = _
      rw [show exEnv.schema = exSchema from rfl] at hg
      rw [hg]; simp [hk]
    have hn := ex_kind_enum n this
    subst hn
    have : t = { name := "Role", kind := .enum, values := ["ADMIN", "USER"] } := by
      have h2 : exEnv.schema.get? "Role" = some { name := "Role", kind := .enum, values := ["ADMIN", "USER"] } := by
        decide +kernel
      rw [h2] at hg; exact (Option.some.inj hg).symm
    subst this
    decide +kernel
  · intro n h
    have hn := ex_kind_enum n h
    subst hn
    decide
  · intro n h
    rcases h with rfl | rfl | rfl | rfl | rfl <;> decide +kernel
  · intro n h
    by_cases hr : n = "Role"
    · subst hr; exact absurd (by decide +kernel) h
    · right
      have : ("Role" == n) = false := by simpa using fun e => hr e.symm
      simp [Pyd.Env.enum?, exPenv, List.find?, this]

theorem exPenvOK : PenvOK exEnv exPenv (plainClasses exEnv "Q" "Query" exSel) :=
  PenvOK.of_nodup exEnv exPenv _ exAgrees (by decide +kernel) (fun c hc => hc)
    ((nodupB_iff _).mp (by decide +kernel))

example : ∃ v, Pyd.validate exPenv 20 (.cls "Q") exResp = .ok v ∧ J.eqv (Pyd.dump v) exResp = true :=
  plain_roundtrip exEnv "Q" "Query" 1 exSel {} (by decide +kernel) exPenv exPenvOK [] 5 exResp
    (by decide +kernel) (by decide +kernel) 20 (by decide +kernel)

/-- why `nodupKeys` is needed: an association list with a repeated key passes `Exec.respOK` (first binding),
    is accepted, but the dump (one member) is not `J.eqv` to it (two members) -/
theorem dupKey_counterexample :
    Exec.respOK exSchema [] 5 "User" [.field none "id" [] 0 []] (.obj [("id", .str "1"), ("id", .str "2")]) = true
    ∧ PlainOK exEnv "U" "User" 1 [.field none "id" [] 0 []] {} = true
    ∧ (match Pyd.validate { classes := plainClasses exEnv "U" "User" [.field none "id" [] 0 []], enums := [] } 20 (.cls "U")
          (.obj [("id", .str "1"), ("id", .str "2")]) with
       | .ok v => J.eqv (Pyd.dump v) (.obj [("id", .str "1"), ("id", .str "2")])
       | .error _ => false) = false := by decide +kernel

end Ariadne.C01Plain
