/-
  Proofs/C01MixVal.lean — property C01, "mixin" tier, part (2): the classes `mClass` together with the fragment classes
  accept every response a conformant executor can give, and dump it back.
-/
import AriadneModel.Proofs.C01MixGen
import AriadneModel.Proofs.C01PlainVal

set_option linter.unusedSimpArgs false
set_option linter.unusedVariables false

namespace Ariadne.C01Mix
open Ariadne Ariadne.Gql Ariadne.ResultTypes Ariadne.Util Ariadne.Pyd Ariadne.C01Plain

/-! ### `mflat` -/

theorem mflat_succ (env : ResultTypes.Env) (k : Nat) (cn : String) (sel : List Selection) :
    mflat env (k + 1) cn sel = sel.flatMap fun s =>
      match s with
      | .field a n d sid sub => [(cn, .field a n d sid sub)]
      | .spread n _ =>
        match findFragment? env.frags n with
        | some f => mflat env k (pascal f.name) f.sel
        | none => []
      | _ => [] := rfl

theorem mfull_succ (env : ResultTypes.Env) (k : Nat) (tn : String) (sel : List Selection) :
    mfull env (k + 1) tn sel = sel.all fun s =>
      match s with
      | .field _ name _ _ sub => sub.isEmpty || mfull env k (subType env tn name) sub
      | .spread n _ =>
        match findFragment? env.frags n with
        | some f => mfull env k f.on f.sel
        | none => false
      | _ => false := rfl

/-- once the fuel suffices, more fuel changes nothing -/
theorem mfull_mono (env : ResultTypes.Env) : ∀ (k : Nat) (tn : String) (sel : List Selection),
    mfull env k tn sel = true → mfull env (k + 1) tn sel = true
  | 0, _, _, h => by simp [mfull] at h
  | k + 1, tn, sel, h => by
    rw [mfull_succ] at h ⊢
    rw [List.all_eq_true] at h ⊢
    intro s hs
    have := h s hs
    cases s with
    | field a n d sid sub =>
      simp only [Bool.or_eq_true] at this ⊢
      rcases this with h1 | h1
      · exact Or.inl h1
      · exact Or.inr (mfull_mono env k _ _ h1)
    | spread n d =>
      cases hf : findFragment? env.frags n with
      | none => simp [hf] at this
      | some f =>
        simp only [hf] at this ⊢
        exact mfull_mono env k _ _ this
    | inline on d sid ss => simp at this

theorem mflat_stable (env : ResultTypes.Env) : ∀ (k : Nat) (tn cn : String) (sel : List Selection),
    mfull env k tn sel = true → mflat env (k + 1) cn sel = mflat env k cn sel
  | 0, _, _, _, h => by simp [mfull] at h
  | k + 1, tn, cn, sel, h => by
    rw [mfull_succ, List.all_eq_true] at h
    rw [mflat_succ env (k + 1), mflat_succ env k]
    apply flatMap_congr'
    intro s hs
    have := h s hs
    cases s with
    | field a n d sid sub => rfl
    | spread n d =>
      cases hf : findFragment? env.frags n with
      | none => simp only [hf]
      | some f =>
        simp only [hf] at this ⊢
        exact mflat_stable env k f.on _ _ this
    | inline on d sid ss => rfl

theorem mflat_stable_le (env : ResultTypes.Env) (k : Nat) (tn cn : String) (sel : List Selection)
    (h : mfull env k tn sel = true) : ∀ j, mflat env (k + j) cn sel = mflat env k cn sel
  | 0 => rfl
  | j + 1 => by
    have hm : ∀ i, mfull env (k + i) tn sel = true := by
      intro i
      induction i with
      | zero => exact h
      | succ i ih => exact mfull_mono env _ _ _ ih
    rw [← Nat.add_assoc, mflat_stable env (k + j) tn cn sel (hm j)]
    exact mflat_stable_le env k tn cn sel h j

theorem mflat_eq_of_le (env : ResultTypes.Env) (k k' : Nat) (tn cn : String) (sel : List Selection)
    (h : mfull env k tn sel = true) (hk : k ≤ k') : mflat env k' cn sel = mflat env k cn sel := by
  obtain ⟨j, rfl⟩ : ∃ j, k' = k + j := ⟨k' - k, by omega⟩
  exact mflat_stable_le env k tn cn sel h j

theorem mfullS_succ (env : ResultTypes.Env) (k : Nat) (sel : List Selection) :
    mfullS env (k + 1) sel = sel.all fun s =>
      match s with
      | .spread n _ =>
        match findFragment? env.frags n with
        | some f => mfullS env k f.sel
        | none => false
      | _ => true := rfl

theorem mfullS_mono (env : ResultTypes.Env) : ∀ (k : Nat) (sel : List Selection),
    mfullS env k sel = true → mfullS env (k + 1) sel = true
  | 0, _, h => by simp [mfullS] at h
  | k + 1, sel, h => by
    rw [mfullS_succ] at h ⊢
    rw [List.all_eq_true] at h ⊢
    intro s hs
    have := h s hs
    cases s with
    | field a n d sid sub => rfl
    | spread n d =>
      cases hf : findFragment? env.frags n with
      | none => simp [hf] at this
      | some f =>
        simp only [hf] at this ⊢
        exact mfullS_mono env k _ this
    | inline on d sid ss => rfl

theorem mflat_stableS (env : ResultTypes.Env) : ∀ (k : Nat) (cn : String) (sel : List Selection),
    mfullS env k sel = true → mflat env (k + 1) cn sel = mflat env k cn sel
  | 0, _, _, h => by simp [mfullS] at h
  | k + 1, cn, sel, h => by
    rw [mfullS_succ, List.all_eq_true] at h
    rw [mflat_succ env (k + 1), mflat_succ env k]
    apply flatMap_congr'
    intro s hs
    have := h s hs
    cases s with
    | field a n d sid sub => rfl
    | spread n d =>
      cases hf : findFragment? env.frags n with
      | none => simp only [hf]
      | some f =>
        simp only [hf] at this ⊢
        exact mflat_stableS env k _ _ this
    | inline on d sid ss => rfl

theorem mflat_eq_of_leS (env : ResultTypes.Env) (k k' : Nat) (cn : String) (sel : List Selection)
    (h : mfullS env k sel = true) (hk : k ≤ k') : mflat env k' cn sel = mflat env k cn sel := by
  obtain ⟨j, rfl⟩ : ∃ j, k' = k + j := ⟨k' - k, by omega⟩
  induction j with
  | zero => rfl
  | succ j ih =>
    have hm : ∀ i, mfullS env (k + i) sel = true := by
      intro i
      induction i with
      | zero => exact h
      | succ i ih' => exact mfullS_mono env _ _ ih'
    rw [← Nat.add_assoc, mflat_stableS env (k + j) cn sel (hm j)]
    exact ih (by omega)

theorem mflat_eq_both (env : ResultTypes.Env) (a b : Nat) (cn : String) (sel : List Selection)
    (ha : mfullS env a sel = true) (hb : mfullS env b sel = true) : mflat env a cn sel = mflat env b cn sel := by
  rcases Nat.le_total a b with h | h
  · exact (mflat_eq_of_leS env a b cn sel ha h).symm
  · exact mflat_eq_of_leS env b a cn sel hb h

theorem mfullS_of_mfull (env : ResultTypes.Env) : ∀ (k : Nat) (tn : String) (sel : List Selection),
    mfull env k tn sel = true → mfullS env k sel = true
  | 0, _, _, h => by simp [mfull] at h
  | k + 1, tn, sel, h => by
    rw [mfull_succ, List.all_eq_true] at h
    rw [mfullS_succ, List.all_eq_true]
    intro s hs
    have := h s hs
    cases s with
    | field a n d sid sub => rfl
    | spread n d =>
      cases hf : findFragment? env.frags n with
      | none => simp [hf] at this
      | some f =>
        simp only [hf] at this ⊢
        exact mfullS_of_mfull env k _ _ this
    | inline on d sid ss => rfl

/-- what the members of `mflat` are: own field nodes, or field nodes of a fragment on the same type; all satisfy the local
    conditions -/
theorem mflat_mem (env : ResultTypes.Env) (K : Nat) (hfr : FragsOK env K) : ∀ (k : Nat) (cn tn : String) (sel : List Selection),
    mLocal env K cn tn sel = true →
    ∀ o x, (o, x) ∈ mflat env k cn sel →
      isField x = true ∧ mLocal1 env K o tn x = true ∧
      ((o = cn ∧ x ∈ sel) ∨ (∃ f ∈ env.frags, o = pascal f.name ∧ x ∈ f.sel ∧ f.on = tn))
  | 0, _, _, _, _, o, x, h => by simp [mflat] at h
  | k + 1, cn, tn, sel, hloc, o, x, h => by
    rw [mflat_succ] at h
    obtain ⟨s, hs, hxs⟩ := List.mem_flatMap.mp h
    have hl1 := (mLocal_iff env K cn tn sel).mp hloc s hs
    cases s with
    | field a n d sid sub =>
      simp only [List.mem_singleton, Prod.mk.injEq] at hxs
      obtain ⟨rfl, rfl⟩ := hxs
      exact ⟨rfl, hl1, Or.inl ⟨rfl, hs⟩⟩
    | inline on d sid ss => simp at hxs
    | spread n d =>
      obtain ⟨_, f, hf, hon⟩ := mLocal1_spread hl1
      simp only [hf] at hxs
      obtain ⟨_, _, _, hlocf, _⟩ := fragOK_spec (hfr f (find_mem hf).1)
      obtain ⟨h1, h2, h3⟩ := mflat_mem env K hfr k (pascal f.name) f.on f.sel hlocf o x hxs
      rw [hon] at h2 h3
      refine ⟨h1, h2, Or.inr ?_⟩
      rcases h3 with ⟨rfl, hx⟩ | ⟨f', hf', ho, hx, hon'⟩
      · exact ⟨f, (find_mem hf).1, rfl, hx, hon⟩
      · exact ⟨f', hf', ho, hx, hon'⟩

/-! ### CollectFields with mixin spreads -/

theorem collect_succ (S : Schema) (frags : List Fragment) (fuel : Nat) (rt : String) (cond : Bool) (sels : List Selection)
    (acc : List Exec.Collected) :
    Exec.collect S frags (fuel + 1) rt cond sels acc =
      sels.foldl (fun acc s =>
        match s with
        | .field alias name dirs _ sub =>
          Exec.addCollected acc { key := alias.getD name, name := name, subs := sub, conditional := cond || Exec.isConditional dirs }
        | .inline on dirs _ sub =>
          if Exec.applies S on rt then Exec.collect S frags fuel rt (cond || Exec.isConditional dirs) sub acc else acc
        | .spread n dirs =>
          match findFragment? frags n with
          | some f => if Exec.applies S (some f.on) rt then Exec.collect S frags fuel rt (cond || Exec.isConditional dirs) f.sel acc else acc
          | none => acc) acc := rfl

theorem collect_mix (env : ResultTypes.Env) (K : Nat) (hfr : FragsOK env K) (rt : String) :
    ∀ (e : Nat) (cn : String) (sels : List Selection) (acc : List Exec.Collected),
      mLocal env K cn rt sels = true →
      ((mflat env e cn sels).map (fun p => keyOf p.2)).Nodup →
      (∀ p ∈ mflat env e cn sels, ∀ c ∈ acc, c.key ≠ keyOf p.2) →
      Exec.collect env.schema env.frags e rt false sels acc = acc ++ (mflat env e cn sels).map (fun p => collOf p.2)
  | 0, cn, sels, acc, _, _, _ => by simp [Exec.collect, mflat]
  | e + 1, cn, sels, acc, hloc, hnd, hdisj => by
    rw [collect_succ]
    -- induction over the selection list, with the accumulator
    suffices H : ∀ (sels : List Selection) (acc : List Exec.Collected),
        mLocal env K cn rt sels = true →
        ((mflat env (e + 1) cn sels).map (fun p => keyOf p.2)).Nodup →
        (∀ p ∈ mflat env (e + 1) cn sels, ∀ c ∈ acc, c.key ≠ keyOf p.2) →
        sels.foldl (fun acc s =>
          match s with
          | .field alias name dirs _ sub =>
            Exec.addCollected acc { key := alias.getD name, name := name, subs := sub, conditional := false || Exec.isConditional dirs }
          | .inline on dirs _ sub =>
            if Exec.applies env.schema on rt then Exec.collect env.schema env.frags e rt (false || Exec.isConditional dirs) sub acc else acc
          | .spread n dirs =>
            match findFragment? env.frags n with
            | some f => if Exec.applies env.schema (some f.on) rt then
                Exec.collect env.schema env.frags e rt (false || Exec.isConditional dirs) f.sel acc else acc
            | none => acc) acc = acc ++ (mflat env (e + 1) cn sels).map (fun p => collOf p.2) from H sels acc hloc hnd hdisj
    intro sels
    induction sels with
    | nil => intro acc _ _ _; simp [mflat_succ]
    | cons x rest ih =>
      intro acc hloc hnd hdisj
      have hlocs := (mLocal_iff env K cn rt (x :: rest)).mp hloc
      have hx := hlocs x List.mem_cons_self
      have hlocr : mLocal env K cn rt rest = true :=
        (mLocal_iff env K cn rt rest).mpr (fun y hy => hlocs y (List.mem_cons_of_mem _ hy))
      rw [List.foldl_cons]
      have hsplit : mflat env (e + 1) cn (x :: rest) = mflat env (e + 1) cn [x] ++ mflat env (e + 1) cn rest := by
        simp [mflat_succ]
      rw [hsplit, List.map_append, List.nodup_append] at hnd
      obtain ⟨hnd1, hnd2, hnd3⟩ := hnd
      cases x with
      | inline on d sid ss => simp [mLocal1] at hx
      | field alias name dirs sid sub =>
        have h1 : mflat env (e + 1) cn [.field alias name dirs sid sub] = [(cn, .field alias name dirs sid sub)] := by
          simp [mflat_succ]
        rw [h1] at hnd3 hsplit
        simp only []
        rw [addCollected_fresh acc _ (by
          intro c hc
          exact hdisj (cn, .field alias name dirs sid sub) (by rw [hsplit]; simp) c hc)]
        rw [ih _ hlocr hnd2 (by
          intro p hp c hc
          rcases List.mem_append.mp hc with hc | hc
          · exact hdisj p (by rw [hsplit]; exact List.mem_append_right _ hp) c hc
          · have : c = collOf (.field alias name dirs sid sub) := by simpa [collOf] using hc
            subst this
            intro e'
            exact hnd3 (keyOf (.field alias name dirs sid sub)) (by simp) (keyOf p.2) (List.mem_map.mpr ⟨p, hp, rfl⟩) e')]
        rw [hsplit]
        simp [collOf, List.append_assoc]
      | spread n d =>
        obtain ⟨hcond, f, hf, hon⟩ := mLocal1_spread hx
        obtain ⟨_, _, _, hlocf, _⟩ := fragOK_spec (hfr f (find_mem hf).1)
        have h1 : mflat env (e + 1) cn [.spread n d] = mflat env e (pascal f.name) f.sel := by
          simp [mflat_succ, hf]
        rw [h1] at hnd1 hnd3 hsplit
        have happ : Exec.applies env.schema (some f.on) rt = true := by simp [Exec.applies, hon]
        have hc0 : Exec.isConditional d = false := hcond
        simp only [hf, happ, if_true, hc0, Bool.or_false]
        rw [hon] at hlocf
        rw [collect_mix env K hfr rt e (pascal f.name) f.sel acc hlocf hnd1 (by
          intro p hp c hc
          exact hdisj p (by rw [hsplit]; exact List.mem_append_left _ hp) c hc)]
        rw [ih _ hlocr hnd2 (by
          intro p hp c hc
          rcases List.mem_append.mp hc with hc | hc
          · exact hdisj p (by rw [hsplit]; exact List.mem_append_right _ hp) c hc
          · obtain ⟨q, hq, rfl⟩ := List.mem_map.mp hc
            obtain ⟨hqf, _, _⟩ := mflat_mem env K hfr e (pascal f.name) rt f.sel hlocf q.1 q.2 hq
            rw [collOf_key hqf]
            intro e'
            exact hnd3 (keyOf q.2) (List.mem_map.mpr ⟨q, hq, rfl⟩) (keyOf p.2) (List.mem_map.mpr ⟨p, hp, rfl⟩) e')]
        rw [hsplit]
        simp [List.append_assoc]

/-! ### pydantic: inheritance -/

/-- one step of the merge `Pyd.allFields` performs: later lists override earlier ones by Python name -/
def mstep (acc bf : List FieldDecl) : List FieldDecl := acc.filter (fun f => !(bf.any (·.py == f.py))) ++ bf

theorem allFields_succ (penv : Pyd.Env) (fuel : Nat) (cn : String) (c : ClassDecl) (hc : penv.class? cn = some c) :
    allFields penv (fuel + 1) cn = (c.bases.map (allFields penv fuel) ++ [mergeDup c.fields]).foldl mstep [] := by
  simp only [allFields, hc, List.foldl_append, List.foldl_map, List.foldl_cons, List.foldl_nil, mstep]

theorem mem_mstep_foldl (d : FieldDecl) : ∀ (bfs : List (List FieldDecl)) (acc : List FieldDecl),
    d ∈ bfs.foldl mstep acc → d ∈ acc ∨ ∃ bf ∈ bfs, d ∈ bf
  | [], acc, h => Or.inl h
  | bf :: rest, acc, h => by
    rw [List.foldl_cons] at h
    rcases mem_mstep_foldl d rest _ h with h1 | ⟨bf', hb, hd⟩
    · rcases List.mem_append.mp h1 with h2 | h2
      · exact Or.inl (List.mem_filter.mp h2).1
      · exact Or.inr ⟨bf, List.mem_cons_self, h2⟩
    · exact Or.inr ⟨bf', List.mem_cons_of_mem _ hb, hd⟩

theorem nodup_mstep (acc bf : List FieldDecl) (h1 : (acc.map (·.py)).Nodup) (h2 : (bf.map (·.py)).Nodup) :
    ((mstep acc bf).map (·.py)).Nodup := by
  unfold mstep
  rw [List.map_append, List.nodup_append]
  refine ⟨(h1.sublist (List.Sublist.map _ List.filter_sublist)), h2, ?_⟩
  intro a ha b hb e
  obtain ⟨x, hx, rfl⟩ := List.mem_map.mp ha
  obtain ⟨y, hy, rfl⟩ := List.mem_map.mp hb
  have := (List.mem_filter.mp hx).2
  simp only [Bool.not_eq_true', List.any_eq_false] at this
  have := this y hy
  simp [e] at this

theorem nodup_mstep_foldl : ∀ (bfs : List (List FieldDecl)) (acc : List FieldDecl),
    (acc.map (·.py)).Nodup → (∀ bf ∈ bfs, (bf.map (·.py)).Nodup) → ((bfs.foldl mstep acc).map (·.py)).Nodup
  | [], acc, h, _ => h
  | bf :: rest, acc, h, hb => by
    rw [List.foldl_cons]
    exact nodup_mstep_foldl rest _ (nodup_mstep acc bf h (hb bf List.mem_cons_self))
      (fun b hb' => hb b (List.mem_cons_of_mem _ hb'))

theorem mem_mstep_foldl_of (d : FieldDecl) : ∀ (bfs : List (List FieldDecl)) (acc : List FieldDecl),
    (d ∈ acc ∨ ∃ bf ∈ bfs, d ∈ bf) → (∀ bf ∈ bfs, ∀ d' ∈ bf, d'.py = d.py → d' = d) → d ∈ bfs.foldl mstep acc
  | [], acc, h, _ => by
    rcases h with h | ⟨bf, hb, _⟩
    · exact h
    · cases hb
  | bf :: rest, acc, h, hu => by
    rw [List.foldl_cons]
    apply mem_mstep_foldl_of d rest _ _ (fun b hb => hu b (List.mem_cons_of_mem _ hb))
    rcases h with h | ⟨bf', hb, hd⟩
    · -- `d` survives the filter unless `bf` has a declaration of the same Python name — which then is `d` itself
      by_cases hc : (bf.any (·.py == d.py)) = true
      · obtain ⟨d', hd', he⟩ := List.any_eq_true.mp hc
        have := hu bf List.mem_cons_self d' hd' (by simpa using he)
        subst this
        exact Or.inl (List.mem_append_right _ hd')
      · exact Or.inl (List.mem_append_left _ (List.mem_filter.mpr ⟨h, by simpa using hc⟩))
    · rcases List.mem_cons.mp hb with rfl | hb
      · exact Or.inl (List.mem_append_right _ hd)
      · exact Or.inr ⟨bf', hb, hd⟩

/-! ### spread names -/

theorem mem_setAdd_foldl (a : String) : ∀ (l acc : List String), a ∈ l.foldl setAdd acc ↔ a ∈ acc ∨ a ∈ l
  | [], acc => by simp
  | x :: xs, acc => by
    rw [List.foldl_cons, mem_setAdd_foldl a xs]
    unfold setAdd
    by_cases hx : acc.contains x = true
    · have hx' : x ∈ acc := by simpa using hx
      simp only [hx, if_true, List.mem_cons]
      constructor
      · rintro (h | h)
        · exact Or.inl h
        · exact Or.inr (Or.inr h)
      · rintro (h | h | h)
        · exact Or.inl h
        · exact Or.inl (h ▸ hx')
        · exact Or.inr h
    · simp only [hx, Bool.false_eq_true, if_false, List.mem_append, List.mem_cons, List.not_mem_nil, or_false]
      constructor
      · rintro ((h | h) | h)
        · exact Or.inl h
        · exact Or.inr (Or.inl h)
        · exact Or.inr (Or.inr h)
      · rintro (h | h | h)
        · exact Or.inl (Or.inl h)
        · exact Or.inl (Or.inr h)
        · exact Or.inr h

theorem mem_spreadNames (g : String) (sel : List Selection) : g ∈ spreadNames sel ↔ ∃ d, Selection.spread g d ∈ sel := by
  unfold spreadNames
  rw [mem_setAdd_foldl]
  simp only [List.not_mem_nil, false_or, List.mem_filterMap]
  constructor
  · rintro ⟨s, hs, he⟩
    cases s <;> simp [spreadName?] at he
    subst he
    exact ⟨_, hs⟩
  · rintro ⟨d, hd⟩
    exact ⟨_, hd, rfl⟩

theorem mem_sortStr' (a : String) : ∀ l : List String, a ∈ sortStr l ↔ a ∈ l
  | [] => by simp [sortStr]
  | x :: xs => by
    have ih := mem_sortStr' a xs
    simp only [sortStr, List.foldr_cons] at ih ⊢
    have hins : ∀ (l : List String), a ∈ insertSorted x l ↔ a = x ∨ a ∈ l := by
      intro l
      induction l with
      | nil => simp [insertSorted]
      | cons y ys ihl =>
        simp only [insertSorted]
        split
        · simp
        · simp only [List.mem_cons, ihl]
          constructor
          · rintro (h | h | h)
            · exact Or.inr (Or.inl h)
            · exact Or.inl h
            · exact Or.inr (Or.inr h)
          · rintro (h | h | h)
            · exact Or.inr (Or.inl h)
            · exact Or.inl h
            · exact Or.inr (Or.inr h)
    rw [hins, ih]
    simp

/-- what the base classes of a selection set are -/
theorem mem_basesOf {b : String} {sel : List Selection} (h : b ∈ basesOf sel) :
    (b = "BaseModel" ∧ spreadNames sel = []) ∨ ∃ g d, b = pascal g ∧ Selection.spread g d ∈ sel := by
  unfold basesOf at h
  split at h
  · rename_i he
    left
    exact ⟨by simpa using h, by simpa using he⟩
  · right
    obtain ⟨g, hg, rfl⟩ := List.mem_map.mp h
    obtain ⟨d, hd⟩ := (mem_spreadNames g sel).mp ((mem_sortStr' g _).mp hg)
    exact ⟨g, d, rfl, hd⟩

theorem pascal_mem_basesOf {g : String} {d : List Directive} {sel : List Selection} (h : Selection.spread g d ∈ sel) :
    pascal g ∈ basesOf sel := by
  have hm : g ∈ spreadNames sel := (mem_spreadNames g sel).mpr ⟨d, h⟩
  unfold basesOf
  have hne : (spreadNames sel).isEmpty = false := by
    cases hs : spreadNames sel with
    | nil => rw [hs] at hm; cases hm
    | cons x xs => rfl
  simp only [hne, Bool.false_eq_true, if_false]
  exact List.mem_map.mpr ⟨g, (mem_sortStr' g _).mpr hm, rfl⟩

/-! ### sublists of `mflat` -/

theorem sublist_flatMap_of_mem {α β : Type} (g : α → List β) : ∀ (l : List α) (a : α), a ∈ l → (g a).Sublist (l.flatMap g)
  | [], _, h => by cases h
  | x :: xs, a, h => by
    rw [List.flatMap_cons]
    rcases List.mem_cons.mp h with rfl | h
    · exact List.sublist_append_left _ _
    · exact (sublist_flatMap_of_mem g xs a h).trans (List.sublist_append_right _ _)

theorem nodup_of_map {α β : Type} (g : α → β) : ∀ (l : List α), (l.map g).Nodup → l.Nodup
  | [], _ => List.nodup_nil
  | x :: xs, h => by
    simp only [List.map_cons, List.nodup_cons] at h ⊢
    exact ⟨fun hx => h.1 (List.mem_map.mpr ⟨x, hx, rfl⟩), nodup_of_map g xs h.2⟩

theorem inj_of_nodup_map {α β : Type} (g : α → β) : ∀ (l : List α), (l.map g).Nodup → ∀ a ∈ l, ∀ b ∈ l, g a = g b → a = b
  | [], _, a, ha, _, _, _ => by cases ha
  | x :: xs, h, a, ha, b, hb, e => by
    simp only [List.map_cons, List.nodup_cons] at h
    rcases List.mem_cons.mp ha with rfl | ha1 <;> rcases List.mem_cons.mp hb with rfl | hb1
    · rfl
    · exact absurd (List.mem_map.mpr ⟨b, hb1, e.symm⟩) h.1
    · exact absurd (List.mem_map.mpr ⟨a, ha1, e⟩) h.1
    · exact inj_of_nodup_map g xs h.2 a ha1 b hb1 e

/-! ### the fields of a class with mixin bases -/

def pyKey (env : ResultTypes.Env) (p : String × Selection) : String := pyFieldName env (keyOf p.2)

/-- the class generated for the selection set `sel` (own fields, mixin bases) -/
def headClass (env : ResultTypes.Env) (cn tn : String) (sel : List Selection) : ClassDecl :=
  { name := cn, bases := basesOf sel, fields := plainDecls env cn tn sel }

/-- the pydantic environment knows the root class of every fragment -/
def FragClassesIn (env : ResultTypes.Env) (penv : Pyd.Env) : Prop :=
  ∀ f ∈ env.frags, penv.class? (pascal f.name) = some (headClass env (pascal f.name) f.on f.sel)

theorem mflat_field_mem (env : ResultTypes.Env) (k : Nat) (cn : String) (sel : List Selection)
    (a : Option String) (n : String) (d : List Directive) (sid : Nat) (sub : List Selection)
    (h : Selection.field a n d sid sub ∈ sel) : (cn, Selection.field a n d sid sub) ∈ mflat env (k + 1) cn sel := by
  rw [mflat_succ]
  exact List.mem_flatMap.mpr ⟨_, h, by simp⟩

theorem mflat_spread_sub (env : ResultTypes.Env) (k : Nat) (cn : String) (sel : List Selection) (g : String)
    (d : List Directive) (f : Fragment) (h : Selection.spread g d ∈ sel) (hf : findFragment? env.frags g = some f) :
    (mflat env k (pascal f.name) f.sel).Sublist (mflat env (k + 1) cn sel) := by
  rw [mflat_succ]
  have := sublist_flatMap_of_mem (fun s => match s with
      | .field a n d sid sub => [(cn, Selection.field a n d sid sub)]
      | .spread n _ =>
        match findFragment? env.frags n with
        | some f => mflat env k (pascal f.name) f.sel
        | none => []
      | _ => []) sel (.spread g d) h
  simpa [hf] using this

theorem own_py_nodup (env : ResultTypes.Env) (k : Nat) (cn tn : String) (sel : List Selection)
    (h : ((mflat env (k + 1) cn sel).map (pyKey env)).Nodup) :
    ((plainDecls env cn tn sel).map (·.py)).Nodup := by
  rw [← plainDecls_filter, plainDecls_map env cn tn (·.py) (pyFieldName env) (fun _ _ _ _ => rfl) _
    (fun x hx => (List.mem_filter.mp hx).2)]
  -- the own fields are a sublist of all fields
  have hsub : ((sel.filter isField).map fun x => (cn, x)).Sublist (mflat env (k + 1) cn sel) := by
    rw [mflat_succ]
    induction sel with
    | nil => simp
    | cons x rest ih =>
      rw [List.flatMap_cons]
      cases x with
      | field a n d sid sub =>
        simp only [List.filter_cons, isField, if_true, List.map_cons, List.singleton_append]
        exact List.Sublist.cons_cons _ (ih (by
          rw [mflat_succ, List.flatMap_cons] at h
          simp only [List.singleton_append, List.map_cons, List.nodup_cons] at h
          rw [mflat_succ]; exact h.2))
      | spread n d =>
        simp only [List.filter_cons, isField, Bool.false_eq_true, if_false]
        refine (ih ?_).trans (List.sublist_append_right _ _)
        rw [mflat_succ, List.flatMap_cons, List.map_append] at h
        rw [mflat_succ]
        exact (List.nodup_append.mp h).2.1
      | inline on d sid ss =>
        simp only [List.filter_cons, isField, Bool.false_eq_true, if_false]
        refine (ih ?_).trans (List.sublist_append_right _ _)
        rw [mflat_succ, List.flatMap_cons, List.map_append] at h
        rw [mflat_succ]
        exact (List.nodup_append.mp h).2.1
  have := h.sublist (List.Sublist.map (pyKey env) hsub)
  simpa [List.map_map, Function.comp_def, pyKey] using this

/-- **the fields pydantic sees for a class with mixin bases** are exactly the declarations of `mflat` -/
theorem allFields_mix (env : ResultTypes.Env) (penv : Pyd.Env) (K : Nat) (hfr : FragsOK env K)
    (Hfrag : FragClassesIn env penv) (hbm : penv.class? "BaseModel" = none) :
    ∀ (k : Nat) (cn tn : String) (sel : List Selection),
      mfullS env k sel = true → mLocal env K cn tn sel = true →
      penv.class? cn = some (headClass env cn tn sel) →
      ((mflat env k cn sel).map (pyKey env)).Nodup →
      ∀ fuel, k ≤ fuel →
        (∀ d ∈ allFields penv fuel cn, ∃ o a n dirs sid sub,
          (o, Selection.field a n dirs sid sub) ∈ mflat env k cn sel ∧ d = fieldDecl env o tn a n dirs sub) ∧
        ((allFields penv fuel cn).map (·.py)).Nodup ∧
        (∀ o a n dirs sid sub, (o, Selection.field a n dirs sid sub) ∈ mflat env k cn sel →
          fieldDecl env o tn a n dirs sub ∈ allFields penv fuel cn)
  | 0, _, _, _, h, _, _, _, _, _ => by simp [mfullS] at h
  | k + 1, cn, tn, sel, hfull, hloc, hc, hnd, fuel, hfuel => by
    obtain ⟨fuel', rfl⟩ : ∃ fuel', fuel = fuel' + 1 := ⟨fuel - 1, by omega⟩
    have hlocs := (mLocal_iff env K cn tn sel).mp hloc
    have hfulls := by rw [mfullS_succ, List.all_eq_true] at hfull; exact hfull
    have hownnd := own_py_nodup env k cn tn sel hnd
    rw [allFields_succ penv fuel' cn _ hc]
    simp only [headClass, mergeDup_nodup _ hownnd]
    -- facts about one base
    have hbase : ∀ b ∈ basesOf sel,
        (∀ d ∈ allFields penv fuel' b, ∃ o a n dirs sid sub,
          (o, Selection.field a n dirs sid sub) ∈ mflat env (k + 1) cn sel ∧ d = fieldDecl env o tn a n dirs sub) ∧
        ((allFields penv fuel' b).map (·.py)).Nodup := by
      intro b hb
      rcases mem_basesOf hb with ⟨rfl, _⟩ | ⟨g, d, rfl, hg⟩
      · rw [allFields_none penv "BaseModel" hbm fuel']
        exact ⟨fun d hd => (by cases hd), by simp⟩
      · obtain ⟨_, f, hf, hon⟩ := mLocal1_spread (hlocs _ hg)
        obtain ⟨hfm, hfn⟩ := find_mem hf
        obtain ⟨_, _, _, hlocf, _⟩ := fragOK_spec (hfr f hfm)
        have hfullf : mfullS env k f.sel = true := by simpa [hf] using hfulls _ hg
        have hsub := mflat_spread_sub env k cn sel g d f hg hf
        have hndf := hnd.sublist (List.Sublist.map (pyKey env) hsub)
        obtain ⟨h1, h2, _⟩ := allFields_mix env penv K hfr Hfrag hbm k (pascal f.name) f.on f.sel hfullf hlocf
          (Hfrag f hfm) hndf fuel' (by omega)
        rw [← hfn]
        refine ⟨fun d' hd' => ?_, h2⟩
        obtain ⟨o, a, n, dirs, sid, sub, hm, he⟩ := h1 d' hd'
        exact ⟨o, a, n, dirs, sid, sub, hsub.subset hm, by rw [he, hon]⟩
    -- every declaration in any of the merged lists is the declaration of a member of `mflat`
    have hall : ∀ bf ∈ (basesOf sel).map (allFields penv fuel') ++ [plainDecls env cn tn sel], ∀ d ∈ bf,
        ∃ o a n dirs sid sub, (o, Selection.field a n dirs sid sub) ∈ mflat env (k + 1) cn sel ∧
          d = fieldDecl env o tn a n dirs sub := by
      intro bf hbf d hd
      rcases List.mem_append.mp hbf with h | h
      · obtain ⟨b, hb, rfl⟩ := List.mem_map.mp h
        exact (hbase b hb).1 d hd
      · have : bf = plainDecls env cn tn sel := by simpa using h
        subst this
        obtain ⟨a, n, dirs, sid, sub, hx, rfl⟩ := mem_plainDecls hd
        exact ⟨cn, a, n, dirs, sid, sub, mflat_field_mem env k cn sel a n dirs sid sub hx, rfl⟩
    refine ⟨?_, ?_, ?_⟩
    · intro d hd
      rcases mem_mstep_foldl d _ _ hd with h | ⟨bf, hbf, hdbf⟩
      · cases h
      · exact hall bf hbf d hdbf
    · apply nodup_mstep_foldl _ _ (by simp)
      intro bf hbf
      rcases List.mem_append.mp hbf with h | h
      · obtain ⟨b, hb, rfl⟩ := List.mem_map.mp h
        exact (hbase b hb).2
      · have : bf = plainDecls env cn tn sel := by simpa using h
        subst this
        exact hownnd
    · intro o a n dirs sid sub hm
      apply mem_mstep_foldl_of
      · right
        -- where does the member come from?
        rw [mflat_succ] at hm
        obtain ⟨s, hs, hxs⟩ := List.mem_flatMap.mp hm
        cases s with
        | field a' n' d' sid' sub' =>
          simp only [List.mem_singleton, Prod.mk.injEq] at hxs
          obtain ⟨rfl, hx⟩ := hxs
          refine ⟨plainDecls env o tn sel, by simp, ?_⟩
          cases hx
          unfold plainDecls
          exact List.mem_flatMap.mpr ⟨_, hs, by simp [plainDecl1]⟩
        | inline on d' sid' ss => simp at hxs
        | spread g d' =>
          obtain ⟨_, f, hf, hon⟩ := mLocal1_spread (hlocs _ hs)
          simp only [hf] at hxs
          obtain ⟨hfm, hfn⟩ := find_mem hf
          obtain ⟨_, _, _, hlocf, _⟩ := fragOK_spec (hfr f hfm)
          have hfullf : mfullS env k f.sel = true := by simpa [hf] using hfulls _ hs
          have hsub := mflat_spread_sub env k cn sel g d' f hs hf
          have hndf := hnd.sublist (List.Sublist.map (pyKey env) hsub)
          obtain ⟨_, _, h3⟩ := allFields_mix env penv K hfr Hfrag hbm k (pascal f.name) f.on f.sel hfullf hlocf
            (Hfrag f hfm) hndf fuel' (by omega)
          refine ⟨allFields penv fuel' (pascal g), ?_, ?_⟩
          · exact List.mem_append_left _ (List.mem_map.mpr ⟨pascal g, pascal_mem_basesOf hs, rfl⟩)
          · rw [← hfn, ← hon]
            exact h3 o a n dirs sid sub hxs
      · -- uniqueness: a declaration with the same Python name is the same declaration
        intro bf hbf d' hd' hpy
        obtain ⟨o', a', n', dirs', sid', sub', hm', rfl⟩ := hall bf hbf d' hd'
        have hkey : pyKey env (o', Selection.field a' n' dirs' sid' sub') = pyKey env (o, Selection.field a n dirs sid sub) := by
          simpa [pyKey, fieldDecl, keyOf] using hpy
        have := inj_of_nodup_map (pyKey env) _ hnd _ hm' _ hm hkey
        simp only [Prod.mk.injEq, Selection.field.injEq] at this
        obtain ⟨rfl, rfl, rfl, rfl, _, rfl⟩ := this
        rfl

/-! ### fuel bounds -/

theorem le_foldl_max_fn {α : Type} (g : α → Nat) : ∀ (l : List α) (init x : Nat),
    (x ≤ init ∨ ∃ s ∈ l, x ≤ g s) → x ≤ l.foldl (fun acc s => max acc (g s)) init
  | [], init, x, h => by
    rcases h with h | ⟨s, hs, _⟩
    · simpa using h
    · cases hs
  | y :: ys, init, x, h => by
    rw [List.foldl_cons]
    apply le_foldl_max_fn g ys
    rcases h with h | ⟨s, hs, hx⟩
    · left; omega
    · rcases List.mem_cons.mp hs with rfl | hs
      · left; omega
      · right; exact ⟨s, hs, hx⟩

def mterm (env : ResultTypes.Env) (k : Nat) (tn : String) (s : Selection) : Nat :=
  match s with
  | .field _ name _ _ sub =>
    wneed (fieldT env tn name) + 2 + (if sub.isEmpty then 0 else mneed env k (subType env tn name) sub + 1)
  | .spread n _ =>
    match findFragment? env.frags n with
    | some f => mneed env k f.on f.sel + 1
    | none => 0
  | _ => 0

theorem mneed_succ (env : ResultTypes.Env) (k : Nat) (tn : String) (sel : List Selection) :
    mneed env (k + 1) tn sel = sel.foldl (fun acc s => max acc (mterm env k tn s)) 2 := rfl

theorem mterm_le (env : ResultTypes.Env) (k : Nat) (tn : String) (sel : List Selection) (s : Selection) (h : s ∈ sel) :
    mterm env k tn s ≤ mneed env (k + 1) tn sel := by
  rw [mneed_succ]
  exact le_foldl_max_fn _ sel 2 _ (Or.inr ⟨s, h, Nat.le_refl _⟩)

/-- the fuel bound of a class covers every field node it has, own or inherited -/
theorem mneed_field (env : ResultTypes.Env) (K : Nat) (hfr : FragsOK env K) :
    ∀ (k : Nat) (cn tn : String) (sel : List Selection),
      mfull env k tn sel = true → mLocal env K cn tn sel = true →
      ∀ o a n d sid sub, (o, Selection.field a n d sid sub) ∈ mflat env k cn sel →
        wneed (fieldT env tn n) + 2 ≤ mneed env k tn sel ∧
        (sub.isEmpty = false → ∃ k', k' < k ∧ mfull env k' (subType env tn n) sub = true ∧
          wneed (fieldT env tn n) + 2 + mneed env k' (subType env tn n) sub + 1 ≤ mneed env k tn sel)
  | 0, _, _, _, h, _, _, _, _, _, _, _, _ => by simp [mfull] at h
  | k + 1, cn, tn, sel, hfull, hloc, o, a, n, d, sid, sub, hm => by
    have hlocs := (mLocal_iff env K cn tn sel).mp hloc
    have hfulls := by rw [mfull_succ, List.all_eq_true] at hfull; exact hfull
    rw [mflat_succ] at hm
    obtain ⟨s, hs, hxs⟩ := List.mem_flatMap.mp hm
    have hterm := mterm_le env k tn sel s hs
    cases s with
    | field a' n' d' sid' sub' =>
      simp only [List.mem_singleton, Prod.mk.injEq] at hxs
      obtain ⟨_, hx⟩ := hxs
      cases hx
      simp only [mterm] at hterm
      refine ⟨by omega, fun hne => ⟨k, Nat.lt_succ_self k, ?_, ?_⟩⟩
      · have := hfulls _ hs
        simpa [hne] using this
      · simp only [hne, Bool.false_eq_true, if_false] at hterm
        omega
    | inline on d' sid' ss => simp at hxs
    | spread g d' =>
      obtain ⟨_, f, hf, hon⟩ := mLocal1_spread (hlocs _ hs)
      simp only [hf] at hxs
      obtain ⟨_, _, _, hlocf, _⟩ := fragOK_spec (hfr f (find_mem hf).1)
      have hfullf : mfull env k f.on f.sel = true := by simpa [hf] using hfulls _ hs
      obtain ⟨h1, h2⟩ := mneed_field env K hfr k (pascal f.name) f.on f.sel hfullf hlocf o a n d sid sub hxs
      simp only [mterm, hf] at hterm
      rw [hon] at h1 h2 hterm
      refine ⟨by omega, fun hne => ?_⟩
      obtain ⟨k', hk', hf', hb⟩ := h2 hne
      exact ⟨k', by omega, hf', by omega⟩

/-! ### one class -/

/-- the pydantic environment has the classes of every fragment definition -/
def FragsIn (env : ResultTypes.Env) (penv : Pyd.Env) : Prop :=
  ∀ f ∈ env.frags, ∀ c ∈ fragClassesOf env f, penv.class? c.name = some c

theorem fragClassesIn_of (env : ResultTypes.Env) (penv : Pyd.Env) (h : FragsIn env penv) : FragClassesIn env penv := by
  intro f hf
  exact h f hf (headClass env (pascal f.name) f.on f.sel) (by simp [fragClassesOf, mClass, headClass])

theorem mem_mExtra {env : ResultTypes.Env} {cn tn : String} {x : Selection} {sel : List Selection} (hx : x ∈ sel)
    {c : ClassDecl} (hc : c ∈ mExtra1 env cn tn x) : c ∈ mExtra env cn tn sel := by
  rw [mExtra_eq]
  exact List.mem_flatMap.mpr ⟨x, hx, hc⟩

def ValSpec (env : ResultTypes.Env) (penv : Pyd.Env) (K : Nat) (e : Nat) : Prop :=
  ∀ (k : Nat) (cn tn : String) (sel : List Selection) (j : J),
    k ≤ e → k ≤ K → env.schema.kindOf? tn = some .object →
    mfull env k tn sel = true → mfullS env (fragDepth env) sel = true →
    mLocal env K cn tn sel = true → msetOK env K cn sel = true →
    (∀ c ∈ mClass env cn tn sel, penv.class? c.name = some c) →
    Exec.respOK env.schema env.frags e tn sel j = true → nodupKeys j = true →
    ∀ vfuel, mneed env k tn sel + 1 ≤ vfuel → RT (validate penv vfuel (.cls cn) j) j

theorem field_rt_mix (env : ResultTypes.Env) (penv : Pyd.Env) (K e : Nat) (ha : ResultLeaf.EnvAgrees env penv)
    (IH : ValSpec env penv K e) (o tn : String)
    (alias : Option String) (name : String) (dirs : List Directive) (sid : Nat) (sub : List Selection) (v : J)
    (hl : mLocal1 env K o tn (.field alias name dirs sid sub) = true)
    (hcls : ∀ c ∈ mExtra1 env o tn (.field alias name dirs sid sub), penv.class? c.name = some c)
    (hnd : nodupKeys v = true)
    (hc : Exec.complete (fun n v =>
        if sub.isEmpty then Exec.leafOk env.schema n v
        else (Exec.runtimeTypes env.schema n).any fun rt' => Exec.respOK env.schema env.frags e rt' sub v)
        (fieldT env tn name) true v = true)
    (k' : Nat) (hk' : sub.isEmpty = false → k' ≤ e ∧ k' ≤ K ∧ mfull env k' (subType env tn name) sub = true) :
    ∀ g, wneed (fieldT env tn name) + 2 + (if sub.isEmpty then 0 else mneed env k' (subType env tn name) sub + 1) ≤ g →
      RT (validate penv g (fieldDecl env o tn alias name dirs sub).ann v) v := by
  simp only [mLocal1, Bool.and_eq_true] at hl
  obtain ⟨⟨⟨hname, hmix⟩, hfd⟩, hcase⟩ := hl
  intro g hg
  show RT (validate penv g (condAnn (wrapAnn _ true (fieldT env tn name)) dirs) v) v
  by_cases hsub : sub.isEmpty = true
  · rw [if_pos hsub] at hcase
    simp only [hsub, if_true] at hc hg ⊢
    rw [complete_leaf] at hc
    refine condAnn_rt penv _ dirs v (wneed (fieldT env tn name) + 1) ?_ g (by omega)
    intro fuel hfuel
    rw [← leafAnn_eq_wrapAnn]
    obtain ⟨pv, hpv, hd⟩ := ResultLeaf.validate_leaf_dump env penv ha (fieldT env tn name) (isLeafName_spec hcase)
      true v fuel (by rw [need_eq_wneed]; exact hfuel) hc
    exact ⟨pv, hpv, by rw [hd]; exact eqv_refl v hnd⟩
  · have hsub' : sub.isEmpty = false := by simpa using hsub
    rw [if_neg hsub] at hcase
    simp only [Bool.and_eq_true, beq_iff_eq] at hcase
    obtain ⟨⟨⟨hkind, hset⟩, hfS⟩, hrec⟩ := hcase
    simp only [hsub', Bool.false_eq_true, if_false] at hc hg ⊢
    rw [mExtra1_sub _ _ _ _ _ _ _ _ hsub'] at hcls
    obtain ⟨hke, hkK, hfull'⟩ := hk' hsub'
    refine condAnn_rt penv _ dirs v (mneed env k' (subType env tn name) sub + 1 + wneed (fieldT env tn name)) ?_ g (by omega)
    intro fuel hfuel
    refine wrap_rt penv (.cls (subClass env o alias name)) _ (mneed env k' (subType env tn name) sub + 1)
      (fieldT env tn name) ?_ true v fuel hfuel hnd hc
    intro g' hg' v' hnd' hP
    have hrt : Exec.runtimeTypes env.schema (subType env tn name) = [subType env tn name] := by
      unfold Exec.runtimeTypes; rw [hkind]
    have hP' : Exec.respOK env.schema env.frags e (subType env tn name) sub v' = true := by
      have : (fieldT env tn name).base = subType env tn name := rfl
      rw [this, hrt] at hP
      simpa using hP
    exact IH k' (subClass env o alias name) (subType env tn name) sub v' hke hkK hkind hfull' hfS hrec hset hcls hP' hnd' g' hg'

theorem class_rt_mix (env : ResultTypes.Env) (penv : Pyd.Env) (K : Nat) (hfr : FragsOK env K)
    (ha : ResultLeaf.EnvAgrees env penv) (hbm : penv.class? "BaseModel" = none) (Hcls : FragsIn env penv)
    (hKf : fragDepth env ≤ penv.clsFuel) (e : Nat) (IH : ValSpec env penv K e) : ValSpec env penv K (e + 1) := by
  intro k cn tn sel j hke hkK hkind hfull hfullS hloc hset hcls hresp hndj vfuel hvf
  obtain ⟨kvs, rfl⟩ := respOK_isObj _ _ _ _ _ _ hresp
  obtain ⟨g, rfl⟩ : ∃ g, vfuel = g + 1 := ⟨vfuel - 1, by omega⟩
  -- all the fuels see the same field nodes
  have hfS := mfullS_of_mfull env k tn sel hfull
  have hFLe : mflat env (e + 1) cn sel = mflat env k cn sel := mflat_eq_of_leS env k (e + 1) cn sel hfS hke
  have hFLK : mflat env K cn sel = mflat env k cn sel := mflat_eq_of_leS env k K cn sel hfS hkK
  have hFLD : mflat env (fragDepth env) cn sel = mflat env k cn sel := mflat_eq_both env _ _ cn sel hfullS hfS
  unfold msetOK at hset
  rw [hFLK] at hset
  obtain ⟨hkeys, hpys, hpk⟩ := setOK_spec hset
  simp only [List.map_map] at hkeys hpys hpk
  have hmem := mflat_mem env K hfr k cn tn sel hloc
  rw [respOK_obj, collect_mix env K hfr tn (e + 1) cn sel [] hloc (by rw [hFLe]; exact hkeys) (by intro _ _ c hc; cases hc),
    hFLe] at hresp
  simp only [List.nil_append, Bool.and_eq_true] at hresp
  obtain ⟨hr1, hr2⟩ := hresp
  have hkeyIn : ∀ key ∈ kvs.map (·.1), ∃ p ∈ mflat env k cn sel, keyOf p.2 = key := by
    intro key hk
    obtain ⟨p, hp, rfl⟩ := List.mem_map.mp hk
    have h1 := List.all_eq_true.mp hr1 p hp
    obtain ⟨c, hc, he⟩ := List.any_eq_true.mp h1
    obtain ⟨q, hq, rfl⟩ := List.mem_map.mp hc
    rw [collOf_key (hmem q.1 q.2 hq).1] at he
    exact ⟨q, hq, by simpa using he⟩
  obtain ⟨hkn, hkv, hklk⟩ := nodupKvs_spec kvs (by simpa [nodupKeys] using hndj)
  have hc0 : penv.class? cn = some (headClass env cn tn sel) := hcls (headClass env cn tn sel) (by simp [mClass, headClass])
  obtain ⟨hA1, hA2, hA3⟩ := allFields_mix env penv K hfr (fragClassesIn_of env penv Hcls) hbm (fragDepth env) cn tn sel hfullS hloc hc0
    (by rw [hFLD]; unfold pyKey; exact hpys) penv.clsFuel hKf
  rw [hFLD] at hA1 hA3
  obtain ⟨fs, hfs, heq, hkeysD⟩ := mapE_fields (fieldWith penv penv.clsFuel (validate penv g) kvs) kvs
    (fun d => d.alias.getD d.py) (allFields penv penv.clsFuel cn) (by
    intro d hd
    obtain ⟨o, alias, name, dirs, sid, sub, hm, rfl⟩ := hA1 d hd
    obtain ⟨_, hlx, horig⟩ := hmem o _ hm
    have hkeymem : alias.getD name ∈ (mflat env k cn sel).map (fun p => keyOf p.2) :=
      List.mem_map.mpr ⟨_, hm, rfl⟩
    have hfw := fieldWith_plain penv penv.clsFuel (validate penv g) kvs (fieldDecl env o tn alias name dirs sub)
      (alias.getD name) rfl rfl (by
        rcases hpk _ (by simpa [Function.comp_def] using hkeymem) with h | h
        · exact Or.inl h
        · refine Or.inr ((lookup_none_iff _ _).mpr (fun hm' => h ?_))
          obtain ⟨p, hp, hpk'⟩ := hkeyIn _ hm'
          simp only [Function.comp_def]
          exact List.mem_map.mpr ⟨p, hp, hpk'⟩)
    have hg := List.all_eq_true.mp hr2 (collOf (.field alias name dirs sid sub)) (List.mem_map.mpr ⟨_, hm, rfl⟩)
    simp only [collOf] at hg
    simp only [fieldDecl_key]
    cases hlk : J.lookup (alias.getD name) kvs with
    | none =>
      left
      refine ⟨rfl, ?_⟩
      rw [hlk] at hg
      have hd' : (fieldDecl env o tn alias name dirs sub).defaultNone = true := by
        simpa [fieldDecl, Exec.isConditional, hasConditionalDirective] using hg
      rw [hfw]
      simp only [hlk, hd', if_true]
    | some v =>
      right
      rw [hlk] at hg
      have hlx' := hlx
      simp only [mLocal1, Bool.and_eq_true] at hlx'
      obtain ⟨⟨⟨hname, _⟩, hfd⟩, _⟩ := hlx'
      have hname' : (name == Tables.typenameFieldName) = false := by simpa [typenameField] using hname
      obtain ⟨fd, hfd'⟩ := Option.isSome_iff_exists.mp hfd
      have hT : fieldT env tn name = fd.type := by simp [fieldT, hfd']
      simp only [hname', Bool.false_eq_true, if_false, hfd', ← hT] at hg
      obtain ⟨hn1, hn2⟩ := mneed_field env K hfr k cn tn sel hfull hloc o alias name dirs sid sub hm
      -- the classes of the sub-selection are known to pydantic
      have hsubcls : ∀ c ∈ mExtra1 env o tn (.field alias name dirs sid sub), penv.class? c.name = some c := by
        intro c hc
        rcases horig with ⟨rfl, hx⟩ | ⟨f, hf, rfl, hx, hon⟩
        · exact hcls c (List.mem_cons_of_mem _ (mem_mExtra hx hc))
        · refine Hcls f hf c ?_
          rw [← hon] at hc
          exact List.mem_cons_of_mem _ (mem_mExtra hx hc)
      by_cases hsub : sub.isEmpty = true
      · obtain ⟨pv, hpv, hev⟩ := field_rt_mix env penv K e ha IH o tn alias name dirs sid sub v hlx hsubcls
          (hkv _ (lookup_mem hlk)) hg 0 (fun h => by rw [hsub] at h; cases h) g (by simp only [hsub, if_true]; omega)
        refine ⟨v, pv, _, _, rfl, ?_, fieldDecl_key env o tn alias name dirs sub, hev⟩
        rw [hfw]
        simp only [hlk, hpv]
      · have hsub' : sub.isEmpty = false := by simpa using hsub
        obtain ⟨k', hk'lt, hk'full, hk'b⟩ := hn2 hsub'
        obtain ⟨pv, hpv, hev⟩ := field_rt_mix env penv K e ha IH o tn alias name dirs sid sub v hlx hsubcls
          (hkv _ (lookup_mem hlk)) hg k' (fun _ => ⟨by omega, by omega, hk'full⟩) g
          (by simp only [hsub', Bool.false_eq_true, if_false]; omega)
        refine ⟨v, pv, _, _, rfl, ?_, fieldDecl_key env o tn alias name dirs sub, hev⟩
        rw [hfw]
        simp only [hlk, hpv])
  -- keys of the declarations
  have hdkey : ∀ d ∈ allFields penv penv.clsFuel cn, d.py = pyFieldName env (d.alias.getD d.py) := by
    intro d hd
    obtain ⟨o, alias, name, dirs, sid, sub, _, rfl⟩ := hA1 d hd
    rw [fieldDecl_key]; rfl
  have hkeysND : ((allFields penv penv.clsFuel cn).map (fun d => d.alias.getD d.py)).Nodup := by
    have : (allFields penv penv.clsFuel cn).map (·.py) =
        ((allFields penv penv.clsFuel cn).map (fun d => d.alias.getD d.py)).map (pyFieldName env) := by
      rw [List.map_map]
      exact List.map_congr_left hdkey
    rw [this] at hA2
    exact nodup_of_map _ _ hA2
  have hsubkeys : ∀ key ∈ kvs.map (·.1), key ∈ (allFields penv penv.clsFuel cn).map (fun d => d.alias.getD d.py) := by
    intro key hk
    obtain ⟨p, hp, hpk'⟩ := hkeyIn key hk
    obtain ⟨o, x⟩ := p
    have hxf := (hmem o x hp).1
    cases x with
    | field a n d sid sub =>
      exact List.mem_map.mpr ⟨_, hA3 o a n d sid sub hp, by rw [fieldDecl_key]; exact hpk'⟩
    | spread n d => simp [isField] at hxf
    | inline on d sid ss => simp [isField] at hxf
  refine ⟨.model cn (fs.filterMap id), ?_, ?_⟩
  · rw [validate_cls_succ]
    unfold modelWith
    simp only [hc0, hfs]
  · simp only [dump, J.eqv, Bool.and_eq_true, beq_iff_eq]
    exact ⟨length_of_keys _ kvs _ hkeysD hkeysND hkn hsubkeys, heq⟩

/-- **part (2), all executor fuels** -/
theorem val_spec (env : ResultTypes.Env) (penv : Pyd.Env) (K : Nat) (hfr : FragsOK env K)
    (ha : ResultLeaf.EnvAgrees env penv) (hbm : penv.class? "BaseModel" = none) (Hcls : FragsIn env penv)
    (hKf : fragDepth env ≤ penv.clsFuel) : ∀ e, ValSpec env penv K e
  | 0 => by
    intro k cn tn sel j _ _ _ _ _ _ _ _ hresp
    simp [Exec.respOK] at hresp
  | e + 1 => class_rt_mix env penv K hfr ha hbm Hcls hKf e (val_spec env penv K hfr ha hbm Hcls hKf e)

end Ariadne.C01Mix
