/-
  Proofs/C04Args.lean — what the signature and the `variables` dict of a generated client method mention
  (`ArgumentsGenerator.generate`, Model/Arguments.lean), in terms of the lists the generator keeps
  (`_used_inputs`, `_used_enums`, `_used_custom_scalars`), which only ever grow.
-/
import AriadneModel.Proofs.C04Ops

set_option linter.unusedSimpArgs false
set_option linter.unusedVariables false

namespace Ariadne.C04Proofs
open Ariadne Ariadne.Gql Ariadne.Util Ariadne.Package Ariadne.PackageTriggers
open Ariadne.Arguments (parseNamed parseTypeNode Use Item)
open Ariadne.Scalars (NAnn Leaf lookupScalar)

/-- the generator's lists only grow -/
structure ArgLe (a b : Arguments.St) : Prop where
  inputs : ∀ x ∈ a.usedInputs, x ∈ b.usedInputs
  enums : ∀ x ∈ a.usedEnums, x ∈ b.usedEnums
  scalars : ∀ x ∈ a.usedScalars, x ∈ b.usedScalars

theorem ArgLe.refl (a : Arguments.St) : ArgLe a a := ⟨fun _ h => h, fun _ h => h, fun _ h => h⟩

theorem ArgLe.trans {a b c : Arguments.St} (h1 : ArgLe a b) (h2 : ArgLe b c) : ArgLe a c :=
  ⟨fun x h => h2.inputs x (h1.inputs x h), fun x h => h2.enums x (h1.enums x h), fun x h => h2.scalars x (h1.scalars x h)⟩

/-- the use a type node reports has been recorded -/
def Recorded (env : Arguments.Env) (S : Arguments.St) : Use → Prop
  | .plain => True
  | .input n => env.kind n = some .input ∧ n ∈ S.usedInputs
  | .enum n => env.kind n = some .enum ∧ n ∈ S.usedEnums
  | .custom n => n ∈ S.usedScalars

/-- the name at the leaf of an argument annotation, by the use that was reported -/
def LeafOf (env : Arguments.Env) (use : Use) (u : String) : Prop :=
  match use with
  | .plain => u ∈ Tables.inputScalarsMap.map (·.2) ∨ u = "Any"
  | .input n => u = n ∧ env.kind n = some .input
  | .enum n => u = n ∧ env.kind n = some .enum
  | .custom n => ∃ d, lookupScalar env.scalars n = some d ∧ u = d.typeName

/-- what `schema.type_map` says about the type a use names -/
def UseKind (env : Arguments.Env) : Use → Prop
  | .plain => True
  | .input m => env.kind m = some .input
  | .enum m => env.kind m = some .enum
  | .custom m => (lookupScalar env.scalars m).isSome = true

theorem lookupStr_mem_values : ∀ (l : List (String × String)) (k v : String), Util.lookupStr k l = some v → v ∈ l.map (·.2)
  | [], _, _, h => by simp [Util.lookupStr] at h
  | (a, b) :: rest, k, v, h => by
    simp only [Util.lookupStr] at h
    split at h
    · simp only [Option.some.injEq] at h; simp [h]
    · exact List.mem_cons_of_mem _ (lookupStr_mem_values rest k v h)

theorem parseNamed_spec {env : Arguments.Env} {n : String} {nullable : Bool} {ann : NAnn} {use : Use}
    (h : parseNamed env n nullable = .ok (ann, use)) :
    (∀ u ∈ nannUses ann, u = "Optional" ∨ LeafOf env use u) ∧
    UseKind env use := by
  unfold parseNamed at h
  cases hk : env.kind n with
  | none => rw [hk] at h; simp at h
  | some k =>
    rw [hk] at h
    cases k with
    | input =>
      simp only [Except.ok.injEq, Prod.mk.injEq] at h
      obtain ⟨rfl, rfl⟩ := h
      refine ⟨?_, by simpa [UseKind] using hk⟩
      intro u hu
      simp only [nannUses, leafUses, List.mem_append, List.mem_singleton] at hu
      rcases hu with hu | hu
      · split at hu
        · exact Or.inl (by simpa using hu)
        · cases hu
      · exact Or.inr ⟨hu, hk⟩
    | «enum» =>
      simp only [Except.ok.injEq, Prod.mk.injEq] at h
      obtain ⟨rfl, rfl⟩ := h
      refine ⟨?_, by simpa [UseKind] using hk⟩
      intro u hu
      simp only [nannUses, leafUses, List.mem_append, List.mem_singleton] at hu
      rcases hu with hu | hu
      · split at hu
        · exact Or.inl (by simpa using hu)
        · cases hu
      · exact Or.inr ⟨hu, hk⟩
    | scalar =>
      simp only at h
      cases hl : lookupScalar env.scalars n with
      | none =>
        rw [hl] at h
        simp only [Except.ok.injEq, Prod.mk.injEq] at h
        obtain ⟨rfl, rfl⟩ := h
        refine ⟨?_, trivial⟩
        intro u hu
        simp only [nannUses, leafUses, List.mem_append, List.mem_singleton] at hu
        rcases hu with hu | hu
        · split at hu
          · exact Or.inl (by simpa using hu)
          · cases hu
        · refine Or.inr ?_
          show u ∈ Tables.inputScalarsMap.map (·.2) ∨ u = "Any"
          cases hm : Util.lookupStr n Tables.inputScalarsMap with
          | none => rw [hm] at hu; exact Or.inr (by simpa using hu)
          | some py =>
            rw [hm] at hu
            have : u = py := by simpa using hu
            subst this
            exact Or.inl (lookupStr_mem_values _ _ _ hm)
      | some d =>
        rw [hl] at h
        simp only [Except.ok.injEq, Prod.mk.injEq] at h
        obtain ⟨rfl, rfl⟩ := h
        refine ⟨?_, by simp [UseKind, hl]⟩
        intro u hu
        simp only [nannUses, leafUses, List.mem_append, List.mem_singleton] at hu
        rcases hu with hu | hu
        · split at hu
          · exact Or.inl (by simpa using hu)
          · cases hu
        · exact Or.inr ⟨d, hl, hu⟩
    | object => simp at h
    | interface => simp at h
    | union => simp at h

theorem parseTypeNode_spec (env : Arguments.Env) : ∀ (t : TypeRef) (nullable : Bool) (ann : NAnn) (use : Use),
    parseTypeNode env t nullable = .ok (ann, use) →
    (∀ u ∈ nannUses ann, u = "Optional" ∨ u = "List" ∨ LeafOf env use u) ∧
    UseKind env use
  | .named n, nullable, ann, use, h => by
    obtain ⟨h1, h2⟩ := parseNamed_spec (by simpa [parseTypeNode] using h)
    exact ⟨fun u hu => (h1 u hu).imp id Or.inr, h2⟩
  | .list t, nullable, ann, use, h => by
    simp only [parseTypeNode] at h
    cases hr : parseTypeNode env t nullable with
    | error e => rw [hr] at h; simp at h
    | ok r =>
      obtain ⟨sub, use'⟩ := r
      rw [hr] at h
      simp only [Except.ok.injEq, Prod.mk.injEq] at h
      obtain ⟨rfl, rfl⟩ := h
      obtain ⟨h1, h2⟩ := parseTypeNode_spec env t nullable sub use' hr
      refine ⟨?_, h2⟩
      intro u hu
      simp only [nannUses, List.mem_append, List.mem_cons] at hu
      rcases hu with hu | hu | hu
      · split at hu
        · exact Or.inl (by simpa using hu)
        · cases hu
      · exact Or.inr (Or.inl hu)
      · exact h1 u hu
  | .nonNull t, _, ann, use, h => by
    simp only [parseTypeNode] at h
    exact parseTypeNode_spec env t false ann use h

theorem record_le (S : Arguments.St) (use : Use) : ArgLe S (S.record use) := by
  cases use <;> simp only [Arguments.St.record] <;>
    first
      | exact ArgLe.refl S
      | exact ⟨fun x h => List.mem_append_left _ h, fun _ h => h, fun _ h => h⟩
      | exact ⟨fun _ h => h, fun x h => List.mem_append_left _ h, fun _ h => h⟩
      | exact ⟨fun _ h => h, fun _ h => h, fun x h => List.mem_append_left _ h⟩

theorem foldl_record_le : ∀ (is : List Item) (S : Arguments.St), ArgLe S (is.foldl (fun st i => st.record i.use) S)
  | [], S => ArgLe.refl S
  | i :: rest, S => (record_le S i.use).trans (foldl_record_le rest _)

theorem recorded_mono {env : Arguments.Env} {a b : Arguments.St} (h : ArgLe a b) {use : Use} (hr : Recorded env a use) : Recorded env b use := by
  cases use with
  | plain => trivial
  | input n => exact ⟨hr.1, h.inputs n hr.2⟩
  | «enum» n => exact ⟨hr.1, h.enums n hr.2⟩
  | custom n => exact h.scalars n hr

theorem foldl_record_has {env : Arguments.Env} : ∀ (is : List Item) (S : Arguments.St) (i : Item), i ∈ is →
    UseKind env i.use →
    Recorded env (is.foldl (fun st i => st.record i.use) S) i.use
  | [], _, _, h, _ => by cases h
  | j :: rest, S, i, h, hk => by
    simp only [List.foldl_cons]
    rcases List.mem_cons.mp h with rfl | h
    · refine recorded_mono (foldl_record_le rest _) ?_
      cases hu : i.use with
      | plain => trivial
      | input n => rw [hu] at hk; exact ⟨hk, by simp [Arguments.St.record]⟩
      | «enum» n => rw [hu] at hk; exact ⟨hk, by simp [Arguments.St.record]⟩
      | custom n => simp [Recorded, Arguments.St.record]
    · exact foldl_record_has rest _ i h hk

theorem items_mem {env : Arguments.Env} : ∀ (defs : List Arguments.VarDef) (is : List Item), Arguments.items env defs = .ok is →
    ∀ i ∈ is, ∃ v ∈ defs, Arguments.item env v = .ok i
  | [], is, h, i, hi => by simp [Arguments.items] at h; subst h; cases hi
  | v :: vs, is, h, i, hi => by
    simp only [Arguments.items] at h
    cases h1 : Arguments.item env v with
    | error e => rw [h1] at h; simp at h
    | ok i1 =>
      cases h2 : Arguments.items env vs with
      | error e => rw [h1, h2] at h; simp at h
      | ok is2 =>
        rw [h1, h2] at h
        simp only [Except.ok.injEq] at h
        subst h
        rcases List.mem_cons.mp hi with rfl | hi
        · exact ⟨v, List.mem_cons_self, h1⟩
        · obtain ⟨v', hv', e⟩ := items_mem vs is2 h2 i hi
          exact ⟨v', List.mem_cons_of_mem _ hv', e⟩

/-- what a method's signature and dict mention, relative to the generator's lists `S` -/
structure MethodOK (env : Arguments.Env) (S : Arguments.St) (m : ClientMethod.Method) : Prop where
  params : ∀ a ∈ m.out.params, ∀ u ∈ nannUses a.ann, u = "Optional" ∨ u = "List" ∨ ∃ use, Recorded env S use ∧ LeafOf env use u
  dict : ∀ kv ∈ m.out.dict, ∀ fn py, kv.2 = .call fn py →
    ∃ n d, n ∈ S.usedScalars ∧ lookupScalar env.scalars n = some d ∧ d.serializeName = some fn

theorem MethodOK.mono {env : Arguments.Env} {a b : Arguments.St} (h : ArgLe a b) {m : ClientMethod.Method} (hm : MethodOK env a m) :
    MethodOK env b m :=
  ⟨fun x hx u hu => by
      rcases hm.params x hx u hu with h1 | h1 | ⟨use, hr, hl⟩
      · exact Or.inl h1
      · exact Or.inr (Or.inl h1)
      · exact Or.inr (Or.inr ⟨use, recorded_mono h hr, hl⟩),
   fun kv hkv fn py e => by
      obtain ⟨n, d, hn, hd, hs⟩ := hm.dict kv hkv fn py e
      exact ⟨n, d, h.scalars n hn, hd, hs⟩⟩

theorem generate_spec {env : Arguments.Env} {defs : List Arguments.VarDef} {S S' : Arguments.St} {out : Arguments.Out}
    (h : Arguments.generate env defs S = .ok (out, S')) :
    ArgLe S S' ∧
    (∀ a ∈ out.params, ∀ u ∈ nannUses a.ann, u = "Optional" ∨ u = "List" ∨ ∃ use, Recorded env S' use ∧ LeafOf env use u) ∧
    (∀ kv ∈ out.dict, ∀ fn py, kv.2 = .call fn py →
      ∃ n d, n ∈ S'.usedScalars ∧ lookupScalar env.scalars n = some d ∧ d.serializeName = some fn) := by
  unfold Arguments.generate at h
  cases hi : Arguments.items env defs with
  | error e => rw [hi] at h; simp at h
  | ok is =>
    rw [hi] at h
    simp only [Except.ok.injEq, Prod.mk.injEq] at h
    obtain ⟨rfl, rfl⟩ := h
    have hitem : ∀ i ∈ is, ∃ ann use, i.arg.ann = ann ∧ i.use = use ∧
        (∀ u ∈ nannUses ann, u = "Optional" ∨ u = "List" ∨ LeafOf env use u) ∧
        UseKind env use ∧
        i.value = Arguments.dictValue env i.arg.py use := by
      intro i hi'
      obtain ⟨v, _, hv⟩ := items_mem defs is hi i hi'
      unfold Arguments.item at hv
      simp only at hv
      cases hp : parseTypeNode env v.type true with
      | error e => rw [hp] at hv; simp at hv
      | ok r =>
        obtain ⟨ann, use⟩ := r
        rw [hp] at hv
        simp only [Except.ok.injEq] at hv
        subst hv
        obtain ⟨h1, h2⟩ := parseTypeNode_spec env v.type true ann use hp
        exact ⟨ann, use, rfl, rfl, h1, h2, rfl⟩
    refine ⟨foldl_record_le is S, ?_, ?_⟩
    · intro a ha u hu
      have : ∃ i ∈ is, i.arg = a := by
        simp only [Arguments.Out.params, Arguments.outOf, List.mem_append, List.mem_map, List.mem_filter] at ha
        rcases ha with ⟨i, ⟨hi', _⟩, e⟩ | ⟨i, ⟨hi', _⟩, e⟩
        · exact ⟨i, hi', e⟩
        · exact ⟨i, hi', e⟩
      obtain ⟨i, hi', rfl⟩ := this
      obtain ⟨ann, use, rfl, rfl, h1, h2, _⟩ := hitem i hi'
      rcases h1 u hu with h | h | h
      · exact Or.inl h
      · exact Or.inr (Or.inl h)
      · exact Or.inr (Or.inr ⟨i.use, foldl_record_has is S i hi' h2, h⟩)
    · intro kv hkv fn py e
      simp only [Arguments.outOf, List.mem_map] at hkv
      obtain ⟨i, hi', rfl⟩ := hkv
      obtain ⟨ann, use, _, rfl, _, h2, hval⟩ := hitem i hi'
      simp only at e
      rw [hval] at e
      unfold Arguments.dictValue at e
      cases hu' : i.use with
      | plain => rw [hu'] at e; simp at e
      | input n => rw [hu'] at e; simp at e
      | «enum» n => rw [hu'] at e; simp at e
      | custom n =>
        rw [hu'] at e
        simp only at e
        cases hl : lookupScalar env.scalars n with
        | none => rw [hl] at e; simp at e
        | some d =>
          rw [hl] at e
          simp only at e
          cases hs : d.serializeName with
          | none => rw [hs] at e; simp at e
          | some f =>
            rw [hs] at e
            simp only [Arguments.DictVal.call.injEq] at e
            have hrec := foldl_record_has (env := env) is S i hi' h2
            rw [hu'] at hrec
            exact ⟨n, d, hrec, hl, by rw [hs, e.1]⟩

theorem addMethod_spec {env : Arguments.Env} {ot : ClientMethod.OpType} {on : Option String} {defs : List Arguments.VarDef}
    {name rt text : String} {async : Bool} {S S' : Arguments.St} {m : ClientMethod.Method}
    (h : ClientMethod.addMethod env ot on defs name rt text async S = .ok (m, S')) : ArgLe S S' ∧ MethodOK env S' m := by
  unfold ClientMethod.addMethod at h
  cases hg : Arguments.generate env defs S with
  | error e => rw [hg] at h; simp at h
  | ok r =>
    obtain ⟨out, s1⟩ := r
    rw [hg] at h
    simp only at h
    obtain ⟨hle, hp, hd⟩ := generate_spec hg
    have key : ∀ k, (⟨name, k, out, ClientMethod.getVariableNames (ClientMethod.selfName :: out.params.map (·.py)), text, on.getD "", rt⟩ : ClientMethod.Method) = m →
        s1 = S' → ArgLe S S' ∧ MethodOK env S' m := by
      intro k e1 e2
      subst e1 e2
      exact ⟨hle, ⟨hp, hd⟩⟩
    cases ot with
    | subscription =>
      simp only at h
      split at h
      · simp only [Except.ok.injEq, Prod.mk.injEq] at h
        exact key _ h.1 h.2
      · cases h
    | query =>
      simp only [Except.ok.injEq, Prod.mk.injEq] at h
      exact key _ h.1 h.2
    | mutation =>
      simp only [Except.ok.injEq, Prod.mk.injEq] at h
      exact key _ h.1 h.2

/-- the generator's lists hold names of the right kind -/
structure ListsKinded (env : Arguments.Env) (S : Arguments.St) : Prop where
  inputs : ∀ n ∈ S.usedInputs, env.kind n = some .input
  enums : ∀ n ∈ S.usedEnums, env.kind n = some .enum
  scalars : ∀ n ∈ S.usedScalars, (lookupScalar env.scalars n).isSome = true

theorem record_kinded {env : Arguments.Env} {S : Arguments.St} {use : Use} (h : ListsKinded env S) (hk : UseKind env use) :
    ListsKinded env (S.record use) := by
  cases use with
  | plain => exact h
  | input n =>
    refine ⟨?_, h.enums, h.scalars⟩
    intro x hx
    simp only [Arguments.St.record, List.mem_append, List.mem_singleton] at hx
    rcases hx with hx | rfl
    · exact h.inputs x hx
    · exact hk
  | «enum» n =>
    refine ⟨h.inputs, ?_, h.scalars⟩
    intro x hx
    simp only [Arguments.St.record, List.mem_append, List.mem_singleton] at hx
    rcases hx with hx | rfl
    · exact h.enums x hx
    · exact hk
  | custom n =>
    refine ⟨h.inputs, h.enums, ?_⟩
    intro x hx
    simp only [Arguments.St.record, List.mem_append, List.mem_singleton] at hx
    rcases hx with hx | rfl
    · exact h.scalars x hx
    · exact hk

theorem foldl_record_kinded {env : Arguments.Env} : ∀ (is : List Item) (S : Arguments.St), ListsKinded env S →
    (∀ i ∈ is, UseKind env i.use) → ListsKinded env (is.foldl (fun st i => st.record i.use) S)
  | [], _, h, _ => h
  | i :: rest, S, h, hk => by
    simp only [List.foldl_cons]
    exact foldl_record_kinded rest _ (record_kinded h (hk i List.mem_cons_self)) (fun j hj => hk j (List.mem_cons_of_mem _ hj))

theorem generate_kinded {env : Arguments.Env} {defs : List Arguments.VarDef} {S S' : Arguments.St} {out : Arguments.Out}
    (h : Arguments.generate env defs S = .ok (out, S')) (hS : ListsKinded env S) : ListsKinded env S' := by
  unfold Arguments.generate at h
  cases hi : Arguments.items env defs with
  | error e => rw [hi] at h; simp at h
  | ok is =>
    rw [hi] at h
    simp only [Except.ok.injEq, Prod.mk.injEq] at h
    obtain ⟨_, rfl⟩ := h
    refine foldl_record_kinded is S hS ?_
    intro i hi'
    obtain ⟨v, _, hv⟩ := items_mem defs is hi i hi'
    unfold Arguments.item at hv
    simp only at hv
    cases hp : parseTypeNode env v.type true with
    | error e => rw [hp] at hv; simp at hv
    | ok r =>
      obtain ⟨ann, use⟩ := r
      rw [hp] at hv
      simp only [Except.ok.injEq] at hv
      subst hv
      exact (parseTypeNode_spec env v.type true ann use hp).2

theorem addMethod_kinded {env : Arguments.Env} {ot : ClientMethod.OpType} {on : Option String} {defs : List Arguments.VarDef}
    {name rt text : String} {async : Bool} {S S' : Arguments.St} {m : ClientMethod.Method}
    (h : ClientMethod.addMethod env ot on defs name rt text async S = .ok (m, S')) (hS : ListsKinded env S) : ListsKinded env S' := by
  unfold ClientMethod.addMethod at h
  cases hg : Arguments.generate env defs S with
  | error e => rw [hg] at h; simp at h
  | ok r =>
    obtain ⟨out, s1⟩ := r
    rw [hg] at h
    simp only at h
    have hk := generate_kinded hg hS
    cases ot with
    | subscription =>
      simp only at h
      split at h
      · simp only [Except.ok.injEq, Prod.mk.injEq] at h
        rw [← h.2]; exact hk
      · cases h
    | query =>
      simp only [Except.ok.injEq, Prod.mk.injEq] at h
      rw [← h.2]; exact hk
    | mutation =>
      simp only [Except.ok.injEq, Prod.mk.injEq] at h
      rw [← h.2]; exact hk

theorem argSt_kinded {cfg : Config} {inp : Input} {fl : Nat} {st : St} (h : addOperations cfg inp fl {} inp.ops = .ok st) :
    ListsKinded (argEnv cfg inp) st.argSt := by
  refine addOperations_inv (fun st => ListsKinded (argEnv cfg inp) st.argSt) ?_ inp.ops (fun _ h => h) {} st
    ⟨fun _ h => (by cases h), fun _ h => (by cases h), fun _ h => (by cases h)⟩ h
  intro st o st' _ hI hs
  obtain ⟨n, out, m, argSt, _, _, hm, rfl⟩ := addOperation_ok hs
  exact addMethod_kinded hm hI

/-- after the loop: every method of the client class is accounted for by the FINAL lists of the arguments generator -/
theorem entries_ok {cfg : Config} {inp : Input} {fl : Nat} {st : St} (h : addOperations cfg inp fl {} inp.ops = .ok st) :
    ∀ e ∈ st.entries, MethodOK (argEnv cfg inp) st.argSt e.method := by
  refine addOperations_inv (fun st => ∀ e ∈ st.entries, MethodOK (argEnv cfg inp) st.argSt e.method) ?_ inp.ops (fun _ h => h) {} st
    (fun _ h => (by cases h)) h
  intro st o st' _ hI hs
  obtain ⟨n, out, m, argSt, _, _, hm, rfl⟩ := addOperation_ok hs
  obtain ⟨hle, hok⟩ := addMethod_spec hm
  intro e he
  rcases List.mem_append.mp he with he | he
  · exact (hI e he).mono hle
  · have : e = ⟨m, methodName n⟩ := by simpa using he
    subst this
    exact hok

end Ariadne.C04Proofs
