/-
  C15: ClientForwardRefs on the methods of the client class — what `_update_name_to_constant` does to an annotation
  (which names it quotes, which names stay evaluated), the rewritten signature of a method, and the plugin state
  (`input_and_return_types`, `imported_in_method`) after the walk over all methods.
-/
import AriadneModel.Proofs.C15ShorterRelWhole
import AriadneModel.Model.PluginWholeF

set_option linter.unusedSimpArgs false
set_option linter.unusedVariables false

namespace Ariadne.C15
open Ariadne Ariadne.Py Ariadne.Plugins Ariadne.ClientSem

/-! ### `_update_name_to_constant` -/

mutual
  /-- the rewritten expression does not depend on the names collected so far -/
  theorem toConst_expr (cls : List (String × String)) : ∀ (e : Ex) (s s' : List String), (toConst cls e s).1 = (toConst cls e s').1
    | .name id, s, s' => by unfold toConst; split <;> rfl
    | .sub v sl, s, s' => by simp only [toConst]; rw [toConst_expr cls sl s s']
    | .tuple es, s, s' => by simp only [toConst]; rw [toConstList_expr cls es s s']
    | .const _, _, _ => by simp [toConst]
    | .attr _ _, _, _ => by simp [toConst]
    | .call _ _ _ _, _, _ => by simp [toConst]
    | .await _, _, _ => by simp [toConst]
    | .yield _, _, _ => by simp [toConst]
    | .yieldNone, _, _ => by simp [toConst]
    | .strs _, _, _ => by simp [toConst]
    | .other _ _, _, _ => by simp [toConst]
  theorem toConstList_expr (cls : List (String × String)) : ∀ (es : List Ex) (s s' : List String),
      (toConstList cls es s).1 = (toConstList cls es s').1
    | [], _, _ => by simp [toConstList]
    | e :: es, s, s' => by
      simp only [toConstList]
      rw [toConst_expr cls e s s', toConstList_expr cls es (toConst cls e s).2 (toConst cls e s').2]
end

mutual
  /-- names are only collected, never forgotten -/
  theorem toConst_mono (cls : List (String × String)) : ∀ (e : Ex) (s : List String) (n : String), n ∈ s → n ∈ (toConst cls e s).2
    | .name id, s, n => by
      unfold toConst
      split
      · intro h; exact (mem_sadd id n s).mpr (.inl h)
      · exact fun h => h
    | .sub v sl, s, n => by simp only [toConst]; exact toConst_mono cls sl s n
    | .tuple es, s, n => by simp only [toConst]; exact toConstList_mono cls es s n
    | .const _, _, _ => by simp [toConst]
    | .attr _ _, _, _ => by simp [toConst]
    | .call _ _ _ _, _, _ => by simp [toConst]
    | .await _, _, _ => by simp [toConst]
    | .yield _, _, _ => by simp [toConst]
    | .yieldNone, _, _ => by simp [toConst]
    | .strs _, _, _ => by simp [toConst]
    | .other _ _, _, _ => by simp [toConst]
  theorem toConstList_mono (cls : List (String × String)) : ∀ (es : List Ex) (s : List String) (n : String),
      n ∈ s → n ∈ (toConstList cls es s).2
    | [], _, _ => by simp [toConstList]
    | e :: es, s, n => by
      simp only [toConstList]
      intro h
      exact toConstList_mono cls es _ n (toConst_mono cls e s n h)
end

mutual
  /-- a collected name is a locally imported class in a position `_update_name_to_constant` reaches -/
  theorem toConst_leaf (cls : List (String × String)) : ∀ (e : Ex) (s : List String) (n : String),
      n ∈ (toConst cls e s).2 → n ∈ s ∨ (n ∈ annLeafNames e ∧ ahas n cls = true)
    | .name id, s, n => by
      unfold toConst
      split
      · rename_i h
        intro hn
        rcases (mem_sadd id n s).mp hn with h1 | h1
        · exact .inl h1
        · subst h1; exact .inr ⟨by simp [annLeafNames], h⟩
      · intro hn; exact .inl hn
    | .sub v sl, s, n => by
      simp only [toConst, annLeafNames]
      exact toConst_leaf cls sl s n
    | .tuple es, s, n => by
      simp only [toConst, annLeafNames]
      exact toConstList_leaf cls es s n
    | .const _, _, _ => by simp [toConst]; exact .inl
    | .attr _ _, _, _ => by simp [toConst]; exact .inl
    | .call _ _ _ _, _, _ => by simp [toConst]; exact .inl
    | .await _, _, _ => by simp [toConst]; exact .inl
    | .yield _, _, _ => by simp [toConst]; exact .inl
    | .yieldNone, _, _ => by simp [toConst]; exact .inl
    | .strs _, _, _ => by simp [toConst]; exact .inl
    | .other _ _, _, _ => by simp [toConst]; exact .inl
  theorem toConstList_leaf (cls : List (String × String)) : ∀ (es : List Ex) (s : List String) (n : String),
      n ∈ (toConstList cls es s).2 → n ∈ s ∨ (n ∈ annLeafNamesList es ∧ ahas n cls = true)
    | [], s, n => by simp [toConstList]; exact .inl
    | e :: es, s, n => by
      simp only [toConstList, annLeafNamesList, List.mem_append]
      intro hn
      rcases toConstList_leaf cls es _ n hn with h | ⟨h1, h2⟩
      · rcases toConst_leaf cls e s n h with h' | ⟨h1, h2⟩
        · exact .inl h'
        · exact .inr ⟨.inl h1, h2⟩
      · exact .inr ⟨.inr h1, h2⟩
end

mutual
  /-- a locally imported class in a reachable position IS collected -/
  theorem toConst_adds (cls : List (String × String)) : ∀ (e : Ex) (s : List String) (n : String),
      n ∈ annLeafNames e → ahas n cls = true → n ∈ (toConst cls e s).2
    | .name id, s, n => by
      intro hn hc
      simp only [annLeafNames, List.mem_singleton] at hn
      subst hn
      unfold toConst
      simp only [hc, ↓reduceIte]
      exact (mem_sadd n n s).mpr (.inr rfl)
    | .sub v sl, s, n => by simp only [toConst, annLeafNames]; exact toConst_adds cls sl s n
    | .tuple es, s, n => by simp only [toConst, annLeafNames]; exact toConstList_adds cls es s n
    | .const _, _, _ => by simp [annLeafNames]
    | .attr _ _, _, _ => by simp [annLeafNames]
    | .call _ _ _ _, _, _ => by simp [annLeafNames]
    | .await _, _, _ => by simp [annLeafNames]
    | .yield _, _, _ => by simp [annLeafNames]
    | .yieldNone, _, _ => by simp [annLeafNames]
    | .strs _, _, _ => by simp [annLeafNames]
    | .other _ _, _, _ => by simp [annLeafNames]
  theorem toConstList_adds (cls : List (String × String)) : ∀ (es : List Ex) (s : List String) (n : String),
      n ∈ annLeafNamesList es → ahas n cls = true → n ∈ (toConstList cls es s).2
    | [], _, _ => by simp [annLeafNamesList]
    | e :: es, s, n => by
      simp only [toConstList, annLeafNamesList, List.mem_append]
      rintro (h | h) hc
      · exact toConstList_mono cls es _ n (toConst_adds cls e s n h hc)
      · exact toConstList_adds cls es _ n h hc
end

mutual
  /-- a name still evaluated after the rewrite was evaluated before -/
  theorem toConst_names (cls : List (String × String)) : ∀ (e : Ex) (s : List String) (n : String),
      n ∈ exNames (toConst cls e s).1 → n ∈ exNames e
    | .name id, s, n => by
      unfold toConst
      split
      · simp [exNames]
      · exact fun h => h
    | .sub v sl, s, n => by
      simp only [toConst, exNames, List.mem_append]
      rintro (h | h)
      · exact .inl h
      · exact .inr (toConst_names cls sl s n h)
    | .tuple es, s, n => by
      simp only [toConst, exNames]
      exact toConstList_names cls es s n
    | .const _, _, _ => by simp [toConst]
    | .attr _ _, _, _ => by simp [toConst]
    | .call _ _ _ _, _, _ => by simp [toConst]
    | .await _, _, _ => by simp [toConst]
    | .yield _, _, _ => by simp [toConst]
    | .yieldNone, _, _ => by simp [toConst]
    | .strs _, _, _ => by simp [toConst]
    | .other _ _, _, _ => by simp [toConst]
  theorem toConstList_names (cls : List (String × String)) : ∀ (es : List Ex) (s : List String) (n : String),
      n ∈ exNamesList (toConstList cls es s).1 → n ∈ exNamesList es
    | [], _, _ => by simp [toConstList]
    | e :: es, s, n => by
      simp only [toConstList, exNamesList, List.mem_append]
      rintro (h | h)
      · exact .inl (toConst_names cls e s n h)
      · exact .inr (toConstList_names cls es _ n h)
end

end Ariadne.C15

namespace Ariadne.C15
open Ariadne Ariadne.Py Ariadne.Plugins Ariadne.ClientSem

/-! ### the rewritten signature -/

theorem fwdRewriteArgs_spec (IC : List (String × String)) : ∀ (args : List (String × Option Ex)) (s : List String),
    (fwdRewriteArgs IC args s).1 = argsQuoted IC args ∧
    (∀ n, n ∈ (fwdRewriteArgs IC args s).2 ↔
      n ∈ s ∨ (n ∈ args.flatMap (fun a => match a.2 with | some e => annLeafNames e | none => []) ∧ ahas n IC = true)) := by
  intro args
  induction args with
  | nil => intro s; simp [fwdRewriteArgs, argsQuoted]
  | cons a rest ih =>
    intro s
    obtain ⟨nm, ann⟩ := a
    cases ann with
    | none =>
      obtain ⟨h1, h2⟩ := ih s
      simp only [fwdRewriteArgs, argsQuoted, List.map_cons, Option.map_none, List.flatMap_cons, List.nil_append]
      refine ⟨by rw [h1]; rfl, h2⟩
    | some e =>
      obtain ⟨h1, h2⟩ := ih (toConst IC e s).2
      simp only [fwdRewriteArgs, argsQuoted, List.map_cons, Option.map_some, List.flatMap_cons, List.mem_append]
      refine ⟨by rw [h1]; simp [argsQuoted, quoted, toConst_expr IC e s []], ?_⟩
      intro n
      rw [h2 n]
      constructor
      · rintro (h | ⟨h, hc⟩)
        · rcases toConst_leaf IC e s n h with h' | ⟨h', hc⟩
          · exact .inl h'
          · exact .inr ⟨.inl h', hc⟩
        · exact .inr ⟨.inr h, hc⟩
      · rintro (h | ⟨h | h, hc⟩)
        · exact .inl (toConst_mono IC e s n h)
        · exact .inl (toConst_adds IC e s n h hc)
        · exact .inr ⟨h, hc⟩

theorem fwdSignature_spec (st : FwdState) (m : Method) :
    (fwdSignature st m).1 = argsQuoted st.importedClasses m.args ∧
    (fwdSignature st m).2.1 = m.returns.map (quoted st.importedClasses) ∧
    (∀ n, n ∈ (fwdSignature st m).2.2 ↔ n ∈ st.inputAndReturnTypes ∨ (n ∈ sigLeaves m ∧ ahas n st.importedClasses = true)) := by
  obtain ⟨a1, a2⟩ := fwdRewriteArgs_spec st.importedClasses m.args st.inputAndReturnTypes
  unfold fwdSignature sigLeaves
  cases hr : m.returns with
  | none =>
    simp only [Option.map_none, List.append_nil]
    exact ⟨a1, trivial, a2⟩
  | some r =>
    simp only [Option.map_some, List.mem_append]
    refine ⟨a1, by simp [quoted, toConst_expr st.importedClasses r _ []], ?_⟩
    intro n
    constructor
    · intro h
      rcases toConst_leaf st.importedClasses r _ n h with h' | ⟨h', hc⟩
      · rcases (a2 n).mp h' with h'' | ⟨h'', hc⟩
        · exact .inl h''
        · exact .inr ⟨.inl h'', hc⟩
      · exact .inr ⟨.inr h', hc⟩
    · rintro (h | ⟨h | h, hc⟩)
      · exact toConst_mono _ r _ n ((a2 n).mpr (.inl h))
      · exact toConst_mono _ r _ n ((a2 n).mpr (.inr ⟨h, hc⟩))
      · exact toConst_adds _ r _ n h hc

/-! ### the walk over the methods -/

/-- what ClientForwardRefs makes of a method of the generated shape whose validated class is a locally imported one -/
def FwdOutcome (IC : List (String × String)) (md md' : Method) : Prop :=
  ∃ s src, shapeOf md = some s ∧ alookup s.retClass IC = some src ∧
    md' = { md with args := argsQuoted IC md.args, returns := md.returns.map (quoted IC),
                    body := bodyOf (withImport s { module := some src, names := [(s.retClass, none)], level := 0 }) }

/-- every method has the generated shape (at most one projection) and validates a locally imported class -/
def FwdMethodsOK (IC : List (String × String)) (methods : List Method) : Prop :=
  ∀ md ∈ methods, ∃ s src, shapeOf md = some s ∧ s.proj.length ≤ 1 ∧ alookup s.retClass IC = some src

theorem fwd_methods_spec : ∀ (items : List ClassItem) (st st1 : FwdState) (items1 : List ClassItem),
    FwdMethodsOK st.importedClasses (items.filterMap ClassItem.method?) →
    mapMethodsM fwdMethod st items = .ok (st1, items1) →
    st1.importedClasses = st.importedClasses ∧
    ItemsRel (FwdOutcome st.importedClasses) items items1 ∧
    (∀ n, n ∈ st1.inputAndReturnTypes ↔ n ∈ st.inputAndReturnTypes ∨
      ∃ md ∈ items.filterMap ClassItem.method?, n ∈ sigLeaves md ∧ ahas n st.importedClasses = true) ∧
    (∀ n, n ∈ st1.importedInMethod ↔ n ∈ st.importedInMethod ∨
      ∃ md ∈ items.filterMap ClassItem.method?, ∃ s, shapeOf md = some s ∧ n = s.retClass) := by
  intro items
  induction items with
  | nil =>
    intro st st1 items1 _ h
    simp [mapMethodsM, pure, Except.pure] at h
    obtain ⟨h1, h2⟩ := h
    subst h1; subst h2
    exact ⟨rfl, .nil, by simp, by simp⟩
  | cons it rest ih =>
    intro st st1 items1 hok h
    cases it with
    | method m =>
      obtain ⟨s, src, hsh, hp, hsrc⟩ := hok m (by simp [ClassItem.method?])
      have hb := shapeOf_sound m s hsh
      have hfm := fwd_method st m s src hb hp hsrc
      obtain ⟨st', hst'⟩ : ∃ st' : FwdState, st' = { st with inputAndReturnTypes := (fwdSignature st m).2.2, importedInMethod := sadd s.retClass st.importedInMethod } := ⟨_, rfl⟩
      rw [← hst'] at hfm
      have hic : st'.importedClasses = st.importedClasses := by rw [hst']
      have hir : st'.inputAndReturnTypes = (fwdSignature st m).2.2 := by rw [hst']
      have him : st'.importedInMethod = sadd s.retClass st.importedInMethod := by rw [hst']
      simp only [mapMethodsM, hfm, bind_ok] at h
      cases hrest : mapMethodsM fwdMethod st' rest with
      | error e => rw [hrest] at h; cases h
      | ok r2 =>
        rw [hrest] at h
        simp only [bind_ok, pure_eq_ok, Except.ok.injEq, Prod.mk.injEq] at h
        obtain ⟨rfl, rfl⟩ := h
        obtain ⟨j1, j2, j3, j4⟩ := ih st' r2.1 r2.2
          (by rw [hic]; exact fun md hmd => hok md (by simp [ClassItem.method?, hmd])) hrest
        obtain ⟨g1, g2, g3⟩ := fwdSignature_spec st m
        rw [hic] at j1 j2 j3
        refine ⟨j1, ?_, ?_, ?_⟩
        · refine .method ⟨s, src, hsh, hsrc, ?_⟩ j2
          rw [g1, g2]
        · intro n
          rw [j3 n, hir, g3 n]
          simp only [List.filterMap_cons, ClassItem.method?, List.mem_cons, exists_eq_or_imp]
          constructor
          · rintro ((h | h) | h)
            · exact .inl h
            · exact .inr (.inl h)
            · exact .inr (.inr h)
          · rintro (h | h | h)
            · exact .inl (.inl h)
            · exact .inl (.inr h)
            · exact .inr h
        · intro n
          rw [j4 n, him, mem_sadd]
          simp only [List.filterMap_cons, ClassItem.method?, List.mem_cons, exists_eq_or_imp]
          constructor
          · rintro ((h | h) | h)
            · exact .inl h
            · exact .inr (.inl ⟨s, hsh, h⟩)
            · exact .inr (.inr h)
          · rintro (h | ⟨s', hs', h⟩ | h)
            · exact .inl (.inl h)
            · rw [hsh] at hs'
              have := Option.some.inj hs'
              subst this
              exact .inl (.inr h)
            · exact .inr h
    | stmt sm =>
      simp only [mapMethodsM] at h
      cases hrest : mapMethodsM fwdMethod st rest with
      | error e => rw [hrest] at h; cases h
      | ok r2 =>
        rw [hrest] at h
        simp only [bind_ok, pure_eq_ok, Except.ok.injEq, Prod.mk.injEq] at h
        obtain ⟨rfl, rfl⟩ := h
        obtain ⟨j1, j2, j3, j4⟩ := ih st r2.1 r2.2 (fun md hmd => hok md (by simpa [ClassItem.method?] using hmd)) hrest
        exact ⟨j1, .other j2, by simpa [ClassItem.method?] using j3, by simpa [ClassItem.method?] using j4⟩

/-- under `FwdMethodsOK` the walk does not raise -/
theorem fwd_methods_ok : ∀ (items : List ClassItem) (st : FwdState),
    FwdMethodsOK st.importedClasses (items.filterMap ClassItem.method?) → ∃ r, mapMethodsM fwdMethod st items = .ok r := by
  intro items
  induction items with
  | nil => intro st _; exact ⟨_, rfl⟩
  | cons it rest ih =>
    intro st hok
    cases it with
    | method m =>
      obtain ⟨s, src, hsh, hp, hsrc⟩ := hok m (by simp [ClassItem.method?])
      have hfm := fwd_method st m s src (shapeOf_sound m s hsh) hp hsrc
      obtain ⟨r2, hr2⟩ := ih { st with inputAndReturnTypes := (fwdSignature st m).2.2, importedInMethod := sadd s.retClass st.importedInMethod } (fun md hmd => hok md (by simp [ClassItem.method?, hmd]))
      exact ⟨_, by simp only [mapMethodsM, hfm, bind_ok, hr2]; rfl⟩
    | stmt sm =>
      obtain ⟨r2, hr2⟩ := ih st (fun md hmd => hok md (by simpa [ClassItem.method?] using hmd))
      exact ⟨_, by simp only [mapMethodsM, hr2, bind_ok]; rfl⟩

end Ariadne.C15
