/-
  Proofs/C04ModEnums.lean — `enums.py`: its one import is absolute, every class statement finds `str` and `Enum`,
  there are no forward references and no rebuild calls; and which enum classes the module defines.
-/
import AriadneModel.Proofs.C04Resolve

set_option linter.unusedSimpArgs false
set_option linter.unusedVariables false

namespace Ariadne.C04Proofs
open Ariadne Ariadne.Gql Ariadne.Util Ariadne.Package Ariadne.PackageTriggers Ariadne.PackageValid Ariadne.Spec.PyScope

/-- **enums.py**, for every schema, configuration and list of used enums, in every package -/
theorem enumsModule_residual (p : PackageIR) (cfg : Config) (s : Schema) (ue : List String) :
    residualParts p (enumsModule cfg s ue) = true := by
  have himp : (enumsModule cfg s ue).imports = [⟨0, "enum", ["Enum"]⟩] := rfl
  refine residualParts_of ?_ ?_ ?_ ?_
  · apply importsResolve_of
    intro i hi
    rw [himp] at hi
    have : i = ⟨0, "enum", ["Enum"]⟩ := by simpa using hi
    subst this
    exact Or.inl (by decide)
  · apply classesLoad_of_bound
    · intro c hc u hu
      have hcls : c ∈ (enumsModule cfg s ue).classes := hc
      simp only [enumsModule, List.mem_map] at hc
      obtain ⟨t, _, rfl⟩ := hc
      have : u = "str" ∨ u = "Enum" := by simpa [enumClassIR] using hu
      rcases this with rfl | rfl
      · exact boundIn_builtin (by decide)
      · refine boundIn_of_import (i := ⟨0, "enum", ["Enum"]⟩) (by rw [himp]; simp) (by simp) ?_
        exact mem_usedNames_class hcls (by simp [enumClassIR])
    · intro f hf
      simp [enumsModule] at hf
  · unfold forwardRefsOK
    refine List.all_eq_true.mpr ?_
    intro c hc
    simp only [enumsModule, List.mem_map] at hc
    obtain ⟨t, _, rfl⟩ := hc
    rfl
  · rfl

/-- the enum classes `enums.py` defines: every enum of the schema, or those that were used -/
theorem enum_class_mem {cfg : Config} {s : Schema} {ue : List String} {n : String} (hk : s.kindOf? n = some .enum)
    (hu : cfg.allEnums = true ∨ n ∈ ue) : n ∈ (enumsModule cfg s ue).classes.map (·.name) := by
  unfold Schema.kindOf? Schema.get? at hk
  cases hf : s.types.find? (·.name == n) with
  | none => rw [hf] at hk; simp at hk
  | some t =>
    rw [hf] at hk
    simp only [Option.map_some, Option.some.injEq] at hk
    have hmem := List.mem_of_find?_eq_some hf
    have hname : t.name = n := by simpa using List.find?_some hf
    have hsch : t ∈ schemaEnums s := List.mem_filter.mpr ⟨hmem, by simp [hk]⟩
    simp only [enumsModule, List.map_map]
    refine List.mem_map.mpr ⟨t, ?_, by simp [enumClassIR, hname]⟩
    rcases hu with h | h
    · simp [h, hsch]
    · cases ha : cfg.allEnums with
      | true => simp [hsch]
      | false =>
        simp only [Bool.false_eq_true, if_false]
        exact List.mem_filter.mpr ⟨hsch, by simpa [hname] using h⟩

theorem enumsModule_file (cfg : Config) (s : Schema) (ue : List String) : (enumsModule cfg s ue).file = pyFile cfg.enumsModule := rfl

theorem enumsModule_generated (cfg : Config) (s : Schema) (ue : List String) : generated (enumsModule cfg s ue) = true := rfl

end Ariadne.C04Proofs
