/-
  Proofs/EmbedBN.lean — the embedding pipeline of C02 on EVERY text without `'` and `"""`, in closed form
  (`embed_described`): the safe texts and the finding regions `escN` (C02-F2, C02-F3) and `lineSep` (C02-F8).

      lines -> repr of each line -> adjacent literals -> replace("\\n","\n") / replace("'","") / textwrap.indent
            -> Python's reading of the triple-quoted literal

  A line is cut at its backslash-`n` pairs (`segsBN`); `repr` doubles the backslash, `str.replace` turns the second
  backslash and the `n` into a raw newline, which leaves "backslash, newline" in the literal: a line continuation.
  Pure `List Char` reasoning on top of Proofs/Embed.lean (the per-character facts `TokOK` are reused unchanged).
-/
import AriadneModel.Proofs.Embed

set_option linter.unusedSimpArgs false
set_option linter.unusedVariables false

namespace Ariadne.EmbedProofs
open Ariadne.Embed Ariadne.PyStr

/-! ### `segsBN` -/

theorem segsBN_nil : segsBN [] = ([], []) := by
  rw [segsBN.eq_def]

theorem segsBN_bsn (X : List Char) : segsBN ('\\' :: 'n' :: X) = ([], (segsBN X).1 :: (segsBN X).2) := by
  rw [segsBN.eq_def]
  simp

theorem segsBN_cons (a : Char) (X : List Char) (h : a = '\\' → X.head? ≠ some 'n') :
    segsBN (a :: X) = (a :: (segsBN X).1, (segsBN X).2) := by
  rw [segsBN.eq_def]
  split
  · simp_all
  · rename_i heq
    simp only [List.cons.injEq] at heq
    obtain ⟨rfl, rfl⟩ := heq
    exact absurd rfl (h rfl)
  · rename_i heq
    simp only [List.cons.injEq] at heq
    obtain ⟨rfl, rfl⟩ := heq
    rfl

theorem hasBsN_cons (a : Char) (X : List Char) :
    hasBsN (a :: X) = ((a == '\\' && X.head? == some 'n') || hasBsN X) := by
  cases X with
  | nil => simp [hasBsN]
  | cons b t => simp [hasBsN]

theorem segsBN_noBN (l : List Char) (h : hasBsN l = false) : segsBN l = (l, []) := by
  induction l with
  | nil => exact segsBN_nil
  | cons a X ih =>
    rw [hasBsN_cons, Bool.or_eq_false_iff] at h
    rw [segsBN_cons a X, ih h.2]
    intro ha hX
    have := h.1
    simp [ha, hX] at this

theorem segsBN_cut (s l' : List Char) (h : hasBsN s = false) :
    segsBN (s ++ '\\' :: 'n' :: l') = (s, (segsBN l').1 :: (segsBN l').2) := by
  induction s with
  | nil => exact segsBN_bsn l'
  | cons a s ih =>
    rw [hasBsN_cons, Bool.or_eq_false_iff] at h
    rw [List.cons_append, segsBN_cons a _, ih h.2]
    intro ha hX
    cases s with
    | nil => simp at hX
    | cons b t =>
      have := h.1
      simp only [List.cons_append, List.head?_cons, Option.some.injEq] at hX
      simp [ha, hX] at this

/-- a line with a backslash-`n` pair, cut at the leftmost one -/
theorem bn_split (l : List Char) (h : hasBsN l = true) :
    ∃ s l', l = s ++ '\\' :: 'n' :: l' ∧ hasBsN s = false := by
  induction l with
  | nil => simp [hasBsN] at h
  | cons a X ih =>
    rw [hasBsN_cons] at h
    by_cases h1 : (a == '\\' && X.head? == some 'n') = true
    · simp only [Bool.and_eq_true, beq_iff_eq] at h1
      obtain ⟨rfl, hX⟩ := h1
      cases X with
      | nil => simp at hX
      | cons b t =>
        simp only [List.head?_cons, Option.some.injEq] at hX
        subst hX
        exact ⟨[], t, rfl, rfl⟩
    · have h1' : (a == '\\' && X.head? == some 'n') = false := by simpa using h1
      rw [h1', Bool.false_or] at h
      obtain ⟨s, l', rfl, hs⟩ := ih h
      refine ⟨a :: s, l', rfl, ?_⟩
      rw [hasBsN_cons, hs, Bool.or_false]
      cases s with
      | nil => simp
      | cons b t => simpa using h1'

/-! ### lines without `'`, line separators and `"""` -/

/-- a line of a text without `'` and `"""` (backslash-`n` pairs allowed) -/
structure QLine (l : List Char) : Prop where
  chars : ∀ c ∈ l, SafeChar c
  tq : hasTQ l = false

theorem QLine.safe {l : List Char} (h : QLine l) (hb : hasBsN l = false) : SafeLine l := ⟨h.chars, hb, h.tq⟩

theorem QLine.infix {l m : List Char} (h : QLine l) (hi : m <:+: l) : QLine m :=
  ⟨fun c hc => h.chars c (hi.subset hc), hasTQ_infix hi h.tq⟩

theorem QLine.left {s l' : List Char} (h : QLine (s ++ '\\' :: 'n' :: l')) : QLine s :=
  h.infix (List.prefix_append _ _).isInfix

theorem QLine.right {s l' : List Char} (h : QLine (s ++ '\\' :: 'n' :: l')) : QLine l' :=
  h.infix (by
    have : l' <:+ s ++ '\\' :: 'n' :: l' := by
      refine ⟨s ++ ['\\', 'n'], ?_⟩
      simp
    exact this.isInfix)

/-- every segment of such a line is a safe line -/
theorem segs_safe : ∀ (n : Nat) (l : List Char), l.length = n → QLine l →
    SafeLine (segsBN l).1 ∧ ∀ t ∈ (segsBN l).2, SafeLine t := by
  intro n
  induction n using Nat.strongRecOn with
  | ind n ih =>
    intro l hlen hl
    cases hb : hasBsN l with
    | false =>
      rw [segsBN_noBN l hb]
      exact ⟨hl.safe hb, fun t ht => absurd ht List.not_mem_nil⟩
    | true =>
      obtain ⟨s, l', rfl, hs⟩ := bn_split l hb
      rw [segsBN_cut s l' hs]
      have hlt : l'.length < n := by
        rw [← hlen]
        simp only [List.length_append, List.length_cons]
        omega
      obtain ⟨h1, h2⟩ := ih l'.length hlt l' rfl hl.right
      refine ⟨hl.left.safe hs, ?_⟩
      intro t ht
      rcases List.mem_cons.mp ht with rfl | ht
      · exact h1
      · exact h2 t ht

/-! ### the stages, per line -/

/-- after `replace("\\n", "\n")` and `replace("'", "")`: the segments of a line -/
def jSegs (env : Char → Bool) (s : List Char) : List (List Char) → List Char
  | [] => escs env s ++ ['\n']
  | t :: ts => escs env s ++ '\\' :: '\n' :: jSegs env t ts

/-- after `textwrap.indent` -/
def bodySegs (env : Char → Bool) (k : Nat) (s : List Char) : List (List Char) → List Char
  | [] => ind k s ++ (escs env s ++ ['\n'])
  | t :: ts => List.replicate k ' ' ++ (escs env s ++ '\\' :: '\n' :: bodySegs env k t ts)

theorem escs_append (env : Char → Bool) (a b : List Char) : escs env (a ++ b) = escs env a ++ escs env b := by
  simp [escs]

theorem reprChar_bs (env : Char → Bool) : reprChar env '\'' '\\' = ['\\', '\\'] := by
  simp [reprChar]

theorem reprChar_n (env : Char → Bool) : reprChar env '\'' 'n' = ['n'] := by
  simp [reprChar, isPrintable]

theorem escs_bn (env : Char → Bool) (s l' : List Char) :
    escs env (s ++ '\\' :: 'n' :: l') = (escs env s ++ ['\\']) ++ '\\' :: 'n' :: escs env l' := by
  rw [escs_append, escs_cons, escs_cons, reprChar_bs, reprChar_n]
  simp

theorem deleteQuotes_append (a b : List Char) : deleteQuotes (a ++ b) = deleteQuotes a ++ deleteQuotes b := by
  simp [deleteQuotes]

theorem deleteQuotes_escs (env : Char → Bool) (s : List Char) (h : SafeLine s) : deleteQuotes (escs env s) = escs env s := by
  unfold deleteQuotes
  rw [List.filter_eq_self]
  intro x hx
  simpa using escs_noQuote env s h x hx

/-- `replace("\\n", "\n")` then `replace("'", "")` on one unparsed constant (behind its opening quote) -/
theorem replace_delete_line (env : Char → Bool) (X : List Char) : ∀ (n : Nat) (l : List Char), l.length = n → QLine l →
    deleteQuotes (replaceBN (escs env l ++ '\\' :: 'n' :: '\'' :: X))
      = jSegs env (segsBN l).1 (segsBN l).2 ++ deleteQuotes (replaceBN X) := by
  intro n
  induction n using Nat.strongRecOn with
  | ind n ih =>
    intro l hlen hl
    cases hb : hasBsN l with
    | false =>
      have hs := hl.safe hb
      have hp : noBN (escs env l ++ List.take 1 ('\\' :: 'n' :: '\'' :: X)) = true := by
        simpa using escs_noBN env l ['\\'] hs rfl (by simp)
      rw [segsBN_noBN l hb, replaceBN_prefix _ _ hp, replaceBN_bsn, replaceBN_ne '\'' _ (by decide), deleteQuotes_append,
        deleteQuotes_escs env l hs]
      simp [jSegs, deleteQuotes]
    | true =>
      obtain ⟨s, l', rfl, hs⟩ := bn_split l hb
      have hss := hl.left.safe hs
      have hlt : l'.length < n := by
        rw [← hlen]
        simp only [List.length_append, List.length_cons]
        omega
      have hrec := ih l'.length hlt l' rfl hl.right
      have hp : noBN ((escs env s ++ ['\\']) ++ List.take 1 ('\\' :: 'n' :: (escs env l' ++ '\\' :: 'n' :: '\'' :: X))) = true := by
        have := escs_noBN env s ['\\', '\\'] hss (by decide) (by simp)
        simpa using this
      have e : escs env (s ++ '\\' :: 'n' :: l') ++ '\\' :: 'n' :: '\'' :: X
          = (escs env s ++ ['\\']) ++ ('\\' :: 'n' :: (escs env l' ++ '\\' :: 'n' :: '\'' :: X)) := by
        rw [escs_bn]
        simp
      rw [e, replaceBN_prefix _ _ hp, replaceBN_bsn, segsBN_cut s l' hs, deleteQuotes_append, deleteQuotes_append,
        deleteQuotes_escs env s hss]
      have e2 : deleteQuotes ('\n' :: replaceBN (escs env l' ++ '\\' :: 'n' :: '\'' :: X))
          = '\n' :: deleteQuotes (replaceBN (escs env l' ++ '\\' :: 'n' :: '\'' :: X)) := by
        simp [deleteQuotes]
      rw [e2, hrec]
      simp [jSegs, deleteQuotes]

theorem pyIndent_line (pfx A B : List Char) (hA : ∀ x ∈ A, x ≠ '\n') :
    pyIndent pfx (A ++ '\n' :: B)
      = (if (A ++ ['\n']).all isWs then A ++ ['\n'] else pfx ++ (A ++ ['\n'])) ++ pyIndent pfx B := by
  unfold pyIndent
  rw [splitKeep_line _ _ hA, List.flatMap_cons]

theorem indent_segs (env : Char → Bool) (k : Nat) (Y : List Char) : ∀ (ss : List (List Char)) (s : List Char),
    SafeLine s → (∀ t ∈ ss, SafeLine t) →
    pyIndent (List.replicate k ' ') (jSegs env s ss ++ Y) = bodySegs env k s ss ++ pyIndent (List.replicate k ' ') Y
  | [], s, hs, _ => by
    have e : jSegs env s [] ++ Y = escs env s ++ '\n' :: Y := by simp [jSegs]
    have hws : (escs env s ++ ['\n']).all isWs = s.all (· == ' ') := by
      rw [List.all_append, escs_ws env s hs]
      simp [isWs]
    rw [e, pyIndent_line _ _ _ (escs_noNL env s hs), hws]
    simp only [bodySegs, ind]
    by_cases hb : s.all (· == ' ') = true
    · simp [hb]
    · simp [hb]
  | t :: ts, s, hs, hss => by
    have e : jSegs env s (t :: ts) ++ Y = (escs env s ++ ['\\']) ++ '\n' :: (jSegs env t ts ++ Y) := by simp [jSegs]
    have hnl : ∀ x ∈ escs env s ++ ['\\'], x ≠ '\n' := by
      intro x hx
      rcases List.mem_append.mp hx with hx | hx
      · exact escs_noNL env s hs x hx
      · simp at hx
        subst hx
        decide
    have hws : ((escs env s ++ ['\\']) ++ ['\n']).all isWs = false := by
      simp [List.all_append, isWs]
    rw [e, pyIndent_line _ _ _ hnl, hws,
      indent_segs env k Y ts t (hss t (by simp)) (fun x hx => hss x (by simp [hx]))]
    simp [bodySegs]

theorem evalBody_bsnl (X : List Char) : evalBody ('\\' :: '\n' :: X) = evalBody X := by
  rw [evalBody.eq_def]
  simp

theorem map_id_appFst_nil (o : Option (List Char × List Char)) : o.map (appFst []) = o := by
  cases o <;> simp [appFst]

theorem eval_segs (env : Char → Bool) (k : Nat) (R : List Char) : ∀ (ss : List (List Char)) (s : List Char),
    SafeLine s → (∀ t ∈ ss, SafeLine t) →
    evalBody (bodySegs env k s ss ++ R) = (evalBody R).map (appFst (sentSegs k s ss))
  | [], s, hs, _ => by
    have e : bodySegs env k s [] ++ R = body env k [s] ++ R := by simp [bodySegs, body]
    have e2 : sentSegs k s [] = indentLines k [s] := by simp [sentSegs, indentLines]
    rw [e, e2]
    exact eval_body env k [s] R (by simpa using hs)
  | t :: ts, s, hs, hss => by
    have e : bodySegs env k s (t :: ts) ++ R
        = List.replicate k ' ' ++ (escs env s ++ ('\\' :: '\n' :: (bodySegs env k t ts ++ R))) := by
      simp [bodySegs]
    rw [e, eval_spaces, escs_eval env s _ hs (by simp), evalBody_bsnl,
      eval_segs env k R ts t (hss t (by simp)) (fun x hx => hss x (by simp [hx])),
      map_appFst_appFst, map_appFst_appFst]
    congr 2
    simp [sentSegs]

/-! ### the stages, all lines -/

def JJ (env : Char → Bool) (ls : List (List Char)) : List Char :=
  ls.flatMap fun l => jSegs env (segsBN l).1 (segsBN l).2

def BB (env : Char → Bool) (k : Nat) (ls : List (List Char)) : List Char :=
  ls.flatMap fun l => bodySegs env k (segsBN l).1 (segsBN l).2

theorem reprStr_qline (env : Char → Bool) (l : List Char) (h : ∀ c ∈ l, SafeChar c) :
    reprStr env (l ++ ['\n']) = '\'' :: (escs env l ++ ['\\', 'n', '\'']) := by
  have hm : '\'' ∉ l ++ ['\n'] := by
    intro hm
    rw [List.mem_append] at hm
    rcases hm with hm | hm
    · exact (h _ hm).1 rfl
    · simp at hm
  have hq : reprQuote (l ++ ['\n']) = '\'' := by
    unfold reprQuote
    have : (l ++ ['\n']).contains '\'' = false := by
      cases hc : (l ++ ['\n']).contains '\'' with
      | false => rfl
      | true => exact absurd (List.contains_iff_mem.mp hc) hm
    rw [this]
    simp
  have hn : reprChar env '\'' '\n' = ['\\', 'n'] := by simp [reprChar]
  unfold PyStr.reprStr
  simp only [hq, List.flatMap_append, List.flatMap_cons, List.flatMap_nil, List.append_nil, hn]
  simp [escs]

theorem unparse_qlines (env : Char → Bool) (ls : List (List Char)) (h : ∀ l ∈ ls, QLine l) :
    unparseConsts env (ls.map (· ++ ['\n'])) = U env ls := by
  induction ls with
  | nil => rfl
  | cons l ls ih =>
    have := ih (fun x hx => h x (by simp [hx]))
    simp only [unparseConsts, U, List.map_cons, List.flatMap_cons] at this ⊢
    rw [this, reprStr_qline env l (h l (by simp)).chars]

theorem replace_delete_lines (env : Char → Bool) (ls : List (List Char)) (h : ∀ l ∈ ls, QLine l) :
    deleteQuotes (replaceBN (U env ls)) = JJ env ls := by
  induction ls with
  | nil => rfl
  | cons l ls ih =>
    have e : U env (l :: ls) = '\'' :: (escs env l ++ '\\' :: 'n' :: '\'' :: U env ls) := by simp [U]
    have e2 : ∀ Z, deleteQuotes ('\'' :: Z) = deleteQuotes Z := by intro Z; simp [deleteQuotes]
    rw [e, replaceBN_ne '\'' _ (by decide), e2, replace_delete_line env (U env ls) l.length l rfl (h l (by simp)),
      ih (fun x hx => h x (by simp [hx]))]
    simp [JJ]

theorem jSegs_last (env : Char → Bool) : ∀ (ss : List (List Char)) (s : List Char), ∃ A, jSegs env s ss = A ++ ['\n']
  | [], s => ⟨escs env s, rfl⟩
  | t :: ts, s => by
    obtain ⟨A, hA⟩ := jSegs_last env ts t
    exact ⟨escs env s ++ '\\' :: '\n' :: A, by simp [jSegs, hA]⟩

theorem JJ_getLast (env : Char → Bool) (ls : List (List Char)) (hne : ls ≠ []) : (JJ env ls).getLast? = some '\n' := by
  obtain ⟨init, last, rfl⟩ : ∃ init last, ls = init ++ [last] :=
    ⟨ls.dropLast, ls.getLast hne, (List.dropLast_concat_getLast hne).symm⟩
  obtain ⟨A, hA⟩ := jSegs_last env (segsBN last).2 (segsBN last).1
  simp [JJ, List.flatMap_append, hA]

theorem indent_qlines (env : Char → Bool) (k : Nat) (ls : List (List Char)) (h : ∀ l ∈ ls, QLine l) :
    pyIndent (List.replicate k ' ') (JJ env ls ++ tq) = BB env k ls ++ (List.replicate k ' ' ++ tq) := by
  induction ls with
  | nil =>
    simp only [JJ, BB, List.flatMap_nil, List.nil_append, pyIndent, splitKeep_tq]
    simp [tq, isWs]
  | cons l ls ih =>
    obtain ⟨h1, h2⟩ := segs_safe l.length l rfl (h l (by simp))
    have e : JJ env (l :: ls) ++ tq = jSegs env (segsBN l).1 (segsBN l).2 ++ (JJ env ls ++ tq) := by simp [JJ]
    rw [e, indent_segs env k _ _ _ h1 h2, ih (fun x hx => h x (by simp [hx]))]
    simp [BB]

theorem eval_qlines (env : Char → Bool) (k : Nat) (ls : List (List Char)) (R : List Char) (h : ∀ l ∈ ls, QLine l) :
    evalBody (BB env k ls ++ R) = (evalBody R).map (appFst (ls.flatMap (sentLine k))) := by
  induction ls with
  | nil =>
    simp only [BB, List.flatMap_nil, List.nil_append]
    exact (map_id_appFst_nil _).symm
  | cons l ls ih =>
    obtain ⟨h1, h2⟩ := segs_safe l.length l rfl (h l (by simp))
    have e : BB env k (l :: ls) ++ R = bodySegs env k (segsBN l).1 (segsBN l).2 ++ (BB env k ls ++ R) := by simp [BB]
    rw [e, eval_segs env k _ _ _ h1 h2, ih (fun x hx => h x (by simp [hx])), map_appFst_appFst]
    simp [sentLine]

/-- **the embedding on the line list, in closed form**: lines without `'`, separators and `"""` -/
theorem embed_qlines (env : Char → Bool) (vi off : Nat) (ls : List (List Char)) (hne : ls ≠ [])
    (h : ∀ l ∈ ls, QLine l) :
    evalTripleQuoted (convert vi off (unparseConsts env (ls.map (· ++ ['\n']))))
      = some ('\n' :: (ls.flatMap (sentLine (vi + off)) ++ List.replicate (vi + off) ' ')) := by
  unfold convert
  simp only [unparse_qlines env ls h, replace_delete_lines env ls h, JJ_getLast env ls hne, beq_self_eq_true, if_true]
  rw [indent_qlines env (vi + off) ls h]
  have : tq ++ '\n' :: (BB env (vi + off) ls ++ (List.replicate (vi + off) ' ' ++ tq))
      = '"' :: '"' :: '"' :: ('\n' :: (BB env (vi + off) ls ++ (List.replicate (vi + off) ' ' ++ tq))) := rfl
  rw [this]
  simp only [evalTripleQuoted]
  rw [evalBody_raw '\n' _ (by decide) (by decide) (by decide), eval_qlines env (vi + off) ls _ h, eval_spaces]
  have : evalBody tq = some ([], []) := evalBody_end []
  simp [this, appFst, consFst_eq, consFst]

/-! ### from the text to its lines -/

theorem qline_of_text (q : List Char) (htq : hasTQ q = false) (hq : hasQuote q = false) : ∀ l ∈ splitlines q, QLine l := by
  intro l hl
  obtain ⟨hi, hc⟩ := (splitlines_spec q).1 l hl
  refine ⟨?_, hasTQ_infix hi htq⟩
  intro c hcl
  refine ⟨?_, hc c hcl⟩
  intro hc'
  subst hc'
  have : '\'' ∈ q := hi.subset hcl
  have hq' : q.any (· == '\'') = false := hq
  rw [List.any_eq_false] at hq'
  exact hq' _ this (by simp)

/-- the model answers on every text without `'` and `"""` -/
theorem embed_ok (env : Char → Bool) (vi off : Nat) (q : List Char) (htq : hasTQ q = false) (hq : hasQuote q = false) :
    embed env vi off q = .ok (convert vi off (unparseConsts env (constants q))) := by
  unfold embed trigger
  simp only [htq, hq, Bool.false_eq_true, if_false]
  cases hasBsN q <;> cases hasExtraSep q <;> simp

/-- **embed_described** (text level): for every text without `'` and `"""` the value of the emitted literal is
    `describedSent` — extra line separators have become line breaks, backslash-`n` pairs line continuations. -/
theorem embed_described_text (env : Char → Bool) (vi off : Nat) (q : List Char) (htq : hasTQ q = false) (hq : hasQuote q = false)
    (hne : splitlines q ≠ []) : sentText env vi off q = some (describedSent (vi + off) q) := by
  unfold sentText
  rw [embed_ok env vi off q htq hq]
  exact embed_qlines env vi off (splitlines q) hne (qline_of_text q htq hq)

/-! ### the description against the two specifications -/

theorem flatMap_congr_mem {α β : Type} (f g : α → List β) : ∀ (l : List α), (∀ x ∈ l, f x = g x) → l.flatMap f = l.flatMap g
  | [], _ => rfl
  | a :: l, h => by
    rw [List.flatMap_cons, List.flatMap_cons, h a (by simp), flatMap_congr_mem f g l (fun x hx => h x (by simp [hx]))]

theorem sentLine_noBN (k : Nat) (l : List Char) (h : hasBsN l = false) :
    sentLine k l = (if l.all (· == ' ') then l else List.replicate k ' ' ++ l) ++ ['\n'] := by
  simp [sentLine, segsBN_noBN l h, sentSegs]

/-- without backslash-`n` pairs the description is the re-indented text (split at every `splitlines` separator) -/
theorem describedSent_noBN (k : Nat) (q : List Char) (h : hasBsN q = false) : describedSent k q = expectedSent k q := by
  unfold describedSent expectedSent indentLines
  congr 2
  apply flatMap_congr_mem
  intro l hl
  exact sentLine_noBN k l (hasBsN_infix ((splitlines_spec q).1 l hl).1 h)

theorem hasExtraSep_cons (c : Char) (cs : List Char) : hasExtraSep (c :: cs) = ((isLineSep c && c != '\n') || hasExtraSep cs) := by
  simp [hasExtraSep]

/-- without extra separators `str.splitlines` cuts at `\n` only -/
theorem splitlines_eq_splitNL (q : List Char) (h : hasExtraSep q = false) : splitlines q = splitNL q := by
  fun_induction splitlines q with
  | case1 => simp [splitNL]
  | case2 cs ih =>
    rw [hasExtraSep_cons] at h
    simp [isLineSep] at h
  | case3 c cs hnot hsep ih =>
    rw [hasExtraSep_cons, Bool.or_eq_false_iff] at h
    have hc : c = '\n' := by
      have := h.1
      simp [hsep] at this
      exact this
    subst hc
    simp [splitNL, ih h.2]
  | case4 c cs hnot hsep hnil ih =>
    rw [hasExtraSep_cons, Bool.or_eq_false_iff] at h
    have hsep' : isLineSep c = false := by simpa using hsep
    have hc : c ≠ '\n' := by
      intro hc; subst hc; simp [isLineSep] at hsep'
    have := ih h.2
    rw [hnil] at this
    simp [splitNL, hc, ← this]
  | case5 c cs hnot hsep l ls heq ih =>
    rw [hasExtraSep_cons, Bool.or_eq_false_iff] at h
    have hsep' : isLineSep c = false := by simpa using hsep
    have hc : c ≠ '\n' := by
      intro hc; subst hc; simp [isLineSep] at hsep'
    have := ih h.2
    rw [heq] at this
    simp [splitNL, hc, ← this]

theorem expectedSent_eq_expectedText (k : Nat) (q : List Char) (h : hasExtraSep q = false) :
    expectedSent k q = expectedText k q := by
  unfold expectedSent expectedText
  rw [splitlines_eq_splitNL q h]

end Ariadne.EmbedProofs
