/-
  Proofs/C04ModInputs3.lean — `input_types.py`: the module theorem.
-/
import AriadneModel.Proofs.C04ModInputs2

set_option linter.unusedSimpArgs false
set_option linter.unusedVariables false

namespace Ariadne.C04Proofs
open Ariadne Ariadne.Gql Ariadne.Util Ariadne.Package Ariadne.PackageTriggers Ariadne.PackageValid Ariadne.Spec.PyScope
open Ariadne.InputField (annOf wrapNullable)

/-- the fields of a class of `input_types.py`, traced back to the schema -/
theorem input_class_field {cfg : Config} {defs : List InputGen.TypeDef} {cd : InputField.ClassDecl}
    (hcd : cd ∈ InputField.classes (inputCfg cfg) defs) {fd : InputField.FieldDecl} (hfd : fd ∈ cd.fields.filterMap id) :
    ∃ fs f0, InputGen.TypeDef.input cd.name fs ∈ defs ∧ f0 ∈ fs ∧
      InputField.genField (inputCfg cfg) (InputField.kindOf (inputCfg cfg) defs) f0 = some fd := by
  obtain ⟨n, fs, hin, rfl⟩ := mem_classes hcd
  simp only [InputField.genClass] at hfd ⊢
  obtain ⟨o, ho, hid⟩ := List.mem_filterMap.mp hfd
  obtain ⟨f0, hf0, rfl⟩ := List.mem_map.mp ho
  exact ⟨fs, f0, hin, hf0, by simpa using hid⟩

theorem namesOK_type {inp : Input} (h : namesOK inp = true) {t : TypeDef} (ht : t ∈ inp.schema.types) : Names.GName t.name.toList := by
  unfold namesOK at h
  simp only [Bool.and_eq_true] at h
  have := List.all_eq_true.mp h.1.1 t ht
  simp only [Bool.and_eq_true] at this
  have h1 := this.1.1.1
  unfold gname at h1
  simpa using h1

theorem kindOf_mem_types {s : Schema} {n : String} {k : Gql.Kind} (h : s.kindOf? n = some k) : ∃ t ∈ s.types, t.name = n := by
  unfold Schema.kindOf? Schema.get? at h
  cases hf : s.types.find? (·.name == n) with
  | none => rw [hf] at h; simp at h
  | some t => exact ⟨t, List.mem_of_find?_eq_some hf, by simpa using List.find?_some hf⟩

/-- **input_types.py**: imports resolve, class statements load, forward references and rebuild calls name classes of the
    module — for every schema and configuration in `Valid`, outside the trigger `enumDefaultNotEnum` -/
theorem inputs_residual {cfg : Config} {inp : Input} {p : PackageIR} {st : St} {io : InputsOut}
    {fx : Option (Fragments.FragmentsOut × List Fragments.DefGen)} (F : Facts cfg inp p st io fx)
    (hc : cfgOK cfg = true) (hdm : defsMatch inp = true) (hn : namesOK inp = true)
    (htr : trigEnumDefaultNotEnum cfg inp = false) : residualParts p io.module = true := by
  obtain ⟨kept, hkept, hio⟩ := inputsModule_inv F.inputs
  obtain ⟨ksub, kclosed, _, _⟩ := filterInputDefs_spec hkept
  -- abbreviations
  have hcfg := hc
  have hE := (cfgFacts hc).enumsDot
  -- the module, unfolded
  have hmod : io.module = (inputsOut cfg (pruneTable cfg inp.defs) (InputField.classes (inputCfg cfg) inp.defs) kept).module := by rw [hio]
  have hue : io.usedEnums = Prune.inputsUsedEnums (pruneTable cfg inp.defs) (kept.map (·.name)) := by rw [hio]; rfl
  -- a class of the module: its declaration
  have hclass : ∀ c ∈ io.module.classes, ∃ cd ∈ InputField.classes (inputCfg cfg) inp.defs,
      (kept.map (·.name)).contains cd.name = true ∧ c = inputClassIR cd := by
    intro c hcm
    rw [hmod] at hcm
    simp only [inputsOut, List.mem_map] at hcm
    obtain ⟨cd, hcd, rfl⟩ := hcm
    obtain ⟨h1, h2⟩ := List.mem_filter.mp hcd
    exact ⟨cd, h1, h2, rfl⟩
  -- a kept name has a kept table entry, and its definition
  have hkeptEntry : ∀ n, (kept.map (·.name)).contains n = true → ∃ k ∈ kept, k.name = n := by
    intro n hn'
    have : n ∈ kept.map (·.name) := by simpa using hn'
    obtain ⟨k, hk, rfl⟩ := List.mem_map.mp this
    exact ⟨k, hk, rfl⟩
  -- the enum import
  have henumImp : ∀ e ∈ io.usedEnums, inp.schema.kindOf? e = some .enum := by
    intro e he
    rw [hue] at he
    obtain ⟨c, _, d, hd, _, her⟩ := (Prune.mem_inputsUsedEnums _ kept e).mp he
    obtain ⟨n, fs, _, rfl⟩ := mem_pruneTable hd
    simp only [Prune.enumRefs, List.mem_filterMap] at her
    obtain ⟨r, hr, hre⟩ := her
    obtain ⟨f, _, hpf⟩ := hr
    cases r with
    | input m => simp at hre
    | scalar m => simp at hre
    | «enum» m =>
      simp only [Option.some.injEq] at hre
      subst hre
      unfold pruneRef at hpf
      simp only at hpf
      cases hfd : InputGen.findDef inp.defs f.type.base with
      | none => rw [hfd] at hpf; simp at hpf
      | some dd =>
        rw [hfd] at hpf
        cases dd with
        | input a b => simp at hpf
        | composite a => simp at hpf
        | scalar a =>
          simp only at hpf
          split at hpf <;> simp at hpf
        | «enum» a vs =>
          simp only [Option.some.injEq, Prune.Ref.enum.injEq] at hpf
          subst hpf
          have ha : a = f.type.base := (findDef_mem hfd).2
          subst ha
          exact defsMatch_enum hdm hfd
  -- field-level facts for a class that is kept
  have hfield : ∀ cd ∈ InputField.classes (inputCfg cfg) inp.defs, (kept.map (·.name)).contains cd.name = true →
      ∀ fd ∈ cd.fields.filterMap id, ∃ f0 a ft,
        annOf (InputField.kindOf (inputCfg cfg) inp.defs) f0.type true = some (a, ft) ∧ fd.ann = a ∧
        (∀ u ∈ valueUses fd.value, u = "Field" ∨ ∃ v, f0.default = some (.enum v) ∧ u = dottedHead (ft ++ "." ++ v)) ∧
        f0 ∈ inputFieldsOf inp ∧
        (InputField.kindOf (inputCfg cfg) inp.defs f0.type.base = .enum → f0.type.base ∈ io.usedEnums) ∧
        (∀ ty ser, InputField.kindOf (inputCfg cfg) inp.defs f0.type.base = .custom ty ser →
          f0.type.base ∈ inputUsedScalars (pruneTable cfg inp.defs)) ∧
        (InputField.kindOf (inputCfg cfg) inp.defs f0.type.base = .input → (kept.map (·.name)).contains f0.type.base = true ∧
          ∃ fs', InputGen.TypeDef.input f0.type.base fs' ∈ inp.defs) := by
    intro cd hcd hk fd hfd
    obtain ⟨fs, f0, hin, hf0, hgen⟩ := input_class_field hcd hfd
    have hgen' := hgen
    simp only [InputField.genField] at hgen'
    cases ha : annOf (InputField.kindOf (inputCfg cfg) inp.defs) f0.type true with
    | none => rw [ha] at hgen'; simp at hgen'
    | some r =>
      obtain ⟨a, ft⟩ := r
      rw [ha] at hgen'
      simp only [Option.some.injEq] at hgen'
      have hann : fd.ann = a := by rw [← hgen']
      obtain ⟨pk1, pk2, pk3⟩ := pruneRef_of_kind cfg inp.defs f0.type
      have hentry := pruneTable_of_input (cfg := cfg) hin
      obtain ⟨k, hkk, hkn⟩ := hkeptEntry _ hk
      refine ⟨f0, a, ft, ha, hann, fun u hu => genField_value_eager _ _ f0 fd a ft ha hgen hu, ?_, ?_, ?_, ?_⟩
      · unfold inputFieldsOf
        exact List.mem_flatMap.mpr ⟨_, hin, by simpa using hf0⟩
      · intro hke
        rw [hue]
        refine (Prune.mem_inputsUsedEnums _ kept _).mpr ⟨k, hkk, _, hentry, by simp [hkn], ?_⟩
        simp only [Prune.enumRefs, List.mem_filterMap]
        exact ⟨.enum f0.type.base, ⟨f0, hf0, pk2 hke⟩, rfl⟩
      · intro ty ser hks
        unfold inputUsedScalars
        refine List.mem_flatMap.mpr ⟨_, hentry, ?_⟩
        simp only [List.mem_filterMap]
        exact ⟨.scalar f0.type.base, ⟨f0, hf0, pk3 ty ser hks⟩, rfl⟩
      · intro hki
        -- the referenced input type has a definition, a table entry, and the closure keeps it
        have hdef : ∃ fs', InputGen.TypeDef.input f0.type.base fs' ∈ inp.defs := by
          unfold InputField.kindOf at hki
          cases hfd' : InputGen.findDef inp.defs f0.type.base with
          | none =>
            rw [hfd'] at hki
            simp only at hki
            split at hki
            · unfold InputField.scalarKind at hki
              split at hki
              · cases hki
              · split at hki <;> cases hki
            · cases hki
          | some dd =>
            rw [hfd'] at hki
            cases dd with
            | input m fs' =>
              have := (findDef_mem hfd').2
              simp only [InputGen.TypeDef.name] at this
              subst this
              exact ⟨fs', (findDef_mem hfd').1⟩
            | «enum» m vs => cases hki
            | composite m => cases hki
            | scalar m =>
              simp only at hki
              unfold InputField.scalarKind at hki
              split at hki
              · cases hki
              · split at hki <;> cases hki
        obtain ⟨fs', hfs'⟩ := hdef
        refine ⟨?_, fs', hfs'⟩
        have hentry' := pruneTable_of_input (cfg := cfg) hfs'
        have hdep : f0.type.base ∈ Prune.depsOf (pruneTable cfg inp.defs) k.name := by
          refine (Prune.mem_depsOf _ _ _).mpr ⟨_, hentry, by simp [hkn], ?_⟩
          simp only [Prune.inputRefs, List.mem_filterMap]
          exact ⟨.input f0.type.base, ⟨f0, hf0, pk1 hki⟩, rfl⟩
        have := kclosed k hkk _ hdep _ hentry' rfl
        have : f0.type.base ∈ kept.map (·.name) := List.mem_map.mpr ⟨_, this, rfl⟩
        simpa using this
  -- the import list
  have himports : io.module.imports =
      [⟨0, "typing", ["Optional", "Any", "Union", "List", "Annotated"]⟩, ⟨0, "pydantic", ["Field", "PlainSerializer"]⟩,
       ⟨1, "base_model", ["BaseModel"]⟩, ⟨1, "base_model", [Tables.uploadClassName]⟩]
      ++ (if io.usedEnums.isEmpty then [] else [⟨1, cfg.enumsModule, io.usedEnums⟩])
      ++ scalarImportsOf cfg (inputUsedScalars (pruneTable cfg inp.defs)) := by
    rw [hmod, hue]; rfl
  refine residualParts_of ?_ ?_ ?_ ?_
  · -- imports resolve
    apply importsResolve_of
    intro i hi
    rw [himports] at hi
    simp only [List.mem_append, List.mem_cons, List.mem_nil_iff, or_false] at hi
    rcases hi with (hi | hi) | hi
    · rcases hi with rfl | rfl | rfl | rfl
      · exact Or.inl (by decide)
      · exact Or.inl (by decide)
      · have e : normImport ⟨1, "base_model", ["BaseModel"]⟩ = ⟨1, "base_model", ["BaseModel"]⟩ := by decide
        rw [e]
        refine F.resolves (copied_mem_written (baseModel_mem_copied cfg)) rfl (show baseModelFile = pyFile "base_model" by decide) ?_
        intro ns hns
        rw [exported_copied, provides_baseModel] at hns
        simp only [Option.some.injEq] at hns
        subst hns
        intro n hn'
        simp only [List.mem_singleton] at hn'
        subst hn'
        simp
      · have e : normImport ⟨1, "base_model", [Tables.uploadClassName]⟩ = ⟨1, "base_model", [Tables.uploadClassName]⟩ := by decide
        rw [e]
        refine F.resolves (copied_mem_written (baseModel_mem_copied cfg)) rfl (show baseModelFile = pyFile "base_model" by decide) ?_
        intro ns hns
        rw [exported_copied, provides_baseModel] at hns
        simp only [Option.some.injEq] at hns
        subst hns
        intro n hn'
        simp only [List.mem_singleton] at hn'
        subst hn'
        simp
    · split at hi
      · cases hi
      · simp only [List.mem_singleton] at hi
        subst hi
        rw [normImport_noDot _ _ _ hE]
        refine F.resolves enums_mem_written rfl (enumsModule_file _ _ _) ?_
        intro ns hns
        rw [exported_generated (enumsModule_generated _ _ _)] at hns
        simp only [Option.some.injEq] at hns
        subst hns
        intro e he
        refine className_mem_defines (enum_class_mem (henumImp e he) (Or.inr ?_))
        unfold finalUsedEnums
        simp [he]
    · unfold scalarImportsOf at hi
      obtain ⟨n, _, hi⟩ := List.mem_flatMap.mp hi
      cases hl : Scalars.lookupScalar cfg.scalars n with
      | none => rw [hl] at hi; cases hi
      | some d =>
        rw [hl] at hi
        simp only [List.mem_map] at hi
        obtain ⟨si, hsi, rfl⟩ := hi
        exact resolves_userImport F (scalarOK_imports (scalarOK_of_lookup hcfg hl) si hsi).2
  · -- class statements load
    apply classesLoad_of_bound
    · intro c hcm u hu
      obtain ⟨cd, hcd, hk, rfl⟩ := hclass c hcm
      have hused : u ∈ io.module.usedNames := mem_usedNames_class hcm (by
        simp only [List.append_assoc, List.mem_append] at hu ⊢
        rcases hu with h | h
        · exact Or.inl h
        · exact Or.inr (Or.inl h))
      -- a name an import statement of the module binds is bound
      have viaImport : ∀ i ∈ io.module.imports, u ∈ i.names → BoundIn io.module u := fun i hi hn' => boundIn_of_import hi hn' hused
      simp only [inputClassIR, List.mem_append, List.mem_singleton, List.mem_flatMap] at hu
      rcases hu with rfl | ⟨fd, hfd, hu⟩
      · exact viaImport ⟨1, "base_model", ["BaseModel"]⟩ (by rw [himports]; simp) (by simp)
      · obtain ⟨f0, a, ft, ha, hann, hval, hf0in, hEn, hScal, _⟩ := hfield cd hcd hk fd hfd
        obtain ⟨s1, _, s3⟩ := annOf_spec _ f0.type true a ft ha
        rcases hu with hu | hu
        · rw [hann] at hu
          rcases s1 u hu with hw | hl
          · simp only [wrappers, List.mem_cons, List.mem_nil_iff, or_false] at hw
            rcases hw with rfl | rfl | rfl | rfl
            · exact viaImport ⟨0, "typing", ["Optional", "Any", "Union", "List", "Annotated"]⟩ (by rw [himports]; simp) (by simp)
            · exact viaImport ⟨0, "typing", ["Optional", "Any", "Union", "List", "Annotated"]⟩ (by rw [himports]; simp) (by simp)
            · exact viaImport ⟨0, "typing", ["Optional", "Any", "Union", "List", "Annotated"]⟩ (by rw [himports]; simp) (by simp)
            · exact viaImport ⟨0, "pydantic", ["Field", "PlainSerializer"]⟩ (by rw [himports]; simp) (by simp)
          · unfold LeafUse at hl
            cases hkd : InputField.kindOf (inputCfg cfg) inp.defs f0.type.base with
            | builtin py =>
              rw [hkd] at hl
              simp only at hl
              subst hl
              -- a value of INPUT_SCALARS_MAP
              have hv : u ∈ Tables.inputScalarsMap.map (·.2) := by
                unfold InputField.kindOf at hkd
                have hsk : InputField.scalarKind (inputCfg cfg) f0.type.base = .builtin u := by
                  cases hfd' : InputGen.findDef inp.defs f0.type.base with
                  | none =>
                    rw [hfd'] at hkd
                    simp only at hkd
                    split at hkd
                    · exact hkd
                    · cases hkd
                  | some dd =>
                    rw [hfd'] at hkd
                    cases dd <;> first | exact hkd | cases hkd
                unfold InputField.scalarKind at hsk
                cases hlk : Tables.inputScalarsMap.lookup f0.type.base with
                | none =>
                  rw [hlk] at hsk
                  simp only at hsk
                  split at hsk <;> cases hsk
                | some py =>
                  rw [hlk] at hsk
                  simp only [InputField.Kind.builtin.injEq] at hsk
                  subst hsk
                  exact lookup_mem_values _ _ _ hlk
              rcases inputScalars_values u hv with hb | rfl
              · exact boundIn_builtin hb
              · exact viaImport ⟨1, "base_model", [Tables.uploadClassName]⟩ (by rw [himports]; simp) (by simp)
            | custom ty ser =>
              rw [hkd] at hl
              simp only at hl
              -- the configured scalar
              have hsc : ∃ d, Scalars.lookupScalar cfg.scalars f0.type.base = some d ∧ ty = d.typeName ∧ ser = d.serializeName := by
                unfold InputField.kindOf at hkd
                have hsk : InputField.scalarKind (inputCfg cfg) f0.type.base = .custom ty ser := by
                  cases hfd' : InputGen.findDef inp.defs f0.type.base with
                  | none =>
                    rw [hfd'] at hkd
                    simp only at hkd
                    split at hkd
                    · exact hkd
                    · cases hkd
                  | some dd =>
                    rw [hfd'] at hkd
                    cases dd <;> first | exact hkd | cases hkd
                unfold InputField.scalarKind at hsk
                split at hsk
                · cases hsk
                · cases hs : (inputCfg cfg).scalar? f0.type.base with
                  | none => rw [hs] at hsk; cases hsk
                  | some sc =>
                    rw [hs] at hsk
                    simp only [InputField.Kind.custom.injEq] at hsk
                    obtain ⟨d, hd, h1, h2⟩ := inputCfg_scalar hs
                    exact ⟨d, hd, by rw [← hsk.1, h1], by rw [← hsk.2, h2]⟩
              obtain ⟨d, hd, rfl, rfl⟩ := hsc
              have hok := scalarOK_of_lookup hcfg hd
              have hu' : u = d.typeName ∨ some u = d.parseName ∨ some u = d.serializeName := by
                rcases hl with h | h
                · exact Or.inl h
                · exact Or.inr (Or.inr h.symm)
              rcases scalar_name_bound hok hu' with hb | rfl | ⟨i, hi, hni⟩
              · exact boundIn_builtin hb
              · exact viaImport ⟨0, "typing", ["Optional", "Any", "Union", "List", "Annotated"]⟩ (by rw [himports]; simp) (by simp)
              · refine viaImport i ?_ hni
                rw [himports]
                refine List.mem_append_right _ ?_
                unfold scalarImportsOf
                exact List.mem_flatMap.mpr ⟨f0.type.base, hScal _ _ hkd, by rw [hd]; exact hi⟩
            | any =>
              rw [hkd] at hl
              simp only at hl
              subst hl
              exact viaImport ⟨0, "typing", ["Optional", "Any", "Union", "List", "Annotated"]⟩ (by rw [himports]; simp) (by simp)
            | «enum» =>
              rw [hkd] at hl
              simp only at hl
              subst hl
              have hin := hEn hkd
              have hne : io.usedEnums.isEmpty = false := by
                cases hl' : io.usedEnums with
                | nil => rw [hl'] at hin; cases hin
                | cons _ _ => rfl
              exact viaImport ⟨1, cfg.enumsModule, io.usedEnums⟩ (by rw [himports]; simp [hne]) hin
            | input => rw [hkd] at hl; exact hl.elim
            | composite => rw [hkd] at hl; exact hl.elim
            | unknown => rw [hkd] at hl; exact hl.elim
        · rcases hval u hu with rfl | ⟨v, hdv, rfl⟩
          · exact viaImport ⟨0, "pydantic", ["Field", "PlainSerializer"]⟩ (by rw [himports]; simp) (by simp)
          · -- the default IS an enum literal: outside the trigger the field is enum-typed
            have hk' : InputField.kindOf (inputCfg cfg) inp.defs f0.type.base = .enum := by
              unfold trigEnumDefaultNotEnum at htr
              have := C04Proofs.of_any_false htr hf0in
              rw [hdv] at this
              simp only [Lit.isEnumLit, Bool.true_or, Bool.and_true, bne_eq_false_iff_eq] at this
              exact this
            have hft := s3 hk'
            subst hft
            have hin := hEn hk'
            -- the enum's name is a GraphQL name: no dot
            obtain ⟨t, ht, htn⟩ := kindOf_mem_types (henumImp _ hin)
            have hg := namesOK_type hn ht
            rw [htn] at hg
            rw [dottedHead_enum (gname_no_dot hg)]
            have hne : io.usedEnums.isEmpty = false := by
              cases hl' : io.usedEnums with
              | nil => rw [hl'] at hin; cases hin
              | cons _ _ => rfl
            -- `u` is now the enum's name
            have hused' : f0.type.base ∈ io.module.usedNames := by
              rw [dottedHead_enum (gname_no_dot hg)] at hused
              exact hused
            exact boundIn_of_import (i := ⟨1, cfg.enumsModule, io.usedEnums⟩) (by rw [himports]; simp [hne]) hin hused'
    · intro f hf
      rw [hmod] at hf
      simp [inputsOut] at hf
  · -- forward references
    unfold forwardRefsOK
    refine List.all_eq_true.mpr ?_
    intro c hcm
    obtain ⟨cd, hcd, hk, rfl⟩ := hclass c hcm
    refine List.all_eq_true.mpr ?_
    intro x hx
    simp only [inputClassIR, List.mem_flatMap] at hx
    obtain ⟨fd, hfd, hx⟩ := hx
    obtain ⟨f0, a, ft, ha, hann, _, _, _, _, hIn⟩ := hfield cd hcd hk fd hfd
    obtain ⟨_, s2, _⟩ := annOf_spec _ f0.type true a ft ha
    rw [hann] at hx
    obtain ⟨rfl, hki⟩ := s2 x hx
    obtain ⟨hkc, fs', hfs'⟩ := hIn hki
    have : f0.type.base ∈ io.module.defines := by
      refine className_mem_defines ?_
      rw [hmod]
      simp only [inputsOut, List.map_map]
      refine List.mem_map.mpr ⟨_, List.mem_filter.mpr ⟨class_of_input hfs', ?_⟩, rfl⟩
      simpa [InputField.genClass] using hkc
    simpa using this
  · -- rebuild calls
    refine List.all_eq_true.mpr ?_
    intro r hr
    rw [hmod] at hr ⊢
    simp only [inputsOut, List.mem_map] at hr
    obtain ⟨c, hc', rfl⟩ := hr
    have := (List.mem_filter.mp hc').1
    have : c.name ∈ ((inputsOut cfg (pruneTable cfg inp.defs) (InputField.classes (inputCfg cfg) inp.defs) kept).module.classes.map (·.name)) :=
      List.mem_map.mpr ⟨c, this, rfl⟩
    simpa using this

end Ariadne.C04Proofs
