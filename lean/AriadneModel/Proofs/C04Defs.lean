/-
  Proofs/C04Defs.lean — the vocabulary of Properties/C04.lean that its kernel-evaluated witnesses need (`Valid`, `Holds`,
  `C04_full`, `Proved_04`) and the witness inputs themselves, in a file of their own so that the witnesses
  (Proofs/C04WitnessA.lean, Proofs/C04WitnessB.lean: `decide +kernel` through the whole model, a few seconds each) build in
  parallel with the proofs.  Statements only; same namespace as the property file.
-/
import AriadneModel.Model.Package
import AriadneModel.Model.PackageTriggers
import AriadneModel.Model.PackageValid
import AriadneModel.Spec.PyScope

namespace Ariadne.C04
open Ariadne Ariadne.Gql Ariadne.Util Ariadne.Package Ariadne.PackageTriggers Ariadne.PackageValid Ariadne.Spec.PyScope

/-- a valid input: schema and document valid as `Spec/Validate` decides, names GraphQL names, variables and input fields
    declared with input types -/
def Valid (cfg : Config) (inp : Input) : Prop := validB cfg inp = true

instance (cfg : Config) (inp : Input) : Decidable (Valid cfg inp) := by unfold Valid; infer_instance

/-- `__init__`: there is one, it is the module on disk under `__init__.py`, and its `__all__` is the sorted list of the
    names it imports -/
def initExactB (p : PackageIR) : Bool :=
  p.modules.any fun m => m.kind == .init && m.file == "__init__.py" && m.all == initAll m.imports

/-- what the property promises about one run -/
def holdsB (r : Run) : Bool :=
  match r.outcome with
  | .error err => documentedRefusal err
  | .ok p => wellScopedB p && initExactB p && p.reported == p.onDisk

def Holds (r : Run) : Prop := holdsB r = true

instance (r : Run) : Decidable (Holds r) := by unfold Holds; infer_instance

/-- **C04 at full strength** (the formatter accepting, sets enumerated as listed: independence of the enumeration is
    C10's theorem) -/
def C04_full : Prop := ∀ cfg inp, Valid cfg inp → Holds (modelRun cfg inp)

/-- the unproved region, explicitly: see the header -/
def Proved_04 (cfg : Config) (inp : Input) : Prop := provedB cfg inp = true

instance (cfg : Config) (inp : Input) : Decidable (Proved_04 cfg inp) := by unfold Proved_04; infer_instance

/-! ### witness inputs -/

namespace W

def tQuery (fs : List FieldDef) : TypeDef := { name := "Query", kind := .object, fields := fs }
def str : TypeDef := { name := "String", kind := .scalar }
def int : TypeDef := { name := "Int", kind := .scalar }
def idT : TypeDef := { name := "ID", kind := .scalar }
def bool : TypeDef := { name := "Boolean", kind := .scalar }

def mkInput (types : List TypeDef) (frags : List Fragment) (ops : List OpIn) (defs : List InputGen.TypeDef := []) : Input :=
  { schema := { types := types ++ [str, bool], query := some "Query" }, frags := frags, ops := ops,
    defs := defs ++ [.composite "Query", .scalar "String", .scalar "Boolean"] }

def leaf (n : String) : Selection := .field none n [] 0 []

/-- F4: `enum E { mro OK }  type Query { e: E }   query Q { e }` -/
def enumMro : Input :=
  mkInput [tQuery [⟨"e", .named "E", []⟩], { name := "E", kind := .enum, values := ["mro", "OK"] }] []
    [{ op := { kind := .query, name := some "Q", sid := 1, sel := [leaf "e"] } }] [.enum "E" ["mro", "OK"]]

/-- F2: `type Query { me: User }  type User { id: ID! name: String }   query Q { me { id ... { name } } }` -/
def inlineNoType : Input :=
  mkInput [tQuery [⟨"me", .named "User", []⟩], { name := "User", kind := .object, fields := [⟨"id", .nonNull (.named "ID"), []⟩, ⟨"name", .named "String", []⟩] }, idT] []
    [{ op := { kind := .query, name := some "Q", sid := 1, sel := [.field none "me" [] 2 [leaf "id", .inline none [] 3 [leaf "name"]]] } }]
    [.composite "User", .scalar "ID"]

/-- F10: `type Query { f(a: Int): Int }   query Q($self: Int) { f(a: $self) }` -/
def selfParam : Input :=
  mkInput [tQuery [⟨"f", .named "Int", [⟨"a", .named "Int", false⟩]⟩], int] []
    [{ op := { kind := .query, name := some "Q", sid := 1, sel := [leaf "f"] }, vars := [⟨"self", .named "Int"⟩] }] [.scalar "Int"]

/-- F13: `type Query { f: Int }   query custom_fields { f }` with enable_custom_operations -/
def customClash : Input :=
  mkInput [tQuery [⟨"f", .named "Int", []⟩], int] []
    [{ op := { kind := .query, name := some "custom_fields", sid := 1, sel := [leaf "f"] } }] [.scalar "Int"]

def customCfg : Config := { customOps := true }

/-- F15: `query Q { me { ...UF } }  fragment UF on User { id friend { id friend { id } } }` -/
def userT : TypeDef := { name := "User", kind := .object, fields := [⟨"id", .nonNull (.named "ID"), []⟩, ⟨"friend", .named "User", []⟩] }
def missingRebuild : Input :=
  mkInput [tQuery [⟨"me", .named "User", []⟩], userT, idT]
    [{ name := "UF", on := "User", sid := 3, sel := [leaf "id", .field none "friend" [] 4 [leaf "id", .field none "friend" [] 5 [leaf "id"]]] }]
    [{ op := { kind := .query, name := some "Q", sid := 1, sel := [.field none "me" [] 2 [.spread "UF" []]] } }]
    [.composite "User", .scalar "ID"]

/-- C17-F5 seen from C04: `query Q { me { ...UF } }  fragment UF on User @mixin(from: ".x") { id }` — a documented refusal,
    but raised by the fragments generator AFTER the input types and the operation module were written -/
def mixinOnFragment : Input :=
  mkInput [tQuery [⟨"me", .named "User", []⟩], userT, idT]
    [{ name := "UF", on := "User", dirs := [{ name := "mixin", args := [("from", some ".x")] }], sid := 3, sel := [leaf "id"] }]
    [{ op := { kind := .query, name := some "Q", sid := 1, sel := [.field none "me" [] 2 [.spread "UF" []]] } }]
    [.composite "User", .scalar "ID"]

/-- F12: `type Query { n: Node }  interface Node { id: ID }  interface Named { name: String }
    type A implements Node & Named { id: ID name: String }   query Q { n { id ... on Named { name } } }` -/
def fieldLookup : Input :=
  mkInput [tQuery [⟨"n", .named "Node", []⟩], { name := "Node", kind := .interface, fields := [⟨"id", .named "ID", []⟩] },
           { name := "Named", kind := .interface, fields := [⟨"name", .named "String", []⟩] },
           { name := "A", kind := .object, interfaces := ["Node", "Named"], fields := [⟨"id", .named "ID", []⟩, ⟨"name", .named "String", []⟩] }, idT] []
    [{ op := { kind := .query, name := some "Q", sid := 1, sel := [.field none "n" [] 2 [leaf "id", .inline (some "Named") [] 3 [leaf "name"]]] } }]
    [.composite "Node", .composite "Named", .composite "A", .scalar "ID"]

/-- F14: `enum List { A B }  type Query { e: List es: [List] }   query Q { e es }` -/
def enumList : Input :=
  mkInput [tQuery [⟨"e", .named "List", []⟩, ⟨"es", .list (.named "List"), []⟩], { name := "List", kind := .enum, values := ["A", "B"] }] []
    [{ op := { kind := .query, name := some "Q", sid := 1, sel := [leaf "e", leaf "es"] } }] [.enum "List" ["A", "B"]]

/-- F9: `type Query { dog: Dog animal: Animal }  interface Animal { id: ID }  type Dog implements Animal { id: ID }
    query A { dog { ...AF } }  query B { animal { ...AF } }  fragment AF on Animal { id }` -/
def unpackedInherited : Input :=
  mkInput [tQuery [⟨"dog", .named "Dog", []⟩, ⟨"animal", .named "Animal", []⟩], { name := "Animal", kind := .interface, fields := [⟨"id", .named "ID", []⟩] },
           { name := "Dog", kind := .object, interfaces := ["Animal"], fields := [⟨"id", .named "ID", []⟩] }, idT]
    [{ name := "AF", on := "Animal", sid := 5, sel := [leaf "id"] }]
    [{ op := { kind := .query, name := some "A", sid := 1, sel := [.field none "dog" [] 2 [.spread "AF" []]] } },
     { op := { kind := .query, name := some "B", sid := 3, sel := [.field none "animal" [] 4 [.spread "AF" []]] } }]
    [.composite "Animal", .composite "Dog", .scalar "ID"]

/-- F23: `type Query { a: A b: B } type A { id: ID } type B { id: ID }   query fooBar { a { id } } query foo_bar { b { id } }` -/
def opsOverwritten : Input :=
  mkInput [tQuery [⟨"a", .named "A", []⟩, ⟨"b", .named "B", []⟩], { name := "A", kind := .object, fields := [⟨"id", .named "ID", []⟩] },
           { name := "B", kind := .object, fields := [⟨"id", .named "ID", []⟩] }, idT] []
    [{ op := { kind := .query, name := some "fooBar", sid := 1, sel := [.field none "a" [] 2 [leaf "id"]] } },
     { op := { kind := .query, name := some "foo_bar", sid := 3, sel := [.field none "b" [] 4 [leaf "id"]] } }]
    [.composite "A", .composite "B", .scalar "ID"]

/-- F24: `scalar JSON  input I { j: JSON = FOO, k: Int }  type Query { f(i: I): Int }   query q($i: I) { f(i: $i) }` -/
def enumDefault : Input :=
  mkInput [tQuery [⟨"f", .named "Int", [⟨"i", .named "I", false⟩]⟩], { name := "JSON", kind := .scalar },
           { name := "I", kind := .input, inputFields := [⟨"j", .named "JSON", true⟩, ⟨"k", .named "Int", false⟩] }, int] []
    [{ op := { kind := .query, name := some "q", sid := 1, sel := [leaf "f"] }, vars := [⟨"i", .named "I"⟩] }]
    [.scalar "JSON", .input "I" [⟨"j", .named "JSON", some (.enum "FOO"), false⟩, ⟨"k", .named "Int", none, false⟩], .scalar "Int"]

/-- F25: `type Query { node: Node }  interface Node { id: ID }  interface Named { name: String }
    type User implements Node & Named { id: ID name: String }  type TeamId { raw: String }
    type Team implements Named { name: String id: TeamId }
    query Q { node { id ...F } }  fragment F on Named { name ... on Team { name } }` -/
def danglingRef : Input :=
  mkInput [tQuery [⟨"node", .named "Node", []⟩], { name := "Node", kind := .interface, fields := [⟨"id", .named "ID", []⟩] },
           { name := "Named", kind := .interface, fields := [⟨"name", .named "String", []⟩] },
           { name := "User", kind := .object, interfaces := ["Node", "Named"], fields := [⟨"id", .named "ID", []⟩, ⟨"name", .named "String", []⟩] },
           { name := "TeamId", kind := .object, fields := [⟨"raw", .named "String", []⟩] },
           { name := "Team", kind := .object, interfaces := ["Named"], fields := [⟨"name", .named "String", []⟩, ⟨"id", .named "TeamId", []⟩] }, idT]
    [{ name := "F", on := "Named", sid := 4, sel := [leaf "name", .inline (some "Team") [] 5 [leaf "name"]] }]
    [{ op := { kind := .query, name := some "Q", sid := 1, sel := [.field none "node" [] 2 [leaf "id", .spread "F" []]] } }]
    [.composite "Node", .composite "Named", .composite "User", .composite "TeamId", .composite "Team", .scalar "ID"]

/-- a supported, non-trivial input: two operations, a shared fragment, an enum, an input type with a recursive field -/
def okInput : Input :=
  mkInput [tQuery [⟨"me", .named "User", []⟩, ⟨"f", .named "Int", [⟨"i", .named "In", false⟩]⟩, ⟨"c", .named "Color", []⟩], userT, idT, int,
           { name := "Color", kind := .enum, values := ["RED", "GREEN"] },
           { name := "In", kind := .input, inputFields := [⟨"a", .named "Int", false⟩, ⟨"next", .named "In", false⟩, ⟨"c", .named "Color", false⟩] }]
    [{ name := "UF", on := "User", sid := 5, sel := [leaf "id"] }]
    [{ op := { kind := .query, name := some "GetMe", sid := 1, sel := [.field none "me" [] 2 [.spread "UF" [], .field none "friend" [] 3 [leaf "id"]], leaf "c"] } },
     { op := { kind := .query, name := some "calc", sid := 4, sel := [leaf "f"] }, vars := [⟨"i", .named "In"⟩] }]
    [.composite "User", .scalar "ID", .scalar "Int", .enum "Color" ["RED", "GREEN"],
     .input "In" [⟨"a", .named "Int", none, false⟩, ⟨"next", .named "In", none, false⟩, ⟨"c", .named "Color", none, false⟩]]

end W

/-- … and the region is a proper one: `type A { x: Int }  type B { x: A }   query Q { a { x } b { x { x } } }` selects `x` as a
    leaf while `B.x` is composite; the input is valid, trigger-free and inside `Proved_04` through the evaluated part -/
def W.leafAmbiguous : Input :=
  W.mkInput [W.tQuery [⟨"a", .named "A", []⟩, ⟨"b", .named "B", []⟩], { name := "A", kind := .object, fields := [⟨"x", .named "Int", []⟩] },
             { name := "B", kind := .object, fields := [⟨"x", .named "A", []⟩] }, W.int] []
    [{ op := { kind := .query, name := some "Q", sid := 1,
               sel := [.field none "a" [] 2 [W.leaf "x"], .field none "b" [] 3 [.field none "x" [] 4 [W.leaf "x"]]] } }]
    [.composite "A", .composite "B", .scalar "Int"]

def W.syncCfg : Config :=
  { async := false, baseClientName := "BaseClient", baseClientFile := "base_client.py", snake := false, allInputs := false, allEnums := false }


/-- non-vacuity statement: `okInput` is valid, trigger-free, inside `Proved_04`, and its package has at least 8 modules -/
def W.okNontrivial : Prop :=
  Valid {} W.okInput ∧ Supported_04 {} W.okInput ∧ Proved_04 {} W.okInput ∧
    (match (modelRun {} W.okInput).outcome with | .ok p => decide (p.modules.length ≥ 8) | .error _ => false) = true

instance : Decidable W.okNontrivial := by unfold W.okNontrivial; infer_instance

/-- an anonymous operation is refused with the documented "Query without name." -/
def W.anonymousRefused : Prop :=
  (match (modelRun {} (W.mkInput [W.tQuery [⟨"f", .named "Int", []⟩], W.int] []
    [{ op := { kind := .query, name := none, sid := 1, sel := [W.leaf "f"] } }] [.scalar "Int"])).outcome with
      | .error (.parsing m) => m == "Query without name."
      | _ => false) = true

instance : Decidable W.anonymousRefused := by unfold W.anonymousRefused; infer_instance

end Ariadne.C04
