/-
  Proofs/C04WitnessA.lean — kernel-evaluated facts about concrete inputs (`decide +kernel` through the whole package model):
  finding witnesses of `C04_full_false` and non-vacuity examples of Properties/C04.lean, restated there.
-/
import AriadneModel.Proofs.C04Defs

namespace Ariadne.C04.Witness
open Ariadne Ariadne.Gql Ariadne.Util Ariadne.Package Ariadne.PackageTriggers Ariadne.PackageValid Ariadne.Spec.PyScope Ariadne.C04

theorem F4_fails_in_model : Valid {} W.enumMro ∧ ¬ Holds (modelRun {} W.enumMro) ∧ ¬ Supported_04 {} W.enumMro := by
  decide +kernel

theorem F2_fails_in_model : Valid {} W.inlineNoType ∧ ¬ Holds (modelRun {} W.inlineNoType) ∧ ¬ Supported_04 {} W.inlineNoType := by
  decide +kernel

theorem F10_fails_in_model : Valid {} W.selfParam ∧ ¬ Holds (modelRun {} W.selfParam) ∧ ¬ Supported_04 {} W.selfParam := by
  decide +kernel

theorem F13_fails_in_model : Valid W.customCfg W.customClash ∧ ¬ Holds (modelRun W.customCfg W.customClash) ∧
    ¬ Supported_04 W.customCfg W.customClash := by
  decide +kernel

end Ariadne.C04.Witness
