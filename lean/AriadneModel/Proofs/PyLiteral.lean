/-
  C16 — the reader of Spec/PyLiteral.lean inverts the printer of Model/PyRepr.lean:
  `run_reprPV` (by mutual structural induction over the value tree; strings by induction over the
  characters, hex escapes by induction over the number of digits).  Used by Properties/C16.lean
  (`literal_roundtrip`).
-/
import AriadneModel.Spec.PyLiteral
import AriadneModel.Model.SchemaWF
import Mathlib.Tactic.Ring

set_option linter.unusedSimpArgs false
set_option linter.unusedVariables false

namespace Ariadne.PyLiteralProofs
open Ariadne.Schema Ariadne.PyRepr Ariadne.PyLiteral Ariadne.SchemaWF

/-- continue from an optional state -/
def andThen (o : Option St) (cs : List Char) : Option St :=
  match o with
  | none => none
  | some st => run st cs

@[simp] theorem andThen_none (cs : List Char) : andThen none cs = none := rfl
@[simp] theorem andThen_some (st : St) (cs : List Char) : andThen (some st) cs = run st cs := rfl

theorem run_cons (st : St) (c : Char) (cs : List Char) : run st (c :: cs) = andThen (step st c) cs := by
  simp only [run]
  cases step st c <;> rfl

theorem run_append (a b : List Char) : ∀ st : St, run st (a ++ b) = andThen (run st a) b := by
  induction a with
  | nil => intro st; rfl
  | cons c cs ih =>
    intro st
    simp only [List.cons_append, run_cons]
    cases step st c with
    | none => rfl
    | some st' => simp only [andThen_some]; exact ih st'

/-! ### hex escapes -/

theorem hexVal_digitChar_fin : ∀ d : Fin 16, hexVal (Nat.digitChar d.val) = some d.val := by decide

theorem hexVal_digitChar (d : Nat) (h : d < 16) : hexVal (Nat.digitChar d) = some d :=
  hexVal_digitChar_fin ⟨d, h⟩

theorem run_hex (S : List Frame) (res : Option PyVal) (q : Char) (acc : List Char) :
    ∀ (k v n : Nat) (tail : List Char), n < 16 ^ (k + 1) → (v * 16 ^ (k + 1) + n).isValidChar →
      run ⟨S, res, .hex q acc (k + 1) v⟩ (hexN (k + 1) n ++ tail) =
        run ⟨S, res, .str q (Char.ofNat (v * 16 ^ (k + 1) + n) :: acc)⟩ tail := by
  intro k
  induction k with
  | zero =>
    intro v n tail hn hv
    have hn' : n < 16 := by simpa using hn
    have e : hexN 1 n = [Nat.digitChar n] := by simp [hexN]
    rw [e]
    simp only [List.cons_append, List.nil_append, run_cons, step, hexVal_digitChar n hn']
    have hv' : (v * 16 + n).isValidChar := by simpa using hv
    simp [hv']
  | succ k ih =>
    intro v n tail hn hv
    have hP : 0 < 16 ^ (k + 1) := Nat.pow_pos (by decide)
    have hd : n / 16 ^ (k + 1) < 16 := by
      apply Nat.div_lt_of_lt_mul
      have : 16 ^ (k + 1 + 1) = 16 ^ (k + 1) * 16 := by rw [Nat.pow_succ]
      omega
    have hr : n % 16 ^ (k + 1) < 16 ^ (k + 1) := Nat.mod_lt _ hP
    have e : hexN (k + 1 + 1) n = Nat.digitChar (n / 16 ^ (k + 1)) :: hexN (k + 1) (n % 16 ^ (k + 1)) := rfl
    rw [e]
    simp only [List.cons_append, run_cons, step, hexVal_digitChar _ hd, andThen_some]
    have key : (v * 16 + n / 16 ^ (k + 1)) * 16 ^ (k + 1) + n % 16 ^ (k + 1) = v * 16 ^ (k + 1 + 1) + n := by
      have := Nat.div_add_mod n (16 ^ (k + 1))
      calc (v * 16 + n / 16 ^ (k + 1)) * 16 ^ (k + 1) + n % 16 ^ (k + 1)
          = v * 16 ^ (k + 1 + 1) + (16 ^ (k + 1) * (n / 16 ^ (k + 1)) + n % 16 ^ (k + 1)) := by ring
        _ = v * 16 ^ (k + 1 + 1) + n := by rw [this]
    have := ih (v * 16 + n / 16 ^ (k + 1)) (n % 16 ^ (k + 1)) tail hr (by rw [key]; exact hv)
    rw [key] at this
    exact this

/-! ### strings -/

theorem quoteFor_cases (s : List Char) : quoteFor s = '\'' ∨ quoteFor s = '"' := by
  unfold quoteFor
  split
  · exact Or.inr rfl
  · exact Or.inl rfl

theorem toNat_valid (c : Char) : c.toNat.isValidChar := c.valid

/-- one printed character is read back as that character -/
theorem run_escapeChar (p : Char → Bool) (S : List Frame) (res : Option PyVal) (q : Char) (acc : List Char)
    (c : Char) (tail : List Char) (hq : q = '\'' ∨ q = '"') :
    run ⟨S, res, .str q acc⟩ (escapeChar p q c ++ tail) = run ⟨S, res, .str q (c :: acc)⟩ tail := by
  have hbq : ¬ ('\\' = q) := by rcases hq with h | h <;> subst h <;> decide
  have hex2 : c.toNat < 256 →
      run ⟨S, res, .str q acc⟩ (('\\' :: 'x' :: hexN 2 c.toNat) ++ tail) = run ⟨S, res, .str q (c :: acc)⟩ tail := by
    intro hlt
    simp only [List.cons_append, run_cons, step, hbq, if_false, if_true, andThen_some, stepEsc]
    have h := run_hex S res q acc 1 0 c.toNat tail (by simpa using hlt) (by simpa using toNat_valid c)
    simp only [show (1 : Nat) + 1 = 2 from rfl] at h
    simpa using h
  unfold escapeChar
  split
  · rename_i h
    simp only [List.cons_append, List.nil_append, run_cons, step, hbq, if_false, if_true, andThen_some, stepEsc]
    have : c = '\\' ∨ c = '\'' ∨ c = '"' := by
      rcases h with h | h
      · rcases hq with h' | h' <;> subst h' <;> subst h <;> simp
      · exact Or.inl h
    simp [this]
  · rename_i h1
    have hcq : ¬ c = q := fun e => h1 (Or.inl e)
    have hcb : ¬ c = '\\' := fun e => h1 (Or.inr e)
    split
    · rename_i h; subst h
      simp only [List.cons_append, List.nil_append, run_cons, step, hbq, if_false, if_true, andThen_some, stepEsc]
      simp
    · split
      · rename_i _ h; subst h
        simp only [List.cons_append, List.nil_append, run_cons, step, hbq, if_false, if_true, andThen_some, stepEsc]
        simp
      · split
        · rename_i _ _ h; subst h
          simp only [List.cons_append, List.nil_append, run_cons, step, hbq, if_false, if_true, andThen_some, stepEsc]
          simp
        · rename_i _ hn _
          have raw : run ⟨S, res, .str q acc⟩ ([c] ++ tail) = run ⟨S, res, .str q (c :: acc)⟩ tail := by
            simp only [List.cons_append, List.nil_append, run_cons, step, hcq, hcb, hn, if_false, andThen_some]
          split
          · rename_i h
            apply hex2
            rcases h with h | h <;> omega
          · split
            · exact raw
            · split
              · exact raw
              · split
                · rename_i h; exact hex2 h
                · split
                  · rename_i h
                    simp only [List.cons_append, run_cons, step, hbq, if_false, if_true, andThen_some, stepEsc]
                    have h' := run_hex S res q acc 3 0 c.toNat tail (by simpa using h) (by simpa using toNat_valid c)
                    simp only [show (3 : Nat) + 1 = 4 from rfl] at h'
                    simpa using h'
                  · simp only [List.cons_append, run_cons, step, hbq, if_false, if_true, andThen_some, stepEsc]
                    have hv := toNat_valid c
                    have hlt : c.toNat < 16 ^ (7 + 1) := by
                      have : c.toNat < 0x110000 := by
                        rcases hv with h | h
                        · omega
                        · exact h.2
                      omega
                    have h' := run_hex S res q acc 7 0 c.toNat tail hlt (by simpa using hv)
                    simp only [show (7 : Nat) + 1 = 8 from rfl] at h'
                    simpa using h'

theorem run_escBody (p : Char → Bool) (S : List Frame) (res : Option PyVal) (q : Char) (hq : q = '\'' ∨ q = '"') :
    ∀ (cs acc tail : List Char),
      run ⟨S, res, .str q acc⟩ (escBody p q cs ++ tail) =
        andThen (deliver (.str (String.ofList (acc.reverse ++ cs))) S res) tail := by
  intro cs
  induction cs with
  | nil =>
    intro acc tail
    simp only [escBody, List.cons_append, List.nil_append, run_cons, step, if_true, List.append_nil]
  | cons c cs ih =>
    intro acc tail
    simp only [escBody, List.append_assoc]
    rw [run_escapeChar p S res q acc c _ hq, ih (c :: acc) tail]
    simp

theorem stepIdle_quote (S : List Frame) (res : Option PyVal) (q : Char) (hq : q = '\'' ∨ q = '"') :
    stepIdle S res q = some ⟨S, res, .str q []⟩ := by
  rcases hq with h | h <;> subst h <;> simp [stepIdle, isSpace]

/-- a printed string is read back as that string, whatever follows -/
theorem run_reprString (p : Char → Bool) (S : List Frame) (res : Option PyVal) (s tail : List Char) :
    run ⟨S, res, .idle⟩ (reprString p s ++ tail) = andThen (deliver (.str (String.ofList s)) S res) tail := by
  have hq := quoteFor_cases s
  unfold reprString
  simp only [List.cons_append, run_cons, step, stepIdle_quote S res _ hq, andThen_some]
  rw [run_escBody p S res _ hq s [] tail]
  simp

/-! ### bare words and numbers -/

theorem deliver_idle {v : PyVal} {S : List Frame} {res : Option PyVal} {st : St}
    (h : deliver v S res = some st) : st.mode = .idle := by
  unfold deliver at h
  split at h
  · split at h
    · cases h; rfl
    · cases h
  · cases h; rfl
  · split at h
    · cases h; rfl
    · cases h
  · cases h; rfl
  · cases h

/-- running on from a delivered value: the state is between tokens -/
theorem andThen_deliver_cons (v : PyVal) (S : List Frame) (res : Option PyVal) (d : Char) (tail : List Char) :
    andThen (deliver v S res) (d :: tail) =
      (match deliver v S res with
       | none => none
       | some st' => andThen (stepIdle st'.stack st'.res d) tail) := by
  cases h : deliver v S res with
  | none => rfl
  | some st' =>
    have hm := deliver_idle h
    simp only [andThen_some, run_cons]
    obtain ⟨stk, r, m⟩ := st'
    simp only at hm
    subst hm
    rfl

theorem atomChar_ne {c x : Char} (h : atomChar c = true) (hx : atomChar x = false) : ¬ c = x := by
  intro e
  subst e
  rw [h] at hx
  cases hx

theorem stepIdle_atom (S : List Frame) (res : Option PyVal) (c : Char) (h : atomChar c = true) :
    stepIdle S res c = some ⟨S, res, .atom [c]⟩ := by
  have h1 : ¬ c = ' ' := atomChar_ne h (by decide)
  have h2 : ¬ c = '\n' := atomChar_ne h (by decide)
  have h3 : ¬ c = '\t' := atomChar_ne h (by decide)
  have h4 : ¬ c = '\r' := atomChar_ne h (by decide)
  have h5 : ¬ c = '[' := atomChar_ne h (by decide)
  have h6 : ¬ c = '{' := atomChar_ne h (by decide)
  have h7 : ¬ c = ']' := atomChar_ne h (by decide)
  have h8 : ¬ c = '}' := atomChar_ne h (by decide)
  have h9 : ¬ c = ',' := atomChar_ne h (by decide)
  have h10 : ¬ c = ':' := atomChar_ne h (by decide)
  have h11 : ¬ c = '\'' := atomChar_ne h (by decide)
  have h12 : ¬ c = '"' := atomChar_ne h (by decide)
  simp [stepIdle, isSpace, h1, h2, h3, h4, h5, h6, h7, h8, h9, h10, h11, h12, h]

theorem run_atom_acc (S : List Frame) (res : Option PyVal) :
    ∀ (a acc : List Char) (d : Char) (tail : List Char), a.all atomChar = true → atomChar d = false →
      run ⟨S, res, .atom acc⟩ (a ++ d :: tail) =
        (match decodeAtom (acc.reverse ++ a) with
         | none => none
         | some v => andThen (deliver v S res) (d :: tail)) := by
  intro a
  induction a with
  | nil =>
    intro acc d tail _ hd
    simp only [List.nil_append, List.append_nil, run_cons, step, hd]
    cases hdec : decodeAtom acc.reverse with
    | none => simp
    | some v =>
      simp only [andThen_deliver_cons]
      cases hdel : deliver v S res with
      | none => simp
      | some st' => simp
  | cons c cs ih =>
    intro acc d tail ha hd
    have hc : atomChar c = true := by simp [List.all_cons] at ha; exact ha.1
    have hcs : cs.all atomChar = true := by simp [List.all_cons] at ha; simpa using ha.2
    simp only [List.cons_append, run_cons, step, hc, if_true, andThen_some]
    rw [ih (c :: acc) d tail hcs hd]
    simp

/-- a bare word / number followed by a delimiter is decoded and delivered -/
theorem run_atom (S : List Frame) (res : Option PyVal) (c : Char) (cs : List Char) (d : Char) (tail : List Char)
    (ha : (c :: cs).all atomChar = true) (hd : atomChar d = false) :
    run ⟨S, res, .idle⟩ ((c :: cs) ++ d :: tail) =
      (match decodeAtom (c :: cs) with
       | none => none
       | some v => andThen (deliver v S res) (d :: tail)) := by
  have hc : atomChar c = true := by simp [List.all_cons] at ha; exact ha.1
  have hcs : cs.all atomChar = true := by simp [List.all_cons] at ha; simpa using ha.2
  simp only [List.cons_append, run_cons, step, stepIdle_atom S res c hc, andThen_some]
  rw [run_atom_acc S res cs [c] d tail hcs hd]
  simp

theorem isDigit_atomChar {c : Char} (h : c.isDigit = true) : atomChar c = true := by
  simp [atomChar, Char.isAlphanum, h]

theorem all_atomChar_of_digits {cs : List Char} (h : ∀ c ∈ cs, c.isDigit = true) : cs.all atomChar = true := by
  simp only [List.all_eq_true]
  intro c hc
  exact isDigit_atomChar (h c hc)

theorem toDigits_digits (n : Nat) : ∀ c ∈ Nat.toDigits 10 n, c.isDigit = true :=
  fun c hc => Nat.isDigit_of_mem_toDigits (by decide) (by decide) hc

theorem toDigits_head_ne_zero : ∀ n : Nat, 0 < n → ∀ c cs, Nat.toDigits 10 n = c :: cs → c ≠ '0' := by
  intro n
  induction n using Nat.strongRecOn with
  | ind n ih =>
    intro hn c cs h
    by_cases hlt : n < 10
    · rw [Nat.toDigits_of_lt_base hlt] at h
      cases h
      intro e
      have := Nat.digitChar_eq_zero.mp e
      omega
    · have hge : 10 ≤ n := by omega
      rw [Nat.toDigits_of_base_le (by decide) hge] at h
      cases hd : Nat.toDigits 10 (n / 10) with
      | nil => exact absurd hd Nat.toDigits_ne_nil
      | cons c' cs' =>
        rw [hd] at h
        simp only [List.cons_append] at h
        cases h
        exact ih (n / 10) (by omega) (by omega) c cs' hd

theorem toDigits_leadingZeroOK (n : Nat) : leadingZeroOK (Nat.toDigits 10 n) = true := by
  by_cases hn : n = 0
  · subst hn; decide
  · cases hd : Nat.toDigits 10 n with
    | nil => rfl
    | cons c cs =>
      have hc := toDigits_head_ne_zero n (by omega) c cs hd
      unfold leadingZeroOK
      split
      · rename_i heq; cases heq; exact absurd rfl hc
      · rfl

theorem decodeNum_toDigits (n : Nat) : decodeNum (Nat.toDigits 10 n) = some (.int n) := by
  unfold decodeNum
  have h1 : Nat.toDigits 10 n ≠ [] := Nat.toDigits_ne_nil
  have h2 : (Nat.toDigits 10 n).all Char.isDigit = true := by
    simp only [List.all_eq_true]; exact toDigits_digits n
  simp [h1, h2, Nat.ofDigitChars_ten_toDigits, toDigits_leadingZeroOK]

/-- what `decodeAtom` makes of `repr(int)` -/
theorem decodeAtom_reprInt (i : Int) : decodeAtom (reprInt i) = some (.int i) := by
  cases i with
  | ofNat n =>
    simp only [reprInt]
    cases hd : Nat.toDigits 10 n with
    | nil => exact absurd hd Nat.toDigits_ne_nil
    | cons c cs =>
      have hc : c.isDigit = true := toDigits_digits n c (by rw [hd]; simp)
      have hne : ¬ c = '-' := by intro e; subst e; revert hc; decide
      simp only [decodeAtom, hne, if_false]
      rw [← hd]
      simp [decodePos, decodeNum_toDigits]
  | negSucc n =>
    simp only [reprInt, decodeAtom, if_true, decodeNeg, decodeNum_toDigits]
    rfl

theorem reprInt_atom (i : Int) : (reprInt i).all atomChar = true := by
  cases i with
  | ofNat n => exact all_atomChar_of_digits (toDigits_digits n)
  | negSucc n =>
    simp only [reprInt, List.all_cons]
    rw [all_atomChar_of_digits (toDigits_digits (n + 1))]
    decide

theorem reprInt_ne_nil (i : Int) : reprInt i ≠ [] := by
  cases i with
  | ofNat n => exact Nat.toDigits_ne_nil
  | negSucc n => simp [reprInt]

/-! ### float texts -/

theorem expDigits_atom : ∀ cs, expDigits cs = true → cs.all atomChar = true := by
  intro cs
  induction cs with
  | nil => intro _; rfl
  | cons c cs ih =>
    intro h
    simp only [expDigits, Bool.and_eq_true] at h
    simp [List.all_cons, isDigit_atomChar h.1, ih h.2]

theorem expDigits1_atom : ∀ cs, expDigits1 cs = true → cs.all atomChar = true := by
  intro cs
  cases cs with
  | nil => intro h; cases h
  | cons c cs =>
    intro h
    simp only [expDigits1, Bool.and_eq_true] at h
    simp [List.all_cons, isDigit_atomChar h.1, expDigits_atom cs h.2]

theorem expSign_atom : ∀ cs, expSign cs = true → cs.all atomChar = true := by
  intro cs
  cases cs with
  | nil => intro h; cases h
  | cons c cs =>
    intro h
    simp only [expSign] at h
    split at h
    · rename_i hc
      have : atomChar c = true := by rcases hc with e | e <;> subst e <;> decide
      simp [List.all_cons, this, expDigits1_atom cs h]
    · simp only [Bool.and_eq_true] at h
      simp [List.all_cons, isDigit_atomChar h.1, expDigits_atom cs h.2]

theorem afterDot_atom : ∀ cs, afterDot cs = true → cs.all atomChar = true := by
  intro cs
  induction cs with
  | nil => intro _; rfl
  | cons c cs ih =>
    intro h
    simp only [afterDot] at h
    split at h
    · rename_i hc
      simp [List.all_cons, isDigit_atomChar hc, ih h]
    · split at h
      · rename_i _ hc
        subst hc
        simp only [List.all_cons, expSign_atom cs h, Bool.and_true]
        decide
      · cases h

theorem afterInt_atom : ∀ cs, afterInt cs = true → cs.all atomChar = true := by
  intro cs
  induction cs with
  | nil => intro h; cases h
  | cons c cs ih =>
    intro h
    simp only [afterInt] at h
    split at h
    · rename_i hc
      simp [List.all_cons, isDigit_atomChar hc, ih h]
    · split at h
      · rename_i _ hc
        subst hc
        simp only [List.all_cons, afterDot_atom cs h, Bool.and_true]
        decide
      · split at h
        · rename_i _ _ hc
          subst hc
          simp only [List.all_cons, expSign_atom cs h, Bool.and_true]
          decide
        · cases h

theorem afterInt_not_digits : ∀ cs, afterInt cs = true → cs.all Char.isDigit = false := by
  intro cs
  induction cs with
  | nil => intro h; cases h
  | cons c cs ih =>
    intro h
    simp only [afterInt] at h
    split at h
    · rename_i hc
      simp [List.all_cons, hc, ih h]
    · rename_i hc
      simp [List.all_cons, hc]

theorem floatTok_atom (cs : List Char) (h : floatTok cs = true) : cs.all atomChar = true := by
  cases cs with
  | nil => cases h
  | cons c cs =>
    simp only [floatTok, Bool.and_eq_true] at h
    simp [List.all_cons, isDigit_atomChar h.1, afterInt_atom cs h.2]

theorem decodeNum_floatTok (cs : List Char) (h : floatTok cs = true) : decodeNum cs = some (.float cs) := by
  cases cs with
  | nil => cases h
  | cons c cs =>
    have h' := h
    simp only [floatTok, Bool.and_eq_true] at h'
    have : (c :: cs).all Char.isDigit = false := by simp [List.all_cons, afterInt_not_digits cs h'.2]
    unfold decodeNum
    simp [this, h]

/-- a float text is a non-empty run of token characters that `decodeAtom` gives back unchanged -/
theorem floatText_spec (r : String) (h : floatText r = true) :
    ∃ c cs, r.toList = c :: cs ∧ (c :: cs).all atomChar = true ∧ decodeAtom (c :: cs) = some (.float r) := by
  unfold floatText at h
  cases hr : r.toList with
  | nil => rw [hr] at h; cases h
  | cons c cs =>
    rw [hr] at h
    refine ⟨c, cs, rfl, ?_, ?_⟩
    · by_cases hc : c = '-'
      · subst hc
        simp only [stripMinus] at h
        simp only [List.all_cons, floatTok_atom cs h, Bool.and_true]
        decide
      · have : stripMinus (c :: cs) = c :: cs := by
          unfold stripMinus
          split
          · rename_i heq; cases heq; exact absurd rfl hc
          · rfl
        rw [this] at h
        exact floatTok_atom _ h
    · by_cases hc : c = '-'
      · subst hc
        simp only [stripMinus] at h
        simp only [decodeAtom, if_true, decodeNeg, decodeNum_floatTok cs h]
        rw [← hr, String.ofList_toList]
      · have : stripMinus (c :: cs) = c :: cs := by
          unfold stripMinus
          split
          · rename_i heq; cases heq; exact absurd rfl hc
          · rfl
        rw [this] at h
        simp only [decodeAtom, hc, if_false, decodePos, decodeNum_floatTok _ h]
        rw [← hr, String.ofList_toList]

/-! ### the value tree -/

/-- what follows a value in a display or at the end of the text: not a token character -/
def delimStart : List Char → Prop
  | [] => False
  | d :: _ => atomChar d = false

theorem delim_cases {tail : List Char} (h : delimStart tail) : ∃ d t, tail = d :: t ∧ atomChar d = false := by
  cases tail with
  | nil => cases h
  | cons d t => exact ⟨d, t, rfl, h⟩

theorem run_atom_value (S : List Frame) (res : Option PyVal) (a tail : List Char) (v : PyVal)
    (hne : a ≠ []) (ha : a.all atomChar = true) (hdec : decodeAtom a = some v) (hd : delimStart tail) :
    run ⟨S, res, .idle⟩ (a ++ tail) = andThen (deliver v S res) tail := by
  obtain ⟨d, t, rfl, hdd⟩ := delim_cases hd
  cases a with
  | nil => exact absurd rfl hne
  | cons c cs =>
    rw [run_atom S res c cs d t ha hdd, hdec]

theorem elemsTail_delim (p : Char → Bool) (xs : List PyVal) (tail : List Char) :
    delimStart (reprElemsTail p xs ++ tail) := by
  cases xs with
  | nil => simp only [reprElemsTail, List.cons_append]; show atomChar ']' = false; decide
  | cons x xs => simp only [reprElemsTail, List.cons_append]; show atomChar ',' = false; decide

theorem itemsTail_delim (p : Char → Bool) (kvs : List (String × PyVal)) (tail : List Char) :
    delimStart (reprItemsTail p kvs ++ tail) := by
  cases kvs with
  | nil => simp only [reprItemsTail, List.cons_append]; show atomChar '}' = false; decide
  | cons kv rest =>
    obtain ⟨k, v⟩ := kv
    simp only [reprItemsTail, List.cons_append]; show atomChar ',' = false; decide

theorem deliver_listV (v : PyVal) (acc : List PyVal) (S : List Frame) (res : Option PyVal) :
    deliver v (.listV acc :: S) res = some ⟨.listS (v :: acc) :: S, res, .idle⟩ := rfl

theorem deliver_dictK (k : String) (acc : List (String × PyVal)) (S : List Frame) (res : Option PyVal) :
    deliver (.str k) (.dictK acc :: S) res = some ⟨.dictC acc k :: S, res, .idle⟩ := rfl

theorem deliver_dictV (v : PyVal) (k : String) (acc : List (String × PyVal)) (S : List Frame) (res : Option PyVal) :
    deliver v (.dictV acc k :: S) res = some ⟨.dictS ((k, v) :: acc) :: S, res, .idle⟩ := rfl

mutual
  /-- **the reader inverts the printer**: the printed value, followed by anything that starts with a
      delimiter, is delivered as that value and reading goes on behind it -/
  theorem run_reprPV (p : Char → Bool) : ∀ (v : PyVal) (S : List Frame) (res : Option PyVal) (tail : List Char),
      finitePV v = true → delimStart tail →
      run ⟨S, res, .idle⟩ (reprPV p v ++ tail) = andThen (deliver v S res) tail
    | .none, S, res, tail, _, hd => by
        simp only [reprPV]
        exact run_atom_value S res _ tail .none (by simp) (by decide) (by rfl) hd
    | .bool true, S, res, tail, _, hd => by
        simp only [reprPV]
        exact run_atom_value S res _ tail (.bool true) (by simp) (by decide) (by rfl) hd
    | .bool false, S, res, tail, _, hd => by
        simp only [reprPV]
        exact run_atom_value S res _ tail (.bool false) (by simp) (by decide) (by rfl) hd
    | .int i, S, res, tail, _, hd => by
        simp only [reprPV]
        exact run_atom_value S res _ tail (.int i) (reprInt_ne_nil i) (reprInt_atom i) (decodeAtom_reprInt i) hd
    | .float r, S, res, tail, hf, hd => by
        simp only [reprPV]
        simp only [finitePV] at hf
        obtain ⟨c, cs, hr, ha, hdec⟩ := floatText_spec r hf
        rw [hr]
        exact run_atom_value S res _ tail (.float r) (by simp) ha hdec hd
    | .str s, S, res, tail, _, _ => by
        simp only [reprPV]
        rw [run_reprString p S res s.toList tail, String.ofList_toList]
    | .list xs, S, res, tail, hf, _ => by
        simp only [reprPV, List.cons_append, run_cons, step]
        have : stepIdle S res '[' = some ⟨.listV [] :: S, res, .idle⟩ := by simp [stepIdle, isSpace]
        rw [this]
        simp only [andThen_some]
        simp only [finitePV] at hf
        have := run_elems p xs [] S res tail hf
        simpa using this
    | .dict kvs, S, res, tail, hf, _ => by
        simp only [reprPV, List.cons_append, run_cons, step]
        have : stepIdle S res '{' = some ⟨.dictK [] :: S, res, .idle⟩ := by simp [stepIdle, isSpace]
        rw [this]
        simp only [andThen_some]
        simp only [finitePV] at hf
        have := run_items p kvs [] S res tail hf
        simpa using this
  theorem run_elems (p : Char → Bool) : ∀ (xs acc : List PyVal) (S : List Frame) (res : Option PyVal) (tail : List Char),
      finiteList xs = true →
      run ⟨.listV acc :: S, res, .idle⟩ (reprElems p xs ++ tail) =
        andThen (deliver (.list (acc.reverse ++ xs)) S res) tail
    | [], acc, S, res, tail, _ => by
        simp only [reprElems, List.cons_append, List.nil_append, run_cons, step]
        have : stepIdle (.listV acc :: S) res ']' = deliver (.list acc.reverse) S res := by simp [stepIdle, isSpace]
        rw [this]
        simp
    | x :: xs, acc, S, res, tail, hf => by
        simp only [finiteList, Bool.and_eq_true] at hf
        simp only [reprElems, List.append_assoc]
        rw [run_reprPV p x (.listV acc :: S) res _ hf.1 (elemsTail_delim p xs tail)]
        simp only [deliver_listV, andThen_some]
        rw [run_elemsTail p xs (x :: acc) S res tail hf.2]
        simp
  theorem run_elemsTail (p : Char → Bool) : ∀ (xs acc : List PyVal) (S : List Frame) (res : Option PyVal) (tail : List Char),
      finiteList xs = true →
      run ⟨.listS acc :: S, res, .idle⟩ (reprElemsTail p xs ++ tail) =
        andThen (deliver (.list (acc.reverse ++ xs)) S res) tail
    | [], acc, S, res, tail, _ => by
        simp only [reprElemsTail, List.cons_append, List.nil_append, run_cons, step]
        have : stepIdle (.listS acc :: S) res ']' = deliver (.list acc.reverse) S res := by simp [stepIdle, isSpace]
        rw [this]
        simp
    | x :: xs, acc, S, res, tail, hf => by
        simp only [finiteList, Bool.and_eq_true] at hf
        simp only [reprElemsTail, List.cons_append, List.append_assoc, run_cons, step]
        have h1 : stepIdle (.listS acc :: S) res ',' = some ⟨.listV acc :: S, res, .idle⟩ := by simp [stepIdle, isSpace]
        have h2 : stepIdle (.listV acc :: S) res ' ' = some ⟨.listV acc :: S, res, .idle⟩ := by simp [stepIdle, isSpace]
        rw [h1]
        simp only [andThen_some, run_cons, step]
        rw [h2]
        simp only [andThen_some]
        rw [run_reprPV p x (.listV acc :: S) res _ hf.1 (elemsTail_delim p xs tail)]
        simp only [deliver_listV, andThen_some]
        rw [run_elemsTail p xs (x :: acc) S res tail hf.2]
        simp
  theorem run_items (p : Char → Bool) : ∀ (kvs acc : List (String × PyVal)) (S : List Frame) (res : Option PyVal) (tail : List Char),
      finiteKvs kvs = true →
      run ⟨.dictK acc :: S, res, .idle⟩ (reprItems p kvs ++ tail) =
        andThen (deliver (.dict (acc.reverse ++ kvs)) S res) tail
    | [], acc, S, res, tail, _ => by
        simp only [reprItems, List.cons_append, List.nil_append, run_cons, step]
        have : stepIdle (.dictK acc :: S) res '}' = deliver (.dict acc.reverse) S res := by simp [stepIdle, isSpace]
        rw [this]
        simp
    | (k, v) :: rest, acc, S, res, tail, hf => by
        simp only [finiteKvs, Bool.and_eq_true] at hf
        simp only [reprItems, List.cons_append, List.append_assoc]
        rw [run_reprString p (.dictK acc :: S) res k.toList _, String.ofList_toList]
        simp only [deliver_dictK, andThen_some, run_cons, step]
        have h1 : stepIdle (.dictC acc k :: S) res ':' = some ⟨.dictV acc k :: S, res, .idle⟩ := by simp [stepIdle, isSpace]
        have h2 : stepIdle (.dictV acc k :: S) res ' ' = some ⟨.dictV acc k :: S, res, .idle⟩ := by simp [stepIdle, isSpace]
        rw [h1]
        simp only [andThen_some, run_cons, step]
        rw [h2]
        simp only [andThen_some]
        rw [run_reprPV p v (.dictV acc k :: S) res _ hf.1 (itemsTail_delim p rest tail)]
        simp only [deliver_dictV, andThen_some]
        rw [run_itemsTail p rest ((k, v) :: acc) S res tail hf.2]
        simp
  theorem run_itemsTail (p : Char → Bool) : ∀ (kvs acc : List (String × PyVal)) (S : List Frame) (res : Option PyVal) (tail : List Char),
      finiteKvs kvs = true →
      run ⟨.dictS acc :: S, res, .idle⟩ (reprItemsTail p kvs ++ tail) =
        andThen (deliver (.dict (acc.reverse ++ kvs)) S res) tail
    | [], acc, S, res, tail, _ => by
        simp only [reprItemsTail, List.cons_append, List.nil_append, run_cons, step]
        have : stepIdle (.dictS acc :: S) res '}' = deliver (.dict acc.reverse) S res := by simp [stepIdle, isSpace]
        rw [this]
        simp
    | (k, v) :: rest, acc, S, res, tail, hf => by
        simp only [finiteKvs, Bool.and_eq_true] at hf
        simp only [reprItemsTail, List.cons_append, List.append_assoc, run_cons, step]
        have h0 : stepIdle (.dictS acc :: S) res ',' = some ⟨.dictK acc :: S, res, .idle⟩ := by simp [stepIdle, isSpace]
        have h0' : stepIdle (.dictK acc :: S) res ' ' = some ⟨.dictK acc :: S, res, .idle⟩ := by simp [stepIdle, isSpace]
        rw [h0]
        simp only [andThen_some, run_cons, step]
        rw [h0']
        simp only [andThen_some]
        rw [run_reprString p (.dictK acc :: S) res k.toList _, String.ofList_toList]
        simp only [deliver_dictK, andThen_some, run_cons, step]
        have h1 : stepIdle (.dictC acc k :: S) res ':' = some ⟨.dictV acc k :: S, res, .idle⟩ := by simp [stepIdle, isSpace]
        have h2 : stepIdle (.dictV acc k :: S) res ' ' = some ⟨.dictV acc k :: S, res, .idle⟩ := by simp [stepIdle, isSpace]
        rw [h1]
        simp only [andThen_some, run_cons, step]
        rw [h2]
        simp only [andThen_some]
        rw [run_reprPV p v (.dictV acc k :: S) res _ hf.1 (itemsTail_delim p rest tail)]
        simp only [deliver_dictV, andThen_some]
        rw [run_itemsTail p rest ((k, v) :: acc) S res tail hf.2]
        simp
end

/-- the whole text of a printed value reads back as the value -/
theorem readLiteral_reprPV (p : Char → Bool) (v : PyVal) (h : finitePV v = true) :
    readLiteral (reprPV p v) = some v := by
  unfold readLiteral
  have := run_reprPV p v [] none ['\n'] h (by show atomChar '\n' = false; decide)
  unfold init
  rw [this]
  simp [deliver, run, step, stepIdle, isSpace, finish]

end Ariadne.PyLiteralProofs
