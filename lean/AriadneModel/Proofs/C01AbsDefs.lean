/-
  Proofs/C01AbsDefs.lean — property C01, "abstract positions" tier: definitions (core Lean only).

  The tier extends the plain tier (Proofs/C01PlainDefs.lean) by
    * fields of INTERFACE / UNION type (any list / non-null wrappers) next to object- and leaf-typed ones;
    * typed inline fragments `... on C { fields }` (no directive `@skip/@include` on the fragment, content = fields only)
      in every selection set;
    * `__typename` (un-aliased, unconditional) in every selection set below the operation root;
    * NAMED FRAGMENTS USED AS MIXINS (the fragment definitions are those of the mixin tier, Proofs/C01MixDefs.lean): a spread
      `...G` where the class it lands in is on exactly the OBJECT type `G` is defined on — directly in the selection set, or
      inside a merged inline fragment on that very type; the class then inherits from `G`'s class (`aBases`), its field nodes
      are its own (`rflat`) and the inherited ones (`c0`/`c1`/`cnodes`, the executor's view).

  * `aClass env cn tn tv a sel`: structural description of the classes `_parse_type_definition` emits for the selection
    set `sel` on type `tn`, root class `cn`, typename values `tv`, `add_typename = a`
    — one class per element of `relatedOf` (the "variants") at every composite position, recursively.
  * `AbsOK env cn tn sid sel st : Bool`: the decidable hypothesis of the tier.
  * `needSids`: the selection-set ids that receive an automatic `__typename`.
-/
import AriadneModel.Proofs.C01MixDefs
import AriadneModel.Model.Marks

set_option linter.unusedSimpArgs false
set_option linter.unusedVariables false

namespace Ariadne.C01Abs
open Ariadne Ariadne.Gql Ariadne.ResultTypes Ariadne.Util Ariadne.C01Plain

/-! ### one composite position: its variants -/

def inlCond? : Selection → Option String
  | .inline (some c) _ _ _ => some c
  | _ => none

/-- type conditions of the inline fragments at the top level of a selection set -/
def inlConds (sub : List Selection) : List String := sub.filterMap inlCond?

/-- `FieldContext.related_classes` after `parse_operation_field_type` on a composite field whose classes are
    prefixed `C`, of named type `n`, with sub-selection `sub`: (class name, type name) of every variant -/
def relatedOf (env : Env) (C n : String) (sub : List Selection) : List (String × String) :=
  match env.schema.kindOf? n with
  | some .interface =>
    if (inlConds sub).isEmpty then [(C, n)]
    else (C ++ n, n) :: (sortedSet (inlConds sub)).map fun c => (C ++ c, c)
  | some .union => ((env.schema.get? n).map (·.members) |>.getD []).map fun m => (C ++ m, m)
  | _ => [(C, n)]

/-- is the annotation a `Union[...]` of the variants (rather than a single class)? -/
def isMulti (env : Env) (n : String) (sub : List Selection) : Bool :=
  match env.schema.kindOf? n with
  | some .interface => !(inlConds sub).isEmpty
  | some .union => true
  | _ => false

def baseAnnOf (env : Env) (C n : String) (sub : List Selection) : Ann :=
  if isMulti env n sub then .union ((relatedOf env C n sub).map fun p => .cls p.1) else .cls C

def isCompositeKind (env : Env) (n : String) : Bool :=
  match env.schema.kindOf? n with
  | some .object => true
  | some .interface => true
  | some .union => true
  | _ => false

/-- the `typename values` argument of the variant on type `t` -/
def tvOf (env : Env) (rel : List (String × String)) (t : String) : List String :=
  ((typenameValues env rel).find? (·.1 == t)).map (·.2) |>.getD []

/-! ### one class: the field nodes `_resolve_selection_set` yields -/

def isTnSel : Selection → Bool
  | .field _ n _ _ _ => n == typenameField
  | _ => false

/-- `__typename` selected directly (not inside an inline fragment) -/
def explicitTn (sel : List Selection) : Bool := sel.any isTnSel

/-- does `_parse_type_definition(add_typename = a)` prepend the automatic `__typename`? -/
def autoTn (a : Bool) (sel : List Selection) : Bool := a && !explicitTn sel

/-- is the inline fragment on `c` merged into the class on type `tn`? -/
def incl (env : Env) (c tn : String) : Bool := (inlineFragmentRootType env c tn).isSome

def flat1 (env : Env) (tn : String) : Selection → List Selection
  | .field a n d s sub => [.field a n d s sub]
  | .inline (some c) _ _ ss => if incl env c tn then ss.filter isField else []
  | _ => []

/-- the field nodes of the class on `tn`: direct fields and the content of the merged inline fragments -/
def flatG (env : Env) (tn : String) (sel : List Selection) : List Selection := sel.flatMap (flat1 env tn)

/-- … with the automatic `__typename` in front -/
def rflat (a : Bool) (env : Env) (tn : String) (sel : List Selection) : List Selection :=
  (if autoTn a sel then [Marks.typenameSel] else []) ++ flatG env tn sel

/-! ### named fragments used as mixins (spread at a class on exactly their OBJECT type) -/

def isSpreadSel : Selection → Bool
  | .spread .. => true
  | _ => false

def gSpreadStep (env : Env) (tn : String) (acc : List String) : Selection → List String
  | .spread n _ => setAdd acc n
  | .inline (some c) _ _ ss => if incl env c tn then setUnion acc (C01Mix.spreadNames ss) else acc
  | _ => acc

/-- the `fragments` set `_resolve_selection_set` returns for the class on `tn`: the fragments spread directly or inside a
    merged inline fragment, in first-seen order -/
def gSpreads (env : Env) (tn : String) (sel : List Selection) : List String := sel.foldl (gSpreadStep env tn) []

/-- the base classes of the class on `tn` -/
def aBases (env : Env) (tn : String) (sel : List Selection) : List String :=
  if (gSpreads env tn sel).isEmpty then ["BaseModel"] else (sortStr (gSpreads env tn sel)).map pascal

/-- the field nodes of fragment `g` (own and inherited), each with its declaring class; `e` bounds the spread nesting -/
def inhOf (env : Env) (e : Nat) (g : String) : List (String × Selection) :=
  match findFragment? env.frags g with
  | some f => C01Mix.mflat env e (pascal f.name) f.sel
  | none => []

/-- the field nodes of the class on `tn` as the EXECUTOR collects them, own and inherited, in document order
    (a fragment spread twice contributes twice) -/
def c0 (env : Env) : Selection → List Selection
  | .field a n d s sub => [.field a n d s sub]
  | .spread g _ => (inhOf env (C01Mix.fragDepth env) g).map (·.2)
  | _ => []

def c1 (env : Env) (tn : String) : Selection → List Selection
  | .inline (some c) _ _ ss => if incl env c tn then ss.flatMap (c0 env) else []
  | s => c0 env s

/-- all field nodes of the class, own and inherited (see `c0`), with the automatic `__typename` in front -/
def cnodes (a : Bool) (env : Env) (tn : String) (sel : List Selection) : List Selection :=
  (if autoTn a sel then [Marks.typenameSel] else []) ++ sel.flatMap (c1 env tn)

/-! ### annotations -/

/-- no `Optional` / `List` wrapper at all: `T = Named!` (possibly with redundant `!`) -/
def bareT : Bool → TypeRef → Bool
  | nullable, .named _ => !nullable
  | _, .nonNull t => bareT false t
  | _, .list _ => false

/-- the type `_get_field_from_schema` invents for `__typename` -/
def tnT : TypeRef := .nonNull (.named "String")

/-- `__typename` in the root class (no typename values): the type has no field called `__typename`, and `String` is the
    built-in scalar, not configured as a custom scalar -/
def rootTnOK (env : Env) (tn : String) : Bool :=
  (env.schema.fieldOf? tn typenameField).isNone
  && (match env.schema.kindOf? "String" with
      | none => true
      | some .scalar => true
      | _ => false)
  && (scalarCfg? env "String").isNone

/-- the field declaration emitted for one field node of the class `cn` on type `tn` with typename values `tv` -/
def aDecl (env : Env) (cn tn : String) (tv : List String) (alias : Option String) (name : String) (dirs : List Directive)
    (sub : List Selection) : FieldDecl :=
  let key := alias.getD name
  let py := pyFieldName env key
  if name == typenameField && !tv.isEmpty then
    { py := py, ann := .literal (sortStr tv), alias := if py != key then some key else none,
      discriminator := false, defaultNone := false }
  else
    -- `__typename` in a class without typename values (the operation's root class): an ordinary `String!` leaf
    let T := if name == typenameField then tnT else fieldT env tn name
    let base : Ann := if sub.isEmpty then ResultLeaf.leafBase env T.base else baseAnnOf env (subClass env cn alias name) T.base sub
    let ann := condAnn (annotateTop (wrapAnn base true T)) dirs
    { py := py, ann := ann, alias := if py != key then some key else none,
      discriminator := isUnionAnn ann, defaultNone := hasConditionalDirective dirs }

def aDecl1 (env : Env) (cn tn : String) (tv : List String) : Selection → List FieldDecl
  | .field alias name dirs _ sub => [aDecl env cn tn tv alias name dirs sub]
  | _ => []

/-! ### the clean generator -/

mutual
  /-- the classes of the sub-selections, in generation order -/
  def aExtra (env : Env) : String → String → List Selection → List ClassDecl
    | _, _, [] => []
    | cn, tn, s :: rest => aExtra1 env cn tn s ++ aExtra env cn tn rest
  def aExtra1 (env : Env) : String → String → Selection → List ClassDecl
    | cn, tn, .field alias name _ _ sub =>
      if sub.isEmpty || name == typenameField then []
      else
        (relatedOf env (subClass env cn alias name) (subType env tn name) sub).flatMap fun p =>
          { name := p.1, bases := aBases env p.2 sub,
            fields := (rflat (env.schema.isAbstract (subType env tn name)) env p.2 sub).flatMap
              (aDecl1 env p.1 p.2 (tvOf env (relatedOf env (subClass env cn alias name) (subType env tn name) sub) p.2)) }
            :: aExtra env p.1 p.2 sub
    | cn, tn, .inline (some c) _ _ ss => if incl env c tn then aExtra env cn tn ss else []
    | _, _, _ => []
end

/-- **the clean generator**: `_parse_type_definition(cn, tn, sel, add_typename = a, typename_values = tv)` -/
def aClass (env : Env) (cn tn : String) (tv : List String) (a : Bool) (sel : List Selection) : List ClassDecl :=
  { name := cn, bases := aBases env tn sel, fields := (rflat a env tn sel).flatMap (aDecl1 env cn tn tv) } :: aExtra env cn tn sel

/-! ### automatic `__typename` -/

mutual
  /-- ids of the selection sets that get an automatic `__typename` while the classes of `sel` (on `tn`) are generated -/
  def needSids (env : Env) : String → String → List Selection → List Nat
    | _, _, [] => []
    | cn, tn, s :: rest => needSids1 env cn tn s ++ needSids env cn tn rest
  def needSids1 (env : Env) : String → String → Selection → List Nat
    | cn, tn, .field alias name _ sid sub =>
      if sub.isEmpty || name == typenameField then []
      else
        (if autoTn (env.schema.isAbstract (subType env tn name)) sub then [sid] else [])
        ++ (relatedOf env (subClass env cn alias name) (subType env tn name) sub).flatMap fun p => needSids env p.1 p.2 sub
    | cn, tn, .inline (some c) _ _ ss => if incl env c tn then needSids env cn tn ss else []
    | _, _, _ => []
end

/-! ### the hypothesis -/

def nameOf : Selection → String
  | .field _ n _ _ _ => n
  | _ => ""

def subOf : Selection → List Selection
  | .field _ _ _ _ sub => sub
  | _ => []

def dirsOf : Selection → List Directive
  | .field _ _ d _ _ => d
  | _ => []

/-- a field node that may share its response key with other nodes of the class: a leaf that is not `__typename` -/
def plainLeaf (x : Selection) : Bool := (subOf x).isEmpty && nameOf x != typenameField

/-- conditions on ALL field nodes of one class (own and inherited, `cnodes`): a response key reached more than once is reached
    by LEAF selections of the SAME field only (`node { id ... on User { id } }`, `{ ...F id }` with `id` in `F`: the generator
    emits / inherits the field twice, Python and pydantic keep one declaration; the executor merges the selections) — a
    composite field or `__typename` owns its key (finding C01-F2 otherwise); distinct keys have distinct Python names; and the
    populate_by_name condition of the plain tier -/
def dupOK (env : Env) (l : List Selection) : Bool :=
  let keys := dedup (l.map keyOf)
  (l.all fun x =>
    decide ((l.filter fun y => keyOf y == keyOf x).length ≤ 1)
    || (l.filter fun y => keyOf y == keyOf x).all fun y => plainLeaf y && nameOf y == nameOf x)
  && nodupB (keys.map (pyFieldName env))
  && keys.all fun k => pyFieldName env k == k || !keys.contains (pyFieldName env k)

/-- conditions on the field nodes of ONE class standing for the runtime types `rts`: the conditions on response keys / Python
    names (`dupOK`), and — when the class has a `__typename` field — its literal contains every
    runtime type the class stands for (or, in the root class, which has no typename values: `rootTnOK`) -/
def classHead (env : Env) (tn : String) (rts tv : List String) (a : Bool) (sel : List Selection) : Bool :=
  dupOK env (cnodes a env tn sel)
  && (!((rflat a env tn sel).any isTnSel) || (if tv.isEmpty then rootTnOK env tn else rts.all tv.contains))

def notTnField : Selection → Bool
  | .field _ n _ _ _ => n != typenameField
  | _ => false

mutual
  /-- structural conditions, by recursion on the selection tree; `mk sid` = "the selection set `sid` carries an automatic
      `__typename` in the document as sent" -/
  def aSels (env : Env) (mk : Nat → Bool) : String → String → List String → List Selection → Bool
    | _, _, _, [] => true
    | cn, tn, rts, s :: rest => aSel1 env mk cn tn rts s && aSels env mk cn tn rts rest
  def aSel1 (env : Env) (mk : Nat → Bool) : String → String → List String → Selection → Bool
    | cn, tn, rts, .field alias name dirs sid sub =>
      -- no `@mixin` on the field
      !(dirs.any (·.name == Tables.mixinName))
      && (if name == typenameField then
            -- `__typename`: not aliased (finding C01-F8), not conditional (the class requires it), a leaf
            alias.isNone && !hasConditionalDirective dirs && sub.isEmpty
          else
            -- the field exists on the class's type, and on every runtime type with the SAME type
            (env.schema.fieldOf? tn name).isSome
            && rts.all (fun rt => (env.schema.fieldOf? rt name).map (·.type) == (env.schema.fieldOf? tn name).map (·.type))
            && (if sub.isEmpty then isLeafName env (subType env tn name)
                else
                  isCompositeKind env (subType env tn name)
                  -- the automatic `__typename` is in the sent document exactly where the generator adds the field
                  && (mk sid == autoTn (env.schema.isAbstract (subType env tn name)) sub)
                  -- at least one variant (a union has members)
                  && !(relatedOf env (subClass env cn alias name) (subType env tn name) sub).isEmpty
                  -- every runtime type is in the literal of some variant
                  && (Exec.runtimeTypes env.schema (subType env tn name)).all (fun rt' =>
                        (relatedOf env (subClass env cn alias name) (subType env tn name) sub).any fun p =>
                          (tvOf env (relatedOf env (subClass env cn alias name) (subType env tn name) sub) p.2).contains rt')
                  -- every variant, for the runtime types in its literal
                  && (relatedOf env (subClass env cn alias name) (subType env tn name) sub).all (fun p =>
                        !(tvOf env (relatedOf env (subClass env cn alias name) (subType env tn name) sub) p.2).isEmpty
                        && classHead env p.2
                          ((Exec.runtimeTypes env.schema (subType env tn name)).filter
                            (tvOf env (relatedOf env (subClass env cn alias name) (subType env tn name) sub) p.2).contains)
                          (tvOf env (relatedOf env (subClass env cn alias name) (subType env tn name) sub) p.2)
                          (env.schema.isAbstract (subType env tn name)) sub
                        && aSels env mk p.1 p.2
                          ((Exec.runtimeTypes env.schema (subType env tn name)).filter
                            (tvOf env (relatedOf env (subClass env cn alias name) (subType env tn name) sub) p.2).contains)
                          sub)))
    | cn, tn, rts, .inline (some c) dirs _ ss =>
      -- no `@skip/@include` on the fragment (finding C01-F3)
      !hasConditionalDirective dirs
      -- the generator merges the fragment into this class iff the executor applies it to the class's runtime types (C01-F5)
      && rts.all (fun rt => incl env c tn == Exec.applies env.schema (some c) rt)
      -- content: fields, and (only when the fragment is on the class's own type) spreads of mixin fragments
      && (!incl env c tn || (ss.all (fun y => notTnField y || (isSpreadSel y && c == tn)) && aSels env mk cn tn rts ss))
    | _, tn, rts, .spread n dirs =>
      -- a named fragment used as a MIXIN: no `@skip/@include` (finding C01-F3); the class is on an OBJECT type and stands for
      -- that type only; the fragment is defined on exactly this type (else it is unpacked or dropped: other tiers / findings)
      !hasConditionalDirective dirs
      && env.schema.kindOf? tn == some .object
      && rts.all (· == tn)
      && (match findFragment? env.frags n with
          | some f => f.on == tn
          | none => false)
    | _, _, _, _ => false     -- inline fragments without type condition: outside this tier
end

/-- **`AbsOK`**: the decidable hypothesis of the abstract-positions tier.  `sid` = identity of the top-level selection
    set, `st` = generator state in which `_parse_type_definition(add_typename = false, typename values = [])` is called;
    `tn` is the (object) type the selection set is executed on. -/
def AbsOK (env : Env) (cn tn : String) (sid : Nat) (sel : List Selection) (st : St) : Bool :=
  !(st.marks ++ needSids env cn tn sel).contains sid
  && classHead env tn [tn] [] false sel
  && aSels env (st.marks ++ needSids env cn tn sel).contains cn tn [tn] sel
  && nodupB ((aClass env cn tn [] false sel).map (·.name))
  && ((aClass env cn tn [] false sel).map (·.name)).all (fun n => !st.publicNames.contains n)

/-! ### fuel -/

mutual
  /-- generator fuel (and executor fuel) that suffices -/
  def agfuel : List Selection → Nat
    | [] => 2
    | s :: rest => max (agfuel1 s) (agfuel rest)
  def agfuel1 : Selection → Nat
    | .field _ _ _ _ sub => if sub.isEmpty then 0 else agfuel sub + 2
    | .inline _ _ _ ss => agfuel ss
    | _ => 0
end

mutual
  /-- validation fuel that suffices for the fields of the class on `tn` -/
  def avneed (env : Env) : String → String → List Selection → Nat
    | _, _, [] => 0
    | cn, tn, s :: rest => max (avneed1 env cn tn s) (avneed env cn tn rest)
  def avneed1 (env : Env) : String → String → Selection → Nat
    | cn, tn, .field alias name _ _ sub =>
      wneed (fieldT env tn name) + 3 +
        (if sub.isEmpty || name == typenameField then 0
         else ((relatedOf env (subClass env cn alias name) (subType env tn name) sub).map fun p => avneed env p.1 p.2 sub).foldl max 0 + 4)
    | cn, tn, .inline (some c) _ _ ss => if incl env c tn then avneed env cn tn ss else 0
    | _, _, _ => 0
end

end Ariadne.C01Abs
