/-
  Lemmas for the embedding theorem of C02 (`embed_safe`): the string pipeline
      lines -> repr of each line -> adjacent literals -> replace/delete/indent -> Python evaluation
  is the identity up to re-indentation on safe texts.  Pure `List Char` reasoning.
-/
import AriadneModel.Model.Embed

set_option linter.unusedSimpArgs false
set_option linter.unusedVariables false

namespace Ariadne.EmbedProofs
open Ariadne.Embed Ariadne.PyStr

/-! ### equations of the pattern-matching definitions -/

theorem replaceBN_ne (c : Char) (X : List Char) (h : c ≠ '\\') : replaceBN (c :: X) = c :: replaceBN X := by
  rw [replaceBN.eq_def]
  split <;> simp_all

theorem replaceBN_bs (a : Char) (X : List Char) (h : a ≠ 'n') :
    replaceBN ('\\' :: a :: X) = '\\' :: replaceBN (a :: X) := by
  rw [replaceBN.eq_def]
  split
  · simp_all
  · simp_all
  · rename_i heq
    simp only [List.cons.injEq] at heq
    obtain ⟨rfl, rfl⟩ := heq
    rfl

theorem replaceBN_bsn (X : List Char) : replaceBN ('\\' :: 'n' :: X) = '\n' :: replaceBN X := by
  rw [replaceBN.eq_def]
  simp

theorem replaceBN_bs_nil : replaceBN ['\\'] = ['\\'] := by
  rw [replaceBN.eq_def]
  simp [replaceBN]

def startsQQ : List Char → Bool
  | '"' :: '"' :: _ => true
  | _ => false

theorem evalBody_raw (c : Char) (X : List Char) (h1 : c ≠ '"') (h2 : c ≠ '\\') (h3 : c ≠ '\r') :
    evalBody (c :: X) = (evalBody X).map (fun (v, r) => (c :: v, r)) := by
  rw [evalBody.eq_def]
  split <;> simp_all

theorem evalBody_q1 (X : List Char) (h : startsQQ X = false) :
    evalBody ('"' :: X) = (evalBody X).map (fun (v, r) => ('"' :: v, r)) := by
  rw [evalBody.eq_def]
  split
  all_goals first
    | (simp_all [startsQQ]; done)
    | (rename_i heq
       simp only [List.cons.injEq] at heq
       obtain ⟨rfl, rfl⟩ := heq
       rfl)

theorem evalBody_end (X : List Char) : evalBody ('"' :: '"' :: '"' :: X) = some ([], X) := by
  rw [evalBody.eq_def]
  simp

theorem evalBody_bsbs (X : List Char) :
    evalBody ('\\' :: '\\' :: X) = (evalBody X).map (fun (v, r) => ('\\' :: v, r)) := by
  rw [evalBody.eq_def]
  simp

theorem evalBody_bst (X : List Char) :
    evalBody ('\\' :: 't' :: X) = (evalBody X).map (fun (v, r) => ('\t' :: v, r)) := by
  rw [evalBody.eq_def]
  simp

theorem evalBody_x (a b : Char) (n : Nat) (X : List Char) (h : hexVals [a, b] = some n) :
    evalBody ('\\' :: 'x' :: a :: b :: X) = (evalBody X).map (fun (v, r) => (Char.ofNat n :: v, r)) := by
  rw [evalBody.eq_def]
  simp [h]

theorem evalBody_u (a b c d : Char) (n : Nat) (X : List Char) (h : hexVals [a, b, c, d] = some n) :
    evalBody ('\\' :: 'u' :: a :: b :: c :: d :: X) = (evalBody X).map (fun (v, r) => (Char.ofNat n :: v, r)) := by
  rw [evalBody.eq_def]
  simp [h]

theorem evalBody_U (a b c d e f g h' : Char) (n : Nat) (X : List Char) (h : hexVals [a, b, c, d, e, f, g, h'] = some n) :
    evalBody ('\\' :: 'U' :: a :: b :: c :: d :: e :: f :: g :: h' :: X) = (evalBody X).map (fun (v, r) => (Char.ofNat n :: v, r)) := by
  rw [evalBody.eq_def]
  simp [h]


/-! ### hexadecimal round trip -/

theorem hexDigit_ok : ∀ d : Fin 16,
    hexVal (hexDigit d.val) = some d.val ∧ hexDigit d.val ≠ '\\' ∧ hexDigit d.val ≠ '\'' ∧ hexDigit d.val ≠ 'n'
      ∧ hexDigit d.val ≠ '"' ∧ hexDigit d.val ≠ '\n' ∧ isWs (hexDigit d.val) = false := by
  decide

theorem hexDigit_val (d : Nat) (h : d < 16) : hexVal (hexDigit d) = some d := (hexDigit_ok ⟨d, h⟩).1

/-- what is needed of a character inside an escape token -/
def Plain (x : Char) : Prop := x ≠ '\\' ∧ x ≠ '\'' ∧ x ≠ 'n' ∧ x ≠ '"' ∧ x ≠ '\n' ∧ isWs x = false

theorem hexDigit_plain (d : Nat) (h : d < 16) : Plain (hexDigit d) := (hexDigit_ok ⟨d, h⟩).2

theorem hexVals_hex2 (n : Nat) (h : n < 256) : hexVals (hex2 n) = some n := by
  have h1 := hexDigit_val (n / 16 % 16) (by omega)
  have h2 := hexDigit_val (n % 16) (by omega)
  simp [hexVals, hex2, h1, h2, List.foldlM]
  omega

theorem hexVals_hex4 (n : Nat) (h : n < 65536) : hexVals (hex4 n) = some n := by
  have h1 := hexDigit_val (n / 4096 % 16) (by omega)
  have h2 := hexDigit_val (n / 256 % 16) (by omega)
  have h3 := hexDigit_val (n / 16 % 16) (by omega)
  have h4 := hexDigit_val (n % 16) (by omega)
  simp [hexVals, hex4, h1, h2, h3, h4, List.foldlM]
  omega

theorem hexVals_hex8 (n : Nat) (h : n < 4294967296) : hexVals (hex8 n) = some n := by
  have h1 := hexDigit_val (n / 268435456 % 16) (by omega)
  have h2 := hexDigit_val (n / 16777216 % 16) (by omega)
  have h3 := hexDigit_val (n / 1048576 % 16) (by omega)
  have h4 := hexDigit_val (n / 65536 % 16) (by omega)
  have h5 := hexDigit_val (n / 4096 % 16) (by omega)
  have h6 := hexDigit_val (n / 256 % 16) (by omega)
  have h7 := hexDigit_val (n / 16 % 16) (by omega)
  have h8 := hexDigit_val (n % 16) (by omega)
  simp [hexVals, hex8, h1, h2, h3, h4, h5, h6, h7, h8, List.foldlM]
  omega


/-! ### `replace("\\n", "\n")` on a text without an adjacent backslash-n pair -/

/-- no backslash is immediately followed by `n` -/
def noBN : List Char → Bool
  | a :: b :: t => !(a == '\\' && b == 'n') && noBN (b :: t)
  | _ => true

theorem noBN_tail (a : Char) (X : List Char) (h : noBN (a :: X) = true) : noBN X = true := by
  cases X with
  | nil => rfl
  | cons b t => simp [noBN] at h; exact h.2

theorem noBN_head (a : Char) (X : List Char) (h : noBN (a :: X) = true) (ha : a = '\\') : X.head? ≠ some 'n' := by
  cases X with
  | nil => simp
  | cons b t =>
    simp [noBN, ha] at h
    simpa using h.1

theorem noBN_cons (a : Char) (X : List Char) (hX : noBN X = true) (h : a = '\\' → X.head? ≠ some 'n') : noBN (a :: X) = true := by
  cases X with
  | nil => rfl
  | cons b t =>
    simp [noBN]
    refine ⟨?_, hX⟩
    by_cases ha : a = '\\'
    · right
      intro hb
      exact h ha (by simp [hb])
    · left
      exact ha

theorem replaceBN_cons (a : Char) (X : List Char) (h : a = '\\' → X.head? ≠ some 'n') :
    replaceBN (a :: X) = a :: replaceBN X := by
  by_cases ha : a = '\\'
  · subst ha
    cases X with
    | nil => simp [replaceBN_bs_nil, replaceBN]
    | cons b t =>
      have hb : b ≠ 'n' := by
        intro hb
        exact h rfl (by simp [hb])
      exact replaceBN_bs b t hb
  · exact replaceBN_ne a X ha

theorem replaceBN_prefix (L R : List Char) (h : noBN (L ++ R.take 1) = true) :
    replaceBN (L ++ R) = L ++ replaceBN R := by
  induction L with
  | nil => rfl
  | cons a L ih =>
    have ht := noBN_tail a _ h
    have hh : a = '\\' → (L ++ R).head? ≠ some 'n' := by
      intro ha
      have := noBN_head a _ h ha
      cases L with
      | nil => cases R <;> simp_all
      | cons b L' => simpa using this
    rw [List.cons_append, replaceBN_cons a _ hh, ih ht]
    rfl

/-! ### escape tokens -/

def consFst (c : Char) (p : List Char × List Char) : List Char × List Char := (c :: p.1, p.2)

theorem consFst_eq (c : Char) : (fun (x : List Char × List Char) => match x with | (v, r) => (c :: v, r)) = consFst c := by
  funext ⟨v, r⟩
  rfl

/-- what the pipeline needs of the `repr` token `tok` of a character `c` -/
structure TokOK (c : Char) (tok : List Char) : Prop where
  noQuote : ∀ x ∈ tok, x ≠ '\''
  noNL : ∀ x ∈ tok, x ≠ '\n'
  bn : ∀ R, noBN R = true → (c = '\\' → R.head? ≠ some 'n') → noBN (tok ++ R) = true
  headN : tok.head? = some 'n' → c = 'n'
  headQ : tok.head? = some '"' → c = '"'
  ne : tok ≠ []
  ws : tok.all isWs = (c == ' ')
  eval : ∀ R, (c = '"' → startsQQ R = false) → evalBody (tok ++ R) = (evalBody R).map (consFst c)

/-- the characters of a safe line: not `'`, not a line separator -/
def SafeChar (c : Char) : Prop := c ≠ '\'' ∧ isLineSep c = false

theorem ascii_ws : ∀ n : Fin 128, 0x20 ≤ n.val → n.val < 0x7f → isWs (Char.ofNat n.val) = (Char.ofNat n.val == ' ') := by
  decide

theorem printable_ws (env : Char → Bool) (c : Char) (h : isPrintable env c = true) : isWs c = (c == ' ') := by
  unfold isPrintable at h
  by_cases hc : c.toNat < 128
  · simp [hc] at h
    have := ascii_ws ⟨c.toNat, hc⟩ h.1 h.2
    simpa [Char.ofNat_toNat] using this
  · simp [hc] at h
    have hne : (c == ' ') = false := by
      apply beq_false_of_ne
      intro h'
      subst h'
      exact hc (by decide)
    rw [hne]
    exact h.1

theorem tok_raw (c : Char) (h1 : c ≠ '\\') (h2 : c ≠ '\'') (h3 : c ≠ '\n') (h4 : c ≠ '\r') (hw : isWs c = (c == ' ')) :
    TokOK c [c] where
  noQuote := by simp [h2]
  noNL := by simp [h3]
  bn := fun R hR _ => noBN_cons c R hR (fun h => absurd h h1)
  headN := by simp
  headQ := by simp
  ne := by simp
  ws := by simp [hw]
  eval := by
    intro R hq
    by_cases hc : c = '"'
    · subst hc
      simp only [List.singleton_append]
      rw [evalBody_q1 R (hq rfl), consFst_eq]
    · simp only [List.singleton_append]
      rw [evalBody_raw c R hc h1 h4, consFst_eq]

theorem tok_bs : TokOK '\\' ['\\', '\\'] where
  noQuote := by decide
  noNL := by decide
  bn := by
    intro R hR h
    have := noBN_cons '\\' R hR h
    simpa [noBN] using this
  headN := by decide
  headQ := by decide
  ne := by simp
  ws := by decide
  eval := by
    intro R _
    simp only [List.cons_append, List.nil_append]
    rw [evalBody_bsbs, consFst_eq]

theorem tok_tab : TokOK '\t' ['\\', 't'] where
  noQuote := by decide
  noNL := by decide
  bn := by
    intro R hR _
    have := noBN_cons 't' R hR (fun h => absurd h (by decide))
    simpa [noBN] using this
  headN := by decide
  headQ := by decide
  ne := by simp
  ws := by decide
  eval := by
    intro R _
    simp only [List.cons_append, List.nil_append]
    rw [evalBody_bst, consFst_eq]

theorem noBN_plain (ds R : List Char) (hds : ∀ x ∈ ds, x ≠ '\\') (hR : noBN R = true) : noBN (ds ++ R) = true := by
  induction ds with
  | nil => simpa using hR
  | cons d ds ih =>
    exact noBN_cons d _ (ih (fun x hx => hds x (by simp [hx]))) (fun h => absurd h (hds d (by simp)))

/-- an escape token `\k d₁ … dₘ` whose tail consists of plain characters -/
theorem tok_hex_generic (c : Char) (k : Char) (ds : List Char) (hk : Plain k) (hds : ∀ x ∈ ds, Plain x)
    (hc1 : c ≠ '\\') (hc2 : c ≠ ' ')
    (hev : ∀ R, evalBody ('\\' :: k :: ds ++ R) = (evalBody R).map (consFst c)) :
    TokOK c ('\\' :: k :: ds) where
  noQuote := by
    intro x hx
    simp at hx
    rcases hx with rfl | rfl | hx
    · decide
    · exact hk.2.1
    · exact (hds x hx).2.1
  noNL := by
    intro x hx
    simp at hx
    rcases hx with rfl | rfl | hx
    · decide
    · exact hk.2.2.2.2.1
    · exact (hds x hx).2.2.2.2.1
  bn := by
    intro R hR _
    have h1 : noBN (ds ++ R) = true := noBN_plain ds R (fun x hx => (hds x hx).1) hR
    have h2 : noBN (k :: (ds ++ R)) = true := noBN_cons k _ h1 (fun h => absurd h hk.1)
    have h3 : noBN ('\\' :: k :: (ds ++ R)) = true := by
      simp [noBN]
      exact ⟨hk.2.2.1, by simpa using h2⟩
    simpa using h3
  headN := by simp
  headQ := by simp
  ne := by simp
  ws := by
    have : (c == ' ') = false := beq_false_of_ne hc2
    simp [this]
    intro h
    exact absurd h (by decide)
  eval := fun R _ => hev R

theorem reprChar_ok (env : Char → Bool) (c : Char) (hs : SafeChar c) : TokOK c (reprChar env '\'' c) := by
  obtain ⟨hq, hsep⟩ := hs
  have hn : c ≠ '\n' := by intro h; subst h; simp [isLineSep] at hsep
  have hr : c ≠ '\r' := by intro h; subst h; simp [isLineSep] at hsep
  unfold reprChar
  by_cases hb : c = '\\'
  · subst hb
    simpa using tok_bs
  · by_cases ht : c = '\t'
    · subst ht
      simpa using tok_tab
    · by_cases hp : isPrintable env c = true
      · have : (if (c == '\'' || c == '\\') = true then ['\\', c]
            else if (c == '\t') = true then ['\\', 't']
            else if (c == '\n') = true then ['\\', 'n']
            else if (c == '\r') = true then ['\\', 'r']
            else if isPrintable env c = true then [c]
            else if c.toNat < 0x100 then '\\' :: 'x' :: hex2 c.toNat
            else if c.toNat < 0x10000 then '\\' :: 'u' :: hex4 c.toNat
            else '\\' :: 'U' :: hex8 c.toNat) = [c] := by simp [hq, hb, ht, hn, hr, hp]
        rw [this]
        exact tok_raw c hb hq hn hr (printable_ws env c hp)
      · have h0 : (c == '\'' || c == '\\') = false := by simp [hq, hb]
        simp only [h0, beq_iff_eq, hq, hb, or_self, if_false, ht, hn, hr, hp, Bool.false_eq_true]
        have hsp : c ≠ ' ' := by
          intro h; subst h
          exact hp (by simp [isPrintable])
        by_cases h1 : c.toNat < 0x100
        · simp only [h1, if_true]
          refine tok_hex_generic c 'x' (hex2 c.toNat) (by unfold Plain; decide) ?_ hb hsp ?_
          · intro x hx
            simp [hex2] at hx
            rcases hx with rfl | rfl <;> exact hexDigit_plain _ (by omega)
          · intro R
            have := evalBody_x (hexDigit (c.toNat / 16 % 16)) (hexDigit (c.toNat % 16)) c.toNat R (hexVals_hex2 c.toNat h1)
            simpa [hex2, consFst_eq, Char.ofNat_toNat] using this
        · simp only [h1, if_false]
          by_cases h2 : c.toNat < 0x10000
          · simp only [h2, if_true]
            refine tok_hex_generic c 'u' (hex4 c.toNat) (by unfold Plain; decide) ?_ hb hsp ?_
            · intro x hx
              simp [hex4] at hx
              rcases hx with rfl | rfl | rfl | rfl <;> exact hexDigit_plain _ (by omega)
            · intro R
              have := evalBody_u _ _ _ _ c.toNat R (hexVals_hex4 c.toNat h2)
              simpa [hex4, consFst_eq, Char.ofNat_toNat] using this
          · simp only [h2, if_false]
            have h3 : c.toNat < 4294967296 := by
              have := UInt32.toNat_lt c.val
              have e : c.toNat = c.val.toNat := rfl
              omega
            refine tok_hex_generic c 'U' (hex8 c.toNat) (by unfold Plain; decide) ?_ hb hsp ?_
            · intro x hx
              simp [hex8] at hx
              rcases hx with rfl | rfl | rfl | rfl | rfl | rfl | rfl | rfl <;> exact hexDigit_plain _ (by omega)
            · intro R
              have := evalBody_U _ _ _ _ _ _ _ _ c.toNat R (hexVals_hex8 c.toNat h3)
              simpa [hex8, consFst_eq, Char.ofNat_toNat] using this


/-! ### lines -/

/-- the escaped content of a line between its quotes -/
def escs (env : Char → Bool) (l : List Char) : List Char := l.flatMap (reprChar env '\'')

theorem escs_cons (env : Char → Bool) (c : Char) (l : List Char) : escs env (c :: l) = reprChar env '\'' c ++ escs env l := by
  simp [escs]

/-- a line of a safe text -/
structure SafeLine (l : List Char) : Prop where
  chars : ∀ c ∈ l, SafeChar c
  bsn : hasBsN l = false
  tq : hasTQ l = false

theorem SafeLine.tail {c : Char} {l : List Char} (h : SafeLine (c :: l)) : SafeLine l where
  chars := fun x hx => h.chars x (by simp [hx])
  bsn := by
    have := h.bsn
    simp only [hasBsN, Bool.or_eq_false_iff] at this
    exact this.2
  tq := by
    have := h.tq
    simp only [hasTQ, Bool.or_eq_false_iff] at this
    exact this.2

theorem SafeLine.head {c : Char} {l : List Char} (h : SafeLine (c :: l)) : SafeChar c := h.chars c (by simp)

theorem SafeLine.nil : SafeLine [] := ⟨by simp, rfl, rfl⟩

theorem head_escs_append (env : Char → Bool) (c : Char) (l R : List Char) (hc : SafeChar c) :
    (escs env (c :: l) ++ R).head? = (reprChar env '\'' c).head? := by
  have hne := (reprChar_ok env c hc).ne
  rw [escs_cons, List.append_assoc]
  cases h : reprChar env '\'' c with
  | nil => exact absurd h hne
  | cons a t => simp

theorem escs_noQuote (env : Char → Bool) (l : List Char) (h : SafeLine l) : ∀ x ∈ escs env l, x ≠ '\'' := by
  induction l with
  | nil => simp [escs]
  | cons c l ih =>
    intro x hx
    rw [escs_cons, List.mem_append] at hx
    rcases hx with hx | hx
    · exact (reprChar_ok env c h.head).noQuote x hx
    · exact ih h.tail x hx

theorem escs_noNL (env : Char → Bool) (l : List Char) (h : SafeLine l) : ∀ x ∈ escs env l, x ≠ '\n' := by
  induction l with
  | nil => simp [escs]
  | cons c l ih =>
    intro x hx
    rw [escs_cons, List.mem_append] at hx
    rcases hx with hx | hx
    · exact (reprChar_ok env c h.head).noNL x hx
    · exact ih h.tail x hx

theorem escs_noBN (env : Char → Bool) (l R : List Char) (h : SafeLine l) (hR : noBN R = true) (hh : R.head? ≠ some 'n') :
    noBN (escs env l ++ R) = true := by
  induction l with
  | nil => simpa [escs] using hR
  | cons c l ih =>
    rw [escs_cons, List.append_assoc]
    apply (reprChar_ok env c h.head).bn _ (ih h.tail)
    intro hc
    cases l with
    | nil => simpa [escs] using hh
    | cons c2 l2 =>
      rw [head_escs_append env c2 l2 R h.tail.head]
      intro hn
      have h2 := (reprChar_ok env c2 h.tail.head).headN hn
      have := h.bsn
      subst hc h2
      simp [hasBsN] at this

theorem escs_ws (env : Char → Bool) (l : List Char) (h : SafeLine l) : (escs env l).all isWs = l.all (· == ' ') := by
  induction l with
  | nil => simp [escs]
  | cons c l ih =>
    rw [escs_cons, List.all_append, (reprChar_ok env c h.head).ws, ih h.tail]
    simp

theorem startsQQ_false_of_head (X : List Char) (h : X.head? ≠ some '"') : startsQQ X = false := by
  cases X with
  | nil => rfl
  | cons a t =>
    have : a ≠ '"' := by simpa using h
    cases t with
    | nil => simp [startsQQ]
    | cons b t => simp [startsQQ, this]

theorem reprChar_dq (env : Char → Bool) : reprChar env '\'' '"' = ['"'] := by
  simp [reprChar, isPrintable]

def appFst (l : List Char) (p : List Char × List Char) : List Char × List Char := (l ++ p.1, p.2)

theorem map_consFst_appFst (c : Char) (l : List Char) (o : Option (List Char × List Char)) :
    (o.map (appFst l)).map (consFst c) = o.map (appFst (c :: l)) := by
  cases o <;> simp [appFst, consFst]

theorem escs_eval (env : Char → Bool) (l R : List Char) (h : SafeLine l) (hR : R.head? ≠ some '"') :
    evalBody (escs env l ++ R) = (evalBody R).map (appFst l) := by
  induction l with
  | nil =>
    simp only [escs, List.flatMap_nil, List.nil_append]
    cases evalBody R <;> simp [appFst]
  | cons c l ih =>
    rw [escs_cons, List.append_assoc, (reprChar_ok env c h.head).eval, ih h.tail, map_consFst_appFst]
    intro hc
    subst hc
    cases l with
    | nil => simpa [escs] using startsQQ_false_of_head R hR
    | cons c2 l2 =>
      by_cases h2 : c2 = '"'
      · subst h2
        rw [escs_cons, reprChar_dq]
        have : startsQQ ('"' :: (escs env l2 ++ R)) = false := by
          have hh : (escs env l2 ++ R).head? ≠ some '"' := by
            cases l2 with
            | nil => simpa [escs] using hR
            | cons c3 l3 =>
              rw [head_escs_append env c3 l3 R h.tail.tail.head]
              intro h3
              have h3' := (reprChar_ok env c3 h.tail.tail.head).headQ h3
              subst h3'
              have := h.tq
              simp [hasTQ] at this
          generalize escs env l2 ++ R = X at hh
          cases X with
          | nil => simp [startsQQ]
          | cons a t =>
            have : a ≠ '"' := by simpa using hh
            simp [startsQQ, this]
        simpa using this
      · apply startsQQ_false_of_head
        rw [head_escs_append env c2 l2 R h.tail.head]
        intro hq
        exact h2 ((reprChar_ok env c2 h.tail.head).headQ hq)


/-! ### the pipeline, stage by stage -/

theorem reprStr_line (env : Char → Bool) (l : List Char) (h : SafeLine l) :
    reprStr env (l ++ ['\n']) = '\'' :: (escs env l ++ ['\\', 'n', '\'']) := by
  have hm : '\'' ∉ l ++ ['\n'] := by
    intro hm
    rw [List.mem_append] at hm
    rcases hm with hm | hm
    · exact (h.chars _ hm).1 rfl
    · simp at hm
  have hq : reprQuote (l ++ ['\n']) = '\'' := by
    unfold reprQuote
    have : (l ++ ['\n']).contains '\'' = false := by
      cases hc : (l ++ ['\n']).contains '\'' with
      | false => rfl
      | true => exact absurd (List.contains_iff_mem.mp hc) hm
    rw [this]
    simp
  have hn : reprChar env '\'' '\n' = ['\\', 'n'] := by simp [reprChar]
  unfold PyStr.reprStr
  simp only [hq, List.flatMap_append, List.flatMap_cons, List.flatMap_nil, List.append_nil, hn]
  simp [escs]

/-- the unparsed adjacent constants -/
def U (env : Char → Bool) (ls : List (List Char)) : List Char :=
  ls.flatMap fun l => '\'' :: (escs env l ++ ['\\', 'n', '\''])

/-- after `replace("\\n", "\n")` -/
def U' (env : Char → Bool) (ls : List (List Char)) : List Char :=
  ls.flatMap fun l => '\'' :: (escs env l ++ ['\n', '\''])

/-- after `replace("'", "")` -/
def J (env : Char → Bool) (ls : List (List Char)) : List Char :=
  ls.flatMap fun l => escs env l ++ ['\n']

theorem unparse_lines (env : Char → Bool) (ls : List (List Char)) (h : ∀ l ∈ ls, SafeLine l) :
    unparseConsts env (ls.map (· ++ ['\n'])) = U env ls := by
  induction ls with
  | nil => rfl
  | cons l ls ih =>
    have := ih (fun x hx => h x (by simp [hx]))
    simp only [unparseConsts, U, List.map_cons, List.flatMap_cons] at this ⊢
    rw [this, reprStr_line env l (h l (by simp))]

theorem replace_lines (env : Char → Bool) (ls : List (List Char)) (h : ∀ l ∈ ls, SafeLine l) :
    replaceBN (U env ls) = U' env ls := by
  induction ls with
  | nil => rfl
  | cons l ls ih =>
    have hl := h l (by simp)
    have e : U env (l :: ls) = ('\'' :: escs env l) ++ ('\\' :: 'n' :: '\'' :: U env ls) := by
      simp [U]
    have hp : noBN (('\'' :: escs env l) ++ List.take 1 ('\\' :: 'n' :: '\'' :: U env ls)) = true := by
      have h1 : noBN (escs env l ++ ['\\']) = true := escs_noBN env l ['\\'] hl rfl (by simp)
      have := noBN_cons '\'' _ h1 (fun hh => absurd hh (by decide))
      simpa using this
    rw [e, replaceBN_prefix _ _ hp, replaceBN_bsn, replaceBN_ne '\'' _ (by decide), ih (fun x hx => h x (by simp [hx]))]
    simp [U']

theorem delete_lines (env : Char → Bool) (ls : List (List Char)) (h : ∀ l ∈ ls, SafeLine l) :
    deleteQuotes (U' env ls) = J env ls := by
  induction ls with
  | nil => rfl
  | cons l ls ih =>
    have hl := h l (by simp)
    have hf : (escs env l).filter (fun x => x != '\'') = escs env l := by
      rw [List.filter_eq_self]
      intro x hx
      simpa using escs_noQuote env l hl x hx
    have := ih (fun x hx => h x (by simp [hx]))
    simp only [deleteQuotes, U', J, List.flatMap_cons] at this ⊢
    rw [List.filter_append, this]
    simp [List.filter_cons, hf]

theorem J_getLast (env : Char → Bool) (ls : List (List Char)) (hne : ls ≠ []) : (J env ls).getLast? = some '\n' := by
  obtain ⟨init, last, rfl⟩ : ∃ init last, ls = init ++ [last] := by
    refine ⟨ls.dropLast, ls.getLast hne, ?_⟩
    exact (List.dropLast_concat_getLast hne).symm
  simp [J, List.flatMap_append]

theorem splitKeep_line (A B : List Char) (h : ∀ x ∈ A, x ≠ '\n') :
    splitKeep (A ++ '\n' :: B) = (A ++ ['\n']) :: splitKeep B := by
  induction A with
  | nil => simp [splitKeep]
  | cons a A ih =>
    have ha : a ≠ '\n' := h a (by simp)
    have := ih (fun x hx => h x (by simp [hx]))
    simp [splitKeep, ha, this]

theorem splitKeep_tq : splitKeep tq = [tq] := by decide

/-- indentation chosen by `textwrap.indent` for an escaped line -/
def ind (k : Nat) (l : List Char) : List Char := if l.all (· == ' ') then [] else List.replicate k ' '

/-- the body of the emitted literal between the opening line and the closing quotes -/
def body (env : Char → Bool) (k : Nat) (ls : List (List Char)) : List Char :=
  ls.flatMap fun l => ind k l ++ (escs env l ++ ['\n'])

theorem indent_lines (env : Char → Bool) (k : Nat) (ls : List (List Char)) (h : ∀ l ∈ ls, SafeLine l) :
    pyIndent (List.replicate k ' ') (J env ls ++ tq) = body env k ls ++ (List.replicate k ' ' ++ tq) := by
  induction ls with
  | nil =>
    simp only [J, body, List.flatMap_nil, List.nil_append, pyIndent, splitKeep_tq]
    simp [tq, isWs]
  | cons l ls ih =>
    have hl := h l (by simp)
    have e : J env (l :: ls) ++ tq = escs env l ++ '\n' :: (J env ls ++ tq) := by simp [J]
    have hws : (escs env l ++ ['\n']).all isWs = l.all (· == ' ') := by
      rw [List.all_append, escs_ws env l hl]
      simp [isWs]
    have := ih (fun x hx => h x (by simp [hx]))
    unfold pyIndent at this ⊢
    rw [e, splitKeep_line _ _ (escs_noNL env l hl), List.flatMap_cons, this, hws]
    simp only [body, List.flatMap_cons, ind]
    by_cases hb : l.all (· == ' ') = true
    · simp [hb]
    · simp [hb]

theorem eval_spaces (k : Nat) (R : List Char) :
    evalBody (List.replicate k ' ' ++ R) = (evalBody R).map (appFst (List.replicate k ' ')) := by
  induction k with
  | zero =>
    simp only [List.replicate_zero, List.nil_append]
    cases evalBody R <;> simp [appFst]
  | succ k ih =>
    rw [List.replicate_succ, List.cons_append, evalBody_raw ' ' _ (by decide) (by decide) (by decide), ih, consFst_eq,
      map_consFst_appFst]

theorem map_appFst_appFst (a b : List Char) (o : Option (List Char × List Char)) :
    (o.map (appFst b)).map (appFst a) = o.map (appFst (a ++ b)) := by
  cases o <;> simp [appFst]

theorem eval_body (env : Char → Bool) (k : Nat) (ls : List (List Char)) (R : List Char) (h : ∀ l ∈ ls, SafeLine l) :
    evalBody (body env k ls ++ R) = (evalBody R).map (appFst (indentLines k ls)) := by
  induction ls with
  | nil =>
    simp only [body, indentLines, List.flatMap_nil, List.nil_append]
    cases evalBody R <;> simp [appFst]
  | cons l ls ih =>
    have hl := h l (by simp)
    have e : body env k (l :: ls) ++ R = ind k l ++ (escs env l ++ ('\n' :: (body env k ls ++ R))) := by
      simp [body]
    have hi : evalBody (ind k l ++ (escs env l ++ ('\n' :: (body env k ls ++ R))))
        = (evalBody (escs env l ++ ('\n' :: (body env k ls ++ R)))).map (appFst (ind k l)) := by
      unfold ind
      by_cases hb : l.all (· == ' ') = true
      · simp only [hb, if_true, List.nil_append]
        cases evalBody (escs env l ++ '\n' :: (body env k ls ++ R)) <;> simp [appFst]
      · simp only [hb, if_false]
        exact eval_spaces k _
    rw [e, hi, escs_eval env l _ hl (by simp), evalBody_raw '\n' _ (by decide) (by decide) (by decide),
      ih (fun x hx => h x (by simp [hx])), consFst_eq, map_consFst_appFst, map_appFst_appFst, map_appFst_appFst]
    congr 2
    simp only [indentLines, List.flatMap_cons, ind]
    by_cases hb : l.all (· == ' ') = true
    · simp [hb]
    · simp [hb]

/-- **The embedding theorem on the line list**: for safe lines, what Python reads back from the emitted
    triple-quoted literal is the re-indented text. -/
theorem embed_lines (env : Char → Bool) (vi off : Nat) (ls : List (List Char)) (hne : ls ≠ [])
    (h : ∀ l ∈ ls, SafeLine l) :
    evalTripleQuoted (convert vi off (unparseConsts env (ls.map (· ++ ['\n']))))
      = some ('\n' :: (indentLines (vi + off) ls ++ List.replicate (vi + off) ' ')) := by
  unfold convert
  simp only [unparse_lines env ls h, replace_lines env ls h, delete_lines env ls h, J_getLast env ls hne, beq_self_eq_true, if_true]
  rw [indent_lines env (vi + off) ls h]
  have : tq ++ '\n' :: (body env (vi + off) ls ++ (List.replicate (vi + off) ' ' ++ tq))
      = '"' :: '"' :: '"' :: ('\n' :: (body env (vi + off) ls ++ (List.replicate (vi + off) ' ' ++ tq))) := rfl
  rw [this]
  simp only [evalTripleQuoted]
  rw [evalBody_raw '\n' _ (by decide) (by decide) (by decide), eval_body env (vi + off) ls _ h, eval_spaces]
  have : evalBody tq = some ([], []) := evalBody_end []
  simp [this, appFst, consFst_eq, consFst]


/-! ### from the text to its lines -/

theorem splitlines_spec (q : List Char) :
    (∀ l ∈ splitlines q, l <:+: q ∧ ∀ c ∈ l, isLineSep c = false) ∧
    (∀ l0 rest, splitlines q = l0 :: rest → l0 <+: q) := by
  fun_induction splitlines q with
  | case1 => simp
  | case2 cs ih =>
    refine ⟨?_, ?_⟩
    · intro l hl
      simp only [List.mem_cons] at hl
      rcases hl with rfl | hl
      · exact ⟨List.nil_infix, by simp⟩
      · obtain ⟨hi, hc⟩ := ih.1 l hl
        exact ⟨hi.trans ((List.suffix_cons _ _).trans (List.suffix_cons _ _)).isInfix, hc⟩
    · intro l0 rest h
      simp only [List.cons.injEq] at h
      rw [← h.1]
      exact List.nil_prefix
  | case3 c cs hnot hsep ih =>
    refine ⟨?_, ?_⟩
    · intro l hl
      simp only [List.mem_cons] at hl
      rcases hl with rfl | hl
      · exact ⟨List.nil_infix, by simp⟩
      · obtain ⟨hi, hc⟩ := ih.1 l hl
        exact ⟨hi.trans (List.suffix_cons _ _).isInfix, hc⟩
    · intro l0 rest h
      simp only [List.cons.injEq] at h
      rw [← h.1]
      exact List.nil_prefix
  | case4 c cs hnot hsep hnil ih =>
    have hsep' : isLineSep c = false := by simpa using hsep
    refine ⟨?_, ?_⟩
    · intro l hl
      simp only [List.mem_singleton] at hl
      subst hl
      refine ⟨(List.prefix_iff_eq_append.mpr (by simp)).isInfix, ?_⟩
      intro x hx
      simp only [List.mem_singleton] at hx
      subst hx
      exact hsep'
    · intro l0 rest h
      simp only [List.cons.injEq] at h
      rw [← h.1]
      exact List.prefix_iff_eq_append.mpr (by simp)
  | case5 c cs hnot hsep l ls heq ih =>
    have hsep' : isLineSep c = false := by simpa using hsep
    have hpre : l <+: cs := ih.2 l ls heq
    refine ⟨?_, ?_⟩
    · intro x hx
      simp only [List.mem_cons] at hx
      rcases hx with rfl | hx
      · refine ⟨((List.cons_prefix_cons).mpr ⟨rfl, hpre⟩).isInfix, ?_⟩
        intro y hy
        simp only [List.mem_cons] at hy
        rcases hy with rfl | hy
        · exact hsep'
        · exact (ih.1 l (by simp [heq])).2 y hy
      · obtain ⟨hi, hc⟩ := ih.1 x (by simp [heq, hx])
        exact ⟨hi.trans (List.suffix_cons _ _).isInfix, hc⟩
    · intro l0 rest h
      simp only [List.cons.injEq] at h
      rw [← h.1]
      exact (List.cons_prefix_cons).mpr ⟨rfl, hpre⟩

theorem hasBsN_append_left (A X : List Char) (h : hasBsN X = true) : hasBsN (A ++ X) = true := by
  induction A with
  | nil => simpa using h
  | cons a A ih => simp [hasBsN, ih]

theorem hasBsN_append_right (l B : List Char) (h : hasBsN l = true) : hasBsN (l ++ B) = true := by
  induction l with
  | nil => simp [hasBsN] at h
  | cons c l ih =>
    simp only [hasBsN, Bool.or_eq_true, Bool.and_eq_true] at h
    rcases h with h | h
    · cases l with
      | nil => simp at h
      | cons a l' => simp [hasBsN, h]
    · simp [hasBsN, ih h]

theorem hasTQ_append_left (A X : List Char) (h : hasTQ X = true) : hasTQ (A ++ X) = true := by
  induction A with
  | nil => simpa using h
  | cons a A ih => simp [hasTQ, ih]

theorem hasTQ_append_right (l B : List Char) (h : hasTQ l = true) : hasTQ (l ++ B) = true := by
  induction l with
  | nil => simp [hasTQ] at h
  | cons c l ih =>
    simp only [hasTQ, Bool.or_eq_true, Bool.and_eq_true] at h
    rcases h with h | h
    · cases l with
      | nil => simp at h
      | cons a l' =>
        cases l' with
        | nil => simp at h
        | cons b l'' => simp [hasTQ, h]
    · simp [hasTQ, ih h]

theorem hasBsN_infix {l q : List Char} (hi : l <:+: q) (h : hasBsN q = false) : hasBsN l = false := by
  obtain ⟨A, B, rfl⟩ := hi
  cases hl : hasBsN l with
  | false => rfl
  | true =>
    have := hasBsN_append_left A (l ++ B) (hasBsN_append_right l B hl)
    rw [← List.append_assoc] at this
    rw [this] at h
    exact absurd h (by decide)

theorem hasTQ_infix {l q : List Char} (hi : l <:+: q) (h : hasTQ q = false) : hasTQ l = false := by
  obtain ⟨A, B, rfl⟩ := hi
  cases hl : hasTQ l with
  | false => rfl
  | true =>
    have := hasTQ_append_left A (l ++ B) (hasTQ_append_right l B hl)
    rw [← List.append_assoc] at this
    rw [this] at h
    exact absurd h (by decide)

theorem trigger_none (q : List Char) (h : trigger q = none) :
    hasTQ q = false ∧ hasQuote q = false ∧ hasBsN q = false ∧ hasExtraSep q = false := by
  unfold trigger at h
  cases h1 : hasTQ q <;> cases h2 : hasQuote q <;> cases h3 : hasBsN q <;> cases h4 : hasExtraSep q <;> simp_all

theorem safeLine_of_text (q : List Char) (h : trigger q = none) : ∀ l ∈ splitlines q, SafeLine l := by
  obtain ⟨htq, hq, hbn, _⟩ := trigger_none q h
  intro l hl
  obtain ⟨hi, hc⟩ := (splitlines_spec q).1 l hl
  refine ⟨?_, hasBsN_infix hi hbn, hasTQ_infix hi htq⟩
  intro c hcl
  refine ⟨?_, hc c hcl⟩
  intro hc'
  subst hc'
  have : '\'' ∈ q := hi.subset hcl
  have hq' : q.any (· == '\'') = false := hq
  rw [List.any_eq_false] at hq'
  exact hq' _ this (by simp)

/-- **embed_safe** (text level): outside the four text triggers, the value of the emitted literal is the
    re-indented operation text. -/
theorem embed_text (env : Char → Bool) (vi off : Nat) (q : List Char) (ht : trigger q = none) (hne : splitlines q ≠ []) :
    sentText env vi off q = some (expectedSent (vi + off) q) := by
  unfold sentText embed
  simp only [ht]
  exact embed_lines env vi off (splitlines q) hne (safeLine_of_text q ht)

end Ariadne.EmbedProofs
