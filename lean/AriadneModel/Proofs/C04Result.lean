/-
  Proofs/C04Result.lean — invariants of the class-producing recursion of `ResultTypesGenerator`
  (`_parse_type_definition` / `_parse_field_selection_set_types`), for every fuel, state and selection set:
  the generated public names are exactly the names of the classes produced; the recorded enums are enums of the schema,
  the recorded scalars are configured ones; every name an annotation evaluates is a `typing` / `pydantic` name, a simple
  type, a recorded enum, or the type / parse function of a recorded scalar.
-/
import AriadneModel.Proofs.C04Ann
import AriadneModel.Proofs.C08Package

set_option linter.unusedSimpArgs false
set_option linter.unusedVariables false

namespace Ariadne.ResultTypes
open Ariadne Ariadne.Gql Ariadne.Util Ariadne.Package

/-! ### `annotate_nested_unions`, `parse_directives` -/

theorem annUses_annotateNested : ∀ (a : Ann) (u : String), u ∈ annUses (annotateNested a) →
    u = "Annotated" ∨ u = "Field" ∨ u ∈ annUses a
  | .union as, u, h => by
    simp only [annotateNested, annUses, List.mem_cons] at h
    rcases h with h | h | h
    · exact Or.inl h
    · exact Or.inr (Or.inl h)
    · exact Or.inr (Or.inr (by simpa [annUses] using h))
  | .optional a, u, h => by
    simp only [annotateNested, annUses, List.mem_cons] at h
    rcases h with h | h
    · exact Or.inr (Or.inr (by simp [annUses, h]))
    · rcases annUses_annotateNested a u h with h | h | h
      · exact Or.inl h
      · exact Or.inr (Or.inl h)
      · exact Or.inr (Or.inr (by simp [annUses, h]))
  | .list a, u, h => by
    simp only [annotateNested, annUses, List.mem_cons] at h
    rcases h with h | h
    · exact Or.inr (Or.inr (by simp [annUses, h]))
    · rcases annUses_annotateNested a u h with h | h | h
      · exact Or.inl h
      · exact Or.inr (Or.inl h)
      · exact Or.inr (Or.inr (by simp [annUses, h]))
  | .name n, u, h => Or.inr (Or.inr h)
  | .cls n, u, h => Or.inr (Or.inr h)
  | .disc a, u, h => Or.inr (Or.inr h)
  | .literal vs, u, h => Or.inr (Or.inr h)
  | .before t p, u, h => Or.inr (Or.inr h)

theorem annFwd_annotateNested : ∀ (a : Ann), annFwd (annotateNested a) = annFwd a
  | .union as => by simp [annotateNested, annFwd]
  | .optional a => by simp [annotateNested, annFwd, annFwd_annotateNested a]
  | .list a => by simp [annotateNested, annFwd, annFwd_annotateNested a]
  | .name n => rfl
  | .cls n => rfl
  | .disc a => rfl
  | .literal vs => rfl
  | .before t p => rfl

theorem annsUses_map_annotateNested : ∀ (as : List Ann) (u : String), u ∈ annsUses (as.map annotateNested) →
    u = "Annotated" ∨ u = "Field" ∨ u ∈ annsUses as
  | [], u, h => by simp [annsUses] at h
  | a :: rest, u, h => by
    simp only [List.map_cons, annsUses, List.mem_append] at h
    rcases h with h | h
    · rcases annUses_annotateNested a u h with h | h | h
      · exact Or.inl h
      · exact Or.inr (Or.inl h)
      · exact Or.inr (Or.inr (by simp [annsUses, h]))
    · rcases annsUses_map_annotateNested rest u h with h | h | h
      · exact Or.inl h
      · exact Or.inr (Or.inl h)
      · exact Or.inr (Or.inr (by simp [annsUses, h]))

theorem annsFwd_map_annotateNested : ∀ (as : List Ann), annsFwd (as.map annotateNested) = annsFwd as
  | [] => rfl
  | a :: rest => by simp [annsFwd, annFwd_annotateNested a, annsFwd_map_annotateNested rest]

theorem annUses_annotateTop (a : Ann) (u : String) (h : u ∈ annUses (annotateTop a)) :
    u = "Annotated" ∨ u = "Field" ∨ u ∈ annUses a := by
  cases a with
  | optional a =>
    simp only [annotateTop, annUses, List.mem_cons] at h
    rcases h with h | h
    · exact Or.inr (Or.inr (by simp [annUses, h]))
    · rcases annUses_annotateNested a u h with h | h | h
      · exact Or.inl h
      · exact Or.inr (Or.inl h)
      · exact Or.inr (Or.inr (by simp [annUses, h]))
  | list a =>
    simp only [annotateTop, annUses, List.mem_cons] at h
    rcases h with h | h
    · exact Or.inr (Or.inr (by simp [annUses, h]))
    · rcases annUses_annotateNested a u h with h | h | h
      · exact Or.inl h
      · exact Or.inr (Or.inl h)
      · exact Or.inr (Or.inr (by simp [annUses, h]))
  | union as =>
    simp only [annotateTop, annUses, List.mem_cons] at h
    rcases h with h | h
    · exact Or.inr (Or.inr (by simp [annUses, h]))
    · rcases annsUses_map_annotateNested as u h with h | h | h
      · exact Or.inl h
      · exact Or.inr (Or.inl h)
      · exact Or.inr (Or.inr (by simp [annUses, h]))
  | name n => exact Or.inr (Or.inr h)
  | cls n => exact Or.inr (Or.inr h)
  | disc a => exact Or.inr (Or.inr h)
  | literal vs => exact Or.inr (Or.inr h)
  | before t p => exact Or.inr (Or.inr h)

theorem annFwd_annotateTop (a : Ann) : annFwd (annotateTop a) = annFwd a := by
  cases a with
  | optional a => simp [annotateTop, annFwd, annFwd_annotateNested]
  | list a => simp [annotateTop, annFwd, annFwd_annotateNested]
  | union as => simp [annotateTop, annFwd, annsFwd_map_annotateNested]
  | name n => rfl
  | cls n => rfl
  | disc a => rfl
  | literal vs => rfl
  | before t p => rfl

theorem parseDirectives_uses (a : Ann) (dirs : List Directive) (u : String) (h : u ∈ annUses (parseDirectives a dirs).1) :
    u = "Optional" ∨ u ∈ annUses a := by
  unfold parseDirectives at h
  split at h
  · simp only at h
    split at h
    · exact Or.inr h
    · simp only [annUses, List.mem_cons] at h
      exact h
  · exact Or.inr h

theorem parseDirectives_fwd (a : Ann) (dirs : List Directive) : annFwd (parseDirectives a dirs).1 = annFwd a := by
  unfold parseDirectives
  split
  · simp only
    split
    · rfl
    · rfl
  · rfl

/-- what `parse_operation_field` returns -/
structure FieldSpec (env : Env) (a : Ann) (ctx : Ctx) : Prop where
  enumsKind : ∀ x ∈ ctx.enums, env.schema.kindOf? x = some .enum
  scalarsCfg : ∀ x ∈ ctx.customScalars, (scalarCfg? env x).isSome = true
  uses : ∀ u ∈ annUses a, NameIn env ctx.enums ctx.customScalars u
  fwd : ∀ x ∈ annFwd a, x ∈ ctx.related.map (·.1)

theorem parseOperationField_spec (env : Env) (fuel : Nat) (name : String) (dirs : List Directive) (sub : List Selection)
    (t : TypeRef) (cn : String) (tv : List String) (a : Ann) (dflt : Bool) (ctx : Ctx)
    (h : parseOperationField env fuel name dirs sub t cn tv = .ok (a, dflt, ctx)) : FieldSpec env a ctx := by
  unfold parseOperationField at h
  split at h
  · simp only [pure, Except.pure, Except.ok.injEq, Prod.mk.injEq] at h
    obtain ⟨rfl, _, rfl⟩ := h
    refine ⟨fun x h => (by cases h), fun x h => (by cases h), ?_, ?_⟩
    · intro u hu
      have : u = "Literal" := by simpa [annUses] using hu
      subst this
      exact Or.inl (by decide)
    · intro x hx
      simp [annFwd] at hx
  · cases hp : parseType env fuel sub t true cn false {} with
    | error e => rw [hp] at h; simp [bind, Except.bind] at h
    | ok r =>
      obtain ⟨a0, c0⟩ := r
      rw [hp] at h
      simp only [bind, Except.bind, pure, Except.pure, Except.ok.injEq, Prod.mk.injEq] at h
      obtain ⟨rfl, _, rfl⟩ := h
      have sp := parseType_spec env fuel sub t true cn false {} a0 c0 hp
      refine ⟨?_, ?_, ?_, ?_⟩
      · intro x hx
        rcases sp.enumsKind x hx with h | h
        · cases h
        · exact h
      · intro x hx
        rcases sp.scalarsCfg x hx with h | h
        · cases h
        · exact h
      · intro u hu
        rcases parseDirectives_uses _ _ u hu with rfl | hu
        · exact Or.inl (by decide)
        · rcases annUses_annotateTop a0 u hu with rfl | rfl | hu
          · exact Or.inl (by decide)
          · exact Or.inl (by decide)
          · exact sp.uses u hu
      · intro x hx
        rw [parseDirectives_fwd, annFwd_annotateTop] at hx
        exact sp.fwd x hx

/-! ### the state relation -/

structure Sub (s s' : St) : Prop where
  pub : ∀ x ∈ s.publicNames, x ∈ s'.publicNames
  enums : ∀ x ∈ s.usedEnums, x ∈ s'.usedEnums
  scalars : ∀ x ∈ s.usedScalars, x ∈ s'.usedScalars

theorem Sub.refl (s : St) : Sub s s := ⟨fun _ h => h, fun _ h => h, fun _ h => h⟩

theorem Sub.trans {a b c : St} (h1 : Sub a b) (h2 : Sub b c) : Sub a c :=
  ⟨fun x h => h2.pub x (h1.pub x h), fun x h => h2.enums x (h1.enums x h), fun x h => h2.scalars x (h1.scalars x h)⟩

/-- the three lists agree -/
structure Same (s s' : St) : Prop where
  pub : s'.publicNames = s.publicNames
  enums : s'.usedEnums = s.usedEnums
  scalars : s'.usedScalars = s.usedScalars

theorem Same.refl (s : St) : Same s s := ⟨rfl, rfl, rfl⟩

theorem Same.trans {a b c : St} (h1 : Same a b) (h2 : Same b c) : Same a c :=
  ⟨h2.pub.trans h1.pub, h2.enums.trans h1.enums, h2.scalars.trans h1.scalars⟩

theorem Same.of_frame {s s' : St} (f : Frame s s') : Same s s' := ⟨f.publicNames, f.usedEnums, f.usedScalars⟩

theorem same_addImports (s : St) (ps : List (String × String)) : Same s (addImports s ps) := ⟨rfl, rfl, rfl⟩

theorem same_afterTypename (a : Bool) (sid : Nat) (r : List RField) (s : St) : Same s (afterTypename a sid r s) := by
  unfold afterTypename
  split <;> exact ⟨rfl, rfl, rfl⟩

def FieldsOK (env : Env) (s : St) (fs : List FieldDecl) : Prop :=
  ∀ f ∈ fs, ∀ u ∈ fieldUses f, NameIn env s.usedEnums s.usedScalars u

def ClassesOK (env : Env) (s : St) (cs : List ClassDecl) : Prop := ∀ c ∈ cs, FieldsOK env s c.fields

/-- what a successful run of the class-producing recursion guarantees -/
structure Out (env : Env) (s s' : St) (cs : List ClassDecl) : Prop where
  sub : Sub s s'
  pubNew : ∀ x ∈ s'.publicNames, x ∈ s.publicNames ∨ x ∈ cs.map (·.name)
  clsPub : ∀ c ∈ cs, c.name ∈ s'.publicNames
  enumsKind : ∀ x ∈ s'.usedEnums, x ∈ s.usedEnums ∨ env.schema.kindOf? x = some .enum
  scalarsCfg : ∀ x ∈ s'.usedScalars, x ∈ s.usedScalars ∨ (scalarCfg? env x).isSome = true
  uses : ClassesOK env s' cs

theorem FieldsOK.mono {env : Env} {s s' : St} (h : Sub s s') {fs : List FieldDecl} (hf : FieldsOK env s fs) : FieldsOK env s' fs :=
  fun f hfm u hu => (hf f hfm u hu).mono h.enums h.scalars

theorem ClassesOK.mono {env : Env} {s s' : St} (h : Sub s s') {cs : List ClassDecl} (hc : ClassesOK env s cs) : ClassesOK env s' cs :=
  fun c hcm => (hc c hcm).mono h

theorem Out.nil (env : Env) (s : St) : Out env s s [] :=
  ⟨Sub.refl s, fun x h => Or.inl h, fun c h => (by cases h), fun x h => Or.inl h, fun x h => Or.inl h, fun c h => (by cases h)⟩

theorem Out.append {env : Env} {a b c : St} {cs1 cs2 : List ClassDecl} (h1 : Out env a b cs1) (h2 : Out env b c cs2) :
    Out env a c (cs1 ++ cs2) := by
  refine ⟨h1.sub.trans h2.sub, ?_, ?_, ?_, ?_, ?_⟩
  · intro x hx
    rcases h2.pubNew x hx with h | h
    · rcases h1.pubNew x h with h | h
      · exact Or.inl h
      · exact Or.inr (by simp only [List.map_append, List.mem_append]; exact Or.inl h)
    · exact Or.inr (by simp only [List.map_append, List.mem_append]; exact Or.inr h)
  · intro cl hc
    rcases List.mem_append.mp hc with hc | hc
    · exact h2.sub.pub _ (h1.clsPub cl hc)
    · exact h2.clsPub cl hc
  · intro x hx
    rcases h2.enumsKind x hx with h | h
    · exact h1.enumsKind x h
    · exact Or.inr h
  · intro x hx
    rcases h2.scalarsCfg x hx with h | h
    · exact h1.scalarsCfg x h
    · exact Or.inr h
  · intro cl hc
    rcases List.mem_append.mp hc with hc | hc
    · exact (h1.uses cl hc).mono h2.sub
    · exact h2.uses cl hc

theorem Out.same_left {env : Env} {a a' b : St} {cs : List ClassDecl} (hs : Same a a') (h : Out env a' b cs) : Out env a b cs := by
  obtain ⟨e1, e2, e3⟩ := hs
  refine ⟨⟨fun x hx => h.sub.pub x (e1 ▸ hx), fun x hx => h.sub.enums x (e2 ▸ hx), fun x hx => h.sub.scalars x (e3 ▸ hx)⟩, ?_, h.clsPub, ?_, ?_, h.uses⟩
  · intro x hx
    rcases h.pubNew x hx with h' | h'
    · exact Or.inl (e1 ▸ h')
    · exact Or.inr h'
  · intro x hx
    rcases h.enumsKind x hx with h' | h'
    · exact Or.inl (e2 ▸ h')
    · exact Or.inr h'
  · intro x hx
    rcases h.scalarsCfg x hx with h' | h'
    · exact Or.inl (e3 ▸ h')
    · exact Or.inr h'

theorem mem_ite_singleton {c : Bool} {u x : String} (h : u ∈ (if c = true then [x] else [])) : u = x := by
  cases c <;> simp_all

/-! ### one iteration of the field loop -/

/-- what one successful iteration of the field loop does to the accumulator and the state -/
theorem fieldBody_out (env : Env) (fuel : Nat)
    (ihQ : ∀ sid sel ctx eb st cs st', parseFieldSelectionSetTypes env fuel sid sel ctx eb st = .ok (cs, st') → Out env st st' cs)
    (cn tn : String) (tv : List String) (f : RField) (acc : FAcc) (s : St) (r : ForInStep FAcc) (s' : St)
    (h : fieldBody env fuel cn tn tv f acc s = .ok (r, s')) :
    ∃ (fd : FieldDecl) (more : List ClassDecl), r = .yield (acc.1 ++ [fd], acc.2 ++ more) ∧ Out env s s' more ∧ FieldsOK env s' [fd] := by
  unfold fieldBody at h
  obtain ⟨t, s1, h1, hA⟩ := (ok_bind _ _ _ _ _).mp h
  obtain ⟨_, e1⟩ := (ok_liftExcept _ _ _ _).mp h1
  subst e1
  obtain ⟨x, s2, h2, hB⟩ := (ok_bind _ _ _ _ _).mp hA
  obtain ⟨hx, e2⟩ := (ok_liftExcept _ _ _ _).mp h2
  subst e2
  obtain ⟨fb, s3, h3, hC⟩ := (ok_bind _ _ _ _ _).mp hB
  obtain ⟨_, hs3⟩ := mixinBases_spec _ _ _ _ h3
  obtain ⟨more, s4, h4, hD⟩ := (ok_bind _ _ _ _ _).mp hC
  obtain ⟨u, s5, h5, hE⟩ := (ok_bind _ _ _ _ _).mp hD
  have hs5 := (ok_modify _ _ _ _).mp h5
  obtain ⟨e3, e4⟩ := (ok_pure _ _ _ _).mp hE
  obtain ⟨a, dflt, ctx⟩ := x
  have fs := parseOperationField_spec env _ _ _ _ _ _ _ a dflt ctx hx
  have o4 : Out env s2 s4 more := Out.same_left (hs3 ▸ same_addImports s2 _) (ihQ _ _ _ _ _ _ _ h4)
  -- the final modify
  have sub45 : Sub s4 s5 := by
    rw [hs5]
    exact ⟨fun _ h => h, fun x h => List.mem_append_left _ h, fun x h => List.mem_append_left _ h⟩
  subst e4
  refine ⟨_, more, e3.symm, ?_, ?_⟩
  · refine ⟨o4.sub.trans sub45, ?_, fun c hc => sub45.pub _ (o4.clsPub c hc), ?_, ?_, o4.uses.mono sub45⟩
    · intro y hy
      rw [hs5] at hy
      exact o4.pubNew y hy
    · intro y hy
      rw [hs5] at hy
      simp only [List.mem_append] at hy
      rcases hy with hy | hy
      · exact o4.enumsKind y hy
      · exact Or.inr (fs.enumsKind y hy)
    · intro y hy
      rw [hs5] at hy
      simp only [List.mem_append] at hy
      rcases hy with hy | hy
      · exact o4.scalarsCfg y hy
      · exact Or.inr (fs.scalarsCfg y hy)
  · intro fd hfd u hu
    rw [List.mem_singleton] at hfd
    subst hfd
    simp only [fieldUses, List.mem_append] at hu
    rcases hu with hu | hu
    · refine (fs.uses u hu).mono ?_ ?_
      · intro y hy; rw [hs5]; exact List.mem_append_right _ hy
      · intro y hy; rw [hs5]; exact List.mem_append_right _ hy
    · have : u = "Field" := mem_ite_singleton hu
      subst this
      exact Or.inl (by decide)

/-- **the invariants of the class-producing recursion**, any fuel, any state -/
theorem parse_out (env : Env) : ∀ fuel : Nat,
    (∀ cn tn sid sel a eb tv st cs st', parseTypeDefinition env fuel cn tn sid sel a eb tv st = .ok (cs, st') → Out env st st' cs) ∧
    (∀ sid sel ctx eb st cs st', parseFieldSelectionSetTypes env fuel sid sel ctx eb st = .ok (cs, st') → Out env st st' cs)
  | 0 => by
    constructor
    · intro cn tn sid sel a eb tv st cs st' h
      rw [parseTypeDefinition_zero] at h
      exact ((ok_err _ _ _).mp h).elim
    · intro sid sel ctx eb st cs st' h
      rw [parseFieldSelectionSetTypes_zero] at h
      exact ((ok_err _ _ _).mp h).elim
  | fuel + 1 => by
    obtain ⟨ihP, ihQ⟩ := parse_out env fuel
    constructor
    · intro cn tn sid sel a eb tv st cs st' h
      cases hseen : st.publicNames.contains cn with
      | true =>
        obtain ⟨rfl, rfl⟩ := parseTypeDefinition_seen _ _ _ _ _ _ _ _ _ _ _ _ h hseen
        exact Out.nil env _
      | false =>
        obtain ⟨x, st1, resolved, acc, fuel', hfu, hres, hloop, hcs, _⟩ := parseTypeDefinition_unfold _ _ _ _ _ _ _ _ _ _ _ _ h hseen
        have hfu' : fuel' = fuel := by omega
        subst hfu'
        have sp := resolve_spec env _ _ _ _ _ _ hres
        -- the state the loop starts in has the three lists of `st` with `cn` appended to the public names
        let sB := afterTypename a sid (if st1.marks.contains sid then typenameRField :: x.1 else x.1) st1
        have hsame : Same { st with publicNames := st.publicNames ++ [cn] } sB :=
          (Same.of_frame sp.frame).trans (same_afterTypename _ _ _ _)
        have inv := forIn_ok_inv (fun (b : FAcc) (s : St) => Out env sB s b.2 ∧ FieldsOK env s b.1)
          (fieldBody env fuel' cn tn tv) resolved ([], []) sB acc st'
          (by
            intro f _ b s r s' ⟨ho, hf⟩ hr
            obtain ⟨fd, more, rfl, o, fo⟩ := fieldBody_out env fuel' ihQ cn tn tv f b s r s' hr
            refine ⟨ho.append o, ?_⟩
            intro g hg
            rcases List.mem_append.mp hg with hg | hg
            · exact (hf.mono o.sub) g hg
            · exact fo g hg)
          ⟨Out.nil env sB, fun f hf => (by cases hf)⟩ hloop
        obtain ⟨o, fo⟩ := inv
        have o' := Out.same_left hsame o
        rw [hcs]
        refine ⟨⟨fun y hy => o'.sub.pub y (List.mem_append_left _ hy), o'.sub.enums, o'.sub.scalars⟩, ?_, ?_, o'.enumsKind, o'.scalarsCfg, ?_⟩
        · intro y hy
          rcases o'.pubNew y hy with h' | h'
          · simp only [List.mem_append, List.mem_singleton] at h'
            rcases h' with h' | rfl
            · exact Or.inl h'
            · exact Or.inr (by simp)
          · exact Or.inr (by simp only [List.map_cons, List.mem_cons]; exact Or.inr h')
        · intro c hc
          rcases List.mem_cons.mp hc with rfl | hc
          · exact o'.sub.pub _ (by simp)
          · exact o'.clsPub c hc
        · intro c hc
          rcases List.mem_cons.mp hc with rfl | hc
          · exact fo
          · exact o'.uses c hc
    · intro sid sel ctx eb st cs st' h
      rw [parseFieldSelectionSetTypes_succ] at h
      by_cases hemp : sel.isEmpty = true
      · rw [if_pos hemp] at h
        obtain ⟨e1, e2⟩ := (ok_pure _ _ _ _).mp h
        subst e1 e2
        exact Out.nil env st
      · rw [if_neg hemp] at h
        obtain ⟨acc, s1, h1, h2⟩ := (ok_bind _ _ _ _ _).mp h
        obtain ⟨e1, e2⟩ := (ok_pure _ _ _ _).mp h2
        subst e1 e2
        exact forIn_ok_inv (fun (b : List ClassDecl) (s : St) => Out env st s b)
          (relatedBody env fuel sid sel ctx eb) ctx.related [] st acc s1
          (by
            intro rc _ b s r s' ho hr
            unfold relatedBody at hr
            obtain ⟨cs1, s2, h3, h4⟩ := (ok_bind _ _ _ _ _).mp hr
            obtain ⟨e3, e4⟩ := (ok_pure _ _ _ _).mp h4
            subst e3 e4
            exact ho.append (ihP _ _ _ _ _ _ _ _ _ _ h3))
          (Out.nil env st) h1

/-! ### one generator -/

/-- what `ResultTypesGenerator` guarantees about the module it returns -/
structure GenSpec (env : Env) (out : ModuleOut) : Prop where
  /-- the public names are exactly the names of the classes -/
  pubClasses : ∀ x, x ∈ out.st.publicNames ↔ x ∈ out.classes.map (·.name)
  enumsKind : ∀ x ∈ out.st.usedEnums, env.schema.kindOf? x = some .enum
  scalarsCfg : ∀ x ∈ out.st.usedScalars, (scalarCfg? env x).isSome = true
  uses : ClassesOK env out.st out.classes

theorem generate_out (env : Env) (fuel : Nat) (d : Definition) (marks : List Nat) (o : ModuleOut)
    (h : generate env fuel d marks = .ok o) : GenSpec env o := by
  obtain ⟨cs, st, hr, hc, hs⟩ := generate_ok env fuel d marks o h
  obtain ⟨ocs, orb, ost⟩ := o
  simp only at hc hs
  subst hc hs
  have key : ∀ cn tn sid sel ps, parseTypeDefinition env fuel cn tn sid sel false (ps.map (·.2)) []
      (addImports { marks := marks } ps) = .ok (ocs, ost) → GenSpec env ⟨ocs, orb, ost⟩ := by
    intro cn tn sid sel ps hp
    have ot := (parse_out env fuel).1 _ _ _ _ _ _ _ _ _ _ hp
    refine ⟨?_, ?_, ?_, ot.uses⟩
    · intro x
      constructor
      · intro hx
        rcases ot.pubNew x hx with h' | h'
        · cases h'
        · exact h'
      · intro hx
        obtain ⟨c, hcm, rfl⟩ := List.mem_map.mp hx
        exact ot.clsPub c hcm
    · intro x hx
      rcases ot.enumsKind x hx with h' | h'
      · cases h'
      · exact h'
    · intro x hx
      rcases ot.scalarsCfg x hx with h' | h'
      · cases h'
      · exact h'
  cases d with
  | op op =>
    obtain ⟨n, tn, _, _, hp⟩ := genRun_op env fuel op _ ocs ost hr
    exact key _ _ _ _ _ hp
  | frag f =>
    cases hu : unpackFragment env f none with
    | true =>
      obtain ⟨rfl, rfl⟩ := genRun_frag_unpacked env fuel f _ ocs ost hr hu
      exact ⟨fun x => by simp, fun x hx => (by cases hx), fun x hx => (by cases hx), fun c hc => (by cases hc)⟩
    | false => exact key _ _ _ _ _ (genRun_frag env fuel f _ ocs ost hr hu)

/-- the root class of an operation's generator is public -/
theorem generate_op_root (env : Env) (fuel : Nat) (op : Operation) (marks : List Nat) (o : ModuleOut) (n : String)
    (hn : op.name = some n) (h : generate env fuel (.op op) marks = .ok o) : pascal n ∈ o.st.publicNames := by
  obtain ⟨cs, st, hr, hc, hs⟩ := generate_ok env fuel _ marks o h
  obtain ⟨n', tn, hn', _, hp⟩ := genRun_op env fuel op _ cs st hr
  rw [hn] at hn'
  injection hn' with hn'
  subst hn'
  obtain ⟨x, st1, fields, rest, _, hcs, _, _⟩ := root_class env fuel _ _ _ _ _ marks cs st hp
  have g := generate_out env fuel _ marks o h
  rw [g.pubClasses, hc, hcs]
  simp

end Ariadne.ResultTypes
