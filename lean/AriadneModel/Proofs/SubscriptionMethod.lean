/-
  Helper lemmas for the generated-subscription-method part of C13 (Model/SubscriptionMethod.lean):
  name lookup / rebinding, and what the emitted body hands to `execute_ws`.
-/
import AriadneModel.Model.SubscriptionMethod

set_option linter.unusedSimpArgs false
set_option linter.unusedVariables false

namespace Ariadne.SubMethodProofs
open Ariadne Ariadne.WsClient Ariadne.SubMethod

theorem lookup_assign_same (n : String) (v : Val) (env : Env) : lookup n (assign n v env) = some v := by
  induction env with
  | nil => simp [assign, lookup]
  | cons p env ih =>
    obtain ⟨k, w⟩ := p
    by_cases hk : k = n <;> simp [assign, lookup, hk, ih]

theorem lookup_assign_ne (n m : String) (v : Val) (env : Env) (h : n ≠ m) :
    lookup m (assign n v env) = lookup m env := by
  induction env with
  | nil => simp [assign, lookup, h]
  | cons p env ih =>
    obtain ⟨k, w⟩ := p
    by_cases hk : k = n
    · subst hk; simp [assign, lookup, h]
    · by_cases hm : k = m
      · subst hm; simp [assign, lookup, hk]
      · simp [assign, lookup, hk, hm, ih]

theorem lookup_append_left (n : String) (a b : Env) (v : Val) (h : lookup n a = some v) :
    lookup n (a ++ b) = some v := by
  induction a with
  | nil => simp [lookup] at h
  | cons p a ih =>
    obtain ⟨k, w⟩ := p
    by_cases hk : k = n
    · simpa [lookup, hk] using h
    · simp only [lookup, hk, if_false, List.cons_append] at h ⊢
      exact ih h

theorem lookup_append_right (n : String) (a b : Env) (h : lookup n a = none) :
    lookup n (a ++ b) = lookup n b := by
  induction a with
  | nil => rfl
  | cons p a ih =>
    obtain ⟨k, w⟩ := p
    by_cases hk : k = n
    · simp [lookup, hk] at h
    · simp only [lookup, hk, if_false, List.cons_append] at h ⊢
      exact ih h

theorem lookup_params (args : List (String × PV)) (params : List String) (p : String) (h : p ∈ params) :
    lookup p (params.map fun q => (q, Val.arg (argValue args q))) = some (.arg (argValue args p)) := by
  induction params with
  | nil => simp at h
  | cons q params ih =>
    by_cases hq : q = p
    · subst hq; simp [lookup]
    · have : p ∈ params := by
        rcases List.mem_cons.mp h with h1 | h1
        · exact absurd h1.symm hq
        · exact h1
      simp [lookup, hq, ih this]

theorem lookup_params_none (args : List (String × PV)) (params : List String) (p : String) (h : p ∉ params) :
    lookup p (params.map fun q => (q, Val.arg (argValue args q))) = none := by
  induction params with
  | nil => rfl
  | cons q params ih =>
    simp only [List.mem_cons, not_or] at h
    simp [lookup, Ne.symm h.1, ih h.2]

theorem lookup_initEnv_param (params : List String) (args : List (String × PV)) (p : String)
    (h : p ∈ params) (hs : p ≠ "self") :
    lookup p (initEnv params args) = some (.arg (argValue args p)) := by
  simp only [initEnv, ClientMethod.selfName, List.cons_append, lookup, Ne.symm hs, if_false]
  exact lookup_append_left _ _ _ _ (lookup_params args params p h)

theorem lookup_initEnv_kwargs (params : List String) (args : List (String × PV)) (h : "kwargs" ∉ params) :
    lookup "kwargs" (initEnv params args) = some .kwargs := by
  have hne : ¬ ("self" = "kwargs") := by decide
  simp only [initEnv, ClientMethod.selfName, List.cons_append, lookup, hne, if_false]
  rw [lookup_append_right _ _ _ (lookup_params_none args params "kwargs" h)]
  simp [lookup]

/-- `get_variable_names` yields `v` or `_v` -/
theorem rename_cases (argNames : List String) (v : String) :
    ClientMethod.rename argNames v = v ∨ ClientMethod.rename argNames v = "_" ++ v := by
  unfold ClientMethod.rename
  split
  · exact Or.inr rfl
  · exact Or.inl rfl

theorem locals_distinct (argNames : List String) :
    (ClientMethod.getVariableNames argNames).query ≠ (ClientMethod.getVariableNames argNames).variables ∧
    (ClientMethod.getVariableNames argNames).query ≠ "kwargs" ∧
    (ClientMethod.getVariableNames argNames).variables ≠ "kwargs" := by
  simp only [ClientMethod.getVariableNames]
  rcases rename_cases argNames "query" with h | h <;> rcases rename_cases argNames "variables" with h' | h' <;>
    rw [h, h'] <;> decide

theorem evalDict_params (opText : String) (env : Env) (f : String → PV) (dict : List (String × String))
    (h : ∀ kv ∈ dict, lookup kv.2 env = some (.arg (f kv.2))) :
    evalDict opText env dict = .ok (dict.map fun kv => (kv.1, f kv.2)) := by
  induction dict with
  | nil => rfl
  | cons kv dict ih =>
    obtain ⟨org, py⟩ := kv
    have h1 := h (org, py) (by simp)
    have h2 := ih (fun kv hkv => h kv (by simp [hkv]))
    simp only [evalDict, h1, h2, List.map_cons]

/-- What the emitted body hands to `execute_ws`, for every parameter list: the operation document,
    the dict of the caller's values under the GraphQL names, and the caller's `**kwargs` -
    whatever the parameters are called (the shadowing renames included), provided the renamed
    locals are not themselves parameters. -/
theorem emitted_call (params : List String) (dict : List (String × String)) (opName opText : String)
    (args : List (String × PV)) (hself : "self" ∉ params) (hkw : "kwargs" ∉ params)
    (hdict : ∀ kv ∈ dict, kv.2 ∈ params)
    (hq : (emit params dict opName).queryTarget ∉ params)
    (hv : (emit params dict opName).varsTarget ∉ params) :
    call (emit params dict opName) opText (initEnv params args) =
      .ok (.doc, .vars (dict.map fun kv => (kv.1, argValue args kv.2)), .kwargs) := by
  obtain ⟨d1, d2, d3⟩ := locals_distinct (ClientMethod.selfName :: params)
  simp only [emit] at hq hv
  simp only [call, emit]
  have hd : evalDict opText
      (assign (ClientMethod.getVariableNames (ClientMethod.selfName :: params)).query .doc (initEnv params args)) dict
      = .ok (dict.map fun kv => (kv.1, argValue args kv.2)) := by
    apply evalDict_params
    intro kv hkv
    have hp := hdict kv hkv
    have hne : (ClientMethod.getVariableNames (ClientMethod.selfName :: params)).query ≠ kv.2 := by
      intro e; exact hq (e ▸ hp)
    rw [lookup_assign_ne _ _ _ _ hne]
    exact lookup_initEnv_param params args kv.2 hp (fun e => hself (e ▸ hp))
  rw [hd]
  simp only
  rw [lookup_assign_ne _ _ _ _ (Ne.symm d1), lookup_assign_same, lookup_assign_same,
    lookup_assign_ne _ _ _ _ d3, lookup_assign_ne _ _ _ _ d2, lookup_initEnv_kwargs params args hkw]

end Ariadne.SubMethodProofs
