/-
  C06, `default_readback` for the default literals WITHOUT object literals (scalars, enums, null,
  lists and nested lists of those): the emitted Python expression evaluates, and its value equals the
  coerced schema default (`value_from_ast`) — by structural induction over the literal.
  Object literals (validated through `globals()[T].model_validate`) are outside this theorem; they are
  covered by the `readback` correspondence op and by the oracle.
-/
import AriadneModel.Model.InputRel
import AriadneModel.Model.InputWf

set_option linter.unusedSimpArgs false
set_option linter.unusedVariables false

namespace Ariadne.C06Readback
open Ariadne
open Ariadne.InputGen (TypeRef Lit PyExpr constValue constValues)
open Ariadne.CoerceInput Ariadne.PydInput

/-! ### `E.A` -/

theorem takeWhile_append_stop {α : Type} (p : α → Bool) (a : α) (r : List α) (ha : p a = false) :
    ∀ (l : List α), (∀ c ∈ l, p c = true) → (l ++ a :: r).takeWhile p = l := by
  intro l
  induction l with
  | nil => intro _; simp [List.takeWhile, ha]
  | cons c l ih =>
    intro h
    have hc := h c (List.mem_cons_self ..)
    simp only [List.cons_append, List.takeWhile, hc]
    rw [ih (fun c' hc' => h c' (List.mem_cons_of_mem _ hc'))]

theorem dropWhile_append_stop {α : Type} (p : α → Bool) (a : α) (r : List α) (ha : p a = false) :
    ∀ (l : List α), (∀ c ∈ l, p c = true) → (l ++ a :: r).dropWhile p = a :: r := by
  intro l
  induction l with
  | nil => intro _; simp [List.dropWhile, ha]
  | cons c l ih =>
    intro h
    have hc := h c (List.mem_cons_self ..)
    simp only [List.cons_append, List.dropWhile, hc]
    exact ih (fun c' hc' => h c' (List.mem_cons_of_mem _ hc'))

/-- the emitted name `<field_type>.<VALUE>` splits at its last dot when the value has no dot -/
theorem splitName_concat (ft x : String) (hx : ∀ c ∈ x.toList, c ≠ '.') :
    splitName (ft ++ "." ++ x) = (ft, x) := by
  unfold splitName
  have hl : (ft ++ "." ++ x).toList = ft.toList ++ '.' :: x.toList := by
    simp [String.toList_append]
  have hr : (ft ++ "." ++ x).toList.reverse = x.toList.reverse ++ '.' :: ft.toList.reverse := by
    rw [hl]; simp
  have hp : ∀ c ∈ x.toList.reverse, (c != '.') = true := by
    intro c hc
    have := hx c (List.mem_reverse.mp hc)
    simpa using this
  have h1 := takeWhile_append_stop (fun c => c != '.') '.' ft.toList.reverse (by simp) x.toList.reverse hp
  have h2 := dropWhile_append_stop (fun c => c != '.') '.' ft.toList.reverse (by simp) x.toList.reverse hp
  simp only [hr, h1, h2, List.reverse_reverse, List.drop_succ_cons, List.drop_zero, String.ofList_toList]

/-- what the imported module knows about the enum `n`: a member named like each non-keyword value -/
def EnumOk (env : Env) (n : String) (vals : List String) : Prop :=
  ∃ ms, env.enum? n = some ms ∧ ∀ x ∈ vals, Tables.kwlist.contains x = false → ms.find? (fun m => m.1 == x) = some (x, x)

theorem evalName_enum (env : Env) (n x : String) (vals : List String) (he : EnumOk env n vals) (hx : x ∈ vals)
    (hkw : Tables.kwlist.contains x = false) (hdot : ∀ c ∈ x.toList, c ≠ '.') (hn : n ≠ "") :
    evalName env (n ++ "." ++ x) = .ok (.enum n x x) := by
  obtain ⟨ms, hms, hfind⟩ := he
  have hs := splitName_concat n x hdot
  have hne : (n == "") = false := by simpa using hn
  simp only [evalName, nameSyntaxError, hs, hne, hkw, Bool.or_self, Bool.false_eq_true, if_false, hms, hfind x hx hkw]

/-! ### the proved literal shapes: `plainLit` is defined in Model/InputWf.lean -/

theorem nestE_zero (r : Except CErr J) : nestE 0 r = r := by
  cases r <;> rfl

theorem numEq_refl (m : Int) (e : Nat) : numEq m e m e = true := by
  simp [numEq]

/-- a scalar literal (not enum) at a named type: the Python constant is the coerced value -/
theorem litLeaf_int (s : CSchema) (n : String) (v : Int) (d : J) (hid : n ≠ "ID") (h : litLeaf s n (.int v) = .ok d) :
    d = .num v 0 := by
  unfold litLeaf at h
  cases hb : litBuiltin n (.int v) with
  | some r =>
    simp only [hb] at h
    subst h
    unfold litBuiltin at hb
    by_cases h1 : n = "Int"
    · subst h1
      by_cases hi : inInt32 v = true <;> simp [hi] at hb
      exact hb.symm
    by_cases h2 : n = "Float"
    · subst h2; simp at hb; exact hb.symm
    by_cases h3 : n = "String"
    · subst h3; simp at hb
    by_cases h4 : n = "Boolean"
    · subst h4; simp at hb
    simp [h1, h2, h3, h4, hid] at hb
  | none =>
    simp only [hb] at h
    cases hf : s.find? n with
    | none => simp [hf] at h
    | some ct =>
      cases ct with
      | scalar m => simp [hf, untyped] at h; exact h.symm
      | enum m vals => simp [hf] at h
      | input m fs => simp [hf] at h

theorem litLeaf_float (s : CSchema) (n x : String) (d : J) (h : litLeaf s n (.float x) = .ok d) :
    ∃ m e, parseFloat x = some (m, e) ∧ d = .num m e := by
  unfold litLeaf at h
  cases hb : litBuiltin n (.float x) with
  | some r =>
    simp only [hb] at h
    subst h
    unfold litBuiltin at hb
    by_cases h1 : n = "Int"
    · subst h1; simp at hb
    by_cases h2 : n = "Float"
    · subst h2
      cases hp : parseFloat x with
      | none => simp [hp] at hb
      | some p => obtain ⟨m, e⟩ := p; simp [hp] at hb; exact ⟨m, e, rfl, hb.symm⟩
    by_cases h3 : n = "String"
    · subst h3; simp at hb
    by_cases h4 : n = "Boolean"
    · subst h4; simp at hb
    by_cases h5 : n = "ID"
    · subst h5; simp at hb
    simp [h1, h2, h3, h4, h5] at hb
  | none =>
    simp only [hb] at h
    cases hf : s.find? n with
    | none => simp [hf] at h
    | some ct =>
      cases ct with
      | scalar m =>
        simp only [hf, untyped] at h
        cases hp : parseFloat x with
        | none => simp [hp] at h
        | some p => obtain ⟨m', e⟩ := p; simp [hp] at h; exact ⟨m', e, rfl, h.symm⟩
      | enum m vals => simp [hf] at h
      | input m fs => simp [hf] at h

theorem litLeaf_str (s : CSchema) (n x : String) (d : J) (h : litLeaf s n (.str x) = .ok d) : d = .str x := by
  unfold litLeaf at h
  cases hb : litBuiltin n (.str x) with
  | some r =>
    simp only [hb] at h
    subst h
    unfold litBuiltin at hb
    by_cases h1 : n = "Int"
    · subst h1; simp at hb
    by_cases h2 : n = "Float"
    · subst h2; simp at hb
    by_cases h3 : n = "String"
    · subst h3; simp at hb; exact hb.symm
    by_cases h4 : n = "Boolean"
    · subst h4; simp at hb
    by_cases h5 : n = "ID"
    · subst h5; simp at hb; exact hb.symm
    simp [h1, h2, h3, h4, h5] at hb
  | none =>
    simp only [hb] at h
    cases hf : s.find? n with
    | none => simp [hf] at h
    | some ct =>
      cases ct with
      | scalar m => simp [hf, untyped] at h; exact h.symm
      | enum m vals => simp [hf] at h
      | input m fs => simp [hf] at h

theorem litLeaf_bool (s : CSchema) (n : String) (b : Bool) (d : J) (h : litLeaf s n (.bool b) = .ok d) : d = .bool b := by
  unfold litLeaf at h
  cases hb : litBuiltin n (.bool b) with
  | some r =>
    simp only [hb] at h
    subst h
    unfold litBuiltin at hb
    by_cases h1 : n = "Int"
    · subst h1; simp at hb
    by_cases h2 : n = "Float"
    · subst h2; simp at hb
    by_cases h3 : n = "String"
    · subst h3; simp at hb
    by_cases h4 : n = "Boolean"
    · subst h4; simp at hb; exact hb.symm
    by_cases h5 : n = "ID"
    · subst h5; simp at hb
    simp [h1, h2, h3, h4, h5] at hb
  | none =>
    simp only [hb] at h
    cases hf : s.find? n with
    | none => simp [hf] at h
    | some ct =>
      cases ct with
      | scalar m => simp [hf, untyped] at h; exact h.symm
      | enum m vals => simp [hf] at h
      | input m fs => simp [hf] at h

section
variable (s : CSchema) (env : Env) (ft : String)
variable (henum : ∀ vals, s.find? ft = some (.enum ft vals) → EnumOk env ft vals)
include henum

mutual
  /-- should (`default_readback`): the emitted expression of a plain default literal evaluates to a
      value equal to the coerced schema default -/
  theorem readback : (lit : Lit) → ∀ (t : TypeRef) (d : J) (nl no : Bool), plainLit s ft t lit = true →
      coerceLit s t lit = .ok d →
      ∃ pv, evalExpr env (constValue ft lit true no) = .ok pv ∧ pvMatches env pv d = true
    | .null => by
      intro t d nl no _ h
      by_cases hn : t.isNonNull = true
      · simp [coerceLit, hn] at h
      · simp only [coerceLit, hn, Bool.false_eq_true, if_false, Except.ok.injEq] at h
        subst h
        exact ⟨.none, by simp [constValue, evalExpr], by simp [pvMatches]⟩
    | .int v => by
      intro t d nl no hp h
      simp only [plainLit, Bool.and_eq_true, beq_iff_eq, bne_iff_ne, ne_eq] at hp
      simp only [coerceLit, hp.1, nestE_zero] at h
      have := litLeaf_int s t.base v d hp.2 h
      subst this
      exact ⟨.num v 0, by simp [constValue, evalExpr], by simp [pvMatches, numEq]⟩
    | .float x => by
      intro t d nl no hp h
      simp only [plainLit, beq_iff_eq] at hp
      simp only [coerceLit, hp, nestE_zero] at h
      obtain ⟨m, e, hpf, rfl⟩ := litLeaf_float s t.base x d h
      exact ⟨.num m e, by simp [constValue, evalExpr, hpf], by simp [pvMatches, numEq]⟩
    | .str x => by
      intro t d nl no hp h
      simp only [plainLit, beq_iff_eq] at hp
      simp only [coerceLit, hp, nestE_zero] at h
      have := litLeaf_str s t.base x d h
      subst this
      exact ⟨.str x, by simp [constValue, evalExpr], by simp [pvMatches]⟩
    | .bool b => by
      intro t d nl no hp h
      simp only [plainLit, beq_iff_eq] at hp
      simp only [coerceLit, hp, nestE_zero] at h
      have := litLeaf_bool s t.base b d h
      subst this
      exact ⟨.bool b, by simp [constValue, evalExpr], by simp [pvMatches]⟩
    | .enum x => by
      intro t d nl no hp h
      simp only [plainLit, Bool.and_eq_true, beq_iff_eq, bne_iff_ne, ne_eq, Bool.not_eq_true', List.all_eq_true,
        Option.isNone_iff_eq_none] at hp
      obtain ⟨⟨⟨⟨⟨⟨hd, hb⟩, hne⟩, hkw⟩, hdot⟩, hfe⟩, hnb⟩ := hp
      simp only [coerceLit, hd, nestE_zero, hb] at h
      have hnb' : litBuiltin ft (.enum x) = none := by
        unfold coerceBuiltin at hnb
        unfold litBuiltin
        by_cases h1 : ft = "Int"
        · subst h1; simp at hnb
        by_cases h2 : ft = "Float"
        · subst h2; simp at hnb
        by_cases h3 : ft = "String"
        · subst h3; simp at hnb
        by_cases h4 : ft = "Boolean"
        · subst h4; simp at hnb
        by_cases h5 : ft = "ID"
        · subst h5; simp at hnb
        simp [h1, h2, h3, h4, h5]
      cases hf : s.find? ft with
      | none => simp [hf] at hfe
      | some ct =>
        cases ct with
        | scalar m => simp [hf] at hfe
        | input m fs => simp [hf] at hfe
        | enum m vals =>
          have hm : m = ft := by
            have := List.find?_some (show s.types.find? (fun c => c.name == ft) = some (.enum m vals) from hf)
            simpa [CType.name] using this
          subst hm
          simp only [litLeaf, hnb', hf] at h
          by_cases hin : vals.contains x = true
          · have hin' : x ∈ vals := by simpa using hin
            simp [hin, hin'] at h
            subst h
            have hev := evalName_enum env m x vals (henum vals hf) hin' hkw
              (fun c hc => by simpa using hdot c hc) hne
            exact ⟨.enum m x x, by simp [constValue, evalExpr, hev], by simp [pvMatches]⟩
          · have hin' : ¬ x ∈ vals := by simpa using hin
            simp [hin, hin'] at h
    | .list xs => by
      intro t d nl no hp h
      simp only [plainLit] at hp
      cases hu : CoerceInput.unNN t with
      | named n => rw [hu] at hp; simp at hp
      | nonNull t' => rw [hu] at hp; simp at hp
      | list it =>
        simp only [hu] at hp
        simp only [coerceLit, hu] at h
        cases hl : coerceLits s it xs with
        | error e => simp [hl] at h
        | ok ys =>
          simp only [hl, Except.ok.injEq] at h
          subst h
          obtain ⟨pvs, hev, hm⟩ := readbackList xs it ys no hp hl
          exact ⟨.list pvs, by simp [constValue, evalExpr, hev], by simp [pvMatches, hm]⟩
    | .obj kvs => by
      intro t d nl no hp _
      simp [plainLit] at hp
  theorem readbackList : (xs : List Lit) → ∀ (t : TypeRef) (ys : List J) (no : Bool), plainLits s ft t xs = true →
      coerceLits s t xs = .ok ys →
      ∃ pvs, evalList env (constValues ft xs no) = .ok pvs ∧ listMatches env pvs ys = true
    | [] => by
      intro t ys no _ h
      simp only [coerceLits, Except.ok.injEq] at h
      subst h
      exact ⟨[], by simp [constValues, evalList], by simp [listMatches]⟩
    | x :: xs => by
      intro t ys no hp h
      simp only [plainLits, Bool.and_eq_true] at hp
      simp only [coerceLits] at h
      cases hx : coerceLit s t x with
      | error e => simp [hx] at h
      | ok y =>
        simp only [hx] at h
        cases hxs : coerceLits s t xs with
        | error e => simp [hxs] at h
        | ok ys' =>
          simp only [hxs, Except.ok.injEq] at h
          subst h
          obtain ⟨pv, hev, hm⟩ := readback x t y true no hp.1 hx
          obtain ⟨pvs, hevs, hms⟩ := readbackList xs t ys' no hp.2 hxs
          exact ⟨pv :: pvs, by simp [constValues, evalList, hev, hevs], by simp [listMatches, hm, hms]⟩
end

/-- … and at the top of a field: a list default is a `default_factory`, everything else a plain default -/
theorem default_readback (lit : Lit) (t : TypeRef) (d : J) (hp : plainLit s ft t lit = true)
    (h : coerceLit s t lit = .ok d) :
    ∃ pv, evalDefault env (constValue ft lit false false) = .ok pv ∧ pvMatches env pv d = true := by
  cases lit with
  | list xs =>
    obtain ⟨pv, hev, hm⟩ := readback s env ft henum (.list xs) t d true false hp h
    simp only [constValue, Bool.true_eq_false, if_false, if_true] at hev ⊢
    exact ⟨pv, by simpa [evalDefault] using hev, hm⟩
  | obj kvs => simp [plainLit] at hp
  | null => exact readback s env ft henum .null t d true false hp h
  | int v => exact readback s env ft henum (.int v) t d true false hp h
  | float x => exact readback s env ft henum (.float x) t d true false hp h
  | str x => exact readback s env ft henum (.str x) t d true false hp h
  | bool b => exact readback s env ft henum (.bool b) t d true false hp h
  | enum x => exact readback s env ft henum (.enum x) t d true false hp h

end

end Ariadne.C06Readback
