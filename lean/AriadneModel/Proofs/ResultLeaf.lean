/-
  Lemmas about result annotations of *leaf-based* field types (scalars, enums and their list /
  non-null wrappers): what `parse_operation_field_type` emits, which payloads pydantic accepts for
  it, and that dumping gives the payload back.  Used by Properties/C01.lean and C05.lean.
-/
import AriadneModel.Model.ResultTypes
import AriadneModel.Spec.Pyd
import AriadneModel.Spec.Exec

set_option linter.unusedSimpArgs false
set_option linter.unusedVariables false

namespace Ariadne.ResultLeaf
open Ariadne Ariadne.Gql Ariadne.ResultTypes Ariadne.Util

/-! ### The emitted annotation as a structural function of the type -/

/-- base annotation of a leaf type name -/
def leafBase (genv : ResultTypes.Env) (n : String) : Ann :=
  match genv.schema.kindOf? n with
  | some .enum => .name n
  | _ =>
    match lookupStr n Tables.simpleTypeMap with
    | some py => .name py
    | none => .name "Any"

/-- the annotation of a leaf-based type -/
def leafAnn (genv : ResultTypes.Env) : Bool → TypeRef → Ann
  | _, .nonNull t => leafAnn genv false t
  | nullable, .list t => optionalIf nullable (.list (leafAnn genv true t))
  | nullable, .named n => optionalIf nullable (leafBase genv n)

/-- a leaf name: a scalar that is not configured as custom scalar, or an enum -/
def LeafName (genv : ResultTypes.Env) (n : String) : Prop :=
  (genv.schema.kindOf? n = none ∨ genv.schema.kindOf? n = some .scalar ∨ genv.schema.kindOf? n = some .enum)
  ∧ scalarCfg? genv n = none

theorem parseType_leaf (genv : ResultTypes.Env) (fuel : Nat) (sel : List Selection) (T : TypeRef)
    (hl : LeafName genv T.base) :
    ∀ (nullable : Bool) (cn : String) (add : Bool) (ctx : Ctx),
      ∃ ctx', parseType genv fuel sel T nullable cn add ctx = .ok (leafAnn genv nullable T, ctx') := by
  induction T with
  | named n =>
    intro nullable cn add ctx
    simp only [TypeRef.base] at hl
    obtain ⟨hk, hs⟩ := hl
    unfold parseType leafAnn leafBase
    rcases hk with hk | hk | hk
    · simp only [hk, hs]
      cases hlk : lookupStr n Tables.simpleTypeMap <;> simp [pure, Except.pure]
    · simp only [hk, hs]
      cases hlk : lookupStr n Tables.simpleTypeMap <;> simp [pure, Except.pure]
    · simp only [hk]; simp [pure, Except.pure]
  | list t ih =>
    intro nullable cn add ctx
    simp only [TypeRef.base] at hl
    obtain ⟨ctx', h⟩ := ih hl true cn false ctx
    unfold parseType leafAnn
    simp [h, bind, Except.bind, pure, Except.pure]
  | nonNull t ih =>
    intro nullable cn add ctx
    simp only [TypeRef.base] at hl
    obtain ⟨ctx', h⟩ := ih hl false cn false ctx
    unfold parseType leafAnn
    exact ⟨ctx', h⟩

/-! ### Skeleton: Optional / List structure of an annotation vs the GraphQL type -/

inductive Skel where
  | base
  | opt (s : Skel)
  | list (s : Skel)
  deriving DecidableEq, Repr

def skelAnn : Ann → Skel
  | .optional a => .opt (skelAnn a)
  | .list a => .list (skelAnn a)
  | _ => .base

def optSkelIf (b : Bool) (s : Skel) : Skel := if b then .opt s else s

/-- image of a GraphQL type: Optional iff nullable, List iff list -/
def skelType : Bool → TypeRef → Skel
  | _, .nonNull t => skelType false t
  | nullable, .list t => optSkelIf nullable (.list (skelType true t))
  | nullable, .named _ => optSkelIf nullable .base

theorem skelAnn_optionalIf (b : Bool) (a : Ann) : skelAnn (optionalIf b a) = optSkelIf b (skelAnn a) := by
  cases b <;> simp [optionalIf, optSkelIf, skelAnn]

/-- For EVERY field type (leaf or composite, any kind): the annotation produced by
    `parse_operation_field_type` is `Optional[..]` exactly where the type is nullable and
    `List[..]` exactly where it is a list. -/
theorem parseType_skeleton (genv : ResultTypes.Env) (fuel : Nat) (sel : List Selection) (T : TypeRef) :
    ∀ (nullable : Bool) (cn : String) (add : Bool) (ctx : Ctx) (a : Ann) (ctx' : Ctx),
      parseType genv fuel sel T nullable cn add ctx = .ok (a, ctx') → skelAnn a = skelType nullable T := by
  induction T with
  | named n =>
    intro nullable cn add ctx a ctx' h
    unfold parseType at h
    simp only [skelType]
    split at h
    · -- interface
      simp only [bind, Except.bind] at h
      split at h; · simp at h
      split at h; · simp at h
      split at h
      · split at h
        · simp at h
        · simp only [pure, Except.pure, Except.ok.injEq, Prod.mk.injEq] at h
          rw [← h.1, skelAnn_optionalIf]; simp [skelAnn]
      · simp only [pure, Except.pure, Except.ok.injEq, Prod.mk.injEq] at h
        rw [← h.1, skelAnn_optionalIf]; simp [skelAnn]
    · simp only [pure, Except.pure, Except.ok.injEq, Prod.mk.injEq] at h
      rw [← h.1, skelAnn_optionalIf]; simp [skelAnn]
    · simp only [pure, Except.pure, Except.ok.injEq, Prod.mk.injEq] at h
      rw [← h.1, skelAnn_optionalIf]; simp [skelAnn]
    · simp only [pure, Except.pure, Except.ok.injEq, Prod.mk.injEq] at h
      rw [← h.1, skelAnn_optionalIf]; simp [skelAnn]
    · simp at h
    · split at h
      · simp only [pure, Except.pure, Except.ok.injEq, Prod.mk.injEq] at h
        rw [← h.1, skelAnn_optionalIf]; simp [skelAnn]
      · split at h
        · simp only [pure, Except.pure, Except.ok.injEq, Prod.mk.injEq] at h
          rw [← h.1, skelAnn_optionalIf]
          split <;> simp [skelAnn]
        · simp only [pure, Except.pure, Except.ok.injEq, Prod.mk.injEq] at h
          rw [← h.1, skelAnn_optionalIf]; simp [skelAnn]
  | list t ih =>
    intro nullable cn add ctx a ctx' h
    unfold parseType at h
    simp only [bind, Except.bind] at h
    split at h; · simp at h
    rename_i r hr
    obtain ⟨inner, ctx1⟩ := r
    simp only [pure, Except.pure, Except.ok.injEq, Prod.mk.injEq] at h
    rw [← h.1, skelAnn_optionalIf]
    simp only [skelAnn, skelType]
    rw [ih true cn false ctx inner ctx1 hr]
  | nonNull t ih =>
    intro nullable cn add ctx a ctx' h
    unfold parseType at h
    simp only [skelType]
    exact ih false cn false ctx a ctx' h


/-! ### Which payloads pydantic accepts for a leaf annotation -/

open Ariadne.Pyd Ariadne.Exec

def okB {ε α} : Except ε α → Bool
  | .ok _ => true
  | .error _ => false

theorem mapE_okB {α β ε} (f : α → Except ε β) (xs : List α) :
    okB (mapE f xs) = xs.all (fun x => okB (f x)) := by
  induction xs with
  | nil => simp [mapE, okB]
  | cons x xs ih =>
    simp only [mapE, List.all_cons]
    cases hx : f x with
    | error e => simp [okB]
    | ok y =>
      cases hxs : mapE f xs with
      | error e => rw [hxs] at ih; simp [okB] at ih ⊢; exact ih
      | ok ys => rw [hxs] at ih; simp [okB] at ih ⊢; exact ih

theorem mapE_dump {α ε} (f : α → Except ε PV) (g : PV → α) (xs : List α)
    (h : ∀ x ∈ xs, ∃ v, f x = .ok v ∧ g v = x) : ∃ vs, mapE f xs = .ok vs ∧ vs.map g = xs := by
  induction xs with
  | nil => exact ⟨[], rfl, rfl⟩
  | cons x xs ih =>
    obtain ⟨v, hv, hg⟩ := h x (by simp)
    obtain ⟨vs, hvs, hgs⟩ := ih (fun y hy => h y (by simp [hy]))
    exact ⟨v :: vs, by simp [mapE, hv, hvs], by simp [hg, hgs]⟩

theorem dumpList_eq_map (xs : List PV) : dumpList xs = xs.map dump := by
  induction xs with
  | nil => simp [dumpList]
  | cons x xs ih => simp [dumpList, ih]

/-- fuel that suffices for the annotation of `T` -/
def need : TypeRef → Nat
  | .named _ => 2
  | .list t => need t + 2
  | .nonNull t => need t

/-- The pydantic environment knows the schema's enums (generated enum classes: value = name), and no
    enum is called like a builtin annotation name. -/
structure EnvAgrees (genv : ResultTypes.Env) (penv : Pyd.Env) : Prop where
  enums : ∀ n t, genv.schema.get? n = some t → t.kind = .enum → penv.enum? n = some t.values
  notBuiltin : ∀ n, genv.schema.kindOf? n = some .enum →
    n ≠ "str" ∧ n ≠ "int" ∧ n ≠ "float" ∧ n ≠ "bool" ∧ n ≠ "Any"
  /-- the five built-in scalar names denote scalars -/
  builtins : ∀ n, (n = "Int" ∨ n = "Float" ∨ n = "String" ∨ n = "ID" ∨ n = "Boolean") →
    genv.schema.kindOf? n = none ∨ genv.schema.kindOf? n = some .scalar
  /-- a name that is not a schema enum is not a pydantic-side enum either -/
  noExtraEnums : ∀ n, genv.schema.kindOf? n ≠ some .enum → (n = "Any" ∨ penv.enum? n = none)

/-- acceptance of a leaf *value* (non-null) by pydantic's lax mode, cell by cell -/
def leafOkLax (S : Schema) (lax : Lax) (n : String) (j : J) : Bool :=
  match S.kindOf? n with
  | some .enum => (match S.get? n with
      | some t => (match j with | .str s => t.values.contains s | _ => false)
      | none => false)
  | _ =>
    if n == "Int" then (match j with
      | .num m e => (integral? m e).isSome
      | .bool _ => true
      | .str s => (lax.strInt s).isSome
      | _ => false)
    else if n == "Float" then (match j with
      | .num _ _ => true
      | .bool _ => true
      | .str s => (lax.strFloat s).isSome
      | _ => false)
    else if n == "String" || n == "ID" then (match j with | .str _ => true | _ => false)
    else if n == "Boolean" then (match j with
      | .bool _ => true
      | .num m e => (integral? m e == some 0 || integral? m e == some 1)
      | .str s => (lax.strBool s).isSome
      | _ => false)
    else true      -- unconfigured custom scalar (`Any`): everything, *including null*

/-- is the leaf name mapped to `Any`? (then even `null` at a non-null position is accepted) -/
def isAnyLeaf (S : Schema) (n : String) : Bool :=
  S.kindOf? n != some .enum && !(n == "Int" || n == "Float" || n == "String" || n == "ID" || n == "Boolean")

/-- what pydantic accepts at a leaf-typed position -/
def conformsLax (S : Schema) (lax : Lax) : Bool → TypeRef → J → Bool
  | _, .nonNull t, j => conformsLax S lax false t j
  | nullable, .list t, j =>
    match j with
    | .null => nullable
    | .arr xs => xs.all (conformsLax S lax true t)
    | _ => false
  | nullable, .named n, j =>
    match j with
    | .null => nullable || isAnyLeaf S n
    | _ => leafOkLax S lax n j

theorem lookup_simple (n py : String) (h : lookupStr n Tables.simpleTypeMap = some py) :
    (n = "String" ∧ py = "str") ∨ (n = "ID" ∧ py = "str") ∨ (n = "Int" ∧ py = "int")
    ∨ (n = "Boolean" ∧ py = "bool") ∨ (n = "Float" ∧ py = "float") := by
  simp only [Tables.simpleTypeMap, lookupStr] at h
  repeat' split at h
  all_goals simp_all

theorem lookup_simple_none (n : String) (h : lookupStr n Tables.simpleTypeMap = none) :
    n ≠ "String" ∧ n ≠ "ID" ∧ n ≠ "Int" ∧ n ≠ "Boolean" ∧ n ≠ "Float" := by
  simp only [Tables.simpleTypeMap, lookupStr] at h
  repeat' split at h
  all_goals first
    | (simp at h; done)
    | (refine ⟨?_, ?_, ?_, ?_, ?_⟩ <;> intro hh <;> simp_all)


theorem validateName_str (penv : Pyd.Env) (j : J) : validateName penv "str" j = validateStr j := by
  simp [validateName]
theorem validateName_int (penv : Pyd.Env) (j : J) : validateName penv "int" j = validateInt penv.lax j := by
  simp [validateName]
theorem validateName_float (penv : Pyd.Env) (j : J) : validateName penv "float" j = validateFloat penv.lax j := by
  simp [validateName]
theorem validateName_bool (penv : Pyd.Env) (j : J) : validateName penv "bool" j = validateBool penv.lax j := by
  simp [validateName]
theorem validateName_any (penv : Pyd.Env) (j : J) : validateName penv "Any" j = .ok (.any j) := by
  simp [validateName]

theorem validateName_enum (penv : Pyd.Env) (n : String) (vals : List String) (j : J)
    (hb : n ≠ "str" ∧ n ≠ "int" ∧ n ≠ "float" ∧ n ≠ "bool" ∧ n ≠ "Any") (he : penv.enum? n = some vals) :
    validateName penv n j = (match j with
      | .str s => if vals.contains s then .ok (.enum n s) else .error (.wrongType n)
      | _ => .error (.wrongType n)) := by
  obtain ⟨h1, h2, h3, h4, h5⟩ := hb
  simp [validateName, h1, h2, h3, h4, h5, he]
  cases j <;> rfl

/-- the annotation name inside a leaf base annotation -/
def leafBaseName (genv : ResultTypes.Env) (n : String) : String :=
  match genv.schema.kindOf? n with
  | some .enum => n
  | _ =>
    match lookupStr n Tables.simpleTypeMap with
    | some py => py
    | none => "Any"

theorem leafBase_eq (genv : ResultTypes.Env) (n : String) : leafBase genv n = .name (leafBaseName genv n) := by
  unfold leafBase leafBaseName
  split
  · rfl
  · split <;> rfl

theorem kindOf_get (S : Schema) (n : String) (k : Kind) (h : S.kindOf? n = some k) :
    ∃ t, S.get? n = some t ∧ t.kind = k := by
  unfold Schema.kindOf? at h
  cases hg : S.get? n with
  | none => simp [hg] at h
  | some t => simp [hg] at h; exact ⟨t, rfl, h⟩

/-- base case: pydantic's verdict on a leaf annotation name is exactly the lax table -/
theorem validate_leafBase (genv : ResultTypes.Env) (penv : Pyd.Env) (ha : EnvAgrees genv penv) (n : String)
    (hl : LeafName genv n) (j : J) :
    okB (validateName penv (leafBaseName genv n) j) =
      (match j with
       | .null => isAnyLeaf genv.schema n
       | _ => leafOkLax genv.schema penv.lax n j) := by
  unfold leafBaseName
  cases hk : genv.schema.kindOf? n with
  | some k =>
    cases k with
    | enum =>
      obtain ⟨t, hg, hkind⟩ := kindOf_get _ _ _ hk
      have he := ha.enums n t hg hkind
      have hb := ha.notBuiltin n hk
      simp only []
      rw [validateName_enum penv n t.values j hb he]
      cases j <;> simp [okB, isAnyLeaf, leafOkLax, hk, hg]
      rename_i s
      by_cases hs : s ∈ t.values <;> simp [hs, okB]
    | scalar =>
      simp only []
      cases hlk : lookupStr n Tables.simpleTypeMap with
      | none =>
        obtain ⟨h1, h2, h3, h4, h5⟩ := lookup_simple_none n hlk
        simp only [validateName_any, okB]
        cases j <;> simp [isAnyLeaf, leafOkLax, hk, h1, h2, h3, h4, h5]
      | some py =>
        rcases lookup_simple n py hlk with ⟨rfl, rfl⟩ | ⟨rfl, rfl⟩ | ⟨rfl, rfl⟩ | ⟨rfl, rfl⟩ | ⟨rfl, rfl⟩
        · simp only [validateName_str]; cases j <;> simp [validateStr, okB, isAnyLeaf, leafOkLax, hk]
        · simp only [validateName_str]; cases j <;> simp [validateStr, okB, isAnyLeaf, leafOkLax, hk]
        · simp only [validateName_int]
          cases j <;> simp [validateInt, okB, isAnyLeaf, leafOkLax, hk]
          · rename_i m e; cases integral? m e <;> simp [okB]
          · rename_i s; cases penv.lax.strInt s <;> simp [okB]
        · simp only [validateName_bool]
          cases j <;> simp [validateBool, okB, isAnyLeaf, leafOkLax, hk]
          · rename_i m e
            cases hi : integral? m e with
            | none => simp [okB]
            | some i =>
              by_cases h0 : i = 0
              · subst h0; simp [okB]
              · by_cases h1 : i = 1
                · subst h1; simp [okB]
                · simp [okB, h0, h1]
          · rename_i s; cases penv.lax.strBool s <;> simp [okB]
        · simp only [validateName_float]
          cases j <;> simp [validateFloat, okB, isAnyLeaf, leafOkLax, hk]
          rename_i s; cases h : penv.lax.strFloat s <;> simp [okB]
    | object => exact absurd hk (by rcases hl.1 with h | h | h <;> simp [h])
    | interface => exact absurd hk (by rcases hl.1 with h | h | h <;> simp [h])
    | union => exact absurd hk (by rcases hl.1 with h | h | h <;> simp [h])
    | input => exact absurd hk (by rcases hl.1 with h | h | h <;> simp [h])
  | none =>
    simp only []
    cases hlk : lookupStr n Tables.simpleTypeMap with
    | none =>
      obtain ⟨h1, h2, h3, h4, h5⟩ := lookup_simple_none n hlk
      simp only [validateName_any, okB]
      cases j <;> simp [isAnyLeaf, leafOkLax, hk, h1, h2, h3, h4, h5]
    | some py =>
      rcases lookup_simple n py hlk with ⟨rfl, rfl⟩ | ⟨rfl, rfl⟩ | ⟨rfl, rfl⟩ | ⟨rfl, rfl⟩ | ⟨rfl, rfl⟩
      · simp only [validateName_str]; cases j <;> simp [validateStr, okB, isAnyLeaf, leafOkLax, hk]
      · simp only [validateName_str]; cases j <;> simp [validateStr, okB, isAnyLeaf, leafOkLax, hk]
      · simp only [validateName_int]
        cases j <;> simp [validateInt, okB, isAnyLeaf, leafOkLax, hk]
        · rename_i m e; cases integral? m e <;> simp [okB]
        · rename_i s; cases penv.lax.strInt s <;> simp [okB]
      · simp only [validateName_bool]
        cases j <;> simp [validateBool, okB, isAnyLeaf, leafOkLax, hk]
        · rename_i m e
          cases hi : integral? m e with
          | none => simp [okB]
          | some i =>
            by_cases h0 : i = 0
            · subst h0; simp [okB]
            · by_cases h1 : i = 1
              · subst h1; simp [okB]
              · simp [okB, h0, h1]
        · rename_i s; cases penv.lax.strBool s <;> simp [okB]
      · simp only [validateName_float]
        cases j <;> simp [validateFloat, okB, isAnyLeaf, leafOkLax, hk]
        rename_i s; cases h : penv.lax.strFloat s <;> simp [okB]


theorem validate_name_succ (penv : Pyd.Env) (fuel : Nat) (x : String) (j : J) :
    validate penv (fuel + 1) (.name x) j = validateName penv x j := by
  simp [validate]

theorem validate_list_succ (penv : Pyd.Env) (fuel : Nat) (a : Ann) (j : J) :
    validate penv (fuel + 1) (.list a) j = (match j with
      | .arr xs => (match mapE (validate penv fuel a) xs with
        | .ok vs => .ok (.list vs)
        | .error e => .error e)
      | _ => .error (.wrongType "list")) := by
  cases j <;> rfl

theorem validate_optional_succ (penv : Pyd.Env) (fuel : Nat) (a : Ann) (j : J) :
    validate penv (fuel + 1) (.optional a) j = (match j with
      | .null => .ok .none
      | _ => validate penv fuel a j) := by
  cases j <;> rfl

/-- pydantic's verdict on the annotation of a leaf-based type = the lax conformance predicate;
    all wrapper nestings, all JSON values, any sufficient fuel. -/
theorem validate_leaf_okB (genv : ResultTypes.Env) (penv : Pyd.Env) (ha : EnvAgrees genv penv) (T : TypeRef)
    (hl : LeafName genv T.base) :
    ∀ (nullable : Bool) (j : J) (fuel : Nat), need T ≤ fuel →
      okB (validate penv fuel (leafAnn genv nullable T) j) = conformsLax genv.schema penv.lax nullable T j := by
  induction T with
  | named n =>
    intro nullable j fuel hf
    simp only [TypeRef.base] at hl
    simp only [need] at hf
    obtain ⟨f, rfl⟩ : ∃ f, fuel = f + 2 := ⟨fuel - 2, by omega⟩
    have hb := validate_leafBase genv penv ha n hl
    simp only [leafAnn, leafBase_eq, conformsLax]
    cases nullable with
    | true =>
      simp only [optionalIf, ↓reduceIte]
      cases j with
      | null => simp [validate, okB]
      | bool b => simp only [validate, validate_name_succ]; have := hb (.bool b); simpa using this
      | num m e => simp only [validate, validate_name_succ]; have := hb (.num m e); simpa using this
      | str x => simp only [validate, validate_name_succ]; have := hb (.str x); simpa using this
      | arr xs => simp only [validate, validate_name_succ]; have := hb (.arr xs); simpa using this
      | obj kvs => simp only [validate, validate_name_succ]; have := hb (.obj kvs); simpa using this
    | false =>
      simp only [optionalIf, Bool.false_eq_true, ↓reduceIte, validate_name_succ, Bool.false_or]
      have := hb j
      cases j <;> simpa using this
  | list t ih =>
    intro nullable j fuel hf
    simp only [TypeRef.base] at hl
    simp only [need] at hf
    obtain ⟨f, rfl⟩ : ∃ f, fuel = f + 2 := ⟨fuel - 2, by omega⟩
    have hf' : need t ≤ f := by omega
    have key : ∀ (g : Nat) (xs : List J), need t ≤ g →
        okB (validate penv (g + 1) (.list (leafAnn genv true t)) (.arr xs)) = xs.all (conformsLax genv.schema penv.lax true t) := by
      intro g xs hg
      rw [validate_list_succ]
      have : okB (mapE (validate penv g (leafAnn genv true t)) xs) = xs.all (conformsLax genv.schema penv.lax true t) := by
        rw [mapE_okB]
        congr 1
        funext x
        exact ih hl true x g hg
      rw [← this]
      simp only []
      cases mapE (validate penv g (leafAnn genv true t)) xs <;> rfl
    simp only [leafAnn, conformsLax]
    cases nullable with
    | true =>
      simp only [optionalIf, ↓reduceIte]
      rw [validate_optional_succ]
      cases j with
      | null => simp [okB]
      | arr xs => exact key f xs hf'
      | bool b => simp [validate_list_succ, okB]
      | num m e => simp [validate_list_succ, okB]
      | str x => simp [validate_list_succ, okB]
      | obj kvs => simp [validate_list_succ, okB]
    | false =>
      simp only [optionalIf, Bool.false_eq_true, ↓reduceIte]
      cases j with
      | arr xs => exact key (f + 1) xs (by omega)
      | null => simp [validate_list_succ, okB]
      | bool b => simp [validate_list_succ, okB]
      | num m e => simp [validate_list_succ, okB]
      | str x => simp [validate_list_succ, okB]
      | obj kvs => simp [validate_list_succ, okB]
  | nonNull t ih =>
    intro nullable j fuel hf
    simp only [TypeRef.base] at hl
    simp only [need] at hf
    simp only [leafAnn, conformsLax]
    exact ih hl false j fuel hf


/-! ### Conformant values are accepted and dumped back unchanged -/

theorem integral_zero (m : Int) : integral? m 0 = some m := by
  simp [integral?]

theorem validateName_dump (genv : ResultTypes.Env) (penv : Pyd.Env) (ha : EnvAgrees genv penv) (n : String)
    (hl : LeafName genv n) (j : J) (hok : leafOk genv.schema n j = true) :
    ∃ v, validateName penv (leafBaseName genv n) j = .ok v ∧ dump v = j := by
  unfold leafBaseName
  unfold leafOk at hok
  cases hk : genv.schema.kindOf? n with
  | some k =>
    obtain ⟨t, hg, hkind⟩ := kindOf_get _ _ _ hk
    simp only [hg, hkind] at hok
    cases k with
    | enum =>
      have he := ha.enums n t hg hkind
      have hb := ha.notBuiltin n hk
      simp only []
      rw [validateName_enum penv n t.values j hb he]
      cases j <;> simp at hok
      rename_i s
      exact ⟨.enum n s, by simp [hok], by simp [dump]⟩
    | scalar =>
      simp only []
      cases hlk : lookupStr n Tables.simpleTypeMap with
      | none =>
        exact ⟨.any j, by simp [validateName_any], by simp [dump]⟩
      | some py =>
        rcases lookup_simple n py hlk with ⟨rfl, rfl⟩ | ⟨rfl, rfl⟩ | ⟨rfl, rfl⟩ | ⟨rfl, rfl⟩ | ⟨rfl, rfl⟩
        · cases j <;> simp at hok
          rename_i s; exact ⟨.str s, by simp [validateName_str, validateStr], by simp [dump]⟩
        · cases j <;> simp at hok
          rename_i s; exact ⟨.str s, by simp [validateName_str, validateStr], by simp [dump]⟩
        · cases j <;> simp at hok
          rename_i m e
          cases e with
          | zero => exact ⟨.int m, by simp [validateName_int, validateInt, integral_zero], by simp [dump]⟩
          | succ e => simp at hok
        · cases j <;> simp at hok
          rename_i b; exact ⟨.bool b, by simp [validateName_bool, validateBool], by simp [dump]⟩
        · cases j <;> simp at hok
          rename_i m e; exact ⟨.float m e, by simp [validateName_float, validateFloat], by simp [dump]⟩
    | object => exact absurd hk (by rcases hl.1 with h | h | h <;> simp [h])
    | interface => exact absurd hk (by rcases hl.1 with h | h | h <;> simp [h])
    | union => exact absurd hk (by rcases hl.1 with h | h | h <;> simp [h])
    | input => exact absurd hk (by rcases hl.1 with h | h | h <;> simp [h])
  | none =>
    have hg : genv.schema.get? n = none := by
      unfold Schema.kindOf? at hk
      cases h : genv.schema.get? n <;> simp [h] at hk ⊢
    simp only [hg] at hok
    simp only []
    cases hlk : lookupStr n Tables.simpleTypeMap with
    | none =>
      obtain ⟨h1, h2, h3, h4, h5⟩ := lookup_simple_none n hlk
      simp [h1, h2, h3, h4, h5] at hok
    | some py =>
      rcases lookup_simple n py hlk with ⟨rfl, rfl⟩ | ⟨rfl, rfl⟩ | ⟨rfl, rfl⟩ | ⟨rfl, rfl⟩ | ⟨rfl, rfl⟩
      · cases j <;> simp at hok
        rename_i s; exact ⟨.str s, by simp [validateName_str, validateStr], by simp [dump]⟩
      · cases j <;> simp at hok
        rename_i s; exact ⟨.str s, by simp [validateName_str, validateStr], by simp [dump]⟩
      · cases j <;> simp at hok
        rename_i m e
        cases e with
        | zero => exact ⟨.int m, by simp [validateName_int, validateInt, integral_zero], by simp [dump]⟩
        | succ e => simp at hok
      · cases j <;> simp at hok
        rename_i b; exact ⟨.bool b, by simp [validateName_bool, validateBool], by simp [dump]⟩
      · cases j <;> simp at hok
        rename_i m e; exact ⟨.float m e, by simp [validateName_float, validateFloat], by simp [dump]⟩

/-- C01, leaf positions: every value a conformant executor can return at a position of leaf-based
    type `T` (any wrapper nesting, any list length, null wherever nullable) is accepted by the
    emitted annotation, and dumping the validated value reproduces it. -/
theorem validate_leaf_dump (genv : ResultTypes.Env) (penv : Pyd.Env) (ha : EnvAgrees genv penv) (T : TypeRef)
    (hl : LeafName genv T.base) :
    ∀ (nullable : Bool) (j : J) (fuel : Nat), need T ≤ fuel → Exec.conforms genv.schema nullable T j = true →
      ∃ v, validate penv fuel (leafAnn genv nullable T) j = .ok v ∧ dump v = j := by
  induction T with
  | named n =>
    intro nullable j fuel hf hc
    simp only [TypeRef.base] at hl
    simp only [need] at hf
    obtain ⟨f, rfl⟩ : ∃ f, fuel = f + 2 := ⟨fuel - 2, by omega⟩
    simp only [leafAnn, leafBase_eq]
    unfold Exec.conforms at hc
    cases nullable with
    | true =>
      simp only [optionalIf, ↓reduceIte]
      rw [validate_optional_succ]
      cases j with
      | null => exact ⟨.none, rfl, by simp [dump]⟩
      | bool b => simp only [validate_name_succ]; exact validateName_dump genv penv ha n hl _ (by simpa using hc)
      | num m e => simp only [validate_name_succ]; exact validateName_dump genv penv ha n hl _ (by simpa using hc)
      | str x => simp only [validate_name_succ]; exact validateName_dump genv penv ha n hl _ (by simpa using hc)
      | arr xs => simp only [validate_name_succ]; exact validateName_dump genv penv ha n hl _ (by simpa using hc)
      | obj kvs => simp only [validate_name_succ]; exact validateName_dump genv penv ha n hl _ (by simpa using hc)
    | false =>
      simp only [optionalIf, Bool.false_eq_true, ↓reduceIte, validate_name_succ]
      cases j with
      | null => simp at hc
      | bool b => exact validateName_dump genv penv ha n hl _ (by simpa using hc)
      | num m e => exact validateName_dump genv penv ha n hl _ (by simpa using hc)
      | str x => exact validateName_dump genv penv ha n hl _ (by simpa using hc)
      | arr xs => exact validateName_dump genv penv ha n hl _ (by simpa using hc)
      | obj kvs => exact validateName_dump genv penv ha n hl _ (by simpa using hc)
  | list t ih =>
    intro nullable j fuel hf hc
    simp only [TypeRef.base] at hl
    simp only [need] at hf
    obtain ⟨f, rfl⟩ : ∃ f, fuel = f + 2 := ⟨fuel - 2, by omega⟩
    have key : ∀ (g : Nat) (xs : List J), need t ≤ g → xs.all (Exec.conforms genv.schema true t) = true →
        ∃ v, validate penv (g + 1) (.list (leafAnn genv true t)) (.arr xs) = .ok v ∧ dump v = .arr xs := by
      intro g xs hg hall
      rw [validate_list_succ]
      simp only []
      obtain ⟨vs, hvs, hmap⟩ := mapE_dump (validate penv g (leafAnn genv true t)) dump xs (by
        intro x hx
        exact ih hl true x g hg (by simpa using (List.all_eq_true.mp hall) x hx))
      exact ⟨.list vs, by simp [hvs], by simp [dump, dumpList_eq_map, hmap]⟩
    simp only [leafAnn]
    unfold Exec.conforms at hc
    cases nullable with
    | true =>
      simp only [optionalIf, ↓reduceIte]
      rw [validate_optional_succ]
      cases j with
      | null => exact ⟨.none, rfl, by simp [dump]⟩
      | arr xs => exact key f xs (by omega) (by simpa using hc)
      | bool b => simp at hc
      | num m e => simp at hc
      | str x => simp at hc
      | obj kvs => simp at hc
    | false =>
      simp only [optionalIf, Bool.false_eq_true, ↓reduceIte]
      cases j with
      | arr xs => exact key (f + 1) xs (by omega) (by simpa using hc)
      | null => simp at hc
      | bool b => simp at hc
      | num m e => simp at hc
      | str x => simp at hc
      | obj kvs => simp at hc
  | nonNull t ih =>
    intro nullable j fuel hf hc
    simp only [TypeRef.base] at hl
    simp only [need] at hf
    simp only [leafAnn]
    unfold Exec.conforms at hc
    exact ih hl false j fuel hf hc

end Ariadne.ResultLeaf
