/-
  Proofs/C05Dup.lean — property C05: a class body that declares one python name several times (the same response key
  reached directly and through an unpacked fragment / an inline fragment: `{ id ...F }` with `id` in `F`).
  Python keeps ONE field per name (`Spec/Pyd.mergeDup`).  If all declarations of a name are identical, that field is
  this declaration — so the per-class theorems of Properties/C05.lean also cover such classes.
  Core Lean only.
-/
import AriadneModel.Spec.Pyd

set_option linter.unusedSimpArgs false
set_option linter.unusedVariables false

namespace Ariadne.C05Decl
open Ariadne Ariadne.ResultTypes Ariadne.Pyd

theorem fieldDecl_with_py (d : FieldDecl) : { d with py := d.py } = d := by cases d; rfl
theorem fieldDecl_with_ann (d : FieldDecl) : { d with ann := d.ann } = d := by cases d; rfl

/-- merging a declaration with an identical one gives it back -/
theorem merge_self (d : FieldDecl) :
    (if hasValue d then { d with py := d.py } else { d with ann := d.ann }) = d := by
  split
  · exact fieldDecl_with_py d
  · exact fieldDecl_with_ann d

/-- all declarations of `d`'s python name in `l` are `d` itself -/
def Ident (d : FieldDecl) (l : List FieldDecl) : Prop := ∀ m ∈ l, m.py = d.py → m = d

theorem addDecl_ident (d : FieldDecl) (acc : List FieldDecl) (g : FieldDecl) (hacc : Ident d acc) (hg : g.py = d.py → g = d) :
    Ident d (addDecl acc g) := by
  unfold addDecl
  split
  · intro m hm hpy
    obtain ⟨m0, hm0, rfl⟩ := List.mem_map.mp hm
    by_cases hc : (m0.py == g.py) = true
    · simp only [hc, if_true] at hpy ⊢
      have hm0py : m0.py = d.py := by
        split at hpy
        · exact hpy
        · exact hpy
      have e0 : m0 = d := hacc m0 hm0 hm0py
      have eg : g = d := hg (by rw [← hm0py]; exact (by simpa using hc : m0.py = g.py).symm)
      subst e0 eg
      exact merge_self _
    · simp only [hc, Bool.false_eq_true, if_false] at hpy ⊢
      exact hacc m0 hm0 hpy
  · intro m hm hpy
    rcases List.mem_append.mp hm with h | h
    · exact hacc m h hpy
    · simp only [List.mem_singleton] at h
      subst h
      exact hg hpy

theorem addDecl_keeps (d : FieldDecl) (acc : List FieldDecl) (g : FieldDecl) (hd : d ∈ acc) (hg : g.py = d.py → g = d) :
    d ∈ addDecl acc g := by
  unfold addDecl
  split
  · refine List.mem_map.mpr ⟨d, hd, ?_⟩
    by_cases hc : (d.py == g.py) = true
    · have eg : g = d := hg (by simpa using hc : d.py = g.py).symm
      subst eg
      simp only [beq_self_eq_true, if_true]
      exact merge_self _
    · simp only [hc, Bool.false_eq_true, if_false]
  · exact List.mem_append_left _ hd

theorem addDecl_adds (d : FieldDecl) (acc : List FieldDecl) (hacc : Ident d acc) : d ∈ addDecl acc d := by
  unfold addDecl
  split
  · rename_i hany
    obtain ⟨m, hm, hmpy⟩ := List.any_eq_true.mp hany
    have : m = d := hacc m hm (by simpa using hmpy)
    subst this
    refine List.mem_map.mpr ⟨m, hm, ?_⟩
    simp only [beq_self_eq_true, if_true]
    exact merge_self _
  · simp

theorem foldl_addDecl_mem (d : FieldDecl) : ∀ (fs acc : List FieldDecl), Ident d fs → Ident d acc → (d ∈ acc ∨ d ∈ fs) →
    d ∈ fs.foldl addDecl acc
  | [], acc, _, _, h => by
    rcases h with h | h
    · simpa using h
    · cases h
  | g :: fs, acc, hfs, hacc, h => by
    rw [List.foldl_cons]
    have hg : g.py = d.py → g = d := hfs g List.mem_cons_self
    have hfs' : Ident d fs := fun m hm => hfs m (List.mem_cons_of_mem _ hm)
    refine foldl_addDecl_mem d fs (addDecl acc g) hfs' (addDecl_ident d acc g hacc hg) ?_
    rcases h with h | h
    · exact Or.inl (addDecl_keeps d acc g h hg)
    · rcases List.mem_cons.mp h with rfl | h
      · exact Or.inl (addDecl_adds _ acc hacc)
      · exact Or.inr h

/-- **a declaration all of whose namesakes in the class body are identical to it is a field of the model** -/
theorem mem_mergeDup_of_ident (d : FieldDecl) (fs : List FieldDecl) (hd : d ∈ fs) (hid : Ident d fs) : d ∈ mergeDup fs := by
  unfold mergeDup
  exact foldl_addDecl_mem d fs [] hid (fun m hm => by cases hm) (Or.inr hd)

/-- own declarations override inherited ones -/
theorem own_mem_allFields_ident (penv : Pyd.Env) (k : Nat) (c : ClassDecl) (hc : penv.class? c.name = some c)
    (d : FieldDecl) (hd : d ∈ c.fields) (hid : Ident d c.fields) : d ∈ allFields penv (k + 1) c.name := by
  unfold allFields
  simp only [hc]
  exact List.mem_append_right _ (mem_mergeDup_of_ident d c.fields hd hid)

/-- pairwise distinct python names: every declaration is its only namesake -/
theorem ident_of_nodup (fs : List FieldDecl) (hnd : (fs.map (·.py)).Nodup) (d : FieldDecl) (hd : d ∈ fs) : Ident d fs := by
  induction fs with
  | nil => cases hd
  | cons x xs ih =>
    simp only [List.map_cons, List.nodup_cons] at hnd
    intro m hm hpy
    rcases List.mem_cons.mp hd with rfl | hd' <;> rcases List.mem_cons.mp hm with rfl | hm'
    · rfl
    · exact absurd (List.mem_map.mpr ⟨m, hm', hpy⟩) hnd.1
    · exact absurd (List.mem_map.mpr ⟨d, hd', hpy.symm⟩) hnd.1
    · exact ih hnd.2 hd' m hm' hpy

end Ariadne.C05Decl
