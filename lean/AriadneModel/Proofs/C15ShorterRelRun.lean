/-
  C15: ShorterResults inside a longer plugin list, hook call by hook call — the run with
  `a ++ [ShorterResults] ++ b` compared with the run with `a ++ b`, for lists `a`, `b` made of ExtractOperations,
  NoReimports and the identity plugin.

  Outside `generate_client_module` ShorterResults returns what it is handed, so both runs hand every plugin the same
  objects and record the same things; at `generate_client_module` the plugins of `a` run first (ExtractOperations
  puts its import in front), ShorterResults rewrites what comes out, the plugins of `b` run on the result.
-/
import AriadneModel.Proofs.C15ShorterRel
import AriadneModel.Proofs.C15ShorterPipeline
import AriadneModel.Proofs.C15ExtractRun

set_option linter.unusedSimpArgs false
set_option linter.unusedVariables false

namespace Ariadne.C15
open Ariadne Ariadne.Py Ariadne.Plugins Ariadne.ClientSem

/-- lists without ShorterResults and ClientForwardRefs -/
def NoSF (l : List PState) : Prop := ∀ p ∈ l, p = PState.identity ∨ p = PState.noReimports ∨ ∃ e, p = PState.extract e

theorem NoSF.tail {p : PState} {l : List PState} (h : NoSF (p :: l)) : NoSF l := fun q hq => h q (by simp [hq])

/-- a plugin keeps its kind -/
theorem step_nosf (c : Call) (p p' : PState) (x y : Payload) (hp : p = PState.identity ∨ p = PState.noReimports ∨ ∃ e, p = PState.extract e)
    (h : PState.step c p x = .ok (p', y)) : p' = PState.identity ∨ p' = PState.noReimports ∨ ∃ e, p' = PState.extract e := by
  rcases hp with rfl | rfl | ⟨e, rfl⟩
  · simp only [PState.step, pure_eq_ok, Except.ok.injEq, Prod.mk.injEq] at h; exact .inl h.1.symm
  · simp only [PState.step, pure_eq_ok, Except.ok.injEq, Prod.mk.injEq] at h; exact .inr (.inl h.1.symm)
  · rw [extract_step_eq] at h
    cases hs : extractStep c e x with
    | error err => rw [hs] at h; cases h
    | ok r =>
      rw [hs] at h
      simp only [bind_ok, pure_eq_ok, Except.ok.injEq, Prod.mk.injEq] at h
      exact .inr (.inr ⟨r.1, h.1.symm⟩)

theorem applyAll_nosf (c : Call) : ∀ (l l' : List PState) (x y : Payload), NoSF l → applyAll PState.step c l x = .ok (l', y) → NoSF l' := by
  intro l
  induction l with
  | nil => intro l' x y _ h; simp [applyAll, List.foldlM, pure, Except.pure] at h; rw [h.1]; intro p hp; cases hp
  | cons p rest ih =>
    intro l' x y hn h
    rw [applyAll_cons] at h
    cases hs : PState.step c p x with
    | error err => rw [hs] at h; cases h
    | ok r =>
      rw [hs] at h
      simp only [bind_ok] at h
      cases hr : applyAll PState.step c rest r.2 with
      | error err => rw [hr] at h; cases h
      | ok r' =>
        rw [hr] at h
        simp only [bind_ok, pure_eq_ok, Except.ok.injEq, Prod.mk.injEq] at h
        rw [← h.1]
        intro q hq
        rcases List.mem_cons.mp hq with rfl | hq'
        · exact step_nosf c p r.1 x r.2 (hn p (by simp)) (by rw [hs])
        · exact ih r'.1 r.2 r'.2 hn.tail (by rw [hr]) q hq'

/-- hooks that neither ExtractOperations nor NoReimports overrides: the object and the plugin objects come back unchanged -/
theorem nosf_pass (c : Call) (h1 : c.hook ≠ "generate_operation_str") (h2 : c.hook ≠ "generate_client_method")
    (h3 : c.hook ≠ "generate_client_module") (h4 : c.hook ≠ "generate_init_module") :
    ∀ (l : List PState), NoSF l → ∀ x, applyAll PState.step c l x = .ok (l, x) := by
  intro l
  induction l with
  | nil => intro _ x; rfl
  | cons p rest ih =>
    intro hn x
    rw [applyAll_cons]
    have hstep : PState.step c p x = .ok (p, x) := by
      rcases hn p (by simp) with rfl | rfl | ⟨e, rfl⟩
      · rfl
      · show Except.ok (PState.noReimports, noReimportsStep c x) = _
        rw [noReimports_other_hooks c x h4]
      · rw [extract_step_eq, extractStep_other c e x h1 h2 h3 h4]; rfl
    rw [hstep]
    simp only [bind_ok]
    rw [ih hn.tail x]
    rfl

/-! ### `generate_client_module` through a list without ShorterResults / ClientForwardRefs -/

def eFrame (l : List PState) : List Top :=
  (l.filterMap (fun p => match p with | PState.extract e => some (extractImport e) | _ => none)).reverse

theorem eFrame_imports (l : List PState) : ImportsOnly (eFrame l) := by
  intro t ht
  unfold eFrame at ht
  simp only [List.mem_reverse, List.mem_filterMap] at ht
  obtain ⟨p, _, hp⟩ := ht
  cases p <;> simp at hp
  rename_i e
  exact ⟨_, hp.symm⟩

theorem eFrame_cons_extract (e : ExtractState) (rest : List PState) :
    eFrame (PState.extract e :: rest) = eFrame rest ++ [extractImport e] := by
  simp [eFrame]

theorem nosf_cm (c : Call) (hc : c.hook = "generate_client_module") : ∀ (l : List PState), NoSF l → ∀ M : Module,
    applyAll PState.step c l (.module M) = .ok (l, .module { body := eFrame l ++ M.body }) := by
  have hni : c.hook ≠ "generate_init_module" := by rw [hc]; decide
  intro l
  induction l with
  | nil => intro _ M; rfl
  | cons p rest ih =>
    intro hn M
    rw [applyAll_cons]
    rcases hn p (by simp) with rfl | rfl | ⟨e, rfl⟩
    · show (Except.ok (PState.identity, Payload.module M) >>= _) = _
      simp only [bind_ok]
      rw [ih hn.tail M]
      rfl
    · show (Except.ok (PState.noReimports, noReimportsStep c (.module M)) >>= _) = _
      rw [noReimports_other_hooks c _ hni]
      simp only [bind_ok]
      rw [ih hn.tail M]
      rfl
    · have hstep : PState.step c (.extract e) (.module M) = .ok (.extract e, .module { body := extractImport e :: M.body }) := by
        rw [extract_step_eq]
        simp [extractStep, hc, pure_eq_ok, bind_ok]
      rw [hstep]
      simp only [bind_ok]
      rw [ih hn.tail]
      simp only [bind_ok, pure_eq_ok, eFrame_cons_extract, List.append_assoc, List.singleton_append]

/-! ### one hook call other than `generate_client_module` -/

structure SRel (st : ShorterState) (P Q : PipeState) : Prop where
  lists : ∃ a b, NoSF a ∧ NoSF b ∧ P.plugins = a ++ .shorter st :: b ∧ Q.plugins = a ++ b
  methods : P.methodsOut = Q.methodsOut
  imports : P.importsOut = Q.importsOut
  gql : P.gqlOut = Q.gqlOut
  cls : P.classOut = Q.classOut
  init : P.initImports = Q.initImports

theorem srel_input (st : ShorterState) (P Q : PipeState) (e : Event) (h : SRel st P Q) : inputFor P e = inputFor Q e := by
  unfold inputFor; rw [h.methods, h.imports, h.gql, h.cls, h.init]

theorem shorter_step_eq (c : Call) (st : ShorterState) (x : Payload) :
    PState.step c (.shorter st) x = (shorterStep c st x >>= fun r => pure (PState.shorter r.1, r.2)) := by
  simp only [PState.step]

theorem stepEvent_srel (st : ShorterState) (P Q : PipeState) (e : Event) (hc : e.call.hook ≠ "generate_client_module")
    (h : SRel st P Q) (Q' : PipeState) (hQ : stepEvent Q e = .ok Q') :
    ∃ P', stepEvent P e = .ok P' ∧ SRel (bookStep st e) P' Q' := by
  obtain ⟨a, b, hna, hnb, hP, hQp⟩ := h.lists
  have hin := srel_input st P Q e h
  -- the plugins of `a`
  cases hma : applyAll PState.step e.call a (inputFor Q e) with
  | error err =>
    exfalso
    have : manager e.call Q.plugins (inputFor Q e) = .error err := by
      unfold manager; rw [hQp, applyAll_append, hma]; rfl
    rw [stepEvent_of_manager_error Q e err this] at hQ
    cases hQ
  | ok ra =>
    have hna' : NoSF ra.1 := applyAll_nosf e.call a ra.1 _ ra.2 hna (by rw [hma])
    -- ShorterResults hands on what it is handed; its new state is `bookStep`
    have hS : shorterStep e.call st ra.2 = .ok (bookStep st e, ra.2) := by
      by_cases hrec : e.call.hook = "generate_result_types_module" ∨ e.call.hook = "generate_result_class" ∨
          e.call.hook = "generate_fragments_module"
      · have hpass := nosf_pass e.call (by rcases hrec with h | h | h <;> (rw [h]; decide))
          (by rcases hrec with h | h | h <;> (rw [h]; decide)) hc (by rcases hrec with h | h | h <;> (rw [h]; decide)) a hna (inputFor Q e)
        rw [hpass] at hma
        have := (Except.ok.inj hma)
        rw [← this]
        exact shorterStep_inputFor Q e hc st
      · have h1 : e.call.hook ≠ "generate_result_types_module" := fun hh => hrec (.inl hh)
        have h2 : e.call.hook ≠ "generate_result_class" := fun hh => hrec (.inr (.inl hh))
        have h3 : e.call.hook ≠ "generate_fragments_module" := fun hh => hrec (.inr (.inr hh))
        rw [shorterStep_other e.call st _ h1 h2 h3 hc]
        have : bookStep st e = st := by
          unfold bookStep
          have hb : (e.call.hook == "generate_client_module") = false := by simpa using hc
          simp only [hb, Bool.false_eq_true, ↓reduceIte, shorterStep_other e.call st _ h1 h2 h3 hc]
        rw [this]
    -- the plugins of `b`
    cases hmb : applyAll PState.step e.call b ra.2 with
    | error err =>
      exfalso
      have : manager e.call Q.plugins (inputFor Q e) = .error err := by
        unfold manager; rw [hQp, applyAll_append, hma]; simp only [bind_ok]; rw [hmb]; rfl
      rw [stepEvent_of_manager_error Q e err this] at hQ
      cases hQ
    | ok rb =>
      have hnb' : NoSF rb.1 := applyAll_nosf e.call b rb.1 _ rb.2 hnb (by rw [hmb])
      have hmQ : manager e.call Q.plugins (inputFor Q e) = .ok (ra.1 ++ rb.1, rb.2) := by
        unfold manager; rw [hQp, applyAll_append, hma]; simp only [bind_ok]; rw [hmb]; rfl
      have hmP : manager e.call P.plugins (inputFor P e) = .ok (ra.1 ++ .shorter (bookStep st e) :: rb.1, rb.2) := by
        unfold manager
        rw [hin, hP, applyAll_append, hma]
        simp only [bind_ok]
        rw [applyAll_cons, shorter_step_eq, hS]
        simp only [bind_ok, pure_eq_ok]
        rw [hmb]
        rfl
      rw [stepEvent_of_manager Q e _ _ hmQ] at hQ
      have hQ' := (Except.ok.inj hQ).symm
      refine ⟨_, stepEvent_of_manager P e _ _ hmP, ?_⟩
      rw [hQ', hin]
      obtain ⟨g1, g2, g3, g4, g5, g6, g7⟩ := record_fields
        { P with plugins := ra.1 ++ .shorter (bookStep st e) :: rb.1, trace := P.trace ++ [(e.call, inputFor Q e, rb.2)] }
        { Q with plugins := ra.1 ++ rb.1, trace := Q.trace ++ [(e.call, inputFor Q e, rb.2)] }
        e.call rb.2 h.methods h.imports h.gql h.cls h.init
      exact ⟨⟨ra.1, rb.1, hna', hnb', g1, g2⟩, g3, g4, g5, g6, g7⟩

theorem runPipeline_srel (evs : List Event) (hno : ∀ e ∈ evs, e.call.hook ≠ "generate_client_module") :
    ∀ (st : ShorterState) (P Q : PipeState), SRel st P Q → (runPipeline Q evs).2 = none →
      (runPipeline P evs).2 = none ∧ SRel (evs.foldl bookStep st) (runPipeline P evs).1 (runPipeline Q evs).1 := by
  induction evs with
  | nil => intro st P Q h _; exact ⟨rfl, h⟩
  | cons e rest ih =>
    intro st P Q h hQ
    unfold runPipeline at hQ ⊢
    cases hs : stepEvent Q e with
    | error err => rw [hs] at hQ; cases hQ
    | ok Q' =>
      rw [hs] at hQ
      obtain ⟨P', hP', hrel⟩ := stepEvent_srel st P Q e (hno e (by simp)) h Q' hs
      rw [hP']
      exact ih (fun e' he' => hno e' (by simp [he'])) (bookStep st e) P' Q' hrel hQ

/-! ### the `generate_client_module` call -/

theorem stepEvent_srel_cm (st : ShorterState) (P Q : PipeState) (e : Event) (hc : e.call.hook = "generate_client_module")
    (h : SRel st P Q) (M : Module) (hX : inputFor Q e = .module M) :
    ∃ fr Min Q', ImportsOnly fr ∧ stepEvent Q e = .ok Q' ∧
      Q'.finalOf "generate_client_module" = some (.module { body := fr ++ Min.body }) ∧
      (match shorterClientModule st Min with
       | .error err => stepEvent P e = .error err
       | .ok r => ∃ P', stepEvent P e = .ok P' ∧ SRel r.1 P' Q' ∧
           P'.finalOf "generate_client_module" = some (.module { body := fr ++ r.2.body })) := by
  obtain ⟨a, b, hna, hnb, hP, hQp⟩ := h.lists
  have hin := srel_input st P Q e h
  have hbeq : (e.call.hook == "generate_client_module") = true := by rw [hc]; decide
  have ha := nosf_cm e.call hc a hna M
  let Min : Module := { body := eFrame a ++ M.body }
  have hbQ := nosf_cm e.call hc b hnb Min
  have hmQ : manager e.call Q.plugins (inputFor Q e) = .ok (a ++ b, .module { body := eFrame b ++ Min.body }) := by
    unfold manager; rw [hX, hQp, applyAll_append, ha]; simp only [bind_ok]; rw [hbQ]; rfl
  have e2 := stepEvent_of_manager Q e _ _ hmQ
  refine ⟨eFrame b, Min, _, eFrame_imports b, e2, ?_, ?_⟩
  · rw [stepEvent_finalOf Q _ e e2, record_cm _ e.call hc]
    simp [hbeq]
  · have hS : shorterStep e.call st (.module Min) = (shorterClientModule st Min >>= fun r => pure (r.1, .module r.2)) := by
      unfold shorterStep
      simp only [hc]
    cases hsc : shorterClientModule st Min with
    | error err =>
      simp only
      have : manager e.call P.plugins (inputFor P e) = .error err := by
        unfold manager
        rw [hin, hX, hP, applyAll_append, ha]
        simp only [bind_ok]
        rw [applyAll_cons, shorter_step_eq, hS, hsc]
        rfl
      exact stepEvent_of_manager_error P e err this
    | ok r =>
      simp only
      have hbP := nosf_cm e.call hc b hnb r.2
      have hmP : manager e.call P.plugins (inputFor P e) = .ok (a ++ .shorter r.1 :: b, .module { body := eFrame b ++ r.2.body }) := by
        unfold manager
        rw [hin, hX, hP, applyAll_append, ha]
        simp only [bind_ok]
        rw [applyAll_cons, shorter_step_eq, hS, hsc]
        simp only [bind_ok, pure_eq_ok]
        rw [hbP]
        rfl
      have e1 := stepEvent_of_manager P e _ _ hmP
      refine ⟨_, e1, ?_, ?_⟩
      · rw [record_cm _ e.call hc, record_cm _ e.call hc]
        exact ⟨⟨a, b, hna, hnb, rfl, rfl⟩, h.methods, h.imports, h.gql, h.cls, h.init⟩
      · rw [stepEvent_finalOf P _ e e1, record_cm _ e.call hc]
        simp [hbeq]

/-! ### the operations module is the same with and without ShorterResults -/

theorem srel_opsFile (st : ShorterState) (P Q : PipeState) (h : SRel st P Q) : P.opsFile? = Q.opsFile? := by
  obtain ⟨a, b, _, _, hP, hQ⟩ := h.lists
  unfold PipeState.opsFile?
  rw [hP, hQ]
  simp [List.reverse_append, List.findSome?_append, List.findSome?_cons]

/-! ### the whole run -/

theorem shorter_rel_pipeline (a b : List PState) (hna : NoSF a) (hnb : NoSF b) (st0 : ShorterState) (pre post : List Event) (cm : Event)
    (hcm : cm.call.hook = "generate_client_module")
    (hpre : ∀ e ∈ pre, e.call.hook ≠ "generate_client_module")
    (hpost : ∀ e ∈ post, e.call.hook ≠ "generate_client_module")
    (M : Module) (hM : inputFor (runPipeline { plugins := a ++ b } pre).1 cm = .module M)
    (hQ : (runPipeline { plugins := a ++ b } (pre ++ cm :: post)).2 = none) :
    ∃ fr Min, ImportsOnly fr ∧
      (runPipeline { plugins := a ++ b } (pre ++ cm :: post)).1.clientModule? = some { body := fr ++ Min.body } ∧
      (match shorterClientModule (pre.foldl bookStep st0) Min with
       | .error err => (runPipeline { plugins := a ++ .shorter st0 :: b } (pre ++ cm :: post)).2 = some err
       | .ok r => (runPipeline { plugins := a ++ .shorter st0 :: b } (pre ++ cm :: post)).2 = none ∧
           (runPipeline { plugins := a ++ .shorter st0 :: b } (pre ++ cm :: post)).1.clientModule? = some { body := fr ++ r.2.body } ∧
           (runPipeline { plugins := a ++ .shorter st0 :: b } (pre ++ cm :: post)).1.opsFile? =
             (runPipeline { plugins := a ++ b } (pre ++ cm :: post)).1.opsFile?) := by
  have h0 : SRel st0 { plugins := a ++ .shorter st0 :: b } { plugins := a ++ b } :=
    ⟨⟨a, b, hna, hnb, rfl, rfl⟩, rfl, rfl, rfl, rfl, rfl⟩
  -- the unplugged-of-ShorterResults run does not fail anywhere
  have hQpre : (runPipeline { plugins := a ++ b } pre).2 = none := by
    rw [runPipeline_append] at hQ
    cases hp : (runPipeline { plugins := a ++ b } pre).2 with
    | none => rfl
    | some err => rw [hp] at hQ; simp at hQ
  obtain ⟨hp1, hrel⟩ := runPipeline_srel pre hpre st0 _ _ h0 hQpre
  obtain ⟨fr, Min, Q1, hfr, e2, hfQ, hmatch⟩ := stepEvent_srel_cm (pre.foldl bookStep st0) _ _ cm hcm hrel M hM
  have hrunQ : runPipeline { plugins := a ++ b } (pre ++ cm :: post) = runPipeline Q1 post := by
    rw [runPipeline_append, hQpre]; simp only; conv => lhs; unfold runPipeline
    rw [e2]
  have hQpost : (runPipeline Q1 post).2 = none := by rw [← hrunQ]; exact hQ
  refine ⟨fr, Min, hfr, ?_, ?_⟩
  · rw [hrunQ]; unfold PipeState.clientModule?; rw [runPipeline_finalOf post _ hpost Q1, hfQ]
  · cases hsc : shorterClientModule (pre.foldl bookStep st0) Min with
    | error err =>
      rw [hsc] at hmatch
      simp only at hmatch ⊢
      rw [runPipeline_append, hp1]
      simp only
      conv => lhs; unfold runPipeline
      rw [hmatch]
    | ok r =>
      rw [hsc] at hmatch
      simp only at hmatch ⊢
      obtain ⟨P1, e1, hrel1, hfP⟩ := hmatch
      have hrunP : runPipeline { plugins := a ++ .shorter st0 :: b } (pre ++ cm :: post) = runPipeline P1 post := by
        rw [runPipeline_append, hp1]; simp only; conv => lhs; unfold runPipeline
        rw [e1]
      obtain ⟨hr1, hrelpost⟩ := runPipeline_srel post hpost r.1 P1 Q1 hrel1 hQpost
      refine ⟨by rw [hrunP]; exact hr1, ?_, ?_⟩
      · rw [hrunP]; unfold PipeState.clientModule?; rw [runPipeline_finalOf post _ hpost P1, hfP]
      · rw [hrunP, hrunQ]; exact srel_opsFile _ _ _ hrelpost

end Ariadne.C15
