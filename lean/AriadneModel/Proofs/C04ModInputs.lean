/-
  Proofs/C04ModInputs.lean — `input_types.py`: every import resolves, every name a class statement evaluates is a
  builtin or imported, every quoted forward reference names a class of the module (the dependency closure keeps it),
  every `model_rebuild()` names a class of the module.
-/
import AriadneModel.Proofs.C04Resolve
import AriadneModel.Proofs.C04ModEnums
import AriadneModel.Proofs.Prune

set_option linter.unusedSimpArgs false
set_option linter.unusedVariables false

namespace Ariadne.C04Proofs
open Ariadne Ariadne.Gql Ariadne.Util Ariadne.Package Ariadne.PackageTriggers Ariadne.PackageValid Ariadne.Spec.PyScope

/-! ### small facts -/

theorem lookup_mem_values {β : Type} : ∀ (l : List (String × β)) (k : String) (v : β), List.lookup k l = some v → v ∈ l.map (·.2)
  | [], _, _, h => by simp at h
  | (a, b) :: rest, k, v, h => by
    simp only [List.lookup_cons] at h
    split at h
    · simp at h; simp [h]
    · exact List.mem_cons_of_mem _ (lookup_mem_values rest k v h)

theorem inputScalars_values : ∀ v ∈ Tables.inputScalarsMap.map (·.2), builtins.contains v = true ∨ v = Tables.uploadClassName := by
  decide

theorem gname_no_dot {l : List Char} (h : Names.GName l) : '.' ∉ l := by
  cases l with
  | nil => exact List.not_mem_nil
  | cons c cs =>
    obtain ⟨h1, h2⟩ := h
    intro hm
    rcases List.mem_cons.mp hm with e | e
    · subst e
      revert h1
      decide
    · have := h2 '.' e
      revert this
      decide

theorem takeWhile_no_dot : ∀ (l r : List Char), '.' ∉ l → (l ++ '.' :: r).takeWhile (· != '.') = l
  | [], r, _ => by simp
  | c :: cs, r, h => by
    have hc : c ≠ '.' := fun e => h (by simp [e])
    have : (c != '.') = true := by simpa using hc
    simp only [List.cons_append, List.takeWhile_cons, this, if_true]
    rw [takeWhile_no_dot cs r (fun hm => h (List.mem_cons_of_mem _ hm))]

theorem dottedHead_enum {n v : String} (h : '.' ∉ n.toList) : dottedHead (n ++ "." ++ v) = n := by
  unfold dottedHead
  have : (n ++ "." ++ v).toList = n.toList ++ '.' :: v.toList := by simp [String.toList_append]
  rw [this, takeWhile_no_dot _ _ h]
  simp

/-- an import statement of the list binds the name -/
def ImportedBy (is : List Import) (u : String) : Prop := ∃ i ∈ is, u ∈ i.names

/-! ### what `Valid` says about the two vocabularies -/

theorem findDef_mem {defs : List InputGen.TypeDef} {n : String} {d : InputGen.TypeDef} (h : InputGen.findDef defs n = some d) :
    d ∈ defs ∧ d.name = n := by
  unfold InputGen.findDef at h
  exact ⟨List.mem_of_find?_eq_some h, by simpa using List.find?_some h⟩

/-- `defs → schema` direction of `defsMatch` for enums -/
theorem defsMatch_enum {inp : Input} (hm : defsMatch inp = true) {n : String} {vs : List String}
    (h : InputGen.findDef inp.defs n = some (.enum n vs)) : inp.schema.kindOf? n = some .enum := by
  unfold defsMatch at hm
  simp only [Bool.and_eq_true] at hm
  have := List.all_eq_true.mp hm.2 _ (findDef_mem h).1
  simpa using this

/-- `schema → defs` direction of `defsMatch` for input objects -/
theorem defsMatch_input {inp : Input} (hm : defsMatch inp = true) {n : String} (h : inp.schema.kindOf? n = some .input) :
    ∃ m fs, InputGen.findDef inp.defs n = some (.input m fs) := by
  unfold defsMatch at hm
  simp only [Bool.and_eq_true] at hm
  unfold Schema.kindOf? Schema.get? at h
  cases hf : inp.schema.types.find? (·.name == n) with
  | none => rw [hf] at h; simp at h
  | some t =>
    rw [hf] at h
    simp only [Option.map_some, Option.some.injEq] at h
    have hname : t.name = n := by simpa using List.find?_some hf
    have := List.all_eq_true.mp hm.1 t (List.mem_of_find?_eq_some hf)
    rw [h, hname] at this
    cases hd : InputGen.findDef inp.defs n with
    | none => rw [hd] at this; simp at this
    | some d =>
      rw [hd] at this
      cases d with
      | input m fs => exact ⟨m, fs, rfl⟩
      | enum m vs => simp at this
      | scalar m => simp at this
      | composite m => simp at this

/-! ### the scalar configuration seen by the input generator -/

theorem inputCfg_scalar {cfg : Config} {n : String} {sc : InputField.ScalarCfg} (h : (inputCfg cfg).scalar? n = some sc) :
    ∃ d, Scalars.lookupScalar cfg.scalars n = some d ∧ sc.typeName = d.typeName ∧ sc.serialize = d.serializeName := by
  unfold InputField.Cfg.scalar? inputCfg at h
  unfold Scalars.lookupScalar
  simp only at h
  generalize cfg.scalars = l at h
  induction l with
  | nil => simp at h
  | cons a rest ih =>
    obtain ⟨k, d⟩ := a
    simp only [List.map_cons, List.find?_cons] at h ⊢
    by_cases hk : k == n
    · simp only [hk] at h ⊢
      simp only [Option.some.injEq] at h
      subst h
      exact ⟨d, rfl, rfl, rfl⟩
    · simp only [hk] at h ⊢
      exact ih h

theorem lookupScalar_mem {l : Scalars.ScalarCfg} {n : String} {d : Scalars.ScalarData} (h : Scalars.lookupScalar l n = some d) :
    ∃ k, (k, d) ∈ l := by
  unfold Scalars.lookupScalar at h
  cases hf : l.find? (·.1 == n) with
  | none => rw [hf] at h; simp at h
  | some p =>
    rw [hf] at h
    simp only [Option.some.injEq] at h
    subst h
    exact ⟨p.1, List.mem_of_find?_eq_some hf⟩

/-- the conjuncts of `cfgOK`, named -/
structure CfgFacts (cfg : Config) : Prop where
  enumsNe : cfg.enumsModule ≠ ""
  inputsNe : cfg.inputsModule ≠ ""
  baseNe : stem cfg.baseClientFile ≠ ""
  enumsDot : leadingDot cfg.enumsModule = false
  inputsDot : leadingDot cfg.inputsModule = false
  fragsDot : leadingDot cfg.fragmentsModule = false
  clientDot : leadingDot cfg.clientFile = false
  baseDot : leadingDot (stem cfg.baseClientFile) = false
  basePy : pyFile (stem cfg.baseClientFile) = cfg.baseClientFile
  notBaseModel : cfg.baseClientFile ≠ baseModelFile
  notExceptions : cfg.baseClientFile ≠ exceptionsFile
  notBaseOperation : cfg.baseClientFile ≠ baseOperationFile
  scalars : (cfg.scalars.all fun nd => scalarOK cfg nd.2) = true

theorem cfgFacts {cfg : Config} (h : cfgOK cfg = true) : CfgFacts cfg := by
  unfold cfgOK at h
  simp only [Bool.and_eq_true, Bool.not_eq_true', bne_iff_ne, ne_eq, beq_iff_eq] at h
  obtain ⟨⟨⟨⟨⟨⟨⟨⟨⟨⟨⟨⟨a1, a2⟩, a3⟩, a4⟩, a5⟩, a6⟩, a7⟩, a8⟩, a9⟩, a10⟩, a11⟩, a12⟩, a13⟩ := h
  exact ⟨a1, a2, a3, a4, a5, a6, a7, a8, a9, a10, a11, a12, a13⟩

theorem scalarOK_imports {cfg : Config} {d : Scalars.ScalarData} (h : scalarOK cfg d = true) :
    ∀ i ∈ Scalars.scalarImports d, i.module ≠ "" ∧ userImportOK cfg (ofScalarImport i) = true := by
  unfold scalarOK at h
  simp only [Bool.and_eq_true] at h
  intro i hi
  have := List.all_eq_true.mp h.2 i hi
  simp only [Bool.and_eq_true, bne_iff_ne, ne_eq] at this
  exact this

theorem scalarOK_of_lookup {cfg : Config} (hc : cfgOK cfg = true) {n : String} {d : Scalars.ScalarData}
    (h : Scalars.lookupScalar cfg.scalars n = some d) : scalarOK cfg d = true := by
  obtain ⟨k, hk⟩ := lookupScalar_mem h
  have hall : (cfg.scalars.all fun nd => scalarOK cfg nd.2) = true := (cfgFacts hc).scalars
  have := List.all_eq_true.mp hall (k, d) hk
  exact this

/-- a user import that passed `userImportOK` resolves in the package -/
theorem resolves_userImport {cfg : Config} {inp : Input} {p : PackageIR} {st : St} {io : InputsOut}
    {fx : Option (Fragments.FragmentsOut × List Fragments.DefGen)} (F : Facts cfg inp p st io fx) {i : Import}
    (h : userImportOK cfg i = true) : Resolves p (normImport i) := by
  unfold userImportOK at h
  simp only [Bool.or_eq_true, Bool.and_eq_true, beq_iff_eq] at h
  rcases h with h | ⟨⟨h1, h2⟩, h3⟩
  · exact Or.inl h
  · have hmem : pyFile (normImport i).module ∈ copiedList cfg := by simpa [copiedFiles, copiedList] using h2
    refine F.resolves (copied_mem_written hmem) h1 rfl ?_
    intro ns hns
    rw [exported_copied] at hns
    rw [hns] at h3
    intro n hn
    have := List.all_eq_true.mp h3 n hn
    simpa using this

/-- the names a configured scalar's annotations mention are builtins, `Any`, or bound by its imports -/
theorem scalar_name_bound {cfg : Config} {d : Scalars.ScalarData} (h : scalarOK cfg d = true) {u : String}
    (hu : u = d.typeName ∨ some u = d.parseName ∨ some u = d.serializeName) :
    builtins.contains u = true ∨ u = "Any" ∨ ImportedBy ((Scalars.scalarImports d).map ofScalarImport) u := by
  unfold scalarOK at h
  simp only [Bool.and_eq_true] at h
  obtain ⟨⟨⟨h1, h2⟩, h3⟩, _⟩ := h
  have key : (alwaysBound ++ Scalars.boundNames (Scalars.scalarImports d)).contains u = true := by
    rcases hu with rfl | hu | hu
    · exact h1
    · rw [← hu] at h2; exact h2
    · rw [← hu] at h3; exact h3
  have : u ∈ alwaysBound ++ Scalars.boundNames (Scalars.scalarImports d) := by simpa using key
  rcases List.mem_append.mp this with h | h
  · have : builtins.contains u = true ∨ u = "Any" := by
      revert h
      simp only [alwaysBound, builtins]
      intro h
      simp only [List.mem_cons, List.mem_nil_iff, or_false] at h
      rcases h with rfl | rfl | rfl | rfl | rfl | rfl | rfl | rfl | rfl | rfl | rfl <;> first | exact Or.inl (by decide) | exact Or.inr rfl
    rcases this with h | h
    · exact Or.inl h
    · exact Or.inr (Or.inl h)
  · unfold Scalars.boundNames at h
    obtain ⟨ns, hns, hu'⟩ := List.mem_flatten.mp h
    obtain ⟨i, hi, rfl⟩ := List.mem_map.mp hns
    exact Or.inr (Or.inr ⟨ofScalarImport i, List.mem_map.mpr ⟨i, hi, rfl⟩, hu'⟩)

end Ariadne.C04Proofs
